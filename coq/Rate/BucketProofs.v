(* C13 - proofs about Rate/Bucket.v *)
From Coq Require Import Lia Lqa.
From ZenoV Require Import Rate.Bucket.
Open Scope Z_scope.

(* ------------------------------------------------------------------------------------
   Well-formed bucket states.  [new_bucket c r now] is well-formed for 0 <= c, 0 <= r. *)
Definition wf (b : bucket) : Prop :=
  (0 <= tokens b)%Q /\ (tokens b <= cap b)%Q /\
  (Qmin (1 # 2) (ideal b) <= rate b)%Q /\ (rate b <= ideal b)%Q /\
  (0 <= ideal b)%Q /\ 0 <= fails b.

(* the specification's penalty: 5 s, doubling with every further failure, capped at 30 s *)
Definition penalty_spec (k : Z) : Z := Z.min (SEC5 * 2 ^ (k - 1)) SEC30.

(* ---- small facts over Q ------------------------------------------------------------ *)
Lemma Qle_bool_true x y : Qle_bool x y = true -> (x <= y)%Q.
Proof. apply Qle_bool_iff. Qed.
Lemma Qle_bool_false x y : Qle_bool x y = false -> (y < x)%Q.
Proof.
  intros H. apply Qnot_le_lt. intros Hle. apply Qle_bool_iff in Hle. congruence.
Qed.
Lemma Qlt_bool_true x y : Qlt_bool x y = true -> (x < y)%Q.
Proof. unfold Qlt_bool. intros H. apply Qle_bool_false. destruct (Qle_bool y x); [discriminate|reflexivity]. Qed.
Lemma Qlt_bool_false x y : Qlt_bool x y = false -> (y <= x)%Q.
Proof. unfold Qlt_bool. intros H. apply Qle_bool_true. destruct (Qle_bool y x); [reflexivity|discriminate]. Qed.

Lemma secs_nonneg d : 0 <= d -> (0 <= secs d)%Q.
Proof.
  intros H. unfold secs, Qdiv, Qle, Qmult, Qinv, inject_Z, NS. cbn [Qnum Qden Z.mul Pos.mul]. lia.
Qed.

Lemma secs_le d e : d <= e -> (secs d <= secs e)%Q.
Proof.
  intros H. unfold secs, Qdiv, Qle, Qmult, Qinv, inject_Z, NS. cbn [Qnum Qden Z.mul Pos.mul]. lia.
Qed.

Lemma secs_plus d e : (secs (d + e) == secs d + secs e)%Q.
Proof.
  unfold secs. rewrite inject_Z_plus. field. unfold NS, Qeq; simpl; lia.
Qed.

Lemma Qmin_half_nonneg x : (0 <= x)%Q -> (0 <= Qmin (1 # 2) x)%Q.
Proof. intros H. apply Q.min_glb; [lra|exact H]. Qed.

Lemma wf_rate_nonneg b : wf b -> (0 <= rate b)%Q.
Proof.
  intros (_ & _ & Hlo & _ & Hid & _).
  apply Qle_trans with (Qmin (1 # 2) (ideal b)); [apply Qmin_half_nonneg; exact Hid|exact Hlo].
Qed.

Lemma wf_cap_nonneg b : wf b -> (0 <= cap b)%Q.
Proof. intros (H0 & H1 & _). apply Qle_trans with (tokens b); assumption. Qed.

Lemma halfpow_range k : 0 <= k -> (0 <= (1 # 2) ^ k)%Q /\ ((1 # 2) ^ k <= 1)%Q.
Proof.
  intros Hk. split.
  - apply Qpower_0_le. lra.
  - assert (E : ((1 # 2) ^ k == / (2 ^ k))%Q).
    { change (1 # 2)%Q with (/ 2)%Q. apply Qinv_power. }
    rewrite E.
    assert (H1 : (1 <= 2 ^ k)%Q) by (apply Qpower_1_le; [lra|exact Hk]).
    assert (Hp : (0 < 2 ^ k)%Q) by (apply Qpower_0_lt; reflexivity).
    apply Qle_shift_inv_r; [exact Hp|]. lra.
Qed.

Lemma mul_le_of_le_one x y : (0 <= x)%Q -> (0 <= y)%Q -> (y <= 1)%Q -> (x * y <= x)%Q.
Proof.
  intros Hx Hy H1.
  setoid_replace x with (x * 1)%Q at 2 by ring.
  rewrite (Qmult_comm x y), (Qmult_comm x 1).
  apply Qmult_le_compat_r; assumption.
Qed.

Lemma mul_le_mono_nonneg x y z : (0 <= x)%Q -> (y <= z)%Q -> (x * y <= x * z)%Q.
Proof.
  intros Hx Hyz. rewrite (Qmult_comm x y), (Qmult_comm x z).
  apply Qmult_le_compat_r; assumption.
Qed.

(* ---- penalties --------------------------------------------------------------------- *)
Lemma pow2_pos e : 0 <= e -> 0 < 2 ^ e.
Proof. intros; apply Z.pow_pos_nonneg; lia. Qed.

Lemma penalty_raw_nonneg k : 0 <= penalty_raw k.
Proof.
  unfold penalty_raw, SEC5, NS. destruct (Z.leb_spec 1 k).
  - assert (0 < 2 ^ (k - 1)) by (apply pow2_pos; lia). lia.
  - apply Z.div_pos; [lia|apply pow2_pos; lia].
Qed.

Lemma penalty_raw_mono k k' : k <= k' -> penalty_raw k <= penalty_raw k'.
Proof.
  intros Hle. unfold penalty_raw, SEC5, NS.
  destruct (Z.leb_spec 1 k), (Z.leb_spec 1 k'); try lia.
  - apply Z.mul_le_mono_nonneg_l; [lia|]. apply Z.pow_le_mono_r; lia.
  - apply Z.le_trans with (5 * 1000000000).
    + apply Z.div_le_upper_bound; [apply pow2_pos; lia|].
      assert (0 < 2 ^ (1 - k)) by (apply pow2_pos; lia). nia.
    + assert (0 < 2 ^ (k' - 1)) by (apply pow2_pos; lia). nia.
  - apply Z.div_le_compat_l; [lia|]. split; [apply pow2_pos; lia|].
    apply Z.pow_le_mono_r; lia.
Qed.

Lemma penalty_ns_nonneg k : 0 <= penalty_ns k.
Proof.
  unfold penalty_ns. pose proof (penalty_raw_nonneg k).
  destruct (Z.ltb_spec (penalty_raw k) SEC30); [lia|unfold SEC30, NS; lia].
Qed.

Lemma penalty_ns_mono k k' : k <= k' -> penalty_ns k <= penalty_ns k'.
Proof.
  intros Hle. pose proof (penalty_raw_mono k k' Hle). unfold penalty_ns.
  destruct (Z.ltb_spec (penalty_raw k) SEC30), (Z.ltb_spec (penalty_raw k') SEC30); lia.
Qed.

(* the fixed code implements the specified penalty for every count a bucket can reach *)
Lemma penalty_ns_spec k : 1 <= k -> penalty_ns k = penalty_spec k.
Proof.
  intros Hk. unfold penalty_ns, penalty_spec, penalty_raw.
  destruct (Z.leb_spec 1 k); [|lia].
  destruct (Z.ltb_spec (SEC5 * 2 ^ (k - 1)) SEC30); lia.
Qed.

Lemma penalty_spec_values :
  penalty_spec 1 = 5 * NS /\ penalty_spec 2 = 10 * NS /\ penalty_spec 3 = 20 * NS /\
  forall k, 4 <= k -> penalty_spec k = 30 * NS.
Proof.
  repeat split; try reflexivity.
  intros k Hk. unfold penalty_spec, SEC5, SEC30, NS.
  assert (2 ^ 3 <= 2 ^ (k - 1)) by (apply Z.pow_le_mono_r; lia).
  change (2 ^ 3) with 8 in *. lia.
Qed.

(* ---- well-formedness is preserved by every operation (no assumption on time order) -- *)
Lemma refill_wf now b : wf b -> wf (refill now b).
Proof.
  intros Hwf. unfold refill.
  destruct (now <? pen b); [exact Hwf|].
  set (base := if last b <? pen b then pen b else last b).
  destruct (Z.ltb_spec base now) as [Hlt|]; [|exact Hwf].
  pose proof (wf_rate_nonneg b Hwf) as Hr.
  destruct Hwf as (H0 & H1 & Hlo & Hhi & Hid & Hf).
  unfold wf; cbn [tokens cap rate ideal fails].
  assert (Hs : (0 <= secs (now - base))%Q) by (apply secs_nonneg; lia).
  assert (Hp : (0 <= secs (now - base) * rate b)%Q) by (apply Qmult_le_0_compat; assumption).
  repeat split; try assumption.
  - apply Q.min_glb; [apply Qle_trans with (tokens b); assumption|lra].
  - apply Q.le_min_l.
Qed.

Lemma try_wf now b : wf b -> wf (fst (try now b)).
Proof.
  intros Hwf. unfold try. pose proof (refill_wf now b Hwf) as H.
  destruct (Qle_bool 1 (tokens (refill now b))) eqn:E; cbn [fst]; [|exact H].
  apply Qle_bool_true in E.
  destruct H as (H0 & H1 & Hrest). unfold wf, set_tokens; cbn [tokens cap rate ideal fails].
  repeat split; try apply Hrest; lra.
Qed.

Lemma fail_wf now s b : wf b -> wf (fail now s b).
Proof.
  intros Hwf. unfold fail, fail_with.
  pose proof (wf_cap_nonneg b Hwf) as Hc. pose proof (wf_rate_nonneg b Hwf) as Hr.
  destruct Hwf as (H0 & H1 & Hlo & Hhi & Hid & Hf).
  destruct (is_throttle s).
  - unfold wf; cbn [tokens cap rate ideal fails]. repeat split; try assumption; try lra; lia.
  - destruct (500 <=? s); [|unfold wf; repeat split; assumption].
    unfold wf; cbn [tokens cap rate ideal fails].
    destruct (halfpow_range (fails b + 1)) as [Hp0 Hp1]; [lia|].
    repeat split; try assumption; try lra; try lia.
    + apply Q.le_max_r.
    + apply Q.max_lub.
      * apply Qle_trans with (rate b); [|exact Hhi]. apply mul_le_of_le_one; assumption.
      * unfold floor_fixed. apply Q.le_min_r.
Qed.

Lemma succ_wf now b : wf b -> wf (succ now b).
Proof.
  intros Hwf. unfold succ. destruct (pen b <? now); [|exact Hwf].
  destruct Hwf as (H0 & H1 & Hlo & Hhi & Hid & Hf).
  unfold wf; cbn [tokens cap rate ideal fails].
  repeat split; try assumption.
  - destruct (Qlt_bool (rate b) (ideal b)) eqn:E; [|exact Hlo].
    apply Qlt_bool_true in E.
    destruct (Qlt_bool (ideal b) (rate b + (ideal b - rate b) * (1 # 10))) eqn:E2.
    + apply Q.le_min_r.
    + lra.
  - destruct (Qlt_bool (rate b) (ideal b)) eqn:E; [|exact Hhi].
    destruct (Qlt_bool (ideal b) (rate b + (ideal b - rate b) * (1 # 10))) eqn:E2.
    + lra.
    + apply Qlt_bool_false in E2. exact E2.
  - destruct (Z.ltb_spec 0 (fails b)); lia.
Qed.

Lemma step_wf b o : wf b -> wf (fst (step b o)).
Proof.
  intros Hwf. destruct o as [t|t s|t]; cbn [step step_with fst].
  - apply try_wf; exact Hwf.
  - apply fail_wf; exact Hwf.
  - apply succ_wf; exact Hwf.
Qed.

Lemma run_cons b o r :
  run b (o :: r) =
  (fst (run (fst (step b o)) r),
   if snd (step b o) then op_time o :: snd (run (fst (step b o)) r) else snd (run (fst (step b o)) r)).
Proof.
  unfold run, step. cbn [run_with].
  destruct (step_with fail b o) as [b1 g]. cbn [fst snd].
  destruct (run_with fail b1 r) as [b2 gs]. reflexivity.
Qed.

Lemma final_cons b o r : final b (o :: r) = final (fst (step b o)) r.
Proof. unfold final. rewrite run_cons. reflexivity. Qed.

Lemma grants_cons b o r :
  grants b (o :: r) =
  if snd (step b o) then op_time o :: grants (fst (step b o)) r else grants (fst (step b o)) r.
Proof. unfold grants. rewrite run_cons. reflexivity. Qed.

Lemma final_app b h1 h2 : final b (h1 ++ h2) = final (final b h1) h2.
Proof.
  revert b; induction h1 as [|o r IH]; intros b; [reflexivity|].
  cbn [app]. rewrite !final_cons. apply IH.
Qed.

Lemma grants_app b h1 h2 : grants b (h1 ++ h2) = grants b h1 ++ grants (final b h1) h2.
Proof.
  revert b; induction h1 as [|o r IH]; intros b; [reflexivity|].
  cbn [app]. rewrite !grants_cons, final_cons, IH.
  destruct (snd (step b o)); reflexivity.
Qed.

(* ---- tokens_range / rate_range: every state of every history ------------------------ *)
Theorem run_wf_lemma b h : wf b -> wf (final b h).
Proof.
  revert b; induction h as [|o r IH]; intros b Hwf; [exact Hwf|].
  rewrite final_cons. apply IH. apply step_wf. exact Hwf.
Qed.

Lemma new_bucket_wf c r now : (0 <= c)%Q -> (0 <= r)%Q -> wf (new_bucket c r now).
Proof.
  intros Hc Hr. unfold wf, new_bucket; cbn [tokens cap rate ideal fails].
  repeat split; try assumption; try lra; try lia. apply Q.le_min_r.
Qed.

Theorem tokens_range_lemma c r t0 h :
  (0 <= c)%Q -> (0 <= r)%Q ->
  let b := final (new_bucket c r t0) h in (0 <= tokens b)%Q /\ (tokens b <= c)%Q.
Proof.
  intros Hc Hr b.
  assert (Hwf : wf b) by (apply run_wf_lemma, new_bucket_wf; assumption).
  assert (Hcap : forall b0 h0, cap (final b0 h0) = cap b0).
  { intros b0 h0; revert b0; induction h0 as [|o q IH]; intros b0; [reflexivity|].
    rewrite final_cons, IH. destruct o as [t|t s|t]; cbn [step step_with fst].
    - unfold try, refill, set_tokens. repeat (match goal with |- context [if ?c then _ else _] => destruct c end); reflexivity.
    - unfold fail, fail_with. repeat (match goal with |- context [if ?c then _ else _] => destruct c end); reflexivity.
    - unfold succ. destruct (pen b0 <? t); reflexivity. }
  destruct Hwf as (H0 & H1 & _). subst b. rewrite Hcap in H1. cbn [cap new_bucket] in H1.
  split; assumption.
Qed.

(* cap and ideal never change *)
Lemma step_cap_ideal b o : cap (fst (step b o)) = cap b /\ ideal (fst (step b o)) = ideal b.
Proof.
  destruct o as [t|t s|t]; cbn [step step_with fst].
  - unfold try, refill, set_tokens.
    repeat (match goal with |- context [if ?c then _ else _] => destruct c end); split; reflexivity.
  - unfold fail, fail_with.
    repeat (match goal with |- context [if ?c then _ else _] => destruct c end); split; reflexivity.
  - unfold succ. destruct (pen b <? t); split; reflexivity.
Qed.

Lemma final_cap_ideal b h : cap (final b h) = cap b /\ ideal (final b h) = ideal b.
Proof.
  revert b; induction h as [|o r IH]; intros b; [split; reflexivity|].
  rewrite final_cons. destruct (IH (fst (step b o))) as [E1 E2].
  destruct (step_cap_ideal b o) as [E3 E4]. split; congruence.
Qed.

Theorem rate_range_lemma c r t0 h :
  (0 <= c)%Q -> (0 <= r)%Q ->
  let b := final (new_bucket c r t0) h in (Qmin (1 # 2) r <= rate b)%Q /\ (rate b <= r)%Q.
Proof.
  intros Hc Hr b.
  assert (Hwf : wf b) by (apply run_wf_lemma, new_bucket_wf; assumption).
  destruct Hwf as (_ & _ & Hlo & Hhi & _). subst b.
  destruct (final_cap_ideal (new_bucket c r t0) h) as [_ E]. rewrite E in Hlo, Hhi.
  split; assumption.
Qed.

(* ---- window bound: the potential argument ------------------------------------------- *)
(* instant from which the next refill measures elapsed time *)
Definition base (b : bucket) : Z := Z.max (last b) (pen b).

(* tokens the bucket could hold at time [t] if it refilled at the configured rate *)
Definition phi (b : bucket) (t : Z) : Q :=
  Qmin (cap b) (tokens b + ideal b * secs (Z.max 0 (t - base b)))%Q.

Definition glen (l : list Z) : Q := inject_Z (Z.of_nat (length l)).
Definition gq (g : bool) : Q := if g then 1%Q else 0%Q.

Lemma secs_0 : (secs 0 == 0)%Q.
Proof. reflexivity. Qed.

Lemma phi_le_cap b t : (phi b t <= cap b)%Q.
Proof. apply Q.le_min_l. Qed.

Lemma phi_nonneg b t : wf b -> (0 <= phi b t)%Q.
Proof.
  intros Hwf. pose proof (wf_cap_nonneg b Hwf) as Hc.
  destruct Hwf as (H0 & _ & _ & _ & Hid & _).
  apply Q.min_glb; [exact Hc|].
  assert (Hs : (0 <= secs (Z.max 0 (t - base b)))%Q) by (apply secs_nonneg; lia).
  assert (Hp : (0 <= ideal b * secs (Z.max 0 (t - base b)))%Q) by (apply Qmult_le_0_compat; assumption).
  lra.
Qed.

(* at or before [base], the potential is the token count *)
Lemma phi_at_base tk c r i l p f t :
  let b := mkB tk c r i l p f in
  t <= base b -> (tk <= c)%Q -> (phi b t == tk)%Q.
Proof.
  intros b Ht Hc. subst b. unfold phi. cbn [tokens cap ideal].
  rewrite Z.max_l by lia. rewrite secs_0.
  setoid_replace (tk + i * 0)%Q with tk by ring.
  apply Q.min_r. exact Hc.
Qed.

Lemma phi_time b t t' : wf b -> t <= t' -> (phi b t' <= phi b t + ideal b * secs (t' - t))%Q.
Proof.
  intros Hwf Hle. destruct Hwf as (_ & _ & _ & _ & Hid & _). unfold phi.
  assert (Hs : (secs (Z.max 0 (t' - base b)) <= secs (Z.max 0 (t - base b)) + secs (t' - t))%Q).
  { rewrite <- secs_plus. apply secs_le. lia. }
  assert (Hd : (0 <= secs (t' - t))%Q) by (apply secs_nonneg; lia).
  assert (Hm : (ideal b * secs (Z.max 0 (t' - base b)) <=
                ideal b * (secs (Z.max 0 (t - base b)) + secs (t' - t)))%Q)
    by (apply mul_le_mono_nonneg; assumption).
  assert (Hp : (0 <= ideal b * secs (t' - t))%Q) by (apply Qmult_le_0_compat; assumption).
  destruct (Q.min_spec (cap b) (tokens b + ideal b * secs (Z.max 0 (t - base b)))) as [[_ E]|[_ E]];
    rewrite E.
  - apply Qle_trans with (cap b); [apply Q.le_min_l|lra].
  - apply Qle_trans with (tokens b + ideal b * secs (Z.max 0 (t' - base b)))%Q; [apply Q.le_min_r|].
    lra.
Qed.

(* refill never yields more than the potential, and leaves [now] at or before the new base *)
Lemma refill_phi now b :
  wf b -> let b' := refill now b in
  now <= base b' /\ (tokens b' <= phi b now)%Q.
Proof.
  intros Hwf b'. subst b'. unfold refill.
  pose proof (wf_rate_nonneg b Hwf) as Hr.
  destruct Hwf as (H0 & H1 & Hlo & Hhi & Hid & Hf).
  assert (Hbase : (if last b <? pen b then pen b else last b) = base b)
    by (unfold base; destruct (Z.ltb_spec (last b) (pen b)); lia).
  rewrite Hbase.
  destruct (Z.ltb_spec now (pen b)) as [Hp|Hp].
  - split; [unfold base; lia|].
    unfold phi. rewrite Z.max_l by (unfold base; lia). rewrite secs_0.
    apply Q.min_glb; lra.
  - destruct (Z.ltb_spec (base b) now) as [Hlt|Hge].
    + split; [unfold base; cbn [last pen]; lia|]. cbn [tokens].
      unfold phi. rewrite Z.max_r by lia.
      apply Q.min_le_compat_l.
      assert (Hs : (0 <= secs (now - base b))%Q) by (apply secs_nonneg; lia).
      assert (Hm : (secs (now - base b) * rate b <= secs (now - base b) * ideal b)%Q)
        by (apply mul_le_mono_nonneg; assumption).
      rewrite (Qmult_comm (ideal b)). lra.
    + split; [exact Hge|].
      unfold phi. rewrite Z.max_l by lia. rewrite secs_0.
      apply Q.min_glb; lra.
Qed.

Lemma phi_step b o :
  wf b ->
  (gq (snd (step b o)) + phi (fst (step b o)) (op_time o) <= phi b (op_time o))%Q.
Proof.
  intros Hwf. destruct o as [t|t s|t]; cbn [step step_with fst snd op_time].
  - (* Try *)
    destruct (refill_phi t b Hwf) as [Hb Hphi].
    pose proof (refill_wf t b Hwf) as (R0 & R1 & _).
    unfold try. destruct (refill t b) as [tk c r i l p f] eqn:ER.
    cbn [tokens cap] in *.
    destruct (Qle_bool 1 tk) eqn:E; cbn [fst snd gq].
    + apply Qle_bool_true in E. unfold set_tokens. cbn [tokens cap rate ideal last pen fails].
      rewrite phi_at_base; [lra|exact Hb|lra].
    + rewrite phi_at_base; [lra|exact Hb|exact R1].
  - (* Fail *)
    cbn [gq]. pose proof (phi_nonneg b t Hwf) as Hnn.
    unfold fail, fail_with. destruct (is_throttle s).
    + rewrite phi_at_base.
      * lra.
      * unfold base; cbn [last pen]. pose proof (penalty_ns_nonneg (fails b + 1)). lia.
      * exact (wf_cap_nonneg b Hwf).
    + destruct (500 <=? s); [|lra].
      destruct Hwf as (H0 & _).
      unfold phi at 1. cbn [tokens cap ideal]. unfold base; cbn [last pen]. fold (base b).
      unfold phi.
      assert (Hm : (Qmin (cap b) (0 + ideal b * secs (Z.max 0 (t - base b))) <=
                    Qmin (cap b) (tokens b + ideal b * secs (Z.max 0 (t - base b))))%Q)
        by (apply Q.min_le_compat_l; lra).
      lra.
  - (* Succ *)
    cbn [gq]. unfold succ. destruct (pen b <? t); [|lra].
    unfold phi, base; cbn [tokens cap ideal last pen]. lra.
Qed.

Lemma window_potential h : forall b t,
  wf b -> chain t h ->
  (glen (grants b h) + phi (final b h) (end_time t h) <= phi b t + ideal b * secs (end_time t h - t))%Q.
Proof.
  induction h as [|o r IH]; intros b t Hwf Hch.
  - cbn [end_time]. unfold glen, grants, final, run; cbn [run_with fst snd length Z.of_nat inject_Z].
    rewrite Z.sub_diag, secs_0. unfold inject_Z. lra.
  - destruct Hch as [Hlo Hch]. cbn [end_time].
    rewrite final_cons, grants_cons.
    pose proof (step_wf b o Hwf) as Hwf1.
    destruct (step_cap_ideal b o) as [_ Eid].
    specialize (IH (fst (step b o)) (op_time o) Hwf1 Hch). rewrite Eid in IH.
    pose proof (phi_step b o Hwf) as Hst.
    pose proof (phi_time b t (op_time o) Hwf Hlo) as Htm.
    assert (Hend : op_time o <= end_time (op_time o) r).
    { clear - Hch. revert Hch. generalize (op_time o) as lo. induction r as [|o' r' IHr]; intros lo Hc; cbn [end_time]; [lia|].
      destruct Hc as [H1 H2]. specialize (IHr _ H2). lia. }
    assert (Hsp : (secs (end_time (op_time o) r - t) ==
                   secs (end_time (op_time o) r - op_time o) + secs (op_time o - t))%Q).
    { rewrite <- secs_plus. f_equiv. lia. }
    assert (Hg : (glen (if snd (step b o) then op_time o :: grants (fst (step b o)) r
                        else grants (fst (step b o)) r) ==
                  gq (snd (step b o)) + glen (grants (fst (step b o)) r))%Q).
    { destruct (snd (step b o)); unfold glen, gq; cbn [length].
      - rewrite Nat2Z.inj_succ, <- Z.add_1_l, inject_Z_plus. reflexivity.
      - ring. }
    rewrite Hg, Hsp. 
    rewrite Qmult_plus_distr_r. lra.
Qed.

Lemma end_time_ge lo h : chain lo h -> lo <= end_time lo h.
Proof.
  revert lo; induction h as [|o r IH]; intros lo Hc; cbn [end_time]; [lia|].
  destruct Hc as [H1 H2]. specialize (IH _ H2). lia.
Qed.

(* any wf state; any history with non-decreasing times inside [t1, t2] *)
Theorem window_bound_state_lemma b t1 t2 h :
  wf b -> chain t1 h -> end_time t1 h <= t2 ->
  (glen (grants b h) <= cap b + secs (t2 - t1) * ideal b)%Q.
Proof.
  intros Hwf Hch Hend.
  pose proof (window_potential h b t1 Hwf Hch) as H.
  pose proof (phi_nonneg (final b h) (end_time t1 h) (run_wf_lemma b h Hwf)) as Hnn.
  pose proof (phi_le_cap b t1) as Hc.
  pose proof (end_time_ge t1 h Hch) as Hge.
  destruct Hwf as (_ & _ & _ & _ & Hid & _).
  assert (Hs : (secs (end_time t1 h - t1) <= secs (t2 - t1))%Q) by (apply secs_le; lia).
  assert (Hm : (ideal b * secs (end_time t1 h - t1) <= ideal b * secs (t2 - t1))%Q)
    by (apply mul_le_mono_nonneg; assumption).
  rewrite (Qmult_comm (secs (t2 - t1))). lra.
Qed.

(* the property's form: any prefix h1 (any timing), then a window h2 *)
Theorem window_bound_lemma c r t0 h1 h2 t1 t2 :
  (0 <= c)%Q -> (0 <= r)%Q -> chain t1 h2 -> end_time t1 h2 <= t2 ->
  (glen (grants (final (new_bucket c r t0) h1) h2) <= c + secs (t2 - t1) * r)%Q.
Proof.
  intros Hc Hr Hch Hend.
  assert (Hwf : wf (final (new_bucket c r t0) h1)) by (apply run_wf_lemma, new_bucket_wf; assumption).
  pose proof (window_bound_state_lemma _ t1 t2 h2 Hwf Hch Hend) as H.
  destruct (final_cap_ideal (new_bucket c r t0) h1) as [E1 E2]. rewrite E1, E2 in H. exact H.
Qed.

(* ---- penalties are honoured ---------------------------------------------------------- *)
Lemma grants_ge h : forall b lo t, chain lo h -> In t (grants b h) -> lo <= t.
Proof.
  induction h as [|o r IH]; intros b lo t Hch Hin.
  - destruct Hin.
  - destruct Hch as [Hlo Hch]. rewrite grants_cons in Hin.
    destruct (snd (step b o)).
    + destruct Hin as [<-|Hin]; [exact Hlo|]. specialize (IH _ _ _ Hch Hin). lia.
    + specialize (IH _ _ _ Hch Hin). lia.
Qed.

(* in force: a penalty imposed at [f] with failure count [k] *)
Definition in_penalty (f k : Z) (b : bucket) : Prop :=
  f + penalty_ns k <= pen b /\ (tokens b < 1)%Q /\ k <= fails b.

Lemma in_penalty_step f k b o :
  in_penalty f k b -> f <= op_time o -> op_time o < f + penalty_ns k ->
  in_penalty f k (fst (step b o)) /\ snd (step b o) = false.
Proof.
  intros (Hp & Htk & Hk) Hlo Hhi.
  destruct o as [t|t s|t]; cbn [step step_with fst snd op_time] in *.
  - unfold try, refill. destruct (Z.ltb_spec t (pen b)); [|lia].
    destruct (Qle_bool 1 (tokens b)) eqn:E.
    + apply Qle_bool_true in E. lra.
    + cbn [fst snd]. split; [|reflexivity]. repeat split; assumption.
  - split; [|reflexivity]. unfold fail, fail_with. destruct (is_throttle s).
    + unfold in_penalty; cbn [tokens pen fails]. repeat split; try lra; try lia.
      pose proof (penalty_ns_mono k (fails b + 1)). lia.
    + destruct (500 <=? s).
      * unfold in_penalty; cbn [tokens pen fails]. repeat split; try lra; try lia.
      * repeat split; assumption.
  - split; [|reflexivity]. unfold succ. destruct (Z.ltb_spec (pen b) t); [lia|].
    repeat split; assumption.
Qed.

Lemma in_penalty_no_grant h : forall f k b lo t,
  in_penalty f k b -> f <= lo -> chain lo h -> In t (grants b h) -> f + penalty_ns k <= t.
Proof.
  induction h as [|o r IH]; intros f k b lo t HJ Hf Hch Hin.
  - destruct Hin.
  - destruct (Z.lt_ge_cases (op_time o) (f + penalty_ns k)) as [Hlt|Hge].
    + destruct Hch as [Hlo Hch].
      destruct (in_penalty_step f k b o HJ) as [HJ' Hng]; [lia|exact Hlt|].
      rewrite grants_cons, Hng in Hin.
      apply (IH f k _ (op_time o) t HJ'); [lia|exact Hch|exact Hin].
    + pose proof (grants_ge (o :: r) b lo t Hch Hin) as H0.
      assert (Hall : chain (op_time o) (o :: r)) by (destruct Hch; split; [lia|assumption]).
      pose proof (grants_ge (o :: r) b (op_time o) t Hall Hin). lia.
Qed.

(* for ANY state (wf not needed): after a throttling status at [f], with resulting count k, nothing
   is released before f + penalty k, whatever operations follow (further failures of either kind,
   successes, any number of concurrent pollers) *)
Theorem penalty_state_lemma b f s h t :
  is_throttle s = true -> chain f h ->
  let b1 := fst (step b (Fail f s)) in
  In t (grants b1 h) -> f + penalty_ns (fails b1) <= t.
Proof.
  intros Hs Hch b1 Hin.
  apply (in_penalty_no_grant h f (fails b1) b1 f t); [|lia|exact Hch|exact Hin].
  subst b1. cbn [step step_with fst]. unfold fail, fail_with. rewrite Hs.
  unfold in_penalty; cbn [tokens pen fails]. repeat split; try lia; lra.
Qed.

Theorem penalty_honoured_lemma c r t0 h1 f s h2 t :
  (0 <= c)%Q -> (0 <= r)%Q -> is_throttle s = true -> chain f h2 ->
  let b1 := fst (step (final (new_bucket c r t0) h1) (Fail f s)) in
  1 <= fails b1 /\ (In t (grants b1 h2) -> f + penalty_spec (fails b1) <= t).
Proof.
  intros Hc Hr Hs Hch b1.
  assert (Hwf : wf (final (new_bucket c r t0) h1)) by (apply run_wf_lemma, new_bucket_wf; assumption).
  assert (Hk : 1 <= fails b1).
  { subst b1. cbn [step step_with fst]. unfold fail, fail_with. rewrite Hs. cbn [fails].
    destruct Hwf as (_ & _ & _ & _ & _ & Hf). lia. }
  split; [exact Hk|]. intros Hin.
  rewrite <- penalty_ns_spec by exact Hk.
  exact (penalty_state_lemma _ f s h2 t Hs Hch Hin).
Qed.

(* ---- 5xx only lowers, success only raises toward the configured rate ------------------ *)
Definition is_5xx (s : Z) : bool := negb (is_throttle s) && (500 <=? s).

Theorem five_xx_state_lemma b now s :
  wf b -> is_5xx s = true ->
  let b' := fail now s b in
  (rate b' <= rate b)%Q /\ (Qmin (1 # 2) (ideal b) <= rate b')%Q /\ pen b' = pen b /\
  (tokens b' == 0)%Q /\ fails b' = fails b + 1.
Proof.
  intros Hwf Hs b'. subst b'. unfold is_5xx in Hs. apply andb_prop in Hs. destruct Hs as [Hnt H5].
  unfold fail, fail_with. destruct (is_throttle s); [discriminate|]. rewrite H5.
  cbn [rate tokens pen fails].
  pose proof (wf_rate_nonneg b Hwf) as Hr.
  destruct Hwf as (H0 & H1 & Hlo & Hhi & Hid & Hf).
  destruct (halfpow_range (fails b + 1)) as [Hp0 Hp1]; [lia|].
  repeat split; try reflexivity.
  - apply Q.max_lub; [apply mul_le_of_le_one; assumption|exact Hlo].
  - apply Q.le_max_r.
Qed.

Theorem success_state_lemma b now :
  wf b ->
  let b' := succ now b in
  (rate b <= rate b')%Q /\ (rate b' <= ideal b)%Q /\ tokens b' = tokens b /\ pen b' = pen b /\
  (fails b' = fails b \/ fails b' = fails b - 1).
Proof.
  intros Hwf b'. subst b'. unfold succ.
  destruct Hwf as (H0 & H1 & Hlo & Hhi & Hid & Hf).
  destruct (pen b <? now); cbn [rate tokens pen fails].
  - repeat split.
    + destruct (Qlt_bool (rate b) (ideal b)) eqn:E; [|lra]. apply Qlt_bool_true in E.
      destruct (Qlt_bool (ideal b) (rate b + (ideal b - rate b) * (1 # 10))); lra.
    + destruct (Qlt_bool (rate b) (ideal b)) eqn:E; [|lra].
      destruct (Qlt_bool (ideal b) (rate b + (ideal b - rate b) * (1 # 10))) eqn:E2; [lra|].
      apply Qlt_bool_false in E2. exact E2.
    + destruct (0 <? fails b); [right|left]; reflexivity.
  - repeat split; try lra. left; reflexivity.
Qed.

(* a throttling status does not touch the rate *)
Lemma throttle_keeps_rate b now s : is_throttle s = true -> rate (fail now s b) = rate b.
Proof. intros Hs. unfold fail, fail_with. rewrite Hs. reflexivity. Qed.

Theorem five_xx_only_lowers_lemma c r t0 h now s :
  (0 <= c)%Q -> (0 <= r)%Q -> is_5xx s = true ->
  let b := final (new_bucket c r t0) h in
  let b' := fail now s b in
  (rate b' <= rate b)%Q /\ (Qmin (1 # 2) r <= rate b')%Q /\ pen b' = pen b.
Proof.
  intros Hc Hr Hs b b'.
  assert (Hwf : wf b) by (apply run_wf_lemma, new_bucket_wf; assumption).
  destruct (five_xx_state_lemma b now s Hwf Hs) as (A & B & C & _).
  destruct (final_cap_ideal (new_bucket c r t0) h) as [_ E]. fold b in E. rewrite E in B.
  repeat split; assumption.
Qed.

Theorem success_only_raises_lemma c r t0 h now :
  (0 <= c)%Q -> (0 <= r)%Q ->
  let b := final (new_bucket c r t0) h in
  let b' := succ now b in
  (rate b <= rate b')%Q /\ (rate b' <= r)%Q /\ tokens b' = tokens b /\ pen b' = pen b.
Proof.
  intros Hc Hr b b'.
  assert (Hwf : wf b) by (apply run_wf_lemma, new_bucket_wf; assumption).
  destruct (success_state_lemma b now Hwf) as (A & B & C & D & _).
  destruct (final_cap_ideal (new_bucket c r t0) h) as [_ E]. fold b in E. rewrite E in B.
  repeat split; assumption.
Qed.

(* ---- Wait(): a completed Wait is a history of Try operations of which exactly the last one
   releases a request; so every theorem over histories covers Wait and concurrent Waits. *)
Lemma wait_polls_history ts : forall b b' t,
  wait_polls b ts = (b', Some t) ->
  exists pre post, ts = pre ++ t :: post /\
    final b (map Try (pre ++ [t])) = b' /\ grants b (map Try (pre ++ [t])) = [t].
Proof.
  induction ts as [|t0 r IH]; intros b b' t H; [discriminate|].
  cbn [wait_polls] in H. destruct (try t0 b) as [b1 g] eqn:E. destruct g.
  - inversion H; subst. exists [], r. split; [reflexivity|].
    cbn [app map]. rewrite final_cons, grants_cons. cbn [step step_with]. rewrite E. split; reflexivity.
  - destruct (IH _ _ _ H) as (pre & post & -> & Hf & Hg).
    exists (t0 :: pre), post. split; [reflexivity|].
    cbn [app map]. rewrite final_cons, grants_cons. cbn [step step_with]. rewrite E. cbn [fst snd].
    split; assumption.
Qed.

(* ------------------------------------------------------------------------------------
   The code before the fixes (fixes/C13-*.diff): what fails, with witnesses. *)
Definition final_orig (b : bucket) (h : list op) : bucket := fst (run_orig b h).
Definition grants_orig (b : bucket) (h : list op) : list Z := snd (run_orig b h).

(* 5xx with a configured rate below 0.5/s RAISES the rate to 0.5/s *)
Lemma rate_range_orig_refuted :
  exists c r t0 h, (0 <= c)%Q /\ (0 <= r)%Q /\
    (r < rate (final_orig (new_bucket c r t0) h))%Q.
Proof.
  exists 1%Q, (1 # 10)%Q, 0, [Fail 0 503]. vm_compute. repeat split; intros; discriminate.
Qed.

Lemma five_xx_orig_raises_refuted :
  exists c r t0 now s, is_5xx s = true /\
    (rate (new_bucket c r t0) < rate (fail_orig now s (new_bucket c r t0)))%Q.
Proof. exists 1%Q, (1 # 10)%Q, 0, 0, 503. vm_compute. split; reflexivity. Qed.

(* ... and the window bound fails with it: 3 releases inside [2 s, 6 s] at capacity 1 and a
   configured rate of 0.1/s, where the bound is 1 + 4 * 0.1 *)
Lemma window_bound_orig_refuted :
  exists c r t0 h1 h2 t1 t2, (0 <= c)%Q /\ (0 <= r)%Q /\ chain t1 h2 /\ end_time t1 h2 <= t2 /\
    (c + secs (t2 - t1) * r < glen (grants_orig (final_orig (new_bucket c r t0) h1) h2))%Q.
Proof.
  exists 1%Q, (1 # 10)%Q, 0, [Fail 0 503],
         [Try (2 * NS); Try (4 * NS); Try (6 * NS)], (2 * NS), (6 * NS).
  vm_compute. repeat split; intros; discriminate.
Qed.

(* the 32nd consecutive failure computes a NEGATIVE penalty (float64 -> int64 overflow) ... *)
Lemma penalty_orig_overflow : penalty_ns_orig 31 = SEC30 /\ penalty_ns_orig 32 = - 2 ^ 63.
Proof. split; reflexivity. Qed.

(* ... which lifts the penalty: a request is released 1 s after the 32nd 429 *)
Lemma penalty_orig_refuted :
  exists c r t0 h1 f s h2 t, (0 <= c)%Q /\ (0 <= r)%Q /\ is_throttle s = true /\ chain f h2 /\
    let b1 := fst (step_orig (final_orig (new_bucket c r t0) h1) (Fail f s)) in
    In t (grants_orig b1 h2) /\ t < f + penalty_spec (fails b1).
Proof.
  exists 1%Q, 1%Q, 0, (repeat (Fail 0 429) 31), 0, 429, [Try NS], NS.
  vm_compute. repeat split; try (intros; discriminate). left; reflexivity.
Qed.

(* ---- non-vacuity ---------------------------------------------------------------------- *)
(* capacity 2, 1/s: two releases at once, a third one second later - the window bound is tight *)
Example window_bound_nonvacuous :
  let b := new_bucket 2 1 0 in
  let h := [Try 0; Try 0; Try 0; Try NS] in
  wf b /\ chain 0 h /\ grants b h = [0; 0; NS] /\
  (glen (grants b h) == cap b + secs (end_time 0 h - 0) * ideal b)%Q.
Proof.
  split; [apply new_bucket_wf; lra|].
  vm_compute. repeat split; intros; discriminate.
Qed.

(* 429 at t=0 (first failure: 5 s): polls at 1 s and 4.999999999 s are refused, the poll at 6 s is
   served from the one token refilled since the END of the penalty *)
Example penalty_nonvacuous :
  let b1 := fst (step (new_bucket 2 1 0) (Fail 0 429)) in
  let h := [Try NS; Try (5 * NS - 1); Try (6 * NS); Try (6 * NS)] in
  chain 0 h /\ fails b1 = 1 /\ penalty_spec 1 = 5 * NS /\ grants b1 h = [6 * NS].
Proof. vm_compute. repeat split; intros; discriminate. Qed.

(* three 5xx from 8/s: 4, 1, 1/2 (floor); ten successes later the rate is back above 5 and below 8 *)
Example five_xx_nonvacuous :
  let b := final (new_bucket 4 8 0) [Fail 0 500; Fail 0 502; Fail 0 503] in
  wf b /\ (rate b == 1 # 2)%Q /\ fails b = 3 /\
  let b' := final b (repeat (Succ 1) 10) in (5 < rate b')%Q /\ (rate b' < 8)%Q /\ fails b' = 0.
Proof.
  split; [apply run_wf_lemma, new_bucket_wf; lra|].
  vm_compute. repeat split; intros; discriminate.
Qed.

(* configured rate below the floor: a 5xx leaves it where it is (fixed code) *)
Example low_rate_nonvacuous :
  (rate (fail 0 503 (new_bucket 1 (1 # 10) 0)) == 1 # 10)%Q.
Proof. vm_compute. reflexivity. Qed.

(* a long failure streak keeps the full penalty (fixed code) *)
Example long_streak_nonvacuous :
  let b := final (new_bucket 1 1 0) (repeat (Fail 0 429) 40) in
  fails b = 40 /\ pen b = SEC30 /\ grants b [Try NS; Try (SEC30 - 1); Try (SEC30 + NS)] = [SEC30 + NS].
Proof. vm_compute. repeat split. Qed.
