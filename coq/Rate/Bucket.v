(* C13 - model of internal/pkg/archiver/ratelimiter/{ratelimiter.go,adjust.go}: one host's
   token bucket.  Executable definitions only; proofs are in BucketProofs.v.

   Arithmetic is exact (Q) where the code uses binary64; time is integer nanoseconds (Z), as
   time.Time / time.Duration are.  Every real operation runs under tb.mu, so an operation is
   atomic and a schedule of concurrent callers is a list of operations:
     Try now       one iteration of the loop in Wait(): refill(), then "if tokens >= 1 {tokens--}"
     Fail now s    adjustOnFailure(s)
     Succ now      onSuccess()
   [now] is the value nowFunc() returned inside the critical section.

   The model follows the code after the two fixes (/repo commits d903137 and ba3b6ba, patches in
   fixes/C13-*.diff); the behaviour of the code before them is kept as [penalty_ns_orig] /
   [floor_orig] / [step_orig], with witness lemmas ..._orig_refuted in BucketProofs.v. *)
From Coq Require Export ZArith QArith Qminmax Qpower List Bool.
Export ListNotations.
Open Scope Z_scope.

Record bucket := mkB {
  tokens : Q;   (* tb.tokens *)
  cap    : Q;   (* tb.capacity *)
  rate   : Q;   (* tb.refillRate, tokens per second *)
  ideal  : Q;   (* tb.idealRate: the configured rate *)
  last   : Z;   (* tb.lastRefill, ns *)
  pen    : Z;   (* tb.penaltyUntil, ns *)
  fails  : Z    (* tb.failureCount *)
}.

Definition set_tokens (b : bucket) (x : Q) : bucket :=
  mkB x (cap b) (rate b) (ideal b) (last b) (pen b) (fails b).

(* time.Time zero value (year 1) in Unix nanoseconds: the initial penaltyUntil *)
Definition time_zero : Z := -62135596800000000000.

(* newTokenBucket(capacity, refillRate) created at [now] *)
Definition new_bucket (c r : Q) (now : Z) : bucket := mkB c c r r now time_zero 0.

Definition NS : Z := 1000000000.
(* Duration.Seconds() *)
Definition secs (d : Z) : Q := (inject_Z d / inject_Z NS)%Q.

Definition Qlt_bool (x y : Q) : bool := negb (Qle_bool y x).

(* refill() *)
Definition refill (now : Z) (b : bucket) : bucket :=
  if now <? pen b then b                                   (* now.Before(penaltyUntil): return *)
  else
    let base := if last b <? pen b then pen b else last b in   (* penaltyUntil.After(lastRefill) *)
    if base <? now                                         (* elapsed > 0 *)
    then mkB (Qmin (cap b) (tokens b + secs (now - base) * rate b)%Q)
             (cap b) (rate b) (ideal b) now (pen b) (fails b)
    else b.

(* one iteration of Wait(): the bucket afterwards and whether the token was granted *)
Definition try (now : Z) (b : bucket) : bucket * bool :=
  let b' := refill now b in
  if Qle_bool 1 (tokens b') then (set_tokens b' (tokens b' - 1)%Q, true) else (b', false).

Definition is_throttle (s : Z) : bool := (s =? 429) || (s =? 403) || (s =? 408) || (s =? 425).

Definition SEC5 : Z := 5 * NS.     (* basePenaltyDuration *)
Definition SEC30 : Z := 30 * NS.   (* maxPenaltyDuration *)

(* float64(basePenaltyDuration) * math.Pow(2, float64(k-1)), truncated toward zero; the product is
   exact in binary64 (5e9 = 5^10 * 2^9) for every k the conversion is applied to *)
Definition penalty_raw (k : Z) : Z :=
  if 1 <=? k then SEC5 * 2 ^ (k - 1) else SEC5 / 2 ^ (1 - k).

(* fixed code: compare in float64 first, convert only below the cap *)
Definition penalty_ns (k : Z) : Z :=
  let f := penalty_raw k in if f <? SEC30 then f else SEC30.

(* code before the fix: min(time.Duration(f), 30s), where the conversion of f >= 2^63 yields
   math.MinInt64 on amd64 (and arm64 saturates the other way - the Go spec leaves it open; the
   harness ran on amd64) *)
Definition penalty_ns_orig (k : Z) : Z :=
  let f := penalty_raw k in
  Z.min (if f <? 2 ^ 63 then f else - 2 ^ 63) SEC30.

(* lower bound the 5xx branch applies to the new rate *)
Definition floor_fixed (b : bucket) : Q := Qmin (1 # 2) (ideal b).   (* min(minRefillRate, idealRate) *)
Definition floor_orig (b : bucket) : Q := 1 # 2.                      (* minRefillRate *)

(* adjustOnFailure(statusCode) *)
Definition fail_with (penf : Z -> Z) (floorf : bucket -> Q) (now s : Z) (b : bucket) : bucket :=
  if is_throttle s then
    let k := fails b + 1 in
    mkB 0%Q (cap b) (rate b) (ideal b) (last b) (now + penf k) k
  else if 500 <=? s then
    let k := fails b + 1 in
    mkB 0%Q (cap b) (Qmax (rate b * (1 # 2) ^ k)%Q (floorf b)) (ideal b) (last b) (pen b) k
  else b.

Definition fail := fail_with penalty_ns floor_fixed.
Definition fail_orig := fail_with penalty_ns_orig floor_orig.

(* onSuccess(); recoveryFactor = 0.1 *)
Definition succ (now : Z) (b : bucket) : bucket :=
  if pen b <? now then                                      (* now.After(penaltyUntil) *)
    let r := if Qlt_bool (rate b) (ideal b)
             then let r' := (rate b + (ideal b - rate b) * (1 # 10))%Q in
                  if Qlt_bool (ideal b) r' then ideal b else r'
             else rate b in
    mkB (tokens b) (cap b) r (ideal b) (last b) (pen b)
        (if 0 <? fails b then fails b - 1 else fails b)
  else b.

Inductive op :=
| Try (now : Z)
| Fail (now : Z) (status : Z)
| Succ (now : Z).

Definition op_time (o : op) : Z :=
  match o with Try t => t | Fail t _ => t | Succ t => t end.

(* one operation: new state, and whether it released a request *)
Definition step_with (failf : Z -> Z -> bucket -> bucket) (b : bucket) (o : op) : bucket * bool :=
  match o with
  | Try t => try t b
  | Fail t s => (failf t s b, false)
  | Succ t => (succ t b, false)
  end.

Definition step := step_with fail.
Definition step_orig := step_with fail_orig.

(* a history: final state and the times at which requests were released, in order *)
Fixpoint run_with (failf : Z -> Z -> bucket -> bucket) (b : bucket) (h : list op) : bucket * list Z :=
  match h with
  | [] => (b, [])
  | o :: r =>
      let '(b1, g) := step_with failf b o in
      let '(b2, gs) := run_with failf b1 r in
      (b2, if g then op_time o :: gs else gs)
  end.

Definition run := run_with fail.
Definition run_orig := run_with fail_orig.

Definition final (b : bucket) (h : list op) : bucket := fst (run b h).
Definition grants (b : bucket) (h : list op) : list Z := snd (run b h).

(* times non-decreasing, all >= lo *)
Fixpoint chain (lo : Z) (h : list op) : Prop :=
  match h with
  | [] => True
  | o :: r => lo <= op_time o /\ chain (op_time o) r
  end.

(* time of the last operation ([lo] if none) *)
Fixpoint end_time (lo : Z) (h : list op) : Z :=
  match h with
  | [] => lo
  | o :: r => end_time (op_time o) r
  end.

(* Wait(): poll (one Try per reading of the clock) until the first grant.  [ts] are the clock
   readings; the result is the bucket and the time of the granted poll, if any. *)
Fixpoint wait_polls (b : bucket) (ts : list Z) : bucket * option Z :=
  match ts with
  | [] => (b, None)
  | t :: r => let '(b', g) := try t b in if g then (b', Some t) else wait_polls b' r
  end.
