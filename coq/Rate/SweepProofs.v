(* C13 - proofs about Rate/Sweep.v *)
From Coq Require Import Lia.
From ZenoV Require Import Rate.Sweep.
Open Scope string_scope.
Open Scope list_scope.
Open Scope Z_scope.

Lemma touch_same h now tab : alookup h (touch h now tab) = Some now.
Proof.
  induction tab as [|[k a] r IH]; cbn [touch alookup].
  - rewrite String.eqb_refl. reflexivity.
  - destruct (String.eqb k h) eqn:E; cbn [alookup]; rewrite E; [reflexivity|exact IH].
Qed.

Lemma touch_other h k now tab : k <> h -> alookup h (touch k now tab) = alookup h tab.
Proof.
  intros Hne. induction tab as [|[k0 a] r IH]; cbn [touch alookup].
  - destruct (String.eqb_spec k h); [congruence|reflexivity].
  - destruct (String.eqb_spec k0 k) as [->|Hd]; cbn [alookup].
    + destruct (String.eqb_spec k h); [congruence|reflexivity].
    + destruct (String.eqb k0 h); [reflexivity|exact IH].
Qed.

(* the sweep keeps a bucket accessed within the period, with its stamp *)
Lemma sweep_keeps h a now period tab :
  alookup h tab = Some a -> now - a <= period -> alookup h (sweep now period tab) = Some a.
Proof.
  intros Hl Hle. induction tab as [|[k a0] r IH]; [discriminate|].
  cbn [alookup] in Hl. unfold sweep in *. cbn [filter].
  destruct (String.eqb k h) eqn:E.
  - inversion Hl; subst. destruct (Z.leb_spec (now - a) period); [|lia].
    cbn [alookup]. rewrite E. reflexivity.
  - destruct (now - a0 <=? period); cbn [alookup]; [rewrite E|]; apply IH; exact Hl.
Qed.

(* ... and deletes a bucket whose stamp is older than the period (hosts listed once) *)
Lemma sweep_drops h a now period tab :
  NoDup (map fst tab) -> alookup h tab = Some a -> period < now - a -> alookup h (sweep now period tab) = None.
Proof.
  intros Hnd Hl Hgt. induction tab as [|[k a0] r IH]; [discriminate|].
  cbn [alookup] in Hl. cbn [map fst] in Hnd. inversion Hnd as [|? ? Hnin Hnd']; subst.
  unfold sweep in *. cbn [filter].
  destruct (String.eqb_spec k h) as [->|Hd].
  - inversion Hl; subst. destruct (Z.leb_spec (now - a) period); [lia|].
    (* h does not occur in r *)
    clear - Hnin. induction r as [|[k1 a1] r IH]; [reflexivity|]. cbn [filter].
    assert (k1 <> h) by (intros ->; apply Hnin; left; reflexivity).
    assert (Hn' : ~ In h (map fst r)) by (intros Hi; apply Hnin; right; exact Hi).
    destruct (now - a1 <=? period); cbn [alookup]; [destruct (String.eqb_spec k1 h); [congruence|]|]; apply IH, Hn'.
  - destruct (now - a0 <=? period); cbn [alookup];
      [destruct (String.eqb_spec k h); [congruence|]|]; apply IH; assumption.
Qed.

(* ---- sweep_spares_active_hosts: along EVERY history of accesses (to any hosts) and ticks in which
   each tick comes within the period of h's most recent access, h keeps its bucket - the one stamped
   by its most recent access, never a fresh one. *)
Theorem sweep_spares_active_hosts_lemma ops : forall period tab h a,
  alookup h tab = Some a -> active h period a ops ->
  alookup h (srun period tab ops) = Some (last_access h a ops).
Proof.
  induction ops as [|[k now|now] r IH]; intros period tab h a Hl Hact; cbn [srun last_access active] in *.
  - exact Hl.
  - destruct (String.eqb_spec k h) as [->|Hd].
    + apply IH; [apply touch_same|exact Hact].
    + apply IH; [rewrite touch_other by exact Hd; exact Hl|exact Hact].
  - destruct Hact as [Hle Hact]. apply IH; [apply sweep_keeps; assumption|exact Hact].
Qed.

(* the hypothesis is what the code offers: one tick later than the period after the last access and
   the bucket is gone (this is the clean-up working as designed) *)
Example sweep_drops_idle_host :
  alookup "a" (srun 300 [] [SAccess "a" 0; SAccess "b" 250; STick 301]) = None /\
  alookup "b" (srun 300 [] [SAccess "a" 0; SAccess "b" 250; STick 301]) = Some 250.
Proof. split; reflexivity. Qed.

(* non-vacuity: a host used every 250 ms survives ticks every 300 ms while an idle one is swept *)
Example sweep_spares_nonvacuous :
  let ops := [SAccess "b" 10; SAccess "a" 250; STick 300; SAccess "a" 500; STick 600; SAccess "a" 750; STick 900] in
  active "a" 300 0 ops /\ alookup "a" (srun 300 [("a", 0)] ops) = Some 750 /\
  alookup "b" (srun 300 [("a", 0)] ops) = None.
Proof. cbn [active String.eqb Ascii.eqb Bool.eqb]. repeat split; try lia. Qed.
