(* C13 - what the generated case files evaluate: model-vs-implementation differences (one-step
   simulation from the implementation's own pre-state) and the property's monitors on the
   implementation's own answers. *)
From Coq Require Import Qabs Uint63.
From ZenoV Require Import Lib.Harness Rate.Bucket Rate.BucketProofs Rate.Manager Rate.Cancel.
Open Scope string_scope.
Open Scope list_scope.
Open Scope Z_scope.

(* a finite binary64 value as the driver passes it: m * 2^e exactly (math.Frexp) *)
(* The case files are large: monomorphic constructors instead of pairs and list literals.
   Numbers arrive as primitive 63-bit integers (parsed natively, ~15x faster than Z literals):
   magnitudes with the sign in the constructor. *)
Definition iz (i : int) : Z := Uint63.to_Z i.
Inductive zi := ZP (n : int) | ZM (n : int) | ZT0.      (* n, -n, time.Time{} *)
Definition zi_Z (z : zi) : Z :=
  match z with ZP n => iz n | ZM n => - iz n | ZT0 => time_zero end.
(* +-m * 2^(e - 1100) *)
Inductive fl := F (m e : int) | FN (m e : int).
Definition q_of (f : fl) : Q :=
  let '(m, e) := match f with F m e => (iz m, iz e - 1100) | FN m e => (- iz m, iz e - 1100) end in
  if 0 <=? e then inject_Z (m * 2 ^ e) else Qmake m (Z.to_pos (2 ^ (- e))).

(* -------------------------------------------------------------------------------------
   Bucket stream (white box, virtual clock) *)
Record bstate := BS0 { s_tok : fl; s_rate : fl; s_last : Z; s_pen : Z; s_fails : Z }.
Definition BS (tok rate : fl) (last : int) (pen fails : zi) : bstate :=
  BS0 tok rate (iz last) (zi_Z pen) (zi_Z fails).

Inductive hop :=
| HTry (now : Z) (granted : bool)      (* one poll of the real Wait() *)
| HFail (now : Z) (status : Z)         (* adjustOnFailure *)
| HSucc (now : Z)                      (* onSuccess *)
| HRefill (now : Z).                   (* refill() alone *)
Definition HT (now : int) (g : bool) := HTry (iz now) g.
Definition HF (now : int) (s : zi) := HFail (iz now) (zi_Z s).
Definition HS (now : int) := HSucc (iz now).
Definition HR (now : int) := HRefill (iz now).

(* operation, implementation state after it, rest *)
Inductive steps := SN | SC (h : hop) (post : bstate) (r : steps).
Fixpoint steps_list (s : steps) : list (hop * bstate) :=
  match s with SN => [] | SC h p r => (h, p) :: steps_list r end.

Record bcase := BC0 {
  c_cap : fl; c_ideal : fl;
  c_init : bstate;
  c_steps : list (hop * bstate)
}.
Definition BC (c i : fl) (s0 : bstate) (st : steps) : bcase := BC0 c i s0 (steps_list st).

Definition to_bucket (c : bcase) (s : bstate) : bucket :=
  mkB (q_of (s_tok s)) (q_of (c_cap c)) (q_of (s_rate s)) (q_of (c_ideal c)) (s_last s) (s_pen s) (s_fails s).

(* IEEE rounding is not modelled: tokens and rate agree within 1e-9 (relative, floor 1) *)
Definition TOL : Q := 1 # 1000000000.
Definition AMBIG : Q := 1 # 1000000.
Definition close (a b : Q) : bool :=
  Qle_bool (Qabs (a - b)) (TOL * Qmax 1 (Qabs a)).

Definition same_state (m : bucket) (o : bucket) : bool :=
  close (tokens m) (tokens o) && close (rate m) (rate o) &&
  (last m =? last o) && (pen m =? pen o) && (fails m =? fails o).

(* model's prediction for one observed step from the observed pre-state; [None] = disagreement
   that is already visible in the decision *)
Definition predict (pre : bucket) (h : hop) : option bucket :=
  match h with
  | HTry now g =>
      let b' := refill now pre in
      let x := tokens b' in
      let decided := Qle_bool 1 x in
      if Qle_bool (Qabs (x - 1)) AMBIG || Bool.eqb decided g
      then Some (if g then set_tokens b' (x - 1)%Q else b')
      else None
  | HFail now s => Some (fail now s pre)
  | HSucc now => Some (succ now pre)
  | HRefill now => Some (refill now pre)
  end.

Fixpoint diff_steps (c : bcase) (pre : bstate) (l : list (hop * bstate)) : bool :=
  match l with
  | [] => false
  | (h, post) :: r =>
      match predict (to_bucket c pre) h with
      | None => true
      | Some m => negb (same_state m (to_bucket c post)) || diff_steps c post r
      end
  end.

(* the initial state is newTokenBucket's: full, at the configured rate, no penalty, no failures *)
Definition diff_init (c : bcase) : bool :=
  let s := c_init c in
  negb (same_state (new_bucket (q_of (c_cap c)) (q_of (c_ideal c)) (s_last s)) (to_bucket c s)).

Definition diff_case (c : bcase) : bool := diff_init c || diff_steps c (c_init c) (c_steps c).

(* ---- monitors: the theorems' predicates on the observed states and grant times only ---- *)
Definition hop_time (h : hop) : Z :=
  match h with HTry t _ => t | HFail t _ => t | HSucc t => t | HRefill t => t end.

Fixpoint sorted_from (lo : Z) (l : list (hop * bstate)) : bool :=
  match l with
  | [] => true
  | (h, _) :: r => (lo <=? hop_time h) && sorted_from (hop_time h) r
  end.
Definition sorted (c : bcase) : bool :=
  match c_steps c with [] => true | (h, _) :: _ => sorted_from (hop_time h) (c_steps c) end.

Definition states (c : bcase) : list bstate := c_init c :: map snd (c_steps c).

(* 0: tokens_range *)
Definition mon_tokens (c : bcase) : bool :=
  forallb (fun s => Qle_bool 0 (q_of (s_tok s)) && Qle_bool (q_of (s_tok s)) (q_of (c_cap c))) (states c).

(* 1: rate_range *)
Definition mon_rate (c : bcase) : bool :=
  forallb (fun s => Qle_bool (Qmin (1 # 2) (q_of (c_ideal c))) (q_of (s_rate s)) &&
                    Qle_bool (q_of (s_rate s)) (q_of (c_ideal c))) (states c).

Fixpoint grant_times (l : list (hop * bstate)) : list Z :=
  match l with
  | [] => []
  | (HTry t true, _) :: r => t :: grant_times r
  | _ :: r => grant_times r
  end.

(* for grant times g0 <= g1 <= ...: every window [g_i, g_j] holds at most cap + (g_j - g_i) * ideal
   releases (+ [slack] for binary64 rounding in the implementation's accumulation) *)
Fixpoint window_from (capq idq slack : Q) (t0 : Z) (n : Z) (l : list Z) : bool :=
  match l with
  | [] => true
  | t :: r =>
      Qle_bool (inject_Z (n + 1)) (capq + secs (t - t0) * idq + slack) &&
      window_from capq idq slack t0 (n + 1) r
  end.
Fixpoint window_all (capq idq slack : Q) (l : list Z) : bool :=
  match l with
  | [] => true
  | t :: r => window_from capq idq slack t 0 (t :: r) && window_all capq idq slack r
  end.

(* 2: window_bound *)
Definition mon_window (c : bcase) : bool :=
  if sorted c
  then window_all (q_of (c_cap c)) (q_of (c_ideal c)) AMBIG (grant_times (c_steps c))
  else true.

(* 3: penalty_honoured: after a throttling status at f with resulting count k >= 1 nothing is
   released before f + min(5 s * 2^(k-1), 30 s) *)
Fixpoint penalty_steps (l : list (hop * bstate)) : bool :=
  match l with
  | [] => true
  | (HFail f s, post) :: r =>
      (if is_throttle s
       then (1 <=? s_fails post) &&
            forallb (fun t => f + penalty_spec (s_fails post) <=? t) (grant_times r)
       else true) && penalty_steps r
  | _ :: r => penalty_steps r
  end.
Definition mon_penalty (c : bcase) : bool :=
  if sorted c then penalty_steps (c_steps c) else true.

(* 4: five_xx_only_lowers; 5: success_only_raises_to_ideal *)
Fixpoint pairwise (c : bcase) (f : bstate -> hop -> bstate -> bool) (pre : bstate) (l : list (hop * bstate)) : bool :=
  match l with
  | [] => true
  | (h, post) :: r => f pre h post && pairwise c f post r
  end.

Definition mon_5xx (c : bcase) : bool :=
  pairwise c (fun pre h post =>
    match h with
    | HFail _ s =>
        if is_5xx s
        then Qle_bool (q_of (s_rate post)) (q_of (s_rate pre)) && (s_pen post =? s_pen pre)
        else if is_throttle s
        then Qeq_bool (q_of (s_rate post)) (q_of (s_rate pre))
        else true
    | _ => true
    end) (c_init c) (c_steps c).

Definition mon_succ (c : bcase) : bool :=
  pairwise c (fun pre h post =>
    match h with
    | HSucc _ =>
        Qle_bool (q_of (s_rate pre)) (q_of (s_rate post)) &&
        Qle_bool (q_of (s_rate post)) (q_of (c_ideal c)) &&
        Qeq_bool (q_of (s_tok post)) (q_of (s_tok pre)) && (s_pen post =? s_pen pre)
    | _ => true
    end) (c_init c) (c_steps c).

Definition diffs (l : list bcase) := bad_idx diff_case l.
Definition mons (l : list bcase) :=
  mon_idx [mon_tokens; mon_rate; mon_window; mon_penalty; mon_5xx; mon_succ] l.

(* -------------------------------------------------------------------------------------
   Manager stream (black box, real time).  Every event carries the table (host, usage count)
   seen after it, sorted by host; releases carry the real-time interval [before, after] (ns since
   the start of the case) around the call, which contains the instant of the release. *)
Definition snap := list (string * Z).

Inductive mev :=
| EWait (host : string) (t0 t1 : Z) (after : snap)               (* BucketManager.Wait returned *)
| EFail (host : string) (status : Z) (t0 t1 : Z) (after : snap)  (* AdjustOnFailure *)
| ESucc (host : string) (t0 t1 : Z) (after : snap)               (* OnSuccess *)
| EBurst (host : string) (ivs : list (Z * Z)) (after : snap)     (* concurrent Waits on a present host *)
| EMix (host : string) (ivs : list (Z * Z)) (extra : Z) (after : snap)
| EConc (host : string) (ivsA : list (Z * Z)) (thr : option Z) (ivsB : list (Z * Z)) (ngets : Z) (after : snap)
| EBlk (host : string) (t0 t1 : Z) (after : snap)       (* a Wait started at t0, still blocked at t1 *)
| ECancel (after : snap).    (* the context given to NewBucketManager was cancelled (during the event before this one) *)
    (* [ngets] calls for one host started together: releases [ivsA] observed among the calls that
       were concurrent with an optional throttling AdjustOnFailure (entered at or after [thr]),
       releases [ivsB] among calls started after it had returned; calls still blocked when the
       observation window closed are not releases *)
    (* concurrent Waits plus [extra] concurrent AdjustOnFailure(503)/OnSuccess calls on a present host *)

Record mcase := MC0 { k_max : Z; k_cap : fl; k_rate : fl; k_evs : list mev }.

(* wire constructors (primitive integers, monomorphic lists) *)
Inductive wsnap := KN | KC (h : string) (u : int) (r : wsnap).
Fixpoint snap_of (w : wsnap) : snap :=
  match w with KN => [] | KC h u r => (h, iz u) :: snap_of r end.
Inductive wivs := VN | VC (t0 t1 : int) (r : wivs).
Fixpoint ivs_of (w : wivs) : list (Z * Z) :=
  match w with VN => [] | VC a b r => (iz a, iz b) :: ivs_of r end.
Definition EW (h : string) (t0 t1 : int) (a : wsnap) := EWait h (iz t0) (iz t1) (snap_of a).
Definition EF (h : string) (s : zi) (t0 t1 : int) (a : wsnap) := EFail h (zi_Z s) (iz t0) (iz t1) (snap_of a).
Definition ES (h : string) (t0 t1 : int) (a : wsnap) := ESucc h (iz t0) (iz t1) (snap_of a).
Definition EB (h : string) (v : wivs) (a : wsnap) := EBurst h (ivs_of v) (snap_of a).
Definition EM (h : string) (v : wivs) (x : int) (a : wsnap) := EMix h (ivs_of v) (iz x) (snap_of a).
Definition EK (h : string) (t0 t1 : int) (a : wsnap) := EBlk h (iz t0) (iz t1) (snap_of a).
Definition EX (a : wsnap) := ECancel (snap_of a).
Definition EC (h : string) (va : wivs) (thr : zi) (vb : wivs) (n : int) (a : wsnap) :=
  EConc h (ivs_of va) (match thr with ZT0 => None | z => Some (zi_Z z) end) (ivs_of vb) (iz n) (snap_of a).
Definition MC (mx : zi) (c r : fl) (evs : list mev) : mcase := MC0 (zi_Z mx) c r evs.

Definition ev_after (e : mev) : snap :=
  match e with EWait _ _ _ a => a | EFail _ _ _ _ a => a | ESucc _ _ _ a => a | EBurst _ _ a => a | EMix _ _ _ a => a | EConc _ _ _ _ _ a => a | EBlk _ _ _ a => a | ECancel a => a end.
Definition ev_host (e : mev) : string :=
  match e with EWait h _ _ _ => h | EFail h _ _ _ _ => h | ESucc h _ _ _ => h | EBurst h _ _ => h | EMix h _ _ _ => h | EConc h _ _ _ _ _ => h | EBlk h _ _ _ => h | ECancel _ => EmptyString end.
(* number of getBucket calls the event makes *)
Definition ev_gets (e : mev) : nat :=
  match e with EBurst _ ivs _ => length ivs | EMix _ ivs x _ => (length ivs + Z.to_nat x)%nat
  | EConc _ _ _ _ n _ => Z.to_nat n | ECancel _ => O | _ => 1%nat end.

Definition has_key (h : string) (s : snap) : bool := existsb (fun '(k, _) => String.eqb k h) s.

(* the key evictLFU deleted: present before, absent after ("" if none) *)
Definition victim_of (before after : snap) : string :=
  match filter (fun '(k, _) => negb (has_key k after)) before with
  | (k, _) :: _ => k
  | [] => ""
  end.

Definition tab_snap (m : manager) : snap := map (fun e => (me_host e, me_usage e)) (mg_tab m).

Definition snap_eq (a b : snap) : bool :=
  (Nat.eqb (length a) (length b)) &&
  forallb (fun '(k, u) => existsb (fun '(k', u') => String.eqb k k' && (u =? u')) b) a.

Fixpoint rep_get (n : nat) (h : string) (v : string) (m : manager) : option manager :=
  match n with
  | O => Some m
  | S n' => match get h 0 v m with Some m' => rep_get n' h v m' | None => None end
  end.

(* the table follows the model's getBucket, with the victim the implementation chose *)
Fixpoint mdiff_evs (m : manager) (l : list mev) : bool :=
  match l with
  | [] => false
  | e :: r =>
      let v := victim_of (tab_snap m) (ev_after e) in
      match (match e with
             | ECancel _ =>      (* Rate/Cancel.v: a cancellation leaves the table and its buckets alone *)
                 match wstep (WS m false []) WCancel with Some (s', _) => Some (ws_mgr s') | None => None end
             | _ => rep_get (ev_gets e) (ev_host e) v m
             end) with
      | None => true
      | Some m' => negb (snap_eq (tab_snap m') (ev_after e)) || mdiff_evs m' r
      end
  end.

Definition mdiff_case (c : mcase) : bool :=
  mdiff_evs (new_manager (k_max c) (q_of (k_cap c)) (q_of (k_rate c))) (k_evs c).

(* ---- manager monitors ---- *)
(* 0: table_bounded *)
Definition mmon_bounded (c : mcase) : bool :=
  forallb (fun e => Z.of_nat (length (ev_after e)) <=? Z.max (k_max c) 1) (k_evs c).

(* per-host projection: Some (inl (t0,t1)) = a release, Some (inr (status,t0)) = a throttling
   failure reported at or after t0, None = the host's bucket left the table (lifetime ends) *)
Inductive hev := HRel (t0 t1 : Z) | HThr (t0 : Z) | HGone.

Fixpoint host_evs (h : string) (present : bool) (l : list mev) : list hev :=
  match l with
  | [] => []
  | e :: r =>
      let mine := String.eqb (ev_host e) h in
      let here :=
        if mine then
          match e with
          | EWait _ t0 t1 _ => [HRel t0 t1]
          | EFail _ s t0 _ _ => if is_throttle s then [HThr t0] else []
          | ESucc _ _ _ _ => []
          | EBurst _ ivs _ => map (fun '(t0, t1) => HRel t0 t1) ivs
          | EMix _ ivs _ _ => map (fun '(t0, t1) => HRel t0 t1) ivs
          | EBlk _ _ _ _ => []
          | ECancel _ => []
          | EConc _ a thr b _ _ =>
              map (fun '(t0, t1) => HRel t0 t1) a ++
              (match thr with Some f => [HThr f] | None => [] end) ++
              map (fun '(t0, t1) => HRel t0 t1) b
          end
        else [] in
      let still := has_key h (ev_after e) in
      (* a fresh bucket is created when the host was absent before its own event *)
      (if mine && negb present then [HGone] else []) ++ here ++
      (if negb mine && present && negb still then [HGone] else []) ++
      host_evs h still r
  end.

Definition hosts_of (c : mcase) : list string :=
  nodup string_dec (map ev_host (filter (fun e => match e with ECancel _ => false | _ => true end) (k_evs c))).

(* releases of one lifetime / of the whole history, as intervals *)
Fixpoint split_lives (l : list hev) (cur : list hev) : list (list hev) :=
  match l with
  | [] => [rev cur]
  | HGone :: r => rev cur :: split_lives r []
  | x :: r => split_lives r (x :: cur)
  end.

(* window bound on intervals: releases i..j of a burst may complete in any order, so the window that
   certainly contains them all is [min t0, max t1]; sound under any machine load *)
Fixpoint win_from (capq rq : Q) (lo hi : Z) (n : Z) (l : list hev) : bool :=
  match l with
  | [] => true
  | HRel t0 t1 :: r =>
      let lo' := Z.min lo t0 in let hi' := Z.max hi t1 in
      Qle_bool (inject_Z (n + 1)) (capq + secs (hi' - lo') * rq + AMBIG) &&
      win_from capq rq lo' hi' (n + 1) r
  | _ :: r => win_from capq rq lo hi n r
  end.
Fixpoint win_all (capq rq : Q) (l : list hev) : bool :=
  match l with
  | [] => true
  | HRel t0 t1 :: r => win_from capq rq t0 t1 0 (HRel t0 t1 :: r) && win_all capq rq r
  | _ :: r => win_all capq rq r
  end.

(* after a throttling failure reported at or after t0, no release completes before t0 + 5 s
   (the smallest penalty; the count is not visible from outside) *)
Fixpoint pen_all (l : list hev) : bool :=
  match l with
  | [] => true
  | HThr t0 :: r =>
      forallb (fun x => match x with HRel _ t1 => t0 + SEC5 <=? t1 | _ => true end) r && pen_all r
  | _ :: r => pen_all r
  end.

Definition per_life (c : mcase) (f : list hev -> bool) : bool :=
  forallb (fun h => forallb f (split_lives (host_evs h false (k_evs c)) [])) (hosts_of c).
Definition per_host (c : mcase) (f : list hev -> bool) : bool :=
  forallb (fun h => f (host_evs h false (k_evs c))) (hosts_of c).

(* 1, 2: within a bucket's lifetime; 3, 4: per host across evictions (the property as stated) *)
Definition mmon_life_window (c : mcase) := per_life c (win_all (q_of (k_cap c)) (q_of (k_rate c))).
Definition mmon_life_penalty (c : mcase) := per_life c pen_all.
Definition mmon_host_window (c : mcase) := per_host c (win_all (q_of (k_cap c)) (q_of (k_rate c))).
Definition mmon_host_penalty (c : mcase) := per_host c pen_all.

Definition mdiffs (l : list mcase) := bad_idx mdiff_case l.
Definition mmons (l : list mcase) :=
  mon_idx [mmon_bounded; mmon_life_window; mmon_life_penalty; mmon_host_window; mmon_host_penalty] l.

(* -------------------------------------------------------------------------------------
   Burst stream (black box, real BucketManager): rounds on a fresh manager pre-filled with [pre]
   hosts, then bursts of k goroutines leaving a spin barrier together, each calling Wait /
   OnSuccess / AdjustOnFailure for a DISTINCT fresh host; observable = table size at quiescence
   after every burst.  getBucket being atomic, every interleaving of a burst is a list of LGet
   labels, for which table_bounded_lemma gives size <= max(maxBuckets, 1); the size itself does not
   depend on the eviction choices. *)
Inductive uburst := UB (k size : int).
Inductive uround := UR (pre : int) (bursts : list uburst).
Record ucase := UC0 { u_max : Z; u_rounds : list uround }.
Definition UC (mx : int) (rs : list uround) : ucase := UC0 (iz mx) rs.

Definition hostn (i : nat) : string := String (Ascii.ascii_of_nat (S i)) EmptyString.

(* some key the scan can end with *)
Definition pick_victim (tab : list mentry) : string :=
  let m := lfu_min tab in
  match List.find (fun e => me_usage e =? m) tab with
  | Some e => if m <? MAXINT32 then me_host e else ""
  | None => ""
  end.

Fixpoint fresh_gets (n : nat) (from : nat) (m : manager) : option manager :=
  match n with
  | O => Some m
  | S n' =>
      match get (hostn from) 0 (pick_victim (mg_tab m)) m with
      | Some m' => fresh_gets n' (S from) m'
      | None => None
      end
  end.

Fixpoint udiff_bursts (m : manager) (from : nat) (l : list uburst) : bool :=
  match l with
  | [] => false
  | UB k size :: r =>
      let n := Z.to_nat (iz k) in
      match fresh_gets n from m with
      | None => true
      | Some m' => negb (tab_len (mg_tab m') =? iz size) || udiff_bursts m' (from + n) r
      end
  end.

Definition udiff_round (mx : Z) (r : uround) : bool :=
  let '(UR pre bs) := r in
  let n := Z.to_nat (iz pre) in
  match fresh_gets n 0 (new_manager mx 1 1) with
  | None => true
  | Some m => udiff_bursts m n bs
  end.

Definition udiff_case (c : ucase) : bool := existsb (udiff_round (u_max c)) (u_rounds c).

(* 0: table_bounded, on the observed sizes only *)
Definition umon_bounded (c : ucase) : bool :=
  forallb (fun '(UR _ bs) => forallb (fun '(UB _ size) => iz size <=? Z.max (u_max c) 1) bs) (u_rounds c).

Definition udiffs (l : list ucase) := bad_idx udiff_case l.
Definition umons (l : list ucase) := mon_idx [umon_bounded] l.

(* -------------------------------------------------------------------------------------
   The archiver's use of the limiter (real archiver.Start / worker / archive(), real HTTP to a local
   origin answering a scripted status sequence).  Observation per case (= one host): the requests
   as they ARRIVE at the origin (ns since the start of the case, item number, status answered), and
   the host's bucket (failure count, rate) read when item 1 has left the archiver.
   archive() reports a response to the limiter as failure iff status >= 500 or in {408, 425, 429}
   or a challenge page (403 + `cf-mitigated: challenge`, constructor AEC; whatever the operator's
   --warc-discard-status list), anything else - a plain 403 too - as success; it asks Wait once
   per item, its retries do not pass through Wait. *)
(* AEC: the answer carried the header `cf-mitigated: challenge` (with status 403: a Cloudflare challenge page) *)
Inductive aev := AE (t item : int) (status : zi) | AEC (t item : int) (status : zi).
Record acase := AC0 {
  a_retry : Z; a_cap : fl; a_rate : fl;
  a_evs : list (Z * Z * Z * bool);   (* arrival time, item, status answered, challenge header *)
  a_state : option (Z * fl);         (* failureCount, refillRate after item 1 *)
  a_built : option (fl * fl)         (* capacity, idealRate of the bucket the archiver's manager made *)
}.
(* [a_cap], [a_rate] are the OPERATOR's values (config RateLimitCapacity / RateLimitRefillRate) *)
Inductive astate := ANone | ASt (fails : zi) (rate : fl) | ASt2 (fails : zi) (rate cap ideal : fl).
Definition AC (retry : zi) (c r : fl) (evs : list aev) (st : astate) : acase :=
  AC0 (zi_Z retry) c r (map (fun e => match e with AE t i s => (iz t, iz i, zi_Z s, false) | AEC t i s => (iz t, iz i, zi_Z s, true) end) evs)
      (match st with ANone => None | ASt f x => Some (zi_Z f, x) | ASt2 f x _ _ => Some (zi_Z f, x) end)
      (match st with ASt2 _ _ cp idl => Some (cp, idl) | _ => None end).

Definition arch_bad (s : Z) : bool := (500 <=? s) || (s =? 408) || (s =? 425) || (s =? 429).
(* what archive() must report to the limiter as a failure: a bad status, or a challenge page
   (cloudflare.ChallengePageHook: status 403 with `cf-mitigated: challenge`) - whatever the operator's
   --warc-discard-status list says about that status (the list decides what is kept out of the WARC,
   not what the limiter hears) *)
Definition arch_fail (s : Z) (ch : bool) : bool := arch_bad s || (ch && (s =? 403)).

Definition item_evs (i : Z) (c : acase) : list (Z * Z * bool) :=
  flat_map (fun '(t, j, s, ch) => if j =? i then [(t, s, ch)] else []) (a_evs c).

(* the retry loop: attempts until the first response that is not a failure, at most retry+1 *)
Fixpoint attempts_ok (left : nat) (l : list (Z * Z * bool)) : bool :=
  match l with
  | [] => false
  | (_, s, ch) :: r =>
      if arch_fail s ch
      then match left with O => match r with [] => true | _ => false end | S n => attempts_ok n r end
      else match r with [] => true | _ => false end
  end.

(* what the bucket must look like after item 1, by the bucket model *)
Definition adiff_case (c : acase) : bool :=
  match a_state c, item_evs 1 c with
  | Some (f, x), (t0, _, _) :: _ =>
      let h := Try t0 :: map (fun '(t, s, ch) => if arch_fail s ch then Fail t s else Succ t) (item_evs 1 c) in
      let b := final (new_bucket (q_of (a_cap c)) (q_of (a_rate c)) t0) h in
      negb (fails b =? f) || negb (close (rate b) (q_of x)) ||
      negb (attempts_ok (Z.to_nat (a_retry c)) (item_evs 1 c))
  | _, _ => false
  end.

(* 0: penalty_honoured as seen at the origin: after an answered 429/408/425 or a 403 challenge page at
   time t, no request of ANOTHER item (each item passes through Wait once, before its first request)
   arrives before t + 5 s - whether or not the crawl was stopped in between *)
Fixpoint amon_from (l : list (Z * Z * Z * bool)) : bool :=
  match l with
  | [] => true
  | (t, i, s, ch) :: r =>
      (if is_throttle s && arch_fail s ch
       then forallb (fun '(t', j, _, _) => (j =? i) || (t + SEC5 <=? t')) r
       else true) && amon_from r
  end.
Definition amon_penalty (c : acase) : bool := amon_from (a_evs c).

(* 1: every failure answer is reported as a failure ("5xx only lower the rate", seen through the
   archiver).  Item 1 talks to a fresh bucket; nf of its answers are failures by the property's
   classes (any status >= 500, 500 included, or 429/408/425), and only its last answer can be a
   success.  Then the failure count read after item 1 is nf (nf - 1 or nf if a success followed: a
   success takes one failure back unless a penalty is in force), and if a 5xx was answered the rate
   is strictly below the configured rate and never above it. *)
Definition fail_class (a : Z * bool) : bool :=
  let '(s, ch) := a in (500 <=? s) || (s =? 429) || (s =? 408) || (s =? 425) || (ch && (s =? 403)).
Definition amon_reported (c : acase) : bool :=
  match a_state c with
  | None => true
  | Some (f, x) =>
      let ans := map (fun '(_, s, ch) => (s, ch)) (item_evs 1 c) in
      let nf := Z.of_nat (length (filter fail_class ans)) in
      let ns := Z.of_nat (length (filter (fun s => negb (fail_class s)) ans)) in
      Qle_bool (q_of x) (q_of (a_rate c)) &&
      (if ns =? 0 then f =? nf else (nf - 1 <=? f) && (f <=? nf)) &&
      (if existsb (fun '(s, _) => 500 <=? s) ans then negb (Qle_bool (q_of (a_rate c)) (q_of x)) else true)
  end.

(* 2: the limiter the archiver builds has the operator's capacity and rate *)
Definition amon_built (c : acase) : bool :=
  match a_built c with
  | None => true
  | Some (cp, idl) => Qeq_bool (q_of cp) (q_of (a_cap c)) && Qeq_bool (q_of idl) (q_of (a_rate c))
  end.

(* 3: window bound with the CONFIGURED capacity and rate, at the origin.  Every item passes through
   Wait once before its first request, and the host's bucket did not exist before the case started
   (time 0): when the n-th item's first request arrives at time t, n <= capacity + t * rate. *)
Fixpoint first_arrivals (seen : list Z) (l : list (Z * Z * Z * bool)) : list Z :=
  match l with
  | [] => []
  | (t, i, _, _) :: r =>
      if existsb (Z.eqb i) seen then first_arrivals seen r else t :: first_arrivals (i :: seen) r
  end.
Fixpoint burst_from (capq rq : Q) (n : Z) (l : list Z) : bool :=
  match l with
  | [] => true
  | t :: r => Qle_bool (inject_Z (n + 1)) (capq + secs t * rq + AMBIG) && burst_from capq rq (n + 1) r
  end.
Definition amon_burst (c : acase) : bool :=
  burst_from (q_of (a_cap c)) (q_of (a_rate c)) 0 (first_arrivals [] (a_evs c)).

Definition adiffs (l : list acase) := bad_idx adiff_case l.
Definition amons (l : list acase) := mon_idx [amon_penalty; amon_reported; amon_built; amon_burst] l.

(* -------------------------------------------------------------------------------------
   Sweep stream (black box, real BucketManager with a SHORT cleanup period and a table far from
   full): hosts in continuous use while cleanupLoop ticks.  Events as in the manager stream; t1 of
   an event is read AFTER the table snapshot.  An access of host h that started at t0 stamps the
   bucket at or after t0; a tick that deletes it must come more than [period] later. *)
Record scase := SC0 { w_period : Z; w_cap : fl; w_rate : fl; w_evs : list mev }.
Definition SW (period : int) (c r : fl) (evs : list mev) : scase := SC0 (iz period) c r evs.

Definition ev_times (e : mev) : option (Z * Z) :=
  match e with
  | EWait _ a b _ | ESucc _ a b _ | EFail _ _ a b _ | EBlk _ a b _ => Some (a, b)
  | _ => None
  end.

Definition usage_of (h : string) (s : snap) : option Z :=
  match List.find (fun '(k, _) => String.eqb k h) s with Some (_, u) => Some u | None => None end.

(* correspondence: usage counts follow getBucket; a key that left the table was swept (any sweep is a
   behaviour of Manager.v's LCleanup label; WHEN a sweep may happen is monitor 0's business) *)
Fixpoint sdiff_evs (m : manager) (l : list mev) : bool :=
  match l with
  | [] => false
  | e :: r =>
      let h := ev_host e in
      let a := ev_after e in
      let tabs := tab_snap m in
      let reset := match usage_of h tabs, usage_of h a with
                   | Some _, Some u => u =? Z.of_nat (ev_gets e)
                   | _, _ => false
                   end in
      let gone := map fst (filter (fun '(k, _) => negb (has_key k a) && negb (String.eqb k h)) tabs)
                  ++ (if reset then [h] else []) in
      let m1 := MG (mg_max m) (mg_cap m) (mg_rate m) (fold_left (fun t k => remove k t) gone (mg_tab m)) in
      match rep_get (ev_gets e) h "" m1 with
      | None => true
      | Some m2 =>
          let m3 := if has_key h a then m2
                    else MG (mg_max m2) (mg_cap m2) (mg_rate m2) (remove h (mg_tab m2)) in
          negb (snap_eq (tab_snap m3) a) || sdiff_evs m3 r
      end
  end.
Definition sdiff_case (c : scase) : bool :=
  sdiff_evs (new_manager 1000000 (q_of (w_cap c)) (q_of (w_rate c))) (w_evs c).

(* 0: sweep_spares_active_hosts on the observation: if host h, last accessed by a call started at
   [last], is found swept by an event that ended at t1, then t1 - last > period *)
Fixpoint spares_from (period : Z) (h : string) (last : option (Z * Z)) (l : list mev) : bool :=
  match l with
  | [] => true
  | e :: r =>
      let a := ev_after e in
      match ev_times e with
      | None => spares_from period h (match ev_gets e with O => last | _ => None end) r
      | Some (t0, t1) =>
          if String.eqb (ev_host e) h then
            (match last, usage_of h a with
             | Some (lt, lu), Some u => (u =? lu + Z.of_nat (ev_gets e)) || (period <? t1 - lt)
             | Some (lt, _), None => period <? t1 - lt
             | None, _ => true
             end) &&
            spares_from period h (match usage_of h a with Some u => Some (t0, u) | None => None end) r
          else
            match last with
            | Some (lt, _) =>
                if has_key h a then spares_from period h last r
                else (period <? t1 - lt) && spares_from period h None r
            | None => spares_from period h None r
            end
      end
  end.
Definition s_hosts (c : scase) : list string := nodup string_dec (map ev_host (w_evs c)).
Definition smon_spares (c : scase) : bool :=
  forallb (fun h => spares_from (w_period c) h None (w_evs c)) (s_hosts c).

(* per host, split only where a sweep was POSSIBLE: between two accesses of the host whose distance
   (start of the earlier call to end of the later one) exceeds the period *)
Fixpoint active_evs (period : Z) (h : string) (last : option Z) (l : list mev) : list hev :=
  match l with
  | [] => []
  | e :: r =>
      if String.eqb (ev_host e) h then
        match ev_times e with
        | _ =>
        match e, ev_times e with
        | EConc _ ivs _ _ _ _, _ =>        (* releases of calls entered earlier: no getBucket here *)
            map (fun '(a, b) => HRel a b) ivs ++ active_evs period h last r
        | _, Some (t0, t1) =>
            (match last with Some lt => if period <? t1 - lt then [HGone] else [] | None => [] end) ++
            (match e with
             | EWait _ a b _ => [HRel a b]
             | EFail _ s a _ _ => if is_throttle s then [HThr a] else []
             | _ => []
             end) ++ active_evs period h (Some t0) r
        | _, None => HGone :: active_evs period h None r
        end
        end
      else active_evs period h last r
  end.
Definition per_active (c : scase) (f : list hev -> bool) : bool :=
  forallb (fun h => forallb f (split_lives (active_evs (w_period c) h None (w_evs c)) [])) (s_hosts c).

(* 1, 2: window bound and penalty for a host in continuous use, ACROSS cleanup ticks *)
Definition smon_window (c : scase) := per_active c (win_all (q_of (w_cap c)) (q_of (w_rate c))).
Definition smon_penalty (c : scase) := per_active c pen_all.

Definition sdiffs (l : list scase) := bad_idx sdiff_case l.
Definition smons (l : list scase) := mon_idx [smon_spares; smon_window; smon_penalty] l.
