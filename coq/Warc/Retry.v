(* C02 / C06 / C16 - model of the per-item body of archive() in internal/pkg/archiver/archiver.go:
   the `for retry := 0; retry <= MaxRetry; retry++` loop with its exits and body-closing
   actions, ProcessBody, the wait on the WARC feedback channel and the final SetStatus, as a
   function from the outcomes of the successive client.Do calls to the trace of events.
   Executable definitions only; proofs are in RetryProofs.v.

   Guard of the real code: MaxRetry >= 0 (with a negative value the loop body never runs and
   archive() dereferences a nil response); [a_max_retry] is a natural number. *)
From Coq Require Export List NArith ZArith Bool.
From ZenoV Require Export Warc.Discard.
Export ListNotations.
Open Scope N_scope.

(* what client.Do(req) gave on one attempt *)
Inductive outcome :=
| OErr                              (* err != nil: no response *)
| OResp (st : Z) (cf : bytes).      (* a response: status code, cf-mitigated header *)

Inductive istatus := SArchived | SFailed.

Inductive ev :=
| EReq (k : N)                   (* client.Do for attempt k; sync mode: feedback channel k is in its context *)
| EOpen (k : N)                  (* response k arrived, its body is open *)
| EClose (k : N)                 (* io.Copy(io.Discard, resp.Body); resp.Body.Close() *)
| ESleep (k : N)                 (* time.Sleep(retrySleepTime) *)
| EProcess (k : N) (ok : bool)   (* ProcessBody on response k (closes body k); ok = no error *)
| EAwait (k : N)                 (* <-feedbackChan of attempt k returned *)
| EStatus (s : istatus).         (* item.SetStatus *)

Record acfg := AC { a_max_retry : N;
                    a_async : bool;                   (* config WARCWriteAsync *)
                    a_hooks : option (list hook);     (* client.DiscardHook *)
                    a_dl : list Z;                    (* config WARCDiscardStatus *)
                    a_await_all : bool }.             (* false: the code as it is.  true: the variant that
                                                         also waits for the feedback of responses it retries
                                                         or gives up on (fixes/C02-await-feedback) *)

Inductive exit := XBlocked              (* waiting for the next outcome (prefix of a run) *)
                | XReturn (s : istatus).

Definition await (cfg : acfg) (k : N) : list ev := if a_async cfg then [] else [EAwait k].
Definition await_extra (cfg : acfg) (k : N) : list ev := if a_await_all cfg then await cfg k else [].

Definition cons_tr (p : list ev) (r : list ev * exit) : list ev * exit := (p ++ fst r, snd r).

Fixpoint attempt_loop (cfg : acfg) (pb_ok : bool) (retry : N) (os : list outcome) : list ev * exit :=
  match os with
  | [] => ([], XBlocked)
  | OErr :: os' =>
      if retry <? a_max_retry cfg
      then cons_tr [EReq retry; ESleep retry] (attempt_loop cfg pb_ok (retry + 1) os')     (* continue *)
      else ([EReq retry; EStatus SFailed], XReturn SFailed)                                (* retries exhausted *)
  | OResp st cf :: os' =>
      if needs_retry (a_hooks cfg) (a_dl cfg) st cf then
        if retry <? a_max_retry cfg
        then cons_tr ([EReq retry; EOpen retry; EClose retry] ++ await_extra cfg retry ++ [ESleep retry])
                     (attempt_loop cfg pb_ok (retry + 1) os')                              (* continue *)
        else ([EReq retry; EOpen retry; EStatus SFailed; EClose retry] ++ await_extra cfg retry,
              XReturn SFailed)                                                             (* retries exceeded *)
      else                                                                                 (* break *)
        if pb_ok
        then ([EReq retry; EOpen retry; EProcess retry true] ++ await cfg retry ++ [EStatus SArchived],
              XReturn SArchived)
        else ([EReq retry; EOpen retry; EProcess retry false; EStatus SFailed] ++ await_extra cfg retry,
              XReturn SFailed)
  end.

Definition archive_item (cfg : acfg) (pb_ok : bool) (os : list outcome) : list ev * exit :=
  attempt_loop cfg pb_ok 0 os.

(* ---- trace checkers (used by theorems and by the harness monitors) ---------------------- *)

Fixpoint count_req (t : list ev) : N :=
  match t with
  | [] => 0
  | EReq _ :: r => 1 + count_req r
  | _ :: r => count_req r
  end.

(* response bodies: at most one open at a time, every one closed exactly once.
   State: the body currently open.  None result = violation. *)
Definition body_step (st : option N) (e : ev) : option (option N) :=
  match e, st with
  | EOpen k, None => Some (Some k)
  | EOpen _, Some _ => None
  | EClose k, Some j => if k =? j then Some None else None
  | EClose _, None => None
  | EProcess k _, Some j => if k =? j then Some None else None
  | EProcess _ _, None => None
  | EReq _, Some _ => None                (* next request while a body is still open *)
  | _, _ => Some st
  end.

Fixpoint body_run (st : option N) (t : list ev) : option (option N) :=
  match t with
  | [] => Some st
  | e :: r => match body_step st e with Some st' => body_run st' r | None => None end
  end.

Definition bodies_ok (t : list ev) : bool :=
  match body_run None t with Some None => true | _ => false end.

(* WARC feedback: every response's feedback is awaited before the next request and before the
   item leaves archive().  State: the response whose write is not yet confirmed. *)
Definition await_step (st : option N) (e : ev) : option (option N) :=
  match e, st with
  | EOpen k, None => Some (Some k)
  | EOpen _, Some _ => None
  | EAwait k, Some j => if k =? j then Some None else None
  | EAwait _, None => None
  | EReq _, Some _ => None
  | _, _ => Some st
  end.

Fixpoint await_run (st : option N) (t : list ev) : option (option N) :=
  match t with
  | [] => Some st
  | e :: r => match await_step st e with Some st' => await_run st' r | None => None end
  end.

Definition awaits_ok (t : list ev) : bool :=
  match await_run None t with Some None => true | _ => false end.
