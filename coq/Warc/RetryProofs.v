(* C02 / C06 / C16 - proofs about Warc/Retry.v *)
From Coq Require Import Lia.
From ZenoV Require Import Warc.Retry.
Open Scope N_scope.

Lemma count_req_app a b : count_req (a ++ b) = count_req a + count_req b.
Proof. induction a as [|e a IH]; cbn [count_req app]; [lia|]. destruct e; lia. Qed.

Lemma count_req_await cfg k : count_req (await cfg k) = 0.
Proof. unfold await. destruct (a_async cfg); reflexivity. Qed.
Lemma count_req_await_extra cfg k : count_req (await_extra cfg k) = 0.
Proof. unfold await_extra. destruct (a_await_all cfg); [apply count_req_await|reflexivity]. Qed.

(* ---- attempts_le: at most MaxRetry + 1 requests, for every outcome sequence ---------------- *)
Lemma attempts_from cfg pb os : forall retry, retry <= a_max_retry cfg ->
  count_req (fst (attempt_loop cfg pb retry os)) + retry <= a_max_retry cfg + 1.
Proof.
  induction os as [|o os IH]; intros retry Hr; cbn [attempt_loop].
  - cbn. lia.
  - destruct o as [|st cf].
    + destruct (N.ltb_spec retry (a_max_retry cfg)) as [Hlt|Hge].
      * cbn [cons_tr fst]. rewrite count_req_app. cbn [count_req]. specialize (IH (retry + 1) ltac:(lia)). lia.
      * cbn [fst count_req]. lia.
    + destruct (needs_retry _ _ st cf).
      * destruct (N.ltb_spec retry (a_max_retry cfg)) as [Hlt|Hge].
        -- cbn [cons_tr fst]. rewrite !count_req_app, count_req_await_extra. cbn [count_req app].
           specialize (IH (retry + 1) ltac:(lia)). lia.
        -- cbn [fst]. rewrite count_req_app, count_req_await_extra. cbn [count_req]. lia.
      * destruct pb; cbn [fst]; rewrite ?count_req_app, ?count_req_await, ?count_req_await_extra; cbn [count_req]; lia.
Qed.

Theorem attempts_le_lemma cfg pb os :
  count_req (fst (archive_item cfg pb os)) <= a_max_retry cfg + 1.
Proof. pose proof (attempts_from cfg pb os 0). unfold archive_item. lia. Qed.

(* ---- bodies_closed_on_every_exit ---------------------------------------------------------- *)
Lemma body_run_app a : forall st b,
  body_run st (a ++ b) = match body_run st a with Some st' => body_run st' b | None => None end.
Proof.
  induction a as [|e a IH]; intros st b; cbn [body_run app]; [reflexivity|].
  destruct (body_step st e); [apply IH|reflexivity].
Qed.

Lemma body_run_await cfg k st : body_run st (await cfg k) = Some st.
Proof. unfold await. destruct (a_async cfg); cbn; [reflexivity|]. destruct st; reflexivity. Qed.
Lemma body_run_await_extra cfg k st : body_run st (await_extra cfg k) = Some st.
Proof. unfold await_extra. destruct (a_await_all cfg); [apply body_run_await|reflexivity]. Qed.

Lemma bodies_from cfg pb os : forall retry, body_run None (fst (attempt_loop cfg pb retry os)) = Some None.
Proof.
  induction os as [|o os IH]; intros retry; cbn [attempt_loop]; [reflexivity|].
  destruct o as [|st cf].
  - destruct (retry <? a_max_retry cfg); [|reflexivity].
    cbn [cons_tr fst app body_run body_step]. apply IH.
  - destruct (needs_retry _ _ st cf).
    + destruct (retry <? a_max_retry cfg).
      * cbn [cons_tr fst app body_run body_step]. rewrite N.eqb_refl.
        rewrite !body_run_app, body_run_await_extra. cbn [body_run body_step]. apply IH.
      * cbn [fst app body_run body_step]. rewrite N.eqb_refl. apply body_run_await_extra.
    + destruct pb; cbn [fst app body_run body_step]; rewrite N.eqb_refl.
      * rewrite body_run_app, body_run_await. reflexivity.
      * cbn [body_run body_step]. apply body_run_await_extra.
Qed.

(* on every exit of archive()'s item body - archived, failed after an error, failed after
   exhausted retries, failed in ProcessBody, or still in the loop - every response body that was
   opened has been closed exactly once, and before the next request was sent *)
Theorem bodies_closed_lemma cfg pb os : bodies_ok (fst (archive_item cfg pb os)) = true.
Proof. unfold bodies_ok, archive_item. rewrite bodies_from. reflexivity. Qed.

(* ---- written_before_archived ------------------------------------------------------------- *)
Definition arch : ev := EStatus SArchived.

Lemma not_in_await cfg k : ~ In arch (await cfg k).
Proof. unfold await, arch. destruct (a_async cfg); cbn; intuition discriminate. Qed.
Lemma not_in_await_extra cfg k : ~ In arch (await_extra cfg k).
Proof. unfold await_extra. destruct (a_await_all cfg); [apply not_in_await|cbn; tauto]. Qed.

Lemma archived_shape cfg pb os : forall retry,
  let r := attempt_loop cfg pb retry os in
  match snd r with
  | XReturn SArchived =>
      exists pre k st cf,
        fst r = pre ++ [EReq k; EOpen k; EProcess k true] ++ await cfg k ++ [arch]
        /\ ~ In arch pre /\ k = retry + count_req pre
        /\ nth_error os (N.to_nat (count_req pre)) = Some (OResp st cf)
        /\ needs_retry (a_hooks cfg) (a_dl cfg) st cf = false
  | _ => ~ In arch (fst r)
  end.
Proof.
  unfold arch.
  induction os as [|o os IH]; intros retry; cbn [attempt_loop].
  - cbn. tauto.
  - destruct o as [|st cf].
    + destruct (retry <? a_max_retry cfg).
      * specialize (IH (retry + 1)). cbv zeta in IH. cbn [cons_tr fst snd].
        destruct (snd (attempt_loop cfg pb (retry + 1) os)) as [|[|]].
        -- intros [H|[H|H]]; try discriminate. exact (IH H).
        -- destruct IH as (pre & k & st & cf & Ht & Hn & Hk & Hnth & Hnr).
           exists (EReq retry :: ESleep retry :: pre), k, st, cf. rewrite Ht.
           split; [reflexivity|]. split; [cbn; intuition discriminate|].
           split; [cbn [count_req]; lia|]. split; [|exact Hnr].
           cbn [count_req]. replace (N.to_nat (1 + count_req pre)) with (S (N.to_nat (count_req pre))) by lia.
           exact Hnth.
        -- intros [H|[H|H]]; try discriminate. exact (IH H).
      * cbn. intuition discriminate.
    + destruct (needs_retry (a_hooks cfg) (a_dl cfg) st cf) eqn:Hnr0.
      * destruct (retry <? a_max_retry cfg).
        -- specialize (IH (retry + 1)). cbv zeta in IH. cbn [cons_tr fst snd].
           assert (Hpre : ~ In (EStatus SArchived) ([EReq retry; EOpen retry; EClose retry] ++ await_extra cfg retry ++ [ESleep retry])).
           { intros H. rewrite !in_app_iff in H. destruct H as [H|[H|H]].
             - cbn in H. intuition discriminate.
             - exact (not_in_await_extra _ _ H).
             - cbn in H. intuition discriminate. }
           destruct (snd (attempt_loop cfg pb (retry + 1) os)) as [|[|]].
           ++ intros H. apply in_app_iff in H as [H|H]; [exact (Hpre H)|exact (IH H)].
           ++ destruct IH as (pre & k & st' & cf' & Ht & Hn & Hk & Hnth & Hnr).
              exists (([EReq retry; EOpen retry; EClose retry] ++ await_extra cfg retry ++ [ESleep retry]) ++ pre), k, st', cf'.
              rewrite Ht. split; [repeat rewrite <- app_assoc; reflexivity|].
              split; [intros H; apply in_app_iff in H as [H|H]; [exact (Hpre H)|exact (Hn H)]|].
              rewrite !count_req_app, count_req_await_extra. cbn [count_req app].
              split; [lia|]. split; [|exact Hnr].
              replace (N.to_nat (1 + 0 + (0 + 0) + count_req pre)) with (S (N.to_nat (count_req pre))) by lia.
              exact Hnth.
           ++ intros H. apply in_app_iff in H as [H|H]; [exact (Hpre H)|exact (IH H)].
        -- cbn [fst snd]. intros H. apply in_app_iff in H as [H|H].
           ++ cbn in H. intuition discriminate.
           ++ exact (not_in_await_extra _ _ H).
      * destruct pb; cbn [fst snd].
        -- exists [], retry, st, cf. cbn [app count_req]. split; [reflexivity|]. split; [tauto|].
           split; [lia|]. split; [reflexivity|exact Hnr0].
        -- intros H. apply in_app_iff in H as [H|H].
           ++ cbn in H. intuition discriminate.
           ++ exact (not_in_await_extra _ _ H).
Qed.

(* For every configuration, ProcessBody result and outcome sequence: if the item is marked
   archived, the trace ends with
       request k sent; response k arrived; ProcessBody on it succeeded (whole body read, body
       closed); [sync mode: the feedback of request k was received]; SetStatus(ItemArchived)
   where k is the last request, its response was not one archive() retries, and nothing before
   marks the item archived.  In particular in sync mode SetStatus(ItemArchived) comes only
   after the WARC writer's feedback for that very request. *)
Definition written_before_archived_stmt : Prop :=
  forall cfg pb os,
  snd (archive_item cfg pb os) = XReturn SArchived ->
  exists pre k st cf,
    fst (archive_item cfg pb os) = pre ++ [EReq k; EOpen k; EProcess k true] ++ await cfg k ++ [EStatus SArchived]
    /\ ~ In (EStatus SArchived) pre /\ k = count_req pre
    /\ nth_error os (N.to_nat k) = Some (OResp st cf)
    /\ needs_retry (a_hooks cfg) (a_dl cfg) st cf = false
    /\ (a_async cfg = false -> await cfg k = [EAwait k]).

Theorem written_before_archived_lemma : written_before_archived_stmt.
Proof.
  intros cfg pb os Hx. pose proof (archived_shape cfg pb os 0) as H. cbv zeta in H.
  unfold archive_item in *. rewrite Hx in H. destruct H as (pre & k & st & cf & Ht & Hn & Hk & Hnth & Hnr).
  exists pre, k, st, cf. rewrite N.add_0_l in Hk. subst k.
  repeat split; try assumption. intros Ha. unfold await. rewrite Ha. reflexivity.
Qed.

Theorem archived_event_iff_lemma cfg pb os :
  In (EStatus SArchived) (fst (archive_item cfg pb os)) <-> snd (archive_item cfg pb os) = XReturn SArchived.
Proof.
  pose proof (archived_shape cfg pb os 0) as H. cbv zeta in H. unfold archive_item, arch in *.
  destruct (snd (attempt_loop cfg pb 0 os)) as [|[|]]; split; intros H'; try discriminate; try tauto.
  destruct H as (pre & k & st & cf & Ht & _). rewrite Ht. rewrite !in_app_iff. right. right. right. left. reflexivity.
Qed.

(* ---- the same with the WARC writer in the picture ------------------------------------------
   A history interleaves archive()'s events for one item with the writer's: GWritten k = the
   record batch of exchange k has been written and flushed to the WARC file, GDropped k = the
   recorder dropped exchange k (discard hook, or an error while capturing).  The contract of
   the recorder (third-party, an assumption validated by the warcleg correspondence): the
   feedback channel of request k yields only after one of the two. *)
Inductive gev := GA (e : ev) | GWritten (k : N) | GDropped (k : N).

Fixpoint proj (h : list gev) : list ev :=
  match h with
  | [] => []
  | GA e :: r => e :: proj r
  | _ :: r => proj r
  end.

Definition feedback_sound (h : list gev) : Prop :=
  forall h1 k h2, h = h1 ++ GA (EAwait k) :: h2 -> In (GWritten k) h1 \/ In (GDropped k) h1.

Lemma proj_app a b : proj (a ++ b) = proj a ++ proj b.
Proof. induction a as [|[e|k|k] a IH]; cbn [proj app]; rewrite ?IH; reflexivity. Qed.

Lemma in_proj_split e h : In e (proj h) -> exists a b, h = a ++ GA e :: b.
Proof.
  induction h as [|g h IH]; [cbn; tauto|].
  destruct g as [e'|k|k]; cbn [proj].
  - intros [->|H]; [exists [], h; reflexivity|].
    destruct (IH H) as (a & b & ->). exists (GA e' :: a), b. reflexivity.
  - intros H. destruct (IH H) as (a & b & ->). exists (GWritten k :: a), b. reflexivity.
  - intros H. destruct (IH H) as (a & b & ->). exists (GDropped k :: a), b. reflexivity.
Qed.

Lemma split_last_unique {A} (x : A) l1 : forall l2 p, l1 ++ x :: l2 = p ++ [x] -> ~ In x p -> l1 = p /\ l2 = [].
Proof.
  induction l1 as [|a l1 IH]; intros l2 p H Hn.
  - destruct p as [|b p]; cbn in H.
    + inversion H. split; reflexivity.
    + inversion H; subst. exfalso. apply Hn. left. reflexivity.
  - destruct p as [|b p]; cbn in H.
    + inversion H as [[Ha Hl]]. destruct l1; discriminate.
    + inversion H; subst. destruct (IH l2 p H2) as [-> ->]; [intros X; apply Hn; right; exact X|].
      split; reflexivity.
Qed.

Definition written_before_archived_hist_stmt : Prop :=
  forall cfg pb os h h1 h2,
  a_async cfg = false ->
  proj h = fst (archive_item cfg pb os) ->
  feedback_sound h ->
  h = h1 ++ GA (EStatus SArchived) :: h2 ->
  exists k, k + 1 = count_req (proj h1)                  (* k is the last request sent *)
            /\ In (EProcess k true) (proj h1)            (* its body was read to the end and closed *)
            /\ (In (GWritten k) h1 \/ In (GDropped k) h1).

Theorem written_before_archived_hist_lemma : written_before_archived_hist_stmt.
Proof.
  intros cfg pb os h h1 h2 Hs Hp Hf Hh.
  assert (Hin : In (EStatus SArchived) (fst (archive_item cfg pb os))).
  { rewrite <- Hp, Hh, proj_app. apply in_app_iff. right. left. reflexivity. }
  apply archived_event_iff_lemma in Hin.
  destruct (written_before_archived_lemma cfg pb os Hin) as (pre & k & st & cf & Ht & Hn & Hk & _ & _ & Ha).
  rewrite (Ha Hs) in Ht. rewrite <- Hp, Hh, proj_app in Ht. cbn [proj] in Ht.
  change (pre ++ [EReq k; EOpen k; EProcess k true] ++ [EAwait k] ++ [EStatus SArchived])
    with (pre ++ [EReq k; EOpen k; EProcess k true; EAwait k] ++ [EStatus SArchived]) in Ht.
  rewrite app_assoc in Ht.
  apply split_last_unique in Ht as [H1 _].
  2:{ intros X. apply in_app_iff in X as [X|X]; [exact (Hn X)|]. cbn in X. intuition discriminate. }
  exists k. rewrite H1. split; [|split].
  - rewrite count_req_app. cbn. lia.
  - apply in_app_iff. right. cbn. tauto.
  - assert (Hin' : In (EAwait k) (proj h1)) by (rewrite H1; apply in_app_iff; right; cbn; tauto).
    destruct (in_proj_split _ _ Hin') as (a & b & Hab).
    assert (Hh' : h = a ++ GA (EAwait k) :: (b ++ GA (EStatus SArchived) :: h2)).
    { rewrite Hh, Hab, <- app_assoc. reflexivity. }
    destruct (Hf _ _ _ Hh') as [X|X]; [left|right]; rewrite Hab; apply in_app_iff; left; exact X.
Qed.

(* ---- the stronger statement: every response's write is confirmed before the item leaves
   archive() (and before the next request).  True of the variant [a_await_all = true], false of
   the code as it is: the responses it retries on or gives up on are never waited for. *)
Lemma await_run_app a : forall st b,
  await_run st (a ++ b) = match await_run st a with Some st' => await_run st' b | None => None end.
Proof.
  induction a as [|e a IH]; intros st b; cbn [await_run app]; [reflexivity|].
  destruct (await_step st e); [apply IH|reflexivity].
Qed.

Definition all_awaited_stmt (await_all : bool) : Prop :=
  forall mr hooks dl pb os,
  let cfg := AC mr false hooks dl await_all in
  snd (archive_item cfg pb os) <> XBlocked -> awaits_ok (fst (archive_item cfg pb os)) = true.

Lemma awaits_from mr hooks dl pb os : forall retry,
  let cfg := AC mr false hooks dl true in
  await_run None (fst (attempt_loop cfg pb retry os)) = Some None.
Proof.
  induction os as [|o os IH]; intros retry; cbv zeta in *; cbn [attempt_loop]; [reflexivity|].
  destruct o as [|st cf]; cbn [a_max_retry a_hooks a_dl].
  - destruct (retry <? mr); [|reflexivity]. cbn [cons_tr fst app await_run await_step]. apply IH.
  - destruct (needs_retry hooks dl st cf).
    + destruct (retry <? mr).
      * cbn [cons_tr fst app await_run await_step await_extra await a_await_all a_async]. rewrite N.eqb_refl.
        cbn [await_run await_step]. apply IH.
      * cbn [fst app await_run await_step await_extra await a_await_all a_async]. rewrite N.eqb_refl. reflexivity.
    + destruct pb; cbn [fst app await_run await_step await_extra await a_await_all a_async]; rewrite N.eqb_refl; reflexivity.
Qed.

Theorem all_awaited_fixed_lemma : all_awaited_stmt true.
Proof. intros mr hooks dl pb os cfg _. unfold awaits_ok, archive_item, cfg. rewrite awaits_from. reflexivity. Qed.

(* the code as it is: one 503 with MaxRetry = 0 - the item is marked failed and leaves
   archive() while the (accepted) 503 exchange may still be on its way to the WARC file *)
Theorem all_awaited_orig_refuted : ~ all_awaited_stmt false.
Proof.
  intros H. specialize (H 0 (Some default_hooks) [] true [OResp 503%Z []]).
  cbv zeta in H. vm_compute in H. assert (X : false = true) by (apply H; discriminate). discriminate.
Qed.

Lemma all_awaited_orig_witness :
  exists mr dl os, let cfg := AC mr false (Some default_hooks) dl false in
    snd (archive_item cfg true os) = XReturn SFailed
    /\ fst (archive_item cfg true os) = [EReq 0; EOpen 0; EStatus SFailed; EClose 0]
    /\ awaits_ok (fst (archive_item cfg true os)) = false
    /\ discarded (Some default_hooks) dl 503%Z [] = false.
Proof. exists 0, [], [OResp 503%Z []]. vm_compute. repeat split; reflexivity. Qed.

(* ---- non-vacuity -------------------------------------------------------------------------- *)
Example retry_nonvacuous :
  let cfg := AC 2 false (Some default_hooks) [404%Z] false in
  archive_item cfg true [OErr; OResp 503%Z []; OResp 200%Z []] =
    ([EReq 0; ESleep 0; EReq 1; EOpen 1; EClose 1; ESleep 1; EReq 2; EOpen 2; EProcess 2 true; EAwait 2;
      EStatus SArchived], XReturn SArchived)
  /\ archive_item cfg true [OResp 403%Z (bs "challenge"); OResp 403%Z (bs "challenge"); OResp 403%Z (bs "challenge")] =
    ([EReq 0; EOpen 0; EClose 0; ESleep 0; EReq 1; EOpen 1; EClose 1; ESleep 1; EReq 2; EOpen 2;
      EStatus SFailed; EClose 2], XReturn SFailed)
  /\ archive_item cfg true [OResp 404%Z []] =
    ([EReq 0; EOpen 0; EProcess 0 true; EAwait 0; EStatus SArchived], XReturn SArchived).
Proof. vm_compute. repeat split; reflexivity. Qed.

Example hist_nonvacuous :
  let cfg := AC 1 false (Some default_hooks) [] false in
  let h := [GA (EReq 0); GA (EOpen 0); GA (EClose 0); GA (ESleep 0); GA (EReq 1); GWritten 0; GA (EOpen 1);
            GA (EProcess 1 true); GWritten 1; GA (EAwait 1); GA (EStatus SArchived)] in
  proj h = fst (archive_item cfg true [OResp 500%Z []; OResp 200%Z []]) /\ feedback_sound h.
Proof.
  cbv zeta. split; [vm_compute; reflexivity|].
  intros h1 k h2 H.
  do 11 (destruct h1 as [|? h1]; [cbn in H; inversion H; subst; cbn; tauto|cbn in H; inversion H; subst; clear H; rename H2 into H]).
  destruct h1; discriminate.
Qed.
