(* C02 - proofs about Warc/Body.v *)
From Coq Require Import Lia ZifyBool ZifyNat ZifyN.
From ZenoV Require Import Warc.Body.
Open Scope N_scope.

(* ---- run-length encoded data ------------------------------------------------------------ *)

Lemma dlen_app a b : dlen (a ++ b) = dlen a + dlen b.
Proof. induction a as [|[c n] a IH]; cbn [dlen app]; lia. Qed.

Lemma expand_app a b : expand (a ++ b) = expand a ++ expand b.
Proof. induction a as [|[c n] a IH]; cbn [expand app]; [reflexivity|]. rewrite IH, app_assoc. reflexivity. Qed.

Lemma length_expand d : List.length (expand d) = N.to_nat (dlen d).
Proof.
  induction d as [|[c n] d IH]; cbn [expand dlen]; [reflexivity|].
  rewrite app_length, repeat_length, IH. lia.
Qed.

Lemma expand_nil d : dlen d = 0 -> expand d = [].
Proof.
  intros H. apply length_zero_iff_nil. rewrite length_expand. lia.
Qed.

Lemma expand_lit b : expand (lit b) = b.
Proof. induction b as [|c b IH]; cbn; [reflexivity|]. unfold lit in IH. rewrite IH. reflexivity. Qed.

Lemma dsplit_spec d : forall n a b, dsplit n d = (a, b) ->
  expand a ++ expand b = expand d /\ dlen a = N.min n (dlen d) /\ dlen a + dlen b = dlen d.
Proof.
  induction d as [|[c k] r IH]; intros n a b H; cbn [dsplit] in H.
  - inversion H; subst. cbn. repeat split; try reflexivity; lia.
  - destruct (N.eqb_spec n 0) as [Hn|Hn].
    + inversion H; subst. cbn [expand dlen app]. repeat split; try reflexivity; lia.
    + destruct (N.leb_spec k n) as [Hk|Hk].
      * destruct (dsplit (n - k) r) as [a' b'] eqn:E. inversion H; subst.
        destruct (IH _ _ _ E) as (He & Hl & Hs). cbn [expand dlen].
        rewrite <- app_assoc, He. repeat split; lia.
      * inversion H; subst. cbn [expand dlen app].
        rewrite app_nil_r, app_assoc, <- repeat_app.
        replace (N.to_nat n + N.to_nat (k - n))%nat with (N.to_nat k) by lia.
        repeat split; lia.
Qed.

Lemma norm_expand d : expand (norm d) = expand d.
Proof.
  induction d as [|[c n] r IH]; cbn [norm]; [reflexivity|].
  destruct (N.eqb_spec n 0) as [->|Hn].
  - cbn [expand]. rewrite IH. reflexivity.
  - cbn [expand]. rewrite <- IH. destruct (norm r) as [|[c' n'] r'].
    + reflexivity.
    + destruct (Ascii.eqb_spec c c') as [->|Hc]; cbn [expand]; [|reflexivity].
      rewrite app_assoc, <- repeat_app. f_equal. f_equal. lia.
Qed.

Lemma data_eqb_eq a : forall b, data_eqb a b = true -> a = b.
Proof.
  induction a as [|[c n] a IH]; intros [|[c' n'] b] H; cbn in H; try discriminate; [reflexivity|].
  apply andb_true_iff in H as [H H3]. apply andb_true_iff in H as [H1 H2].
  apply Ascii.eqb_eq in H1. apply N.eqb_eq in H2. subst. f_equal. apply IH, H3.
Qed.

(* the comparison the monitors use is sound for byte equality *)
Lemma same_bytes_sound a b : same_bytes a b = true -> expand a = expand b.
Proof.
  unfold same_bytes. intros H. apply data_eqb_eq in H.
  rewrite <- (norm_expand a), <- (norm_expand b), H. reflexivity.
Qed.

(* ---- copyWithTimeout -------------------------------------------------------------------- *)

Lemma copy_all_ok cn s : forall calls,
  c_err (copy_all cn calls s) = None ->
  c_out (copy_all cn calls s) = sdata s /\ c_cons (copy_all cn calls s) = slen s.
Proof.
  induction s as [|[d e] s IH]; intros calls H; cbn [copy_all] in *.
  - split; reflexivity.
  - destruct (deadline_hit cn calls (dlen d)); [discriminate|].
    destruct (surfaced cn (dlen d) e); [discriminate|].
    cbn [c_err c_out c_cons] in *. destruct (IH _ H) as [Ho Hc].
    rewrite Ho, Hc. unfold slen. cbn [sdata]. rewrite dlen_app. split; reflexivity.
Qed.

Lemma copy_all_cons_le cn s : forall calls, c_cons (copy_all cn calls s) <= slen s.
Proof.
  induction s as [|[d e] s IH]; intros calls; cbn [copy_all].
  - cbn. lia.
  - unfold slen in *. cbn [sdata]. rewrite dlen_app.
    destruct (deadline_hit cn calls (dlen d)); cbn [c_cons]; [lia|].
    destruct (surfaced cn (dlen d) e); cbn [c_cons]; [lia|].
    specialize (IH (if has_conn cn then calls + npieces (dlen d) else calls)). lia.
Qed.

(* a script none of whose errors reaches the caller, on a body without a failing deadline *)
Definition quiet (s : script) : Prop := forall d e, In (d, e) s -> e = None.
Definition conn_never_fails (cn : conn) : Prop := match cn with Conn (Some _) => False | _ => True end.

Lemma copy_all_quiet cn s : conn_never_fails cn -> quiet s -> forall calls, c_err (copy_all cn calls s) = None.
Proof.
  intros Hc. induction s as [|[d e] s IH]; intros Hq calls; cbn [copy_all]; [reflexivity|].
  assert (He : e = None) by (apply (Hq d e); left; reflexivity). subst e.
  assert (Hd : deadline_hit cn calls (dlen d) = None) by (destruct cn as [|[f|]]; cbn in *; tauto).
  rewrite Hd. unfold surfaced. destruct (has_conn cn && (0 <? dlen d)); cbn [c_err];
    apply IH; intros d' e' Hin; apply (Hq d' e'); right; exact Hin.
Qed.

(* ---- copyWithTimeoutN ------------------------------------------------------------------- *)

Lemma take_n_spec s : forall n buf e rest, take_n n s = (buf, e, rest) ->
  dlen buf <= n /\ dlen buf <= slen s /\
  (e = None -> expand buf ++ expand (sdata rest) = expand (sdata s)
               /\ dlen buf + slen rest = slen s /\ dlen buf = N.min n (slen s)).
Proof.
  unfold slen. induction s as [|[d e0] s IH]; intros n buf e rest H; cbn [take_n] in H.
  - inversion H; subst. cbn. repeat split; lia.
  - cbn [sdata]. rewrite dlen_app, expand_app.
    destruct (N.eqb_spec n 0) as [Hn|Hn].
    + inversion H; subst. cbn [dlen expand sdata app]. rewrite dlen_app, expand_app. repeat split; lia.
    + destruct (dsplit n d) as [a b] eqn:Es. destruct (dsplit_spec _ _ _ _ Es) as (He & Hl & Hs).
      destruct (N.eqb_spec (dlen b) 0) as [Hb|Hb].
      * assert (Eb : expand b = []) by (apply expand_nil, Hb).
        rewrite Eb, app_nil_r in He.
        destruct (N.eqb_spec (dlen a) n) as [Han|Han].
        -- inversion H; subst. rewrite He.
           split; [lia|]. split; [lia|]. intros _. split; [reflexivity|]. lia.
        -- destruct e0 as [c|].
           ++ inversion H; subst. split; [lia|]. split; [lia|]. discriminate.
           ++ destruct (take_n (n - dlen a) s) as [[a' e'] s''] eqn:Et. inversion H; subst.
              destruct (IH _ _ _ _ Et) as (H1 & H2 & H3). rewrite dlen_app, expand_app.
              split; [lia|]. split; [lia|]. intros Hnone.
              destruct (H3 Hnone) as (H4 & H5 & H6).
              split; [rewrite <- app_assoc, H4, He; reflexivity|]. lia.
      * inversion H; subst. cbn [sdata]. rewrite dlen_app, expand_app.
        split; [lia|]. split; [lia|]. intros _.
        split; [rewrite app_assoc, He; reflexivity|]. lia.
Qed.

Lemma take_n_quiet s : quiet s -> forall n buf e rest, take_n n s = (buf, e, rest) -> e = None /\ quiet rest.
Proof.
  induction s as [|[d e0] s IH]; intros Hq n buf e rest H; cbn [take_n] in H.
  - inversion H; subst. split; [reflexivity|exact Hq].
  - assert (He0 : e0 = None) by (apply (Hq d e0); left; reflexivity). subst e0.
    assert (Hq' : quiet s) by (intros d' e' Hin; apply (Hq d' e'); right; exact Hin).
    destruct (n =? 0); [inversion H; subst; split; [reflexivity|exact Hq]|].
    destruct (dsplit n d) as [a b]. destruct (dlen b =? 0).
    + destruct (dlen a =? n); [inversion H; subst; split; [reflexivity|exact Hq']|].
      destruct (take_n (n - dlen a) s) as [[a' e'] s''] eqn:Et. inversion H; subst.
      exact (IH Hq' _ _ _ _ Et).
    + inversion H; subst. split; [reflexivity|].
      intros d' e' [Hin|Hin]; [inversion Hin; reflexivity|exact (Hq' d' e' Hin)].
Qed.

(* ---- ProcessBody ------------------------------------------------------------------------ *)

(* body_drained.  For EVERY configuration, MIME oracle, deadline behaviour and reader script:
   if ProcessBody returns nil then
   - every byte of the body was taken from the reader (so the recorder that tees the
     connection saw every byte), the body was closed,
   - when the body is not merely drained, the MIME type was detected on exactly the first
     min(2048, length) bytes and, when the MIME rule selects spooling, the spooled copy handed
     to the post-processor is byte-identical to the whole body, otherwise no copy is kept,
   - in the drain-only configuration the (fall-through) sniff sees an exhausted reader: the
     detected type is that of the empty string and the copy, if any, is empty. *)
Definition body_drained_stmt : Prop :=
  forall c mime_of s, let r := process_body c mime_of s in
  pb_closed r = true /\ pb_cons r <= slen s /\
  (pb_err r = None ->
     pb_cons r = slen s /\
     if drain_only c
     then pb_mime r = Some (mime_of []) /\
          pb_spool r = (if needs_spool (mime_of []) then Some [] else None)
     else exists buf, expand buf = firstn (N.to_nat sniff) (expand (sdata s)) /\
          pb_mime r = Some (mime_of buf) /\
          if needs_spool (mime_of buf)
          then exists sp, pb_spool r = Some sp /\ expand sp = expand (sdata s)
          else pb_spool r = None).

Lemma firstn_prefix (p q : bytes) n :
  (List.length p = n \/ (List.length p <= n)%nat /\ q = []) -> firstn n (p ++ q) = p.
Proof.
  intros [H|[H ->]].
  - subst n. rewrite firstn_app, Nat.sub_diag, firstn_all. cbn. apply app_nil_r.
  - rewrite app_nil_r. apply firstn_all2. exact H.
Qed.

Ltac err_case := cbn [pb_closed pb_cons pb_err]; split; [reflexivity|]; split; [lia|]; discriminate.

Theorem body_drained_lemma : body_drained_stmt.
Proof.
  intros c mime_of s. unfold process_body. cbv zeta.
  set (cn := p_conn c).
  destruct (has_conn cn && negb (dl_ok cn 0)).
  { err_case. }
  set (calls0 := if has_conn cn then 1 else 0).
  destruct (drain_only c) eqn:Hdr.
  - (* drain-only: copy everything, then the sniff reads from an exhausted body *)
    pose proof (copy_all_cons_le cn s calls0) as Hle.
    destruct (c_err (copy_all cn calls0 s)) eqn:He1.
    { err_case. }
    destruct (copy_all_ok cn s calls0 He1) as [_ Hc].
    cbn [take_n dlen]. rewrite N.add_0_r.
    destruct (has_conn cn && negb (dl_ok cn (c_calls (copy_all cn calls0 s)))).
    { err_case. }
    cbn [copy_all c_err c_cons c_out pb_closed pb_cons pb_err pb_mime pb_spool app]. rewrite N.add_0_r.
    split; [reflexivity|]. split; [lia|]. intros _. split; [lia|]. split; [reflexivity|].
    destruct (needs_spool (mime_of [])); reflexivity.
  - cbn [c_err c_cons c_calls].
    destruct (take_n sniff s) as [[buf e2] s2] eqn:Et. rewrite !N.add_0_l.
    destruct (take_n_spec _ _ _ _ _ Et) as (Hb1 & Hb2 & Hb3).
    destruct e2 as [code|].
    { err_case. }
    destruct (Hb3 eq_refl) as (Hx & Hs & Hm).
    destruct (has_conn cn && negb (dl_ok cn calls0)).
    { err_case. }
    set (calls2 := if has_conn cn then calls0 + 1 else calls0).
    pose proof (copy_all_cons_le cn s2 calls2) as Hle.
    destruct (c_err (copy_all cn calls2 s2)) eqn:He3.
    { err_case. }
    destruct (copy_all_ok cn s2 calls2 He3) as [Ho Hc].
    cbn [pb_closed pb_cons pb_err pb_mime pb_spool].
    split; [reflexivity|]. split; [lia|]. intros _. split; [lia|].
    exists buf. split.
    { rewrite <- Hx. symmetry. apply firstn_prefix.
      rewrite length_expand.
      destruct (N.eq_dec (dlen buf) sniff) as [Heq|Hne]; [left; lia|right].
      split; [lia|]. apply expand_nil. fold (slen s2). lia. }
    split; [reflexivity|].
    destruct (needs_spool (mime_of buf)); [|reflexivity].
    eexists. split; [reflexivity|]. rewrite expand_app, Ho. exact Hx.
Qed.

(* a failed ProcessBody keeps no copy *)
Theorem body_error_no_spool_lemma c mime_of s :
  pb_err (process_body c mime_of s) <> None -> pb_spool (process_body c mime_of s) = None.
Proof.
  unfold process_body. cbv zeta. set (cn := p_conn c).
  destruct (has_conn cn && negb (dl_ok cn 0)); [reflexivity|].
  destruct (c_err (if drain_only c then _ else _)); [reflexivity|].
  destruct (take_n sniff _) as [[buf e2] s2]. destruct e2; [reflexivity|].
  destruct (has_conn cn && negb (dl_ok cn _)); [reflexivity|].
  destruct (c_err (copy_all cn _ s2)); [reflexivity|].
  cbn. congruence.
Qed.

(* ProcessBody fails only for a reason: a Read error that reaches it or a failing deadline *)
Theorem body_quiet_ok_lemma c mime_of s :
  conn_never_fails (p_conn c) -> quiet s -> pb_err (process_body c mime_of s) = None.
Proof.
  intros Hc Hq. unfold process_body. cbv zeta. set (cn := p_conn c) in *.
  assert (Hdl : forall k, has_conn cn && negb (dl_ok cn k) = false).
  { intros k. destruct cn as [|[f|]]; cbn in *; try reflexivity. tauto. }
  rewrite Hdl.
  destruct (drain_only c).
  - rewrite (copy_all_quiet cn s Hc Hq). cbn [take_n]. rewrite Hdl. cbn. reflexivity.
  - cbn [c_err]. destruct (take_n sniff s) as [[buf e2] s2] eqn:Et.
    destruct (take_n_quiet s Hq _ _ _ _ Et) as [-> Hq2]. cbn [c_calls]. rewrite Hdl.
    rewrite (copy_all_quiet cn s2 Hc Hq2). reflexivity.
Qed.

(* ---- non-vacuity: an HTML body of 2 MiB + 5000 bytes delivered in three pieces, the first
   two with spurious errors that a body with deadlines swallows ------------------------------ *)
Definition ex_html : mime := [MN false false false (bs "text/html; charset=utf-8"); MN true false false (bs "text/plain");
                              MN false false false (bs "application/octet-stream")].
Definition ex_script : script :=
  [(lit (bs "<html>") ++ [("a"%char, 3000)], Some 7); ([("b"%char, 2097152)], Some 9); ([("c"%char, 1994)], None)].
Example body_drained_nonvacuous :
  let r := process_body (PC false false 1 (Conn None)) (fun _ => ex_html) ex_script in
  pb_err r = None /\ pb_cons r = 2102152 /\ slen ex_script = 2102152
  /\ (exists sp, pb_spool r = Some sp /\ same_bytes sp (sdata ex_script) = true)
  /\ pb_err (process_body (PC false false 1 NoConn) (fun _ => ex_html) ex_script) = Some (PRead 7).
Proof. vm_compute. repeat split; try reflexivity. eexists. split; reflexivity. Qed.
