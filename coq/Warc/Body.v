(* C02 - model of internal/pkg/archiver/body.go: ProcessBody, copyWithTimeout, copyWithTimeoutN.
   Executable definitions only; proofs are in BodyProofs.v.

   The response body is an io.Reader.  It is modelled as a SCRIPT: the list of results its
   successive Read calls deliver - a piece of data and, optionally, a non-EOF error delivered
   with the last byte of that piece (n > 0, err) or alone (0, err).  Errors are NOT sticky (a
   read-deadline error on a net.Conn is not), the script simply goes on.  After the script is
   exhausted every Read answers (0, io.EOF).  (Whether the last data comes with io.EOF or is
   followed by a separate (0, io.EOF) makes no difference to any branch of the code; the
   harness varies it, the model does not mention it.)  A Read with a buffer smaller than the
   current piece returns the front of the piece and no error.

   Data is run-length encoded so that the model can be evaluated on bodies of several MiB:
   [(c, n)] stands for n copies of byte c; [expand] gives the byte string. *)
From Coq Require Export List Ascii String NArith ZArith Bool.
From ZenoV Require Export Lib.Hex.
Export ListNotations.
Open Scope N_scope.

Definition data := list (ascii * N).

Definition lit (b : bytes) : data := map (fun c => (c, 1)) b.

Fixpoint expand (d : data) : bytes :=
  match d with
  | [] => []
  | (c, n) :: r => repeat c (N.to_nat n) ++ expand r
  end.

Fixpoint dlen (d : data) : N :=
  match d with
  | [] => 0
  | (_, n) :: r => n + dlen r
  end.

(* the first [n] bytes of [d] and the rest *)
Fixpoint dsplit (n : N) (d : data) : data * data :=
  match d with
  | [] => ([], [])
  | (c, k) :: r =>
      if n =? 0 then ([], d)
      else if k <=? n then let '(a, b) := dsplit (n - k) r in ((c, k) :: a, b)
      else ([(c, n)], (c, k - n) :: r)
  end.

(* canonical form: no empty runs, adjacent runs of one byte merged.  Two data values with the
   same canonical form have the same expansion (BodyProofs.norm_sound). *)
Fixpoint norm (d : data) : data :=
  match d with
  | [] => []
  | (c, n) :: r =>
      if n =? 0 then norm r
      else match norm r with
           | (c', n') :: r' => if Ascii.eqb c c' then (c, n + n') :: r' else (c, n) :: (c', n') :: r'
           | [] => [(c, n)]
           end
  end.

Fixpoint data_eqb (a b : data) : bool :=
  match a, b with
  | [], [] => true
  | (c, n) :: a', (c', n') :: b' => Ascii.eqb c c' && (n =? n') && data_eqb a' b'
  | _, _ => false
  end.

Definition same_bytes (a b : data) : bool := data_eqb (norm a) (norm b).

(* ---- the reader ----------------------------------------------------------------------- *)

Definition chunk := (data * option N)%type.      (* data, error code delivered with its end *)
Definition script := list chunk.

Fixpoint sdata (s : script) : data :=
  match s with [] => [] | (d, _) :: r => d ++ sdata r end.
Definition slen (s : script) : N := dlen (sdata s).

(* ---- the optional deadline interface of the body -------------------------------------- *)
(* `conn, ok := Body.(interface{ SetReadDeadline(time.Time) error })`.  [Conn (Some f)]: the
   f-th call (from 0) of SetReadDeadline made by ProcessBody fails; [Conn None]: none fails. *)
Inductive conn := NoConn | Conn (fail_at : option N).

Definition has_conn (cn : conn) : bool := match cn with NoConn => false | Conn _ => true end.

Definition dl_ok (cn : conn) (calls : N) : bool :=
  match cn with Conn (Some f) => negb (calls =? f) | _ => true end.

Inductive perr := PDeadline | PRead (code : N).

(* ---- copyWithTimeout(dst, src, conn): 4096-byte reads until io.EOF ---------------------- *)

Definition bufsz : N := 4096.
Definition npieces (L : N) : N := (L + (bufsz - 1)) / bufsz.

(* does a deadline reset fail while the piece of length L is copied, and at which read *)
Definition deadline_hit (cn : conn) (calls L : N) : option N :=
  match cn with
  | Conn (Some f) => if (calls <=? f) && (f <? calls + npieces L) then Some (f - calls) else None
  | _ => None
  end.

(* `err = conn.SetReadDeadline(...)` overwrites the Read error when n > 0 and conn != nil *)
Definition surfaced (cn : conn) (L : N) (e : option N) : option N :=
  if has_conn cn && (0 <? L) then None else e.

Record cres := CR { c_out : data;          (* what was written to dst, in order *)
                    c_cons : N;            (* bytes taken from the reader *)
                    c_calls : N;           (* SetReadDeadline calls so far *)
                    c_err : option perr }.

Fixpoint copy_all (cn : conn) (calls : N) (s : script) : cres :=
  match s with
  | [] => CR [] 0 calls None                                  (* Read = (0, io.EOF): break *)
  | (d, e) :: s' =>
      let L := dlen d in
      match deadline_hit cn calls L with
      | Some i =>                                             (* read i+1 of this piece: reset fails, *)
          CR (fst (dsplit (i * bufsz) d))                     (* its bytes are read but not written   *)
             (N.min L ((i + 1) * bufsz)) (calls + i + 1) (Some PDeadline)
      | None =>
          let calls' := if has_conn cn then calls + npieces L else calls in
          match surfaced cn L e with
          | Some c => CR d L calls' (Some (PRead c))          (* written first, then `return err` *)
          | None => let r := copy_all cn calls' s' in
                    CR (d ++ c_out r) (L + c_cons r) (c_calls r) (c_err r)
          end
      end
  end.

(* ---- copyWithTimeoutN(buffer, src, n, conn) = io.CopyN into a bytes.Buffer --------------
   io.CopyN = io.Copy(dst, io.LimitReader(src, n)), and *bytes.Buffer is an io.ReaderFrom: it
   reads until the limited reader says EOF (limit reached or source EOF) or an error.  An error
   delivered with the byte that reaches the limit is dropped by CopyN (`written == n`), an
   earlier one is returned.  Returns (buffer, error, rest of the script). *)
Fixpoint take_n (n : N) (s : script) : data * option N * script :=
  match s with
  | [] => ([], None, [])
  | (d, e) :: s' =>
      if n =? 0 then ([], None, s)
      else
        let '(a, b) := dsplit n d in
        if dlen b =? 0 then
          if dlen a =? n then (a, None, s')
          else match e with
               | Some c => (a, Some c, s')
               | None => let '(a', e', s'') := take_n (n - dlen a) s' in (a ++ a', e', s'')
               end
        else (a, None, (b, e) :: s')
  end.

(* ---- MIME type: the chain detected type :: parent :: ... :: root.  mimetype.Detect and
   MIME.Is are third-party: each node carries the library's answers to Is("text/plain") and
   Is("application/pdf") and its String(). *)
Record mnode := MN { mn_text_plain : bool; mn_pdf : bool; mn_m3u8 : bool; mn_full : bytes }.
Definition mime := list mnode.

Fixpoint prefixb (p s : bytes) : bool :=
  match p, s with
  | [], _ => true
  | a :: p', c :: s' => Ascii.eqb a c && prefixb p' s'
  | _ :: _, [] => false
  end.
Fixpoint contains (p s : bytes) : bool :=
  prefixb p s || match s with [] => false | _ :: s' => contains p s' end.

(* (Parent() != nil && IsMIMETypeInHierarchy(Parent(), "text/plain")) || Is("application/pdf")
   || Is("application/vnd.apple.mpegurl") || strings.Contains(String(), "text/")
   (the HLS clause was added by "fix: ProcessBody keeps the body of an HLS playlist") *)
Definition needs_spool (m : mime) : bool :=
  match m with
  | [] => false
  | d :: parents => existsb mn_text_plain parents || mn_pdf d || mn_m3u8 d || contains (bs "text/") (mn_full d)
  end.

(* ---- ProcessBody ------------------------------------------------------------------------ *)
Record pcfg := PC { p_disable_assets : bool; p_domains_crawl : bool; p_max_hops : Z; p_conn : conn }.

Definition drain_only (c : pcfg) : bool :=
  p_disable_assets c && negb (p_domains_crawl c) && (p_max_hops c =? 0)%Z.

Definition sniff : N := 2048.

Record pbres := PB { pb_err : option perr;
                     pb_cons : N;               (* bytes taken from the body *)
                     pb_spool : option data;    (* u.SetBody: the spooled copy *)
                     pb_mime : option mime;     (* u.SetMIMEType *)
                     pb_calls : N;              (* SetReadDeadline calls *)
                     pb_closed : bool }.        (* `defer Body.Close()` *)

Definition process_body (c : pcfg) (mime_of : data -> mime) (s : script) : pbres :=
  let cn := p_conn c in
  (* conn.SetReadDeadline before anything is read *)
  if has_conn cn && negb (dl_ok cn 0) then PB (Some PDeadline) 0 None None 1 true else
  let calls0 := if has_conn cn then 1 else 0 in
  (* nothing downstream needs the body: consume and discard - and fall through *)
  let r1 := if drain_only c then copy_all cn calls0 s else CR [] 0 calls0 None in
  match c_err r1 with
  | Some e => PB (Some e) (c_cons r1) None None (c_calls r1) true
  | None =>
      let s1 := if drain_only c then [] else s in
      let '(buf, e2, s2) := take_n sniff s1 in
      let cons2 := c_cons r1 + dlen buf in
      match e2 with
      | Some code => PB (Some (PRead code)) cons2 None None (c_calls r1) true
      | None =>
          if has_conn cn && negb (dl_ok cn (c_calls r1)) then PB (Some PDeadline) cons2 None None (c_calls r1 + 1) true else
          let calls2 := if has_conn cn then c_calls r1 + 1 else c_calls r1 in
          let m := mime_of buf in
          let r3 := copy_all cn calls2 s2 in
          match c_err r3 with
          | Some e => PB (Some e) (cons2 + c_cons r3) None (Some m) (c_calls r3) true
          | None =>
              PB None (cons2 + c_cons r3)
                 (if needs_spool m then Some (buf ++ c_out r3) else None)
                 (Some m) (c_calls r3) true
          end
      end
  end.
