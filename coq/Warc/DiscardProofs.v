(* C02 - proofs about Warc/Discard.v *)
From Coq Require Import Lia.
From ZenoV Require Import Warc.Discard.
Open Scope Z_scope.

(* the policy as the property states it *)
Definition challenge (st : Z) (cf : bytes) : Prop := st = 403 /\ cf = bs "challenge".
Definition policy_rejects (dl : list Z) (st : Z) (cf : bytes) : Prop := challenge st cf \/ In st dl.

Lemma existsb_Zeqb st l : existsb (Z.eqb st) l = true <-> In st l.
Proof.
  rewrite existsb_exists. split.
  - intros (x & Hin & Heq). apply Z.eqb_eq in Heq. subst. exact Hin.
  - intros Hin. exists st. split; [exact Hin|apply Z.eqb_refl].
Qed.

Lemma cf_hook_iff dl st cf : fst (run_hook HCloudflare dl st cf) = true <-> challenge st cf.
Proof.
  unfold run_hook, challenge.
  destruct (Z.eqb_spec st 403) as [->|Hn]; cbn [andb].
  - destruct (bytes_eqb_spec cf (bs "challenge")) as [->|Hc]; cbn [fst].
    + split; intros; [split; reflexivity | reflexivity].
    + split; [discriminate|]. intros [_ H]. contradiction.
  - cbn [fst]. split; [discriminate|]. intros [H _]. contradiction.
Qed.

Lemma status_hook_iff dl st cf : fst (run_hook HStatus dl st cf) = true <-> In st dl.
Proof.
  unfold run_hook. rewrite <- existsb_Zeqb.
  destruct dl as [|x dl]; cbn [List.length Nat.eqb negb andb fst existsb].
  - split; discriminate.
  - destruct (_ || _); cbn [fst]; split; congruence.
Qed.

(* discard_iff: for every status code (any integer), every value of the cf-mitigated header
   (any byte string, "" = absent) and every configured list, the default hook chain discards
   exactly the responses the policy names, and tells a challenge page from a listed status. *)
Theorem discard_iff_lemma dl st cf :
  (fst (chain default_hooks dl st cf) = true <-> policy_rejects dl st cf)
  /\ (snd (chain default_hooks dl st cf) = RChallenge <-> challenge st cf)
  /\ (snd (chain default_hooks dl st cf) = RInList <-> In st dl /\ ~ challenge st cf)
  /\ (fst (chain default_hooks dl st cf) = false <-> snd (chain default_hooks dl st cf) = RAllPassed).
Proof.
  pose proof (cf_hook_iff dl st cf) as Hc. pose proof (status_hook_iff dl st cf) as Hs.
  unfold policy_rejects, chain, default_hooks, chain_loop.
  destruct (run_hook HCloudflare dl st cf) as [d1 w1] eqn:E1.
  destruct (run_hook HStatus dl st cf) as [d2 w2] eqn:E2. cbn [fst] in Hc, Hs.
  assert (Hw1 : d1 = true -> w1 = RChallenge).
  { unfold run_hook in E1. destruct (_ && _); inversion E1; congruence. }
  assert (Hw2 : d2 = true -> w2 = RInList).
  { unfold run_hook in E2. destruct (_ && _); inversion E2; congruence. }
  destruct d1; [rewrite (Hw1 eq_refl)|]; [|destruct d2; [rewrite (Hw2 eq_refl)|]]; cbn [fst snd].
  - assert (challenge st cf) by tauto.
    intuition (try discriminate; try congruence).
  - assert (~ challenge st cf) by (intros X; apply Hc in X; discriminate).
    assert (In st dl) by tauto.
    intuition (try discriminate; try congruence).
  - assert (~ challenge st cf) by (intros X; apply Hc in X; discriminate).
    assert (~ In st dl) by (intros X; apply Hs in X; discriminate).
    intuition (try discriminate; try congruence).
Qed.

(* archive() retries exactly on 5xx / 408 / 425 / 429 and on discarded challenge pages; a
   response dropped because of a listed status is not retried for that reason *)
Theorem retry_iff_lemma dl st cf :
  needs_retry (Some default_hooks) dl st cf = true <->
  (500 <= st \/ st = 408 \/ st = 425 \/ st = 429) \/ challenge st cf.
Proof.
  unfold needs_retry, client_hook.
  destruct (discard_iff_lemma dl st cf) as (Hd & Hch & _ & _).
  destruct (chain default_hooks dl st cf) as [d why]. cbn [fst snd] in *.
  assert (Hb : bad_status st = true <-> (500 <= st \/ st = 408 \/ st = 425 \/ st = 429)).
  { unfold bad_status. rewrite orb_true_iff, existsb_Zeqb. cbn [In]. lia. }
  rewrite orb_true_iff, andb_true_iff, Hb.
  assert (Hr : is_challenge_reason why = true <-> why = RChallenge) by (destruct why; cbn; split; congruence).
  rewrite Hr, Hch. unfold policy_rejects in Hd. tauto.
Qed.

(* hook order does not change WHETHER a response is discarded (only the reason given) *)
Theorem chain_order_lemma dl st cf :
  fst (chain [HStatus; HCloudflare] dl st cf) = fst (chain default_hooks dl st cf).
Proof.
  unfold chain, default_hooks, chain_loop.
  destruct (run_hook HCloudflare dl st cf) as [[|] w1], (run_hook HStatus dl st cf) as [[|] w2]; reflexivity.
Qed.

(* no hook installed / empty chain: nothing is discarded *)
Theorem no_hook_lemma dl st cf :
  client_hook None dl st cf = (false, RHookNotSet) /\ chain [] dl st cf = (false, REmptyChain).
Proof. split; reflexivity. Qed.

Example discard_iff_nonvacuous :
  chain default_hooks [404; 403] 403 (bs "challenge") = (true, RChallenge)
  /\ chain default_hooks [404; 403] 403 (bs "Challenge") = (true, RInList)
  /\ chain default_hooks [404] 403 [] = (false, RAllPassed)
  /\ needs_retry (Some default_hooks) [404] 404 [] = false
  /\ discarded (Some default_hooks) [404] 404 [] = true
  /\ needs_retry (Some default_hooks) [] 403 (bs "challenge") = true.
Proof. vm_compute. repeat split; reflexivity. Qed.

(* ---- purity of the hook chain (added after the sixth round) ------------------------------ *)
(* what a hook may depend on / do: it hands the body reader on exactly as it received it, and
   its verdict is the same whatever that body is *)
Definition pure_hook {B} (h : ghook B) : Prop :=
  forall r, snd (h r) = rs_body r /\ forall b, fst (h (set_body r b)) = fst (h r).

Lemma set_body_same {B} (r : resp B) : set_body r (rs_body r) = r.
Proof. destruct r; reflexivity. Qed.

Lemma hook_fn_pure {B} dl h : pure_hook (@hook_fn B dl h).
Proof. intros r. split; [reflexivity|]. intros b. reflexivity. Qed.

Lemma gchain_loop_pure {B} (hs : list (ghook B)) :
  Forall pure_hook hs -> pure_hook (gchain_loop hs).
Proof.
  induction hs as [|h hs IH]; intros HF r.
  - split; [reflexivity|]. intros b. reflexivity.
  - inversion HF as [|h' hs' Hh Hhs]; subst. specialize (IH Hhs).
    destruct (Hh r) as [Hb Hv].
    split.
    + cbn [gchain_loop]. destruct (h r) as [[d why] b'] eqn:E. cbn [snd] in Hb. subst b'.
      destruct d; [reflexivity|]. rewrite set_body_same. apply IH.
    + intros b. cbn [gchain_loop].
      pose proof (Hv b) as Hvb. destruct (Hh (set_body r b)) as [Hb2 _].
      destruct (h (set_body r b)) as [[d2 why2] b2] eqn:E2.
      destruct (h r) as [[d why] b'] eqn:E. cbn [fst snd] in *. subst b' b2.
      inversion Hvb; subst d2 why2.
      destruct d; [reflexivity|].
      rewrite !set_body_same. apply IH.
Qed.

(* Builder.Build() preserves purity: a chain of hooks each of which leaves the body alone and
   decides on status and headers only is itself such a hook - for ANY list of hooks *)
Theorem chain_pure_lemma {B} (hs : list (ghook B)) :
  Forall pure_hook hs -> pure_hook (gchain hs).
Proof.
  intros HF. destruct hs as [|h hs].
  - intros r. split; [reflexivity|]. intros b. reflexivity.
  - exact (gchain_loop_pure (h :: hs) HF).
Qed.

Lemma gchain_loop_hook_fn {B} hooks dl (r : resp B) :
  gchain_loop (map (hook_fn dl) hooks) r =
  (chain_loop hooks dl (rs_status r) (header_get cf_key (rs_header r)), rs_body r).
Proof.
  induction hooks as [|h hooks IH]; [reflexivity|].
  cbn [map gchain_loop chain_loop]. unfold hook_fn at 1.
  destruct (run_hook h dl (rs_status r) (header_get cf_key (rs_header r))) as [d why].
  destruct d; [reflexivity|]. rewrite set_body_same. exact IH.
Qed.

(* the chains the code builds: for every list of the code's hooks, every discard list and every
   response - whatever its other headers (Server, ...) and whatever its body - the verdict is
   the one [chain] computes from the status code and Header.Get("cf-mitigated") alone, and the
   body reader is handed on untouched *)
Theorem hooks_pure_lemma {B} hooks dl (r : resp B) :
  gchain (map (hook_fn dl) hooks) r =
  (chain hooks dl (rs_status r) (header_get cf_key (rs_header r)), rs_body r).
Proof.
  destruct hooks as [|h hooks]; [reflexivity|].
  exact (gchain_loop_hook_fn (h :: hooks) dl r).
Qed.

(* ... hence the recorder digests (and keys local dedupe on) the payload itself exactly when the
   policy keeps the exchange: two kept exchanges get the same WARC-Payload-Digest input only if
   their payloads are identical - a revisit record can only stand for an identical payload *)
Theorem recorder_payload_lemma {B} hooks dl (r : resp B) :
  recorder_payload (Some (gchain (map (hook_fn dl) hooks))) r =
  if fst (chain hooks dl (rs_status r) (header_get cf_key (rs_header r))) then None else Some (rs_body r).
Proof.
  unfold recorder_payload. rewrite hooks_pure_lemma.
  destruct (chain hooks dl (rs_status r) (header_get cf_key (rs_header r))) as [d why]. reflexivity.
Qed.

Theorem revisit_identical_lemma {B} hooks dl (r1 r2 : resp B) p :
  recorder_payload (Some (gchain (map (hook_fn dl) hooks))) r1 = Some p ->
  recorder_payload (Some (gchain (map (hook_fn dl) hooks))) r2 = Some p ->
  rs_body r1 = p /\ rs_body r2 = p.
Proof.
  rewrite !recorder_payload_lemma.
  destruct (fst (chain hooks dl (rs_status r1) _)); [discriminate|].
  destruct (fst (chain hooks dl (rs_status r2) _)); [discriminate|].
  intros H1 H2. split; congruence.
Qed.

(* why the body must be left alone: with a hook in the chain that keeps the response but eats
   the head of the body, two DIFFERENT payloads with a common tail reach the recorder's digest
   as the same bytes (a false identical-payload revisit), and neither digest is the payload's *)
Theorem impure_hook_refuted :
  exists (r1 r2 : resp bytes) dl,
    rs_body r1 <> rs_body r2 /\
    let hook := Some (gchain (peeking_hook 4 :: map (hook_fn dl) default_hooks)) in
    recorder_payload hook r1 = recorder_payload hook r2 /\
    recorder_payload hook r1 <> Some (rs_body r1).
Proof.
  exists (Resp 403 [(bs "Server", [bs "cloudflare"])] (bs "id=Atail")),
         (Resp 403 [(bs "Server", [bs "cloudflare"])] (bs "id=Btail")), [429].
  split; [discriminate|]. vm_compute. split; [reflexivity|discriminate].
Qed.

Example hooks_pure_nonvacuous :
  gchain (map (hook_fn [404]) default_hooks)
         (Resp 403 [(bs "Cf-Mitigated", [bs "challenge"]); (bs "Server", [bs "cloudflare"])] (bs "<html>"))
    = ((true, RChallenge), bs "<html>")
  /\ gchain (map (hook_fn [404]) default_hooks) (Resp 403 [(bs "Server", [bs "cloudflare"])] (bs "<html>"))
    = ((false, RAllPassed), bs "<html>")
  /\ gchain (map (hook_fn [404]) default_hooks) (Resp 403 [(bs "cf-mitigated", [bs "challenge"])] (bs "x"))
    = ((false, RAllPassed), bs "x")
  /\ recorder_payload (Some (gchain (map (hook_fn [404]) default_hooks))) (Resp 403 [(bs "Server", [bs "cloudflare"])] (bs "<html>"))
    = Some (bs "<html>")
  /\ recorder_payload (Some (gchain (map (hook_fn [404]) default_hooks))) (Resp 404 [] (bs "<html>")) = None
  /\ pure_hook (@gchain bytes (map (hook_fn [404]) default_hooks))
  /\ ~ pure_hook (peeking_hook 4).
Proof.
  repeat split; try reflexivity.
  - apply chain_pure_lemma. repeat constructor; apply hook_fn_pure.
  - apply chain_pure_lemma. repeat constructor; apply hook_fn_pure.
  - intros H. destruct (H (Resp 403 [] (bs "abcdef"))) as [Hb _]. vm_compute in Hb. discriminate.
Qed.
