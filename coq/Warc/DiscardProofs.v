(* C02 - proofs about Warc/Discard.v *)
From Coq Require Import Lia.
From ZenoV Require Import Warc.Discard.
Open Scope Z_scope.

(* the policy as the property states it *)
Definition challenge (st : Z) (cf : bytes) : Prop := st = 403 /\ cf = bs "challenge".
Definition policy_rejects (dl : list Z) (st : Z) (cf : bytes) : Prop := challenge st cf \/ In st dl.

Lemma existsb_Zeqb st l : existsb (Z.eqb st) l = true <-> In st l.
Proof.
  rewrite existsb_exists. split.
  - intros (x & Hin & Heq). apply Z.eqb_eq in Heq. subst. exact Hin.
  - intros Hin. exists st. split; [exact Hin|apply Z.eqb_refl].
Qed.

Lemma cf_hook_iff dl st cf : fst (run_hook HCloudflare dl st cf) = true <-> challenge st cf.
Proof.
  unfold run_hook, challenge.
  destruct (Z.eqb_spec st 403) as [->|Hn]; cbn [andb].
  - destruct (bytes_eqb_spec cf (bs "challenge")) as [->|Hc]; cbn [fst].
    + split; intros; [split; reflexivity | reflexivity].
    + split; [discriminate|]. intros [_ H]. contradiction.
  - cbn [fst]. split; [discriminate|]. intros [H _]. contradiction.
Qed.

Lemma status_hook_iff dl st cf : fst (run_hook HStatus dl st cf) = true <-> In st dl.
Proof.
  unfold run_hook. rewrite <- existsb_Zeqb.
  destruct dl as [|x dl]; cbn [List.length Nat.eqb negb andb fst existsb].
  - split; discriminate.
  - destruct (_ || _); cbn [fst]; split; congruence.
Qed.

(* discard_iff: for every status code (any integer), every value of the cf-mitigated header
   (any byte string, "" = absent) and every configured list, the default hook chain discards
   exactly the responses the policy names, and tells a challenge page from a listed status. *)
Theorem discard_iff_lemma dl st cf :
  (fst (chain default_hooks dl st cf) = true <-> policy_rejects dl st cf)
  /\ (snd (chain default_hooks dl st cf) = RChallenge <-> challenge st cf)
  /\ (snd (chain default_hooks dl st cf) = RInList <-> In st dl /\ ~ challenge st cf)
  /\ (fst (chain default_hooks dl st cf) = false <-> snd (chain default_hooks dl st cf) = RAllPassed).
Proof.
  pose proof (cf_hook_iff dl st cf) as Hc. pose proof (status_hook_iff dl st cf) as Hs.
  unfold policy_rejects, chain, default_hooks, chain_loop.
  destruct (run_hook HCloudflare dl st cf) as [d1 w1] eqn:E1.
  destruct (run_hook HStatus dl st cf) as [d2 w2] eqn:E2. cbn [fst] in Hc, Hs.
  assert (Hw1 : d1 = true -> w1 = RChallenge).
  { unfold run_hook in E1. destruct (_ && _); inversion E1; congruence. }
  assert (Hw2 : d2 = true -> w2 = RInList).
  { unfold run_hook in E2. destruct (_ && _); inversion E2; congruence. }
  destruct d1; [rewrite (Hw1 eq_refl)|]; [|destruct d2; [rewrite (Hw2 eq_refl)|]]; cbn [fst snd].
  - assert (challenge st cf) by tauto.
    intuition (try discriminate; try congruence).
  - assert (~ challenge st cf) by (intros X; apply Hc in X; discriminate).
    assert (In st dl) by tauto.
    intuition (try discriminate; try congruence).
  - assert (~ challenge st cf) by (intros X; apply Hc in X; discriminate).
    assert (~ In st dl) by (intros X; apply Hs in X; discriminate).
    intuition (try discriminate; try congruence).
Qed.

(* archive() retries exactly on 5xx / 408 / 425 / 429 and on discarded challenge pages; a
   response dropped because of a listed status is not retried for that reason *)
Theorem retry_iff_lemma dl st cf :
  needs_retry (Some default_hooks) dl st cf = true <->
  (500 <= st \/ st = 408 \/ st = 425 \/ st = 429) \/ challenge st cf.
Proof.
  unfold needs_retry, client_hook.
  destruct (discard_iff_lemma dl st cf) as (Hd & Hch & _ & _).
  destruct (chain default_hooks dl st cf) as [d why]. cbn [fst snd] in *.
  assert (Hb : bad_status st = true <-> (500 <= st \/ st = 408 \/ st = 425 \/ st = 429)).
  { unfold bad_status. rewrite orb_true_iff, existsb_Zeqb. cbn [In]. lia. }
  rewrite orb_true_iff, andb_true_iff, Hb.
  assert (Hr : is_challenge_reason why = true <-> why = RChallenge) by (destruct why; cbn; split; congruence).
  rewrite Hr, Hch. unfold policy_rejects in Hd. tauto.
Qed.

(* hook order does not change WHETHER a response is discarded (only the reason given) *)
Theorem chain_order_lemma dl st cf :
  fst (chain [HStatus; HCloudflare] dl st cf) = fst (chain default_hooks dl st cf).
Proof.
  unfold chain, default_hooks, chain_loop.
  destruct (run_hook HCloudflare dl st cf) as [[|] w1], (run_hook HStatus dl st cf) as [[|] w2]; reflexivity.
Qed.

(* no hook installed / empty chain: nothing is discarded *)
Theorem no_hook_lemma dl st cf :
  client_hook None dl st cf = (false, RHookNotSet) /\ chain [] dl st cf = (false, REmptyChain).
Proof. split; reflexivity. Qed.

Example discard_iff_nonvacuous :
  chain default_hooks [404; 403] 403 (bs "challenge") = (true, RChallenge)
  /\ chain default_hooks [404; 403] 403 (bs "Challenge") = (true, RInList)
  /\ chain default_hooks [404] 403 [] = (false, RAllPassed)
  /\ needs_retry (Some default_hooks) [404] 404 [] = false
  /\ discarded (Some default_hooks) [404] 404 [] = true
  /\ needs_retry (Some default_hooks) [] 403 (bs "challenge") = true.
Proof. vm_compute. repeat split; reflexivity. Qed.
