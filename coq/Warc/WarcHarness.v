(* C02 - what the generated case files evaluate: model-vs-implementation differences and the
   property's monitors on the implementation's own answers, for the legs body / discard / warcleg. *)
From Coq Require Import Lia.
From ZenoV Require Import Lib.Harness Warc.Body Warc.Discard Warc.Retry.
Open Scope N_scope.

(* =============================== leg "body" ============================================== *)
(* input: configuration, reader script, the MIME library's answers for the empty string and for
   the first min(2048, length) bytes of the body; observed: returned error, bytes taken from the
   reader, the spooled copy (u.GetBody), u.GetMIMEType, SetReadDeadline calls, Close calls *)
Record bcase := BC { b_cfg : pcfg; b_script : script; b_mime_empty : mime; b_mime_prefix : mime;
                     o_err : option perr; o_cons : N; o_spool : option data; o_mime : option mime;
                     o_calls : N; o_closed : N }.

Definition perr_eqb (a b : option perr) : bool :=
  match a, b with
  | None, None => true
  | Some PDeadline, Some PDeadline => true
  | Some (PRead x), Some (PRead y) => x =? y
  | _, _ => false
  end.

Definition mnode_eqb (a b : mnode) : bool :=
  Bool.eqb (mn_text_plain a) (mn_text_plain b) && Bool.eqb (mn_pdf a) (mn_pdf b) && Bool.eqb (mn_m3u8 a) (mn_m3u8 b) && bytes_eqb (mn_full a) (mn_full b).
Fixpoint mime_eqb (a b : mime) : bool :=
  match a, b with
  | [], [] => true
  | x :: a', y :: b' => mnode_eqb x y && mime_eqb a' b'
  | _, _ => false
  end.
Definition omime_eqb (a b : option mime) : bool :=
  match a, b with None, None => true | Some x, Some y => mime_eqb x y | _, _ => false end.
Definition ospool_eqb (a b : option data) : bool :=
  match a, b with None, None => true | Some x, Some y => same_bytes x y | _, _ => false end.

Definition b_oracle (c : bcase) : data -> mime :=
  fun buf => if dlen buf =? 0 then b_mime_empty c else b_mime_prefix c.

Definition bdiff_case (c : bcase) : bool :=
  let r := process_body (b_cfg c) (b_oracle c) (b_script c) in
  negb (perr_eqb (pb_err r) (o_err c) && (pb_cons r =? o_cons c) && ospool_eqb (pb_spool r) (o_spool c)
        && omime_eqb (pb_mime r) (o_mime c) && (pb_calls r =? o_calls c)
        && Bool.eqb (pb_closed r) (o_closed c =? 1)).

Definition is_none {A} (o : option A) : bool := match o with None => true | Some _ => false end.

(* monitor 0 (body_drained): no error => every byte of the body was taken from the reader *)
Definition bmon_drained (c : bcase) : bool :=
  if is_none (o_err c) then o_cons c =? slen (b_script c) else true.

(* monitor 1 (body_drained, copy): no error => the spooled copy is byte-identical to the body
   exactly when the MIME rule (on the type the implementation itself reports) selects it; in the
   drain-only configuration the copy, if any, is empty *)
Definition bmon_spool (c : bcase) : bool :=
  if is_none (o_err c) then
    if drain_only (b_cfg c) then
      match o_spool c with None => true | Some sp => dlen sp =? 0 end
    else match o_mime c with
         | None => false
         | Some m => if needs_spool m
                     then match o_spool c with Some sp => same_bytes sp (sdata (b_script c)) | None => false end
                     else is_none (o_spool c)
         end
  else true.

(* monitor 2 (bodies closed on every exit): the body was closed exactly once *)
Definition bmon_closed (c : bcase) : bool := o_closed c =? 1.

(* monitor 3 (body_error_no_spool): an error leaves no copy, and never reads past the body *)
Definition bmon_error (c : bcase) : bool :=
  (o_cons c <=? slen (b_script c)) && (if is_none (o_err c) then true else is_none (o_spool c)).

(* monitor 4 (body_quiet_ok): without read errors and deadline failures ProcessBody succeeds *)
Definition bmon_quiet (c : bcase) : bool :=
  let quietb := forallb (fun ch => is_none (snd ch)) (b_script c) in
  let cn_ok := match p_conn (b_cfg c) with Conn (Some _) => false | _ => true end in
  if quietb && cn_ok then is_none (o_err c) else true.

(* monitor 5 (body_drained, sniff window): no error => the MIME type set on the URL is what the
   library detects on exactly the first min(2048, length) bytes of the body (on the empty string
   in the drain-only configuration) *)
Definition bmon_mime (c : bcase) : bool :=
  if is_none (o_err c)
  then omime_eqb (o_mime c) (Some (if drain_only (b_cfg c) then b_mime_empty c else b_mime_prefix c))
  else true.

Definition bdiffs (l : list bcase) := bad_idx bdiff_case l.
Definition bmons (l : list bcase) := mon_idx [bmon_drained; bmon_spool; bmon_closed; bmon_error; bmon_quiet; bmon_mime] l.

(* =============================== leg "discard" =========================================== *)
(* one case: a hook chain, a discard list, and rows.  One row = one response environment: the
   header map (key as stored -> values), what the real Header.Get("cf-mitigated") answers on it,
   and the body (run-length encoded) behind a fresh reader for every call.  Observed per row: the
   (status, reason) pairs the real chain discards over the whole status sweep, in sweep order;
   and for a sample of statuses (403, 429, 503, 200, 404, plus every status at which the driver
   saw the reader touched) what the body reader STILL YIELDS after the chain returned (read to
   EOF through resp.Body as the hook left it; a closed reader yields nothing).  Per case:
   reasoncode.IsChallengePage on every reason. *)
Open Scope Z_scope.

Definition sweep_sts : list Z := map Z.of_nat (seq 100 500) ++ [0; 99; 600; 999; 403000; -1].
Definition all_reasons : list reason := [RNone; RChallenge; RInList; RAllPassed; REmptyChain; RHookNotSet].

Record drow := DR { dr_header : header; dr_cf : bytes; dr_body : data;
                    dr_obs : list (Z * reason); dr_left : list (Z * data) }.
Record dcase := DCs { d_hooks : list hook; d_dl : list Z; d_rows : list drow; d_ischal : list bool }.

Fixpoint obs_eqb (a b : list (Z * reason)) : bool :=
  match a, b with
  | [], [] => true
  | (s, r) :: a', (s', r') :: b' => (s =? s') && reason_eqb r r' && obs_eqb a' b'
  | _, _ => false
  end.
Fixpoint bools_eqb (a b : list bool) : bool :=
  match a, b with
  | [], [] => true
  | x :: a', y :: b' => Bool.eqb x y && bools_eqb a' b'
  | _, _ => false
  end.

Definition sweep (f : Z -> bool * reason) : list (Z * reason) :=
  flat_map (fun st => let '(d, why) := f st in if d then [(st, why)] else []) sweep_sts.

(* the model: the chain as a function of the whole response (Discard.gchain over hook_fn) *)
Definition model_chain (c : dcase) (rw : drow) (st : Z) : (bool * reason) * data :=
  gchain (map (hook_fn (d_dl c)) (d_hooks c)) (Resp st (dr_header rw) (dr_body rw)).

Definition verdict_eqb (a b : bool * reason) : bool := Bool.eqb (fst a) (fst b) && reason_eqb (snd a) (snd b).

(* the whole sweep is predicted by [chain] on the value [header_get] finds in the header map; at
   the sampled statuses the whole-response model [gchain] is evaluated: its verdict must be that
   very one (C02_hooks_pure) and its body output what the real reader still yields *)
Definition drow_diff (c : dcase) (rw : drow) : bool :=
  let cf := header_get cf_key (dr_header rw) in
  negb (bytes_eqb cf (dr_cf rw)
        && obs_eqb (sweep (fun st => chain (d_hooks c) (d_dl c) st cf)) (dr_obs rw)
        && forallb (fun '(st, rest) => let '(v, b) := model_chain c rw st in
                                       same_bytes rest b && verdict_eqb v (chain (d_hooks c) (d_dl c) st cf)) (dr_left rw)).

Definition ddiff_case (c : dcase) : bool :=
  existsb (drow_diff c) (d_rows c)
  || negb (bools_eqb (map is_challenge_reason all_reasons) (d_ischal c)).

(* the policy, as the property states it *)
Definition challengeb (st : Z) (cf : bytes) : bool := (st =? 403) && bytes_eqb cf (bs "challenge").
Definition policy_rejectsb (dl : list Z) (st : Z) (cf : bytes) : bool :=
  challengeb st cf || existsb (Z.eqb st) dl.

Definition has_hook (h : hook) (l : list hook) : bool :=
  existsb (fun x => match x, h with HCloudflare, HCloudflare | HStatus, HStatus => true | _, _ => false end) l.

(* monitor 0 (discard_iff): a chain holding both default hooks - in either order - discards
   exactly the responses the policy rejects, over the whole sweep, in every environment *)
Definition dmon_iff (c : dcase) : bool :=
  if has_hook HCloudflare (d_hooks c) && has_hook HStatus (d_hooks c) then
    forallb (fun rw => obs_eqb (map (fun p => (fst p, RNone)) (dr_obs rw))
                               (sweep (fun st => (policy_rejectsb (d_dl c) st (dr_cf rw), RNone)))) (d_rows c)
  else true.

(* monitor 1 (discard_iff, reasons): with the default order a challenge page is reported as
   such even when its status is listed, everything else as a listed status *)
Definition dmon_reason (c : dcase) : bool :=
  match d_hooks c with
  | [HCloudflare; HStatus] =>
      forallb (fun rw => forallb (fun '(st, why) => reason_eqb why (if challengeb st (dr_cf rw) then RChallenge else RInList)) (dr_obs rw))
              (d_rows c)
  | _ => true
  end.

(* monitor 2: only the Cloudflare reason counts as a challenge page *)
Definition dmon_ischal (c : dcase) : bool := bools_eqb (d_ischal c) [false; true; false; false; false; false].

(* monitor 3 (hooks_pure, body): whatever the verdict, after the chain returned the body reader
   still yields every byte of the body - the recorder digests and ProcessBody reads what the
   server sent, not a remainder *)
Definition dmon_body_untouched (c : dcase) : bool :=
  forallb (fun rw => forallb (fun '(_, rest) => same_bytes rest (dr_body rw)) (dr_left rw)) (d_rows c).

(* monitor 4 (hooks_pure, verdict): the verdicts depend on the status code and the cf-mitigated
   value only - two environments with the same cf-mitigated value (other headers, Server, body
   differ) get the same discarded set with the same reasons *)
Definition dmon_verdict_headers_only (c : dcase) : bool :=
  forallb (fun r1 => forallb (fun r2 => if bytes_eqb (dr_cf r1) (dr_cf r2) then obs_eqb (dr_obs r1) (dr_obs r2) else true)
                             (d_rows c)) (d_rows c).

Definition ddiffs (l : list dcase) := bad_idx ddiff_case l.
Definition dmons (l : list dcase) := mon_idx [dmon_iff; dmon_reason; dmon_ischal; dmon_body_untouched; dmon_verdict_headers_only] l.

(* =============================== leg "warcleg" =========================================== *)
(* one case = one process: the real archiver stage with a real WARC-writing client.  Per item:
   what the origin served on each request for its URL, the item's final status, and the records
   about that URL that the independent reader found in the WARC files (a) at the archiver's
   "arch.written" point - after the feedback wait, before SetStatus(ItemArchived) -, (b) when the
   seed left the archiver, (c) after archiver.Stop(). *)
(* HDrop: connection closed without a response.  HTrunc: fewer body bytes than announced, then
   closed.  HBadGz: a complete response that announces Content-Encoding: gzip on an empty entity -
   the recorder captures it, but the transport fails to set up its decoder and client.Do returns
   an error: for archive() it is an error, for the WARC a fetched response. *)
Inductive hkind := HResp | HDrop | HTrunc | HBadGz.
Record hit := Hit { h_kind : hkind; h_st : Z; h_cf : bytes; h_sha : bytes; h_len : Z }.
Inductive rtype := RTRequest | RTResponse | RTRevisit | RTOther.
(* r_ok: the record is alone in a complete gzip member, its block has the announced length and
   digest, a request record is the request for exactly that URL, a response block parses, its
   entity (after de-chunking) has the HTTP Content-Length and the WARC-Payload-Digest, a gzip
   entity decodes; r_sha / r_len: SHA-1 and length of the entity (revisit: the payload digest) *)
(* r_refs (revisit records, in the reading after Stop): the entity SHA-1s - computed by the reader
   from the stored blocks - of the response records stored under the revisit's
   WARC-Refers-To-Target-URI *)
Record rec := Rec { r_type : rtype; r_st : Z; r_sha : bytes; r_len : Z; r_ok : bool; r_refs : list bytes }.
Inductive fstatus := FArchived | FFailed | FOther.
Record witem := WI { i_hits : list hit; i_final : fstatus; i_at_written : option (list rec);
                     i_at_out : list rec; i_at_end : list rec }.
Record wcase := WC { w_max_retry : N; w_async : bool; w_dl : list Z; w_items : list witem;
                     w_clean : bool;          (* after Stop: no .open file, no incomplete member, no malformed or foreign record *)
                     w_revisits_ok : bool }.  (* every revisit refers to a stored response with that payload *)

Definition is_resp (h : hit) : bool := match h_kind h with HResp | HBadGz => true | _ => false end.
Definition resp_like (r : rec) : bool := match r_type r with RTResponse | RTRevisit => true | _ => false end.
Definition is_request (r : rec) : bool := match r_type r with RTRequest => true | _ => false end.

Definition rec_matches (h : hit) (r : rec) : bool :=
  r_ok r && (h_st h =? r_st r) && bytes_eqb (h_sha h) (r_sha r) &&
  match r_type r with RTResponse => h_len h =? r_len r | RTRevisit => true | _ => false end.

Definition same_exchange (a b : hit) : bool :=
  (h_st a =? h_st b) && bytes_eqb (h_sha a) (h_sha b) && (h_len a =? h_len b).

Definition countb {A} (f : A -> bool) (l : list A) : nat := List.length (filter f l).

(* --- model prediction ------------------------------------------------------------------- *)
Definition outcome_of (h : hit) : outcome :=
  match h_kind h with HDrop | HBadGz => OErr | _ => OResp (h_st h) (h_cf h) end.

Definition pb_ok_of (hits : list hit) : bool :=
  match rev hits with h :: _ => match h_kind h with HTrunc => false | _ => true end | [] => true end.

Definition cfg_of (c : wcase) : acfg := AC (w_max_retry c) (w_async c) (Some default_hooks) (w_dl c) false.

Definition model_written (c : wcase) (h : hit) : bool :=
  is_resp h && negb (discarded (Some default_hooks) (w_dl c) (h_st h) (h_cf h)).

Definition witem_diff (c : wcase) (it : witem) : bool :=
  let '(tr, x) := archive_item (cfg_of c) (pb_ok_of (i_hits it)) (map outcome_of (i_hits it)) in
  let nw := countb (model_written c) (i_hits it) in
  negb ((N.to_nat (count_req tr) =? List.length (i_hits it))%nat
        && match x, i_final it with
           | XReturn SArchived, FArchived | XReturn SFailed, FFailed => true
           | _, _ => false
           end
        && (countb resp_like (i_at_end it) =? nw)%nat
        && (countb is_request (i_at_end it) =? nw)%nat
        && match x, i_at_written it with
           | XReturn SArchived, Some _ => true
           | XReturn SArchived, None => false
           | _, Some _ => false
           | _, None => true
           end).

Definition wdiff_case (c : wcase) : bool := existsb (witem_diff c) (w_items c).

(* --- monitors: the property's own predicates on what was observed ------------------------ *)
Definition accepted (c : wcase) (h : hit) : bool :=
  is_resp h && negb (policy_rejectsb (w_dl c) (h_st h) (h_cf h)).
Definition rejected (c : wcase) (h : hit) : bool :=
  is_resp h && policy_rejectsb (w_dl c) (h_st h) (h_cf h).

(* every exchange of the item selected by [want] has its own request + response/revisit records *)
Definition stored_sel (want : hit -> bool) (hits : list hit) (recs : list rec) : bool :=
  forallb (fun h => if want h
                    then (countb (fun h' => want h' && same_exchange h h') hits <=? countb (rec_matches h) recs)%nat
                    else true) hits
  && (countb want hits <=? countb (fun r => is_request r && r_ok r) recs)%nat.
Definition stored_all (c : wcase) := stored_sel (accepted c).

(* the accepted responses archive() itself received (client.Do returned them) *)
Definition seen_accepted (c : wcase) (h : hit) : bool :=
  match h_kind h with HResp => accepted c h | _ => false end.

(* monitor 0: after Stop every accepted response is in the WARC, byte-exact, as a request record
   plus a response (or identical-payload revisit) record for exactly that URL, and nothing else
   is stored for that URL *)
Definition wmon_stored_at_end (c : wcase) : bool :=
  forallb (fun it => stored_all c (i_hits it) (i_at_end it)
                     && (countb resp_like (i_at_end it) =? countb (accepted c) (i_hits it))%nat
                     && (countb is_request (i_at_end it) =? countb (accepted c) (i_hits it))%nat) (w_items c).

(* monitor 1 (written_before_archived): sync mode - when the item is about to be marked archived
   the exchange it is archived for is already in the WARC files on disk *)
Definition wmon_written_at_archived (c : wcase) : bool :=
  if w_async c then true else
  forallb (fun it =>
    match i_final it with
    | FArchived =>
        match i_at_written it, rev (i_hits it) with
        | Some recs, h :: _ =>
            if accepted c h
            then (1 <=? countb (rec_matches h) recs)%nat && (1 <=? countb (fun r => is_request r && r_ok r) recs)%nat
            else true
        | _, _ => false
        end
    | _ => true
    end) (w_items c).

(* monitor 2 (discard_iff): an exchange the policy rejects is never in the WARC *)
Definition wmon_rejected_absent (c : wcase) : bool :=
  forallb (fun it =>
    forallb (fun h => if rejected c h
                      then forallb (fun r => negb (resp_like r && (h_st h =? r_st r) && bytes_eqb (h_sha h) (r_sha r)))
                                   (i_at_end it ++ i_at_out it ++ match i_at_written it with Some l => l | None => [] end)
                      else true) (i_hits it)) (w_items c).

(* monitor 3: every record seen at any of the three instants is a complete, independently
   decompressible, well-formed member; after Stop the files are finalised *)
Definition wmon_members (c : wcase) : bool :=
  w_clean c && w_revisits_ok c &&
  forallb (fun it => forallb r_ok (i_at_end it ++ i_at_out it ++ match i_at_written it with Some l => l | None => [] end))
          (w_items c).

(* monitor 4 (all_awaited): sync mode - when the seed leaves the archiver EVERY accepted response
   archive() received for its items is in the WARC files, also those of attempts that were
   retried or given up.  (An exchange the transport reports as an error after it was captured -
   HBadGz - is outside archive()'s reach; it must be stored by the end, monitor 0.) *)
Definition wmon_all_at_exit (c : wcase) : bool :=
  if w_async c then true else forallb (fun it => stored_sel (seen_accepted c) (i_hits it) (i_at_out it)) (w_items c).

(* monitor 5 (attempts_le) *)
Definition wmon_attempts (c : wcase) : bool :=
  forallb (fun it => (List.length (i_hits it) <=? N.to_nat (w_max_retry c) + 1)%nat) (w_items c).

(* monitor 6 (retry_iff + attempts_le): the sequence of attempts is the one the retry rule gives -
   every attempt but the last was an error or a response to retry on (5xx, 408, 425, 429, challenge
   page); a last attempt of that kind means the retries are exhausted and the item failed;
   otherwise the item is archived (failed when the body could not be read) *)
Definition retry_specb (h : hit) : bool :=
  match h_kind h with
  | HDrop | HBadGz => true
  | _ => (500 <=? h_st h) || existsb (Z.eqb (h_st h)) [408; 425; 429] || challengeb (h_st h) (h_cf h)
  end.
Definition wmon_retry_rule (c : wcase) : bool :=
  forallb (fun it =>
    match rev (i_hits it) with
    | [] => true
    | last :: before =>
        forallb retry_specb before &&
        (if retry_specb last
         then (List.length (i_hits it) =? N.to_nat (w_max_retry c) + 1)%nat
              && match i_final it with FFailed => true | _ => false end
         else match h_kind last, i_final it with
              | HTrunc, FFailed => true
              | HTrunc, _ => false
              | _, FArchived => true
              | _, _ => false
              end)
    end) (w_items c).

(* monitor 7 (revisit_identical, "response or identical-payload revisit"): a revisit record stands
   for a payload only if that very payload was served for its URL (its payload digest is the
   SHA-1 of an entity the origin sent for that URL) and a full response record with an entity of
   that SHA-1 is stored under the URI it refers to *)
Definition is_revisit (r : rec) : bool := match r_type r with RTRevisit => true | _ => false end.
Definition wmon_revisit_identical (c : wcase) : bool :=
  forallb (fun it =>
    forallb (fun r => if is_revisit r
                      then existsb (fun h => is_resp h && bytes_eqb (h_sha h) (r_sha r)) (i_hits it)
                           && existsb (bytes_eqb (r_sha r)) (r_refs r)
                      else true) (i_at_end it)) (w_items c).

Definition wdiffs (l : list wcase) := bad_idx wdiff_case l.
Definition wmons (l : list wcase) :=
  mon_idx [wmon_stored_at_end; wmon_written_at_archived; wmon_rejected_absent; wmon_members; wmon_all_at_exit; wmon_attempts; wmon_retry_rule;
           wmon_revisit_identical] l.
