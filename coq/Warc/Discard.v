(* C02 - model of the WARC discard policy: internal/pkg/archiver/discard/discard.go (Builder,
   hook chain), discarder/cloudflare, discarder/warcdiscardstatus, reasoncode, and the retry
   classification archive() derives from it (archiver.go).  Executable definitions only. *)
From Coq Require Export List ZArith Bool.
From ZenoV Require Export Lib.Hex.
Export ListNotations.
Open Scope Z_scope.

(* the reason strings of reasoncode / the discarders, and "" *)
Inductive reason := RNone | RChallenge | RInList | RAllPassed | REmptyChain | RHookNotSet.

Definition reason_eqb (a b : reason) : bool :=
  match a, b with
  | RNone, RNone | RChallenge, RChallenge | RInList, RInList | RAllPassed, RAllPassed
  | REmptyChain, REmptyChain | RHookNotSet, RHookNotSet => true
  | _, _ => false
  end.

Inductive hook := HCloudflare | HStatus.

(* What a hook reads of a response: the status code and resp.Header.Get("cf-mitigated")
   ("" when the header is absent).  [dl] = config.Get().WARCDiscardStatus. *)
Definition run_hook (h : hook) (dl : list Z) (st : Z) (cf : bytes) : bool * reason :=
  match h with
  | HCloudflare =>   (* resp.StatusCode == 403 && resp.Header.Get("cf-mitigated") == "challenge" *)
      if (st =? 403) && bytes_eqb cf (bs "challenge") then (true, RChallenge) else (false, RNone)
  | HStatus =>       (* len(list) > 0 && slices.Contains(list, resp.StatusCode) *)
      if negb (Nat.eqb (List.length dl) 0) && existsb (Z.eqb st) dl then (true, RInList) else (false, RNone)
  end.

(* Builder.Build(): the first hook that discards decides *)
Fixpoint chain_loop (hooks : list hook) (dl : list Z) (st : Z) (cf : bytes) : bool * reason :=
  match hooks with
  | [] => (false, RAllPassed)
  | h :: r => let '(d, why) := run_hook h dl st cf in
              if d then (true, why) else chain_loop r dl st cf
  end.

Definition chain (hooks : list hook) (dl : list Z) (st : Z) (cf : bytes) : bool * reason :=
  match hooks with
  | [] => (false, REmptyChain)
  | _ => chain_loop hooks dl st cf
  end.

(* Builder.AddDefaultHooks *)
Definition default_hooks : list hook := [HCloudflare; HStatus].

(* reasoncode.IsChallengePage *)
Definition is_challenge_reason (r : reason) : bool := reason_eqb r RChallenge.

(* ---- archive(): what it does with a response -------------------------------------------- *)
(* [hooks = None]: client.DiscardHook == nil *)
Definition client_hook (hooks : option (list hook)) (dl : list Z) (st : Z) (cf : bytes) : bool * reason :=
  match hooks with
  | None => (false, RHookNotSet)
  | Some hs => chain hs dl st cf
  end.

(* resp.StatusCode >= 500 || slices.Contains([]int{408, 425, 429}, resp.StatusCode) *)
Definition bad_status (st : Z) : bool := (500 <=? st) || existsb (Z.eqb st) [408; 425; 429].

Definition needs_retry (hooks : option (list hook)) (dl : list Z) (st : Z) (cf : bytes) : bool :=
  let '(d, why) := client_hook hooks dl st cf in
  bad_status st || (d && is_challenge_reason why).

(* the WARC recorder asks the same hook whether to drop the captured exchange *)
Definition discarded (hooks : option (list hook)) (dl : list Z) (st : Z) (cf : bytes) : bool :=
  fst (client_hook hooks dl st cf).

(* ---- hooks as functions of the WHOLE response (added after the sixth round) -------------- *)
(* A warc.DiscardHook receives the *http.Response itself: status, header map and the body
   READER.  The recorder (dialer.readResponse) calls the chain on the response it re-parsed from
   the captured bytes and afterwards digests resp.Body as the hook left it (GetSHA1 ->
   WARC-Payload-Digest, the key of local dedupe); archive() calls the same chain on the live
   response and afterwards hands resp.Body to ProcessBody.  So besides its verdict a hook has a
   second output: what the body reader still yields when it returns.  [B] is the type of that
   reader state (bytes in the theorems, run-length encoded data in the harness). *)
Definition header := list (bytes * list bytes).   (* http.Header: key as stored in the map -> values *)

(* Header.Get(k) for an already canonical k: first value stored under exactly that key, else "" *)
Fixpoint header_get (k : bytes) (h : header) : bytes :=
  match h with
  | [] => []
  | (k', vs) :: r => if bytes_eqb k k' then match vs with v :: _ => v | [] => [] end else header_get k r
  end.

(* textproto.CanonicalMIMEHeaderKey("cf-mitigated") *)
Definition cf_key : bytes := bs "Cf-Mitigated".

Record resp (B : Type) := Resp { rs_status : Z; rs_header : header; rs_body : B }.
Arguments Resp {B}. Arguments rs_status {B}. Arguments rs_header {B}. Arguments rs_body {B}.

Definition set_body {B} (r : resp B) (b : B) : resp B := Resp (rs_status r) (rs_header r) b.

(* verdict, reason, and the body reader as left behind *)
Definition ghook (B : Type) := resp B -> (bool * reason) * B.

(* the two discarders of the code: neither touches resp.Body; the Cloudflare one reads one header *)
Definition hook_fn {B} (dl : list Z) (h : hook) : ghook B :=
  fun r => (run_hook h dl (rs_status r) (header_get cf_key (rs_header r)), rs_body r).

(* Builder.Build() over arbitrary hooks: every hook is handed the SAME *http.Response, i.e. the
   body in the state the previous hooks left it in *)
Fixpoint gchain_loop {B} (hooks : list (ghook B)) (r : resp B) : (bool * reason) * B :=
  match hooks with
  | [] => ((false, RAllPassed), rs_body r)
  | h :: rest => let '((d, why), b') := h r in
                 if d then ((true, why), b') else gchain_loop rest (set_body r b')
  end.

Definition gchain {B} (hooks : list (ghook B)) : ghook B :=
  fun r => match hooks with
           | [] => ((false, REmptyChain), rs_body r)
           | _ => gchain_loop hooks r
           end.

(* dialer.readResponse: what GetSHA1(resp.Body) is computed over - nothing when the hook
   discards the exchange; [hook = None]: client.DiscardHook == nil *)
Definition recorder_payload {B} (hook : option (ghook B)) (r : resp B) : option B :=
  match hook with
  | None => Some (rs_body r)
  | Some h => let '((d, _), rest) := h r in if d then None else Some rest
  end.

(* a hook that is NOT allowed: it keeps the response but consumes the first [n] bytes of the body
   (e.g. to look for a marker in the page) without putting them back *)
Definition peeking_hook (n : nat) : ghook bytes :=
  fun r => ((false, RNone), skipn n (rs_body r)).
