(* C02 - model of the WARC discard policy: internal/pkg/archiver/discard/discard.go (Builder,
   hook chain), discarder/cloudflare, discarder/warcdiscardstatus, reasoncode, and the retry
   classification archive() derives from it (archiver.go).  Executable definitions only. *)
From Coq Require Export List ZArith Bool.
From ZenoV Require Export Lib.Hex.
Export ListNotations.
Open Scope Z_scope.

(* the reason strings of reasoncode / the discarders, and "" *)
Inductive reason := RNone | RChallenge | RInList | RAllPassed | REmptyChain | RHookNotSet.

Definition reason_eqb (a b : reason) : bool :=
  match a, b with
  | RNone, RNone | RChallenge, RChallenge | RInList, RInList | RAllPassed, RAllPassed
  | REmptyChain, REmptyChain | RHookNotSet, RHookNotSet => true
  | _, _ => false
  end.

Inductive hook := HCloudflare | HStatus.

(* What a hook reads of a response: the status code and resp.Header.Get("cf-mitigated")
   ("" when the header is absent).  [dl] = config.Get().WARCDiscardStatus. *)
Definition run_hook (h : hook) (dl : list Z) (st : Z) (cf : bytes) : bool * reason :=
  match h with
  | HCloudflare =>   (* resp.StatusCode == 403 && resp.Header.Get("cf-mitigated") == "challenge" *)
      if (st =? 403) && bytes_eqb cf (bs "challenge") then (true, RChallenge) else (false, RNone)
  | HStatus =>       (* len(list) > 0 && slices.Contains(list, resp.StatusCode) *)
      if negb (Nat.eqb (List.length dl) 0) && existsb (Z.eqb st) dl then (true, RInList) else (false, RNone)
  end.

(* Builder.Build(): the first hook that discards decides *)
Fixpoint chain_loop (hooks : list hook) (dl : list Z) (st : Z) (cf : bytes) : bool * reason :=
  match hooks with
  | [] => (false, RAllPassed)
  | h :: r => let '(d, why) := run_hook h dl st cf in
              if d then (true, why) else chain_loop r dl st cf
  end.

Definition chain (hooks : list hook) (dl : list Z) (st : Z) (cf : bytes) : bool * reason :=
  match hooks with
  | [] => (false, REmptyChain)
  | _ => chain_loop hooks dl st cf
  end.

(* Builder.AddDefaultHooks *)
Definition default_hooks : list hook := [HCloudflare; HStatus].

(* reasoncode.IsChallengePage *)
Definition is_challenge_reason (r : reason) : bool := reason_eqb r RChallenge.

(* ---- archive(): what it does with a response -------------------------------------------- *)
(* [hooks = None]: client.DiscardHook == nil *)
Definition client_hook (hooks : option (list hook)) (dl : list Z) (st : Z) (cf : bytes) : bool * reason :=
  match hooks with
  | None => (false, RHookNotSet)
  | Some hs => chain hs dl st cf
  end.

(* resp.StatusCode >= 500 || slices.Contains([]int{408, 425, 429}, resp.StatusCode) *)
Definition bad_status (st : Z) : bool := (500 <=? st) || existsb (Z.eqb st) [408; 425; 429].

Definition needs_retry (hooks : option (list hook)) (dl : list Z) (st : Z) (cf : bytes) : bool :=
  let '(d, why) := client_hook hooks dl st cf in
  bad_status st || (d && is_challenge_reason why).

(* the WARC recorder asks the same hook whether to drop the captured exchange *)
Definition discarded (hooks : option (list hook)) (dl : list Z) (st : Z) (cf : bytes) : bool :=
  fst (client_hook hooks dl st cf).
