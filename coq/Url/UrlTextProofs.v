(* C09 - the text-level shape predicate (the monitor's) holds of the rendering of every accepted
   result of the reference normaliser on the reference grammar. *)
From Coq Require Import List Ascii String NArith Bool Lia.
From ZenoV Require Import Lib.Hex Url.Escape Url.EscapeProofs Url.Query Url.QueryProofs Url.RefUrl
  Url.Resolve Url.ResolveProofs Url.UrlText.
Import ListNotations.
Open Scope char_scope.

(* ---------- url.ParseQuery's list is exactly the well-formed pieces, decoded, in place *)

Lemma split_on_no_delim d s : Forall (fun x => contains d x = false) (split_on d s).
Proof.
  induction s as [|c r IH]; [repeat constructor|]. cbn [split_on].
  destruct (Ascii.eqb c d) eqn:E; [constructor; [reflexivity|exact IH]|].
  pose proof (split_on_nonempty d r) as Hne. destruct (split_on d r) as [|x xs]; [congruence|].
  inversion IH as [|? ? Hx Hxs]; subst. constructor; [|exact Hxs].
  cbn [contains existsb]. rewrite Ascii.eqb_sym, E. exact Hx.
Qed.

Lemma parse_seg_cases s : contains "&" s = false ->
  parse_seg s = if wf_seg s then [decode_seg s] else [].
Proof.
  intro Hamp. unfold parse_seg, wf_seg, decode_seg. destruct s as [|c r]; [reflexivity|].
  rewrite Hamp. cbn [negb andb].
  destruct (contains ";" (c :: r)); [reflexivity|]. cbn [negb andb].
  destruct (cut "=" (c :: r)) as [k v]. cbn [fst snd].
  destruct (query_unescape k), (query_unescape v); reflexivity.
Qed.

Lemma parse_query_wf_pieces : forall q,
  parse_query q = map decode_seg (filter wf_seg (pieces q)).
Proof.
  intro q. unfold parse_query, pieces. pose proof (split_on_no_delim "&" q) as H.
  induction H as [|s l Hs Hl IH]; [reflexivity|]. cbn [flat_map filter].
  rewrite (parse_seg_cases s Hs), IH. destruct s as [|c r]; [reflexivity|].
  cbn [nonempty filter]. destruct (wf_seg (c :: r)); reflexivity.
Qed.

Example parse_query_wf_pieces_nonvacuous :
  map decode_seg (filter wf_seg (pieces (bs "a=1&&b=2&k=%zz&c=x;y&d"))) = [(bs "a", bs "1"); (bs "b", bs "2"); (bs "d", [])].
Proof. vm_compute. reflexivity. Qed.

(* ---------- generic list/text lemmas *)

Lemma span_until_app stop x y :
  forallb (fun c => negb (stop c)) x = true ->
  match y with [] => True | c :: _ => stop c = true end ->
  span_until stop (x ++ y) = (x, y).
Proof.
  intros Hx Hy. induction x as [|a x IH]; cbn [app].
  - destruct y as [|c y']; [reflexivity|]. cbn [span_until]. rewrite Hy. reflexivity.
  - cbn [forallb] in Hx. apply andb_true_iff in Hx as [Ha Hx]. apply negb_true_iff in Ha.
    cbn [span_until]. rewrite Ha, (IH Hx). reflexivity.
Qed.

Lemma forallb_imp {A} (P Q : A -> bool) l :
  (forall x, P x = true -> Q x = true) -> forallb P l = true -> forallb Q l = true.
Proof.
  intros H Hl. rewrite forallb_forall in *. intros x Hx. apply H, Hl, Hx.
Qed.

Lemma forallb_not_contains (P : ascii -> bool) d s :
  forallb P s = true -> P d = false -> contains d s = false.
Proof.
  intros Hs Hd. unfold contains. induction s as [|c r IH]; [reflexivity|].
  cbn [forallb existsb] in *. apply andb_true_iff in Hs as [Hc Hr].
  rewrite (IH Hr), orb_false_r. destruct (Ascii.eqb_spec d c) as [->|]; [congruence|reflexivity].
Qed.

Lemma forallb_join (P : ascii -> bool) d ls :
  P d = true -> forallb (forallb P) ls = true -> forallb P (join d ls) = true.
Proof.
  intros Hd. induction ls as [|x r IH]; [reflexivity|]. cbn [forallb]. intro H.
  apply andb_true_iff in H as [Hx Hr]. destruct r as [|y r'].
  - exact Hx.
  - change (join d (x :: y :: r')) with (x ++ d :: join d (y :: r')).
    rewrite forallb_app, Hx. cbn [forallb]. rewrite Hd. apply IH. exact Hr.
Qed.

Lemma last_not d dflt s : contains d s = false -> Ascii.eqb dflt d = false ->
  Ascii.eqb (last s dflt) d = false.
Proof.
  intros Hs Hd. induction s as [|c r IH]; [exact Hd|].
  unfold contains in *. cbn [existsb] in Hs. apply orb_false_iff in Hs as [Hc Hr].
  destruct r as [|c2 r'].
  - cbn [last]. rewrite Ascii.eqb_sym. exact Hc.
  - change (last (c :: c2 :: r') dflt) with (last (c2 :: r') dflt). apply IH. exact Hr.
Qed.

Lemma after_last_none d s : contains d s = false -> after_last d s = s.
Proof. intro H. unfold after_last. rewrite (split_on_none d s H). reflexivity. Qed.

Lemma after_last_app d y s : contains d y = false -> contains d s = false ->
  after_last d (y ++ d :: s) = s.
Proof.
  intros Hy Hs. unfold after_last. rewrite (split_on_app d y s Hy), (split_on_none d s Hs). reflexivity.
Qed.

Lemma before_last_app d y s : contains d y = false -> contains d s = false ->
  before_last d (y ++ d :: s) = y.
Proof.
  intros Hy Hs. unfold before_last. rewrite (split_on_app d y s Hy), (split_on_none d s Hs). reflexivity.
Qed.

(* ---------- alphabets of a canonical URL's components *)

Definition auth_byte c :=
  negb (auth_stop c) && negb (Ascii.eqb c "@") && negb (Ascii.eqb c ":") && negb (Ascii.eqb c "]").
Definition seg_byte c := negb (auth_stop c).
Definition nohash c := negb (Ascii.eqb c "#").

Definition user_ok (u : option (bytes * option bytes)) : bool :=
  match u with
  | None => true
  | Some (n, p) => forallb auth_byte n && match p with None => true | Some x => forallb auth_byte x end
  end.
Definition port_ok (p : option bytes) : bool :=
  match p with None => true | Some d => forallb auth_byte d end.
Definition auth_ok (a : auth) : bool :=
  user_ok (a_user a) && forallb (forallb auth_byte) (a_host a) && port_ok (a_port a).
Definition path_ok (p : list bytes) : bool := forallb (forallb seg_byte) p.
Definition query_ok (q : option bytes) : bool :=
  match q with None => true | Some x => forallb nohash x end.

Definition text_ok (u : url) : bool := auth_ok (u_auth u) && path_ok (u_path u) && query_ok (u_query u).

Lemma auth_byte_facts c : auth_byte c = true ->
  auth_stop c = false /\ Ascii.eqb c "@" = false /\ Ascii.eqb c ":" = false /\ Ascii.eqb c "]" = false.
Proof.
  unfold auth_byte. intro H. repeat (apply andb_true_iff in H; destruct H as [H ?]).
  repeat split; apply negb_true_iff; assumption.
Qed.

Lemma auth_stop_hash c : auth_stop c = false -> Ascii.eqb c "#" = false /\ Ascii.eqb c "/" = false /\ Ascii.eqb c "?" = false.
Proof.
  unfold auth_stop. intro H. apply orb_false_iff in H as [H H3]. apply orb_false_iff in H as [H1 H2]. tauto.
Qed.

(* ---------- rendering lemmas *)

Lemma split_render_path p : path_ok p = true -> split_on "/" (render_path p) = [] :: p.
Proof.
  induction p as [|s r IH]; [reflexivity|]. unfold path_ok in *. cbn [forallb]. intro H.
  apply andb_true_iff in H as [Hs Hr].
  change (render_path (s :: r)) with ("/" :: s ++ render_path r).
  cbn [split_on]. rewrite Ascii.eqb_refl. f_equal.
  rewrite split_on_prefix.
  - rewrite (IH Hr). cbn [hd tl]. rewrite app_nil_r. reflexivity.
  - apply (forallb_not_contains seg_byte); [exact Hs|reflexivity].
Qed.

Lemma forallb_render_path (P : ascii -> bool) p :
  P "/" = true -> forallb (forallb P) p = true -> forallb P (render_path p) = true.
Proof.
  intro Hd. induction p as [|s r IH]; [reflexivity|]. cbn [forallb]. intro H.
  apply andb_true_iff in H as [Hs Hr].
  change (render_path (s :: r)) with ("/" :: s ++ render_path r).
  cbn [forallb]. rewrite Hd, forallb_app, Hs, (IH Hr). reflexivity.
Qed.

Definition hp_byte c := auth_byte c || Ascii.eqb c "." || Ascii.eqb c ":".

Lemma host_text_ok h : forallb (forallb auth_byte) h = true ->
  forallb (fun c => auth_byte c || Ascii.eqb c ".") (join "." h) = true.
Proof.
  intro H. apply forallb_join; [reflexivity|].
  apply (forallb_imp (forallb auth_byte)); [|exact H].
  intros l Hl. apply (forallb_imp auth_byte); [|exact Hl]. intros c Hc. rewrite Hc. reflexivity.
Qed.

Lemma host_no d h : forallb (forallb auth_byte) h = true ->
  auth_byte d = false -> Ascii.eqb d "." = false -> contains d (join "." h) = false.
Proof.
  intros H Hd Hdot. apply (forallb_not_contains (fun c => auth_byte c || Ascii.eqb c ".")).
  - apply host_text_ok. exact H.
  - rewrite Hd, Hdot. reflexivity.
Qed.

(* host[:port] of a canonical authority gives back the host *)
Lemma host_of_hostport a : auth_ok a = true ->
  (let hp := render_hostport a in
   if Ascii.eqb (last hp "x") "]" then hp
   else if contains ":" hp then before_last ":" hp else hp) = join "." (a_host a).
Proof.
  unfold auth_ok. intro H. apply andb_true_iff in H as [H Hport]. apply andb_true_iff in H as [_ Hh].
  cbv zeta. unfold render_hostport.
  assert (Hc : contains ":" (join "." (a_host a)) = false) by (apply host_no; [exact Hh|reflexivity|reflexivity]).
  assert (Hb : contains "]" (join "." (a_host a)) = false) by (apply host_no; [exact Hh|reflexivity|reflexivity]).
  destruct (a_port a) as [d|]; cbn [render_port port_ok] in *.
  - assert (Hd1 : contains ":" d = false) by (apply (forallb_not_contains auth_byte); [exact Hport|reflexivity]).
    assert (Hd2 : contains "]" d = false) by (apply (forallb_not_contains auth_byte); [exact Hport|reflexivity]).
    rewrite last_not.
    + rewrite contains_app. cbn [contains existsb]. rewrite Ascii.eqb_refl, orb_true_r.
      apply before_last_app; assumption.
    + rewrite contains_app, Hb. cbn [contains existsb orb]. exact Hd2.
    + reflexivity.
  - rewrite app_nil_r. rewrite last_not; [|exact Hb|reflexivity]. rewrite Hc. reflexivity.
Qed.

Lemma hostport_no_at a : auth_ok a = true -> contains "@" (render_hostport a) = false.
Proof.
  unfold auth_ok. intro H. apply andb_true_iff in H as [H Hport]. apply andb_true_iff in H as [_ Hh].
  unfold render_hostport. rewrite contains_app, (host_no "@" _ Hh) by reflexivity.
  destruct (a_port a) as [d|]; [|reflexivity]. cbn [render_port port_ok] in *.
  cbn [contains existsb orb]. apply (forallb_not_contains auth_byte); [exact Hport|reflexivity].
Qed.

Lemma host_of_render_auth a : auth_ok a = true ->
  host_of_authority (render_auth a) = join "." (a_host a).
Proof.
  intro H. unfold host_of_authority.
  assert (Hal : after_last "@" (render_auth a) = render_hostport a).
  { pose proof (hostport_no_at a H) as Hat. unfold render_auth.
    unfold auth_ok in H. apply andb_true_iff in H as [H _]. apply andb_true_iff in H as [Hu _].
    destruct (a_user a) as [[n [pw|]]|]; cbn [render_user user_ok] in *.
    - apply andb_true_iff in Hu as [Hn Hp].
      replace ((n ++ ":" :: pw ++ ["@"]) ++ render_hostport a) with ((n ++ ":" :: pw) ++ "@" :: render_hostport a)
        by (rewrite <- !app_assoc; cbn [app]; rewrite <- app_assoc; reflexivity).
      apply after_last_app; [|exact Hat]. rewrite contains_app. cbn [contains existsb orb].
      rewrite (forallb_not_contains auth_byte "@" n Hn) by reflexivity.
      apply (forallb_not_contains auth_byte); [exact Hp|reflexivity].
    - rewrite andb_true_r in Hu.
      replace ((n ++ ["@"]) ++ render_hostport a) with (n ++ "@" :: render_hostport a)
        by (rewrite <- app_assoc; reflexivity).
      apply after_last_app; [|exact Hat]. apply (forallb_not_contains auth_byte); [exact Hu|reflexivity].
    - apply after_last_none. exact Hat. }
  rewrite Hal. apply (host_of_hostport a H).
Qed.

Definition nostop c := negb (auth_stop c).

Lemma render_auth_nostop a : auth_ok a = true -> forallb nostop (render_auth a) = true.
Proof.
  unfold auth_ok. intro H. apply andb_true_iff in H as [H Hport]. apply andb_true_iff in H as [Hu Hh].
  assert (Hab : forall c, auth_byte c = true -> nostop c = true).
  { intros c Hc. unfold nostop. destruct (auth_byte_facts c Hc) as [-> _]. reflexivity. }
  unfold render_auth, render_hostport. rewrite !forallb_app. apply andb_true_iff. split; [|apply andb_true_iff; split].
  - destruct (a_user a) as [[n [pw|]]|]; cbn [render_user user_ok] in *; [| |reflexivity].
    + apply andb_true_iff in Hu as [Hn Hp]. rewrite forallb_app, (forallb_imp _ _ _ Hab Hn). cbn [forallb].
      rewrite forallb_app, (forallb_imp _ _ _ Hab Hp). reflexivity.
    + rewrite andb_true_r in Hu. rewrite forallb_app, (forallb_imp _ _ _ Hab Hu). reflexivity.
  - apply forallb_join; [reflexivity|].
    apply (forallb_imp (forallb auth_byte)); [|exact Hh]. intros l Hl. apply (forallb_imp _ _ _ Hab Hl).
  - destruct (a_port a) as [d|]; [|reflexivity]. cbn [render_port port_ok forallb] in *.
    apply (forallb_imp _ _ _ Hab Hport).
Qed.

(* ---------- the text-level shape of a canonical URL *)

Lemma shape_text_of_shape_ok : forall c, shape_ok c = true -> text_ok c = true ->
  shape_text (render_url c) = true.
Proof.
  intros c Hs Ht. unfold shape_ok in Hs.
  repeat (apply andb_true_iff in Hs; destruct Hs as [Hs ?]).
  rename H into Hnd, H0 into Hne, H1 into Hf, H2 into Hhost, Hs into Hweb.
  unfold text_ok in Ht. apply andb_true_iff in Ht as [Ht Hq]. apply andb_true_iff in Ht as [Ha Hp].
  destruct c as [s a p q f]. cbn [u_scheme u_auth u_path u_query u_frag] in *.
  destruct f; [discriminate|]. clear Hf.
  destruct p as [|s0 p']; [discriminate|]. clear Hne.
  set (T := render_path (s0 :: p') ++ render_q q ++ render_f None).
  assert (Hrest : web_rest (render_url (Url s a (s0 :: p') q None)) = Some (render_auth a ++ T)).
  { unfold is_web in Hweb. apply orb_true_iff in Hweb as [Hweb|Hweb]; apply bytes_eqb_eq in Hweb; subst s; reflexivity. }
  assert (Hnohash : contains "#" (render_url (Url s a (s0 :: p') q None)) = false).
  { unfold render_url. cbn [u_scheme u_auth u_path u_query u_frag].
    rewrite !contains_app.
    assert (H1 : contains "#" s = false).
    { unfold is_web in Hweb. apply orb_true_iff in Hweb as [Hweb|Hweb]; apply bytes_eqb_eq in Hweb; subst s; reflexivity. }
    rewrite H1. cbn [orb].
    assert (H2 : contains "#" (render_auth a) = false).
    { apply (forallb_not_contains nostop); [apply render_auth_nostop; exact Ha|reflexivity]. }
    rewrite H2. change (contains "#" (bs "://")) with false. cbn [orb].
    assert (H3 : contains "#" (render_path (s0 :: p')) = false).
    { apply (forallb_not_contains nohash); [|reflexivity].
      apply forallb_render_path; [reflexivity|].
      apply (forallb_imp (forallb seg_byte)); [|exact Hp]. intros l Hl.
      apply (forallb_imp seg_byte); [|exact Hl]. intros x Hx. unfold nohash, seg_byte in *.
      apply negb_true_iff in Hx. destruct (auth_stop_hash x Hx) as [-> _]. reflexivity. }
    rewrite H3. cbn [orb render_f]. rewrite orb_false_r.
    destruct q as [x|]; [|reflexivity]. cbn [render_q query_ok contains existsb orb] in *.
    apply (forallb_not_contains nohash); [exact Hq|reflexivity]. }
  unfold shape_text. rewrite Hrest.
  assert (Hspan : span_until auth_stop (render_auth a ++ T) = (render_auth a, T)).
  { apply span_until_app; [apply render_auth_nostop; exact Ha|]. reflexivity. }
  rewrite Hspan.
  assert (Hspan2 : span_until (fun c => Ascii.eqb c "?") T = (render_path (s0 :: p'), render_q q ++ render_f None)).
  { unfold T. apply span_until_app.
    - apply forallb_render_path; [reflexivity|].
      apply (forallb_imp (forallb seg_byte)); [|exact Hp]. intros l Hl.
      apply (forallb_imp seg_byte); [|exact Hl]. intros x Hx. unfold seg_byte in Hx.
      apply negb_true_iff in Hx. destruct (auth_stop_hash x Hx) as (_ & _ & ->). reflexivity.
    - destruct q; [reflexivity|exact I]. }
  rewrite Hspan2. rewrite (host_of_render_auth a Ha).
  unfold host_ok in Hhost. apply andb_true_iff in Hhost as [Hh Hdot]. apply andb_true_iff in Hh as [Hl H127].
  rewrite Hl, H127, Hdot, Hnohash. cbn [negb andb].
  rewrite (split_render_path _ Hp). cbn [forallb]. rewrite dotseg_nil. cbn [negb andb].
  exact Hnd.
Qed.

(* ---------- the alphabets are preserved by the normaliser *)

Lemma unreserved_auth_byte : forall c, is_unreserved c = true -> auth_byte c = true.
Proof. intro c. all_bytes c; intro H; vm_compute in H; try discriminate H; reflexivity. Qed.
Lemma label_char_auth_byte : forall c, label_char c = true -> auth_byte c = true.
Proof. intro c. all_bytes c; intro H; vm_compute in H; try discriminate H; reflexivity. Qed.
Lemma digit_auth_byte : forall c, is_digit c = true -> auth_byte c = true.
Proof. intro c. all_bytes c; intro H; vm_compute in H; try discriminate H; reflexivity. Qed.
Lemma lower_auth_byte : forall c, auth_byte c = true -> auth_byte (lower_byte c) = true.
Proof. intro c. all_bytes c; intro H; vm_compute in H; try discriminate H; reflexivity. Qed.
Lemma seg_plain_seg_byte : forall c, seg_plain c = true -> seg_byte c = true.
Proof. intro c. all_bytes c; intro H; vm_compute in H; try discriminate H; reflexivity. Qed.
Lemma hex_seg_byte : forall c, is_hex c = true -> seg_byte c = true.
Proof. intro c. all_bytes c; intro H; vm_compute in H; try discriminate H; reflexivity. Qed.
Lemma ada_qbyte_nohash : forall c, forallb nohash (ada_qbyte c) = true.
Proof. intro c. all_bytes c; reflexivity. Qed.
Lemma out_set_nohash : forall c, in_query_set c = false -> nohash c = true.
Proof. intro c. all_bytes c; intro H; vm_compute in H; try discriminate H; reflexivity. Qed.

Lemma ada_enc_nohash s : forallb nohash (ada_query_enc s) = true.
Proof.
  induction s as [|c r IH]; [reflexivity|].
  change (ada_query_enc (c :: r)) with (ada_qbyte c ++ ada_query_enc r).
  rewrite forallb_app, ada_qbyte_nohash, IH. reflexivity.
Qed.

Lemma enc_free_nohash s : enc_free s = true -> forallb nohash s = true.
Proof.
  unfold enc_free. apply forallb_imp. intros c H. apply negb_true_iff in H. apply out_set_nohash, H.
Qed.

Lemma canon_query_ok q : query_ok (canon_query q) = true.
Proof.
  destruct q as [x|]; [|reflexivity]. destruct x as [|c r]; [reflexivity|].
  rewrite canon_query_cons by discriminate.
  destruct (reencode (c :: r)) eqn:E; [reflexivity|]. rewrite <- E. cbn [query_ok].
  apply enc_free_nohash, reencode_enc_free.
Qed.

Lemma strip0_forallb (P : ascii -> bool) d : forallb P d = true -> forallb P (strip0 d) = true.
Proof.
  induction d as [|c r IH]; [reflexivity|]. destruct r as [|c2 r'].
  - intro H. exact H.
  - intro H. cbn [strip0]. destruct (Ascii.eqb c "0"); [|exact H].
    apply IH. cbn [forallb] in H. apply andb_true_iff in H. tauto.
Qed.

Lemma norm_port_ok s p p' : port_ok p = true -> norm_port s p = Some p' -> port_ok p' = true.
Proof.
  destruct p as [d|]; [|intros _ [= <-]; reflexivity].
  destruct d as [|c r]; [intros _ [= <-]; reflexivity|].
  intro H. rewrite norm_port_cons by discriminate.
  assert (Hs : forallb auth_byte (strip0 (c :: r)) = true) by (apply strip0_forallb, H).
  remember (strip0 (c :: r)) as d0.
  destruct (65535 <? _)%N; [discriminate|]. destruct (bytes_eqb _ _); intro E; injection E as <-; [reflexivity|].
  exact Hs.
Qed.

Lemma norm_user_ok u : user_ok u = true -> user_ok (norm_user u) = true.
Proof.
  destruct u as [[n p]|]; [|reflexivity]. cbn [user_ok]. intro H. apply andb_true_iff in H as [Hn Hp].
  destruct n as [|c n]; destruct p as [[|d p]|]; cbn [norm_user user_ok]; try reflexivity;
    try (rewrite Hn; cbn [andb]; try exact Hp; reflexivity); try exact Hp.
Qed.

Lemma host_lower_ok h : forallb (forallb auth_byte) h = true -> forallb (forallb auth_byte) (map lower h) = true.
Proof.
  induction h as [|l r IH]; [reflexivity|]. cbn [forallb map]. intro H. apply andb_true_iff in H as [Hl Hr].
  rewrite (IH Hr), andb_true_r. unfold lower. rewrite forallb_forall in *. intros x Hx.
  apply in_map_iff in Hx as [y [<- Hy]]. apply lower_auth_byte, Hl, Hy.
Qed.

Lemma forallb_rev {A} (P : A -> bool) l : forallb P (rev l) = forallb P l.
Proof.
  induction l as [|x r IH]; [reflexivity|]. cbn [rev]. rewrite forallb_app, IH.
  change (forallb P [x]) with (P x && true). change (forallb P (x :: r)) with (P x && forallb P r).
  rewrite andb_true_r. apply andb_comm.
Qed.

Lemma path_ok_rev p : path_ok (rev p) = path_ok p.
Proof. apply forallb_rev. Qed.

Lemma path_ok_tl p : path_ok p = true -> path_ok (tl p) = true.
Proof. destruct p; [reflexivity|]. unfold path_ok. cbn. intro H. apply andb_true_iff in H. tauto. Qed.

Lemma rds_path_ok p : forall acc, path_ok acc = true -> path_ok p = true -> path_ok (rds acc p) = true.
Proof.
  induction p as [|s r IH]; intros acc Ha Hp.
  - cbn [rds]. rewrite path_ok_rev. exact Ha.
  - unfold path_ok in Hp. cbn [forallb] in Hp. apply andb_true_iff in Hp as [Hs Hr]. fold (path_ok r) in Hr.
    assert (Hnil : forall l, path_ok l = true -> path_ok ([] :: l) = true) by (intros l Hl; exact Hl).
    cbn [rds]. destruct (is_dotdot s).
    + destruct r; [rewrite path_ok_rev; apply Hnil, path_ok_tl, Ha|apply IH; [apply path_ok_tl, Ha|exact Hr]].
    + destruct (is_dot s).
      * destruct r; [rewrite path_ok_rev; apply Hnil, Ha|apply IH; assumption].
      * apply IH; [|exact Hr]. unfold path_ok. cbn [forallb]. rewrite Hs. exact Ha.
Qed.

Lemma remove_dots_path_ok p : path_ok p = true -> path_ok (remove_dots p) = true.
Proof. destruct p as [|s r]; [reflexivity|]. intro H. apply rds_path_ok; [reflexivity|exact H]. Qed.

Lemma whatwg_text_ok u w : auth_ok (u_auth u) = true -> path_ok (u_path u) = true ->
  whatwg u = Ok w -> text_ok w = true.
Proof.
  intros Ha Hp. unfold whatwg.
  destruct (norm_port (lower (u_scheme u)) (a_port (u_auth u))) as [p'|] eqn:Ep; [|discriminate].
  destruct (negb _); [discriminate|]. destruct (host_ok _); [|discriminate].
  intros [= <-]. unfold text_ok, auth_ok in *. cbn [u_auth u_path u_query a_user a_host a_port].
  apply andb_true_iff in Ha as [Ha Hport]. apply andb_true_iff in Ha as [Hu Hh].
  rewrite (norm_user_ok _ Hu), (host_lower_ok _ Hh), (norm_port_ok _ _ _ Hport Ep), (remove_dots_path_ok _ Hp).
  cbn [andb]. destruct (u_query u); [apply ada_enc_nohash|reflexivity].
Qed.

Lemma finish_text_ok w : text_ok w = true -> text_ok (finish w) = true.
Proof.
  unfold text_ok, finish, pass. cbn [u_auth u_path u_query]. intro H.
  apply andb_true_iff in H as [H Hq]. rewrite H. cbn [andb].
  unfold query_pass. destruct (exempt _); [exact Hq|apply canon_query_ok].
Qed.

(* ---------- the grammar's alphabets are inside *)

Lemma wf_seg_chars_ok_len : forall n s, (List.length s <= n)%nat -> wf_seg_chars s = true -> forallb seg_byte s = true.
Proof.
  induction n as [|n IH]; intros s Hn H.
  - destruct s; [reflexivity|cbn in Hn; lia].
  - destruct s as [|c r]; [reflexivity|]. cbn [wf_seg_chars] in H. cbn [List.length] in Hn.
    destruct (Ascii.eqb c "%") eqn:Ec.
    + apply Ascii.eqb_eq in Ec. subst c. destruct r as [|h [|l r']]; try discriminate.
      apply andb_true_iff in H as [H Hr]. apply andb_true_iff in H as [Hh Hl].
      cbn [forallb]. rewrite (hex_seg_byte h Hh), (hex_seg_byte l Hl). cbn [andb].
      apply IH; [cbn [List.length] in Hn; lia|exact Hr].
    + apply andb_true_iff in H as [Hc Hr]. cbn [forallb]. rewrite (seg_plain_seg_byte c Hc).
      apply IH; [lia|exact Hr].
Qed.

Lemma wf_path_ok p : wf_path p = true -> path_ok p = true.
Proof.
  unfold wf_path, path_ok. apply forallb_imp. intros s H. apply (wf_seg_chars_ok_len (List.length s)); [lia|exact H].
Qed.

Lemma wf_label_ok l : wf_label l = true -> forallb auth_byte l = true.
Proof.
  unfold wf_label. destruct l as [|c r]; [discriminate|]. intro H. apply andb_true_iff in H as [H _].
  revert H. apply forallb_imp. apply label_char_auth_byte.
Qed.

Lemma wf_domain_ok ls : wf_domain ls = true -> forallb (forallb auth_byte) ls = true.
Proof.
  induction ls as [|l r IH]; [discriminate|]. cbn [wf_domain].
  destruct r as [|l2 r2].
  - intro H. apply andb_true_iff in H as [H _]. cbn [forallb]. rewrite (wf_label_ok l H). reflexivity.
  - destruct l2 as [|c2 l2'].
    + destruct r2 as [|l3 r3].
      * intro H. apply andb_true_iff in H as [H _]. cbn [forallb]. rewrite (wf_label_ok l H). reflexivity.
      * intro H. apply andb_true_iff in H as [Hl Hr]. cbn [forallb]. rewrite (wf_label_ok l Hl). apply IH in Hr. exact Hr.
    + intro H. apply andb_true_iff in H as [Hl Hr]. cbn [forallb]. rewrite (wf_label_ok l Hl). apply IH in Hr. exact Hr.
Qed.

Lemma wf_octet_ok l : wf_octet l = true -> forallb auth_byte l = true.
Proof.
  unfold wf_octet. destruct l as [|c r]; [discriminate|]. destruct r as [|c2 r'].
  - intro H. cbn [forallb]. rewrite (digit_auth_byte c H). reflexivity.
  - intro H. repeat (apply andb_true_iff in H; destruct H as [H ?]).
    match goal with Hd : forallb is_digit _ = true |- _ => revert Hd end.
    apply forallb_imp. apply digit_auth_byte.
Qed.

Lemma wf_host_ok ls : wf_host ls = true -> forallb (forallb auth_byte) ls = true.
Proof.
  unfold wf_host, wf_ipv4. intro H. apply orb_true_iff in H as [H|H]; [apply wf_domain_ok, H|].
  apply andb_true_iff in H as [_ H]. revert H. apply forallb_imp. apply wf_octet_ok.
Qed.

Lemma wf_auth_ok a : wf_auth a = true -> auth_ok a = true.
Proof.
  unfold wf_auth, auth_ok. intro H. apply andb_true_iff in H as [H Hp]. apply andb_true_iff in H as [Hu Hh].
  rewrite (wf_host_ok _ Hh). rewrite andb_true_r. apply andb_true_iff. split.
  - destruct (a_user a) as [[n p]|]; [|reflexivity]. unfold wf_userinfo in Hu. cbn [fst snd user_ok] in *.
    apply andb_true_iff in Hu as [Hn Hpw]. rewrite (forallb_imp _ _ _ unreserved_auth_byte Hn).
    destruct p; [apply (forallb_imp _ _ _ unreserved_auth_byte Hpw)|reflexivity].
  - destruct (a_port a) as [d|]; [|reflexivity]. unfold wf_port in Hp. apply andb_true_iff in Hp as [Hd _].
    cbn [port_ok]. apply (forallb_imp _ _ _ digit_auth_byte Hd).
Qed.

Lemma path_ok_app a b : path_ok (a ++ b) = path_ok a && path_ok b.
Proof. apply forallb_app. Qed.

Lemma path_ok_removelast p : path_ok p = true -> path_ok (removelast p) = true.
Proof.
  induction p as [|s r IH]; [reflexivity|]. unfold path_ok in *. cbn [forallb]. intro H.
  apply andb_true_iff in H as [Hs Hr]. destruct r as [|s2 r2]; [reflexivity|].
  change (removelast (s :: s2 :: r2)) with (s :: removelast (s2 :: r2)). cbn [forallb].
  rewrite Hs. apply IH, Hr.
Qed.

Definition parent_ok (parent : option url) : Prop :=
  match parent with None => True | Some b => text_ok b = true end.

Lemma text_ok_parts b : text_ok b = true -> auth_ok (u_auth b) = true /\ path_ok (u_path b) = true.
Proof. unfold text_ok. intro H. apply andb_true_iff in H as [H _]. apply andb_true_iff in H. exact H. Qed.

Lemma schemeless_text_ok p q f w :
  match p with h :: _ => nonempty h = true /\ wf_host (split_on "." h) = true | [] => False end ->
  path_ok p = true -> schemeless p q f = Ok w -> text_ok w = true.
Proof.
  destruct p as [|h r]; [tauto|]. intros [Hne Hh] Hp. unfold schemeless.
  destruct h as [|c h']; [discriminate|]. cbn [drop_empty]. unfold flow_b.
  apply whatwg_text_ok.
  - unfold pass. cbn [u_auth]. unfold auth_ok. cbn [a_user a_host a_port user_ok port_ok].
    rewrite (wf_host_ok _ Hh). reflexivity.
  - unfold pass. cbn [u_path]. unfold path_ok in *. cbn [forallb] in Hp. apply andb_true_iff in Hp. tauto.
Qed.

Lemma norm_state_text_ok parent r w : parent_ok parent -> in_grammar parent r = true ->
  norm_state parent r = Ok w -> text_ok w = true.
Proof.
  intros Hpar Hg. unfold in_grammar in Hg.
  apply andb_true_iff in Hg as [Hg Hform]. apply andb_true_iff in Hg as [Hg _].
  apply andb_true_iff in Hg as [Hwf _].
  unfold norm_state, norm_state_gen, flow_a, flow_b, base_for. cbn [andb].
  destruct r as [u|a p q f|p q f|p q f|q f|f]; cbn [wf_ref] in Hwf.
  - (* absolute *)
    unfold wf_url in Hwf.
    apply andb_true_iff in Hwf as [Hwf _]. apply andb_true_iff in Hwf as [Hwf _].
    apply andb_true_iff in Hwf as [Hwf HP]. apply andb_true_iff in Hwf as [_ HA].
    assert (Hx : whatwg (pass (render_hostport (u_auth u)) u) = Ok w -> text_ok w = true).
    { apply whatwg_text_ok; unfold pass; cbn [u_auth u_path]; [apply wf_auth_ok|apply wf_path_ok]; assumption. }
    destruct parent; exact Hx.
  - (* scheme-relative *)
    apply andb_true_iff in Hwf as [Hwf _]. apply andb_true_iff in Hwf as [Hwf _].
    apply andb_true_iff in Hwf as [HA HP].
    destruct parent as [b|]; cbn [resolve]; apply whatwg_text_ok; unfold pass; cbn [u_auth u_path];
      try (apply wf_auth_ok; assumption); apply wf_path_ok; assumption.
  - (* path-absolute *)
    apply andb_true_iff in Hwf as [Hwf Hlead]. apply andb_true_iff in Hwf as [Hwf _].
    apply andb_true_iff in Hwf as [Hwf _]. apply andb_true_iff in Hwf as [_ HP].
    destruct parent as [b|].
    + destruct (text_ok_parts b Hpar) as [Ha Hp]. cbn [resolve]. apply whatwg_text_ok; cbn [u_auth u_path];
        [exact Ha|apply wf_path_ok; assumption].
    + destruct p as [|h r]; [intro Hx; discriminate Hx|].
      destruct h as [|c h'].
      * (* "/" alone is rejected; a leading empty segment is outside the grammar *)
        destruct r as [|s2 r2]; [intro Hx; discriminate Hx|discriminate Hlead].
      * apply schemeless_text_ok; [|apply wf_path_ok; assumption].
        split; [reflexivity|]. cbn [nonempty negb orb] in Hform. rewrite orb_false_r in Hform. exact Hform.
  - (* path-relative *)
    apply andb_true_iff in Hwf as [Hwf Hfirst]. apply andb_true_iff in Hwf as [Hwf _].
    apply andb_true_iff in Hwf as [Hwf _]. rename Hwf into HP.
    destruct parent as [b|].
    + destruct (text_ok_parts b Hpar) as [Ha Hp]. cbn [resolve]. apply whatwg_text_ok; cbn [u_auth u_path]; [exact Ha|].
      rewrite path_ok_app, (path_ok_removelast _ Hp). apply wf_path_ok. assumption.
    + destruct p as [|h r]; [discriminate Hfirst|].
      apply schemeless_text_ok; [|apply wf_path_ok; assumption].
      apply andb_true_iff in Hfirst as [Hh1 _]. split; assumption.
  - (* query-only *)
    destruct parent as [b|]; [|discriminate].
    destruct (text_ok_parts b Hpar) as [Ha Hp]. cbn [resolve]. apply whatwg_text_ok; cbn [u_auth u_path]; assumption.
  - (* fragment-only *)
    destruct parent as [b|]; [|destruct f; discriminate]. destruct f as [f|]; [|discriminate].
    destruct (text_ok_parts b Hpar) as [Ha Hp]. cbn [resolve]. apply whatwg_text_ok; cbn [u_auth u_path]; assumption.
Qed.

(* On the reference grammar, the rendering of every accepted result satisfies the text-level
   shape predicate that the monitor evaluates on the implementation's answers - and the result
   is again a parent the statement applies to. *)
Lemma norm_shape_text_lemma : forall parent r c, parent_ok parent -> in_grammar parent r = true ->
  normalize parent r = Ok c -> shape_text (render_url c) = true /\ parent_ok (Some c).
Proof.
  intros parent r c Hpar Hg H.
  assert (Ht : text_ok c = true).
  { unfold normalize in H. destruct (norm_state parent r) as [w| | |] eqn:E; try discriminate.
    cbn [omap] in H. injection H as <-. apply finish_text_ok. apply (norm_state_text_ok _ _ _ Hpar Hg E). }
  split; [|exact Ht]. apply shape_text_of_shape_ok; [|exact Ht]. apply (norm_shape_lemma _ _ _ H).
Qed.

Example norm_shape_text_nonvacuous :
  in_grammar (Some ex_parent) (RPathRel [bs ".."; bs "it's"; bs "%2e"] (Some (bs "q=<1>")) (Some (bs "f"))) = true
  /\ text_ok ex_parent = true
  /\ obs_text (normalize (Some ex_parent) (RPathRel [bs ".."; bs "it's"; bs "%2e"] (Some (bs "q=<1>")) (Some (bs "f"))))
     = Some (bs "https://u:p@ex.com:8443/d1/it's/?q=%3C1%3E")
  /\ shape_text (bs "https://u:p@ex.com:8443/d1/it's/?q=%3C1%3E") = true
  /\ shape_text (bs "https://u:p@ex.com:8443/d1/./x") = false
  /\ shape_text (bs "http://localhost:80/") = false /\ shape_text (bs "http://a.b/#f") = false.
Proof. vm_compute. repeat split; reflexivity. Qed.
