(* C09 - the reference grammar: URL and URL-reference ASTs, their rendering to text, and the
   well-formedness predicate that delimits the grammar the reference normaliser speaks about.
   Everything outside (IDN, IPv6, numeric hosts other than canonical dotted quads, backslashes,
   control characters, non-ASCII, characters that net/url re-escapes in a path, odd escapes in
   host/userinfo/fragment ...) is covered by the driver's monitor-only stream. *)
From Coq Require Import List Ascii String NArith Bool.
From ZenoV Require Import Lib.Hex Url.Escape Url.Query.
Import ListNotations.
Open Scope char_scope.

Record auth := Auth {
  a_user : option (bytes * option bytes);   (* user [: password] *)
  a_host : list bytes;                      (* labels; a final empty label is the root dot *)
  a_port : option bytes                     (* digits, possibly none ("host:") *)
}.

Record url := Url {
  u_scheme : bytes;
  u_auth : auth;
  u_path : list bytes;        (* each segment is rendered as "/" ++ segment; [] = no path *)
  u_query : option bytes;     (* raw query text after '?' *)
  u_frag : option bytes
}.

(* the reference forms of RFC 3986 section 4.2 / the WHATWG relative states *)
Inductive ref :=
| RAbs (u : url)                                                    (* scheme://authority... *)
| RSchemeRel (a : auth) (p : list bytes) (q f : option bytes)       (* //authority...        *)
| RPathAbs (p : list bytes) (q f : option bytes)                    (* /a/b...               *)
| RPathRel (p : list bytes) (q f : option bytes)                    (* a/../b...             *)
| RQuery (q : bytes) (f : option bytes)                             (* ?q                    *)
| RFrag (f : option bytes).                                         (* "" or #f              *)

(* ---------- rendering *)

Definition render_user (u : option (bytes * option bytes)) : bytes :=
  match u with
  | None => []
  | Some (n, None) => n ++ ["@"]
  | Some (n, Some p) => n ++ ":" :: p ++ ["@"]
  end.
Definition render_port (p : option bytes) : bytes :=
  match p with None => [] | Some d => ":" :: d end.
Definition render_hostport (a : auth) : bytes := join "." (a_host a) ++ render_port (a_port a).
Definition render_auth (a : auth) : bytes := render_user (a_user a) ++ render_hostport a.
Definition render_path (p : list bytes) : bytes := flat_map (fun s => "/" :: s) p.
Definition render_q (q : option bytes) : bytes := match q with None => [] | Some x => "?" :: x end.
Definition render_f (f : option bytes) : bytes := match f with None => [] | Some x => "#" :: x end.

Definition render_url (u : url) : bytes :=
  u_scheme u ++ bs "://" ++ render_auth (u_auth u) ++ render_path (u_path u)
  ++ render_q (u_query u) ++ render_f (u_frag u).

Definition render_ref (r : ref) : bytes :=
  match r with
  | RAbs u => render_url u
  | RSchemeRel a p q f => bs "//" ++ render_auth a ++ render_path p ++ render_q q ++ render_f f
  | RPathAbs p q f => render_path p ++ render_q q ++ render_f f
  | RPathRel p q f => join "/" p ++ render_q q ++ render_f f
  | RQuery q f => "?" :: q ++ render_f f
  | RFrag f => render_f f
  end.

(* ---------- the grammar *)

Definition is_hyphen c := Ascii.eqb c "-".
Definition label_char c := is_alnum c || is_hyphen c.

Definition starts_with (p s : bytes) : bool := bytes_eqb p (firstn (List.length p) s).

(* ACE labels the generator may use (valid punycode; ada validates ACE labels, every other
   "xn--" label is outside the grammar) *)
Definition ace_labels : list bytes := [bs "xn--bcher-kva"; bs "xn--mnchen-3ya"; bs "xn--p1ai"].

(* a host label: [A-Za-z0-9-]+ ; "xn--" labels only from the list above *)
Definition wf_label (l : bytes) : bool :=
  match l with
  | [] => false
  | _ => forallb label_char l
         && (negb (starts_with (bs "xn--") (lower l)) || existsb (bytes_eqb (lower l)) ace_labels)
  end.

(* decimal value of a digit string *)
Definition dec_val (p : bytes) : N := fold_left (fun acc c => (acc * 10 + (N_of_ascii c - 48))%N) p 0%N.
(* decimal 0..255 without leading zeros *)
Definition wf_octet (l : bytes) : bool :=
  match l with
  | [] => false
  | [c] => is_digit c
  | c :: _ => is_digit c && negb (Ascii.eqb c "0") && forallb is_digit l
              && (List.length l <=? 3)%nat && (dec_val l <=? 255)%N
  end.

Definition head_alpha (l : bytes) : bool := match l with c :: _ => is_alpha c | [] => false end.

(* a domain whose last non-empty label starts with a letter (so the WHATWG IPv4 parser is not
   entered), optionally followed by the root dot; or a canonical dotted quad *)
Fixpoint wf_domain (ls : list bytes) : bool :=
  match ls with
  | [] => false
  | [l] => wf_label l && head_alpha l
  | [l; []] => wf_label l && head_alpha l
  | l :: r => wf_label l && wf_domain r
  end.
Definition wf_ipv4 (ls : list bytes) : bool := (List.length ls =? 4)%nat && forallb wf_octet ls.
Definition wf_host (ls : list bytes) : bool := wf_domain ls || wf_ipv4 ls.

Definition wf_port (p : bytes) : bool :=
  forallb is_digit p && (List.length p <=? 8)%nat.   (* values above 65535 are rejected *)

Definition wf_userinfo (u : bytes * option bytes) : bool :=
  forallb is_unreserved (fst u)
  && match snd u with None => true | Some p => forallb is_unreserved p end.

Definition wf_auth (a : auth) : bool :=
  match a_user a with None => true | Some u => wf_userinfo u end
  && wf_host (a_host a)
  && match a_port a with None => true | Some p => wf_port p end.

(* path segment: unreserved, sub-delims, ':' '@', and complete %XX escapes - the characters
   that net/url keeps verbatim (validEncoded) and that are outside ada's path encode set *)
Definition seg_plain c :=
  is_unreserved c || existsb (Ascii.eqb c) (bs "!$&'()*+,;=:@").
Fixpoint wf_seg_chars (s : bytes) : bool :=
  match s with
  | [] => true
  | c :: r =>
    if Ascii.eqb c "%" then
      match r with
      | h :: l :: r' => is_hex h && is_hex l && wf_seg_chars r'
      | _ => false
      end
    else seg_plain c && wf_seg_chars r
  end.
Definition wf_path (p : list bytes) : bool := forallb wf_seg_chars p.

(* raw query: any printable ASCII and space except '#'; escapes are not validated (neither
   net/url nor ada validates them in a query) *)
Definition printable c := (32 <=? N_of_ascii c)%N && (N_of_ascii c <=? 126)%N.
Definition query_char c := printable c && negb (Ascii.eqb c "#").
(* a query may not end with a space: when net/url drops an empty fragment behind it the space
   becomes the end of the text, which ada trims *)
Definition wf_query (q : option bytes) : bool :=
  match q with None => true | Some x => forallb query_char x && negb (Ascii.eqb (last x "x") " ") end.

(* fragment: printable ASCII - further '#' included: the fragment starts at the FIRST '#' -
   with complete escapes (net/url rejects a URL whose fragment has a bad escape) *)
Definition frag_plain c := printable c && negb (Ascii.eqb c "%").
Fixpoint wf_frag_chars (s : bytes) : bool :=
  match s with
  | [] => true
  | c :: r =>
    if Ascii.eqb c "%" then
      match r with
      | h :: l :: r' => is_hex h && is_hex l && wf_frag_chars r'
      | _ => false
      end
    else frag_plain c && wf_frag_chars r
  end.
Definition wf_frag (f : option bytes) : bool :=
  match f with None => true | Some x => wf_frag_chars x end.

(* letter (letter | digit)*, and not "file" (whose host rules differ) *)
Definition wf_scheme (s : bytes) : bool :=
  match s with c :: _ => is_alpha c && forallb is_alnum s | [] => false end
  && negb (bytes_eqb (lower s) (bs "file")).

Definition wf_url (u : url) : bool :=
  wf_scheme (u_scheme u) && wf_auth (u_auth u) && wf_path (u_path u)
  && wf_query (u_query u) && wf_frag (u_frag u).

Definition nonempty {A} (l : list A) : bool := match l with [] => false | _ => true end.

Definition wf_ref (r : ref) : bool :=
  match r with
  | RAbs u => wf_url u
  | RSchemeRel a p q f => wf_auth a && wf_path p && wf_query q && wf_frag f
  | RPathAbs p q f => nonempty p && wf_path p && wf_query q && wf_frag f
                      (* "//..." is the scheme-relative form *)
                      && negb (match p with [] :: _ :: _ => true | _ => false end)
  | RPathRel p q f => wf_path p && wf_query q && wf_frag f
                      (* a ':' in the first segment would be read as a scheme *)
                      && match p with s :: _ => nonempty s && negb (contains ":" s) | [] => false end
  | RQuery q f => wf_query (Some q) && wf_frag f
  | RFrag f => wf_frag f
  end.

(* NormalizeURL first trims quote characters from both ends, and ada trims spaces: the
   reference speaks about texts whose own first and last bytes are neither *)
Definition edge_byte_ok c := negb (is_quote c) && negb (Ascii.eqb c " ").
Definition edge_ok (t : bytes) : bool :=
  match t with
  | [] => true
  | c :: _ => edge_byte_ok c && edge_byte_ok (last t c)
  end.
