(* C09 - proofs about the query re-encoding: the code as found depends on the map iteration
   order (refuted), the repaired code keeps order and multiplicity of all parameters, and the
   WHATWG query encoding that ada applies in between is invisible to it. *)
From Coq Require Import List Ascii String NArith Bool Lia Permutation.
From ZenoV Require Import Lib.Hex Url.Escape Url.EscapeProofs Url.Query.
Import ListNotations.
Open Scope char_scope.

(* ---------- split / cut / join *)

Lemma split_on_nonempty d s : split_on d s <> [].
Proof. destruct s as [|c r]; cbn; [discriminate|]. destruct (Ascii.eqb c d); [discriminate|].
  destruct (split_on d r); discriminate. Qed.

Lemma split_on_none d s : contains d s = false -> split_on d s = [s].
Proof.
  induction s as [|c r IH]; [reflexivity|]. cbn. intro H. apply orb_false_iff in H as [Hc Hr].
  rewrite Ascii.eqb_sym, Hc, (IH Hr). reflexivity.
Qed.

Lemma split_on_app d x y : contains d x = false -> split_on d (x ++ d :: y) = x :: split_on d y.
Proof.
  induction x as [|c r IH]; cbn.
  - intros _. rewrite Ascii.eqb_refl. reflexivity.
  - intro H. apply orb_false_iff in H as [Hc Hr]. rewrite Ascii.eqb_sym, Hc, (IH Hr). reflexivity.
Qed.

(* a prefix without the delimiter joins the first piece *)
Lemma split_on_prefix d x y : contains d x = false ->
  split_on d (x ++ y) = (x ++ hd [] (split_on d y)) :: tl (split_on d y).
Proof.
  induction x as [|c r IH]; cbn [app].
  - intros _. pose proof (split_on_nonempty d y). destruct (split_on d y); [congruence|reflexivity].
  - cbn [contains existsb]. intro H. apply orb_false_iff in H as [Hc Hr].
    cbn [split_on]. rewrite Ascii.eqb_sym, Hc. rewrite (IH Hr). reflexivity.
Qed.

Lemma split_on_join d segs : segs <> [] -> Forall (fun s => contains d s = false) segs ->
  split_on d (join d segs) = segs.
Proof.
  induction segs as [|x r IH]; [congruence|]. intros _ H. inversion H as [|? ? Hx Hr]; subst.
  destruct r as [|y r'].
  - cbn. apply split_on_none; assumption.
  - change (join d (x :: y :: r')) with (x ++ d :: join d (y :: r')).
    rewrite split_on_app by assumption. f_equal. apply IH; [discriminate|assumption].
Qed.

Lemma cut_app d a b : contains d a = false -> cut d (a ++ d :: b) = (a, b).
Proof.
  induction a as [|c r IH]; cbn.
  - intros _. rewrite Ascii.eqb_refl. reflexivity.
  - intro H. apply orb_false_iff in H as [Hc Hr]. rewrite Ascii.eqb_sym, Hc, (IH Hr). reflexivity.
Qed.

Lemma cut_prefix d x y : contains d x = false ->
  cut d (x ++ y) = (x ++ fst (cut d y), snd (cut d y)).
Proof.
  induction x as [|c r IH]; cbn [app].
  - intros _. destruct (cut d y); reflexivity.
  - cbn [contains existsb]. intro H. apply orb_false_iff in H as [Hc Hr].
    cbn [cut]. rewrite Ascii.eqb_sym, Hc, (IH Hr). reflexivity.
Qed.

Lemma contains_app d a b : contains d (a ++ b) = contains d a || contains d b.
Proof. unfold contains. apply existsb_app. Qed.

(* ---------- one pair *)

Lemma parse_seg_enc_pair p : parse_seg (enc_pair p) = [p].
Proof.
  destruct p as [k v]. unfold enc_pair, parse_seg. cbn [fst snd].
  destruct (query_escape k ++ "=" :: query_escape v) eqn:E.
  - destruct (query_escape k); discriminate.
  - rewrite <- E. clear E.
    assert (Hs : contains ";" (query_escape k ++ "=" :: query_escape v) = false).
    { rewrite contains_app. cbn [contains existsb]. unfold contains.
      rewrite !escape_no_semi. reflexivity. }
    rewrite Hs. rewrite cut_app by apply escape_no_eq.
    rewrite !escape_roundtrip_lemma. reflexivity.
Qed.

Lemma enc_pair_no_amp p : contains "&" (enc_pair p) = false.
Proof.
  destruct p as [k v]. unfold enc_pair. cbn [fst snd]. rewrite contains_app.
  cbn [contains existsb]. unfold contains. rewrite !escape_no_amp. reflexivity.
Qed.

(* ---------- the repaired re-encoding keeps every pair, in order, with multiplicity *)

Lemma parse_encode_lemma : forall ps, parse_query (encode_query ps) = ps.
Proof.
  intro ps. unfold parse_query, encode_query. destruct ps as [|p ps]; [reflexivity|].
  rewrite split_on_join.
  - induction (p :: ps) as [|q r IH]; [reflexivity|]. cbn [map flat_map].
    rewrite parse_seg_enc_pair, IH. reflexivity.
  - discriminate.
  - apply Forall_forall. intros s Hs. apply in_map_iff in Hs as [q [<- _]]. apply enc_pair_no_amp.
Qed.

(* canonicalising a raw query does not change its parameter list *)
Lemma query_order_kept_lemma : forall q, parse_query (reencode q) = parse_query q.
Proof. intro q. apply parse_encode_lemma. Qed.

Lemma reencode_idem_lemma : forall q, reencode (reencode q) = reencode q.
Proof. intro q. unfold reencode at 1. rewrite query_order_kept_lemma. reflexivity. Qed.

(* every well-formed parameter of a raw query is a parameter: nothing is dropped or merged *)
Lemma parse_wf_seg seg : wf_seg seg = true -> parse_seg seg = [decode_seg seg].
Proof.
  unfold wf_seg, parse_seg, decode_seg. intro H.
  repeat (apply andb_true_iff in H; destruct H as [H ?]).
  destruct seg as [|c r]; [discriminate|].
  destruct (contains ";" (c :: r)); [discriminate|].
  destruct (cut "=" (c :: r)) as [k v]. cbn [fst snd] in *.
  destruct (query_unescape k), (query_unescape v); try discriminate; reflexivity.
Qed.

Lemma wf_segs_all_kept_lemma : forall segs, forallb wf_seg segs = true ->
  parse_query (join "&" segs) = map decode_seg segs.
Proof.
  intros segs H. unfold parse_query. destruct segs as [|s0 r0]; [reflexivity|].
  rewrite split_on_join.
  - revert H. induction (s0 :: r0) as [|s r IH]; [reflexivity|]. cbn [forallb map flat_map].
    intro H. apply andb_true_iff in H as [Hs Hr]. rewrite (parse_wf_seg _ Hs), (IH Hr). reflexivity.
  - discriminate.
  - apply Forall_forall. intros s Hs. rewrite forallb_forall in H. specialize (H s Hs).
    unfold wf_seg in H. repeat (apply andb_true_iff in H; destruct H as [H ?]).
    destruct (contains "&" s); [discriminate|reflexivity].
Qed.

Example query_order_nonvacuous :
  parse_query (bs "z=1&a=2&m=3&z=4&&v&e=&%41=%3d+x&bad=%zz&s;t=1")
    = [(bs "z", bs "1"); (bs "a", bs "2"); (bs "m", bs "3"); (bs "z", bs "4"); (bs "v", []);
       (bs "e", []); (bs "A", bs "= x")]
  /\ reencode (bs "z=1&a=2&m=3&z=4&&v&e=&%41=%3d+x&bad=%zz&s;t=1")
    = bs "z=1&a=2&m=3&z=4&v=&e=&A=%3D+x"
  /\ forallb wf_seg [bs "z=1"; bs "a=2"; bs "z=4"; bs "v"] = true.
Proof. vm_compute. repeat split; reflexivity. Qed.

(* ---------- the WHATWG query encoding in between changes nothing *)

Lemma split_on_ada_enc d s : plain_delim d ->
  split_on d (ada_query_enc s) = map ada_query_enc (split_on d s).
Proof.
  intro Hd. induction s as [|c r IH]; [reflexivity|].
  change (ada_query_enc (c :: r)) with (ada_qbyte c ++ ada_query_enc r).
  cbn [split_on]. destruct (Ascii.eqb c d) eqn:E.
  - apply Ascii.eqb_eq in E. subst c. rewrite (ada_qbyte_delim d Hd). cbn [app split_on map].
    rewrite Ascii.eqb_refl, IH. reflexivity.
  - rewrite split_on_prefix.
    2:{ unfold contains. rewrite (Hd c), Ascii.eqb_sym. exact E. }
    rewrite IH. pose proof (split_on_nonempty d r) as Hne.
    destruct (split_on d r) as [|x xs]; [congruence|]. cbn [map hd tl].
    change (ada_query_enc (c :: x)) with (ada_qbyte c ++ ada_query_enc x). reflexivity.
Qed.

Lemma cut_ada_enc d s : plain_delim d ->
  cut d (ada_query_enc s) = (ada_query_enc (fst (cut d s)), ada_query_enc (snd (cut d s))).
Proof.
  intro Hd. induction s as [|c r IH]; [reflexivity|].
  change (ada_query_enc (c :: r)) with (ada_qbyte c ++ ada_query_enc r).
  cbn [cut]. destruct (Ascii.eqb c d) eqn:E.
  - apply Ascii.eqb_eq in E. subst c. rewrite (ada_qbyte_delim d Hd). cbn [app cut fst snd].
    rewrite Ascii.eqb_refl. reflexivity.
  - rewrite cut_prefix.
    2:{ unfold contains. rewrite (Hd c), Ascii.eqb_sym. exact E. }
    rewrite IH. destruct (cut d r) as [a b]. cbn [fst snd].
    change (ada_query_enc (c :: a)) with (ada_qbyte c ++ ada_query_enc a). reflexivity.
Qed.

Lemma parse_seg_ada_enc seg : parse_seg (ada_query_enc seg) = parse_seg seg.
Proof.
  unfold parse_seg.
  destruct seg as [|c r] eqn:Es; [reflexivity|]. rewrite <- Es.
  destruct (ada_query_enc seg) eqn:Ee.
  { apply ada_enc_nil in Ee. congruence. }
  rewrite <- Ee. unfold contains. rewrite (ada_enc_contains ";" seg plain_semi).
  destruct (existsb (Ascii.eqb ";") seg); [reflexivity|].
  rewrite (cut_ada_enc "=" seg plain_eq). destruct (cut "=" seg) as [k v]. cbn [fst snd].
  rewrite !ada_enc_unescape. reflexivity.
Qed.

(* ada's percent-encoding of a query is invisible to url.ParseQuery - for ALL byte strings *)
Lemma parse_query_ada_enc : forall q, parse_query (ada_query_enc q) = parse_query q.
Proof.
  intro q. unfold parse_query. rewrite (split_on_ada_enc "&" q plain_amp).
  induction (split_on "&" q) as [|s r IH]; [reflexivity|]. cbn [map flat_map].
  rewrite parse_seg_ada_enc, IH. reflexivity.
Qed.

Lemma reencode_ada_enc : forall q, reencode (ada_query_enc q) = reencode q.
Proof. intro q. unfold reencode. rewrite parse_query_ada_enc. reflexivity. Qed.

(* and a re-encoded query is left alone by ada *)
Lemma enc_free_join_amp l : forallb enc_free l = true -> enc_free (join "&" l) = true.
Proof.
  induction l as [|x r IH]; [reflexivity|]. cbn [forallb]. intro H.
  apply andb_true_iff in H as [Hx Hr]. destruct r as [|y r'].
  - exact Hx.
  - change (join "&" (x :: y :: r')) with (x ++ "&" :: join "&" (y :: r')).
    rewrite enc_free_app, Hx. change (enc_free ("&" :: join "&" (y :: r'))) with (enc_free (join "&" (y :: r'))).
    apply IH. exact Hr.
Qed.

Lemma reencode_enc_free q : enc_free (reencode q) = true.
Proof.
  unfold reencode, encode_query. apply enc_free_join_amp. apply forallb_forall.
  intros s Hs. apply in_map_iff in Hs as [[k v] [<- _]]. unfold enc_pair. cbn [fst snd].
  rewrite enc_free_app, escape_enc_free.
  change (enc_free ("=" :: query_escape v)) with (enc_free (query_escape v)).
  apply escape_enc_free.
Qed.

Lemma ada_enc_reencode : forall q, ada_query_enc (reencode q) = reencode q.
Proof. intro q. apply ada_enc_free. apply reencode_enc_free. Qed.

(* ---------- the code as found *)

(* any order the Go runtime may choose: a permutation of the distinct keys *)
Definition valid_order (order : list bytes) (ps : list pair) : Prop :=
  Permutation order (distinct_keys ps).

(* determinism refuted: the same query, two admissible iteration orders, two canonical strings *)
Lemma encode_query_refuted : exists q o1 o2,
  valid_order o1 (parse_query q) /\ valid_order o2 (parse_query q) /\
  reencode_orig o1 q <> reencode_orig o2 q.
Proof.
  exists (bs "z=1&a=2&m=3&z=4"), [bs "z"; bs "a"; bs "m"], [bs "a"; bs "z"; bs "m"].
  split; [|split].
  - vm_compute. apply Permutation_refl.
  - vm_compute. apply perm_swap.
  - vm_compute. discriminate.
Qed.

(* order refuted: whatever order the runtime picks, a repeated key that is not adjacent in the
   source is moved (the map groups the values of a key) *)
Lemma query_order_orig_refuted : exists q, forall o,
  valid_order o (parse_query q) -> parse_query (reencode_orig o q) <> parse_query q.
Proof.
  exists (bs "z=1&a=2&z=4"). intros o Ho.
  assert (Hc : o = [bs "z"; bs "a"] \/ o = [bs "a"; bs "z"]).
  { unfold valid_order in Ho. vm_compute in Ho. apply Permutation_sym in Ho.
    apply Permutation_length_2_inv in Ho. destruct Ho as [->| ->]; [left|right]; reflexivity. }
  destruct Hc as [-> | ->]; vm_compute; discriminate.
Qed.

(* with the source order of first occurrences the old code agrees with the new one whenever no
   key is repeated non-adjacently; in particular on queries with pairwise distinct keys *)
Example encode_orig_agrees_on_distinct :
  reencode_orig (distinct_keys (parse_query (bs "b=1&a=2&c"))) (bs "b=1&a=2&c") = reencode (bs "b=1&a=2&c").
Proof. vm_compute. reflexivity. Qed.
