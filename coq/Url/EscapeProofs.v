(* C09 - proofs about the QueryEscape / QueryUnescape models, the WHATWG query encoding and
   the quote trimming. *)
From Coq Require Import List Ascii String NArith Bool Lia.
From ZenoV Require Import Lib.Hex Url.Escape Url.Lit.
Import ListNotations.
Open Scope char_scope.

(* sweeping all 256 bytes *)
Ltac all_bytes c := destruct c as [[] [] [] [] [] [] [] []].

Lemma esc_byte_unescape : forall c r,
  query_unescape (esc_byte c ++ r) = option_map (cons c) (query_unescape r).
Proof. intros c r. all_bytes c; reflexivity. Qed.

(* QueryUnescape (QueryEscape s) = s, nil error, for ALL byte strings *)
Lemma escape_roundtrip_lemma : forall s, query_unescape (query_escape s) = Some s.
Proof.
  induction s as [|c s IH]; [reflexivity|].
  unfold query_escape in *. cbn [flat_map]. rewrite esc_byte_unescape, IH. reflexivity.
Qed.

Example escape_roundtrip_nonvacuous :
  query_escape (bs "a b&c=d/%+~" ++ [ascii_of_N 0; ascii_of_N 255])
    = bs "a+b%26c%3Dd%2F%25%2B~%00%FF"
  /\ query_unescape (bs "a+b%26c%3dd%2F%25%2B~%00%FF")
    = Some (bs "a b&c=d/%+~" ++ [ascii_of_N 0; ascii_of_N 255])
  /\ query_unescape (bs "a%2") = None /\ query_unescape (bs "%zz") = None.
Proof. vm_compute. repeat split; reflexivity. Qed.

(* the output alphabet of QueryEscape: unreserved, '+', '%' *)
Definition esc_safe (c : ascii) : bool := is_unreserved c || Ascii.eqb c "+" || Ascii.eqb c "%".

Lemma esc_byte_safe : forall c, forallb esc_safe (esc_byte c) = true.
Proof. intro c. all_bytes c; reflexivity. Qed.

Lemma escape_safe : forall s, forallb esc_safe (query_escape s) = true.
Proof.
  induction s as [|c s IH]; [reflexivity|].
  unfold query_escape in *. cbn [flat_map]. rewrite forallb_app, esc_byte_safe, IH. reflexivity.
Qed.

Lemma esc_safe_not_delim : forall c, esc_safe c = true ->
  Ascii.eqb "&" c = false /\ Ascii.eqb "=" c = false /\ Ascii.eqb ";" c = false
  /\ Ascii.eqb "#" c = false /\ Ascii.eqb "?" c = false /\ Ascii.eqb "/" c = false.
Proof. intro c. all_bytes c; cbv; intuition congruence. Qed.

Lemma escape_no : forall d s,
  (forall c, esc_safe c = true -> Ascii.eqb d c = false) ->
  existsb (Ascii.eqb d) (query_escape s) = false.
Proof.
  intros d s Hd. pose proof (escape_safe s) as Hs. revert Hs.
  generalize (query_escape s) as l. induction l as [|c l IH]; [reflexivity|].
  cbn [forallb existsb]. intro H. apply andb_true_iff in H as [Hc Hl].
  rewrite (Hd c Hc), (IH Hl). reflexivity.
Qed.

Lemma escape_no_amp s : existsb (Ascii.eqb "&") (query_escape s) = false.
Proof. apply escape_no. intros c H. apply esc_safe_not_delim in H. tauto. Qed.
Lemma escape_no_eq s : existsb (Ascii.eqb "=") (query_escape s) = false.
Proof. apply escape_no. intros c H. apply esc_safe_not_delim in H. tauto. Qed.
Lemma escape_no_semi s : existsb (Ascii.eqb ";") (query_escape s) = false.
Proof. apply escape_no. intros c H. apply esc_safe_not_delim in H. tauto. Qed.
Lemma escape_no_hash s : existsb (Ascii.eqb "#") (query_escape s) = false.
Proof. apply escape_no. intros c H. apply esc_safe_not_delim in H. tauto. Qed.

(* lower-casing is idempotent *)
Lemma lower_byte_idem : forall c, lower_byte (lower_byte c) = lower_byte c.
Proof. intro c. all_bytes c; reflexivity. Qed.
Lemma lower_idem : forall s, lower (lower s) = lower s.
Proof. intro s. unfold lower. rewrite map_map. apply map_ext. apply lower_byte_idem. Qed.

(* ---------- the WHATWG query encoding *)

Lemma ada_enc_app x y : ada_query_enc (x ++ y) = ada_query_enc x ++ ada_query_enc y.
Proof. unfold ada_query_enc. apply flat_map_app. Qed.

Lemma ada_qbyte_idem : forall c, ada_query_enc (ada_qbyte c) = ada_qbyte c.
Proof. intro c. all_bytes c; reflexivity. Qed.

(* encoding twice is encoding once *)
Lemma ada_enc_idem : forall s, ada_query_enc (ada_query_enc s) = ada_query_enc s.
Proof.
  induction s as [|c s IH]; [reflexivity|].
  change (ada_query_enc (c :: s)) with (ada_qbyte c ++ ada_query_enc s).
  rewrite ada_enc_app, ada_qbyte_idem, IH. reflexivity.
Qed.

Lemma esc_safe_not_in_set : forall c, esc_safe c = true -> ada_qbyte c = [c].
Proof. intro c. all_bytes c; intro H; vm_compute in H; try discriminate H; reflexivity. Qed.

(* QueryEscape's output is left alone by the WHATWG query encoding *)
Lemma ada_enc_safe : forall s, forallb esc_safe s = true -> ada_query_enc s = s.
Proof.
  induction s as [|c s IH]; [reflexivity|]. cbn [forallb]. intro H.
  apply andb_true_iff in H as [Hc Hs].
  change (ada_query_enc (c :: s)) with (ada_qbyte c ++ ada_query_enc s).
  rewrite (esc_safe_not_in_set c Hc), (IH Hs). reflexivity.
Qed.

(* an encoded byte decodes to itself *)
Lemma ada_qbyte_in_set : forall c r, in_query_set c = true ->
  query_unescape (ada_qbyte c ++ r) = option_map (cons c) (query_unescape r).
Proof. intros c r. all_bytes c; intro H; vm_compute in H; try discriminate H; reflexivity. Qed.

Lemma ada_qbyte_out_set : forall c, in_query_set c = false -> ada_qbyte c = [c].
Proof. intros c H. unfold ada_qbyte. rewrite H. reflexivity. Qed.

Lemma hex_not_in_set : forall c, is_hex c = true -> in_query_set c = false.
Proof. intro c. all_bytes c; intro H; vm_compute in H; try discriminate H; reflexivity. Qed.

Lemma pct_not_in_set : in_query_set "%" = false /\ in_query_set "+" = false.
Proof. split; reflexivity. Qed.

(* the first byte of an encoded non-hex byte is not a hex digit *)
Lemma ada_qbyte_head_nonhex : forall c, is_hex c = false ->
  exists x rest, ada_qbyte c = x :: rest /\ is_hex x = false.
Proof.
  intros c H. unfold ada_qbyte. destruct (in_query_set c).
  - exists "%", [hexdigit (N_of_ascii c / 16); hexdigit (N_of_ascii c mod 16)]. split; reflexivity.
  - exists c, []. split; [reflexivity|assumption].
Qed.

Lemma unescape_cons_plain c r : Ascii.eqb c "%" = false ->
  query_unescape (c :: r) =
  if Ascii.eqb c "+" then option_map (cons " ") (query_unescape r)
  else option_map (cons c) (query_unescape r).
Proof. intro H. cbn [query_unescape]. rewrite H. reflexivity. Qed.

Lemma unescape_pct_bad x r : is_hex x = false -> query_unescape ("%" :: x :: r) = None.
Proof.
  intro H. cbn [query_unescape]. rewrite Ascii.eqb_refl.
  destruct r as [|l r']; [reflexivity|]. rewrite H. reflexivity.
Qed.

Lemma unescape_pct_bad2 h x r : is_hex x = false -> query_unescape ("%" :: h :: x :: r) = None.
Proof.
  intro H. cbn [query_unescape]. rewrite Ascii.eqb_refl, H, andb_false_r. reflexivity.
Qed.

(* the encoding is invisible to QueryUnescape: same error, same bytes - for ALL byte strings *)
Lemma ada_enc_unescape_len : forall n s, (List.length s <= n)%nat ->
  query_unescape (ada_query_enc s) = query_unescape s.
Proof.
  induction n as [|n IH]; intros s Hn.
  - destruct s; [reflexivity|cbn in Hn; lia].
  - destruct s as [|c r]; [reflexivity|]. cbn [List.length] in Hn.
    change (ada_query_enc (c :: r)) with (ada_qbyte c ++ ada_query_enc r).
    destruct (in_query_set c) eqn:Hset.
    + (* encoded byte *)
      rewrite (ada_qbyte_in_set c _ Hset).
      assert (Hp : Ascii.eqb c "%" = false).
      { destruct (Ascii.eqb_spec c "%") as [->|]; [discriminate Hset|reflexivity]. }
      assert (Hq : Ascii.eqb c "+" = false).
      { destruct (Ascii.eqb_spec c "+") as [->|]; [discriminate Hset|reflexivity]. }
      rewrite (unescape_cons_plain c r Hp), Hq. rewrite IH by lia. reflexivity.
    + rewrite (ada_qbyte_out_set c Hset). cbn [app].
      destruct (Ascii.eqb c "%") eqn:Hp.
      * apply Ascii.eqb_eq in Hp. subst c.
        destruct r as [|h r1].
        { reflexivity. }
        change (ada_query_enc (h :: r1)) with (ada_qbyte h ++ ada_query_enc r1).
        destruct (is_hex h) eqn:Hh.
        2:{ destruct (ada_qbyte_head_nonhex h Hh) as [x [rest [Ex Hx]]]. rewrite Ex. cbn [app].
            rewrite (unescape_pct_bad x _ Hx).
            cbn [query_unescape]. rewrite Ascii.eqb_refl. destruct r1; [reflexivity|].
            rewrite Hh. reflexivity. }
        rewrite (ada_qbyte_out_set h (hex_not_in_set h Hh)). cbn [app].
        destruct r1 as [|l r2].
        { reflexivity. }
        change (ada_query_enc (l :: r2)) with (ada_qbyte l ++ ada_query_enc r2).
        destruct (is_hex l) eqn:Hl.
        2:{ destruct (ada_qbyte_head_nonhex l Hl) as [x [rest [Ex Hx]]]. rewrite Ex. cbn [app].
            rewrite (unescape_pct_bad2 h x _ Hx).
            cbn [query_unescape]. rewrite Ascii.eqb_refl, Hl, andb_false_r. reflexivity. }
        rewrite (ada_qbyte_out_set l (hex_not_in_set l Hl)). cbn [app].
        cbn [query_unescape]. rewrite Ascii.eqb_refl, Hh, Hl. cbn [andb].
        cbn [List.length] in Hn. rewrite IH by lia. reflexivity.
      * rewrite !(unescape_cons_plain c _ Hp). rewrite IH by lia. reflexivity.
Qed.

Lemma ada_enc_unescape : forall s, query_unescape (ada_query_enc s) = query_unescape s.
Proof. intro s. apply (ada_enc_unescape_len (List.length s)). lia. Qed.

Example ada_enc_nonvacuous :
  ada_query_enc (bs "a='b c'&<d>=%zz&%41%2") = bs "a=%27b%20c%27&%3Cd%3E=%zz&%41%2"
  /\ query_unescape (ada_query_enc (bs "'b c'%41")) = Some (bs "'b c'A")
  /\ query_unescape (ada_query_enc (bs "%<1")) = None.
Proof. vm_compute. repeat split; reflexivity. Qed.

(* bytes that the encoding neither produces nor consumes: '&', '=', ';' *)
Definition plain_delim (d : ascii) : Prop :=
  forall c, existsb (Ascii.eqb d) (ada_qbyte c) = Ascii.eqb d c.

Lemma plain_amp : plain_delim "&". Proof. intro c. all_bytes c; reflexivity. Qed.
Lemma plain_eq : plain_delim "=". Proof. intro c. all_bytes c; reflexivity. Qed.
Lemma plain_semi : plain_delim ";". Proof. intro c. all_bytes c; reflexivity. Qed.

Lemma ada_enc_contains d s : plain_delim d ->
  existsb (Ascii.eqb d) (ada_query_enc s) = existsb (Ascii.eqb d) s.
Proof.
  intro Hd. induction s as [|c s IH]; [reflexivity|].
  change (ada_query_enc (c :: s)) with (ada_qbyte c ++ ada_query_enc s).
  rewrite existsb_app, Hd, IH. reflexivity.
Qed.

Lemma ada_qbyte_self : forall d, existsb (Ascii.eqb d) (ada_qbyte d) = true -> ada_qbyte d = [d].
Proof. intro d. all_bytes d; intro H; vm_compute in H; try discriminate H; reflexivity. Qed.

Lemma ada_qbyte_delim d : plain_delim d -> ada_qbyte d = [d].
Proof.
  intro Hd. apply ada_qbyte_self. rewrite (Hd d). apply Ascii.eqb_refl.
Qed.

Lemma ada_enc_nil s : ada_query_enc s = [] -> s = [].
Proof.
  destruct s as [|c r]; [reflexivity|].
  change (ada_query_enc (c :: r)) with (ada_qbyte c ++ ada_query_enc r).
  unfold ada_qbyte. destruct (in_query_set c); discriminate.
Qed.

(* ---------- strings.Trim(s, quotes) *)

Lemma drop_quotes_idem s : drop_quotes (drop_quotes s) = drop_quotes s.
Proof.
  induction s as [|c r IH]; [reflexivity|]. cbn [drop_quotes].
  destruct (is_quote c) eqn:E; [assumption|]. cbn [drop_quotes]. rewrite E. reflexivity.
Qed.

Lemma drop_quotes_all q s : forallb is_quote q = true -> drop_quotes (q ++ s) = drop_quotes s.
Proof.
  induction q as [|c q IH]; [reflexivity|]. cbn [forallb app drop_quotes]. intro H.
  apply andb_true_iff in H as [Hc Hq]. rewrite Hc. apply IH; assumption.
Qed.

Lemma drop_quotes_head c s : is_quote c = false -> drop_quotes (c :: s) = c :: s.
Proof. intro H. cbn [drop_quotes]. rewrite H. reflexivity. Qed.

(* the text between the quote characters comes back when its own ends are not quotes *)
Lemma trim_quotes_wrapped : forall qa qb a m z,
  forallb is_quote qa = true -> forallb is_quote qb = true ->
  is_quote a = false -> is_quote z = false ->
  trim_quotes (qa ++ (a :: m ++ [z]) ++ qb) = a :: m ++ [z].
Proof.
  intros qa qb a m z Ha Hb Hfa Hfz. unfold trim_quotes.
  rewrite (drop_quotes_all qa _ Ha).
  change ((a :: m ++ [z]) ++ qb) with (a :: (m ++ [z]) ++ qb).
  rewrite (drop_quotes_head a _ Hfa).
  change (a :: (m ++ [z]) ++ qb) with ((a :: m ++ [z]) ++ qb).
  rewrite rev_app_distr.
  rewrite drop_quotes_all by (rewrite forallb_forall in *; intros x Hx; apply Hb; apply in_rev; assumption).
  change (a :: m ++ [z]) with ((a :: m) ++ [z]). rewrite rev_app_distr. cbn [rev app].
  rewrite (drop_quotes_head z _ Hfz).
  change (z :: rev m ++ [a]) with ([z] ++ rev (a :: m)). rewrite rev_app_distr, rev_involutive.
  reflexivity.
Qed.

Lemma trim_quotes_single : forall qa qb a,
  forallb is_quote qa = true -> forallb is_quote qb = true -> is_quote a = false ->
  trim_quotes (qa ++ [a] ++ qb) = [a].
Proof.
  intros qa qb a Ha Hb Hfa. unfold trim_quotes.
  rewrite (drop_quotes_all qa _ Ha). cbn [app]. rewrite (drop_quotes_head a _ Hfa).
  change (a :: qb) with ([a] ++ qb). rewrite rev_app_distr.
  rewrite drop_quotes_all by (rewrite forallb_forall in *; intros x Hx; apply Hb; apply in_rev; assumption).
  cbn [rev app]. rewrite (drop_quotes_head a _ Hfa). reflexivity.
Qed.

Example trim_quotes_nonvacuous :
  trim_quotes (bs "'""http://a.b/it's""'") = bs "http://a.b/it's"
  /\ trim_quotes (bs "http://a.b/x'") = bs "http://a.b/x" /\ trim_quotes (bs "''") = [].
Proof. vm_compute. repeat split; reflexivity. Qed.

(* ---------- texts the WHATWG query encoding leaves alone *)
Definition enc_free (s : bytes) : bool := forallb (fun c => negb (in_query_set c)) s.

Lemma ada_enc_free : forall s, enc_free s = true -> ada_query_enc s = s.
Proof.
  induction s as [|c s IH]; [reflexivity|]. unfold enc_free in *. cbn [forallb]. intro H.
  apply andb_true_iff in H as [Hc Hs]. apply negb_true_iff in Hc.
  change (ada_query_enc (c :: s)) with (ada_qbyte c ++ ada_query_enc s).
  rewrite (ada_qbyte_out_set c Hc), (IH Hs). reflexivity.
Qed.

Lemma enc_free_app x y : enc_free (x ++ y) = enc_free x && enc_free y.
Proof. apply forallb_app. Qed.

Lemma esc_safe_enc_free_byte : forall c, esc_safe c = true -> in_query_set c = false.
Proof. intro c. all_bytes c; intro H; vm_compute in H; try discriminate H; reflexivity. Qed.

Lemma escape_enc_free s : enc_free (query_escape s) = true.
Proof.
  pose proof (escape_safe s) as H. revert H. generalize (query_escape s) as l.
  induction l as [|c l IH]; [reflexivity|]. unfold enc_free in *. cbn [forallb]. intro H.
  apply andb_true_iff in H as [Hc Hl]. rewrite (esc_safe_enc_free_byte c Hc), (IH Hl). reflexivity.
Qed.

(* the compact literals of the harness-written case files denote the same bytes as [hx] *)
Example bx_hx : bx "http://a.b/?q=""1""" = hx "687474703a2f2f612e622f3f713d223122".
Proof. vm_compute. reflexivity. Qed.
