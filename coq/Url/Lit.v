(* C09 - compact byte-string literals for the harness-written case files: [bx "text"] elaborates
   several times faster than [hx "hex"] (one constructor per byte instead of nine per hex digit).
   The driver uses it for printable ASCII and falls back to [hx] for everything else. *)
From Coq Require Import List Ascii Strings.Byte.
From ZenoV Require Import Lib.Hex.
Import ListNotations.

Inductive bstr := BStr (l : list Byte.byte).
Definition bstr_of_list (l : list Byte.byte) : bstr := BStr l.
Definition list_of_bstr (b : bstr) : list Byte.byte := match b with BStr l => l end.
Declare Scope bstr_scope.
Delimit Scope bstr_scope with bstr.
Bind Scope bstr_scope with bstr.
String Notation bstr bstr_of_list list_of_bstr : bstr_scope.

Definition bx (b : bstr) : bytes := map ascii_of_byte (list_of_bstr b).
Arguments bx _%bstr.
