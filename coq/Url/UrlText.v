(* C09 - text-level predicates on URL strings: what the monitors evaluate on the implementation's
   answers, and what UrlTextProofs.v proves about the rendering of the reference normaliser's
   results.  Executable definitions only. *)
From Coq Require Import List Ascii String NArith Bool.
From ZenoV Require Import Lib.Hex Url.Escape Url.Query Url.RefUrl Url.Resolve.
Import ListNotations.
Open Scope char_scope.

(* text up to the first byte satisfying [stop], and the rest *)
Fixpoint span_until (stop : ascii -> bool) (s : bytes) : bytes * bytes :=
  match s with
  | [] => ([], [])
  | c :: r => if stop c then ([], s) else let (a, b) := span_until stop r in (c :: a, b)
  end.

(* part after the last occurrence of [d] (the whole text when there is none) *)
Definition after_last (d : ascii) (s : bytes) : bytes := last (split_on d s) [].
Definition before_last (d : ascii) (s : bytes) : bytes := join d (removelast (split_on d s)).

Definition auth_stop c := Ascii.eqb c "/" || Ascii.eqb c "?" || Ascii.eqb c "#".

Definition host_of_authority (a : bytes) : bytes :=
  let hp := after_last "@" a in
  if Ascii.eqb (last hp "x") "]" then hp
  else if contains ":" hp then before_last ":" hp else hp.

(* scheme-stripped text of an http(s) URL *)
Definition web_rest (o : bytes) : option bytes :=
  if starts_with (bs "http://") o then Some (skipn 7 o)
  else if starts_with (bs "https://") o then Some (skipn 8 o) else None.

(* accepted result: http(s)://authority/path[?query], dotted non-loopback host, no fragment,
   no dot segment *)
Definition shape_text (o : bytes) : bool :=
  match web_rest o with
  | None => false
  | Some r =>
    let (a, tail) := span_until auth_stop r in
    let host := host_of_authority a in
    let (path, _) := span_until (fun c => Ascii.eqb c "?") tail in
    negb (bytes_eqb host (bs "localhost")) && negb (bytes_eqb host (bs "127.0.0.1"))
    && contains "." host
    && negb (contains "#" o)
    && starts_with (bs "/") tail
    && forallb (fun s => negb (dotseg s)) (split_on "/" path)
  end.


(* the raw query of a URL text: between the first '?' and the first '#', when the '?' comes
   first *)
Definition text_query (s : bytes) : option bytes :=
  let (_, r) := span_until (fun c => Ascii.eqb c "?" || Ascii.eqb c "#") s in
  match r with
  | c :: r' => if Ascii.eqb c "?" then Some (fst (span_until (fun c => Ascii.eqb c "#") r')) else None
  | [] => None
  end.

Definition visible c := (33 <=? N_of_ascii c)%N && (N_of_ascii c <=? 126)%N.
Definition pieces (q : bytes) : list bytes := filter nonempty (split_on "&" q).
(* a well-formed query: visible ASCII, every non-empty piece a well-formed parameter *)
Definition wf_query_text (q : bytes) : bool := forallb visible q && forallb wf_seg (pieces q).


(* a reference without scheme and authority, recognised by its first bytes *)
Definition ref_char c := visible c && negb (Ascii.eqb c "\") && negb (is_quote c).
Definition is_local_ref (t : bytes) : bool :=
  forallb ref_char t &&
  match t with
  | [] => false
  | c :: r =>
    if Ascii.eqb c "/" then negb (starts_with (bs "/") r)
    else if Ascii.eqb c "?" || Ascii.eqb c "#" then true
    else (* path-relative: no ':' before the first '/', '?' or '#' *)
      negb (contains ":" (fst (span_until auth_stop t)))
  end.
(* "scheme://authority" of an absolute URL text *)
Definition origin_text (o : bytes) : bytes :=
  let (s, r) := span_until (fun c => Ascii.eqb c ":") o in
  s ++ firstn 3 r ++ fst (span_until auth_stop (skipn 3 r)).


Definition path_text (o : bytes) : bytes :=
  match web_rest o with
  | None => []
  | Some r => fst (span_until (fun c => Ascii.eqb c "?" || Ascii.eqb c "#") (snd (span_until auth_stop r)))
  end.
Definition dir_text (p : bytes) : bytes := before_last "/" p ++ ["/"].
Definition is_pathrel_nodots (t : bytes) : bool :=
  is_local_ref t &&
  match t with
  | c :: _ =>
    negb (Ascii.eqb c "/" || Ascii.eqb c "?" || Ascii.eqb c "#")
    && forallb (fun s => negb (dotseg s) && wf_seg_chars s)
         (split_on "/" (fst (span_until (fun c => Ascii.eqb c "?" || Ascii.eqb c "#") t)))
  | [] => false
  end.

(* a reference with an authority but no scheme: "//x..." *)
Definition is_scheme_rel_ref (t : bytes) : bool :=
  forallb ref_char t &&
  match t with
  | a :: b :: c :: _ => Ascii.eqb a "/" && Ascii.eqb b "/" && negb (Ascii.eqb c "/")
  | _ => false
  end.
Definition scheme_text (o : bytes) : bytes := fst (span_until (fun c => Ascii.eqb c ":") o).

(* the text in front of the first '#', when there is one and that text is not empty and ends
   with a byte that no parser trims (visible, not a quote) *)
Definition frag_prefix (t : bytes) : option bytes :=
  let (a, r) := span_until (fun c => Ascii.eqb c "#") t in
  match r, a with
  | _ :: _, c :: _ => let z := last a c in if visible z && negb (is_quote z) then Some a else None
  | _, _ => None
  end.
