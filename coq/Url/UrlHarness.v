(* C09 - what the generated case files evaluate.
   diff: the reference normaliser against preprocessor.NormalizeURL + URL.String() on the
         in-grammar stream;
   mons: the property's predicates on the implementation's own answers (text only, no use of
         the reference normaliser), on both streams. *)
From Coq Require Import List Ascii String NArith Bool.
From ZenoV Require Import Lib.Hex Lib.Harness Url.Escape Url.Query Url.RefUrl Url.Resolve Url.UrlText.
Import ListNotations.
Open Scope char_scope.

(* what the implementation answered *)
Inductive obs :=
| OOk (t : bytes)     (* accepted; URL.String() *)
| OScheme | OHost     (* ErrUnsupportedScheme / ErrUnsupportedHost *)
| OOther              (* any other error *)
| OPanic.

Record ucase := UC {
  (* generator's ASTs: grandparent, parent, reference, quote characters put around the text *)
  c_ast : option (option ref * option ref * ref * bytes * bytes);
  c_ptext : option bytes;          (* text of the parent before its own normalisation *)
  c_text : bytes;                  (* the URL text given to NormalizeURL *)
  c_pcanon : option bytes;         (* the parent after NormalizeURL (against the grandparent, if
                                      any) + String(); None = no parent or parent rejected (the URL
                                      was then normalised without a parent) *)
  c_outs : list obs;               (* NormalizeURL + String() on fresh objects *)
  c_again : option obs;            (* the first output normalised once more (no parent) *)
  c_nofrag : option (bytes * obs); (* when the text has a '#' after a non-empty prefix: that prefix
                                      and what it is normalised to (same parent) *)
  (* three views of one evaluation: String(), Raw, GetParsed().String() after String() (the last
     two empty when rejected).  First entry: a fresh object (= the first of c_outs); second entry,
     when c_state is not 0: the same text on an object that was already parsed (1: URL.Parse() on
     the raw text, as the sources do for every seed) or parsed and stringed (2) before *)
  c_states : list (obs * bytes * bytes);
  c_state : N
}.

Definition obs_eqb (a c : obs) : bool :=
  match a, c with
  | OOk x, OOk y => bytes_eqb x y
  | OScheme, OScheme | OHost, OHost | OOther, OOther | OPanic, OPanic => true
  | _, _ => false
  end.

Definition obs_of (o : outcome) : obs :=
  match o with
  | Ok u => OOk (render_url u)
  | ErrScheme => OScheme
  | ErrHost => OHost
  | ErrOther => OOther
  end.

Definition obytes_eqb (a c : option bytes) : bool :=
  match a, c with
  | None, None => true
  | Some x, Some y => bytes_eqb x y
  | _, _ => false
  end.

(* ---------- correspondence *)

Definition state_of (o : outcome) : option url := match o with Ok u => Some u | _ => None end.

Definition diff_case (c : ucase) : bool :=
  match c_ast c with
  | None => false
  | Some (gr, pr, r, qa, qb) =>
    let text_ok := bytes_eqb (qa ++ render_ref r ++ qb) (c_text c)
                   && obytes_eqb (option_map render_ref pr) (c_ptext c) in
    (* the grandparent's and the parent's parsed states; a rejected (grand)parent is not used *)
    let gs := match gr with None => None | Some g => state_of (norm_state None g) end in
    let gg := match gr with None => true | Some g => in_grammar None g end in
    let ps := match pr with None => None | Some p => state_of (norm_state gs p) end in
    let pg := gg && match pr with None => true | Some p => in_grammar gs p end in
    negb text_ok ||
    (* Raw is the state NormalizeURL leaves behind, the parsed URL after String() is the canonical one *)
    (pg && in_grammar ps r &&
     (* that evaluation ran with a parent and grandparent whose String() had been called *)
     let psf := match pr with None => None | Some p => state_of (norm_state (option_map finish gs) p) end in
     match c_states c, norm_state (option_map finish psf) r with
     | (_, raw, parsed) :: _, Ok w =>
       negb (bytes_eqb raw (render_url w) && bytes_eqb parsed (render_url (finish w)))
     | _, _ => false
     end) ||
    (pg && (negb (obytes_eqb (option_map (fun s => render_url (finish s)) ps) (c_pcanon c))
            || (in_grammar ps r
                && negb (forallb (obs_eqb (obs_of (normalize ps r))) (c_outs c)
                         (* the same with a parent whose String() was called before *)
                         && forallb (obs_eqb (obs_of (normalize (option_map finish ps) r))) (c_outs c)))))
  end.

(* ---------- monitors: text level, on the implementation's answers only *)

(* 0: the same input gives the same answer every time *)
Definition mon_same (c : ucase) : bool :=
  match c_outs c with
  | [] => true
  | o :: r => forallb (obs_eqb o) r
  end.

(* 1: a canonical string is a fixed point, apart from the deliberate quote stripping *)
Definition mon_idem (c : ucase) : bool :=
  match c_outs c with
  | OOk o :: _ =>
    if bytes_eqb (trim_quotes o) o
    then match c_again c with Some (OOk o') => bytes_eqb o o' | _ => false end
    else true
  | _ => true
  end.

Definition obs_texts (l : list obs) : list bytes :=
  flat_map (fun o => match o with OOk t => [t] | _ => [] end) l.

(* 2 *)
Definition mon_shape (c : ucase) : bool :=
  forallb shape_text (obs_texts (c_outs c ++ match c_again c with Some o => [o] | None => [] end))
  && negb (existsb (obs_eqb OPanic) (c_outs c)).

Fixpoint pairs_eqb (x y : list pair) : bool :=
  match x, y with
  | [], [] => true
  | (k, v) :: x', (k', v') :: y' => bytes_eqb k k' && bytes_eqb v v' && pairs_eqb x' y'
  | _, _ => false
  end.

(* 3: the well-formed parameters of a query keep their order and multiplicity - whatever
   droppable pieces (empty, with a semicolon, with a bad escape) stand before, between or
   behind them.  Both sides are read with the same rule: the well-formed pieces, decoded
   (UrlTextProofs.parse_query_wf_pieces: that list IS url.ParseQuery's, in source order). *)
Definition wf_params (q : bytes) : list pair := map decode_seg (filter wf_seg (pieces q)).
Definition mon_query (c : ucase) : bool :=
  match text_query (trim_quotes (c_text c)), c_outs c with
  | Some q, OOk o :: _ =>
    if forallb visible q then
      let q' := match text_query o with Some x => x | None => [] end in
      pairs_eqb (wf_params q) (wf_params q')
    else true
  | _, _ => true
  end.

(* 4: a reference without scheme and authority keeps the parent's scheme and whole authority
   (credentials, host, port).  Text level: the reference is recognised by its first bytes. *)
Definition mon_authority (c : ucase) : bool :=
  match c_pcanon c, c_outs c with
  | Some pc, OOk o :: _ =>
    if is_local_ref (trim_quotes (c_text c)) then bytes_eqb (origin_text pc) (origin_text o) else true
  | _, _ => true
  end.

(* 5: a path-relative reference without dot segments (and made of characters that no parser
   re-encodes) lands in the parent's directory *)
Definition mon_directory (c : ucase) : bool :=
  match c_pcanon c, c_outs c with
  | Some pc, OOk o :: _ =>
    let t := trim_quotes (c_text c) in
    if is_pathrel_nodots t
    then bytes_eqb (path_text o)
           (dir_text (path_text pc) ++ fst (span_until (fun c => Ascii.eqb c "?" || Ascii.eqb c "#") t))
    else true
  | _, _ => true
  end.

(* 6: no fragment, from the input side (norm_fragment_irrelevant): the text and the text cut at
   its first '#' get the same answer *)
Definition mon_fragment (c : ucase) : bool :=
  match frag_prefix (trim_quotes (c_text c)), c_outs c with
  | Some a, OOk o :: _ =>
    match c_nofrag c with
    | Some (a', o') => bytes_eqb a a' && obs_eqb (OOk o) o'
    | None => false
    end
  | _, _ => true
  end.

(* 7: a reference with an authority but no scheme takes the parent's scheme
   (scheme_relative_takes_parent_scheme, RFC 3986 5.2.2) *)
Definition mon_scheme_rel (c : ucase) : bool :=
  match c_pcanon c, c_outs c with
  | Some pc, OOk o :: _ =>
    if is_scheme_rel_ref (trim_quotes (c_text c)) then bytes_eqb (scheme_text pc) (scheme_text o) else true
  | _, _ => true
  end.

(* 8: the answer is a function of the text and the parent, not of the history of the URL object
   (norm_deterministic): an object that was parsed before gives the same String(), Raw and parsed
   URL as a fresh one, and in every evaluation String() is the text of the parsed URL.  For an
   object whose String() was ALSO called before, this monitor looks at the outcome class and Raw,
   monitor 9 at the rest. *)
Definition trip_eqb (a b : obs * bytes * bytes) : bool :=
  let '(o1, r1, p1) := a in let '(o2, r2, p2) := b in
  obs_eqb o1 o2 && bytes_eqb r1 r2 && bytes_eqb p1 p2.
Definition trip_coherent (a : obs * bytes * bytes) : bool :=
  let '(o, _, p) := a in match o with OOk t => bytes_eqb t p | _ => true end.
Definition same_class (a b : obs) : bool :=
  match a, b with OOk _, OOk _ => true | _, _ => obs_eqb a b end.
Definition mon_state (c : ucase) : bool :=
  match c_states c with
  | f :: r =>
    trip_coherent f &&
    match r with
    | s :: _ =>
      if (c_state c =? 1)%N then trip_eqb f s && trip_coherent s
      else same_class (fst (fst f)) (fst (fst s)) && bytes_eqb (snd (fst f)) (snd (fst s))
    | [] => true
    end
  | [] => true
  end.

(* 9: ... also when String() had been called on the object before normalisation *)
Definition mon_string_cache (c : ucase) : bool :=
  match c_states c with
  | f :: s :: _ => if (c_state c =? 2)%N then trip_eqb f s else true
  | _ => true
  end.

Definition diffs (l : list ucase) := bad_idx diff_case l.
Definition mons (l : list ucase) :=
  mon_idx [mon_same; mon_idem; mon_shape; mon_query; mon_authority; mon_directory; mon_fragment; mon_scheme_rel;
           mon_state; mon_string_cache] l.

(* ====================================================================================
   urlredir: the same question through the pipeline.  A seed is preprocessed (real preprocess()),
   answered with a 3xx whose Location header is the reference text, postprocessed (real
   postprocessItem()) and preprocessed again: the URL of the request built for the redirect
   target must be [normalize parent reference]. *)

Inductive robs :=
| ROk (t req : bytes)   (* the target was kept: URL.String() and the URL of its request *)
| RRemoved              (* the target was removed from the tree (NormalizeURL refused it) *)
| RPanic.

Record rcase := RC {
  r_ast : option (ref * ref);   (* generator's ASTs: the seed (absolute) and the Location reference *)
  r_ptext : bytes;              (* seed text *)
  r_loc : bytes;                (* Location header value *)
  r_pcanon : option bytes;      (* the seed after preprocess(): String(); None = no request was built *)
  r_out : robs;
  r_direct : obs                (* NormalizeURL(Location text, parent) + String() called directly *)
}.

Definition robs_obs (o : robs) : obs :=
  match o with ROk t _ => OOk t | RRemoved => OOther | RPanic => OPanic end.

Definition rdiff_case (c : rcase) : bool :=
  match r_ast c with
  | None => false
  | Some (p, r) =>
    let text_ok := bytes_eqb (render_ref p) (r_ptext c) && bytes_eqb (render_ref r) (r_loc c) in
    let ps := state_of (norm_state None p) in
    negb text_ok ||
    (in_grammar None p &&
     (negb (obytes_eqb (option_map (fun s => render_url (finish s)) ps) (r_pcanon c))
      || match ps with
         | None => false
         | Some s =>
           in_grammar ps r &&
           (* the parent's String() was called by preprocess() *)
           match normalize (Some (finish s)) r, r_out c with
           | Ok u, ROk t req => negb (bytes_eqb t (render_url u) && bytes_eqb req (render_url u))
           | Ok _, _ => true
           | _, RRemoved => false
           | _, _ => true
           end
         end))
  end.

Definition to_ucase (c : rcase) : ucase :=
  UC None (Some (r_ptext c)) (r_loc c) (r_pcanon c) [robs_obs (r_out c)] None None [] 0.

(* 0: the pipeline's answer is NormalizeURL's answer for (Location text, parent) - nothing between
   the header and the normaliser interprets the reference *)
Definition rmon_direct (c : rcase) : bool :=
  match r_pcanon c with
  | None => true
  | Some _ =>
    match r_out c, r_direct c with
    | ROk t _, OOk t' => bytes_eqb t t'
    | RRemoved, (OScheme | OHost | OOther) => true
    | _, _ => false
    end
  end.

(* 1: shape, and the request goes to the canonical URL *)
Definition rmon_shape (c : rcase) : bool :=
  mon_shape (to_ucase c) && match r_out c with ROk t req => bytes_eqb t req | _ => true end.

Definition rdiffs (l : list rcase) := bad_idx rdiff_case l.
Definition rmons (l : list rcase) :=
  mon_idx [rmon_direct; rmon_shape;
           (fun c => mon_authority (to_ucase c));
           (fun c => mon_directory (to_ucase c));
           (fun c => mon_scheme_rel (to_ucase c))] l.
