(* C09 - what the generated case files evaluate.
   diff: the reference normaliser against preprocessor.NormalizeURL + URL.String() on the
         in-grammar stream;
   mons: the property's predicates on the implementation's own answers (text only, no use of
         the reference normaliser), on both streams. *)
From Coq Require Import List Ascii String NArith Bool.
From ZenoV Require Import Lib.Hex Lib.Harness Url.Escape Url.Query Url.RefUrl Url.Resolve.
Import ListNotations.
Open Scope char_scope.

(* what the implementation answered *)
Inductive obs :=
| OOk (t : bytes)     (* accepted; URL.String() *)
| OScheme | OHost     (* ErrUnsupportedScheme / ErrUnsupportedHost *)
| OOther              (* any other error *)
| OPanic.

Record ucase := UC {
  (* generator's ASTs: grandparent, parent, reference, quote characters put around the text *)
  c_ast : option (option ref * option ref * ref * bytes * bytes);
  c_ptext : option bytes;          (* text of the parent before its own normalisation *)
  c_text : bytes;                  (* the URL text given to NormalizeURL *)
  c_pcanon : option bytes;         (* the parent after NormalizeURL (against the grandparent, if
                                      any) + String(); None = no parent or parent rejected (the URL
                                      was then normalised without a parent) *)
  c_outs : list obs;               (* NormalizeURL + String() on fresh objects *)
  c_again : option obs             (* the first output normalised once more (no parent) *)
}.

Definition obs_eqb (a c : obs) : bool :=
  match a, c with
  | OOk x, OOk y => bytes_eqb x y
  | OScheme, OScheme | OHost, OHost | OOther, OOther | OPanic, OPanic => true
  | _, _ => false
  end.

Definition obs_of (o : outcome) : obs :=
  match o with
  | Ok u => OOk (render_url u)
  | ErrScheme => OScheme
  | ErrHost => OHost
  | ErrOther => OOther
  end.

Definition obytes_eqb (a c : option bytes) : bool :=
  match a, c with
  | None, None => true
  | Some x, Some y => bytes_eqb x y
  | _, _ => false
  end.

(* ---------- correspondence *)

Definition state_of (o : outcome) : option url := match o with Ok u => Some u | _ => None end.

Definition diff_case (c : ucase) : bool :=
  match c_ast c with
  | None => false
  | Some (gr, pr, r, qa, qb) =>
    let text_ok := bytes_eqb (qa ++ render_ref r ++ qb) (c_text c)
                   && obytes_eqb (option_map render_ref pr) (c_ptext c) in
    (* the grandparent's and the parent's parsed states; a rejected (grand)parent is not used *)
    let gs := match gr with None => None | Some g => state_of (norm_state None g) end in
    let gg := match gr with None => true | Some g => in_grammar None g end in
    let ps := match pr with None => None | Some p => state_of (norm_state gs p) end in
    let pg := gg && match pr with None => true | Some p => in_grammar gs p end in
    negb text_ok ||
    (pg && (negb (obytes_eqb (option_map (fun s => render_url (finish s)) ps) (c_pcanon c))
            || (in_grammar ps r
                && negb (forallb (obs_eqb (obs_of (normalize ps r))) (c_outs c)
                         (* the same with a parent whose String() was called before *)
                         && forallb (obs_eqb (obs_of (normalize (option_map finish ps) r))) (c_outs c)))))
  end.

(* ---------- monitors: text level, on the implementation's answers only *)

(* 0: the same input gives the same answer every time *)
Definition mon_same (c : ucase) : bool :=
  match c_outs c with
  | [] => true
  | o :: r => forallb (obs_eqb o) r
  end.

(* 1: a canonical string is a fixed point, apart from the deliberate quote stripping *)
Definition mon_idem (c : ucase) : bool :=
  match c_outs c with
  | OOk o :: _ =>
    if bytes_eqb (trim_quotes o) o
    then match c_again c with Some (OOk o') => bytes_eqb o o' | _ => false end
    else true
  | _ => true
  end.

(* text up to the first byte satisfying [stop], and the rest *)
Fixpoint span_until (stop : ascii -> bool) (s : bytes) : bytes * bytes :=
  match s with
  | [] => ([], [])
  | c :: r => if stop c then ([], s) else let (a, b) := span_until stop r in (c :: a, b)
  end.

(* part after the last occurrence of [d] (the whole text when there is none) *)
Definition after_last (d : ascii) (s : bytes) : bytes := last (split_on d s) [].
Definition before_last (d : ascii) (s : bytes) : bytes := join d (removelast (split_on d s)).

Definition auth_stop c := Ascii.eqb c "/" || Ascii.eqb c "?" || Ascii.eqb c "#".

Definition host_of_authority (a : bytes) : bytes :=
  let hp := after_last "@" a in
  if Ascii.eqb (last hp "x") "]" then hp
  else if contains ":" hp then before_last ":" hp else hp.

(* scheme-stripped text of an http(s) URL *)
Definition web_rest (o : bytes) : option bytes :=
  if starts_with (bs "http://") o then Some (skipn 7 o)
  else if starts_with (bs "https://") o then Some (skipn 8 o) else None.

(* accepted result: http(s)://authority/path[?query], dotted non-loopback host, no fragment,
   no dot segment *)
Definition shape_text (o : bytes) : bool :=
  match web_rest o with
  | None => false
  | Some r =>
    let (a, tail) := span_until auth_stop r in
    let host := host_of_authority a in
    let (path, _) := span_until (fun c => Ascii.eqb c "?") tail in
    negb (bytes_eqb host (bs "localhost")) && negb (bytes_eqb host (bs "127.0.0.1"))
    && contains "." host
    && negb (contains "#" o)
    && starts_with (bs "/") tail
    && forallb (fun s => negb (dotseg s)) (split_on "/" path)
  end.

Definition obs_texts (l : list obs) : list bytes :=
  flat_map (fun o => match o with OOk t => [t] | _ => [] end) l.

(* 2 *)
Definition mon_shape (c : ucase) : bool :=
  forallb shape_text (obs_texts (c_outs c ++ match c_again c with Some o => [o] | None => [] end))
  && negb (existsb (obs_eqb OPanic) (c_outs c)).

(* the raw query of a URL text: between the first '?' and the first '#', when the '?' comes
   first *)
Definition text_query (s : bytes) : option bytes :=
  let (_, r) := span_until (fun c => Ascii.eqb c "?" || Ascii.eqb c "#") s in
  match r with
  | c :: r' => if Ascii.eqb c "?" then Some (fst (span_until (fun c => Ascii.eqb c "#") r')) else None
  | [] => None
  end.

Definition visible c := (33 <=? N_of_ascii c)%N && (N_of_ascii c <=? 126)%N.
Definition pieces (q : bytes) : list bytes := filter nonempty (split_on "&" q).
(* a well-formed query: visible ASCII, every non-empty piece a well-formed parameter *)
Definition wf_query_text (q : bytes) : bool := forallb visible q && forallb wf_seg (pieces q).

Fixpoint pairs_eqb (x y : list pair) : bool :=
  match x, y with
  | [], [] => true
  | (k, v) :: x', (k', v') :: y' => bytes_eqb k k' && bytes_eqb v v' && pairs_eqb x' y'
  | _, _ => false
  end.

(* 3: the parameters of a well-formed query keep their order and multiplicity *)
Definition mon_query (c : ucase) : bool :=
  match text_query (trim_quotes (c_text c)), c_outs c with
  | Some q, OOk o :: _ =>
    if wf_query_text q then
      let q' := match text_query o with Some x => x | None => [] end in
      forallb wf_seg (pieces q')
      && pairs_eqb (map decode_seg (pieces q)) (map decode_seg (pieces q'))
    else true
  | _, _ => true
  end.

(* 4: a reference without scheme and authority keeps the parent's scheme and whole authority
   (credentials, host, port).  Text level: the reference is recognised by its first bytes. *)
Definition ref_char c := visible c && negb (Ascii.eqb c "\") && negb (is_quote c).
Definition is_local_ref (t : bytes) : bool :=
  forallb ref_char t &&
  match t with
  | [] => false
  | c :: r =>
    if Ascii.eqb c "/" then negb (starts_with (bs "/") r)
    else if Ascii.eqb c "?" || Ascii.eqb c "#" then true
    else (* path-relative: no ':' before the first '/', '?' or '#' *)
      negb (contains ":" (fst (span_until auth_stop t)))
  end.
(* "scheme://authority" of an absolute URL text *)
Definition origin_text (o : bytes) : bytes :=
  let (s, r) := span_until (fun c => Ascii.eqb c ":") o in
  s ++ firstn 3 r ++ fst (span_until auth_stop (skipn 3 r)).

Definition mon_authority (c : ucase) : bool :=
  match c_pcanon c, c_outs c with
  | Some pc, OOk o :: _ =>
    if is_local_ref (trim_quotes (c_text c)) then bytes_eqb (origin_text pc) (origin_text o) else true
  | _, _ => true
  end.

(* 5: a path-relative reference without dot segments (and made of characters that no parser
   re-encodes) lands in the parent's directory *)
Definition path_text (o : bytes) : bytes :=
  match web_rest o with
  | None => []
  | Some r => fst (span_until (fun c => Ascii.eqb c "?" || Ascii.eqb c "#") (snd (span_until auth_stop r)))
  end.
Definition dir_text (p : bytes) : bytes := before_last "/" p ++ ["/"].
Definition is_pathrel_nodots (t : bytes) : bool :=
  is_local_ref t &&
  match t with
  | c :: _ =>
    negb (Ascii.eqb c "/" || Ascii.eqb c "?" || Ascii.eqb c "#")
    && forallb (fun s => negb (dotseg s) && wf_seg_chars s)
         (split_on "/" (fst (span_until (fun c => Ascii.eqb c "?" || Ascii.eqb c "#") t)))
  | [] => false
  end.
Definition mon_directory (c : ucase) : bool :=
  match c_pcanon c, c_outs c with
  | Some pc, OOk o :: _ =>
    let t := trim_quotes (c_text c) in
    if is_pathrel_nodots t
    then bytes_eqb (path_text o)
           (dir_text (path_text pc) ++ fst (span_until (fun c => Ascii.eqb c "?" || Ascii.eqb c "#") t))
    else true
  | _, _ => true
  end.

Definition diffs (l : list ucase) := bad_idx diff_case l.
Definition mons (l : list ucase) :=
  mon_idx [mon_same; mon_idem; mon_shape; mon_query; mon_authority; mon_directory] l.
