(* C09 - proofs about the reference normaliser (Resolve.v): idempotence, shape of accepted
   results, independence from the parent's String() state, resolution per reference form,
   dot-segment removal, query parameters kept; and the refutation of the base choice of the
   code as found. *)
From Coq Require Import List Ascii String NArith Bool Lia.
From ZenoV Require Import Lib.Hex Url.Escape Url.EscapeProofs Url.Query Url.QueryProofs Url.RefUrl Url.Resolve.
Import ListNotations.
Open Scope char_scope.

(* ---------- the query pass *)

Lemma canon_query_cons x : x <> [] ->
  canon_query (Some x) = match reencode x with [] => None | e => Some e end.
Proof. destruct x; [congruence|reflexivity]. Qed.

Lemma canon_query_idem q : canon_query (canon_query q) = canon_query q.
Proof.
  destruct q as [x|]; [|reflexivity]. destruct x as [|c r]; [reflexivity|].
  rewrite canon_query_cons by discriminate.
  destruct (reencode (c :: r)) as [|a l] eqn:E; [reflexivity|].
  rewrite canon_query_cons by discriminate.
  rewrite <- E, reencode_idem_lemma, E. reflexivity.
Qed.

Lemma canon_query_ada q : canon_query (option_map ada_query_enc q) = canon_query q.
Proof.
  destruct q as [x|]; [|reflexivity]. destruct x as [|c r]; [reflexivity|]. cbn [option_map].
  rewrite !canon_query_cons; try discriminate.
  - rewrite reencode_ada_enc. reflexivity.
  - intro H. apply ada_enc_nil in H. discriminate.
Qed.

Lemma ada_canon_query q : option_map ada_query_enc (canon_query q) = canon_query q.
Proof.
  destruct q as [x|]; [|reflexivity]. destruct x as [|c r]; [reflexivity|].
  rewrite canon_query_cons by discriminate.
  destruct (reencode (c :: r)) as [|a l] eqn:E; [reflexivity|].
  cbn [option_map]. rewrite <- E, ada_enc_reencode. reflexivity.
Qed.

Lemma query_pass_idem hp q : query_pass hp (query_pass hp q) = query_pass hp q.
Proof. unfold query_pass. destruct (exempt hp); [reflexivity|apply canon_query_idem]. Qed.

Definition qtext (q : option bytes) : bytes := match q with Some x => x | None => [] end.

Lemma parse_canon_query q : parse_query (qtext (canon_query q)) = parse_query (qtext q).
Proof.
  destruct q as [x|]; [|reflexivity]. destruct x as [|c r]; [reflexivity|].
  rewrite canon_query_cons by discriminate. cbn [qtext].
  rewrite <- (query_order_kept_lemma (c :: r)).
  destruct (reencode (c :: r)); reflexivity.
Qed.

Lemma parse_query_pass hp q : parse_query (qtext (query_pass hp q)) = parse_query (qtext q).
Proof. unfold query_pass. destruct (exempt hp); [reflexivity|apply parse_canon_query]. Qed.

Lemma parse_query_ada_opt q :
  parse_query (qtext (option_map ada_query_enc q)) = parse_query (qtext q).
Proof. destruct q; [apply parse_query_ada_enc|reflexivity]. Qed.

(* ---------- ports and credentials *)

Lemma strip0_nonempty d : d <> [] -> strip0 d <> [].
Proof.
  induction d as [|c r IH]; [congruence|]. intros _. destruct r as [|c2 r'].
  - discriminate.
  - cbn [strip0]. destruct (Ascii.eqb c "0"); [apply IH|]; discriminate.
Qed.

Lemma strip0_idem d : strip0 (strip0 d) = strip0 d.
Proof.
  induction d as [|c r IH]; [reflexivity|]. destruct r as [|c2 r'].
  - reflexivity.
  - cbn [strip0]. destruct (Ascii.eqb c "0") eqn:E; [exact IH|].
    cbn [strip0]. rewrite E. reflexivity.
Qed.

Lemma norm_port_cons s d : d <> [] ->
  norm_port s (Some d) =
  if (65535 <? dec_val (strip0 d))%N then None
  else if bytes_eqb (strip0 d) (default_port s) then Some None else Some (Some (strip0 d)).
Proof. destruct d; [congruence|reflexivity]. Qed.

Lemma norm_port_idem s p p' : norm_port s p = Some p' -> norm_port s p' = Some p'.
Proof.
  destruct p as [d|]; [|intros [= <-]; reflexivity].
  destruct d as [|c r]; [intros [= <-]; reflexivity|].
  assert (Hne : strip0 (c :: r) <> []) by (apply strip0_nonempty; discriminate).
  rewrite norm_port_cons by discriminate.
  remember (strip0 (c :: r)) as d0 eqn:Ed0.
  destruct (65535 <? dec_val d0)%N eqn:E1; [discriminate|].
  destruct (bytes_eqb d0 (default_port s)) eqn:E2; intro H; injection H as <-; [reflexivity|].
  rewrite norm_port_cons by exact Hne.
  assert (Hi : strip0 d0 = d0) by (subst d0; apply strip0_idem).
  rewrite Hi, E1, E2. reflexivity.
Qed.

Lemma norm_user_idem u : norm_user (norm_user u) = norm_user u.
Proof.
  destruct u as [[n p]|]; [|reflexivity].
  destruct n as [|c n]; destruct p as [[|d p]|]; reflexivity.
Qed.

(* ---------- dot segments *)

Lemma dotseg_nil : dotseg [] = false. Proof. reflexivity. Qed.

Lemma no_dots_rev l : no_dots (rev l) = no_dots l.
Proof.
  unfold no_dots. induction l as [|x r IH]; [reflexivity|]. cbn [rev forallb].
  rewrite forallb_app, IH. cbn [forallb]. rewrite andb_true_r. apply andb_comm.
Qed.

Lemma no_dots_tl l : no_dots l = true -> no_dots (tl l) = true.
Proof. destruct l as [|x r]; [reflexivity|]. cbn. intro H. apply andb_true_iff in H. tauto. Qed.

Lemma no_dots_cons s l : no_dots (s :: l) = negb (dotseg s) && no_dots l.
Proof. reflexivity. Qed.

Lemma not_dotseg s : dotseg s = false -> is_dotdot s = false /\ is_dot s = false.
Proof. unfold dotseg. intro H. apply orb_false_iff in H. tauto. Qed.

(* the output never contains a dot segment *)
Lemma rds_no_dots p : forall acc, no_dots acc = true -> no_dots (rds acc p) = true.
Proof.
  induction p as [|s r IH]; intros acc Ha.
  - cbn [rds]. rewrite no_dots_rev. exact Ha.
  - cbn [rds]. destruct (is_dotdot s) eqn:Edd.
    + destruct r as [|s2 r2].
      * rewrite no_dots_rev, no_dots_cons, dotseg_nil. apply no_dots_tl. exact Ha.
      * apply IH. apply no_dots_tl. exact Ha.
    + destruct (is_dot s) eqn:Ed.
      * destruct r as [|s2 r2].
        -- rewrite no_dots_rev, no_dots_cons, dotseg_nil. exact Ha.
        -- apply IH. exact Ha.
      * apply IH. rewrite no_dots_cons. unfold dotseg. rewrite Ed, Edd. exact Ha.
Qed.

Lemma rds_nonempty p : forall acc, p <> [] -> rds acc p <> [].
Proof.
  induction p as [|s r IH]; intros acc Hp; [congruence|].
  assert (Hrev : forall (x : bytes) l, rev (x :: l) <> []).
  { intros x l H. apply (f_equal (@List.length bytes)) in H. rewrite rev_length in H. discriminate. }
  cbn [rds]. destruct (is_dotdot s).
  - destruct r as [|s2 r2]; [apply Hrev|apply IH; discriminate].
  - destruct (is_dot s).
    + destruct r as [|s2 r2]; [apply Hrev|apply IH; discriminate].
    + destruct r as [|s2 r2]; [cbn [rds]; apply Hrev|apply IH; discriminate].
Qed.

(* without dot segments nothing happens *)
Lemma rds_nodots p : forall acc, no_dots p = true -> rds acc p = rev acc ++ p.
Proof.
  induction p as [|s r IH]; intros acc Hp.
  - cbn [rds]. rewrite app_nil_r. reflexivity.
  - rewrite no_dots_cons in Hp. apply andb_true_iff in Hp as [Hs Hr].
    apply negb_true_iff in Hs. destruct (not_dotseg s Hs) as [Edd Ed].
    cbn [rds]. rewrite Edd, Ed, (IH _ Hr). cbn [rev]. rewrite <- app_assoc. reflexivity.
Qed.

Lemma remove_dots_nonempty p : remove_dots p <> [].
Proof. destruct p as [|s r]; [discriminate|]. apply rds_nonempty. discriminate. Qed.

Lemma remove_dots_no_dots p : no_dots (remove_dots p) = true.
Proof. destruct p as [|s r]; [reflexivity|]. apply rds_no_dots. reflexivity. Qed.

(* RFC 3986 5.2.4 as rewriting rules; applied to the leftmost dot segment they determine
   the function completely *)
Lemma remove_dots_id_lemma p : p <> [] -> no_dots p = true -> remove_dots p = p.
Proof. destruct p as [|s r]; [congruence|]. intros _ H. unfold remove_dots. apply (rds_nodots _ [] H). Qed.

Lemma rds_prefix a : forall acc b, no_dots a = true -> rds acc (a ++ b) = rds (rev a ++ acc) b.
Proof.
  induction a as [|s r IH]; intros acc b Ha; [reflexivity|].
  rewrite no_dots_cons in Ha. apply andb_true_iff in Ha as [Hs Hr].
  apply negb_true_iff in Hs. destruct (not_dotseg s Hs) as [Edd Ed].
  cbn [app rds]. rewrite Edd, Ed, (IH _ _ Hr). cbn [rev]. rewrite <- app_assoc. reflexivity.
Qed.

Lemma remove_dots_rds p : p <> [] -> remove_dots p = rds [] p.
Proof. destruct p; [congruence|reflexivity]. Qed.

Lemma app_cons_not_nil {A} (a : list A) x b : a ++ x :: b <> [].
Proof. destruct a; discriminate. Qed.

(* "a/./b" = "a/b" *)
Lemma remove_dots_single_lemma a d b : no_dots a = true -> is_dot d = true -> b <> [] ->
  remove_dots (a ++ d :: b) = remove_dots (a ++ b).
Proof.
  intros Ha Hd Hb. rewrite !remove_dots_rds; [|destruct a, b; try discriminate; congruence|apply app_cons_not_nil].
  rewrite !rds_prefix by assumption. cbn [rds].
  destruct (is_dotdot d) eqn:Edd.
  - (* a segment cannot be both *) exfalso. revert Hd Edd. unfold is_dot, is_dotdot.
    intros H1 H2. apply orb_true_iff in H1.
    repeat (apply orb_true_iff in H2; destruct H2 as [H2|H2]);
      apply bytes_eqb_eq in H2; destruct H1 as [H1|H1]; apply bytes_eqb_eq in H1;
      try (rewrite H1 in H2; discriminate H2); try (rewrite H2 in H1; discriminate H1);
      subst d; discriminate.
  - rewrite Hd. destruct b; [congruence|reflexivity].
Qed.

(* "a/s/../b" = "a/b" *)
Lemma remove_dots_double_lemma a s d b : no_dots a = true -> dotseg s = false ->
  is_dotdot d = true -> b <> [] ->
  remove_dots (a ++ s :: d :: b) = remove_dots (a ++ b).
Proof.
  intros Ha Hs Hd Hb. destruct (not_dotseg s Hs) as [Edd Ed].
  rewrite !remove_dots_rds; [|destruct a, b; try discriminate; congruence|apply app_cons_not_nil].
  rewrite !rds_prefix by assumption. cbn [rds]. rewrite Edd, Ed, Hd.
  destruct b; [congruence|reflexivity].
Qed.

(* ".." at the root is dropped *)
Lemma remove_dots_root_lemma d b : is_dotdot d = true -> b <> [] ->
  remove_dots (d :: b) = remove_dots b.
Proof.
  intros Hd Hb. rewrite (remove_dots_rds b Hb). cbn [remove_dots rds]. rewrite Hd.
  destruct b; [congruence|reflexivity].
Qed.

(* a final "." or ".." leaves a trailing slash *)
Lemma remove_dots_single_end_lemma a d : no_dots a = true -> is_dot d = true ->
  remove_dots (a ++ [d]) = a ++ [[]].
Proof.
  intros Ha Hd. rewrite remove_dots_rds by apply app_cons_not_nil.
  rewrite rds_prefix by assumption. cbn [rds].
  destruct (is_dotdot d) eqn:Edd.
  - exfalso. revert Hd Edd. unfold is_dot, is_dotdot. intros H1 H2. apply orb_true_iff in H1.
    repeat (apply orb_true_iff in H2; destruct H2 as [H2|H2]);
      apply bytes_eqb_eq in H2; destruct H1 as [H1|H1]; apply bytes_eqb_eq in H1;
      try (rewrite H1 in H2; discriminate H2); try (rewrite H2 in H1; discriminate H1);
      subst d; discriminate.
  - rewrite Hd. cbn [rev]. rewrite app_nil_r, rev_involutive. reflexivity.
Qed.

Lemma remove_dots_double_end_lemma a s d : no_dots a = true -> dotseg s = false ->
  is_dotdot d = true -> remove_dots (a ++ [s; d]) = a ++ [[]].
Proof.
  intros Ha Hs Hd. destruct (not_dotseg s Hs) as [Edd Ed].
  rewrite remove_dots_rds by apply app_cons_not_nil.
  rewrite rds_prefix by assumption. cbn [rds]. rewrite Edd, Ed, Hd. cbn [tl rev].
  rewrite app_nil_r, rev_involutive. reflexivity.
Qed.

Lemma remove_dots_clean_lemma p : remove_dots p <> [] /\ no_dots (remove_dots p) = true.
Proof. split; [apply remove_dots_nonempty|apply remove_dots_no_dots]. Qed.

Lemma remove_dots_idem p : remove_dots (remove_dots p) = remove_dots p.
Proof. apply remove_dots_id_lemma; [apply remove_dots_nonempty|apply remove_dots_no_dots]. Qed.

Example remove_dots_nonvacuous :
  remove_dots [bs "a"; bs "."; bs "b"; bs "%2E%2e"; bs "c"; bs ".."] = [bs "a"; []]
  /\ remove_dots [bs ".."; bs ".."; bs "x"] = [bs "x"]
  /\ remove_dots [bs "a"; []; bs "b"; bs "..."; bs ".a"] = [bs "a"; []; bs "b"; bs "..."; bs ".a"]
  /\ remove_dots [] = [[]].
Proof. vm_compute. repeat split; reflexivity. Qed.

(* ---------- the state NormalizeURL leaves behind *)

(* a parsed URL on which ada's canonicalisation has nothing left to do *)
Definition is_state (w : url) : Prop :=
  is_web (u_scheme w) = true
  /\ norm_port (u_scheme w) (a_port (u_auth w)) = Some (a_port (u_auth w))
  /\ norm_user (a_user (u_auth w)) = a_user (u_auth w)
  /\ map lower (a_host (u_auth w)) = a_host (u_auth w)
  /\ host_ok (a_host (u_auth w)) = true
  /\ remove_dots (u_path w) = u_path w
  /\ option_map ada_query_enc (u_query w) = u_query w
  /\ u_frag w = None.

Lemma is_web_lower s : is_web s = true -> lower s = s.
Proof.
  unfold is_web. intro H. apply orb_true_iff in H as [H|H]; apply bytes_eqb_eq in H; subst s; reflexivity.
Qed.

Lemma map_lower_idem h : map lower (map lower h) = map lower h.
Proof. rewrite map_map. apply map_ext. apply lower_idem. Qed.

Lemma ada_enc_opt_idem q :
  option_map ada_query_enc (option_map ada_query_enc q) = option_map ada_query_enc q.
Proof. destruct q; [cbn; rewrite ada_enc_idem|]; reflexivity. Qed.

Lemma whatwg_state u w : whatwg u = Ok w -> is_state w.
Proof.
  unfold whatwg. destruct (norm_port (lower (u_scheme u)) (a_port (u_auth u))) as [p|] eqn:Ep; [|discriminate].
  destruct (is_web (lower (u_scheme u))) eqn:Ew; [|discriminate]. cbn [negb].
  destruct (host_ok (map lower (a_host (u_auth u)))) eqn:Eh; [|discriminate].
  intros [= <-]. unfold is_state. cbn [u_scheme u_auth u_path u_query u_frag a_port a_user a_host].
  repeat split.
  - exact Ew.
  - apply (norm_port_idem _ _ _ Ep).
  - apply norm_user_idem.
  - apply map_lower_idem.
  - exact Eh.
  - apply remove_dots_idem.
  - apply ada_enc_opt_idem.
Qed.

(* on a state, ada's canonicalisation of scheme and authority is the identity *)
Lemma whatwg_on_state b p q f : is_state b ->
  whatwg (Url (u_scheme b) (u_auth b) p q f)
  = Ok (Url (u_scheme b) (u_auth b) (remove_dots p) (option_map ada_query_enc q) None).
Proof.
  intros (Hw & Hp & Hu & Hh & Hok & _). unfold whatwg.
  cbn [u_scheme u_auth u_path u_query]. rewrite (is_web_lower _ Hw), Hp, Hw, Hh, Hok, Hu.
  cbn [negb]. destruct (u_auth b) as [us h pt]; reflexivity.
Qed.

Lemma whatwg_fix w : is_state w -> whatwg w = Ok w.
Proof.
  intro Hs. pose proof Hs as (_ & _ & _ & _ & _ & Hpath & Hq & Hf).
  destruct w as [s a p q f]. cbn [u_path u_query u_frag] in *. subst f.
  pose proof (whatwg_on_state (Url s a p q None) p q None Hs) as H.
  cbn [u_scheme u_auth] in H. rewrite H, Hpath, Hq. reflexivity.
Qed.

Lemma norm_state_is_state orig parent r w : norm_state_gen orig parent r = Ok w -> is_state w.
Proof.
  unfold norm_state_gen, flow_a, flow_b, schemeless.
  destruct r as [u|a p q f|p q f|p q f|q f|f]; destruct parent as [b|];
    try discriminate; try (apply whatwg_state);
    try (destruct (drop_empty p); [discriminate|apply whatwg_state]);
    try (destruct f; [apply whatwg_state|discriminate]);
    try (destruct f; discriminate).
Qed.

Lemma finish_state w : is_state w -> is_state (finish w).
Proof.
  intros (Hw & Hp & Hu & Hh & Hok & Hpath & Hq & Hf). unfold finish, pass, is_state.
  cbn [u_scheme u_auth u_path u_query u_frag]. repeat split; try assumption.
  unfold query_pass. destruct (exempt _); [assumption|apply ada_canon_query].
Qed.

Lemma finish_idem w : finish (finish w) = finish w.
Proof.
  unfold finish, pass. cbn [u_scheme u_auth u_path u_query u_frag].
  rewrite query_pass_idem. reflexivity.
Qed.

(* ---------- idempotence: a canonical URL is a fixed point, whatever parent is supplied *)

Lemma normalize_state_fixed c : is_state c -> finish c = c ->
  forall parent, normalize parent (RAbs c) = Ok c.
Proof.
  intros Hs Hf parent. unfold normalize, norm_state, norm_state_gen, flow_b.
  assert (Hp : pass (render_hostport (u_auth c)) c = c) by exact Hf.
  destruct parent; rewrite Hp, (whatwg_fix c Hs); cbn [omap]; rewrite Hf; reflexivity.
Qed.

Lemma norm_idempotent_lemma : forall parent r c, normalize parent r = Ok c ->
  forall parent', normalize parent' (RAbs c) = Ok c.
Proof.
  intros parent r c H parent'. unfold normalize in H.
  destruct (norm_state parent r) as [w| | |] eqn:E; try discriminate. cbn [omap] in H.
  injection H as <-. apply normalize_state_fixed.
  - apply finish_state. apply (norm_state_is_state _ _ _ _ E).
  - apply finish_idem.
Qed.

(* ---------- shape of every accepted result *)

Lemma state_shape w : is_state w -> shape_ok w = true.
Proof.
  intros (Hw & _ & _ & _ & Hok & Hpath & _ & Hf). unfold shape_ok.
  rewrite Hw, Hok, Hf, <- Hpath, remove_dots_no_dots. cbn [andb].
  pose proof (remove_dots_nonempty (u_path w)). destruct (remove_dots (u_path w)); [congruence|reflexivity].
Qed.

Lemma norm_shape_lemma : forall parent r c, normalize parent r = Ok c -> shape_ok c = true.
Proof.
  intros parent r c H. unfold normalize in H.
  destruct (norm_state parent r) as [w| | |] eqn:E; try discriminate. cbn [omap] in H.
  injection H as <-. apply state_shape, finish_state, (norm_state_is_state _ _ _ _ E).
Qed.

(* ---------- resolution of each reference form against a parent state *)

Lemma resolve_abs_lemma : forall b u, norm_state (Some b) (RAbs u) = norm_state None (RAbs u).
Proof. reflexivity. Qed.

Lemma resolve_scheme_rel_lemma : forall b a p q f,
  norm_state (Some b) (RSchemeRel a p q f) = whatwg (Url (u_scheme b) a p q f).
Proof. reflexivity. Qed.

Lemma resolve_path_abs_lemma : forall b p q f, is_state b ->
  norm_state (Some b) (RPathAbs p q f)
  = Ok (Url (u_scheme b) (u_auth b) (remove_dots p) (option_map ada_query_enc q) None).
Proof. intros b p q f Hb. apply (whatwg_on_state b p q f Hb). Qed.

Lemma resolve_path_rel_lemma : forall b p q f, is_state b ->
  norm_state (Some b) (RPathRel p q f)
  = Ok (Url (u_scheme b) (u_auth b) (remove_dots (removelast (u_path b) ++ p))
            (option_map ada_query_enc q) None).
Proof. intros b p q f Hb. apply (whatwg_on_state b _ q f Hb). Qed.

Lemma resolve_query_only_lemma : forall b q f, is_state b ->
  norm_state (Some b) (RQuery q f)
  = Ok (Url (u_scheme b) (u_auth b) (u_path b) (Some (ada_query_enc q)) None).
Proof.
  intros b q f Hb. unfold norm_state, norm_state_gen, flow_a, base_for. cbn [andb resolve].
  rewrite (whatwg_on_state b _ _ f Hb). destruct Hb as (_ & _ & _ & _ & _ & Hpath & _). rewrite Hpath. reflexivity.
Qed.

Definition drop_bare (q : option bytes) : option bytes := match q with Some [] => None | x => x end.

Lemma resolve_fragment_only_lemma : forall b f, is_state b ->
  norm_state (Some b) (RFrag (Some f))
  = Ok (Url (u_scheme b) (u_auth b) (u_path b) (drop_bare (u_query b)) None).
Proof.
  intros b f Hb. unfold norm_state, norm_state_gen, flow_a, base_for. cbn [andb resolve].
  rewrite (whatwg_on_state b _ _ (Some f) Hb). destruct Hb as (_ & _ & _ & _ & _ & Hpath & Hq & _).
  rewrite Hpath. fold (drop_bare (u_query b)).
  destruct (u_query b) as [[|c x]|]; cbn [drop_bare option_map] in *; congruence.
Qed.

Definition ex_parent : url :=
  Url (bs "https") (Auth (Some (bs "u", Some (bs "p"))) [bs "ex"; bs "com"] (Some (bs "8443")))
      [bs "d1"; bs "d2"; bs "page"] (Some (bs "pq=1&&z")) None.

Lemma ex_parent_state : is_state ex_parent.
Proof. unfold is_state. repeat split; reflexivity. Qed.

(* ---------- the answer does not depend on whether the parent's String() was called *)

Lemma drop_bare_canon q : canon_query (drop_bare (canon_query q)) = canon_query (drop_bare q).
Proof.
  destruct q as [x|]; [|reflexivity]. destruct x as [|c r]; [reflexivity|].
  cbn [drop_bare]. rewrite canon_query_cons by discriminate.
  destruct (reencode (c :: r)) as [|a l] eqn:E; [reflexivity|].
  cbn [drop_bare]. rewrite canon_query_cons by discriminate.
  rewrite <- E, reencode_idem_lemma, E. reflexivity.
Qed.

Lemma parent_string_irrelevant_lemma : forall b r, is_state b ->
  normalize (Some (finish b)) r = normalize (Some b) r.
Proof.
  intros b r Hb.
  destruct r as [u|a p q f|p q f|p q f|q f|f]; try reflexivity.
  destruct f as [f|]; [|reflexivity].
  unfold normalize. rewrite (resolve_fragment_only_lemma _ f (finish_state b Hb)).
  rewrite (resolve_fragment_only_lemma _ f Hb). cbn [omap]. f_equal.
  unfold finish, pass. cbn [u_scheme u_auth u_path u_query u_frag]. f_equal.
  unfold query_pass. destruct (exempt (render_hostport (u_auth b))); [reflexivity|].
  apply drop_bare_canon.
Qed.

Lemma norm_deterministic_lemma :
  (forall parent r o1 o2, normalize parent r = o1 -> normalize parent r = o2 -> o1 = o2)
  /\ (forall gp pr b r, norm_state gp pr = Ok b ->
        normalize (Some (finish b)) r = normalize (Some b) r).
Proof.
  split.
  - intros parent r o1 o2 H1 H2. congruence.
  - intros gp pr b r H. apply parent_string_irrelevant_lemma. apply (norm_state_is_state _ _ _ _ H).
Qed.

(* the hidden state is really there: String() changes the parent's parsed query *)
Example parent_string_nonvacuous :
  exists b, norm_state (Some ex_parent) (RQuery (bs "b&&a") None) = Ok b /\ finish b <> b
  /\ normalize (Some (finish b)) (RFrag (Some [])) = normalize (Some b) (RFrag (Some [])).
Proof. eexists. split; [vm_compute; reflexivity|]. split; [vm_compute; discriminate|vm_compute; reflexivity]. Qed.

(* ---------- the fragment of the reference plays no role (except that a fragment-only reference
   is not the empty reference, which ada refuses) *)

Lemma whatwg_frag s a p q f f' : whatwg (Url s a p q f) = whatwg (Url s a p q f').
Proof. reflexivity. Qed.

Lemma norm_fragment_irrelevant_lemma : forall parent r, is_frag_only r = false ->
  normalize parent r = normalize parent (drop_frag r).
Proof.
  intros parent r Hr. unfold normalize, norm_state, norm_state_gen, flow_a, flow_b, schemeless, base_for.
  destruct r as [u|a p q f|p q f|p q f|q f|f]; try discriminate Hr; destruct parent as [b|];
    cbn [drop_frag andb resolve]; reflexivity.
Qed.

(* RFC 3986 5.2.2: a reference with an authority but no scheme takes the base's scheme *)
Lemma scheme_relative_takes_parent_scheme_lemma : forall b a p q f w, is_state b ->
  norm_state (Some b) (RSchemeRel a p q f) = Ok w -> u_scheme w = u_scheme b.
Proof.
  intros b a p q f w (Hw & _) H. rewrite resolve_scheme_rel_lemma in H. unfold whatwg in H.
  cbn [u_scheme u_auth] in H. destruct (norm_port _ _); [|discriminate].
  destruct (negb _); [discriminate|]. destruct (host_ok _); [|discriminate].
  injection H as <-. cbn [u_scheme]. apply is_web_lower, Hw.
Qed.

Example fragment_scheme_nonvacuous :
  obs_text (normalize (Some ex_parent) (RPathRel [bs "other.html"] None (Some (bs "sec#2"))))
    = Some (bs "https://u:p@ex.com:8443/d1/d2/other.html")
  /\ obs_text (normalize (Some ex_parent) (RSchemeRel (Auth None [bs "host"; bs "tld"] None) [bs "path"] None None))
    = Some (bs "https://host.tld/path")
  /\ normalize (Some ex_parent) (RFrag (Some [])) <> normalize (Some ex_parent) (RFrag None).
Proof. vm_compute. repeat split; try reflexivity. discriminate. Qed.

(* ---------- query parameters: order and multiplicity kept through the whole normaliser *)

Definition ref_query (r : ref) : option bytes :=
  match r with
  | RAbs u => u_query u
  | RSchemeRel _ _ q _ | RPathAbs _ q _ | RPathRel _ q _ => q
  | RQuery q _ => Some q
  | RFrag _ => None
  end.

Lemma whatwg_query u w : whatwg u = Ok w -> u_query w = option_map ada_query_enc (u_query u).
Proof.
  unfold whatwg. destruct (norm_port _ _); [|discriminate].
  destruct (negb _); [discriminate|]. destruct (host_ok _); [|discriminate].
  intros [= <-]. reflexivity.
Qed.

Lemma norm_state_query orig parent r w q : norm_state_gen orig parent r = Ok w -> ref_query r = Some q ->
  parse_query (qtext (u_query w)) = parse_query q.
Proof.
  unfold norm_state_gen, flow_a, flow_b, schemeless. intros H Hq.
  destruct r as [u|a p q0 f|p q0 f|p q0 f|q0 f|f]; cbn [ref_query] in Hq; try discriminate Hq.
  - (* absolute *)
    assert (Hx : whatwg (pass (render_hostport (u_auth u)) u) = Ok w) by (destruct parent; exact H).
    rewrite (whatwg_query _ _ Hx), parse_query_ada_opt. unfold pass. cbn [u_query].
    rewrite parse_query_pass, Hq. reflexivity.
  - (* scheme-relative *)
    subst q0. destruct parent as [b|].
    + rewrite (whatwg_query _ _ H). rewrite parse_query_ada_opt.
      unfold base_for. destruct (orig && _); reflexivity.
    + rewrite (whatwg_query _ _ H), parse_query_ada_opt. unfold pass. cbn [u_query].
      rewrite parse_query_pass. reflexivity.
  - (* path-absolute *)
    subst q0. destruct parent as [b|].
    + rewrite (whatwg_query _ _ H). rewrite parse_query_ada_opt.
      unfold base_for. destruct (orig && _); reflexivity.
    + destruct (drop_empty p); [discriminate|].
      rewrite (whatwg_query _ _ H), parse_query_ada_opt. unfold pass. cbn [u_query].
      rewrite parse_query_pass. reflexivity.
  - (* path-relative *)
    subst q0. destruct parent as [b|].
    + rewrite (whatwg_query _ _ H). rewrite parse_query_ada_opt.
      unfold base_for. destruct (orig && _); reflexivity.
    + destruct (drop_empty p); [discriminate|].
      rewrite (whatwg_query _ _ H), parse_query_ada_opt. unfold pass. cbn [u_query].
      rewrite parse_query_pass. reflexivity.
  - (* query-only *)
    injection Hq as <-. destruct parent as [b|]; [|discriminate].
    rewrite (whatwg_query _ _ H). rewrite parse_query_ada_opt.
    unfold base_for. destruct (orig && _); reflexivity.
Qed.

Lemma query_order_kept_norm_lemma : forall parent r c q,
  normalize parent r = Ok c -> ref_query r = Some q ->
  parse_query (qtext (u_query c)) = parse_query q.
Proof.
  intros parent r c q H Hq. unfold normalize in H.
  destruct (norm_state parent r) as [w| | |] eqn:E; try discriminate. cbn [omap] in H.
  injection H as <-. unfold finish, pass. cbn [u_query]. rewrite parse_query_pass.
  apply (norm_state_query _ _ _ _ _ E Hq).
Qed.

(* ---------- the base choice of the code as found *)

(* it agrees with the standard except on the slash-first class *)
Lemma normalize_orig_agrees parent r : slash_first r = false ->
  normalize_orig parent r = normalize parent r.
Proof.
  intro H. unfold normalize_orig, normalize, norm_state_orig, norm_state, norm_state_gen, flow_a, base_for.
  rewrite H. reflexivity.
Qed.

(* path-absolute reference: the parent's credentials are dropped (RFC 3986 5.2.2 keeps the
   whole authority); path-relative reference starting with an escaped slash: resolved against
   the root instead of the parent's directory *)
Lemma base_choice_orig_refuted :
  render_url (match normalize_orig (Some ex_parent) (RPathAbs [bs "x"] None None) with Ok c => c | _ => ex_parent end)
    = bs "https://ex.com:8443/x"
  /\ render_url (match normalize (Some ex_parent) (RPathAbs [bs "x"] None None) with Ok c => c | _ => ex_parent end)
    = bs "https://u:p@ex.com:8443/x"
  /\ render_url (match normalize_orig (Some ex_parent) (RPathRel [bs "%2fa"; bs "b"] None None) with Ok c => c | _ => ex_parent end)
    = bs "https://ex.com:8443/%2fa/b"
  /\ render_url (match normalize (Some ex_parent) (RPathRel [bs "%2fa"; bs "b"] None None) with Ok c => c | _ => ex_parent end)
    = bs "https://u:p@ex.com:8443/d1/d2/%2fa/b".
Proof. vm_compute. repeat split; reflexivity. Qed.

(* ---------- non-vacuity *)

Example normalize_nonvacuous :
  obs_text (normalize None (RAbs (Url (bs "HTTP") (Auth (Some (bs "u", Some [])) [bs "A"; bs "Com"] (Some (bs "0080")))
                                   [bs "x"; bs ".."; bs "y"; bs "."] (Some (bs "b=1&&a='2'&b=3")) (Some (bs "f")))))
    = Some (bs "http://u@a.com/y/?b=1&a=%272%27&b=3")
  /\ obs_text (normalize (Some ex_parent) (RPathRel [bs ".."; bs "x"] (Some (bs "q")) None))
    = Some (bs "https://u:p@ex.com:8443/d1/x?q=")
  /\ obs_text (normalize (Some ex_parent) (RFrag (Some (bs "top"))))
    = Some (bs "https://u:p@ex.com:8443/d1/d2/page?pq=1&z=")
  /\ obs_text (normalize (Some ex_parent) (RQuery (bs "b&a") None))
    = Some (bs "https://u:p@ex.com:8443/d1/d2/page?b=&a=")
  /\ obs_text (normalize (Some ex_parent) (RSchemeRel (Auth None [bs "o"; bs "org"] (Some (bs "443"))) [] None None))
    = Some (bs "https://o.org/")
  /\ normalize None (RAbs (Url (bs "ftp") (Auth None [bs "a"; bs "com"] None) [] None None)) = ErrScheme
  /\ normalize None (RAbs (Url (bs "http") (Auth None [bs "localhost"] None) [] None None)) = ErrHost
  /\ normalize None (RAbs (Url (bs "http") (Auth None [bs "a"; bs "com"] (Some (bs "65536"))) [] None None)) = ErrOther
  /\ obs_text (normalize None (RPathRel [bs "www.Example.com"; bs "dogs"] None None))
    = Some (bs "http://www.example.com/dogs").
Proof. vm_compute. repeat split; reflexivity. Qed.
