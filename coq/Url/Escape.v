(* C09 - byte-exact models of Go's net/url QueryEscape / QueryUnescape (go1.24 url.go:
   escape(s, encodeQueryComponent) and unescape(s, encodeQueryComponent)), and of the URL
   standard's percent-encoding of a special URL's query (what the ada parser applies to the
   query of an http(s) URL).  Executable definitions only; proofs are in EscapeProofs.v. *)
From Coq Require Import List Ascii String NArith Bool.
From ZenoV Require Import Lib.Hex.
Import ListNotations.
Open Scope char_scope.

Definition in_range (lo hi c : ascii) : bool :=
  (N_of_ascii lo <=? N_of_ascii c)%N && (N_of_ascii c <=? N_of_ascii hi)%N.
Definition is_lower c := in_range "a" "z" c.
Definition is_upper c := in_range "A" "Z" c.
Definition is_alpha c := is_lower c || is_upper c.
Definition is_digit c := in_range "0" "9" c.
Definition is_alnum c := is_alpha c || is_digit c.
Definition is_hex c := is_digit c || in_range "a" "f" c || in_range "A" "F" c.

(* shouldEscape(c, encodeQueryComponent) = false  <->  alphanumeric or one of - _ . ~ *)
Definition is_unreserved c :=
  is_alnum c || Ascii.eqb c "-" || Ascii.eqb c "_" || Ascii.eqb c "." || Ascii.eqb c "~".

(* "0123456789ABCDEF"[n] *)
Definition hexdigit (n : N) : ascii :=
  if (n <? 10)%N then ascii_of_N (48 + n) else ascii_of_N (55 + n).

Definition pct (c : ascii) : bytes :=
  ["%"; hexdigit (N_of_ascii c / 16); hexdigit (N_of_ascii c mod 16)].

(* one byte of url.escape in query-component mode: ' ' -> '+', shouldEscape -> %XX *)
Definition esc_byte (c : ascii) : bytes :=
  if is_unreserved c then [c]
  else if Ascii.eqb c " " then ["+"]
  else pct c.

Definition query_escape (s : bytes) : bytes := flat_map esc_byte s.

(* url.unescape in query-component mode: error (None) on '%' not followed by two hex digits;
   '+' -> ' '; %XX -> byte; every other byte is copied *)
Fixpoint query_unescape (s : bytes) : option bytes :=
  match s with
  | [] => Some []
  | c :: r =>
    if Ascii.eqb c "%" then
      match r with
      | h :: l :: r' =>
        if is_hex h && is_hex l
        then option_map (cons (ascii_of_N (hexval h * 16 + hexval l))) (query_unescape r')
        else None
      | _ => None
      end
    else if Ascii.eqb c "+" then option_map (cons " ") (query_unescape r)
    else option_map (cons c) (query_unescape r)
  end.

(* The URL standard's special-query percent-encode set: C0 controls, space, double quote,
   #, <, >, single quote and everything above ~.  ada applies it byte by byte to the query of an http(s) URL
   ('%' itself is not in the set: existing escapes, well formed or not, are kept). *)
Definition in_query_set (c : ascii) : bool :=
  (N_of_ascii c <=? 32)%N || (126 <? N_of_ascii c)%N
  || Ascii.eqb c """" || Ascii.eqb c "#" || Ascii.eqb c "<" || Ascii.eqb c ">" || Ascii.eqb c "'".

Definition ada_qbyte (c : ascii) : bytes := if in_query_set c then pct c else [c].
Definition ada_query_enc (s : bytes) : bytes := flat_map ada_qbyte s.

(* lower-casing of ASCII letters (scheme, host) *)
Definition lower_byte (c : ascii) : ascii :=
  if is_upper c then ascii_of_N (N_of_ascii c + 32) else c.
Definition lower (s : bytes) : bytes := map lower_byte s.

(* strings.Trim(s, cutset) with cutset = double quote, single quote *)
Definition is_quote c := Ascii.eqb c """" || Ascii.eqb c "'".
Fixpoint drop_quotes (s : bytes) : bytes :=
  match s with c :: r => if is_quote c then drop_quotes r else s | [] => [] end.
Definition trim_quotes (s : bytes) : bytes := rev (drop_quotes (rev (drop_quotes s))).
