(* C09 - the reference normaliser: what preprocessor.NormalizeURL followed by URL.String() must
   produce on the reference grammar.  The structure follows the Go code
   (internal/pkg/preprocessor/url.go, pkg/models/url.go):

     flow B (no parent, or the reference has a scheme):
        net/url parse; default scheme http; URLToString (query pass 1); WHATWG parse (ada)
     flow A (parent and no scheme):
        WHATWG parse of the reference against the parent (ada with base)
     both: clear the fragment; scheme and host checks; href; ParseRequestURI   [= norm_state]
           URL.String() = URLToString (query pass 2)                            [= finish]

   The WHATWG parser and net/url are not modelled as programs: [whatwg] is the URL standard's
   result on the grammar (scheme/host lower-casing, default-port and credential clean-up,
   dot-segment removal, query percent-encoding) and the driver validates it against the real
   functions on every generated URL.

   The model follows the code AFTER the two repairs (patches kept in /verif/fixes):
     /repo 8ac6930 (C09-query-order) : encodeQuery re-encodes parameter by parameter (Query.v);
     /repo ce05a6f (C09-base-choice) : a scheme-less reference is always resolved against the whole parent.
   The code as found is kept as [reencode_orig] (Query.v) and [norm_state_orig] (below). *)
From Coq Require Import List Ascii String NArith Bool.
From ZenoV Require Import Lib.Hex Url.Escape Url.Query Url.RefUrl.
Import ListNotations.
Open Scope char_scope.

Definition s_http := bs "http".
Definition s_https := bs "https".
Definition is_web (s : bytes) : bool := bytes_eqb s s_http || bytes_eqb s s_https.
Definition default_port (s : bytes) : bytes := if bytes_eqb s s_http then bs "80" else bs "443".

(* NormalizeURL's answers: the parsed URL it leaves in the object, or one of its errors *)
Inductive outcome :=
| Ok (u : url)
| ErrScheme      (* ErrUnsupportedScheme *)
| ErrHost        (* ErrUnsupportedHost *)
| ErrOther.      (* a parser refused the text *)

Definition omap (f : url -> url) (o : outcome) : outcome :=
  match o with Ok u => Ok (f u) | e => e end.

(* ---------- WHATWG pieces *)

Fixpoint strip0 (d : bytes) : bytes :=
  match d with
  | c :: (_ :: _) as r => if Ascii.eqb c "0" then strip0 r else d
  | _ => d
  end.

(* None = the URL is rejected (port above 65535) *)
Definition norm_port (scheme : bytes) (p : option bytes) : option (option bytes) :=
  match p with
  | None => Some None
  | Some [] => Some None
  | Some d => let s := strip0 d in
              if (65535 <? dec_val s)%N then None
              else if bytes_eqb s (default_port scheme) then Some None else Some (Some s)
  end.

Definition norm_user (u : option (bytes * option bytes)) : option (bytes * option bytes) :=
  match u with
  | None => None
  | Some (n, p) =>
    let p' := match p with Some [] => None | x => x end in
    match n, p' with
    | [], None => None
    | _, _ => Some (n, p')
    end
  end.

Definition is_dot (s : bytes) : bool :=
  bytes_eqb s (bs ".") || bytes_eqb (lower s) (bs "%2e").
Definition is_dotdot (s : bytes) : bool :=
  let l := lower s in
  bytes_eqb l (bs "..") || bytes_eqb l (bs ".%2e") || bytes_eqb l (bs "%2e.") || bytes_eqb l (bs "%2e%2e").
Definition dotseg (s : bytes) : bool := is_dot s || is_dotdot s.

(* the path state of the URL standard on a list of segments; [acc] is the output so far,
   reversed.  A dot segment in last position leaves a trailing slash. *)
Fixpoint rds (acc : list bytes) (p : list bytes) : list bytes :=
  match p with
  | [] => rev acc
  | s :: r =>
    if is_dotdot s then
      match r with [] => rev ([] :: tl acc) | _ => rds (tl acc) r end
    else if is_dot s then
      match r with [] => rev ([] :: acc) | _ => rds acc r end
    else rds (s :: acc) r
  end.
Definition remove_dots (p : list bytes) : list bytes :=
  match p with [] => [[]] | _ => rds [] p end.

(* Zeno's host checks on ada's Hostname() *)
Definition host_ok (h : list bytes) : bool :=
  negb (bytes_eqb (join "." h) (bs "localhost"))
  && negb (bytes_eqb (join "." h) (bs "127.0.0.1"))
  && contains "." (join "." h).

(* parse + SetHash("") + scheme check + host checks + Href + ParseRequestURI, on an in-grammar
   absolute URL.  The order of the error cases is the order of the code: ada's parse error
   first (port out of range), then the scheme, then the host. *)
Definition whatwg (u : url) : outcome :=
  let s := lower (u_scheme u) in
  match norm_port s (a_port (u_auth u)) with
  | None => ErrOther
  | Some p =>
    if negb (is_web s) then ErrScheme else
    let h := map lower (a_host (u_auth u)) in
    if host_ok h
    then Ok (Url s (Auth (norm_user (a_user (u_auth u))) h p) (remove_dots (u_path u))
                 (option_map ada_query_enc (u_query u)) None)
    else ErrHost
  end.

(* ---------- URLToString: the query pass *)

Definition exempt_hosts : list bytes :=
  [bs "external-preview.redd.it"; bs "styles.redditmedia.com"; bs "preview.redd.it"].
(* [switch URL.Host]: the test is on net/url's Host, i.e. host[:port] as written *)
Definition exempt (hostport : bytes) : bool := existsb (bytes_eqb hostport) exempt_hosts.

(* URL.RawQuery = encodeQuery(...); String() prints '?' when RawQuery != "" or ForceQuery
   (ForceQuery: the text had a bare trailing '?') *)
Definition canon_query (q : option bytes) : option bytes :=
  match q with
  | None => None
  | Some [] => Some []
  | Some x => match reencode x with [] => None | e => Some e end
  end.

Definition query_pass (hostport : bytes) (q : option bytes) : option bytes :=
  if exempt hostport then q else canon_query q.

Definition pass (hostport : bytes) (u : url) : url :=
  Url (u_scheme u) (u_auth u) (u_path u) (query_pass hostport (u_query u)) (u_frag u).

(* URL.String() on the parsed URL that NormalizeURL left behind (it also rewrites that parsed
   URL in place: a parent whose String() was called is [finish] of its state) *)
Definition finish (u : url) : url := pass (render_hostport (u_auth u)) u.

(* ---------- relative resolution (URL standard, relative / relative-slash / path states;
   the same table as RFC 3986 section 5.2.2 without the dot-segment step, which [whatwg] does) *)

Definition resolve (b : url) (r : ref) : url :=
  match r with
  | RAbs u => u
  | RSchemeRel a p q f => Url (u_scheme b) a p q f
  | RPathAbs p q f => Url (u_scheme b) (u_auth b) p q f
  | RPathRel p q f => Url (u_scheme b) (u_auth b) (removelast (u_path b) ++ p) q f
  | RQuery q f => Url (u_scheme b) (u_auth b) (u_path b) (Some q) f
  | RFrag f =>
    (* ada copies the base's query through its `search` getter, which is empty for a bare "?":
       an empty (non-null) base query is not carried over *)
    Url (u_scheme b) (u_auth b) (u_path b) (match u_query b with Some [] => None | q => q end) f
  end.

(* The code as found chose the base by looking at net/url's DECODED path of the reference:
     if strings.HasPrefix(parsedURL.Path, "/") { base = Scheme + "://" + Host } else { base = parent }
   so for a path-absolute reference the parent's credentials were dropped, and a path-relative
   reference whose first segment starts with an escaped slash (%2f) was resolved against the
   root instead of the parent's directory. *)
Definition slash_first (r : ref) : bool :=
  match r with
  | RPathAbs _ _ _ => true
  | RSchemeRel _ (_ :: _) _ _ => true
  | RPathRel (s :: _) _ _ => starts_with (bs "%2f") (lower s)
  | _ => false
  end.
Definition root_base (b : url) : url :=
  Url (u_scheme b) (Auth None (a_host (u_auth b)) (a_port (u_auth b))) [] None None.
Definition base_for (orig : bool) (b : url) (r : ref) : url :=
  if orig && slash_first r then root_base b else b.

(* ---------- the two flows *)

(* flow B on an absolute URL; [hp1] is net/url's Host at the time of the first URLToString *)
Definition flow_b (hp1 : bytes) (u : url) : outcome := whatwg (pass hp1 u).

Definition flow_a (orig : bool) (b : url) (r : ref) : outcome :=
  whatwg (resolve (base_for orig b r) r).

Fixpoint drop_empty (p : list bytes) : list bytes :=
  match p with [] :: r => drop_empty r | _ => p end.

(* net/url reads a scheme-less text without a parent as a path; with the default scheme put
   in front, ada then reads the first non-empty path segment as the host *)
Definition schemeless (p : list bytes) (q f : option bytes) : outcome :=
  match drop_empty p with
  | [] => ErrOther
  | h :: p' => flow_b [] (Url s_http (Auth None (split_on "." h) None) p' q f)
  end.

(* The state NormalizeURL leaves in the object.  [parent] is the parent's parsed state (a result
   of this function, or [finish] of one).  The empty reference is rejected:
   goada.New/NewWithBase return ErrEmptyString for it. *)
Definition norm_state_gen (orig : bool) (parent : option url) (r : ref) : outcome :=
  match r, parent with
  | RAbs u, _ => flow_b (render_hostport (u_auth u)) u
  | RSchemeRel a p q f, None => flow_b (render_hostport a) (Url s_http a p q f)
  | RPathRel p q f, None => schemeless p q f
  | RPathAbs p q f, None => schemeless p q f
  | RQuery _ _, None => ErrOther      (* "http:?q" *)
  | RFrag _, None => ErrOther         (* "http:" / "http:#f" *)
  | RFrag None, Some _ => ErrOther    (* ErrEmptyString *)
  | _, Some b => flow_a orig b r
  end.

(* the code after the repairs: the base is always the parent *)
Definition norm_state := norm_state_gen false.
(* the code as found (with the repaired encodeQuery) *)
Definition norm_state_orig := norm_state_gen true.

(* NormalizeURL followed by URL.String(): the canonical URL *)
Definition normalize (parent : option url) (r : ref) : outcome := omap finish (norm_state parent r).
Definition normalize_orig (parent : option url) (r : ref) : outcome := omap finish (norm_state_orig parent r).

(* ---------- a defect of the ada parser (goada 2025-01-04, url_aggregator::consume_prepared_path)
   When the path it has to consume contains dots but no '%', no '\' and no byte that needs
   encoding, does not begin with '.', and the FIRST "/." in it starts an ordinary segment such
   as ".a", ada takes the path for trivial and appends it verbatim - without looking for later
   "." or ".." segments - provided the URL has no path yet (an absolute URL, a scheme-relative or
   path-absolute reference, or a path-relative one whose base directory is the root).
   Example: http://a.b/x/.a/./y stays as it is.  The reference follows the URL standard; this
   class is outside the grammar and is reported as a known finding by the shape monitor. *)
Definition head_dot (s : bytes) : bool := match s with c :: _ => Ascii.eqb c "." | [] => false end.
Fixpoint first_dot_seg (p : list bytes) : option bytes :=
  match p with
  | [] => None
  | s :: r => if head_dot s then Some s else first_dot_seg r
  end.
Definition ada_misreads_path (p : list bytes) : bool :=
  negb (existsb (contains "%") p)
  && existsb dotseg p
  && match p with
     | [] => false
     | s0 :: r =>
       negb (head_dot s0)
       && match first_dot_seg r with
          | Some s => negb (bytes_eqb s (bs ".")) && negb (starts_with (bs "..") s)
          | None => false
          end
     end.

(* the path text ada consumes while the URL has no path yet *)
Definition consumed_path (parent : option url) (r : ref) : list bytes :=
  match r, parent with
  | RAbs u, _ => u_path u
  | RSchemeRel _ p _ _, _ => p
  | RPathAbs p _ _, Some _ => p
  | RPathRel p _ _, Some b => match removelast (u_path b) with [] => p | _ => [] end
  | RPathAbs p _ _, None | RPathRel p _ _, None => tl (drop_empty p)
  | _, _ => []
  end.

(* the reference without its fragment *)
Definition drop_frag (r : ref) : ref :=
  match r with
  | RAbs u => RAbs (Url (u_scheme u) (u_auth u) (u_path u) (u_query u) None)
  | RSchemeRel a p q _ => RSchemeRel a p q None
  | RPathAbs p q _ => RPathAbs p q None
  | RPathRel p q _ => RPathRel p q None
  | RQuery q _ => RQuery q None
  | RFrag _ => RFrag None
  end.
Definition is_frag_only (r : ref) : bool := match r with RFrag _ => true | _ => false end.

(* the canonical text of an accepted answer *)
Definition obs_text (o : outcome) : option bytes :=
  match o with Ok u => Some (render_url u) | _ => None end.

(* inputs the reference speaks about *)
Definition in_grammar (parent : option url) (r : ref) : bool :=
  wf_ref r && edge_ok (render_ref r) &&
  negb (ada_misreads_path (consumed_path parent r)) &&
  match r, parent with
  | RPathRel (h :: _) _ _, None => wf_host (split_on "." h)
  | RPathAbs (h :: _) _ _, None => wf_host (split_on "." h) || negb (nonempty h)
  | _, _ => true
  end.

(* ---------- the property's predicates on a result *)

Definition no_dots (p : list bytes) : bool := forallb (fun s => negb (dotseg s)) p.

Definition shape_ok (u : url) : bool :=
  is_web (u_scheme u) && host_ok (a_host (u_auth u))
  && match u_frag u with None => true | Some _ => false end
  && nonempty (u_path u) && no_dots (u_path u).
