(* C09 - the query part of URL.String(): Go's url.ParseQuery (as used by URL.Query(), errors
   ignored) and Zeno's encodeQuery (pkg/models/url.go).
   [encode_query_orig] is the code as found (it ranges over a Go map, so the iteration order is
   an extra argument); [encode_query] is the code after /repo commit 8ac6930
   (fixes/C09-query-order.diff: parameter by parameter, in source order). *)
From Coq Require Import List Ascii String NArith Bool.
From ZenoV Require Import Lib.Hex Url.Escape.
Import ListNotations.
Open Scope char_scope.

(* strings.Split(s, d): always at least one piece *)
Fixpoint split_on (d : ascii) (s : bytes) : list bytes :=
  match s with
  | [] => [[]]
  | c :: r =>
    if Ascii.eqb c d then [] :: split_on d r
    else match split_on d r with
         | x :: xs => (c :: x) :: xs
         | [] => [[c]]
         end
  end.

(* strings.Cut(s, d) without the found flag: (before, after) or (s, "") *)
Fixpoint cut (d : ascii) (s : bytes) : bytes * bytes :=
  match s with
  | [] => ([], [])
  | c :: r => if Ascii.eqb c d then ([], r) else let (a, b) := cut d r in (c :: a, b)
  end.

Definition contains (d : ascii) (s : bytes) : bool := existsb (Ascii.eqb d) s.

Fixpoint join (d : ascii) (l : list bytes) : bytes :=
  match l with
  | [] => []
  | [x] => x
  | x :: r => x ++ d :: join d r
  end.

Definition pair := (bytes * bytes)%type.

(* one '&'-separated piece of url.parseQuery: dropped when empty, when it contains ';' or when
   key or value has a bad escape *)
Definition parse_seg (seg : bytes) : list pair :=
  match seg with
  | [] => []
  | _ =>
    if contains ";" seg then []
    else let (k, v) := cut "=" seg in
         match query_unescape k, query_unescape v with
         | Some k', Some v' => [(k', v')]
         | _, _ => []
         end
  end.

(* the pairs of url.ParseQuery in SOURCE order (the Go function stores them in a map) *)
Definition parse_query (q : bytes) : list pair := flat_map parse_seg (split_on "&" q).

Definition enc_pair (p : pair) : bytes := query_escape (fst p) ++ "=" :: query_escape (snd p).

(* ---- after the fix: parameter by parameter, in source order *)
Definition encode_query (ps : list pair) : bytes := join "&" (map enc_pair ps).

(* URL.RawQuery = encodeQuery(URL.RawQuery) *)
Definition reencode (q : bytes) : bytes := encode_query (parse_query q).

(* ---- as found: url.Values is map[string][]string; m[key] = append(m[key], value) keeps the
   values of one key in source order, and `for k, vs := range v` visits the keys in an order
   chosen by the runtime.  [order] is that order: any permutation of the distinct keys. *)
Definition values_of (k : bytes) (ps : list pair) : list bytes :=
  map snd (filter (fun p => bytes_eqb (fst p) k) ps).

Fixpoint distinct_keys (ps : list pair) : list bytes :=
  match ps with
  | [] => []
  | (k, _) :: r => k :: filter (fun k' => negb (bytes_eqb k' k)) (distinct_keys r)
  end.

Definition encode_query_orig (order : list bytes) (ps : list pair) : bytes :=
  join "&" (flat_map (fun k => map (fun v => enc_pair (k, v)) (values_of k ps)) order).

Definition reencode_orig (order : list bytes) (q : bytes) : bytes :=
  encode_query_orig order (parse_query q).

(* ---- well-formed parameters (used by the statement of query_order_kept and by its monitor):
   a piece is well formed when it is not empty, has no '&' or ';', and its key and value
   unescape *)
Definition wf_seg (seg : bytes) : bool :=
  negb (match seg with [] => true | _ => false end) && negb (contains "&" seg)
  && negb (contains ";" seg)
  && match query_unescape (fst (cut "=" seg)), query_unescape (snd (cut "=" seg)) with
     | Some _, Some _ => true | _, _ => false end.

Definition decode_seg (seg : bytes) : pair :=
  match query_unescape (fst (cut "=" seg)), query_unescape (snd (cut "=" seg)) with
  | Some k, Some v => (k, v) | _, _ => ([], []) end.
