(* Non-vacuity: a concrete execution of the pipeline LTS with two workers and two seeds, one of
   which is fed back once (a page with two assets, one of them failing) before it is finished. *)
From ZenoV Require Import Tree.Item Stage.Pass Pipe.PipeLts.
Open Scope N_scope.

Definition ex_oracle1 : oracle :=
  Oracle (fun _ => POk 10 false false) (fun _ => false) (fun _ => false)
         (fun _ => Some (Resp false 0 true true [11; 12])).
Definition ex_oracle2 : oracle :=
  Oracle (fun id => POk (20 + id) false false) (fun _ => false) (fun _ => false)
         (fun id => if id =? 1 then Some (Resp false 0 true false []) else None).
Definition ex_oracle3 : oracle :=
  Oracle (fun _ => PNormFail) (fun _ => false) (fun _ => false) (fun _ => None).

Definition through (id : N) (o : oracle) : list label :=
  [LMove 0 id o; LMove 1 id o; LMove 2 id o; LMove 3 id o; LMove 4 id o; LMove 5 id o;
   LMove 6 id o; LMove 7 id o; LMove 8 id o; LFin id].

Definition ex_labels : list label :=
  [LInsert; LInsert] ++ through 7 ex_oracle1 ++ through 8 ex_oracle3 ++ through 7 ex_oracle2.

Definition ex_final := run (init 2 (Cfg 3 false false) [(7, 10, 0); (8, 30, 0)]) ex_labels.

Example ex_run_finishes :
  match ex_final with
  | Some s => map fst (p_finished s) = [8; 7] /\ p_table s = [] /\ p_tokens s = 0%nat
              /\ p_panicked s = false /\ forallb (fun x => no_pending (snd x)) (p_finished s) = true
              /\ forallb (fun l => match step s l with None => true | Some _ => false end)
                         [LInsert; LMove 0 7 null_oracle; LFin 7; LFin 8] = true
  | None => False
  end.
Proof. vm_compute. repeat split; reflexivity. Qed.

(* the seed that had children really went round the feedback loop *)
Example ex_feedback_happened :
  match run (init 2 (Cfg 3 false false) [(7, 10, 0); (8, 30, 0)]) ([LInsert; LInsert] ++ through 7 ex_oracle1) with
  | Some s => map s_id (place 0 s) = [8; 7] /\ p_finished s = []
  | None => False
  end.
Proof. vm_compute. repeat split; reflexivity. Qed.

(* the consumer's discard arm: three rows, the middle one is not a URL.  It is reported at once (second in the
   list of reports, before any seed has finished), takes no token and is never in the reactor's table; the run
   ends with every row reported exactly once *)
Definition ex_labels_discard : list label :=
  [LInsert; LDiscard; LInsert] ++ through 7 ex_oracle3 ++ through 9 ex_oracle3.

Example ex_discard :
  match run (init 2 (Cfg 3 false false) [(7, 10, 0); (8, 30, 0); (9, 40, 0)]) [LInsert; LDiscard] with
  | Some s => map row_id (p_src s) = [9] /\ p_table s = [7] /\ p_tokens s = 1%nat /\ flight_ids s = [7]
              /\ p_finished s = [(8, dead_leaf 30 0)]
  | None => False
  end
  /\ reports (init 2 (Cfg 3 false false) [(7, 10, 0); (8, 30, 0); (9, 40, 0)]) ex_labels_discard = [8; 7; 9]
  /\ match run (init 2 (Cfg 3 false false) [(7, 10, 0); (8, 30, 0); (9, 40, 0)]) ex_labels_discard with
     | Some s => p_src s = [] /\ p_table s = [] /\ p_tokens s = 0%nat /\ in_flight s = []
                 /\ forallb (fun l => match step s l with None => true | Some _ => false end)
                            [LInsert; LDiscard; LMove 0 8 null_oracle; LFin 8] = true
     | None => False
     end.
Proof. vm_compute. repeat split; reflexivity. Qed.
