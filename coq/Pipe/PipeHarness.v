(* Harness side of the pipeline LTS: the hook-event trace of ONE real crawl (real controler.Start /
   Stop, real stages, real local queue, in-process origin server) is replayed through
   PipeLts.step; monitors are evaluated on the observed events and tree snapshots only. *)
From ZenoV Require Import Lib.Harness Tree.Item Tree.ItemSpec Tree.TreeHarness Stage.Pass Stage.PassHarness Pipe.PipeLts.
Open Scope N_scope.

(* hook numbers: 1 pre.in 2 pre.done 3 arch.in 4 arch.done 5 post.in 6 post.done 7 fin.in
                 8 fin.feedback 9 fin.finished 10 fin.notified *)
Inductive gev :=
| GIns (sid url hops : N)          (* lq.inserted: ReceiveInsert returned for this row *)
| GPre (sid : N) (p : prec)        (* pre.done, with this pass' inferred oracle answers and the four observed trees *)
| GHook (sid k : N)                (* every other hook of a seed *)
| GFetch (sid url : N)             (* arch.fetch of a node of seed sid *)
| GDel (sid : N)                   (* lq.deleted *)
| GCapt (sid missing total : N)    (* at fin.finished (sync WARC mode): of the [total] responses the WARC writer acknowledged
                                      for this seed, [missing] are not readable from the WARC files on disk *)
| GOffer (sid : N)                 (* lq.insert: the queue's consumer is about to hand this row to ReceiveInsert *)
| GRep (sid url hops : N).         (* lq.delete, the first time a batch is seen there: the QUEUE holds a finish report for this row
                                      (one event per id of the batch; url/hops are the row's, for the replay).  This is the
                                      queue's side of "reported back": it sees the reports of the finisher AND those of the
                                      queue's own consumer, which finishes a row at once when its text is not a URL *)

Record ecase := EC {
  e_w : N;                  (* WorkersCount *)
  e_cfg : cfg;
  e_rows : list N;          (* ids of the rows in the queue at start *)
  e_events : list gev;
  e_complete : bool;        (* the crawl ran to quiescence and stop returned *)
  e_table_end : N;          (* size of the reactor state table at quiescence *)
  e_maxretry : N;           (* --max-retry *)
  e_wedged : bool;          (* the watchdog fired with seeds still tracked and no event at all for 35 s *)
  e_hopviol : N;            (* seeds fetched although more than --max-hops links away from the queue's rows (via chain) *)
  e_qwait : bool            (* the crawl was kept running until the queue had received a report for every row (or nothing at
                               all had moved for 20 s): at completion every row's report has been observed *)
}.

(* ---- replay through PipeLts.step ---- *)
Record acc := ACC { a_st : pst; a_cur : list (N * prec);
                    a_off : list N   (* rows offered to the reactor, inserted, or finished at once so far *) }.

Definition steps (s : pst) (ls : list label) : option pst := run s ls.

Definition tree_at (k : nat) (sid : N) (s : pst) : option item :=
  match take sid (place k s) with Some (x, _) => Some (s_tree x) | None => None end.

Definition check_tree (k : nat) (sid : N) (want : item) (s : pst) : option pst :=
  match tree_at k sid s with
  | Some t => if item_eqb t want then Some s else None
  | None => None
  end.

Definition bind {A B} (o : option A) (f : A -> option B) : option B :=
  match o with Some a => f a | None => None end.

Definition set_st_acc (a : acc) (s : pst) : acc := ACC s (a_cur a) (a_off a).

Definition astep (a : acc) (e : gev) : option acc :=
  let s := a_st a in
  match e with
  | GIns sid u h =>
    (* the harness presents the rows in the order in which they were inserted *)
    match p_src s with
    | (id, u', h') :: _ =>
      if (id =? sid) && (u' =? u) && (h' =? h) then bind (step s LInsert) (fun s' => Some (ACC s' (a_cur a) (sid :: a_off a))) else None
    | [] => None
    end
  | GOffer sid => Some (ACC s (a_cur a) (sid :: a_off a))
  | GRep sid u h =>
    (* a report for a row that was never offered to the reactor: the consumer's discard arm; any other report is
       the finisher's (carried by hook 9) or a repetition (the monitors' business) *)
    if existsb (N.eqb sid) (a_off a) then Some a else
    match p_src s with
    | (id, u', h') :: _ =>
      if (id =? sid) && (u' =? u) && (h' =? h) then bind (step s LDiscard) (fun s' => Some (ACC s' (a_cur a) (sid :: a_off a))) else None
    | [] => None
    end
  | GHook sid 1 =>
    bind (steps s [LMove 0 sid null_oracle; LMove 1 sid null_oracle; LMove 2 sid null_oracle])
         (fun s' => Some (set_st_acc a s'))
  | GPre sid p =>
    bind (step s (LMove 3 sid (oracle_of p)))
         (fun s' => bind (check_tree 4 sid (p_t_pre p) s')
         (fun s'' => Some (ACC s'' ((sid, p) :: a_cur a) (a_off a))))
  | GHook sid 3 => bind (step s (LMove 4 sid null_oracle)) (fun s' => Some (set_st_acc a s'))
  | GHook sid 4 =>
    match assoc sid (a_cur a) with
    | Some p => bind (step s (LMove 5 sid null_oracle))
                     (fun s' => bind (check_tree 6 sid (p_t_arch p) s') (fun s'' => Some (set_st_acc a s'')))
    | None => None
    end
  | GHook sid 5 => bind (step s (LMove 6 sid null_oracle)) (fun s' => Some (set_st_acc a s'))
  | GHook sid 6 =>
    match assoc sid (a_cur a) with
    | Some p => bind (step s (LMove 7 sid null_oracle))
                     (fun s' => bind (check_tree 8 sid (p_t_post p) s') (fun s'' => Some (set_st_acc a s'')))
    | None => None
    end
  | GHook sid 7 => bind (step s (LMove 8 sid null_oracle)) (fun s' => Some (set_st_acc a s'))
  | GHook sid 8 =>
    match assoc sid (a_cur a) with
    | Some p => bind (step s (LFin sid))
                     (fun s' => bind (check_tree 0 sid (p_t_fin p) s') (fun s'' => Some (set_st_acc a s'')))
    | None => None
    end
  | GHook sid 9 =>
    match assoc sid (a_cur a) with
    | Some p => bind (step s (LFin sid))
                     (fun s' => match assoc sid (p_finished s') with
                                | Some t => if item_eqb t (p_t_fin p) then Some (set_st_acc a s') else None
                                | None => None
                                end)
    | None => None
    end
  | GHook _ _ => Some a       (* pre.in is 1; 2 is carried by GPre; 10 (notified) has no counterpart *)
  | GFetch _ _ => Some a
  | GDel _ => Some a
  | GCapt _ _ _ => Some a
  end.

Fixpoint arun (a : acc) (es : list gev) : option acc :=
  match es with
  | [] => Some a
  | e :: r => match astep a e with Some a' => arun a' r | None => None end
  end.

(* rows in the order in which they left the queue: inserted, or finished at once (a report with no offer before it) *)
Fixpoint ins_rows_from (off : list N) (es : list gev) : list (N * N * N) :=
  match es with
  | [] => []
  | GIns sid u h :: r => (sid, u, h) :: ins_rows_from (sid :: off) r
  | GOffer sid :: r => ins_rows_from (sid :: off) r
  | GRep sid u h :: r => if existsb (N.eqb sid) off then ins_rows_from off r else (sid, u, h) :: ins_rows_from (sid :: off) r
  | _ :: r => ins_rows_from off r
  end.
Definition ins_rows (es : list gev) : list (N * N * N) := ins_rows_from [] es.

(* capacities cannot be observed through hooks (a hook fires before the send that may block),
   so the replay runs with channel capacity = WorkersCount + number of rows; the token bound is
   monitored separately (mon_bounded) *)
Definition replay_ok (c : ecase) : bool :=
  let rows := ins_rows (e_events c) in
  let s0 := init (N.to_nat (e_w c) + length rows) (e_cfg c) rows in
  match arun (ACC s0 [] []) (e_events c) with
  | Some a => negb (e_complete c) ||
              (match p_src (a_st a) with [] => true | _ => false end
               && match p_table (a_st a) with [] => true | _ => false end
               && Nat.eqb (length (p_finished (a_st a))) (length rows))
  | None => false
  end.

Definition diff_case (c : ecase) : bool := negb (replay_ok c) || e_wedged c.   (* the model has no stuck state with seeds in flight (deadlock freedom) *)
Definition diffs (l : list ecase) := bad_idx diff_case l.

(* ---- monitors, on the observed events only ---- *)
Definition count_ev (f : gev -> bool) (es : list gev) : nat := length (filter f es).
Definition is_hook (sid k : N) (e : gev) : bool :=
  match e with GHook s k' => (s =? sid) && (k' =? k) | _ => false end.
Definition is_del (sid : N) (e : gev) : bool := match e with GDel s => s =? sid | _ => false end.
Definition is_ins (sid : N) (e : gev) : bool := match e with GIns s _ _ => s =? sid | _ => false end.
Definition is_rep (sid : N) (e : gev) : bool := match e with GRep s _ _ => s =? sid | _ => false end.
Definition is_offer (sid : N) (e : gev) : bool := match e with GOffer s => s =? sid | _ => false end.
(* the row's first report precedes every offer / insert of it: the queue's consumer finished it at once *)
Definition rep_first (sid : N) (es : list gev) : bool :=
  match find (fun e => is_rep sid e || is_offer sid e || is_ins sid e) es with Some (GRep _ _ _) => true | _ => false end.

(* m0: every queue row is reported finished exactly once (after a complete run), never twice *)
Definition mon_once (c : ecase) : bool :=
  forallb (fun sid =>
    let nf := count_ev (is_hook sid 9) (e_events c) in
    let nn := count_ev (is_hook sid 10) (e_events c) in
    let nd := count_ev (is_del sid) (e_events c) in
    let ni := count_ev (is_ins sid) (e_events c) in
    Nat.leb nf 1 && Nat.leb nn 1 && Nat.leb nd 1 && Nat.leb ni 1 && Nat.leb nn nf && Nat.leb nf ni
    && (if rep_first sid (e_events c) then Nat.eqb nf 0 && Nat.eqb nn 0 && Nat.eqb ni 0   (* finished at once: the finisher never sees it *)
        else negb (e_complete c) || (Nat.eqb nf 1 && Nat.eqb nn 1 && Nat.eqb ni 1))) (e_rows c).

(* m1: finished only when no node awaits fetching or post-processing; fed back only when one does *)
Definition mon_done (c : ecase) : bool :=
  forallb (fun e => match e with
                    | GPre _ p => match p_dec p with
                                  | DFinish => no_pending (p_t_fin p)
                                  | DFeedback => negb (no_pending (p_t_fin p))
                                  end
                    | _ => true end) (e_events c).

(* m2: nothing is fetched for a seed after it was reported finished *)
Fixpoint no_fetch_after (fin : list N) (es : list gev) : bool :=
  match es with
  | [] => true
  | GHook sid 9 :: r => no_fetch_after (sid :: fin) r
  | GFetch sid _ :: r => negb (existsb (N.eqb sid) fin) && no_fetch_after fin r
  | _ :: r => no_fetch_after fin r
  end.
Definition mon_no_late_fetch (c : ecase) : bool := no_fetch_after [] (e_events c).

(* m3: every node for which a request was built is fetched before its pass ends, hence before the
   finish: between a seed's pre.done and its arch.done there is an arch.fetch for each of them *)
Fixpoint preprocessed_urls (t : item) : list N :=
  match t with Node i cs =>
    (if status_eqb (nst i) PreProcessed then [nurl i] else []) ++ flat_map preprocessed_urls cs end.
Fixpoint fetched_until_archdone (sid : N) (es : list gev) : list N :=
  match es with
  | [] => []
  | GHook s 4 :: r => if s =? sid then [] else fetched_until_archdone sid r
  | GFetch s u :: r => if s =? sid then u :: fetched_until_archdone sid r else fetched_until_archdone sid r
  | _ :: r => fetched_until_archdone sid r
  end.
Fixpoint all_fetched (es : list gev) : bool :=
  match es with
  | [] => true
  | GPre sid p :: r =>
    (negb (existsb (is_hook sid 4) r)   (* run was cut before the archiver finished this pass *)
     || forallb (fun u => existsb (N.eqb u) (fetched_until_archdone sid r)) (preprocessed_urls (p_t_pre p)))
    && all_fetched r
  | _ :: r => all_fetched r
  end.
Definition mon_all_fetched (c : ecase) : bool := all_fetched (e_events c).

(* m4: never more seeds in flight than tokens.  A seed certainly holds a token from the return of
   ReceiveInsert (GIns) until its last fin.in (the hook before MarkAsFinished) *)
Definition last_fin_in (sid : N) (es : list gev) : bool :=   (* is there a later fin.in of sid? *)
  existsb (is_hook sid 7) es.
Fixpoint bounded (w : nat) (held : list N) (es : list gev) : bool :=
  match es with
  | [] => true
  | GIns sid _ _ :: r => Nat.leb (S (length held)) w && bounded w (sid :: held) r
  | GHook sid 7 :: r =>
    if last_fin_in sid r then bounded w held r
    else bounded w (filter (fun x => negb (x =? sid)) held) r
  | _ :: r => bounded w held r
  end.
Definition mon_bounded (c : ecase) : bool := bounded (N.to_nat (e_w c)) [] (e_events c).

(* m5: at quiescence the reactor tracks no seed *)
Definition mon_idle (c : ecase) : bool := negb (e_complete c) || (e_table_end c =? 0).

(* m6: well-formed at every stage boundary *)
Definition mon_wf (c : ecase) : bool :=
  forallb (fun e => match e with
                    | GPre _ p => forallb (fun t => Nat.eqb (check_consistency t) 0 && nodupN (ids t))
                                          [p_t_pre p; p_t_arch p; p_t_post p; p_t_fin p]
                    | _ => true end) (e_events c).

(* m7: a seed is in one place at a time: its hooks follow the cycle
   ins, (1 2 3 4 5 6 7 8)*, 1 2 3 4 5 6 7 9 10 *)
Definition hook_no (sid : N) (e : gev) : option N :=
  match e with
  | GIns s _ _ => if s =? sid then Some 0 else None
  | GPre s _ => if s =? sid then Some 2 else None
  | GHook s k => if s =? sid then Some k else None
  | _ => None
  end.
Fixpoint cycle_ok (prev : option N) (ks : list N) : bool :=
  match ks with
  | [] => true
  | k :: r =>
    (match prev with
     | None => k =? 0
     | Some 0 => k =? 1
     | Some 7 => (k =? 8) || (k =? 9)
     | Some 8 => k =? 1
     | Some 9 => k =? 10
     | Some 10 => false
     | Some p => k =? p + 1
     end) && cycle_ok (Some k) r
  end.
Definition seq_of (sid : N) (es : list gev) : list N :=
  flat_map (fun e => match hook_no sid e with Some k => [k] | None => [] end) es.
Definition mon_one_place (c : ecase) : bool :=
  forallb (fun sid => cycle_ok None (seq_of sid (e_events c))) (e_rows c).

(* m8 (C06): within one visit a URL is attempted at most max-retry + 1 times *)
Definition count_N (u : N) (l : list N) : nat := length (filter (N.eqb u) l).
Fixpoint attempts_ok (mr : nat) (es : list gev) : bool :=
  match es with
  | [] => true
  | GPre sid p :: r =>
    let fetched := fetched_until_archdone sid r in
    let built := preprocessed_urls (p_t_pre p) in
    forallb (fun u => Nat.leb (count_N u fetched) (S mr * count_N u built)) fetched && attempts_ok mr r
  | _ :: r => attempts_ok mr r
  end.
Definition mon_attempts (c : ecase) : bool := attempts_ok (N.to_nat (e_maxretry c)) (e_events c).

(* m9 (C06): no redirect chain longer than max-redirect, no pending node deeper than 3 asset levels *)
Definition mon_bounds (c : ecase) : bool :=
  forallb (fun e => match e with
                    | GPre _ p => forallb (fun t => redir_chain_ok (max_redirect (e_cfg c)) t
                                                    && (domains_crawl (e_cfg c) || pending_depth_ok (dwr_seed t) t))
                                          [p_t_pre p; p_t_arch p; p_t_post p; p_t_fin p]
                    | _ => true end) (e_events c).

(* m10 (C02): when a seed is reported finished every accepted response fetched for it is in the WARC files *)
Definition mon_captured_at_finish (c : ecase) : bool :=
  forallb (fun e => match e with GCapt _ m _ => m =? 0 | _ => true end) (e_events c).

(* m11: no seed is dropped by getting stuck: the crawl never sits with tracked seeds and nothing moving *)
Definition mon_not_wedged (c : ecase) : bool := negb (e_wedged c).

(* m12 (C06, end to end): no seed is fetched that is more than --max-hops links away from the rows of the queue - the hop
   count survives the round trip through the queue (Stage/Outlinks.v: an outlink is queued with hops + 1 and only below the limit) *)
Definition mon_hop_bound (c : ecase) : bool := e_hopviol c =? 0.

(* m13: exactly once AT THE QUEUE (PipeProofs.reports_exactly_once, reported_never_again, discarded_row_never_in_pipeline): the
   queue receives at most one finish report per row - exactly one once the crawl has come to rest - whoever sends it (the
   finisher, or the queue's own consumer for a row whose text is not a URL); and a row that has been reported is out of the
   pipeline: no offer to the reactor, no insert, no stage hook up to fin.finished, no fetch for it after its report.
   (fin.notified is logged by the finisher AFTER its send on the finish channel and may follow the queue's event.) *)
Definition in_pipeline_ev (sid : N) (e : gev) : bool :=
  match e with
  | GOffer s | GIns s _ _ | GPre s _ | GFetch s _ => s =? sid
  | GHook s k => (s =? sid) && (k <=? 9)
  | _ => false
  end.
Fixpoint after_first_rep (sid : N) (es : list gev) : list gev :=
  match es with [] => [] | e :: r => if is_rep sid e then r else after_first_rep sid r end.
Definition mon_queue_once (c : ecase) : bool :=
  forallb (fun sid =>
    let nr := count_ev (is_rep sid) (e_events c) in
    Nat.leb nr 1
    && (negb (e_complete c && e_qwait c) || Nat.eqb nr 1)
    && negb (existsb (in_pipeline_ev sid) (after_first_rep sid (e_events c)))) (e_rows c).

Definition mons (l : list ecase) :=
  mon_idx [mon_once; mon_done; mon_no_late_fetch; mon_all_fetched; mon_bounded; mon_idle; mon_wf; mon_one_place;
           mon_attempts; mon_bounds; mon_captured_at_finish; mon_not_wedged; mon_hop_bound; mon_queue_once] l.
