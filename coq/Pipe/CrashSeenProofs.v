(* Proofs about Pipe/CrashSeen.v (C04, the model with the seen-store and the per-seed fetch). *)
From ZenoV Require Import Pipe.CrashLts Pipe.CrashProofs Pipe.CrashSeen.
Open Scope N_scope.

Lemma remove_all_In x xs l : In x (remove_all xs l) <-> In x l /\ ~ In x xs.
Proof.
  unfold remove_all. rewrite filter_In. split.
  - intros [H1 H2]. split; auto. intros H. apply mem_In in H. rewrite H in H2. discriminate.
  - intros [H1 H2]. split; auto. destruct (mem x xs) eqn:E; auto. apply mem_In in E. contradiction.
Qed.

Definition srow_ids (s : sst) : list N := map r_id (s_rows s).

(* what "captured" can mean for a seed that is durably finished *)
Definition accounted (s : sst) (i : N) : Prop :=
  In i (s_warc s) \/ In i (s_failed s) \/ (s_sc s = true /\ In i (s_lostpre s)).

Record SInv (s : sst) : Prop := {
  si_done : forall i, In i (s_done s) -> In i (s_warc s) \/ In i (s_failed s);
  si_skip : forall i, In i (s_skip s) -> s_sc s = true /\ In i (s_seen s) /\ ~ In i (s_new s);
  si_seen : s_sc s = true -> forall i, In i (s_seen s) -> accounted s i \/ In i (s_new s);
  si_pend : forall i, In i (s_pend s) -> accounted s i;
  si_deleted : forall i, In i (s_deleted s) -> accounted s i;
  si_new_flight : forall i, In i (s_new s) -> In i (s_flight s);
  si_down : s_up s = false -> s_buf s = [] /\ s_flight s = [] /\ s_pend s = [] /\ s_new s = [] /\ s_skip s = [] /\ s_done s = []
}.

Lemma sinit_inv sc ids : SInv (sinit sc ids).
Proof. constructor; simpl; try tauto; try discriminate. Qed.

Ltac cond H :=
  match type of H with
  | (if ?b then _ else _) = _ => let E := fresh "E" in destruct b eqn:E; [|discriminate]
  end.

Ltac bools :=
  repeat match goal with
  | H : _ && _ = true |- _ => apply andb_prop in H; destruct H
  | H : _ || _ = true |- _ => apply orb_prop in H
  | H : negb _ = true |- _ => apply negb_true_iff in H
  | H : mem _ _ = true |- _ => apply mem_In in H
  end.

Lemma not_mem x l : mem x l = false -> ~ In x l.
Proof. intros H Hi. apply mem_In in Hi. congruence. Qed.

Lemma accounted_mono s s' i :
  s_sc s' = s_sc s ->
  (forall j, In j (s_warc s) -> In j (s_warc s')) ->
  (forall j, In j (s_failed s) -> In j (s_failed s')) ->
  (forall j, In j (s_lostpre s) -> In j (s_lostpre s')) ->
  accounted s i -> accounted s' i.
Proof. unfold accounted. intros E W F L [H|[H|[H1 H2]]]; auto. right; right. rewrite E. auto. Qed.

Lemma sstep_inv s l s' : SInv s -> sstep s l = Some s' -> SInv s'.
Proof.
  intros [D K S P X NF W] HS.
  destruct l; simpl in HS; cond HS.
  - (* claim *) inversion HS; subst; clear HS. constructor; simpl; auto; try discriminate.
  - (* insert *) inversion HS; subst; clear HS. constructor; simpl; auto; try discriminate.
  - (* pre *) bools.
    match goal with H : mem id (s_new s) = false |- _ => apply not_mem in H; rename H into Nn end.
    match goal with H : mem id (s_skip s) = false |- _ => apply not_mem in H; rename H into Nk end.
    destruct (s_sc s && mem id (s_seen s)) eqn:Q; inversion HS; subst; clear HS.
    + bools. constructor; simpl; auto; try discriminate.
      intros i [Hi|Hi]; [subst; auto|apply K; auto].
    + constructor; simpl; auto; try discriminate.
      * intros i Hi. destruct (K i Hi) as (A & B & C). repeat split; auto.
        { destruct (s_sc s); [right|]; auto. }
        intros [Y|Y]; [subst; contradiction|contradiction].
      * intros Sc i Hi. rewrite Sc in Hi. destruct Hi as [Hi|Hi]; [subst; right; left; reflexivity|].
        destruct (S Sc i Hi) as [A|A]; [left; exact A|right; right; exact A].
      * intros i [Hi|Hi]; [subst; assumption|auto].
  - (* capture *) bools. inversion HS; subst; clear HS. constructor; simpl; auto; try discriminate.
    + intros i [Hi|Hi]; [subst; left; apply in_or_app; right; left; reflexivity|].
      destruct (D i Hi); [left; apply in_or_app; auto|auto].
    + intros Sc i Hi. destruct (S Sc i Hi) as [A|A]; [left|right; auto].
      eapply accounted_mono; [| | | |exact A]; simpl; auto. intros j Hj. apply in_or_app; auto.
    + intros i Hi. eapply accounted_mono; [| | | |exact (P i Hi)]; simpl; auto. intros j Hj. apply in_or_app; auto.
    + intros i Hi. eapply accounted_mono; [| | | |exact (X i Hi)]; simpl; auto. intros j Hj. apply in_or_app; auto.
  - (* fail *) bools. inversion HS; subst; clear HS. constructor; simpl; auto; try discriminate.
    + intros i [Hi|Hi]; [subst; right; left; reflexivity|]. destruct (D i Hi); auto.
    + intros Sc i Hi. destruct (S Sc i Hi) as [A|A]; [left|right; auto].
      eapply accounted_mono; [| | | |exact A]; simpl; auto.
    + intros i Hi. eapply accounted_mono; [| | | |exact (P i Hi)]; simpl; auto.
    + intros i Hi. eapply accounted_mono; [| | | |exact (X i Hi)]; simpl; auto.
  - (* finish *) bools. inversion HS; subst; clear HS.
    assert (G : accounted s id).
    { match goal with HH : _ \/ _ |- _ => destruct HH as [Hd|Hk] end.
      - apply mem_In in Hd. destruct (D id Hd) as [A|A]; [left|right; left]; exact A.
      - apply mem_In in Hk. destruct (K id Hk) as (Sc & Hs & Nn). destruct (S Sc id Hs) as [A|A]; [exact A|contradiction]. }
    constructor; simpl; auto; try discriminate.
    + intros i Hi. apply remove_all_In in Hi. apply D. tauto.
    + intros i Hi. apply remove_all_In in Hi. destruct Hi as [Hi Ni]. destruct (K i Hi) as (A & B & C).
      repeat split; auto. intros Y. apply remove_all_In in Y. tauto.
    + intros Sc i Hi. destruct (S Sc i Hi) as [A|A]; [left; exact A|].
      destruct (N.eq_dec i id) as [Y|Y]; [subst; left; exact G|].
      right. apply remove_all_In. split; auto. intros [Z|[]]. congruence.
    + intros i [Hi|Hi]; [subst; exact G|apply P; auto].
    + intros i Hi. apply remove_all_In in Hi. destruct Hi as [Hi Ni]. apply remove_all_In. split; auto.
  - (* delete *) bools. inversion HS; subst; clear HS. constructor; simpl; auto; try discriminate.
    + intros i Hi. apply remove_all_In in Hi. apply P. tauto.
    + intros i Hi. apply in_app_or in Hi. destruct Hi as [Hi|Hi]; [|apply X; auto].
      match goal with H : forallb _ ids = true |- _ => rewrite forallb_forall in H; specialize (H i Hi) end.
      bools. apply P. assumption.
  - (* crash *) inversion HS; subst; clear HS.
    assert (A : forall i, accounted s i -> accounted
       (SST (s_sc s) (s_rows s) (s_seen s) (s_warc s) [] [] [] [] [] [] (s_failed s) (s_deleted s)
            (remove_all (s_done s) (s_new s) ++ s_lostpre s) false) i).
    { intros i. apply accounted_mono; simpl; auto. intros j Hj. apply in_or_app; auto. }
    constructor; simpl; auto; try tauto.
    + intros Sc i Hi. left. destruct (S Sc i Hi) as [G|G]; [apply A; exact G|].
      destruct (in_dec N.eq_dec i (s_done s)) as [Y|Y].
      * destruct (D i Y) as [Z|Z]; [left|right; left]; exact Z.
      * right; right. simpl. split; auto. apply in_or_app. left. apply remove_all_In. tauto.
  - (* stop *) inversion HS; subst; clear HS.
    constructor; simpl; auto; try tauto.
    + intros Sc i Hi. left. destruct (S Sc i Hi) as [G|G].
      * unfold accounted in *. simpl. destruct G as [G|[G|[G1 G2]]]; auto. right; right. split; auto. apply in_or_app; auto.
      * destruct (in_dec N.eq_dec i (s_done s)) as [Y|Y].
        { destruct (D i Y) as [Z|Z]; [left|right; left]; exact Z. }
        right; right. simpl. split; auto. apply in_or_app. left. apply remove_all_In. tauto.
    + intros i Hi. unfold accounted in *. simpl.
      destruct (X i Hi) as [G|[G|[G1 G2]]]; auto. right; right. split; auto. apply in_or_app; auto.
  - (* restart *) apply negb_true_iff in E. destruct (W E) as (B1 & B2 & B3 & B4 & B5 & B6).
    inversion HS; subst; clear HS. constructor; simpl; auto; try tauto; try discriminate.
    intros Sc i Hi. destruct (S Sc i Hi) as [G|G]; [left; exact G|rewrite B4 in G; destruct G].
Qed.

Theorem srun_inv ls : forall s s', SInv s -> srun s ls = Some s' -> SInv s'.
Proof.
  induction ls as [|l r IH]; intros s s' I H; simpl in H.
  - inversion H; subst; auto.
  - destruct (sstep s l) as [s1|] eqn:E; [|discriminate]. apply (IH s1); [eapply sstep_inv; eauto|exact H].
Qed.

Lemma sstep_sc s l s' : sstep s l = Some s' -> s_sc s' = s_sc s.
Proof.
  intros HS. destruct l; simpl in HS; cond HS; try (inversion HS; subst; reflexivity).
  destruct (s_sc s && mem id (s_seen s)); inversion HS; subst; reflexivity.
Qed.
Lemma srun_sc ls : forall s s', srun s ls = Some s' -> s_sc s' = s_sc s.
Proof.
  induction ls as [|l r IH]; intros s s' H; simpl in H.
  - inversion H; reflexivity.
  - destruct (sstep s l) as [s1|] eqn:E; [|discriminate]. rewrite (IH _ _ H). eapply sstep_sc; eauto.
Qed.

(* Finished implies captured, seed by seed, along every history with kills, stops and restarts:
   a row is deleted only for a seed whose own URL has a complete response record on disk, or whose
   URL the origin failed for good - or, with the local seencheck on, for a seed that a kill or stop
   caught between the seen-store write and its capture. *)
Theorem deleted_accounted : forall sc ids ls s,
  srun (sinit sc ids) ls = Some s ->
  forall i, In i (s_deleted s) ->
    In i (s_warc s) \/ In i (s_failed s) \/ (sc = true /\ In i (s_lostpre s)).
Proof.
  intros sc ids ls s H i Hi.
  pose proof (srun_inv ls _ _ (sinit_inv sc ids) H) as I.
  pose proof (srun_sc ls _ _ H) as Sc. simpl in Sc.
  destruct (si_deleted s I i Hi) as [A|[A|[A B]]]; auto. right; right. split; congruence.
Qed.

(* --disable-seencheck: finished implies captured holds without exception *)
Theorem deleted_captured_without_seencheck : forall ids ls s,
  srun (sinit false ids) ls = Some s ->
  forall i, In i (s_deleted s) -> In i (s_warc s) \/ In i (s_failed s).
Proof.
  intros ids ls s H i Hi. destruct (deleted_accounted false ids ls s H i Hi) as [A|[A|[A _]]]; auto. discriminate.
Qed.

(* ... and without a kill or stop it holds with the seencheck as well: the exception needs an
   interrupted run *)
Definition interrupts (ls : list slabel) : bool :=
  existsb (fun l => match l with SCrash | SStop => true | _ => false end) ls.

Lemma sstep_lostpre s l s' : sstep s l = Some s' ->
  match l with SCrash | SStop => True | _ => s_lostpre s' = s_lostpre s end.
Proof.
  intros HS. destruct l; auto; simpl in HS; cond HS; try (inversion HS; subst; reflexivity).
  destruct (s_sc s && mem id (s_seen s)); inversion HS; subst; reflexivity.
Qed.
Lemma srun_lostpre ls : forall s s', srun s ls = Some s' -> interrupts ls = false -> s_lostpre s' = s_lostpre s.
Proof.
  induction ls as [|l r IH]; intros s s' H N; simpl in H.
  - inversion H; reflexivity.
  - destruct (sstep s l) as [s1|] eqn:E; [|discriminate]. unfold interrupts in N. simpl in N.
    apply orb_false_iff in N. destruct N as [N1 N2]. rewrite (IH _ _ H N2).
    pose proof (sstep_lostpre _ _ _ E) as L. destruct l; auto; discriminate.
Qed.

Theorem deleted_captured_uninterrupted : forall sc ids ls s,
  srun (sinit sc ids) ls = Some s -> interrupts ls = false ->
  forall i, In i (s_deleted s) -> In i (s_warc s) \/ In i (s_failed s).
Proof.
  intros sc ids ls s H N i Hi. destruct (deleted_accounted sc ids ls s H i Hi) as [A|[A|[_ A]]]; auto.
  rewrite (srun_lostpre ls _ _ H N) in A. destruct A.
Qed.

(* The exception is real (known finding seen-write-ahead): with the seencheck on, a seed that is
   pre-processed, killed before its fetch, and resumed is skipped as seen, reported finished and
   deleted with no record and no failure. *)
Lemma seen_write_ahead_witness :
  exists ls s, srun (sinit true [1]) ls = Some s /\ In 1 (s_deleted s) /\ s_rows s = []
               /\ s_warc s = [] /\ s_failed s = [] /\ s_lostpre s = [1].
Proof.
  exists [SClaim [1]; SInsert 1; SPre 1; SCrash; SRestart; SClaim [1]; SInsert 1; SPre 1; SFinish 1; SDelete [1]].
  eexists. split; [vm_compute; reflexivity|]. simpl. repeat split; auto.
Qed.

(* ---- refinement: the first model (CrashLts) simulates this one, so its theorems carry over ---- *)
Definition pair_up (l : list N) : list (N * N) := map (fun i => (i, i)) l.

Definition abs (s : sst) : cst :=
  CST true (s_rows s) (pair_up (s_warc s)) false (s_buf s) (s_flight s) (s_pend s) (rev (pair_up (s_warc s))) (s_deleted s) (s_up s).

Definition abs_label (l : slabel) : list label :=
  match l with
  | SClaim ids => [LClaim ids]
  | SInsert id => [LInsert id]
  | SPre _ => []
  | SCapture id => [LWrite id id; LAck id id]
  | SFail _ => []
  | SFinish id => [LFinish id]
  | SDelete ids => [LDelete ids]
  | SCrash => [LCrash false]
  | SStop => [LStop]
  | SRestart => [LRestart]
  end.

Lemma pair_up_app a b : pair_up (a ++ b) = pair_up a ++ pair_up b.
Proof. unfold pair_up. apply map_app. Qed.

Lemma memp_last l id : memp (id, id) (l ++ [(id, id)]) = true.
Proof. apply memp_In. apply in_or_app. right. left. reflexivity. Qed.

Ltac split_and :=
  repeat match goal with H : _ && _ = true |- _ => apply andb_prop in H; destruct H end.
Ltac use_true :=
  repeat match goal with H : ?b = true |- context [?b] => rewrite H end.

Lemma sstep_refines s l s' : SInv s -> sstep s l = Some s' -> run (abs s) (abs_label l) = Some (abs s').
Proof.
  intros I HS. destruct l; simpl in HS; cond HS; unfold abs; simpl; split_and.
  - inversion HS; subst; clear HS. simpl. use_true. reflexivity.
  - inversion HS; subst; clear HS. simpl. use_true. reflexivity.
  - destruct (s_sc s && mem id (s_seen s)); inversion HS; subst; clear HS; simpl; use_true; reflexivity.
  - inversion HS; subst; clear HS. simpl.
    match goal with M : mem id (s_new s) = true |- _ =>
      apply mem_In in M; apply (si_new_flight s I) in M; apply mem_In in M end.
    use_true. simpl. rewrite pair_up_app. simpl. rewrite memp_last, rev_unit. reflexivity.
  - inversion HS; subst; clear HS. simpl. use_true. reflexivity.
  - inversion HS; subst; clear HS. simpl. use_true. reflexivity.
  - inversion HS; subst; clear HS. simpl. use_true. reflexivity.
  - inversion HS; subst; clear HS. simpl. use_true. reflexivity.
  - inversion HS; subst; clear HS. simpl. use_true. reflexivity.
  - inversion HS; subst; clear HS. simpl. rewrite E. reflexivity.
Qed.

Lemma run_app ls1 : forall ls2 s s1 s2, run s ls1 = Some s1 -> run s1 ls2 = Some s2 -> run s (ls1 ++ ls2) = Some s2.
Proof.
  induction ls1 as [|l r IH]; intros ls2 s s1 s2 H1 H2; simpl in *.
  - inversion H1; subst. exact H2.
  - destruct (step s l) as [t|]; [|discriminate]. eapply IH; eauto.
Qed.

Theorem srun_refines ls : forall s s', SInv s -> srun s ls = Some s' ->
  run (abs s) (flat_map abs_label ls) = Some (abs s').
Proof.
  induction ls as [|l r IH]; intros s s' I H; simpl in H.
  - inversion H; subst. reflexivity.
  - destruct (sstep s l) as [s1|] eqn:E; [|discriminate]. simpl.
    eapply run_app; [eapply sstep_refines; eauto|]. apply IH; [eapply sstep_inv; eauto|exact H].
Qed.

Lemma abs_init sc ids : abs (sinit sc ids) = init true ids.
Proof. reflexivity. Qed.

Theorem second_refines_first : forall sc ids ls s,
  srun (sinit sc ids) ls = Some s ->
  run (init true ids) (flat_map abs_label ls) = Some (abs s).
Proof. intros sc ids ls s H. rewrite <- (abs_init sc ids). apply srun_refines; [apply sinit_inv|exact H]. Qed.

(* consequences carried over from the first model: rows are never lost except by the deletion of a
   finished seed, a deleted row never comes back, and after a restart every remaining row is FRESH *)
Theorem rows_never_lost : forall sc ids ls s,
  srun (sinit sc ids) ls = Some s ->
  (forall i, In i ids -> In i (srow_ids s) \/ In i (s_deleted s))
  /\ (forall i, In i (s_deleted s) -> ~ In i (srow_ids s)).
Proof.
  intros sc ids ls s H.
  pose proof (srun_refines ls _ _ (sinit_inv sc ids) H) as R. rewrite abs_init in R.
  destruct (finished_implies_captured true ids _ _ R) as (_ & B & C). split; [exact B|exact C].
Qed.

Theorem restart_all_fresh : forall sc ids ls s s',
  srun (sinit sc ids) ls = Some s -> sstep s SRestart = Some s' ->
  forallb (fun r => negb (r_claimed r)) (s_rows s') = true /\ srow_ids s' = srow_ids s.
Proof.
  intros sc ids ls s s' H HS. simpl in HS. destruct (negb (s_up s)); [|discriminate]. inversion HS; subst; clear HS.
  unfold srow_ids. simpl. split; [|apply reset_ids].
  induction (s_rows s) as [|r rs IH]; simpl; auto.
Qed.

(* a resumed row is really crawled again: in every run a seed is reported finished only after its own
   URL was dealt with in THAT run (captured or failed), unless the seen-store said "seen" *)
Theorem finish_needs_fetch_in_this_run : forall sc ids ls s id s',
  srun (sinit sc ids) ls = Some s -> sstep s (SFinish id) = Some s' ->
  In id (s_done s) \/ (sc = true /\ In id (s_seen s)).
Proof.
  intros sc ids ls s id s' H HS.
  pose proof (srun_inv ls _ _ (sinit_inv sc ids) H) as I.
  pose proof (srun_sc ls _ _ H) as Sc. simpl in Sc.
  simpl in HS. cond HS. bools.
  match goal with HH : _ \/ _ |- _ => destruct HH as [Hd|Hk] end.
  - left. apply mem_In in Hd. exact Hd.
  - right. apply mem_In in Hk. destruct (si_skip s I id Hk) as (A & B & _). split; [congruence|exact B].
Qed.

(* non-vacuity / example: three rows, the kill catches 2 after its capture and 3 after the
   seen-store write only; after the restart 2 is skipped with its record on disk, 3 is lost *)
Lemma crash_seen_example :
  match srun (sinit true [1; 2; 3])
     [SClaim [1; 2; 3]; SInsert 1; SInsert 2; SInsert 3; SPre 1; SPre 2; SPre 3; SCapture 1; SFinish 1; SDelete [1];
      SCapture 2; SCrash; SRestart] with
  | Some s => match drive s [2; 3] with
              | Some s2 => s_warc s2 = [1; 2] /\ s_lostpre s2 = [3] /\ s_pend s2 = [3; 2] /\ s_deleted s2 = [1]
              | None => False
              end
  | None => False
  end.
Proof. vm_compute. repeat split; reflexivity. Qed.

(* ---- the first run of a job: a row is deleted only after its seed's own URL was requested ----
   Before the first restart the seen-store holds nothing that this run did not put there itself, so "skipped as seen" is not
   a way to a finish report: every deleted row's seed went through SCapture or SFail (a request was sent, and it ended in a
   complete record or in a failure for good) - whether the run is still going, or was killed or stopped. *)
Definition no_restart (ls : list slabel) : bool :=
  forallb (fun l => match l with SRestart => false | _ => true end) ls.

Lemma down_only_restart s l s' : s_up s = false -> sstep s l = Some s' -> l = SRestart.
Proof. intros U HS. destruct l; simpl in HS; rewrite U in HS; simpl in HS; try discriminate. reflexivity. Qed.

Lemma down_no_restart_nil ls : forall s s', s_up s = false -> srun s ls = Some s' -> no_restart ls = true -> ls = [].
Proof.
  destruct ls as [|l r]; intros s s' U H N; [reflexivity|]. simpl in H.
  destruct (sstep s l) as [s1|] eqn:E; [|discriminate].
  rewrite (down_only_restart _ _ _ U E) in N. discriminate.
Qed.

Lemma interrupt_keeps s l s' : sstep s l = Some s' -> (l = SCrash \/ l = SStop) ->
  s_up s' = false /\ s_deleted s' = s_deleted s /\ s_warc s' = s_warc s /\ s_failed s' = s_failed s.
Proof.
  intros HS [L|L]; subst l; simpl in HS; cond HS; inversion HS; subst; simpl; auto.
Qed.

(* a history without a restart is an uninterrupted one, possibly followed by ONE kill or stop *)
Lemma no_restart_shape ls : forall s s', srun s ls = Some s' -> no_restart ls = true ->
  interrupts ls = false \/
  exists ls0 s0 x, ls = ls0 ++ [x] /\ interrupts ls0 = false /\ srun s ls0 = Some s0 /\ sstep s0 x = Some s'
                   /\ (x = SCrash \/ x = SStop).
Proof.
  induction ls as [|l r IH]; intros s s' H N; [left; reflexivity|].
  simpl in H. destruct (sstep s l) as [s1|] eqn:E; [|discriminate].
  simpl in N. apply andb_prop in N. destruct N as [N1 N2].
  assert (Hl : (l = SCrash \/ l = SStop) \/ (match l with SCrash | SStop => false | _ => true end) = true)
    by (destruct l; auto).
  destruct Hl as [Hl|Hl].
  - destruct (interrupt_keeps _ _ _ E Hl) as (U & _).
    pose proof (down_no_restart_nil r _ _ U H N2) as R. subst r. simpl in H. inversion H; subst.
    right. exists [], s, l. repeat split; auto.
  - destruct (IH _ _ H N2) as [I|(ls0 & s0 & x & A & B & C & D & F)].
    + left. unfold interrupts in *. simpl. rewrite I. destruct l; simpl in *; auto; discriminate.
    + right. exists (l :: ls0), s0, x. subst r. repeat split; auto.
      * unfold interrupts in *. simpl. rewrite B. destruct l; simpl in *; auto; discriminate.
      * simpl. rewrite E. exact C.
Qed.

Theorem first_run_deleted_was_fetched : forall sc ids ls s,
  srun (sinit sc ids) ls = Some s -> no_restart ls = true ->
  forall i, In i (s_deleted s) -> In i (s_warc s) \/ In i (s_failed s).
Proof.
  intros sc ids ls s H N i Hi.
  destruct (no_restart_shape ls _ _ H N) as [I|(ls0 & s0 & x & A & B & C & D & F)].
  - exact (deleted_captured_uninterrupted sc ids ls s H I i Hi).
  - destruct (interrupt_keeps _ _ _ D F) as (_ & Ed & Ew & Ef). rewrite Ew, Ef. rewrite Ed in Hi.
    exact (deleted_captured_uninterrupted sc ids ls0 s0 C B i Hi).
Qed.

(* non-vacuity: two rows, both fetched (one captured, one failed for good), both deleted, then a kill *)
Lemma first_run_example :
  exists s, srun (sinit true [1; 2])
     [SClaim [1; 2]; SInsert 1; SInsert 2; SPre 1; SPre 2; SCapture 1; SFail 2; SFinish 1; SFinish 2; SDelete [1; 2]; SCrash] = Some s
  /\ s_deleted s = [1; 2] /\ s_warc s = [1] /\ s_failed s = [2].
Proof. eexists. split; [vm_compute; reflexivity|]. simpl. repeat split; reflexivity. Qed.

(* ... and the hypothesis is needed: after a restart a row CAN be deleted without a request (seen_write_ahead_witness) *)
