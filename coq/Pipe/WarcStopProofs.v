(* The WARC side of the graceful stop (C03): proofs about Pipe/WarcStopLts.v.
   Every theorem is over ALL start states satisfying [wwf] (any number of workers in any state, any number
   of dialer goroutines, any channel content within the capacity, any pool size >= 1, writers in any phase
   with any record counts, any configuration values) and ALL label sequences. *)
From ZenoV Require Import Pipe.WarcStopLts.

Lemma wupd_length {A} k (f : A -> A) l : length (wupd k f l) = length l.
Proof. revert k; induction l as [|x r IH]; intros [|k]; simpl; auto. Qed.

Lemma wupd_not_nil {A} k (f : A -> A) l : l <> [] -> wupd k f l <> [].
Proof. destruct l, k; simpl; congruence. Qed.

Lemma wsum_upd {A} (f : A -> nat) g l j x : nth_error l j = Some x ->
  wsum (map f (wupd j g l)) + f x = wsum (map f l) + f (g x).
Proof.
  revert j; induction l as [|y r IH]; intros [|j] H; simpl in *; try discriminate.
  - inversion H; subst. lia.
  - specialize (IH j H). lia.
Qed.

Lemma forallb_nth {A} (p : A -> bool) l j x : forallb p l = true -> nth_error l j = Some x -> p x = true.
Proof.
  revert j; induction l as [|y r IH]; intros [|j] H E; simpl in *; try discriminate;
    apply andb_prop in H as [H1 H2]; [inversion E; subst; auto|eauto].
Qed.

Lemma forallb_wupd {A} (p : A -> bool) g l j :
  forallb p l = true -> (forall x, nth_error l j = Some x -> p (g x) = true) -> forallb p (wupd j g l) = true.
Proof.
  revert j; induction l as [|y r IH]; intros [|j] H G; simpl in *; auto;
    apply andb_prop in H as [H1 H2]; apply andb_true_intro; split; auto.
Qed.

Lemma existsb_wupd {A} (p : A -> bool) g l j x :
  nth_error l j = Some x -> p (g x) = p x -> existsb p (wupd j g l) = existsb p l.
Proof.
  revert j; induction l as [|y r IH]; intros [|j] E G; simpl in *; try discriminate.
  - inversion E; subst. rewrite G. reflexivity.
  - rewrite (IH j E G). reflexivity.
Qed.

Lemma existsb_nth {A} (p : A -> bool) l : existsb p l = true -> exists j x, nth_error l j = Some x /\ p x = true.
Proof.
  induction l as [|y r IH]; simpl; intros H; [discriminate|].
  destruct (p y) eqn:E.
  - exists 0, y. auto.
  - simpl in H. destruct (IH H) as (j & x & A1 & A2). exists (S j), x. auto.
Qed.

Lemma existsb_false_nth {A} (p : A -> bool) l j x : existsb p l = false -> nth_error l j = Some x -> p x = false.
Proof.
  revert j; induction l as [|y r IH]; intros [|j] H E; simpl in *; try discriminate;
    apply orb_false_elim in H as [H1 H2]; [inversion E; subst; auto|eauto].
Qed.

Lemma forallb_false_nth {A} (p : A -> bool) l : forallb p l = false -> exists j x, nth_error l j = Some x /\ p x = false.
Proof.
  induction l as [|y r IH]; simpl; intros H; [discriminate|].
  destruct (p y) eqn:E.
  - simpl in H. destruct (IH H) as (j & x & A1 & A2). exists (S j), x. auto.
  - exists 0, y. auto.
Qed.

Lemma Forall_wupd {A} (P : A -> Prop) g l j :
  Forall P l -> (forall x, nth_error l j = Some x -> P x -> P (g x)) -> Forall P (wupd j g l).
Proof.
  revert j; induction l as [|y r IH]; intros [|j] H G; simpl; auto; inversion H; subst; constructor; auto.
Qed.

Lemma wnth_error_Forall {A} (P : A -> Prop) l j x : Forall P l -> nth_error l j = Some x -> P x.
Proof.
  revert j; induction l as [|y r IH]; intros [|j] H E; simpl in *; try discriminate; inversion H; subst;
    [inversion E; subst; auto|eauto].
Qed.

Ltac inv_step HS :=
  unfold wstep in HS;
  repeat (cbn beta iota in HS;
          match type of HS with
          | context [match ?x with _ => _ end] => let E := fresh "E" in destruct x eqn:E; try discriminate HS
          end);
  try (inversion HS; subst; clear HS).

Ltac use_sums :=
  repeat match goal with
  | H : nth_error ?l ?j = Some ?x |- context [wsum (map ?f (wupd ?j ?g ?l))] =>
      let HU := fresh "HU" in pose proof (wsum_upd f g l j x H) as HU; cbn beta in HU;
      generalize dependent (wsum (map f (wupd j g l))); intros
  end.

Ltac use_sums_k k :=
  repeat match goal with
  | H : nth_error ?l ?j = Some ?x |- context [wsum (map ?f (wupd ?j ?g ?l))] =>
      let HU := fresh "HU" in pose proof (wsum_upd f g l j x H) as HU; cbn beta in HU;
      let HK := fresh "HK" in pose proof (f_equal (Nat.mul k) HU) as HK;
      generalize dependent (wsum (map f (wupd j g l))); intros
  end.

Ltac norm :=
  unfold aw_weight, wr_weight, seed_weight, hold_of, holdw_of, file_recs, fetching_of, waiting_of, set_ph, inc, dec, cls in *;
  cbn [wr_ph wr_cur wr_files f_recs f_torn Bool.eqb map wsum] in *;
  repeat match goal with H : wr_ph _ = _ |- _ => rewrite H in * end;
  repeat match goal with
         | H : Nat.ltb _ _ = true |- _ => apply Nat.ltb_lt in H
         | H : Nat.ltb _ _ = false |- _ => apply Nat.ltb_ge in H
         | H : Nat.eqb _ _ = true |- _ => apply Nat.eqb_eq in H
         | H : Nat.eqb _ _ = false |- _ => apply Nat.eqb_neq in H
         end.
Ltac split_bools := repeat match goal with b : bool |- _ => destruct b end; cbn [Bool.eqb] in *.
Ltac kill_pred :=
  repeat match goal with H : 0 < ?x |- _ => let E := fresh "EP" in destruct x eqn:E; [exfalso; lia|clear H] end;
  cbn [Init.Nat.pred] in *.
Ltac proj := unfold set_aw, set_wr, dyn, panic, ctl in *;
  cbn [x_cfg x_in x_aw x_asm_w x_asm_n x_q_w x_q_n x_fb x_writers x_cancel x_closed x_errclosed x_pc x_panicked] in *.

Lemma wstep_decreases st l st' : wstep st l = Some st' -> wmeasure st' < wmeasure st.
Proof.
  intros HS. destruct l; try (unfold wstep, wstopper in HS); inv_step HS.
  all: unfold wmeasure, WPC_DONE; proj.
  all: try match goal with H : x_in _ = _ |- _ => rewrite H end.
  all: try match goal with H : x_panicked _ = _ |- _ => rewrite H end.
  all: try match goal with H : x_pc _ = _ |- _ => rewrite H end.
  all: use_sums; norm; try lia.
  all: split_bools; try lia.
  all: kill_pred; lia.
Qed.

Lemma wstep_cfg st l st' : wstep st l = Some st' -> x_cfg st' = x_cfg st.
Proof. intros HS. destruct l; try (unfold wstep, wstopper in HS); inv_step HS; reflexivity. Qed.

(* conservation *)
Lemma wstep_conserve st l st' : wstep st l = Some st' -> x_panicked st' = false ->
  wdisk st' + wowed st' + g_k (x_cfg st) * drops [l] = wdisk st + wowed st + g_k (x_cfg st) * starts [l].
Proof.
  intros HS NP. destruct l; try (unfold wstep, wstopper in HS); inv_step HS.
  all: unfold wdisk, wowed; proj; try discriminate NP; cbn [starts drops].
  all: use_sums_k (g_k (x_cfg st)); norm; try lia.
  all: split_bools; try lia.
  all: kill_pred; lia.
Qed.

Lemma wstep_untorn st l st' : wstep st l = Some st' -> untorn st -> untorn st'.
Proof.
  intros HS U. destruct l; try (unfold wstep, wstopper in HS); inv_step HS; unfold untorn in *; proj; auto.
  all: apply Forall_wupd; auto; intros x Hx Px; unfold set_ph; cbn [wr_files]; auto.
  all: rewrite Hx in *; match goal with H : Some _ = Some _ |- _ => inversion H; subst end.
  all: cbn [wr_files]; auto.
  all: constructor; auto; cbn [f_torn]; match goal with H : wr_ph _ = _ |- _ => rewrite H end; reflexivity.
Qed.

Definition any_done (st : wst) : bool := existsb is_done (x_writers st).

Record WInv (st : wst) : Prop := {
  v_order : real_order st;
  v_np : x_panicked st = false;
  v_cap : queued st <= g_cap (x_cfg st);
  v_pc : x_pc st <= WPC_DONE;
  v_cancel : 1 <= x_pc st -> x_cancel st = true;
  v_gone : 2 <= x_pc st -> aw_all_gone st = true;
  v_asm : 3 <= x_pc st -> x_asm_w st + x_asm_n st = 0;
  v_closed1 : x_closed st = true -> 4 <= x_pc st;
  v_closed2 : 4 <= x_pc st -> x_closed st = true;
  v_err : x_errclosed st = true -> 5 <= x_pc st;
  v_alld : 5 <= x_pc st -> wr_all_done st = true;
  v_anyd : any_done st = true -> x_closed st = true /\ queued st = 0;
  v_cur : Forall (fun w => wr_ph w = PhDone -> wr_cur w = 0) (x_writers st);
  v_wr : x_writers st <> [];
  v_bal : waiting_total st = x_asm_w st + x_q_w st + holdw_total st + x_fb st
}.

Lemma any_done_false l : Forall (fun w => wr_ph w <> PhDone) l -> existsb is_done l = false.
Proof.
  induction 1 as [|w r H _ IH]; simpl; auto. rewrite IH, orb_false_r. unfold is_done. destruct (wr_ph w); auto; congruence.
Qed.

Lemma wstart_inv st : wwf st -> real_order st -> x_pc st = 0 -> WInv st.
Proof.
  intros (A1 & A2 & A3 & A4 & A5 & A6 & A7) RO E.
  constructor; auto; rewrite ?E; unfold WPC_DONE; try lia; try congruence.
  - unfold any_done. rewrite (any_done_false _ A6). discriminate.
  - eapply Forall_impl; [|exact A6]. intros w H1 H2. contradiction.
Qed.

Lemma gone_contra l j a : forallb is_gone l = true -> nth_error l j = Some a -> a <> AwGone -> False.
Proof. intros G E N. pose proof (forallb_nth _ _ _ _ G E) as X. destruct a; simpl in X; congruence. Qed.
Lemma done_contra l i w : forallb is_done l = true -> nth_error l i = Some w -> wr_ph w <> PhDone -> False.
Proof. intros G E N. pose proof (forallb_nth _ _ _ _ G E) as X. unfold is_done in X. destruct (wr_ph w); congruence. Qed.

Ltac by_gone GO := intros; exfalso;
  match goal with E : nth_error (x_aw _) _ = Some _ |- _ =>
    refine (gone_contra _ _ _ (GO ltac:(lia)) E _); discriminate end.
Ltac by_done AD := intros; exfalso;
  match goal with E : nth_error (x_writers _) _ = Some ?w, P : wr_ph ?w = _ |- _ =>
    refine (done_contra _ _ _ (AD ltac:(lia)) E _); rewrite P; discriminate end.
Ltac by_sums := use_sums; norm; split_bools; kill_pred; lia.

Lemma wstep_inv st l st' : WInv st -> wstep st l = Some st' -> WInv st'.
Proof.
  intros I HS. destruct I as [[O1 O2] NP CAP PC CA GO AS C1 C2 ER AD AN CU WR BAL].
  destruct l; try (unfold wstep, wstopper in HS); inv_step HS.
  all: constructor; unfold real_order, queued, aw_all_gone, wr_all_done, any_done, waiting_total, holdw_total, inflight, WPC_DONE in *; proj; auto.
  all: try (apply wupd_not_nil; assumption).
  all: try by_sums.
  all: try (by_gone GO).
  all: try (by_done AD).
  all: try (intros; congruence).
  (* a panic needs a closed channel and a live dialer goroutine *)
  all: try (exfalso; norm; split_bools; cbn [andb] in *;
            repeat match goal with H : ?a = ?a -> _ |- _ => specialize (H eq_refl) end;
            repeat match goal with H : ?x = true, H2 : ?x = true -> _ |- _ => specialize (H2 H) end;
            match goal with H : ?n <= _ -> _ + _ = 0 |- _ => assert (n <= x_pc st) by lia end; lia).
  (* the done-writers facts under an update of one writer *)
  all: try (apply Forall_wupd; [assumption|]; intros x Hx Px; unfold set_ph; cbn [wr_ph wr_cur]; intros; first [discriminate|reflexivity]).
  all: try (intros H; erewrite existsb_wupd in H;
            [ | eassumption | unfold is_done, set_ph; cbn [wr_ph]; match goal with P : wr_ph _ = _ |- _ => rewrite P end; reflexivity ];
            destruct (AN H) as [AN1 AN2]; first [discriminate AN1 | split; [assumption|]; norm; split_bools; kill_pred; lia]).
  all: try (intros H; destruct (AN H) as [AN1 AN2]; first [discriminate AN1 | split; [reflexivity|assumption]]).
  (* XClose: its guard *)
  all: try (intros _; match goal with G : _ && _ = true |- _ => apply andb_prop in G as [G1 G2] end; norm; split; [assumption|lia]).
  (* the stopper *)
  all: try (intros X; first [specialize (C1 X) | specialize (ER X)]; lia).
  all: try (intros _; match goal with G : negb _ || _ = true |- _ => rewrite ?O1, ?O2 in G; cbn [negb orb] in G end; norm; first [assumption|lia]).
Qed.

Lemma wrun_np st ls st' : wrun st ls = Some st' -> x_panicked st' = false -> x_panicked st = false.
Proof.
  destruct ls as [|l r]; simpl; intros H NP; [inversion H; subst; auto|].
  unfold wstep in H. destruct (x_panicked st); [discriminate|reflexivity].
Qed.

Theorem wrun_bounded ls : forall st st', wrun st ls = Some st' -> length ls + wmeasure st' <= wmeasure st.
Proof.
  induction ls as [|l r IH]; intros st st' H; simpl in H.
  - inversion H; subst. simpl. lia.
  - destruct (wstep st l) as [s1|] eqn:E; [|discriminate].
    pose proof (wstep_decreases _ _ _ E). specialize (IH _ _ H). simpl. lia.
Qed.

Theorem wrun_inv ls : forall st st', WInv st -> wrun st ls = Some st' -> WInv st'.
Proof.
  induction ls as [|l r IH]; intros st st' I H; simpl in H.
  - inversion H; subst. auto.
  - destruct (wstep st l) as [s1|] eqn:E; [|discriminate]. eapply IH; [eapply wstep_inv; eauto|eauto].
Qed.

Theorem wrun_untorn ls : forall st st', wrun st ls = Some st' -> untorn st -> untorn st'.
Proof.
  induction ls as [|l r IH]; intros st st' H U; simpl in H.
  - inversion H; subst. auto.
  - destruct (wstep st l) as [s1|] eqn:E; [|discriminate]. eapply IH; [eauto|eapply wstep_untorn; eauto].
Qed.

Lemma wrun_cfg ls : forall st st', wrun st ls = Some st' -> x_cfg st' = x_cfg st.
Proof.
  induction ls as [|l r IH]; intros st st' H; simpl in H.
  - inversion H; subst. auto.
  - destruct (wstep st l) as [s1|] eqn:E; [|discriminate]. rewrite (IH _ _ H). eapply wstep_cfg; eauto.
Qed.

Theorem wrun_conserve ls : forall st st', wrun st ls = Some st' -> x_panicked st' = false ->
  wdisk st' + wowed st' + g_k (x_cfg st) * drops ls = wdisk st + wowed st + g_k (x_cfg st) * starts ls.
Proof.
  induction ls as [|l r IH]; intros st st' H NP; simpl in H.
  - inversion H; subst. simpl. lia.
  - destruct (wstep st l) as [s1|] eqn:E; [|discriminate].
    pose proof (wrun_np _ _ _ H NP) as NP1.
    pose proof (wstep_conserve _ _ _ E NP1) as C1. specialize (IH _ _ H NP). rewrite (wstep_cfg _ _ _ E) in IH.
    assert (D : drops (l :: r) = drops [l] + drops r) by (destruct l; reflexivity).
    assert (S : starts (l :: r) = starts [l] + starts r) by (destruct l; reflexivity).
    rewrite D, S. lia.
Qed.

(* ---- progress: a state that is not final has an enabled fair label ---- *)
Definition can_move (st : wst) : Prop := exists l st', wstep st l = Some st' /\ fair l = true.

Ltac fire :=
  unfold wstep, wstopper;
  repeat (cbn beta iota;
          match goal with
          | H : ?x = _ |- context [match ?x with _ => _ end] => rewrite H
          | H : ?x = true |- context [?x && _] => rewrite H; cbn [andb]
          | H : ?x = true |- context [_ && ?x] => rewrite H; cbn [andb]
          end);
  cbn beta iota; try reflexivity.

Lemma busy_moves st i wr : x_panicked st = false -> nth_error (x_writers st) i = Some wr -> is_busy wr = true -> can_move st.
Proof.
  intros NP E B. unfold is_busy in B. destruct (wr_ph wr) as [|w rot|w [|l]|] eqn:EP; try discriminate.
  - exists (XBegin i). eexists. split; [fire|reflexivity].
  - exists (XFinish i). eexists. split; [fire|reflexivity].
  - exists (XWrite i). eexists. split; [fire|reflexivity].
Qed.

Lemma pick a b : 0 < a + b -> exists w, Nat.ltb 0 (cls w a b) = true.
Proof.
  intros H. destruct a as [|a].
  - exists false. simpl. apply Nat.ltb_lt. lia.
  - exists true. reflexivity.
Qed.

Lemma idle_phase wr : is_busy wr = false -> is_done wr = false -> wr_ph wr = PhIdle.
Proof. unfold is_busy, is_done. destruct (wr_ph wr); auto; discriminate. Qed.

Lemma pipeline_moves st : x_panicked st = false -> x_closed st = false -> x_writers st <> [] -> any_done st = false ->
  (0 < x_asm_w st + x_asm_n st \/ 0 < queued st \/ existsb is_busy (x_writers st) = true) -> can_move st.
Proof.
  intros NP NC WR ND H. unfold any_done in ND.
  destruct (existsb is_busy (x_writers st)) eqn:EB.
  - destruct (existsb_nth _ _ EB) as (i & wr & E & B). eapply busy_moves; eauto.
  - destruct (x_writers st) as [|wr r] eqn:EW; [congruence|].
    assert (E0 : nth_error (x_writers st) 0 = Some wr) by (rewrite EW; reflexivity).
    rewrite <- EW in *.
    pose proof (idle_phase wr (existsb_false_nth _ _ _ _ EB E0) (existsb_false_nth _ _ _ _ ND E0)) as EP.
    destruct (Nat.eqb (queued st) 0) eqn:EQ.
    + destruct H as [H|[H|H]]; [|apply Nat.eqb_eq in EQ; lia|discriminate].
      destruct (pick _ _ H) as (w & Hw).
      exists (XHand w 0). eexists. split; [fire|reflexivity].
    + apply Nat.eqb_neq in EQ. assert (HQ : 0 < x_q_w st + x_q_n st) by (unfold queued in EQ; lia).
      destruct (pick _ _ HQ) as (w & Hw).
      exists (XRecv w 0). eexists. split; [fire|reflexivity].
Qed.

Lemma wsum_ge {A} (f : A -> nat) l j x : nth_error l j = Some x -> f x <= wsum (map f l).
Proof.
  revert j; induction l as [|y r IH]; intros [|j] E; simpl in *; try discriminate.
  - inversion E; subst. lia.
  - specialize (IH j E). lia.
Qed.

Lemma holdw_busy l : 0 < wsum (map holdw_of l) -> existsb is_busy l = true.
Proof.
  induction l as [|w r IH]; simpl; intros H; [lia|].
  destruct (is_busy w) eqn:B; [reflexivity|]. simpl. apply IH.
  unfold holdw_of, is_busy in *. destruct (wr_ph w) as [|[|] ?|[|] ?|]; try discriminate; lia.
Qed.

Lemma gone_fetching l : forallb is_gone l = true -> wsum (map fetching_of l) = 0.
Proof.
  induction l as [|a r IH]; simpl; intros H; auto. apply andb_prop in H as [H1 H2].
  rewrite (IH H2). destruct a; simpl in *; try discriminate; reflexivity.
Qed.

Lemma gone_Forall l : forallb is_gone l = true -> Forall (fun a => a = AwGone) l.
Proof.
  induction l as [|a r IH]; simpl; intros H; constructor; apply andb_prop in H as [H1 H2]; auto.
  destruct a; simpl in *; try discriminate; reflexivity.
Qed.

Lemma forallb_existsb {A} (p : A -> bool) l : l <> [] -> forallb p l = true -> existsb p l = true.
Proof. destruct l as [|a r]; [congruence|]. simpl. intros _ H. apply andb_prop in H as [H1 _]. rewrite H1. reflexivity. Qed.

Theorem wprogress st : WInv st -> x_pc st < WPC_DONE -> can_move st.
Proof.
  intros I HP. destruct I as [[O1 O2] NP CAP PC CA GO AS C1 C2 ER AD AN CU WR BAL]. unfold WPC_DONE in *.
  assert (ST : forall s, wstopper st = Some s -> can_move st).
  { intros s Hs. exists XStopper, s. split; [unfold wstep; rewrite NP; exact Hs|reflexivity]. }
  assert (NC : x_pc st < 4 -> x_closed st = false).
  { intros L. destruct (x_closed st) eqn:EC; auto. specialize (C1 eq_refl). lia. }
  assert (ND : x_pc st < 4 -> any_done st = false).
  { intros L. destruct (any_done st) eqn:EA; auto. destruct (AN eq_refl) as [X _]. rewrite (NC L) in X. discriminate. }
  destruct (x_pc st) as [|[|[|[|[|p]]]]] eqn:EP; try lia.
  - eapply ST. unfold wstopper. rewrite EP. reflexivity.
  - (* waiting for the workers *)
    destruct (aw_all_gone st) eqn:EG.
    { eapply ST. unfold wstopper. rewrite EP, EG, orb_true_r. reflexivity. }
    unfold aw_all_gone in EG. destruct (forallb_false_nth _ _ EG) as (j & a & E & NG).
    specialize (CA ltac:(lia)).
    destruct a as [|t [|f] [|w]| |]; try discriminate.
    + exists (XExit j). eexists. split; [fire|reflexivity].
    + exists (XDone j). eexists. split; [fire|reflexivity].
    + (* a fetch goroutine waits for its feedback *)
      pose proof (wsum_ge waiting_of _ _ _ E) as W. simpl in W. unfold waiting_total in BAL.
      destruct (x_fb st) as [|fb] eqn:EF.
      * apply pipeline_moves; auto; try (apply NC; lia); try (apply ND; lia).
        destruct (wsum (map holdw_of (x_writers st))) eqn:EH.
        -- unfold holdw_total in BAL. rewrite EH in BAL. unfold queued. lia.
        -- right. right. apply holdw_busy. lia.
      * exists (XFeedback j). eexists. split; [fire|reflexivity].
    + exists (XFetchEnd j false). eexists. split; [fire|reflexivity].
    + exists (XFetchEnd j false). eexists. split; [fire|reflexivity].
    + exists (XAbort j). eexists. split; [fire|reflexivity].
  - (* WaitGroup.Wait *)
    destruct (Nat.eqb (inflight st) 0) eqn:EI.
    { eapply ST. unfold wstopper. rewrite EP, EI, orb_true_r. reflexivity. }
    apply Nat.eqb_neq in EI. unfold inflight in EI. rewrite (gone_fetching _ (GO ltac:(lia))) in EI.
    apply pipeline_moves; auto; try (apply NC; lia); try (apply ND; lia). left. lia.
  - eapply ST. unfold wstopper. rewrite EP. reflexivity.
  - (* waiting for the writers *)
    destruct (wr_all_done st) eqn:ED.
    { eapply ST. unfold wstopper. rewrite EP, ED. reflexivity. }
    specialize (C2 ltac:(lia)).
    destruct (existsb is_busy (x_writers st)) eqn:EB.
    { destruct (existsb_nth _ _ EB) as (i & wr & E & B). eapply busy_moves; eauto. }
    unfold wr_all_done in ED. destruct (forallb_false_nth _ _ ED) as (i & wr & E & NDn).
    pose proof (idle_phase wr (existsb_false_nth _ _ _ _ EB E) NDn) as EPh.
    destruct (Nat.eqb (queued st) 0) eqn:EQ.
    + exists (XClose i). eexists. split; [fire|reflexivity].
    + apply Nat.eqb_neq in EQ. assert (HQ : 0 < x_q_w st + x_q_n st) by (unfold queued in EQ; lia).
      destruct (pick _ _ HQ) as (w & Hw).
      exists (XRecv w i). eexists. split; [fire|reflexivity].
Qed.

Lemma done_hold k l : Forall (fun w => wr_ph w = PhDone /\ wr_cur w = 0) l -> wsum (map (hold_of k) l) = 0.
Proof. induction 1 as [|w r [H _] _ IH]; simpl; auto. rewrite IH. unfold hold_of. rewrite H. reflexivity. Qed.

Lemma final_owed st : wfinal st -> wowed st = 0.
Proof.
  intros (_ & _ & _ & D & Z). unfold wowed. rewrite (done_hold _ _ D). unfold inflight, queued in Z.
  replace (wsum (map fetching_of (x_aw st)) + x_asm_w st + x_asm_n st + x_q_w st + x_q_n st) with 0 by lia. lia.
Qed.

Lemma inv_final st : WInv st -> WPC_DONE <= x_pc st -> wfinal st.
Proof.
  intros [[O1 O2] NP CAP PC CA GO AS C1 C2 ER AD AN CU WR BAL] L. unfold WPC_DONE in *.
  specialize (GO ltac:(lia)). specialize (AS ltac:(lia)). specialize (AD ltac:(lia)).
  unfold aw_all_gone, wr_all_done in *.
  destruct (AN (forallb_existsb _ _ WR AD)) as [_ Q].
  repeat split; auto; try (unfold WPC_DONE; lia).
  - apply gone_Forall; auto.
  - clear - AD CU. induction CU as [|w r H _ IH]; constructor; simpl in AD; apply andb_prop in AD as [A1 A2]; auto.
    unfold is_done in A1. destruct (wr_ph w) eqn:E; try discriminate. auto.
  - unfold inflight. rewrite (gone_fetching _ GO). lia.
Qed.

(* ---- the theorems ---- *)

(* 1. no crash: no send on the closed WARCWriter channel, no send on the closed ErrChan, and the channel
   never holds more than its capacity *)
Theorem warc_stop_no_panic st ls st' :
  wwf st -> real_order st -> x_pc st = 0 -> wrun st ls = Some st' ->
  x_panicked st' = false /\ queued st' <= g_cap (x_cfg st').
Proof.
  intros WF RO E0 HR. pose proof (wrun_inv ls _ _ (wstart_inv _ WF RO E0) HR) as I.
  split; [apply (v_np _ I)|apply (v_cap _ I)].
Qed.

(* 2. bounded: every step decreases the measure; an execution that cannot be extended by a step the system
   performs by itself has stopped *)
Theorem warc_stop_terminates st ls st' :
  wwf st -> real_order st -> x_pc st = 0 -> wrun st ls = Some st' ->
  length ls <= wmeasure st
  /\ ((forall l, fair l = true -> wstep st' l = None) -> wfinal st').
Proof.
  intros WF RO E0 HR. pose proof (wrun_inv ls _ _ (wstart_inv _ WF RO E0) HR) as I.
  pose proof (wrun_bounded ls _ _ HR) as B. split; [lia|]. intros Hstuck.
  destruct (Nat.lt_ge_cases (x_pc st') WPC_DONE) as [L|L].
  - destruct (wprogress st' I L) as (l & s & HS & HF). rewrite (Hstuck l HF) in HS. discriminate.
  - apply inv_final; auto.
Qed.

(* 3. files: a renamed file never holds a partly written batch (in EVERY reachable state, from any state);
   in a final state no file is open any more *)
Theorem warc_stop_files_complete st ls st' :
  untorn st -> wrun st ls = Some st' ->
  untorn st' /\ (wfinal st' -> files_final st').
Proof.
  intros U HR. pose proof (wrun_untorn ls _ _ HR U) as U'. split; auto.
  intros (_ & _ & _ & D & _). unfold files_final, untorn in *.
  clear - D U'. induction D as [|w r [H1 H2] _ IH]; constructor; inversion U'; subst; auto.
Qed.

(* 4. conservation, in every reachable state and in particular in the final one *)
Theorem warc_stop_nothing_lost st ls st' :
  wwf st -> real_order st -> x_pc st = 0 -> wrun st ls = Some st' ->
  wdisk st' + wowed st' + g_k (x_cfg st) * drops ls = wdisk st + wowed st + g_k (x_cfg st) * starts ls
  /\ (wfinal st' -> wdisk st' + g_k (x_cfg st) * drops ls = wdisk st + wowed st + g_k (x_cfg st) * starts ls).
Proof.
  intros WF RO E0 HR. pose proof (wrun_inv ls _ _ (wstart_inv _ WF RO E0) HR) as I.
  pose proof (wrun_conserve ls _ _ HR (v_np _ I)) as C. split; auto.
  intros F. rewrite (final_owed _ F) in C. lia.
Qed.

(* 5. no deadlock: in every reachable state that is not final, a step the system performs by itself is enabled *)
Theorem warc_stop_progress st ls st' :
  wwf st -> real_order st -> x_pc st = 0 -> wrun st ls = Some st' -> ~ wfinal st' ->
  exists l s, wstep st' l = Some s /\ fair l = true.
Proof.
  intros WF RO E0 HR NF. pose proof (wrun_inv ls _ _ (wstart_inv _ WF RO E0) HR) as I.
  destruct (Nat.lt_ge_cases (x_pc st') WPC_DONE) as [L|L].
  - exact (wprogress st' I L).
  - elim NF. apply inv_final; auto.
Qed.

(* 6. the order matters *)
(* Stop() that closes the client without waiting for the archiver workers: a worker that is still inside
   archive() dials after close(WARCWriter); the dialer goroutine's send panics *)
Definition early_close_state : wst :=
  WST (WCfg false 1 2 false true) [] [AwArch 1 0 0] 0 0 0 0 0 [WRT PhIdle 0 []] false false false 0 false.

Theorem warc_stop_order_matters_refuted :
  wwf early_close_state /\ x_pc early_close_state = 0 /\
  exists ls st', wrun early_close_state ls = Some st' /\ x_panicked st' = true.
Proof.
  split; [unfold wwf; simpl; repeat split; auto; try lia; try discriminate; repeat constructor; discriminate|].
  split; [reflexivity|].
  exists [XStopper; XStopper; XStopper; XStopper; XStart 0; XFetchEnd 0 false; XAssemble false]. eexists.
  split; vm_compute; reflexivity.
Qed.

(* close(WARCWriter) without WaitGroup.Wait(), asynchronous writing: the worker has returned, the dialer
   goroutine of its last fetch is still assembling the batch *)
Definition no_wg_state : wst :=
  WST (WCfg false 1 2 true false) [] [AwArch 0 1 0] 0 0 0 0 0 [WRT PhIdle 0 []] false false false 0 false.

Theorem warc_stop_no_waitgroup_refuted :
  wwf no_wg_state /\ x_pc no_wg_state = 0 /\
  exists ls st', wrun no_wg_state ls = Some st' /\ x_panicked st' = true.
Proof.
  split; [unfold wwf; simpl; repeat split; auto; try lia; try discriminate; repeat constructor; discriminate|].
  split; [reflexivity|].
  exists [XFetchEnd 0 false; XDone 0; XStopper; XAbort 0; XStopper; XStopper; XStopper; XAssemble false]. eexists.
  split; vm_compute; reflexivity.
Qed.

(* 7. non-vacuity: synchronous writing, two workers fetching (worker 0 also waits for the feedback of the batch
   that sits in the channel), pool of two, writer 0 in the middle of a batch *)
Definition busy_warc_state : wst :=
  WST (WCfg true 1 2 true true) [1] [AwArch 1 1 1; AwArch 0 1 0] 0 0 1 0 0
      [WRT (PhWriting false 1) 5 [WF 4 false]; WRT PhIdle 0 []] false false false 0 false.

Definition busy_warc_schedule : list wlabel :=
  [XStopper; XWrite 0; XFinish 0; XRecv true 1; XRotate 1; XBegin 1; XWrite 1; XWrite 1; XFinish 1; XFeedback 0;
   XFetchEnd 0 true; XFetchEnd 1 false; XDone 1; XAbort 1; XAssemble true; XStart 0; XDrop false true;
   XRecv true 0; XBegin 0; XWrite 0; XWrite 0; XFinish 0; XFeedback 0; XFetchEnd 0 true; XHand true 1;
   XBegin 1; XWrite 1; XWrite 1; XFinish 1; XFeedback 0; XDone 0; XSendOut 0; XTake 0; XSkip 0; XDone 0; XAbort 0;
   XStopper; XStopper; XStopper; XClose 0; XClose 1; XStopper].

Example busy_warc_stops :
  wwf busy_warc_state /\ real_order busy_warc_state /\ x_pc busy_warc_state = 0 /\ untorn busy_warc_state /\
  wdisk busy_warc_state = 9 /\ wowed busy_warc_state = 7 /\ starts busy_warc_schedule = 1 /\ drops busy_warc_schedule = 1 /\
  match wrun busy_warc_state busy_warc_schedule with
  | Some st => x_pc st = WPC_DONE /\ x_panicked st = false /\ x_aw st = [AwGone; AwGone]
               /\ x_writers st = [WRT PhDone 0 [WF 8 false; WF 4 false]; WRT PhDone 0 [WF 4 false; WF 0 false]]
               /\ wdisk st = 16 /\ inflight st + queued st = 0
  | None => False
  end.
Proof.
  split; [unfold wwf; simpl; repeat split; auto; try lia; try discriminate; repeat constructor; discriminate|].
  split; [split; reflexivity|]. split; [reflexivity|].
  split; [repeat constructor|].
  vm_compute. repeat split; reflexivity.
Qed.
