(* Harness side of C16: the quiescent footprint after N and after 4N seeds. *)
From Coq Require Import ZArith.
From ZenoV Require Import Lib.Harness Pipe.LogFile.
Open Scope Z_scope.

Record fobs := FO {
  f_ok : bool;           (* the run reached quiescence and stopped cleanly *)
  f_table : Z;           (* reactor state-table size at quiescence *)
  f_tokens : Z;          (* tokens in use *)
  f_bodies : Z;          (* nodes found holding a response body after post-processing, over the whole run *)
  f_temps : Z;           (* files in the WARC temp directory *)
  f_buckets : Z;         (* per-host limiter table size (-1: limiter off) *)
  f_maxb : Z;            (* its configured bound: workers x per-worker asset concurrency *)
  f_fds : Z;             (* /proc/self/fd entries (0 in proxied runs: the harness's own proxy lives in the same process) *)
  f_goroutines : Z;
  f_files : Z;           (* ... of which: everything that is not a socket or a pipe (log files, WARC files, spooled
                            temp files, the queue's and the seen-store's databases, other files) - counted in proxied runs too *)
  f_logfds : Z           (* ... of which: descriptors on files of the job's log directory *)
}.

Record fcase := FC { fc_w : Z; fc_mca : Z; fc_n : Z; fc_rl : bool; fc_log : bool; fc_a : fobs; fc_b : fobs }.

(* what the models say about a quiescent state, whatever the number of seeds:
   PipeProofs.pipeline_quiescent: table empty, no token in use;
   Stage/Bodies: no node holds a body after post-processing;
   Rate/ManagerProofs: the limiter table never exceeds its bound = W x MCA;
   Pipe/LogFileProofs: with file logging on, the rotated log file holds what it held when it was created (one
   descriptor), however many rotations went by; without file logging there is none *)
Definition log_bound (c : fcase) : Z := if fc_log c then Z.of_N (open_count (new_rfile rotate 0)) else 0.
Definition idle (c : fcase) (o : fobs) : bool :=
  (f_table o =? 0) && (f_tokens o =? 0) && (f_bodies o =? 0) && (f_temps o =? 0) && (f_logfds o <=? log_bound c)
  && (if fc_rl c then (0 <=? f_buckets o) && (f_buckets o <=? f_maxb o) && (f_maxb o =? fc_w c * fc_mca c)
      else f_buckets o =? -1).

Definition diff_case (c : fcase) : bool :=
  f_ok (fc_a c) && f_ok (fc_b c) && negb (idle c (fc_a c) && idle c (fc_b c)).
Definition diffs (l : list fcase) := bad_idx diff_case l.

Definition both (c : fcase) (p : fobs -> bool) : bool := negb (f_ok (fc_a c) && f_ok (fc_b c)) || (p (fc_a c) && p (fc_b c)).
Definition mon_runs_complete (c : fcase) : bool := f_ok (fc_a c) && f_ok (fc_b c).
Definition mon_reactor_idle (c : fcase) : bool := both c (fun o => (f_table o =? 0) && (f_tokens o =? 0)).
Definition mon_no_body_left (c : fcase) : bool := both c (fun o => (f_bodies o =? 0) && (f_temps o =? 0)).
Definition mon_table_bounded (c : fcase) : bool := both c (fun o => f_buckets o <=? f_maxb o).
(* descriptors and goroutines do not grow with the number of seeds: the 4N run may not hold more than the N run
   (idle keep-alive connections make the counts vary by a few either way; growth with N would be tens) *)
Definition mon_no_growth (c : fcase) : bool :=
  negb (f_ok (fc_a c) && f_ok (fc_b c)) ||
  ((f_fds (fc_b c) <=? f_fds (fc_a c) + 3) && (f_goroutines (fc_b c) <=? f_goroutines (fc_a c) + 4)).
(* descriptors on FILES (everything but sockets and pipes) do not grow at all: no keep-alive connection is among them; one
   is tolerated because the reading may fall between the close and the open of a log rotation.  Proxied runs take part. *)
Definition mon_files_no_growth (c : fcase) : bool :=
  negb (f_ok (fc_a c) && f_ok (fc_b c)) || (f_files (fc_b c) <=? f_files (fc_a c) + 1).
(* the statement of C16_log_file_holds_one_descriptor on the observed descriptor table: at most one descriptor on the
   log directory with file logging on (whatever the rotation period and the length of the run), none without *)
Definition mon_log_one_descriptor (c : fcase) : bool :=
  both c (fun o => f_logfds o <=? (if fc_log c then 1 else 0)).
Definition mons (l : list fcase) :=
  mon_idx [mon_runs_complete; mon_reactor_idle; mon_no_body_left; mon_table_bounded; mon_no_growth;
           mon_files_no_growth; mon_log_one_descriptor] l.
