(* Crash / stop / restart WITH the seen-store and the per-seed fetch (C04, second model).

   Pipe/CrashLts.v abstracts a seed's life in the pipeline into "in flight, then finished".  This
   model opens that box as far as the resume property needs it:

   - the local seen-store (internal/pkg/preprocessor/seencheck, LevelDB under the job directory) is
     DURABLE state.  preprocess() asks it about the seed's URL and, when the URL is new, records it
     at once - before the seed reaches the archiver (preprocessor.go: seencheck.SeencheckItem is
     called from preprocess(); seencheck.go: isSeen + Seen in one call);
   - a seed is reported finished only when its own URL has been dealt with in THIS run: fetched and
     its response written (the record is complete and acknowledged: C02's order, taken as one step
     here), failed for good (the origin does not answer), or skipped because the store said "seen";
   - a kill or a stop ends the run: the volatile places are lost, the durable ones stay.

   s_sc is the operator's choice (--disable-seencheck => false).  Executable; proofs are in
   CrashSeenProofs.v. *)
From ZenoV Require Export Pipe.CrashLts.
Open Scope N_scope.

Record sst := SST {
  s_sc : bool;                (* configuration: the local seencheck is in use *)
  s_rows : list row;          (* durable: lq.db *)
  s_seen : list N;            (* durable: the seen-store (a seed's id stands for its URL) *)
  s_warc : list N;            (* durable: complete response records of seeds' own URLs *)
  s_buf : list N;             (* volatile: claimed, not yet inserted *)
  s_flight : list N;          (* volatile: in the pipeline *)
  s_new : list N;             (* volatile: pre-processed in this run, URL new (to be fetched) *)
  s_skip : list N;            (* volatile: pre-processed in this run, marked seen *)
  s_done : list N;            (* volatile: own URL dealt with in this run (captured or failed) *)
  s_pend : list N;            (* volatile: reported finished, waiting for the delete batch *)
  s_failed : list N;          (* ghost: seeds whose URL the origin failed for good in some run *)
  s_deleted : list N;         (* ghost: rows deleted = seeds durably finished *)
  s_lostpre : list N;         (* ghost: seeds that a kill/stop caught AFTER the seen-store write and
                                 BEFORE their capture *)
  s_up : bool
}.

Inductive slabel :=
| SClaim (ids : list N)
| SInsert (id : N)
| SPre (id : N)               (* preprocess(): seencheck, and the store is written when the URL is new *)
| SCapture (id : N)           (* archive(): response received, record complete in the file, acknowledged *)
| SFail (id : N)              (* archive(): every attempt failed (transport error / retries exhausted) *)
| SFinish (id : N)
| SDelete (ids : list N)
| SCrash
| SStop
| SRestart.

Definition sstep (s : sst) (l : slabel) : option sst :=
  match l with
  | SClaim ids =>
    if s_up s && forallb (is_fresh (s_rows s)) ids
    then Some (SST (s_sc s) (set_claimed true ids (s_rows s)) (s_seen s) (s_warc s) (s_buf s ++ ids) (s_flight s)
                   (s_new s) (s_skip s) (s_done s) (s_pend s) (s_failed s) (s_deleted s) (s_lostpre s) true)
    else None
  | SInsert id =>
    if s_up s && mem id (s_buf s)
    then Some (SST (s_sc s) (s_rows s) (s_seen s) (s_warc s) (remove_all [id] (s_buf s)) (id :: s_flight s)
                   (s_new s) (s_skip s) (s_done s) (s_pend s) (s_failed s) (s_deleted s) (s_lostpre s) true)
    else None
  | SPre id =>
    if s_up s && mem id (s_flight s) && negb (mem id (s_new s)) && negb (mem id (s_skip s))
    then if s_sc s && mem id (s_seen s)
         then Some (SST (s_sc s) (s_rows s) (s_seen s) (s_warc s) (s_buf s) (s_flight s)
                        (s_new s) (id :: s_skip s) (s_done s) (s_pend s) (s_failed s) (s_deleted s) (s_lostpre s) true)
         else Some (SST (s_sc s) (s_rows s) (if s_sc s then id :: s_seen s else s_seen s) (s_warc s) (s_buf s) (s_flight s)
                        (id :: s_new s) (s_skip s) (s_done s) (s_pend s) (s_failed s) (s_deleted s) (s_lostpre s) true)
    else None
  | SCapture id =>
    if s_up s && mem id (s_new s) && negb (mem id (s_done s))
    then Some (SST (s_sc s) (s_rows s) (s_seen s) (s_warc s ++ [id]) (s_buf s) (s_flight s)
                   (s_new s) (s_skip s) (id :: s_done s) (s_pend s) (s_failed s) (s_deleted s) (s_lostpre s) true)
    else None
  | SFail id =>
    if s_up s && mem id (s_new s) && negb (mem id (s_done s))
    then Some (SST (s_sc s) (s_rows s) (s_seen s) (s_warc s) (s_buf s) (s_flight s)
                   (s_new s) (s_skip s) (id :: s_done s) (s_pend s) (id :: s_failed s) (s_deleted s) (s_lostpre s) true)
    else None
  | SFinish id =>
    if s_up s && mem id (s_flight s) && (mem id (s_done s) || mem id (s_skip s))
    then Some (SST (s_sc s) (s_rows s) (s_seen s) (s_warc s) (s_buf s) (remove_all [id] (s_flight s))
                   (remove_all [id] (s_new s)) (remove_all [id] (s_skip s)) (remove_all [id] (s_done s))
                   (id :: s_pend s) (s_failed s) (s_deleted s) (s_lostpre s) true)
    else None
  | SDelete ids =>
    if s_up s && forallb (fun id => mem id (s_pend s)) ids
    then Some (SST (s_sc s) (delete_rows ids (s_rows s)) (s_seen s) (s_warc s) (s_buf s) (s_flight s)
                   (s_new s) (s_skip s) (s_done s) (remove_all ids (s_pend s)) (s_failed s) (ids ++ s_deleted s) (s_lostpre s) true)
    else None
  | SCrash =>
    if s_up s
    then Some (SST (s_sc s) (s_rows s) (s_seen s) (s_warc s) [] [] [] [] [] [] (s_failed s) (s_deleted s)
                   (remove_all (s_done s) (s_new s) ++ s_lostpre s) false)
    else None
  | SStop =>
    if s_up s
    then Some (SST (s_sc s) (set_claimed false (s_flight s) (s_rows s)) (s_seen s) (s_warc s) [] [] [] [] [] [] (s_failed s) (s_deleted s)
                   (remove_all (s_done s) (s_new s) ++ s_lostpre s) false)
    else None
  | SRestart =>
    if negb (s_up s)
    then Some (SST (s_sc s) (map (fun r => Row (r_id r) false) (s_rows s)) (s_seen s) (s_warc s) [] [] [] [] [] []
                   (s_failed s) (s_deleted s) (s_lostpre s) true)
    else None
  end.

Fixpoint srun (s : sst) (ls : list slabel) : option sst :=
  match ls with
  | [] => Some s
  | l :: r => match sstep s l with Some s' => srun s' r | None => None end
  end.

Definition sinit (sc : bool) (ids : list N) : sst :=
  SST sc (map (fun i => Row i false) ids) [] [] [] [] [] [] [] [] [] [] [] true.

Definition srow_list (s : sst) : list N := map r_id (s_rows s).

(* ---- the correspondence side: one seed driven through a run as far as the model lets it ---- *)

(* a remaining row in the new run: handed out, pre-processed, fetched unless skipped, finished *)
Definition drive_one (s : sst) (id : N) : option sst :=
  match srun s [SClaim [id]; SInsert id; SPre id] with
  | Some s1 =>
    if mem id (s_new s1) then srun s1 [SCapture id; SFinish id] else srun s1 [SFinish id]
  | None => None
  end.

Fixpoint drive (s : sst) (ids : list N) : option sst :=
  match ids with
  | [] => Some s
  | i :: r => match drive_one s i with Some s' => drive s' r | None => None end
  end.
