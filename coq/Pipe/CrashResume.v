(* C04, second model: the restarted job CAN finish every remaining row - "resumes all unfinished
   seeds" as a possibility theorem (no reachable durable state strands a row): after any history,
   once the job is started again, handing out every row of the table, pre-processing it, fetching it
   unless the seen-store holds it, finishing it and running one delete batch is a run of the model,
   and it empties the table. *)
From ZenoV Require Import Pipe.CrashLts Pipe.CrashProofs Pipe.CrashSeen Pipe.CrashSeenProofs.
Open Scope N_scope.

(* ---- the table's ids stay distinct ---- *)
Lemma NoDup_map_filter {A B} (f : A -> B) (p : A -> bool) l : NoDup (map f l) -> NoDup (map f (filter p l)).
Proof.
  induction l as [|a l IH]; simpl; intros H; [constructor|].
  inversion H as [|x xs Hn Hd]; subst. destruct (p a); simpl; auto.
  constructor; auto. intros Hi. apply Hn. apply in_map_iff in Hi. destruct Hi as (y & E & Hy).
  apply filter_In in Hy. apply in_map_iff. exists y. tauto.
Qed.

Lemma sstep_rows_nodup s l s' : NoDup (srow_ids s) -> sstep s l = Some s' -> NoDup (srow_ids s').
Proof.
  unfold srow_ids. intros H HS. destruct l; simpl in HS; cond HS; try (inversion HS; subst; simpl; auto; fail).
  - inversion HS; subst; simpl. rewrite set_claimed_ids. exact H.
  - destruct (s_sc s && mem id (s_seen s)); inversion HS; subst; simpl; exact H.
  - inversion HS; subst; simpl. unfold delete_rows. apply NoDup_map_filter. exact H.
  - inversion HS; subst; simpl. rewrite set_claimed_ids. exact H.
  - inversion HS; subst; simpl. rewrite reset_ids. exact H.
Qed.

Lemma srun_rows_nodup ls : forall s s', NoDup (srow_ids s) -> srun s ls = Some s' -> NoDup (srow_ids s').
Proof.
  induction ls as [|l r IH]; intros s s' H HR; simpl in HR.
  - inversion HR; subst; exact H.
  - destruct (sstep s l) as [s1|] eqn:E; [|discriminate]. eapply IH; [eapply sstep_rows_nodup; eauto|exact HR].
Qed.

(* ---- one row driven through a quiet running job ---- *)
Definition quiet (s : sst) : Prop :=
  s_up s = true /\ s_buf s = [] /\ s_flight s = [] /\ s_new s = [] /\ s_skip s = [] /\ s_done s = [].

Lemma mem_self id : mem id [id] = true.
Proof. apply mem_In. left. reflexivity. Qed.
Lemma remove_self id : remove_all [id] [id] = [].
Proof. unfold remove_all, mem. simpl. rewrite N.eqb_refl. reflexivity. Qed.

Lemma is_fresh_other rows id j : j <> id -> is_fresh (set_claimed true [id] rows) j = is_fresh rows j.
Proof.
  intros Hn. unfold is_fresh, set_claimed. induction rows as [|r rs IH]; [reflexivity|].
  cbn [map existsb]. rewrite IH. f_equal.
  destruct (mem (r_id r) [id]) eqn:E; [|reflexivity].
  apply mem_In in E. destruct E as [E|[]]. subst. cbn [r_id r_claimed].
  destruct (r_id r =? j) eqn:Q; [|reflexivity]. apply N.eqb_eq in Q. congruence.
Qed.

Lemma drive_one_quiet s id :
  quiet s -> is_fresh (s_rows s) id = true ->
  exists s', drive_one s id = Some s' /\ quiet s'
             /\ srow_ids s' = srow_ids s
             /\ s_pend s' = id :: s_pend s
             /\ (forall j, j <> id -> is_fresh (s_rows s') j = is_fresh (s_rows s) j).
Proof.
  intros (U & B & F & Nw & K & D) Hf.
  unfold drive_one. simpl. rewrite U, B, F, Nw, K, D. simpl. rewrite Hf. simpl.
  repeat (rewrite N.eqb_refl; simpl).
  destruct (s_sc s && mem id (s_seen s)) eqn:Q; simpl; repeat (rewrite N.eqb_refl; simpl).
  - (* the store holds it: skipped, finished *)
    eexists. split; [reflexivity|]. unfold quiet, srow_ids. simpl.
    rewrite set_claimed_ids. repeat split; auto. intros j Hj. apply is_fresh_other. exact Hj.
  - (* new: captured, finished *)
    eexists. split; [reflexivity|]. unfold quiet, srow_ids. simpl.
    rewrite set_claimed_ids. repeat split; auto. intros j Hj. apply is_fresh_other. exact Hj.
Qed.

Lemma drive_quiet ids : forall s,
  quiet s -> NoDup ids -> (forall i, In i ids -> is_fresh (s_rows s) i = true) ->
  exists s', drive s ids = Some s' /\ quiet s' /\ srow_ids s' = srow_ids s
             /\ (forall i, In i ids -> In i (s_pend s'))
             /\ (forall i, In i (s_pend s) -> In i (s_pend s')).
Proof.
  induction ids as [|i r IH]; intros s Q Hn Hf; simpl.
  - exists s. split; [reflexivity|]. split; [exact Q|]. split; [reflexivity|]. split; [intros j []|auto].
  - inversion Hn as [|x xs Hni Hnr]; subst.
    destruct (drive_one_quiet s i Q (Hf i (or_introl eq_refl))) as (s1 & E1 & Q1 & R1 & P1 & F1).
    rewrite E1.
    destruct (IH s1 Q1 Hnr) as (s2 & E2 & Q2 & R2 & P2 & K2).
    { intros j Hj. rewrite F1; [apply Hf; right; exact Hj|]. intros E. subst. contradiction. }
    exists s2. split; [exact E2|]. split; [exact Q2|]. split; [congruence|]. split.
    + intros j [Hj|Hj]; [subst; apply K2; rewrite P1; left; reflexivity|apply P2; exact Hj].
    + intros j Hj. apply K2. rewrite P1. right. exact Hj.
Qed.

Lemma delete_all rows : delete_rows (map r_id rows) rows = [].
Proof.
  unfold delete_rows. assert (H : forall l, (forall r, In r l -> In (r_id r) (map r_id rows)) ->
    filter (fun r => negb (mem (r_id r) (map r_id rows))) l = []).
  { induction l as [|a l IH]; simpl; intros H; auto.
    assert (M : mem (r_id a) (map r_id rows) = true) by (apply mem_In; apply H; left; reflexivity).
    rewrite M. simpl. apply IH. intros r Hr. apply H. right. exact Hr. }
  apply H. intros r Hr. apply in_map. exact Hr.
Qed.

Lemma fresh_after_reset rows i : In i (map r_id rows) -> is_fresh (map (fun r => Row (r_id r) false) rows) i = true.
Proof.
  intros H. unfold is_fresh. apply existsb_exists. apply in_map_iff in H. destruct H as (r & E & Hr).
  exists (Row (r_id r) false). split; [apply in_map_iff; exists r; auto|]. simpl. subst. rewrite N.eqb_refl. reflexivity.
Qed.

(* The restarted job can finish every remaining row: whatever the history of claims, fetches,
   finishes, delete batches, kills, stops and restarts so far, once the job is started again the
   rows of the table - ALL of them, none is stranded as handed-out - can be driven to the end and
   deleted, leaving the table empty; and by C04_deleted_seed_accounted each of them is then
   captured, failed for good, or (seencheck on) one of the seeds the interruption caught between
   the seen-store write and the capture. *)
Theorem resume_completes : forall sc ids ls s s',
  NoDup ids -> srun (sinit sc ids) ls = Some s -> sstep s SRestart = Some s' ->
  exists s2 s3, drive s' (srow_list s') = Some s2
                /\ sstep s2 (SDelete (srow_list s')) = Some s3
                /\ s_rows s3 = []
                /\ (forall i, In i (srow_list s') -> In i (s_deleted s3)).
Proof.
  intros sc ids ls s s' Hn HR HS.
  assert (Nd : NoDup (srow_ids s)).
  { apply (srun_rows_nodup ls (sinit sc ids)); [|exact HR]. unfold srow_ids, sinit. simpl.
    rewrite map_map. simpl. rewrite map_id. exact Hn. }
  simpl in HS. destruct (negb (s_up s)) eqn:U; [|discriminate]. inversion HS; subst; clear HS.
  set (s' := SST (s_sc s) (map (fun r => Row (r_id r) false) (s_rows s)) (s_seen s) (s_warc s) [] [] [] [] [] []
                 (s_failed s) (s_deleted s) (s_lostpre s) true).
  assert (Q : quiet s') by (unfold quiet; simpl; tauto).
  assert (L : srow_list s' = srow_ids s) by (unfold srow_list, srow_ids; simpl; apply reset_ids).
  destruct (drive_quiet (srow_list s') s' Q) as (s2 & E2 & Q2 & R2 & P2 & _).
  { rewrite L. exact Nd. }
  { intros i Hi. simpl. apply fresh_after_reset. rewrite L in Hi. exact Hi. }
  exists s2. destruct Q2 as (U2 & _).
  assert (A : forallb (fun id => mem id (s_pend s2)) (srow_list s') = true).
  { apply forallb_forall. intros i Hi. apply mem_In. apply P2. exact Hi. }
  simpl. rewrite U2, A. simpl. eexists. split; [exact E2|]. split; [reflexivity|]. simpl. split.
  - assert (E : srow_list s' = map r_id (s_rows s2)).
    { unfold srow_ids in R2. rewrite R2. reflexivity. }
    rewrite E. apply delete_all.
  - intros i Hi. apply in_or_app. left. exact Hi.
Qed.

(* non-vacuity: two rows left CLAIMED by a kill (one of them already in the seen-store) *)
Example resume_example :
  match srun (sinit true [1; 2; 3]) [SClaim [1; 2; 3]; SInsert 1; SInsert 2; SPre 1; SCapture 1; SFinish 1; SDelete [1]; SPre 2; SCrash] with
  | Some s => match sstep s SRestart with
              | Some s' => srow_list s' = [2; 3] /\ s_rows s = [Row 2 true; Row 3 true]
                           /\ match drive s' [2; 3] with
                              | Some s2 => match sstep s2 (SDelete [2; 3]) with Some s3 => s_rows s3 = [] /\ s_warc s3 = [1; 3] | None => False end
                              | None => False
                              end
              | None => False
              end
  | None => False
  end.
Proof. vm_compute. repeat split; reflexivity. Qed.
