(* Termination of the pipeline (C01): with --domains-crawl off every execution of the pipeline LTS
   is finite, with an explicit bound on its length; together with deadlock freedom and "stuck
   implies everything finished" (Pipe/PipeProofs.v) this gives: every maximal execution ends with
   every queue row reported finished exactly once.  The per-seed pass bound is C06's
   (Stage/PassClosed.d_finished_within_bound). *)
From Coq Require Import Lia Permutation.
From ZenoV Require Import Tree.Item Tree.ItemSpec Stage.Pass Stage.PassSpec Stage.PassClosed
     Pipe.PipeLts Pipe.PipeProofs Pipe.PipeClosed.
Open Scope N_scope.

Local Arguments upd : simpl never.
Local Arguments seed0 : simpl never.
Local Arguments capacity : simpl never.

Definition passes_bound (c : cfg) : nat := (4 * (N.to_nat (max_redirect c) + 1))%nat.

(* ---- the history of a seed: its ghost pass counter counts the passes that fed it back ---- *)
Definition hinv (c : cfg) (k : nat) (x : sd) : Prop :=
  exists os u h t0 n0,
    length os = s_pass x
    /\ run_passes c os (seed0 u h) = Ok (t0, n0, DFeedback)
    /\ (if Nat.leb k 3 then t0 = s_tree x /\ n0 = s_next x
        else if Nat.leb k 5 then n0 = s_next x /\ pre_worker (s_or x) t0 = Ok (s_tree x)
        else if Nat.leb k 7 then
          n0 = s_next x /\ exists t1, pre_worker (s_or x) t0 = Ok t1 /\ arch_worker (s_or x) t1 = Ok (s_tree x)
        else exists t1 t2, pre_worker (s_or x) t0 = Ok t1 /\ arch_worker (s_or x) t1 = Ok t2
                           /\ post_worker c (s_or x) t2 n0 = Ok (s_tree x, s_next x)).

Definition HInv (s : pst) : Prop := forall k x, In x (place k s) -> hinv (p_cfg s) k x.

Lemma run_passes_snoc c o : forall os st t n t' n' d,
  run_passes c os st = Ok (t, n, DFeedback) -> pass c o (t, n) = Ok (t', n', d) ->
  run_passes c (os ++ [o]) st = Ok (t', n', d).
Proof.
  induction os as [|o1 r IH]; intros st t n t' n' d H HP.
  - cbn in H. inversion H; subst. destruct st as [t0 n0]. cbn in *. subst. cbn [run_passes app].
    rewrite HP. destruct d; reflexivity.
  - cbn [run_passes app] in *. destruct (pass c o1 st) as [[[t1 n1] d1]|w]; [|discriminate].
    destruct d1; [|discriminate]. eapply IH; eauto.
Qed.

Lemma hinv_pass_lt c k x : domains_crawl c = false -> hinv c k x -> (s_pass x < passes_bound c)%nat.
Proof.
  intros HD (os & u & h & t0 & n0 & HL & HR & _).
  destruct (Nat.lt_ge_cases (s_pass x) (passes_bound c)) as [L|L]; [exact L|exfalso].
  destruct (d_finished_within_bound c os u h HD) as (t & n & HF); [unfold passes_bound in L; lia|].
  rewrite HF in HR. discriminate.
Qed.

(* ---- where the seeds of the next state come from ---- *)
Lemma step_places s l s' k' x' : length (p_places s) = NPLACES -> p_panicked s' = false ->
  step s l = Some s' -> In x' (place k' s') ->
  In x' (place k' s)
  \/ (exists k o x, l = LMove k (s_id x) o /\ k' = S k /\ (k < 9)%nat /\ In x (place k s) /\ stage (p_cfg s) k o x = Ok x')
  \/ (exists id u h r, k' = 0%nat /\ p_src s = (id, u, h) :: r /\ x' = SD id (fst (seed0 u h)) (snd (seed0 u h)) null_oracle 0)
  \/ (exists x t, k' = 0%nat /\ In x (place 9 s) /\ fin_worker (s_tree x) = Ok (t, DFeedback)
                  /\ x' = SD (s_id x) t (s_next x) (s_or x) (S (s_pass x))).
Proof.
  intros GL NP HS HI. unfold step in HS. destruct (p_panicked s); [discriminate|].
  destruct l as [|k id o|id|].
  - destruct (p_src s) as [|[[id u] h] r] eqn:ES; [discriminate|].
    destruct (_ && _); [|discriminate]. inversion HS; subst; clear HS. unfold place in HI; simpl in HI.
    destruct (Nat.eq_dec k' 0) as [->|Hk].
    + rewrite nth_upd_same in HI by (rewrite GL; unfold NPLACES; lia).
      apply in_app_or in HI. destruct HI as [HI|[<-|[]]]; [left; exact HI|].
      right. right. left. exists id, u, h, r. auto.
    + rewrite nth_upd_other in HI by auto. left. exact HI.
  - destruct (Nat.ltb k 9) eqn:EK; [|discriminate]. apply Nat.ltb_lt in EK.
    destruct (take id (place k s)) as [[x rest]|] eqn:ET; [|discriminate].
    destruct (Nat.ltb _ _); [|discriminate].
    destruct (take_spec _ _ _ _ ET) as (Hid & PT & Hrest & Hx & Hlen).
    destruct (stage (p_cfg s) k o x) as [y|w] eqn:EY.
    + inversion HS; subst s'; clear HS. unfold place in HI; simpl in HI.
      rewrite (place_after_move s k (S k) y rest k' GL) in HI by (unfold NPLACES; lia).
      destruct (Nat.eqb_spec k' (S k)) as [->|H1].
      * apply in_app_or in HI. destruct HI as [HI|[<-|[]]]; [left; exact HI|].
        right. left. exists k, o, x. rewrite Hid. auto.
      * destruct (Nat.eqb_spec k' k) as [->|H2]; [left; apply Hrest; exact HI|left; exact HI].
    + inversion HS; subst s'. simpl in NP. discriminate.
  - destruct (take id (place 9 s)) as [[x rest]|] eqn:ET; [|discriminate].
    destruct (take_spec _ _ _ _ ET) as (Hid & PT & Hrest & Hx & Hlen).
    destruct (fin_worker (s_tree x)) as [[t d]|w] eqn:EF.
    + destruct d.
      * destruct (Nat.ltb _ _); [|discriminate]. inversion HS; subst s'; clear HS. unfold place in HI; simpl in HI.
        rewrite (place_after_move s 9 0 _ rest k' GL) in HI by (unfold NPLACES; lia).
        destruct (Nat.eqb_spec k' 0) as [->|H1].
        -- apply in_app_or in HI. destruct HI as [HI|[<-|[]]]; [left; exact HI|].
           right. right. right. exists x, t. auto.
        -- destruct (Nat.eqb_spec k' 9) as [->|H2]; [left; apply Hrest; exact HI|left; exact HI].
      * inversion HS; subst s'; clear HS. unfold place in HI; simpl in HI.
        destruct (Nat.eq_dec k' 9) as [->|H9].
        -- rewrite nth_upd_same in HI by (rewrite GL; unfold NPLACES; lia). left. apply Hrest. exact HI.
        -- rewrite nth_upd_other in HI by auto. left. exact HI.
    + inversion HS; subst s'. simpl in NP. discriminate.
  - destruct (p_src s) as [|[[id u] h] r] eqn:ES; [discriminate|].
    inversion HS; subst s'; clear HS. left. exact HI.
Qed.

Lemma hinv_stage c k o x y : (k < 9)%nat -> hinv c k x -> stage c k o x = Ok y -> hinv c (S k) y.
Proof.
  intros Hk (os & u & h & t0 & n0 & HL & HR & HC) HS.
  destruct k as [|[|[|[|[|[|[|[|[|k]]]]]]]]]; try lia; unfold stage in HS; simpl in HC.
  - inversion HS; subst. exists os, u, h, t0, n0. simpl. auto.
  - inversion HS; subst. exists os, u, h, t0, n0. simpl. auto.
  - inversion HS; subst. exists os, u, h, t0, n0. simpl. auto.
  - destruct HC as [-> ->]. destruct (pre_worker o (s_tree x)) as [t|w] eqn:E; [|discriminate].
    inversion HS; subst. exists os, u, h, (s_tree x), (s_next x). simpl. auto.
  - inversion HS; subst. exists os, u, h, t0, n0. simpl. auto.
  - destruct HC as [-> HP]. destruct (arch_worker (s_or x) (s_tree x)) as [t|w] eqn:E; [|discriminate].
    inversion HS; subst. exists os, u, h, t0, (s_next x). simpl. split; auto. split; auto. split; auto.
    exists (s_tree x). auto.
  - inversion HS; subst. exists os, u, h, t0, n0. simpl. auto.
  - destruct HC as [-> (t1 & HP & HA)].
    destruct (post_worker c (s_or x) (s_tree x) (s_next x)) as [[t n]|w] eqn:E; [|discriminate].
    inversion HS; subst. exists os, u, h, t0, (s_next x). simpl. split; auto. split; auto.
    exists t1, (s_tree x). auto.
  - inversion HS; subst. exists os, u, h, t0, n0. simpl. auto.
Qed.

Lemma step_hinv s l s' : GInv s -> HInv s -> step s l = Some s' -> HInv s'.
Proof.
  intros G H HS k' x' HI.
  pose proof (step_ginv seed0_inv_closed pass_preserves_closed _ _ _ G HS) as G'.
  destruct (step_static _ _ _ HS) as [_ EC]. rewrite EC.
  destruct (step_places s l s' k' x' (g_len _ G) (g_nopanic _ G') HS HI) as [A|[(k & o & x & _ & -> & Hk & Hx & HY)|[(id & u & h & r & -> & ES & ->)|(x & t & -> & Hx & HF & ->)]]].
  - apply H. exact A.
  - eapply hinv_stage; eauto.
  - exists [], u, h, (fst (seed0 u h)), (snd (seed0 u h)). simpl. auto.
  - destruct (H 9%nat x Hx) as (os & u & h & t0 & n0 & HL & HR & (t1 & t2 & HP & HA & HPo)).
    exists (os ++ [s_or x]), u, h, t, (s_next x). simpl. split; [rewrite app_length; simpl; lia|]. split; auto.
    eapply run_passes_snoc; eauto. unfold pass. rewrite HP, HA, HPo, HF. reflexivity.
Qed.

Lemma init_hinv w c rows : HInv (init w c rows).
Proof.
  intros k x H. unfold place in H. simpl in H.
  do 10 (destruct k as [|k]; [destruct H|]). destruct k; destruct H.
Qed.

(* ---- the measure ---- *)
Local Arguments upd : simpl nomatch.
Section Measure.
Variable b : nat.   (* the pass bound *)

Definition w1 (k : nat) (x : sd) : nat := ((b - s_pass x) * 10 + (9 - k))%nat.
Fixpoint wsum (k : nat) (l : list sd) : nat := match l with [] => 0 | x :: r => w1 k x + wsum k r end%nat.
Fixpoint msum (k : nat) (pl : list (list sd)) : nat :=
  match pl with [] => 0 | q :: r => wsum k q + msum (S k) r end%nat.
Definition mu (s : pst) : nat := (length (p_src s) * (10 * b + 10) + msum 0 (p_places s))%nat.

Lemma wsum_app k l1 l2 : wsum k (l1 ++ l2) = (wsum k l1 + wsum k l2)%nat.
Proof. induction l1; simpl; lia. Qed.

Lemma wsum_take k id l x rest : take id l = Some (x, rest) -> wsum k l = (w1 k x + wsum k rest)%nat.
Proof.
  revert x rest; induction l as [|a r IH]; intros x rest H; simpl in H; [discriminate|].
  destruct (s_id a =? id).
  - inversion H; subst. reflexivity.
  - destruct (take id r) as [[y r']|]; [|discriminate]. inversion H; subst. simpl. rewrite (IH _ _ eq_refl). lia.
Qed.

Lemma msum_upd k0 f : forall pl base, (k0 < length pl)%nat ->
  (msum base (upd k0 f pl) + wsum (base + k0) (nth k0 pl []) = msum base pl + wsum (base + k0) (f (nth k0 pl [])))%nat.
Proof.
  induction k0 as [|k0 IH]; intros [|q r] base HL; simpl in *; try lia.
  - rewrite Nat.add_0_r. lia.
  - specialize (IH r (S base) ltac:(lia)). replace (base + S k0)%nat with (S base + k0)%nat by lia. lia.
Qed.
End Measure.
Local Arguments upd : simpl never.

(* every step strictly decreases the measure *)
Lemma step_mu s l s' : GInv s -> HInv s -> domains_crawl (p_cfg s) = false -> step s l = Some s' ->
  (mu (passes_bound (p_cfg s)) s' < mu (passes_bound (p_cfg s)) s)%nat.
Proof.
  intros G H HD HS. set (b := passes_bound (p_cfg s)).
  pose proof (step_ginv seed0_inv_closed pass_preserves_closed _ _ _ G HS) as G'.
  pose proof (g_len _ G) as GL. pose proof (g_nopanic _ G) as GP. pose proof (g_nopanic _ G') as GP'.
  unfold step in HS. rewrite GP in HS. unfold mu.
  destruct l as [|k id o|id|].
  - destruct (p_src s) as [|[[id u] h] r] eqn:ES; [discriminate|].
    destruct (_ && _); [|discriminate]. inversion HS; subst s'; clear HS. cbn [p_src p_places].
    pose proof (msum_upd b 0 (fun q => q ++ [SD id (fst (seed0 u h)) (snd (seed0 u h)) null_oracle 0]) (p_places s) 0 ltac:(rewrite GL; unfold NPLACES; lia)) as HU.
    simpl Nat.add in HU. rewrite wsum_app in HU. simpl wsum in HU. unfold w1 in HU at 1. simpl s_pass in HU.
    simpl length. lia.
  - destruct (Nat.ltb k 9) eqn:EK; [|discriminate]. apply Nat.ltb_lt in EK.
    destruct (take id (place k s)) as [[x rest]|] eqn:ET; [|discriminate].
    destruct (Nat.ltb _ _); [|discriminate].
    destruct (take_spec _ _ _ _ ET) as (Hid & PT & Hrest & Hx & Hlen).
    destruct (stage (p_cfg s) k o x) as [y|w] eqn:EY; [|inversion HS; subst s'; simpl in GP'; discriminate].
    inversion HS; subst s'; clear HS. cbn [p_src p_places set_places].
    assert (Hpass : s_pass y = s_pass x).
    { clear - EY. unfold stage in EY.
      destruct k as [|[|[|[|[|[|[|[|k]]]]]]]]; try (inversion EY; subst; reflexivity).
      - destruct (pre_worker o (s_tree x)); inversion EY; subst; reflexivity.
      - destruct (arch_worker (s_or x) (s_tree x)); inversion EY; subst; reflexivity.
      - destruct (post_worker (p_cfg s) (s_or x) (s_tree x) (s_next x)) as [[? ?]|]; inversion EY; subst; reflexivity. }
    pose proof (msum_upd b k (fun _ => rest) (p_places s) 0 ltac:(rewrite GL; unfold NPLACES; lia)) as HU1.
    set (pl1 := upd k (fun _ => rest) (p_places s)) in *.
    pose proof (msum_upd b (S k) (fun q => q ++ [y]) pl1 0 ltac:(unfold pl1; rewrite upd_length, GL; unfold NPLACES; lia)) as HU2.
    simpl Nat.add in HU1, HU2. rewrite wsum_app in HU2. simpl wsum in HU2.
    assert (E1 : nth (S k) pl1 [] = place (S k) s) by (unfold pl1, place; apply nth_upd_other; lia).
    rewrite E1 in HU2. fold (place k s) in HU1. rewrite (wsum_take b k id _ _ _ ET) in HU1.
    unfold w1 in *. rewrite Hpass in HU2. lia.
  - destruct (take id (place 9 s)) as [[x rest]|] eqn:ET; [|discriminate].
    destruct (take_spec _ _ _ _ ET) as (Hid & PT & Hrest & Hx & Hlen).
    pose proof (hinv_pass_lt _ _ _ HD (H 9%nat x Hx)) as HLT. fold b in HLT.
    destruct (fin_worker (s_tree x)) as [[t d]|w] eqn:EF; [|inversion HS; subst s'; simpl in GP'; discriminate].
    pose proof (msum_upd b 9 (fun _ => rest) (p_places s) 0 ltac:(rewrite GL; unfold NPLACES; lia)) as HU1.
    simpl Nat.add in HU1. fold (place 9 s) in HU1. rewrite (wsum_take b 9 id _ _ _ ET) in HU1.
    destruct d.
    + destruct (Nat.ltb _ _); [|discriminate]. inversion HS; subst s'; clear HS. cbn [p_src p_places set_places].
      set (pl1 := upd 9 (fun _ => rest) (p_places s)) in *.
      pose proof (msum_upd b 0 (fun q => q ++ [SD (s_id x) t (s_next x) (s_or x) (S (s_pass x))]) pl1 0
                    ltac:(unfold pl1; rewrite upd_length, GL; unfold NPLACES; lia)) as HU2.
      simpl Nat.add in HU2. rewrite wsum_app in HU2. simpl wsum in HU2.
      unfold w1 in *. simpl s_pass in HU2. lia.
    + inversion HS; subst s'; clear HS. cbn [p_src p_places]. unfold w1 in *. lia.
  - destruct (p_src s) as [|[[id u] h] r] eqn:ES; [discriminate|].
    inversion HS; subst s'; clear HS. cbn [p_src p_places]. simpl length. lia.
Qed.

(* ---- C01: every execution is finite, with an explicit bound ---- *)
Theorem pipeline_terminates w c rows ls s :
  NoDup (map row_id rows) -> domains_crawl c = false -> run (init w c rows) ls = Some s ->
  (length ls + mu (passes_bound c) s <= length rows * (10 * passes_bound c + 10))%nat.
Proof.
  intros ND HD HR.
  assert (E0 : mu (passes_bound c) (init w c rows) = (length rows * (10 * passes_bound c + 10))%nat)
    by (unfold mu; simpl; lia).
  rewrite <- E0. clear E0.
  assert (GI : GInv (init w c rows)) by (apply init_ginv; exact ND).
  assert (HI : HInv (init w c rows)) by apply init_hinv.
  assert (EC : p_cfg (init w c rows) = c) by reflexivity.
  revert GI HI EC HR. generalize (init w c rows) as s0. revert s.
  induction ls as [|l r IH]; intros s s0 GI HI EC HR; simpl in HR.
  - inversion HR; subst. simpl. lia.
  - destruct (step s0 l) as [s1|] eqn:ES; [|discriminate].
    pose proof (step_ginv seed0_inv_closed pass_preserves_closed _ _ _ GI ES) as G1.
    pose proof (step_hinv _ _ _ GI HI ES) as H1.
    destruct (step_static _ _ _ ES) as [_ EC1].
    pose proof (step_mu _ _ _ GI HI ltac:(rewrite EC; exact HD) ES) as HM. rewrite EC in HM.
    specialize (IH s s1 G1 H1 ltac:(congruence) HR). simpl. lia.
Qed.

Corollary pipeline_execution_bound w c rows ls s :
  NoDup (map row_id rows) -> domains_crawl c = false -> run (init w c rows) ls = Some s ->
  (length ls <= length rows * (10 * (4 * (N.to_nat (max_redirect c) + 1)) + 10))%nat.
Proof. intros ND HD HR. pose proof (pipeline_terminates w c rows ls s ND HD HR) as H. unfold passes_bound in H. lia. Qed.
