(* Graceful stop terminates and finalises the WARC files (C03): proofs about Pipe/StopLts.v. *)
From ZenoV Require Import Pipe.StopLts.

Lemma upd_length {A} k (f : A -> A) l : length (upd k f l) = length l.
Proof. revert k; induction l as [|x r IH]; intros [|k]; simpl; auto. Qed.

Lemma sum_upd (f : worker -> nat) g l j w : nth_error l j = Some w ->
  sum (map f (upd j g l)) + f w = sum (map f l) + f (g w).
Proof.
  revert j; induction l as [|x r IH]; intros [|j] H; simpl in *; try discriminate.
  - inversion H; subst. lia.
  - specialize (IH j H). lia.
Qed.

Lemma nth_error_upd_same {A} (g : A -> A) l j w : nth_error l j = Some w -> nth_error (upd j g l) j = Some (g w).
Proof. revert j; induction l as [|x r IH]; intros [|j] H; simpl in *; try discriminate; [inversion H; auto|auto]. Qed.

Lemma Forall_upd {A} (P : A -> Prop) g l j : Forall P l -> (forall w, nth_error l j = Some w -> P w -> P (g w)) -> Forall P (upd j g l).
Proof.
  revert j; induction l as [|x r IH]; intros [|j] H Hg; simpl; auto; inversion H; subst; constructor; auto.
Qed.

Lemma nth_error_Forall {A} (P : A -> Prop) l j w : Forall P l -> nth_error l j = Some w -> P w.
Proof. revert j; induction l as [|x r IH]; intros [|j] H E; simpl in *; try discriminate; inversion H; subst; [inversion E; subst; auto|eauto]. Qed.

(* [stage_gone] under an update of a worker that is not Gone afterwards only if it was not Gone before *)
Lemma stage_gone_upd st ws stage j g w :
  nth_error (s_workers st) j = Some w -> w_st w <> WGone -> w_stage (g w) = w_stage w ->
  forallb (fun w => negb (Nat.eqb (w_stage w) stage) || match w_st w with WGone => true | _ => false end) (s_workers st) = true ->
  ws = upd j g (s_workers st) ->
  forallb (fun w => negb (Nat.eqb (w_stage w) stage) || match w_st w with WGone => true | _ => false end) ws = true.
Proof.
  intros E NG SG H ->. revert j E H. generalize (s_workers st) as l.
  induction l as [|x r IH]; intros [|j] E H; simpl in *; try discriminate; auto.
  - inversion E; subst. apply andb_prop in H as [H1 H2]. rewrite H2, andb_true_r. rewrite SG.
    destruct (Nat.eqb (w_stage w) stage); simpl in *; auto. destruct (w_st w); try discriminate; congruence.
  - apply andb_prop in H as [H1 H2]. rewrite H1. simpl. eauto.
Qed.

(* ---- the invariant of the stop sequence ---- *)
Definition gone (st : sst) (stage : nat) : Prop := stage_gone st stage = true.
Record SInv (st : sst) : Prop := {
  i_wf : wf st;
  i_c1 : 1 <= s_pc st -> cancelled st 1 = true;
  i_c2 : 3 <= s_pc st -> cancelled st 2 = true;
  i_c3 : 6 <= s_pc st -> cancelled st 3 = true;
  i_c4 : 8 <= s_pc st -> cancelled st 4 = true;
  i_g1 : 2 <= s_pc st -> gone st 1;
  i_g2 : 4 <= s_pc st -> gone st 2;
  i_g3 : 7 <= s_pc st -> gone st 3;
  i_g4 : 9 <= s_pc st -> gone st 4;
  i_wr : 5 <= s_pc st -> Forall (fun x => x = WrRenamed) (s_writers st);
  i_rs : 10 <= s_pc st -> s_rstopped st = true;
  i_pc : s_pc st <= PC_DONE
}.

Lemma start_inv st : wf st -> s_pc st = 0 -> SInv st.
Proof. intros H E. constructor; auto; rewrite E; unfold PC_DONE; try lia. Qed.

Ltac four l := destruct l as [|?a [|?b [|?c [|?d [|? ?]]]]]; try discriminate.

(* a worker step: only the worker list (and the channels) change *)
Lemma worker_step_inv st st' j w g rin ch :
  SInv st -> nth_error (s_workers st) j = Some w -> w_st w <> WGone -> w_stage (g w) = w_stage w ->
  length ch = 4 ->
  st' = with_ch st rin ch (upd j g (s_workers st)) -> SInv st'.
Proof.
  intros I E NG SG LC ->. destruct I as [[W1 [W2 W3]] C1 C2 C3 C4 G1 G2 G3 G4 WR RS PC].
  constructor; simpl; auto.
  - repeat split; auto. apply Forall_upd; auto. intros w0 E0 P0. rewrite E in E0; inversion E0; subst. rewrite SG. exact P0.
  - intros H. unfold gone, stage_gone; simpl. eapply stage_gone_upd; eauto. apply G1; auto.
  - intros H. unfold gone, stage_gone; simpl. eapply stage_gone_upd; eauto. apply G2; auto.
  - intros H. unfold gone, stage_gone; simpl. eapply stage_gone_upd; eauto. apply G3; auto.
  - intros H. unfold gone, stage_gone; simpl. eapply stage_gone_upd; eauto. apply G4; auto.
Qed.

Lemma cancelled_upd_same c k : k < length c -> nth k (upd k (fun _ => true) c) false = true.
Proof. revert k; induction c as [|x r IH]; intros [|k] H; simpl in *; try lia; auto. apply IH; lia. Qed.
Lemma cancelled_upd_mono c k i : nth i c false = true -> nth i (upd k (fun _ => true) c) false = true.
Proof. revert k i; induction c as [|x r IH]; intros [|k] [|i] H; simpl in *; auto. Qed.

Lemma step_inv st l st' : SInv st -> step st l = Some st' -> SInv st'.
Proof.
  intros I HS. pose proof I as I0. destruct I as [[W1 [W2 W3]] C1 C2 C3 C4 G1 G2 G3 G4 WR RS PC].
  destruct l as [|j|j|j|j|j|j|j|j|]; simpl in HS.
  - destruct (_ && _) eqn:E; [|discriminate]. inversion HS; subst; clear HS.
    assert (L : length (upd 0 S (s_ch st)) = 4) by (rewrite upd_length; auto).
    constructor; simpl; auto. repeat split; auto.
  - destruct (nth_error (s_workers st) j) as [w|] eqn:E; [|discriminate].
    destruct (w_st w) eqn:EW; try discriminate. destruct (_ && _); [|discriminate]. inversion HS; subst; clear HS.
    eapply (worker_step_inv st _ j w (set_st WBusy) (s_rin st) (upd (w_stage w - 1) pred (s_ch st))); eauto; try (rewrite EW; discriminate); try (rewrite upd_length; auto).
  - destruct (nth_error (s_workers st) j) as [w|] eqn:E; [|discriminate].
    destruct (w_st w) eqn:EW; try discriminate. inversion HS; subst; clear HS.
    eapply (worker_step_inv st _ j w (set_st WSend) (s_rin st) (s_ch st)); eauto. rewrite EW; discriminate.
  - destruct (nth_error (s_workers st) j) as [w|] eqn:E; [|discriminate].
    destruct (w_st w) eqn:EW; try discriminate. destruct (Nat.ltb (w_stage w) 4).
    + destruct (Nat.ltb (chan st (S (w_stage w))) (s_w st)) eqn:E5; [|discriminate]. inversion HS; subst; clear HS.
      eapply (worker_step_inv st _ j w (set_st WIdle) (s_rin st) (upd (w_stage w) S (s_ch st))); eauto; try (rewrite EW; discriminate); try (rewrite upd_length; auto).
    + inversion HS; subst; clear HS.
      eapply (worker_step_inv st _ j w (set_st WIdle) (s_rin st) (s_ch st)); eauto. rewrite EW; discriminate.
  - destruct (nth_error (s_workers st) j) as [w|] eqn:E; [|discriminate].
    destruct (w_st w) eqn:EW; try discriminate. destruct (cancelled st (w_stage w)) eqn:EC; [|discriminate]. inversion HS; subst; clear HS.
    eapply (worker_step_inv st _ j w (set_st WGone) (s_rin st) (s_ch st)); eauto. rewrite EW; discriminate.
  - destruct (nth_error (s_workers st) j) as [w|] eqn:E; [|discriminate].
    destruct (w_st w) eqn:EW; try discriminate. destruct (cancelled st (w_stage w)) eqn:EC; [|discriminate]. inversion HS; subst; clear HS.
    eapply (worker_step_inv st _ j w (set_st WGone) (s_rin st) (s_ch st)); eauto. rewrite EW; discriminate.
  - destruct (nth_error (s_workers st) j) as [w|] eqn:E; [|discriminate].
    destruct (w_st w) eqn:EW; try discriminate. destruct (w_ptok w); [|discriminate]. inversion HS; subst; clear HS.
    eapply (worker_step_inv st _ j w (fun w => W (w_stage w) WAck false) (s_rin st) (s_ch st)); eauto. rewrite EW; discriminate.
  - destruct (nth_error (s_workers st) j) as [w|] eqn:E; [|discriminate].
    destruct (w_st w) eqn:EW; try discriminate. inversion HS; subst; clear HS.
    eapply (worker_step_inv st _ j w (set_st WIdle) (s_rin st) (s_ch st)); eauto. rewrite EW; discriminate.
  - destruct (nth_error (s_workers st) j) as [w|] eqn:E; [|discriminate].
    destruct (w_st w) eqn:EW; try discriminate. destruct (s_ackexit st && cancelled st (w_stage w)) eqn:EC; [|discriminate]. inversion HS; subst; clear HS.
    eapply (worker_step_inv st _ j w (set_st WGone) (s_rin st) (s_ch st)); eauto. rewrite EW; discriminate.
  - (* the stopper *)
    unfold stopper in HS.
    assert (exists a b c d, s_cancel st = [a; b; c; d]) as (ca & cb & cc & cd & EC) by (four (s_cancel st); eauto).
    unfold cancelled, gone in *. rewrite EC in *. simpl in C1, C2, C3, C4.
    destruct (s_pc st) as [|[|[|[|[|[|[|[|[|[|p]]]]]]]]]] eqn:EP; try discriminate;
      try (match type of HS with (if ?b then _ else _) = _ => destruct b eqn:EG; [|discriminate] end);
      inversion HS; subst; clear HS;
      (constructor; unfold wf, cancelled, gone, stage_gone, PC_DONE in *; simpl; rewrite ?EC; simpl;
       try (intros; lia); auto; try (intros; first [apply C1|apply C2|apply C3|apply C4|apply G1|apply G2|apply G3|apply G4|apply WR|apply RS]; lia)).
    + intros _. apply Forall_forall. intros x Hx. apply in_map_iff in Hx. destruct Hx as (y & <- & _). reflexivity.
Qed.

(* ---- every step strictly decreases the measure ---- *)
Lemma weight_cases s : 1 <= s <= 4 ->
  chan_weight s >= 3 /\ (s < 4 -> chan_weight (S s) + 3 <= chan_weight s).
Proof. intros H. destruct s as [|[|[|[|[|s]]]]]; simpl; lia. Qed.

Lemma chans_pred ch s : length ch = 4 -> 1 <= s <= 4 -> 0 < nth (s - 1) ch 0 ->
  chans_weight 1 (upd (s - 1) pred ch) + chan_weight s = chans_weight 1 ch.
Proof.
  intros L H P. four ch. destruct s as [|[|[|[|[|s]]]]]; try lia; simpl in *; lia.
Qed.
Lemma chans_succ ch s : length ch = 4 -> 1 <= s < 4 ->
  chans_weight 1 (upd s S ch) = chans_weight 1 ch + chan_weight (S s).
Proof.
  intros L H. four ch. destruct s as [|[|[|[|s]]]]; try lia; simpl in *; lia.
Qed.
Lemma chans_succ0 ch : length ch = 4 -> chans_weight 1 (upd 0 S ch) = chans_weight 1 ch + 12.
Proof. intros L. four ch. simpl. lia. Qed.

Ltac wcase E EW g w :=
  let HU := fresh "HU" in pose proof (sum_upd worker_weight g _ _ _ E) as HU;
  let a := fresh "a" in let A1 := fresh "A1" in remember (worker_weight w) as a eqn:A1;
  let b := fresh "b" in let A2 := fresh "A2" in remember (worker_weight (g w)) as b eqn:A2;
  unfold worker_weight in A1, A2; cbn [set_st w_st w_ptok w_stage] in A1, A2; rewrite ?EW in A1.

Lemma step_decreases st l st' : wf st -> step st l = Some st' -> measure st' < measure st.
Proof.
  intros [W1 [W2 W3]] HS. unfold measure.
  destruct l as [|j|j|j|j|j|j|j|j|]; unfold step in HS.
  - destruct (negb (s_rstopped st) && Nat.ltb 0 (s_rin st)) eqn:E; cbn [andb] in HS; [|discriminate].
    destruct (Nat.ltb (chan st 1) (s_w st)) eqn:E5; [|discriminate]. inversion HS; subst; clear HS.
    unfold with_ch; cbn [s_rin s_ch s_workers s_pc].
    apply andb_prop in E as [_ E]. apply Nat.ltb_lt in E. clear E5.
    destruct (s_ch st) as [|a [|b [|c [|d [|? ?]]]]]; try discriminate. simpl. lia.
  - destruct (nth_error (s_workers st) j) as [w|] eqn:E; [|discriminate].
    destruct (w_st w) eqn:EW; try discriminate.
    destruct (Nat.ltb 0 (chan st (w_stage w))) eqn:E1; cbn [andb] in HS; [|discriminate].
    destruct (Nat.leb 1 (w_stage w)) eqn:E2; cbn [andb] in HS; [|discriminate].
    destruct (Nat.leb (w_stage w) 4) eqn:E3; [|discriminate]. inversion HS; subst; clear HS.
    unfold with_ch; cbn [s_rin s_ch s_workers s_pc].
    apply Nat.ltb_lt in E1. apply Nat.leb_le in E2. apply Nat.leb_le in E3.
    assert (HR : 1 <= w_stage w <= 4) by lia. pose proof (chans_pred (s_ch st) (w_stage w) W1 HR E1) as HC.
    wcase E EW (set_st WBusy) w. lia.
  - destruct (nth_error (s_workers st) j) as [w|] eqn:E; [|discriminate].
    destruct (w_st w) eqn:EW; try discriminate. inversion HS; subst; clear HS.
    unfold with_workers; cbn [s_rin s_ch s_workers s_pc].
    pose proof (nth_error_Forall _ _ _ _ W3 E) as HST. cbv beta in HST. destruct (weight_cases _ HST) as [HW _].
    wcase E EW (set_st WSend) w. lia.
  - destruct (nth_error (s_workers st) j) as [w|] eqn:E; [|discriminate].
    destruct (w_st w) eqn:EW; try discriminate.
    pose proof (nth_error_Forall _ _ _ _ W3 E) as HST. cbv beta in HST. destruct (weight_cases _ HST) as [HW HW2].
    destruct (Nat.ltb (w_stage w) 4) eqn:E4.
    + destruct (Nat.ltb (chan st (S (w_stage w))) (s_w st)) eqn:E5; [|discriminate]. inversion HS; subst; clear HS.
      unfold with_ch; cbn [s_rin s_ch s_workers s_pc].
      apply Nat.ltb_lt in E4. assert (HR : 1 <= w_stage w < 4) by lia. rewrite (chans_succ _ (w_stage w) W1 HR). specialize (HW2 E4).
      wcase E EW (set_st WIdle) w. lia.
    + inversion HS; subst; clear HS. unfold with_workers; cbn [s_rin s_ch s_workers s_pc].
      wcase E EW (set_st WIdle) w. lia.
  - destruct (nth_error (s_workers st) j) as [w|] eqn:E; [|discriminate].
    destruct (w_st w) eqn:EW; try discriminate. destruct (cancelled st (w_stage w)) eqn:EC; [|discriminate].
    inversion HS; subst; clear HS. unfold with_workers; cbn [s_rin s_ch s_workers s_pc].
    pose proof (nth_error_Forall _ _ _ _ W3 E) as HST. cbv beta in HST. destruct (weight_cases _ HST) as [HW _].
    wcase E EW (set_st WGone) w. lia.
  - destruct (nth_error (s_workers st) j) as [w|] eqn:E; [|discriminate].
    destruct (w_st w) eqn:EW; try discriminate. destruct (cancelled st (w_stage w)) eqn:EC; [|discriminate].
    inversion HS; subst; clear HS. unfold with_workers; cbn [s_rin s_ch s_workers s_pc].
    wcase E EW (set_st WGone) w. lia.
  - destruct (nth_error (s_workers st) j) as [w|] eqn:E; [|discriminate].
    destruct (w_st w) eqn:EW; try discriminate. destruct (w_ptok w) eqn:EP; [|discriminate].
    inversion HS; subst; clear HS. unfold with_workers; cbn [s_rin s_ch s_workers s_pc].
    wcase E EW (fun w => W (w_stage w) WAck false) w. rewrite EP in A1. simpl in A2. lia.
  - destruct (nth_error (s_workers st) j) as [w|] eqn:E; [|discriminate].
    destruct (w_st w) eqn:EW; try discriminate. inversion HS; subst; clear HS.
    unfold with_workers; cbn [s_rin s_ch s_workers s_pc].
    wcase E EW (set_st WIdle) w. lia.
  - destruct (nth_error (s_workers st) j) as [w|] eqn:E; [|discriminate].
    destruct (w_st w) eqn:EW; try discriminate. destruct (s_ackexit st && cancelled st (w_stage w)) eqn:EC; [|discriminate].
    inversion HS; subst; clear HS. unfold with_workers; cbn [s_rin s_ch s_workers s_pc].
    wcase E EW (set_st WGone) w. lia.
  - unfold stopper in HS. unfold PC_DONE.
    destruct (s_pc st) as [|[|[|[|[|[|[|[|[|[|p]]]]]]]]]] eqn:EP; try discriminate;
      try (match type of HS with (if ?b then _ else _) = _ => destruct b; [|discriminate] end);
      inversion HS; subst; clear HS; cbn [s_rin s_ch s_workers s_pc]; lia.
Qed.

Theorem run_bounded ls : forall st st', SInv st -> run st ls = Some st' ->
  length ls + measure st' <= measure st /\ SInv st'.
Proof.
  induction ls as [|l r IH]; intros st st' I H; simpl in H.
  - inversion H; subst. simpl. split; [lia|auto].
  - destruct (step st l) as [s1|] eqn:E; [|discriminate].
    pose proof (step_decreases _ _ _ (i_wf _ I) E). pose proof (step_inv _ _ _ I E) as I1.
    destruct (IH _ _ I1 H). simpl. split; [lia|auto].
Qed.

(* ---- progress: a state that is not stopped has an enabled label ---- *)
Lemma not_gone_worker st stage : stage_gone st stage = false ->
  exists j w, nth_error (s_workers st) j = Some w /\ w_stage w = stage /\ w_st w <> WGone.
Proof.
  unfold stage_gone. generalize (s_workers st) as l. induction l as [|x r IH]; simpl; intros H; [discriminate|].
  destruct (negb (Nat.eqb (w_stage x) stage) || _) eqn:E.
  - simpl in H. destruct (IH H) as (j & w & A & B & C). exists (S j), w. auto.
  - exists 0, x. simpl. apply orb_false_elim in E as [E1 E2]. apply negb_false_iff in E1. apply Nat.eqb_eq in E1.
    repeat split; auto. intros EG. rewrite EG in E2. discriminate.
Qed.

Lemma worker_can_move st j w : s_ackexit st = true ->
  nth_error (s_workers st) j = Some w -> w_st w <> WGone -> cancelled st (w_stage w) = true ->
  exists l st', step st l = Some st'.
Proof.
  intros HA E NG HC. destruct (w_st w) eqn:EW; try congruence.
  - exists (LExit j). simpl. rewrite E, EW, HC. eauto.
  - exists (LWork j). simpl. rewrite E, EW. eauto.
  - exists (LAbort j). simpl. rewrite E, EW, HC. eauto.
  - exists (LAckExit j). simpl. rewrite E, EW, HA, HC. simpl. eauto.
Qed.

Theorem progress st : SInv st -> s_ackexit st = true -> s_pc st < PC_DONE -> exists l st', step st l = Some st'.
Proof.
  intros I HA HP. destruct I as [WF C1 C2 C3 C4 G1 G2 G3 G4 WR RS PC]. unfold PC_DONE in *.
  assert (HW : forall stage, cancelled st stage = true -> stage_gone st stage = false -> exists l st', step st l = Some st').
  { intros stage HC HG. destruct (not_gone_worker _ _ HG) as (j & w & E & ES & NG).
    apply (worker_can_move st j w); auto. rewrite ES; auto. }
  destruct (s_pc st) as [|[|[|[|[|[|[|[|[|[|p]]]]]]]]]] eqn:EP; try lia.
  - exists LStopper. simpl. unfold stopper. rewrite EP. eauto.
  - destruct (stage_gone st 1) eqn:EG; [exists LStopper; simpl; unfold stopper; rewrite EP, EG; eauto|apply (HW 1); auto; apply C1; lia].
  - exists LStopper. simpl. unfold stopper. rewrite EP. eauto.
  - destruct (stage_gone st 2) eqn:EG; [exists LStopper; simpl; unfold stopper; rewrite EP, EG; eauto|apply (HW 2); auto; apply C2; lia].
  - exists LStopper. simpl. unfold stopper. rewrite EP. eauto.
  - exists LStopper. simpl. unfold stopper. rewrite EP. eauto.
  - destruct (stage_gone st 3) eqn:EG; [exists LStopper; simpl; unfold stopper; rewrite EP, EG; eauto|apply (HW 3); auto; apply C3; lia].
  - exists LStopper. simpl. unfold stopper. rewrite EP. eauto.
  - destruct (stage_gone st 4) eqn:EG; [exists LStopper; simpl; unfold stopper; rewrite EP, EG; eauto|apply (HW 4); auto; apply C4; lia].
  - exists LStopper. simpl. unfold stopper. rewrite EP. eauto.
Qed.

Lemma all_gone st : wf st -> gone st 1 -> gone st 2 -> gone st 3 -> gone st 4 -> Forall (fun w => w_st w = WGone) (s_workers st).
Proof.
  intros [_ [_ W3]]. unfold gone, stage_gone. generalize dependent (s_workers st). intros l W3.
  induction l as [|x r IH]; intros A B C D; constructor; simpl in *;
    apply andb_prop in A as [A1 A2]; apply andb_prop in B as [B1 B2]; apply andb_prop in C as [C1 C2]; apply andb_prop in D as [D1 D2];
    inversion W3; subst; auto.
  destruct (w_st x); auto; exfalso;
    destruct (w_stage x) as [|[|[|[|[|s]]]]]; simpl in *; try discriminate; lia.
Qed.

(* The statement of C03 for the stop sequence: from EVERY well-formed state at the moment the
   stopper starts (any worker states, any channel contents, any pending pause tokens, any number
   of workers and WARC files), every execution is finite - at most [measure st] steps - and an
   execution that cannot be extended has reached the stopped state: the stop sequence is done,
   every worker has returned, every WARC file is renamed. *)
Theorem stop_terminates st ls st' :
  wf st -> s_pc st = 0 -> s_ackexit st = true -> run st ls = Some st' ->
  length ls <= measure st
  /\ ((forall l, step st' l = None) -> final st').
Proof.
  intros WF E0 HA HR. pose proof (start_inv st WF E0) as I.
  destruct (run_bounded ls _ _ I HR) as [HB I'].
  assert (HA' : s_ackexit st' = true).
  { clear - HA HR. revert st HA HR. induction ls as [|l r IH]; intros st HA HR; simpl in HR.
    - inversion HR; subst; auto.
    - destruct (step st l) as [s1|] eqn:E; [|discriminate]. apply (IH s1); auto.
      clear - E HA. destruct l; simpl in E;
        repeat match type of E with
               | context [match ?x with _ => _ end] => destruct x eqn:?; try discriminate
               end; try (inversion E; subst; simpl; auto; fail).
      unfold stopper in E. destruct (s_pc st) as [|[|[|[|[|[|[|[|[|[|p]]]]]]]]]]; try discriminate;
        repeat match type of E with context [if ?x then _ else _] => destruct x; try discriminate end;
        inversion E; subst; simpl; auto. }
  split; [lia|]. intros Hstuck.
  destruct (Nat.lt_ge_cases (s_pc st') PC_DONE) as [L|L].
  - destruct (progress st' I' HA' L) as (l & s2 & HS). rewrite Hstuck in HS. discriminate.
  - destruct I' as [WF' C1 C2 C3 C4 G1 G2 G3 G4 WR RS PC]. unfold PC_DONE in *.
    unfold final, PC_DONE. repeat split; try lia.
    + apply all_gone; auto; [apply G1|apply G2|apply G3|apply G4]; lia.
    + apply WR; lia.
    + apply RS; lia.
Qed.

(* ---- the code before "fix: a paused stage worker observes stop": a worker that is blocked
   acknowledging a pause never returns, the stopper waits for it forever ---- *)
Definition paused_state : sst :=
  SST 1 false 0 [0; 0; 0; 0] [W 1 WAck false; W 2 WIdle false; W 3 WIdle false; W 4 WIdle false]
      [false; false; false; false] false [WrOpen] 0.

Lemma stuck_paused : forall l, step (SST 1 false 0 [0; 0; 0; 0] [W 1 WAck false; W 2 WIdle false; W 3 WIdle false; W 4 WIdle false]
      [true; false; false; false] false [WrOpen] 1) l = None \/ l = LAckDone 0.
Proof.
  intros l. destruct l as [|j|j|j|j|j|j|j|j|]; simpl; auto;
    try (destruct j as [|[|[|[|j]]]]; simpl; auto; destruct j; simpl; auto).
Qed.

Theorem stop_orig_refuted :
  wf paused_state /\ s_pc paused_state = 0 /\
  exists ls st', run paused_state ls = Some st' /\ ~ final st'
    /\ (forall l, l <> LAckDone 0 -> step st' l = None).
Proof.
  split; [repeat split; simpl; auto; repeat constructor; simpl; lia|]. split; [reflexivity|].
  exists [LStopper]. eexists. split; [reflexivity|]. split.
  - intros [H _]. simpl in H. discriminate.
  - intros l Hl. destruct (stuck_paused l) as [H|H]; [exact H|contradiction].
Qed.

(* non-vacuity: a busy pipeline with a paused worker, stopped with the fixed workers *)
Definition busy_state : sst :=
  SST 2 true 1 [1; 0; 2; 0]
      [W 1 WAck false; W 1 WBusy true; W 2 WSend false; W 2 WIdle true; W 3 WIdle false; W 3 WBusy false; W 4 WSend false; W 4 WIdle false]
      [false; false; false; false] false [WrOpen; WrOpen] 0.

Example busy_stops :
  wf busy_state /\ s_pc busy_state = 0 /\
  match run busy_state
     [LStopper; LAckExit 0; LWork 1; LAbort 1; LStopper;
      LStopper; LAbort 2; LPause 3; LAckExit 3; LStopper; LStopper;
      LStopper; LTake 4; LWork 4; LSend 4; LExit 4; LWork 5; LAbort 5; LStopper;
      LStopper; LSend 6; LTake 6; LWork 6; LSend 6; LExit 6; LExit 7; LStopper; LStopper] with
  | Some st => s_pc st = PC_DONE /\ forallb (fun w => match w_st w with WGone => true | _ => false end) (s_workers st) = true
               /\ s_writers st = [WrRenamed; WrRenamed]
  | None => False
  end.
Proof. split; [repeat split; simpl; auto; repeat constructor; simpl; lia|]. split; [reflexivity|]. vm_compute. auto. Qed.
