(* Harness side of the crash/restart model (C04): run 1 killed or stopped, durable state inspected
   on disk, run 2 on the same job directory. *)
From ZenoV Require Import Lib.Harness Pipe.CrashLts Pipe.CrashSeen.
Open Scope N_scope.

Record ccase := CC {
  k_all : list N;            (* rows in the queue at the start of run 1 *)
  k_claimed : list N;        (* run 1: rows handed out (lq.claimed events) *)
  k_finished1 : list N;      (* run 1: seeds the finisher reported (fin.finished events) *)
  k_deleted1 : list N;       (* run 1: rows deleted (lq.deleted events) *)
  k_preprocessed : list N;   (* run 1: seeds that ENTERED the preprocessor (the seen-store may have been written) *)
  k_fresh1 : list N;         (* lq.db after run 1: rows with status FRESH *)
  k_claimed1 : list N;       (* lq.db after run 1: rows with status CLAIMED *)
  k_fetched2 : list N;       (* run 2: seeds whose own URL was fetched *)
  k_left2 : list N;          (* lq.db after run 2 *)
  k_complete2 : bool;        (* run 2 reached quiescence and stopped cleanly *)
  k_kill : bool;             (* run 1 ended by SIGKILL (false: graceful stop) *)
  k_exact : bool;            (* the kill was fired from a hook point, so the event log is complete *)
  k_missing : N;             (* acknowledged captures of seeds deleted in run 1 that are not among the complete records on disk *)
  k_midfile : N;             (* WARC files with a defect that is not a truncated tail *)
  k_badfinish : N;           (* seeds reported finished (either run) while a node of their tree still awaited fetching or post-processing *)
  k_sc : bool;               (* the job runs with the local seencheck (no --disable-seencheck) *)
  k_fetched1 : list N        (* run 1: seeds for whose own URL a request was sent (arch.fetch of the seed itself) *)
}.

Definition subset (a b : list N) : bool := forallb (fun x => mem x b) a.

(* the durable rows the model predicts from the events of run 1 *)
Definition rows_pred (c : ccase) : list row :=
  delete_rows (k_deleted1 c) (set_claimed true (k_claimed c) (c_rows (init true (k_all c)))).

Definition present (c : ccase) : list N := k_fresh1 c ++ k_claimed1 c.

Definition durable_agrees (c : ccase) : bool :=
  (* deleted rows are gone; a row that is gone was reported finished *)
  forallb (fun id => negb (mem id (present c))) (k_deleted1 c)
  && forallb (fun id => mem id (present c) || mem id (k_finished1 c)) (k_all c)
  (* rows the model still holds exist on disk *)
  && forallb (fun r => mem (r_id r) (present c) || mem (r_id r) (k_finished1 c)) (rows_pred c)
  (* (a row can be found CLAIMED without a logged hand-out: the kill may fall between the commit of the
     claim and the hook that logs it, whichever goroutine fires the kill - so that direction is not compared) *)
  (* after a kill nothing resets a row: handed out and not deleted = still CLAIMED *)
  && (negb (k_kill c) ||
      forallb (fun r => negb (r_claimed r) || mem (r_id r) (k_claimed1 c) || negb (mem (r_id r) (present c))) (rows_pred c)).

(* ---- the second model (Pipe/CrashSeen.v) replays the observed history ----
   run 1 as its event log tells it (hand-outs, seeds that entered the preprocessor, finish reports - a finished seed's own
   URL counts as dealt with -, the delete batch), the kill or stop, the restart, then every row found on disk driven
   through run 2 ([drive]: handed out, pre-processed, fetched unless the store says "seen", finished).  What the model
   then says about run 2 is compared with what the real run 2 did, in the directions that are sound whichever side of
   the seen-store write the kill fell on ([k_preprocessed] lists the seeds that ENTERED preprocess()):
   - a row the model fetches again (it never entered the preprocessor, or the seencheck is off) was fetched again;
   - with the seencheck on, a seed that was reported finished in run 1 but whose row was still on disk (the kill came
     before its delete batch) is NOT fetched a second time: the store holds it (C08 across a restart). *)
Definition uniq (l : list N) : list N :=
  fold_right (fun x acc => if mem x acc then acc else x :: acc) [] l.

Definition run1_labels (c : ccase) : list slabel :=
  let worked := uniq (k_preprocessed c ++ k_finished1 c) in
  [SClaim (uniq (k_claimed c ++ worked))]
  ++ flat_map (fun id => [SInsert id; SPre id]) worked
  ++ flat_map (fun id => [SCapture id; SFinish id]) (uniq (k_finished1 c))
  ++ [SDelete (uniq (k_deleted1 c)); (if k_kill c then SCrash else SStop); SRestart].

Definition after_run1 (c : ccase) : option sst := srun (sinit (k_sc c) (uniq (k_all c))) (run1_labels c).

Definition run2_pred (c : ccase) : option (list N * list N) :=   (* (fetched again, skipped as seen) *)
  match after_run1 c with
  | Some s =>
    match drive s (srow_list s) with
    | Some s2 => let w1 := s_warc s in
                 let fetched := skipn (length w1) (s_warc s2) in
                 Some (fetched, filter (fun id => negb (mem id fetched)) (srow_list s))
    | None => None
    end
  | None => None
  end.

(* rows must have been claimed before they were worked on and finished before they were deleted, or the log is not a
   history of the model at all *)
Definition log_wellformed (c : ccase) : bool :=
  subset (k_deleted1 c) (k_finished1 c) && subset (k_finished1 c) (k_all c) && subset (k_preprocessed c) (k_all c)
  && subset (k_claimed c) (k_all c).

Definition seen_model_agrees (c : ccase) : bool :=
  negb (log_wellformed c) ||
  match run2_pred c with
  | None => false                       (* the model cannot replay a well-formed observed history *)
  | Some (fetched, skipped) =>
    (* the model's durable rows after run 1 = the rows it would hand out again: all exist on disk or were finished *)
    negb (k_complete2 c) ||
    (forallb (fun id => negb (mem id (present c)) || mem id (k_preprocessed c) || mem id (k_fetched2 c)) fetched
     && forallb (fun id => negb (k_sc c) || negb (mem id (k_finished1 c)) || negb (mem id (present c)) || negb (mem id (k_fetched2 c))) skipped)
  end.

Definition diff_case (c : ccase) : bool := negb (durable_agrees c) || negb (seen_model_agrees c).
Definition diffs (l : list ccase) := bad_idx diff_case l.

(* m0: nothing stays stranded: after the restart every remaining row is crawled and deleted *)
Definition mon_no_stranded (c : ccase) : bool :=
  negb (k_complete2 c) || match k_left2 c with [] => true | _ => false end.
(* m1: finished implies captured *)
Definition mon_captured (c : ccase) : bool := k_missing c =? 0.
(* the rows that were in the queue and had not been reported finished in run 1 - whether or not they are still in the
   database after run 1 (a row that vanished without a finish report is exactly what must not happen) *)
Definition unfinished (c : ccase) : list N :=
  filter (fun id => negb (mem id (k_finished1 c))) (k_all c).
(* m2: every row that was not reported finished and had not been pre-processed is fetched again *)
Definition mon_refetched (c : ccase) : bool :=
  negb (k_complete2 c) ||
  forallb (fun id => mem id (k_preprocessed c) || mem id (k_fetched2 c)) (present c ++ unfinished c).
(* m3: ... and so is every row that HAD been pre-processed (its URL is in the seen-store already) *)
Definition mon_refetched_preprocessed (c : ccase) : bool :=
  negb (k_complete2 c) ||
  forallb (fun id => negb (mem id (k_preprocessed c)) || mem id (k_fetched2 c)) (present c ++ unfinished c).
(* m4: the WARC files are readable record by record up to the last complete record *)
Definition mon_readable (c : ccase) : bool := k_midfile c =? 0.

(* m5: a row is deleted only for a seed whose whole tree is done - also when the finish falls into a graceful stop
   (a frozen reactor rejects the feedback: the seed must then stay unfinished, its row is reset and crawled again) *)
Definition mon_finish_done (c : ccase) : bool := k_badfinish c =? 0.

(* m6: in the FIRST run of a job (nothing is in the seen-store yet, all rows are in scope and distinct) a row is deleted
   only for a seed whose own URL was requested in that run - C04_first_run_deleted_was_fetched: deleted => captured or
   failed for good, and both are outcomes of a request *)
Definition mon_deleted_requested (c : ccase) : bool := subset (k_deleted1 c) (k_fetched1 c).

Definition mons (l : list ccase) :=
  mon_idx [mon_no_stranded; mon_captured; mon_refetched; mon_refetched_preprocessed; mon_readable; mon_finish_done;
           mon_deleted_requested] l.
