(* C03 - proofs about Pipe/LimiterWait.v: the wait of an archiver worker for its rate-limiter token is bounded by
   the bucket itself (penalty cap + refill floor), whatever the host answered before.  Uses C13's invariant [wf]
   (Rate/BucketProofs.v: min(1/2, ideal) <= rate <= ideal, 0 <= tokens <= cap in every reachable state). *)
From Coq Require Import Lia Lqa.
From ZenoV Require Import Rate.Bucket Rate.BucketProofs Pipe.LimiterWait Pipe.LimiterWaitHarness.
Open Scope Z_scope.

(* ---- no penalty is longer than 30 s ---- *)
Lemma penalty_ns_le k : penalty_ns k <= SEC30.
Proof. unfold penalty_ns. destruct (Z.ltb_spec (penalty_raw k) SEC30); lia. Qed.

(* lastRefill and penaltyUntil of a bucket whose operations all happened at or before T *)
Definition timed (T : Z) (b : bucket) : Prop := last b <= T /\ pen b <= T + SEC30.

Lemma sec30_pos : 0 < SEC30.
Proof. unfold SEC30, NS. lia. Qed.

Lemma refill_timed T now b : now <= T -> timed T b -> timed T (refill now b).
Proof.
  intros Hn [Hl Hp]. unfold refill.
  destruct (now <? pen b); [split; assumption|].
  destruct ((if last b <? pen b then pen b else last b) <? now); split; cbn [last pen]; assumption.
Qed.

Lemma step_timed T b o : op_time o <= T -> timed T b -> timed T (fst (step b o)).
Proof.
  intros Ho Ht. destruct o as [t|t s|t]; cbn [op_time] in Ho; cbn [step step_with fst].
  - unfold try. pose proof (refill_timed T t b Ho Ht) as [Hl Hp].
    destruct (Qle_bool 1 (tokens (refill t b))); cbn [fst]; split; cbn [set_tokens last pen]; assumption.
  - destruct Ht as [Hl Hp]. unfold fail, fail_with.
    destruct (is_throttle s).
    + split; cbn [last pen]; [assumption|]. pose proof (penalty_ns_le (fails b + 1)). lia.
    + destruct (500 <=? s); split; cbn [last pen]; assumption.
  - destruct Ht as [Hl Hp]. unfold succ. destruct (pen b <? t); split; cbn [last pen]; assumption.
Qed.

Lemma run_timed T h : forall b, before T h -> timed T b -> timed T (final b h).
Proof.
  induction h as [|o r IH]; intros b Hb Ht; [exact Ht|].
  rewrite final_cons. inversion Hb as [|? ? Ho Hr]; subst.
  apply IH; [exact Hr|]. apply step_timed; assumption.
Qed.

Lemma new_bucket_timed c r t0 T : time_zero <= t0 -> t0 <= T -> timed T (new_bucket c r t0).
Proof.
  intros H0 H1. split; cbn [new_bucket last pen]; [assumption|]. pose proof sec30_pos. lia.
Qed.

(* ---- the refill at a covered instant ---- *)
Lemma floor_rate_nonneg r : (0 <= r)%Q -> (0 <= floor_rate r)%Q.
Proof. apply Qmin_half_nonneg. Qed.

Lemma secs_pos_inv d : (0 < secs d)%Q -> 0 < d.
Proof.
  intros H. destruct (Z.ltb_spec 0 d) as [Hd|Hd]; [exact Hd|exfalso].
  assert (Hle : (secs d <= secs 0)%Q) by (apply secs_le; exact Hd).
  rewrite secs_0 in Hle. lra.
Qed.

Lemma Qmult_le_both a a' x x' : (0 <= a)%Q -> (a <= a')%Q -> (0 <= x)%Q -> (x <= x')%Q -> (a * x <= a' * x')%Q.
Proof.
  intros Ha Haa Hx Hxx.
  apply Qle_trans with (a * x')%Q.
  - apply mul_le_mono_nonneg; assumption.
  - rewrite (Qmult_comm a x'), (Qmult_comm a' x'). apply mul_le_mono_nonneg; [lra|assumption].
Qed.

Theorem refill_covered_lemma b T t k :
  wf b -> timed T b -> (inject_Z k <= cap b)%Q -> covered (ideal b) k T t ->
  (inject_Z k <= tokens (refill t b))%Q.
Proof.
  intros Hwf [Hl Hp] Hcap Hcov.
  destruct (Z.ltb_spec 0 k) as [Hk|Hk].
  2:{ pose proof (refill_wf t b Hwf) as (H0 & _).
      apply Qle_trans with 0%Q; [|exact H0].
      change 0%Q with (inject_Z 0). rewrite <- Zle_Qle. exact Hk. }
  assert (Hk1 : (1 <= inject_Z k)%Q) by (change 1%Q with (inject_Z 1); rewrite <- Zle_Qle; lia).
  unfold covered in Hcov.
  pose proof (wf_rate_nonneg b Hwf) as Hr.
  destruct Hwf as (H0 & H1 & Hlo & Hhi & Hid & Hf).
  pose proof (floor_rate_nonneg (ideal b) Hid) as Hfl.
  (* the covered instant lies after the longest penalty *)
  assert (Hpos : 0 < t - (T + SEC30)).
  { apply secs_pos_inv.
    destruct (Qlt_le_dec 0 (secs (t - (T + SEC30)))) as [Hs|Hs]; [exact Hs|exfalso].
    assert (secs (t - (T + SEC30)) * floor_rate (ideal b) <= 0 * floor_rate (ideal b))%Q
      by (apply Qmult_le_compat_r; assumption).
    lra. }
  pose proof sec30_pos as H30.
  unfold refill.
  destruct (Z.ltb_spec t (pen b)) as [Hlt|_]; [lia|].
  set (base := if last b <? pen b then pen b else last b).
  assert (Hbase : base <= T + SEC30) by (subst base; destruct (last b <? pen b); lia).
  destruct (Z.ltb_spec base t) as [_|Hge]; [|lia].
  cbn [tokens].
  apply Q.min_glb; [exact Hcap|].
  assert (Hs1 : (0 <= secs (t - (T + SEC30)))%Q) by (apply secs_nonneg; lia).
  assert (Hs2 : (secs (t - (T + SEC30)) <= secs (t - base))%Q) by (apply secs_le; lia).
  assert (Hm : (secs (t - (T + SEC30)) * floor_rate (ideal b) <= secs (t - base) * rate b)%Q).
  { apply Qmult_le_both; try assumption. }
  lra.
Qed.

(* ---- a refill is idempotent at its own instant, so the polls of several goroutines at one instant share it ---- *)
Definition settled (t : Z) (b : bucket) : Prop :=
  (t <? pen b) = true \/ ((if last b <? pen b then pen b else last b) <? t) = false.

Lemma settled_refill_id t b : settled t b -> refill t b = b.
Proof.
  intros [H|H]; unfold refill.
  - rewrite H. reflexivity.
  - destruct (t <? pen b); [reflexivity|]. rewrite H. reflexivity.
Qed.

Lemma refill_settled t b : settled t (refill t b).
Proof.
  unfold refill.
  destruct (t <? pen b) eqn:E1; [left; exact E1|].
  destruct ((if last b <? pen b then pen b else last b) <? t) eqn:E2.
  - right. cbn [last pen]. rewrite E1. apply Z.ltb_irrefl.
  - right. exact E2.
Qed.

Lemma settled_set_tokens t b x : settled t b -> settled t (set_tokens b x).
Proof. intros H; exact H. Qed.

Lemma try_refill t b : try t (refill t b) = try t b.
Proof. unfold try. rewrite (settled_refill_id t (refill t b) (refill_settled t b)). reflexivity. Qed.

Lemma polls_settled n t : forall b,
  settled t b -> (inject_Z (Z.of_nat n) <= tokens b)%Q -> snd (polls n t b) = Z.of_nat n.
Proof.
  induction n as [|m IH]; intros b Hs Htok; [reflexivity|].
  cbn [polls]. unfold try. rewrite (settled_refill_id t b Hs).
  assert (H1 : (1 <= tokens b)%Q).
  { apply Qle_trans with (inject_Z (Z.of_nat (S m))); [|exact Htok].
    change 1%Q with (inject_Z 1). rewrite <- Zle_Qle. lia. }
  apply Qle_bool_iff in H1. rewrite H1.
  specialize (IH (set_tokens b (tokens b - 1)%Q) (settled_set_tokens t b _ Hs)).
  destruct (polls m t (set_tokens b (tokens b - 1)%Q)) as [b2 c]. cbn [snd] in *.
  rewrite IH; [lia|].
  cbn [set_tokens tokens].
  rewrite Nat2Z.inj_succ in Htok. unfold Z.succ in Htok. rewrite inject_Z_plus in Htok.
  change (inject_Z 1) with 1%Q in Htok. lra.
Qed.

Lemma polls_granted n t b :
  (inject_Z (Z.of_nat n) <= tokens (refill t b))%Q -> snd (polls n t b) = Z.of_nat n.
Proof.
  intros H. destruct n as [|m]; [reflexivity|].
  assert (E : polls (S m) t b = polls (S m) t (refill t b)) by (cbn [polls]; rewrite try_refill; reflexivity).
  rewrite E. apply polls_settled; [apply refill_settled|exact H].
Qed.

(* ---- the theorems ---- *)

(* In EVERY reachable state of a host's bucket (any capacity c, any configured rate r, any history of polls, failure
   statuses and successes at any instants up to T): once the instant t is covered for n waiting goroutines - the 30 s
   a penalty can last at most have passed since T and the time after that is worth n tokens at the floor rate
   min(1/2, r) - a refill at t finds at least n tokens (n <= c) ... *)
Theorem limiter_tokens_lemma c r t0 h T t k :
  (0 <= c)%Q -> (0 <= r)%Q -> time_zero <= t0 -> t0 <= T -> before T h ->
  (inject_Z k <= c)%Q -> covered r k T t ->
  (inject_Z k <= tokens (refill t (final (new_bucket c r t0) h)))%Q.
Proof.
  intros Hc Hr Hz H0 Hb Hk Hcov.
  set (b := final (new_bucket c r t0) h).
  assert (Hwf : wf b) by (apply run_wf_lemma, new_bucket_wf; assumption).
  assert (Ht : timed T b) by (apply run_timed; [exact Hb|apply new_bucket_timed; assumption]).
  destruct (final_cap_ideal (new_bucket c r t0) h) as [Ecap Eid]. fold b in Ecap, Eid.
  cbn [new_bucket cap ideal] in Ecap, Eid.
  apply refill_covered_lemma with (T := T); try assumption.
  - rewrite Ecap. exact Hk.
  - rewrite Eid. exact Hcov.
Qed.

(* ... and the polls of all n waiting goroutines at t are granted: every worker blocked in the limiter's Wait() has its
   token, no matter how many 5xx / 429 answers the host gave before. *)
Theorem limiter_wait_bounded_lemma c r t0 h T t n :
  (0 <= c)%Q -> (0 <= r)%Q -> time_zero <= t0 -> t0 <= T -> before T h ->
  (inject_Z (Z.of_nat n) <= c)%Q -> covered r (Z.of_nat n) T t ->
  snd (polls n t (final (new_bucket c r t0) h)) = Z.of_nat n.
Proof.
  intros Hc Hr Hz H0 Hb Hk Hcov. apply polls_granted.
  apply limiter_tokens_lemma with (T := T); assumption.
Qed.

(* the usual configurations (at least half a token per second): 30 s + 2 s per waiting goroutine after the last answer *)
Lemma covered_usual r k T t : (1 # 2 <= r)%Q -> 0 <= k -> T + wait_bound_ns k <= t -> covered r k T t.
Proof.
  intros Hr Hk Ht. unfold covered, floor_rate, wait_bound_ns in *.
  rewrite Q.min_l by exact Hr.
  assert (Hs : (secs (2 * k * NS) <= secs (t - (T + SEC30)))%Q) by (apply secs_le; lia).
  assert (E : (secs (2 * k * NS) == 2 * inject_Z k)%Q).
  { unfold secs. rewrite !inject_Z_mult. change (inject_Z 2) with 2%Q. field.
    unfold NS, Qeq; simpl; lia. }
  rewrite E in Hs. lra.
Qed.

Theorem limiter_wait_bounded_usual_lemma c r t0 h T t n :
  (0 <= c)%Q -> (1 # 2 <= r)%Q -> time_zero <= t0 -> t0 <= T -> before T h ->
  (inject_Z (Z.of_nat n) <= c)%Q -> T + wait_bound_ns (Z.of_nat n) <= t ->
  snd (polls n t (final (new_bucket c r t0) h)) = Z.of_nat n.
Proof.
  intros Hc Hr Hz H0 Hb Hk Ht.
  apply limiter_wait_bounded_lemma with (T := T); try assumption; [lra|].
  apply covered_usual; [exact Hr|lia|exact Ht].
Qed.

Lemma coveredb_iff r k T t : coveredb r k T t = true <-> covered r k T t.
Proof. unfold coveredb, covered. apply Qle_bool_iff. Qed.

(* ---- the floor is what the bound rests on: a 5xx branch without it (rate * 2^-(n(n+1)/2) after n answers) leaves a
   worker waiting for hours after six answers 503, with the penalty long over and the bucket otherwise untouched ---- *)
Theorem limiter_wait_needs_floor_refuted :
  before 60000000 six_503 /\
  snd (try (60000000 + wait_bound_ns 1) (final bucket150 six_503)) = true /\
  snd (try (60000000 + wait_bound_ns 1) (final_nofloor bucket150 six_503)) = false /\
  snd (try (60000000 + 10 * HOUR) (final_nofloor bucket150 six_503)) = false.
Proof.
  split; [repeat constructor; cbn [op_time]; lia|].
  repeat split; vm_compute; reflexivity.
Qed.

(* non-vacuity: after the six answers the fixed bucket is at the floor with no token; two workers waiting are both
   served 34 s later, and not yet 1 s after the last answer *)
Example limiter_wait_nonvacuous :
  let b := final bucket150 six_503 in
  Qeq (rate b) (1 # 2) /\ Qeq (tokens b) 0 /\
  snd (polls 2 (60000000 + NS) b) = 0 /\
  snd (polls 2 (60000000 + wait_bound_ns 2) b) = 2.
Proof. repeat split; vm_compute; reflexivity. Qed.

(* ---- the monitor of the "limwait" leg is this theorem: whenever the monitor's hypotheses hold on a case's input, the
   theorem says that all n waiting goroutines are granted, which is what the monitor then demands of the real bucket ---- *)
Lemma op_of_time x : op_time (op_of x) = fst x.
Proof.
  destruct x as [t k]. unfold op_of. destruct (k =? -1); [reflexivity|]. destruct (k =? 0); reflexivity.
Qed.

Theorem limwait_monitor_lemma (cs : lcase) :
  hyps cs = true ->
  snd (polls (Z.to_nat (lc_n cs)) (lc_t cs)
         (final (new_bucket (lc_cap cs) (lc_rate cs) (lc_t0 cs)) (map op_of (lc_ops cs)))) = lc_n cs.
Proof.
  unfold hyps. rewrite !andb_true_iff.
  intros [[[[[[[Hc Hr] Hz] H0] Hops] Hn] Hk] Hcov].
  apply Qle_bool_iff in Hc. apply Qle_bool_iff in Hr. apply Qle_bool_iff in Hk.
  apply Z.leb_le in Hz. apply Z.leb_le in H0. apply Z.leb_le in Hn.
  apply coveredb_iff in Hcov.
  rewrite <- (Z2Nat.id (lc_n cs)) at 2 by exact Hn.
  apply limiter_wait_bounded_lemma with (T := lc_T cs); try assumption.
  - unfold before. apply Forall_forall. intros o Ho.
    apply in_map_iff in Ho. destruct Ho as [x [Ex Hin]]. subst o. rewrite op_of_time.
    rewrite forallb_forall in Hops. apply Z.leb_le. apply Hops. exact Hin.
  - rewrite Z2Nat.id by exact Hn. exact Hk.
  - rewrite Z2Nat.id by exact Hn. exact Hcov.
Qed.
