(* Invariants of the pipeline LTS (Pipe/PipeLts.v): ownership, token accounting, no panic,
   finished exactly once and only when the tree is done, deadlock freedom.
   The per-seed facts about the stages come in as two section hypotheses whose types are the
   statements of Stage/PassSpec.v; Pipe/PipeClosed.v instantiates them with the proved lemmas. *)
From Coq Require Import Lia Permutation.
From ZenoV Require Import Tree.Item Tree.ItemSpec Stage.Pass Stage.PassSpec Pipe.PipeLts.
Open Scope N_scope.

(* ---------------------------------------------------------------- lists of places *)
Lemma upd_length {A} k (f : A -> A) l : length (upd k f l) = length l.
Proof. revert k; induction l as [|x r IH]; intros [|k]; simpl; auto. Qed.

Lemma nth_upd_same {A} k (f : A -> A) l d : (k < length l)%nat -> nth k (upd k f l) d = f (nth k l d).
Proof. revert k; induction l as [|x r IH]; intros [|k] H; simpl in *; try lia; auto. apply IH; lia. Qed.

Lemma nth_upd_other {A} j k (f : A -> A) l d : j <> k -> nth j (upd k f l) d = nth j l d.
Proof. revert j k; induction l as [|x r IH]; intros [|j] [|k] H; simpl; auto; try congruence. Qed.

Lemma upd_perm {A} k (f : list A -> list A) (pl : list (list A)) : (k < length pl)%nat ->
  exists oth, Permutation (concat pl) (nth k pl [] ++ oth)
              /\ Permutation (concat (upd k f pl)) (f (nth k pl []) ++ oth).
Proof.
  revert k; induction pl as [|q r IH]; intros [|k] H; simpl in *; try lia.
  - exists (concat r). split; apply Permutation_refl.
  - destruct (IH k ltac:(lia)) as [oth [P1 P2]]. exists (q ++ oth). split.
    + rewrite P1. rewrite !app_assoc. apply Permutation_app_tail. apply Permutation_app_comm.
    + rewrite P2. rewrite !app_assoc. apply Permutation_app_tail. apply Permutation_app_comm.
Qed.

Lemma take_spec id l x rest : take id l = Some (x, rest) ->
  s_id x = id /\ Permutation l (x :: rest) /\ (forall y, In y rest -> In y l) /\ In x l
  /\ length l = S (length rest).
Proof.
  revert x rest; induction l as [|a r IH]; intros x rest H; simpl in H; [discriminate|].
  destruct (s_id a =? id) eqn:E.
  - inversion H; subst. apply N.eqb_eq in E. repeat split; auto; try (intros; simpl; auto); simpl; auto.
  - destruct (take id r) as [[y r']|] eqn:T; [|discriminate]. inversion H; subst.
    destruct (IH _ _ eq_refl) as (I1 & I2 & I3 & I4 & I5). repeat split; auto.
    + rewrite I2. apply perm_swap.
    + intros z [Hz|Hz]; simpl; auto.
    + simpl; auto.
    + simpl. lia.
Qed.

Lemma take_some x l : In x l -> exists y rest, take (s_id x) l = Some (y, rest).
Proof.
  induction l as [|a r IH]; intros H; [destruct H|]. simpl.
  destruct (s_id a =? s_id x) eqn:E; [eauto|].
  destruct H as [H|H]; [subst; rewrite N.eqb_refl in E; discriminate|].
  destruct (IH H) as (y & rest & T). rewrite T. eauto.
Qed.

Lemma remove1_perm id l : In id l -> Permutation l (id :: remove1 id l).
Proof.
  induction l as [|a r IH]; intros H; [destruct H|]. simpl.
  destruct (a =? id) eqn:E; [apply N.eqb_eq in E; subst; apply Permutation_refl|].
  destruct H as [H|H]; [subst; rewrite N.eqb_refl in E; discriminate|].
  rewrite (IH H) at 1. apply perm_swap.
Qed.

(* Permutation goals over lists of ids: by counting occurrences *)
Lemma cons_app1 {A} (a : A) l : a :: l = [a] ++ l.
Proof. reflexivity. Qed.
Ltac cons_conv z :=
  repeat match goal with
         | |- context [count_occ N.eq_dec (?a :: ?l) z] =>
           lazymatch l with [] => fail | _ => rewrite (cons_app1 a l) end
         | H : context [count_occ N.eq_dec (?a :: ?l) z] |- _ =>
           lazymatch l with [] => fail | _ => rewrite (cons_app1 a l) in H end
         end.
Ltac permN :=
  rewrite ?map_app in *; cbn [map fst snd] in *;
  repeat match goal with H : @Permutation N ?a ?b |- _ => generalize (proj1 (Permutation_count_occ N.eq_dec a b) H); clear H; intro H end;
  apply (Permutation_count_occ N.eq_dec);
  let z := fresh "z" in intro z;
  repeat match goal with H : forall x, count_occ N.eq_dec _ x = count_occ N.eq_dec _ x |- _ => specialize (H z) end;
  cons_conv z; repeat (progress (rewrite ?count_occ_app in *; cons_conv z)); simpl app in *; lia.

Ltac psimpl := cbn [p_places p_panicked p_src p_tokens p_table p_finished p_w p_cfg set_places set_panic] in *.

Local Arguments upd : simpl never.
Local Arguments seed0 : simpl never.
Local Arguments capacity : simpl never.

Section Pipe.
Hypothesis H_seed0 : seed0_inv_stmt.
Hypothesis H_pass : pass_preserves_stmt.

(* what is known about a seed, by the place it is in *)
Definition sinv (c : cfg) (k : nat) (x : sd) : Prop :=
  if Nat.leb k 3 then Inv (s_tree x) (s_next x)
  else if Nat.leb k 5 then
    exists t0, Inv t0 (s_next x) /\ pre_worker (s_or x) t0 = Ok (s_tree x)
  else if Nat.leb k 7 then
    exists t0 t1, Inv t0 (s_next x) /\ pre_worker (s_or x) t0 = Ok t1
                  /\ arch_worker (s_or x) t1 = Ok (s_tree x)
  else
    exists t0 n0 t1 t2, Inv t0 n0 /\ pre_worker (s_or x) t0 = Ok t1 /\ arch_worker (s_or x) t1 = Ok t2
                        /\ post_worker c (s_or x) t2 n0 = Ok (s_tree x, s_next x).

Record GInv (s : pst) : Prop := {
  g_len : length (p_places s) = NPLACES;
  g_nopanic : p_panicked s = false;
  g_nodup : NoDup (flight_ids s ++ map fst (p_finished s) ++ map row_id (p_src s));
  g_table : Permutation (flight_ids s) (p_table s);
  g_tokens : p_tokens s = length (p_table s);
  g_bound : (p_tokens s <= p_w s)%nat;
  g_sinv : forall k x, In x (place k s) -> sinv (p_cfg s) k x;
  g_done : forall id t, In (id, t) (p_finished s) -> no_pending t = true;
  g_cap : forall k, (k < NPLACES)%nat -> (length (place k s) <= capacity (p_w s) k)%nat
}.

Lemma init_ginv w c rows : NoDup (map row_id rows) -> GInv (init w c rows).
Proof.
  intros ND. constructor; simpl.
  - reflexivity.
  - reflexivity.
  - exact ND.
  - apply Permutation_refl.
  - reflexivity.
  - lia.
  - intros k x H. unfold place in H. simpl in H.
    do 10 (destruct k as [|k]; [destruct H|]). destruct k; destruct H.
  - intros id t [].
  - intros k Hk. unfold place. simpl.
    do 10 (destruct k as [|k]; [simpl; lia|]). destruct k; simpl; lia.
Qed.

(* -------- what one pass gives, stage by stage (unfolding [pass] in H_pass) -------- *)
Lemma pass_pre (c : cfg) o t next : Inv t next -> exists t1, pre_worker o t = Ok t1.
Proof.
  intros HI. destruct (H_pass c o t next HI) as (t' & n' & d & HP & _).
  unfold pass in HP. destruct (pre_worker o t) as [t1|w]; [eauto|discriminate].
Qed.
Lemma pass_arch (c : cfg) o t next t1 : Inv t next -> pre_worker o t = Ok t1 -> exists t2, arch_worker o t1 = Ok t2.
Proof.
  intros HI H1. destruct (H_pass c o t next HI) as (t' & n' & d & HP & _).
  unfold pass in HP. rewrite H1 in HP. destruct (arch_worker o t1) as [t2|w]; [eauto|discriminate].
Qed.
Lemma pass_post c o t next t1 t2 : Inv t next -> pre_worker o t = Ok t1 -> arch_worker o t1 = Ok t2 ->
  exists t3 n3, post_worker c o t2 next = Ok (t3, n3).
Proof.
  intros HI H1 H2. destruct (H_pass c o t next HI) as (t' & n' & d & HP & _).
  unfold pass in HP. rewrite H1, H2 in HP.
  destruct (post_worker c o t2 next) as [[t3 n3]|w]; [eauto|discriminate].
Qed.
Lemma pass_fin c o t next t1 t2 t3 n3 : Inv t next -> pre_worker o t = Ok t1 -> arch_worker o t1 = Ok t2 ->
  post_worker c o t2 next = Ok (t3, n3) ->
  exists t4 d, fin_worker t3 = Ok (t4, d)
    /\ (d = DFeedback -> Inv t4 n3) /\ (d = DFinish -> no_pending t4 = true).
Proof.
  intros HI H1 H2 H3. destruct (H_pass c o t next HI) as (t' & n' & d & HP & _ & HF & HD).
  unfold pass in HP. rewrite H1, H2, H3 in HP.
  destruct (fin_worker t3) as [[t4 d4]|w]; [|discriminate].
  inversion HP; subst. exists t', d. split; auto. split; [intros E; apply HF; exact E|intros E; apply HD; exact E].
Qed.

(* -------- flight ids under updates -------- *)
Lemma flight_upd s k f : (k < length (p_places s))%nat ->
  exists oth, Permutation (flight_ids s) (map s_id (place k s) ++ oth)
   /\ Permutation (map s_id (concat (upd k f (p_places s)))) (map s_id (f (place k s)) ++ oth).
Proof.
  intros H. destruct (upd_perm k f (p_places s) H) as (oth & P1 & P2).
  exists (map s_id oth). unfold flight_ids, in_flight, place. split.
  - rewrite P1. rewrite map_app. apply Permutation_refl.
  - rewrite P2. rewrite map_app. apply Permutation_refl.
Qed.

Lemma NoDup_app_l {A} (l r : list A) : NoDup (l ++ r) -> NoDup l.
Proof. induction l as [|a l IH]; simpl; intros H; [constructor|]. inversion H; subst. constructor; [|auto]. intros Hin. apply H2. apply in_or_app; auto. Qed.
Lemma NoDup_app_r {A} (l r : list A) : NoDup (l ++ r) -> NoDup r.
Proof. induction l as [|a l IH]; simpl; intros H; [exact H|]. inversion H; subst. auto. Qed.

Lemma NoDup_app_disjoint {A} (l r : list A) x : NoDup (l ++ r) -> In x l -> In x r -> False.
Proof.
  induction l as [|a l IH]; simpl; intros H Hl Hr; [destruct Hl|]. inversion H; subst.
  destruct Hl as [->|Hl]; [apply H2; apply in_or_app; auto|auto].
Qed.

Lemma NoDup_perm_app {A} (l l' r : list A) : Permutation l l' -> NoDup (l ++ r) -> NoDup (l' ++ r).
Proof. intros P. apply Permutation_NoDup. apply Permutation_app_tail. exact P. Qed.

(* moving a seed (same id) from place k to another place j keeps the multiset of ids *)
Lemma move_ids s k j x y rest :
  length (p_places s) = NPLACES -> (k < NPLACES)%nat -> (j < NPLACES)%nat -> j <> k ->
  take (s_id x) (place k s) = Some (x, rest) -> s_id y = s_id x ->
  Permutation (map s_id (concat (upd j (fun q => q ++ [y]) (upd k (fun _ => rest) (p_places s))))) (flight_ids s).
Proof.
  intros HL Hk Hj Hjk HT Hid.
  destruct (take_spec _ _ _ _ HT) as (_ & PT & _).
  destruct (flight_upd s k (fun _ => rest) ltac:(lia)) as (oth & P1 & P2).
  set (pl' := upd k (fun _ => rest) (p_places s)) in *.
  assert (HL' : (j < length pl')%nat) by (unfold pl'; rewrite upd_length; lia).
  destruct (upd_perm j (fun q => q ++ [y]) pl' HL') as (oth2 & Q1 & Q2).
  pose proof (Permutation_map s_id Q1) as E. pose proof (Permutation_map s_id PT) as PT'.
  rewrite Q2. clear Q2 Q1 PT. rewrite ?map_app in *. cbn [map] in *. rewrite Hid. permN.
Qed.

Lemma place_after_move s k j (y : sd) rest i : length (p_places s) = NPLACES -> (k < NPLACES)%nat -> (j < NPLACES)%nat -> j <> k ->
  nth i (upd j (fun q => q ++ [y]) (upd k (fun _ => rest) (p_places s))) [] =
  if Nat.eqb i j then place j s ++ [y] else if Nat.eqb i k then rest else place i s.
Proof.
  intros HL Hk Hj Hjk. unfold place.
  destruct (Nat.eqb_spec i j) as [->|Hij].
  - rewrite nth_upd_same by (rewrite upd_length; lia). rewrite nth_upd_other by auto. reflexivity.
  - rewrite nth_upd_other by auto.
    destruct (Nat.eqb_spec i k) as [->|Hik].
    + rewrite nth_upd_same by lia. reflexivity.
    + rewrite nth_upd_other by auto. reflexivity.
Qed.

Lemma sinv_mono c k k' x : Nat.leb k 3 = true -> Nat.leb k' 3 = true -> sinv c k x -> sinv c k' x.
Proof. unfold sinv. intros -> ->. auto. Qed.

(* the stage applied on leaving place k never panics and establishes the next place's invariant *)
Lemma stage_ok c k o x : (k < 9)%nat -> sinv c k x ->
  exists y, stage c k o x = Ok y /\ s_id y = s_id x /\ sinv c (S k) y.
Proof.
  intros Hk HS.
  destruct k as [|[|[|[|[|[|[|[|[|k]]]]]]]]]; try lia; unfold stage; unfold sinv in *; simpl in *.
  - exists x; auto.
  - exists x; auto.
  - exists x; auto.
  - destruct (pass_pre c o _ _ HS) as (t1 & H1). rewrite H1. eexists; split; [reflexivity|]. simpl. split; auto.
    exists (s_tree x). auto.
  - exists x; auto.
  - destruct HS as (t0 & HI & H1). destruct (pass_arch c _ _ _ _ HI H1) as (t2 & H2). rewrite H2.
    eexists; split; [reflexivity|]. simpl. split; auto. exists t0, (s_tree x). auto.
  - exists x; auto.
  - destruct HS as (t0 & t1 & HI & H1 & H2). destruct (pass_post c _ _ _ _ _ HI H1 H2) as (t3 & n3 & H3). rewrite H3.
    eexists; split; [reflexivity|]. simpl. split; auto. exists t0, (s_next x), t1, (s_tree x). auto.
  - exists x; auto.
Qed.

Lemma fin_ok c x : sinv c 9 x ->
  exists t d, fin_worker (s_tree x) = Ok (t, d)
    /\ (d = DFeedback -> Inv t (s_next x)) /\ (d = DFinish -> no_pending t = true).
Proof.
  unfold sinv; simpl. intros (t0 & n0 & t1 & t2 & HI & H1 & H2 & H3).
  destruct (pass_fin _ _ _ _ _ _ _ _ HI H1 H2 H3) as (t4 & d & HF & A & B). eauto.
Qed.

Lemma in_flight_place s k x : In x (place k s) -> In (s_id x) (flight_ids s).
Proof.
  unfold place, flight_ids, in_flight. intros H. apply in_map. apply in_concat.
  exists (nth k (p_places s) []). split; auto.
  destruct (Nat.lt_ge_cases k (length (p_places s))) as [L|L].
  - apply nth_In; auto.
  - rewrite nth_overflow in H by lia. destruct H.
Qed.

(* -------- the invariant is preserved by every step -------- *)
Lemma step_ginv s l s' : GInv s -> step s l = Some s' -> GInv s'.
Proof.
  intros G HS. destruct G as [GL GP GN GT GK GB GS GD GC].
  unfold step in HS. rewrite GP in HS.
  destruct l as [|k id o|id|].
  - (* LInsert *)
    destruct (p_src s) as [|[[id u] h] r] eqn:ES; [discriminate|].
    destruct (Nat.ltb (p_tokens s) (p_w s)) eqn:E1; [|discriminate].
    destruct (Nat.ltb (length (place 0 s)) (capacity (p_w s) 0)) eqn:E2; [|discriminate].
    cbn [andb] in HS.
    remember (SD id (fst (seed0 u h)) (snd (seed0 u h)) null_oracle 0) as x eqn:Ex.
    assert (Hxid : s_id x = id) by (subst x; reflexivity).
    inversion HS; subst s'; clear HS.
    apply Nat.ltb_lt in E1. apply Nat.ltb_lt in E2.
    destruct (flight_upd s 0 (fun q => q ++ [x]) ltac:(rewrite GL; unfold NPLACES; lia)) as (oth & P1 & P2).
    assert (PF : Permutation (map s_id (concat (upd 0 (fun q => q ++ [x]) (p_places s)))) (id :: flight_ids s)).
    { rewrite P2. clear P2. rewrite ?map_app. cbn [map]. rewrite Hxid. permN. }
    clear P1 P2.
    constructor; psimpl.
    + rewrite upd_length. exact GL.
    + reflexivity.
    + unfold flight_ids at 1, in_flight; psimpl.
      cbn [map] in GN. unfold row_id in GN at 2. cbn [fst] in GN.
      apply (Permutation_NoDup (l := (flight_ids s ++ map fst (p_finished s) ++ id :: map row_id r))); [|exact GN].
      clear GN GT. permN.
    + unfold flight_ids, in_flight; simpl. rewrite PF. constructor. exact GT.
    + rewrite GK. reflexivity.
    + lia.
    + intros k y HI. unfold place in HI; simpl in HI.
      destruct (Nat.eq_dec k 0) as [->|Hk].
      * rewrite nth_upd_same in HI by (rewrite GL; unfold NPLACES; lia).
        apply in_app_or in HI. destruct HI as [HI|[<-|[]]].
        -- apply (GS 0%nat). exact HI.
        -- subst x. unfold sinv; simpl. apply H_seed0.
      * rewrite nth_upd_other in HI by auto. apply (GS k). exact HI.
    + exact GD.
    + intros k Hk. unfold place; simpl.
      destruct (Nat.eq_dec k 0) as [->|Hk0].
      * rewrite nth_upd_same by (rewrite GL; unfold NPLACES; lia). rewrite app_length. simpl. unfold place in E2. lia.
      * rewrite nth_upd_other by auto. apply GC. exact Hk.
  - (* LMove *)
    destruct (Nat.ltb k 9) eqn:EK; [|discriminate]. apply Nat.ltb_lt in EK.
    destruct (take id (place k s)) as [[x rest]|] eqn:ET; [|discriminate].
    destruct (Nat.ltb (length (place (S k) s)) (capacity (p_w s) (S k))) eqn:EC; [|discriminate].
    apply Nat.ltb_lt in EC.
    destruct (take_spec _ _ _ _ ET) as (Hid & PT & Hrest & Hx & Hlen).
    destruct (stage_ok (p_cfg s) k o x EK (GS k x Hx)) as (y & HY & Hyid & HYS).
    rewrite HY in HS. inversion HS; subst s'; clear HS.
    assert (ET' : take (s_id x) (place k s) = Some (x, rest)) by (rewrite Hid; exact ET).
    pose proof (move_ids s k (S k) x y rest GL ltac:(unfold NPLACES; lia) ltac:(unfold NPLACES; lia) ltac:(lia) ET' Hyid) as PM.
    constructor; simpl; auto.
    + rewrite !upd_length. exact GL.
    + unfold flight_ids, in_flight; simpl. apply (NoDup_perm_app _ _ _ (Permutation_sym PM)). exact GN.
    + unfold flight_ids, in_flight; simpl. rewrite PM. exact GT.
    + intros i z HI. unfold place in HI; simpl in HI.
      rewrite (place_after_move s k (S k) y rest i GL) in HI by (unfold NPLACES; lia).
      destruct (Nat.eqb_spec i (S k)) as [->|Hi1].
      * apply in_app_or in HI. destruct HI as [HI|[<-|[]]]; [apply GS; exact HI|exact HYS].
      * destruct (Nat.eqb_spec i k) as [->|Hi2]; [apply GS; apply Hrest; exact HI|apply GS; exact HI].
    + intros i Hi. unfold place; simpl.
      rewrite (place_after_move s k (S k) y rest i GL) by (unfold NPLACES; lia).
      destruct (Nat.eqb_spec i (S k)) as [->|Hi1].
      * rewrite app_length; simpl. lia.
      * destruct (Nat.eqb_spec i k) as [->|Hi2]; [pose proof (GC k Hi); lia|apply GC; exact Hi].
  - (* LFin *)
    destruct (take id (place 9 s)) as [[x rest]|] eqn:ET; [|discriminate].
    destruct (take_spec _ _ _ _ ET) as (Hid & PT & Hrest & Hx & Hlen).
    destruct (fin_ok (p_cfg s) x (GS 9%nat x Hx)) as (t & d & HF & HFb & HFi).
    rewrite HF in HS.
    assert (ET' : take (s_id x) (place 9 s) = Some (x, rest)) by (rewrite Hid; exact ET).
    destruct d.
    + (* feedback *)
      destruct (Nat.ltb (length (place 0 s)) (capacity (p_w s) 0)) eqn:EC; [|discriminate].
      apply Nat.ltb_lt in EC. inversion HS; subst s'; clear HS.
      set (y := SD (s_id x) t (s_next x) (s_or x) (S (s_pass x))).
      pose proof (move_ids s 9 0 x y rest GL ltac:(unfold NPLACES; lia) ltac:(unfold NPLACES; lia) ltac:(lia) ET' eq_refl) as PM.
      constructor; simpl; auto.
      * rewrite !upd_length. exact GL.
      * unfold flight_ids, in_flight; simpl. apply (NoDup_perm_app _ _ _ (Permutation_sym PM)). exact GN.
      * unfold flight_ids, in_flight; simpl. rewrite PM. exact GT.
      * intros i z HI. unfold place in HI; simpl in HI.
        rewrite (place_after_move s 9 0 y rest i GL) in HI by (unfold NPLACES; lia).
        destruct (Nat.eqb_spec i 0) as [->|Hi1].
        -- apply in_app_or in HI. destruct HI as [HI|[<-|[]]]; [apply GS; exact HI|].
           unfold sinv; simpl. apply HFb. reflexivity.
        -- destruct (Nat.eqb_spec i 9) as [->|Hi2]; [apply GS; apply Hrest; exact HI|apply GS; exact HI].
      * intros i Hi. unfold place; simpl.
        rewrite (place_after_move s 9 0 y rest i GL) by (unfold NPLACES; lia).
        destruct (Nat.eqb_spec i 0) as [->|Hi1].
        -- rewrite app_length; simpl. lia.
        -- destruct (Nat.eqb_spec i 9) as [->|Hi2]; [pose proof (GC 9%nat Hi); lia|apply GC; exact Hi].
    + (* finish *)
      inversion HS; subst s'; clear HS.
      destruct (flight_upd s 9 (fun _ => rest) ltac:(rewrite GL; unfold NPLACES; lia)) as (oth & P1 & P2).
      pose proof (Permutation_map s_id PT) as PT'. cbn [map] in PT'.
      assert (PF : Permutation (flight_ids s) (s_id x :: map s_id (concat (upd 9 (fun _ => rest) (p_places s))))).
      { rewrite P2. clear P2 GT. permN. }
      assert (HinT : In (s_id x) (p_table s)).
      { apply (Permutation_in _ GT). apply (in_flight_place s 9). exact Hx. }
      pose proof (remove1_perm _ _ HinT) as PR.
      constructor; psimpl; auto.
      * rewrite upd_length. exact GL.
      * unfold flight_ids at 1, in_flight; psimpl.
        apply (Permutation_NoDup (l := flight_ids s ++ map fst (p_finished s) ++ map row_id (p_src s))); [|exact GN].
        clear P1 P2 PT' GT GN PR. permN.
      * unfold flight_ids at 1, in_flight; psimpl.
        clear P1 P2 PT' GN. permN.
      * rewrite GK. pose proof (Permutation_length (remove1_perm _ _ HinT)) as HL. simpl in HL. lia.
      * lia.
      * intros i z HI. unfold place in HI; simpl in HI.
        destruct (Nat.eq_dec i 9) as [->|Hi].
        -- rewrite nth_upd_same in HI by (rewrite GL; unfold NPLACES; lia). apply GS. apply Hrest. exact HI.
        -- rewrite nth_upd_other in HI by auto. apply GS. exact HI.
      * intros id' t' HI. apply in_app_or in HI. destruct HI as [HI|[HI|[]]]; [eapply GD; eauto|].
        inversion HI; subst. apply HFi. reflexivity.
      * intros i Hi. unfold place; simpl.
        destruct (Nat.eq_dec i 9) as [->|Hi9].
        -- rewrite nth_upd_same by (rewrite GL; unfold NPLACES; lia). pose proof (GC 9%nat Hi). unfold place in *. lia.
        -- rewrite nth_upd_other by auto. apply GC. exact Hi.
  - (* LDiscard: the first row goes from the queue straight to the finish reports *)
    destruct (p_src s) as [|[[id u] h] r] eqn:ES; [discriminate|].
    inversion HS; subst s'; clear HS.
    constructor; psimpl; auto.
    + unfold flight_ids, in_flight in *; psimpl.
      cbn [map] in GN. unfold row_id in GN at 2. cbn [fst] in GN.
      apply (Permutation_NoDup (l := (map s_id (concat (p_places s)) ++ map fst (p_finished s) ++ id :: map row_id r))); [|exact GN].
      clear GN GT. permN.
    + intros id' t' HI. apply in_app_or in HI. destruct HI as [HI|[HI|[]]]; [eapply GD; eauto|].
      inversion HI; subst. reflexivity.
Qed.

Lemma step_static s l s' : step s l = Some s' -> p_w s' = p_w s /\ p_cfg s' = p_cfg s.
Proof.
  unfold step. destruct (p_panicked s); [discriminate|].
  destruct l as [|k id o|id|].
  - destruct (p_src s) as [|[[a b] c] r]; [discriminate|].
    destruct (_ && _); [|discriminate]. intros H; inversion H; auto.
  - destruct (Nat.ltb k 9); [|discriminate]. destruct (take id (place k s)) as [[x rest]|]; [|discriminate].
    destruct (Nat.ltb _ _); [|discriminate]. destruct (stage _ _ _ _); intros H; inversion H; auto.
  - destruct (take id (place 9 s)) as [[x rest]|]; [|discriminate].
    destruct (fin_worker _) as [[t [|]]|]; try (intros H; inversion H; auto; fail).
    destruct (Nat.ltb _ _); [|discriminate]. intros H; inversion H; auto.
  - destruct (p_src s) as [|[[a b] c] r]; [discriminate|]. intros H; inversion H; auto.
Qed.

Lemma run_static ls : forall s s', run s ls = Some s' -> p_w s' = p_w s /\ p_cfg s' = p_cfg s.
Proof.
  induction ls as [|l r IH]; intros s s' H; simpl in H.
  - inversion H; auto.
  - destruct (step s l) as [s1|] eqn:E; [|discriminate].
    destruct (IH _ _ H) as [A B]. destruct (step_static _ _ _ E) as [C D]. split; congruence.
Qed.

Theorem run_ginv ls : forall s s', GInv s -> run s ls = Some s' -> GInv s'.
Proof.
  induction ls as [|l r IH]; intros s s' G H; simpl in H.
  - inversion H; subst; exact G.
  - destruct (step s l) as [s1|] eqn:E; [|discriminate]. apply (IH s1); auto. eapply step_ginv; eauto.
Qed.

(* -------- conservation: every queue row is queued, in flight or finished -------- *)
Definition census (s : pst) : list N := map row_id (p_src s) ++ flight_ids s ++ map fst (p_finished s).

Lemma step_census s l s' : GInv s -> step s l = Some s' -> Permutation (census s) (census s').
Proof.
  intros G HS.
  destruct G as [GL GP GN GT GK GB GS GD GC].
  unfold step in HS. rewrite GP in HS. unfold census.
  destruct l as [|k id o|id|].
  - destruct (p_src s) as [|[[id u] h] r] eqn:ES; [discriminate|].
    destruct (_ && _); [|discriminate].
    remember (SD id (fst (seed0 u h)) (snd (seed0 u h)) null_oracle 0) as x eqn:Ex.
    assert (Hxid : s_id x = id) by (subst x; reflexivity).
    inversion HS; subst s'; clear HS. psimpl.
    destruct (flight_upd s 0 (fun q => q ++ [x]) ltac:(rewrite GL; unfold NPLACES; lia)) as (oth & P1 & P2).
    unfold flight_ids at 2, in_flight; psimpl. rewrite P2. clear P2 GT GN.
    change (map row_id ((id, u, h) :: r)) with (id :: map row_id r). rewrite ?map_app. cbn [map]. rewrite Hxid. permN.
  - destruct (Nat.ltb k 9) eqn:EK; [|discriminate]. apply Nat.ltb_lt in EK.
    destruct (take id (place k s)) as [[x rest]|] eqn:ET; [|discriminate].
    destruct (Nat.ltb _ _) eqn:EC; [|discriminate].
    destruct (take_spec _ _ _ _ ET) as (Hid & PT & Hrest & Hx & Hlen).
    destruct (stage_ok (p_cfg s) k o x EK (GS k x Hx)) as (y & HY & Hyid & HYS).
    rewrite HY in HS. inversion HS; subst s'; clear HS. psimpl.
    assert (ET' : take (s_id x) (place k s) = Some (x, rest)) by (rewrite Hid; exact ET).
    pose proof (move_ids s k (S k) x y rest GL ltac:(unfold NPLACES; lia) ltac:(unfold NPLACES; lia) ltac:(lia) ET' Hyid) as PM.
    unfold flight_ids at 2, in_flight; psimpl. rewrite PM. apply Permutation_refl.
  - destruct (take id (place 9 s)) as [[x rest]|] eqn:ET; [|discriminate].
    destruct (take_spec _ _ _ _ ET) as (Hid & PT & Hrest & Hx & Hlen).
    destruct (fin_ok (p_cfg s) x (GS 9%nat x Hx)) as (t & d & HF & HFb & HFi).
    rewrite HF in HS.
    assert (ET' : take (s_id x) (place 9 s) = Some (x, rest)) by (rewrite Hid; exact ET).
    destruct d.
    + destruct (Nat.ltb _ _); [|discriminate]. inversion HS; subst s'; clear HS. psimpl.
      set (y := SD (s_id x) t (s_next x) (s_or x) (S (s_pass x))).
      pose proof (move_ids s 9 0 x y rest GL ltac:(unfold NPLACES; lia) ltac:(unfold NPLACES; lia) ltac:(lia) ET' eq_refl) as PM.
      unfold flight_ids at 2, in_flight; psimpl. rewrite PM. apply Permutation_refl.
    + inversion HS; subst s'; clear HS. psimpl.
      destruct (flight_upd s 9 (fun _ => rest) ltac:(rewrite GL; unfold NPLACES; lia)) as (oth & P1 & P2).
      pose proof (Permutation_map s_id PT) as PT'. cbn [map] in PT'.
      unfold flight_ids at 2, in_flight; psimpl. rewrite P2. clear P2 GT GN. permN.
  - destruct (p_src s) as [|[[id u] h] r] eqn:ES; [discriminate|].
    inversion HS; subst s'; clear HS. psimpl.
    unfold flight_ids, in_flight; psimpl. clear GT GN.
    change (map row_id ((id, u, h) :: r)) with (id :: map row_id r). permN.
Qed.

Theorem run_census ls : forall s s', GInv s -> run s ls = Some s' -> Permutation (census s) (census s').
Proof.
  induction ls as [|l r IH]; intros s s' G H; simpl in H.
  - inversion H; subst. apply Permutation_refl.
  - destruct (step s l) as [s1|] eqn:E; [|discriminate].
    rewrite (step_census _ _ _ G E). apply IH; auto. eapply step_ginv; eauto.
Qed.

(* -------- deadlock freedom -------- *)
Lemma len_two_places s : length (p_places s) = NPLACES ->
  (length (place 0 s) + length (place 9 s) <= length (flight_ids s))%nat.
Proof.
  intros HL. unfold flight_ids, in_flight, place. rewrite map_length.
  destruct (p_places s) as [|p0 [|p1 [|p2 [|p3 [|p4 [|p5 [|p6 [|p7 [|p8 [|p9 [|z r]]]]]]]]]]]; try discriminate.
  simpl. rewrite !app_length. lia.
Qed.

Lemma take_head (x : sd) l : take (s_id x) (x :: l) = Some (x, l).
Proof. simpl. rewrite N.eqb_refl. reflexivity. Qed.

Theorem deadlock_free s : GInv s -> (1 <= p_w s)%nat ->
  (p_src s <> [] \/ p_table s <> []) -> exists l s', step s l = Some s'.
Proof.
  intros G HW Hwork. pose proof G as G0. destruct G as [GL GP GN GT GK GB GS GD GC].
  assert (Hcap : forall k, (1 <= capacity (p_w s) k)%nat) by (intros [|[|k]]; unfold capacity; lia).
  (* a seed in place 9: the finisher can decide *)
  assert (C9 : forall x, In x (place 9 s) -> exists l s', step s l = Some s').
  { intros x Hx. exists (LFin (s_id x)). unfold step. rewrite GP.
    destruct (take_some _ _ Hx) as (y & rest & HT). rewrite HT.
    destruct (take_spec _ _ _ _ HT) as (Hid & PT & Hrest & Hy & Hlen).
    destruct (fin_ok (p_cfg s) y (GS 9%nat y Hy)) as (t & d & HF & _). rewrite HF.
    destruct d; [|eauto].
    assert (length (place 0 s) < capacity (p_w s) 0)%nat.
    { pose proof (len_two_places s GL). pose proof (Permutation_length GT). unfold capacity. lia. }
    apply Nat.ltb_lt in H. rewrite H. eauto. }
  (* a seed in place k < 9 whose next place is empty can move *)
  assert (CK : forall k x, (k < 9)%nat -> In x (place k s) -> place (S k) s = [] -> exists l s', step s l = Some s').
  { intros k x Hk Hx HE. exists (LMove k (s_id x) null_oracle). unfold step. rewrite GP.
    apply Nat.ltb_lt in Hk. rewrite Hk.
    destruct (take_some _ _ Hx) as (y & rest & HT). rewrite HT. rewrite HE. simpl length.
    pose proof (Hcap (S k)). destruct (Nat.ltb_spec 0 (capacity (p_w s) (S k))); [|lia].
    destruct (stage _ _ _ _); eauto. }
  destruct (place 9 s) as [|x9 r9] eqn:E9; [|apply (C9 x9); left; reflexivity].
  destruct (place 8 s) as [|x r] eqn:E8; [|apply (CK 8%nat x); [lia|rewrite E8; left; reflexivity|exact E9]].
  destruct (place 7 s) as [|x r] eqn:E7; [|apply (CK 7%nat x); [lia|rewrite E7; left; reflexivity|exact E8]].
  destruct (place 6 s) as [|x r] eqn:E6; [|apply (CK 6%nat x); [lia|rewrite E6; left; reflexivity|exact E7]].
  destruct (place 5 s) as [|x r] eqn:E5; [|apply (CK 5%nat x); [lia|rewrite E5; left; reflexivity|exact E6]].
  destruct (place 4 s) as [|x r] eqn:E4; [|apply (CK 4%nat x); [lia|rewrite E4; left; reflexivity|exact E5]].
  destruct (place 3 s) as [|x r] eqn:E3; [|apply (CK 3%nat x); [lia|rewrite E3; left; reflexivity|exact E4]].
  destruct (place 2 s) as [|x r] eqn:E2; [|apply (CK 2%nat x); [lia|rewrite E2; left; reflexivity|exact E3]].
  destruct (place 1 s) as [|x r] eqn:E1; [|apply (CK 1%nat x); [lia|rewrite E1; left; reflexivity|exact E2]].
  destruct (place 0 s) as [|x r] eqn:E0; [|apply (CK 0%nat x); [lia|rewrite E0; left; reflexivity|exact E1]].
  (* nothing in flight: the table is empty, so a row is waiting and a token is free *)
  assert (HF : flight_ids s = []).
  { unfold flight_ids, in_flight. unfold place in *.
    destruct (p_places s) as [|p0 [|p1 [|p2 [|p3 [|p4 [|p5 [|p6 [|p7 [|p8 [|p9 [|z rr]]]]]]]]]]]; try discriminate.
    simpl in *. subst. reflexivity. }
  rewrite HF in GT. apply Permutation_nil in GT.
  destruct Hwork as [Hs|Ht]; [|congruence].
  exists LInsert. unfold step. rewrite GP.
  destruct (p_src s) as [|[[id u] h] rr]; [congruence|].
  rewrite GK, GT. simpl length. rewrite E0. simpl length. unfold capacity.
  destruct (Nat.ltb_spec 0 (p_w s)) as [_|?]; [|lia]. cbn [andb]. eauto.
Qed.

(* -------- the statements of C01, for every worker count, configuration, list of queue rows
   and label sequence (= every interleaving and every site behaviour) -------- *)
Theorem pipeline_safe w c rows ls s :
  NoDup (map row_id rows) -> run (init w c rows) ls = Some s ->
  p_panicked s = false
  /\ NoDup (map fst (p_finished s))
  /\ (forall id t, In (id, t) (p_finished s) -> no_pending t = true)
  /\ Permutation (map row_id rows) (map row_id (p_src s) ++ flight_ids s ++ map fst (p_finished s))
  /\ NoDup (map row_id (p_src s) ++ flight_ids s ++ map fst (p_finished s))
  /\ Permutation (flight_ids s) (p_table s)
  /\ p_tokens s = length (p_table s) /\ (p_tokens s <= w)%nat.
Proof.
  intros ND HR. pose proof (init_ginv w c rows ND) as G0.
  pose proof (run_ginv ls _ _ G0 HR) as G. pose proof (run_census ls _ _ G0 HR) as PC.
  destruct G as [GL GP GN GT GK GB GS GD GC].
  assert (HW : p_w s = w) by (destruct (run_static _ _ _ HR) as [A _]; exact A).
  repeat split; auto.
  - apply NoDup_app_r in GN. apply NoDup_app_l in GN. exact GN.
  - unfold census in PC. simpl in PC. rewrite app_nil_r in PC. exact PC.
  - apply (Permutation_NoDup (l := flight_ids s ++ map fst (p_finished s) ++ map row_id (p_src s))); [|exact GN].
    clear. permN.
  - rewrite <- HW. exact GB.
Qed.

(* a state in which no label is enabled has an empty queue and an empty reactor: every row has
   been reported finished, exactly once *)
Theorem pipeline_quiescent w c rows ls s :
  NoDup (map row_id rows) -> (1 <= w)%nat -> run (init w c rows) ls = Some s ->
  (forall l, step s l = None) ->
  p_src s = [] /\ p_table s = [] /\ p_tokens s = 0%nat /\ in_flight s = []
  /\ Permutation (map row_id rows) (map fst (p_finished s)).
Proof.
  intros ND HW HR Hstuck.
  destruct (pipeline_safe w c rows ls s ND HR) as (_ & _ & _ & PC & _ & PT & HK & _).
  pose proof (init_ginv w c rows ND) as G0. pose proof (run_ginv ls _ _ G0 HR) as G.
  assert (Hw : p_w s = w) by (destruct (run_static _ _ _ HR) as [A _]; exact A).
  destruct (p_src s) as [|r0 rs] eqn:ES.
  - destruct (p_table s) as [|t0 ts] eqn:ET.
    + apply Permutation_sym in PT. apply Permutation_nil in PT.
      assert (in_flight s = []) by (unfold flight_ids in PT; destruct (in_flight s); [reflexivity|discriminate]).
      repeat split; auto. rewrite PT in PC. simpl in PC. exact PC.
    + exfalso. destruct (deadlock_free s G ltac:(lia)) as (l & s' & HS).
      * right. rewrite ET. discriminate.
      * rewrite Hstuck in HS. discriminate.
  - exfalso. destruct (deadlock_free s G ltac:(lia)) as (l & s' & HS).
    + left. rewrite ES. discriminate.
    + rewrite Hstuck in HS. discriminate.
Qed.

(* -------- what the queue hears: the finish reports along an execution -------- *)
Lemma run_app la : forall s lb, run s (la ++ lb) = match run s la with Some s1 => run s1 lb | None => None end.
Proof.
  induction la as [|l r IH]; intros s lb; simpl; [reflexivity|].
  destruct (step s l) as [s1|]; [apply IH|reflexivity].
Qed.

Lemma reports_app la : forall s s1 lb, run s la = Some s1 -> reports s (la ++ lb) = reports s la ++ reports s1 lb.
Proof.
  induction la as [|l r IH]; intros s s1 lb H; simpl in *.
  - inversion H; subst. reflexivity.
  - destruct (step s l) as [s'|]; [|discriminate]. rewrite (IH _ _ lb H). rewrite app_assoc. reflexivity.
Qed.

(* [p_finished] is the log of the reports: a step appends exactly what it reports, nothing else touches it *)
Lemma step_log s l s' : step s l = Some s' -> map fst (p_finished s') = map fst (p_finished s) ++ report_of s l.
Proof.
  unfold step, report_of. destruct (p_panicked s); [discriminate|].
  destruct l as [|k id o|id|].
  - destruct (p_src s) as [|[[a b] c] r]; [discriminate|].
    destruct (_ && _); [|discriminate]. intros H; inversion H; subst; psimpl. rewrite app_nil_r. reflexivity.
  - destruct (Nat.ltb k 9); [|discriminate]. destruct (take id (place k s)) as [[x rest]|]; [|discriminate].
    destruct (Nat.ltb _ _); [|discriminate].
    destruct (stage _ _ _ _); intros H; inversion H; subst; psimpl; rewrite app_nil_r; reflexivity.
  - destruct (take id (place 9 s)) as [[x rest]|]; [|discriminate].
    destruct (fin_worker _) as [[t [|]]|].
    + destruct (Nat.ltb _ _); [|discriminate]. intros H; inversion H; subst; psimpl. rewrite app_nil_r. reflexivity.
    + intros H; inversion H; subst; psimpl. rewrite map_app. reflexivity.
    + intros H; inversion H; subst; psimpl. rewrite app_nil_r. reflexivity.
  - destruct (p_src s) as [|[[a b] c] r]; [discriminate|].
    intros H; inversion H; subst; psimpl. rewrite map_app. reflexivity.
Qed.

Lemma run_log ls : forall s s', run s ls = Some s' -> map fst (p_finished s') = map fst (p_finished s) ++ reports s ls.
Proof.
  induction ls as [|l r IH]; intros s s' H; simpl in *.
  - inversion H; subst. rewrite app_nil_r. reflexivity.
  - destruct (step s l) as [s1|] eqn:E; [|discriminate].
    rewrite (IH _ _ H), (step_log _ _ _ E), app_assoc. reflexivity.
Qed.

(* the queue only shrinks, from its head *)
Lemma step_src s l s' : step s l = Some s' -> exists pre, p_src s = pre ++ p_src s'.
Proof.
  unfold step. destruct (p_panicked s); [discriminate|].
  destruct l as [|k id o|id|].
  - destruct (p_src s) as [|[[a b] c] r]; [discriminate|].
    destruct (_ && _); [|discriminate]. intros H; inversion H; subst; psimpl. exists [(a, b, c)]. reflexivity.
  - destruct (Nat.ltb k 9); [|discriminate]. destruct (take id (place k s)) as [[x rest]|]; [|discriminate].
    destruct (Nat.ltb _ _); [|discriminate].
    destruct (stage _ _ _ _); intros H; inversion H; subst; psimpl; exists []; reflexivity.
  - destruct (take id (place 9 s)) as [[x rest]|]; [|discriminate].
    destruct (fin_worker _) as [[t [|]]|].
    + destruct (Nat.ltb _ _); [|discriminate]. intros H; inversion H; subst; psimpl. exists []; reflexivity.
    + intros H; inversion H; subst; psimpl. exists []; reflexivity.
    + intros H; inversion H; subst; psimpl. exists []; reflexivity.
  - destruct (p_src s) as [|[[a b] c] r]; [discriminate|].
    intros H; inversion H; subst; psimpl. exists [(a, b, c)]. reflexivity.
Qed.

Lemma run_src ls : forall s s', run s ls = Some s' -> exists pre, p_src s = pre ++ p_src s'.
Proof.
  induction ls as [|l r IH]; intros s s' H; simpl in *.
  - inversion H; subst. exists []. reflexivity.
  - destruct (step s l) as [s1|] eqn:E; [|discriminate].
    destruct (IH _ _ H) as (p2 & E2). destruct (step_src _ _ _ E) as (p1 & E1).
    exists (p1 ++ p2). rewrite E1, E2, app_assoc. reflexivity.
Qed.

(* Exactly once, at the queue's side: along EVERY execution the queue receives at most one report per
   row and only for its own rows; in a state that cannot move it has received exactly one for each. *)
Theorem reports_exactly_once w c rows ls s :
  NoDup (map row_id rows) -> run (init w c rows) ls = Some s ->
  NoDup (reports (init w c rows) ls)
  /\ (forall id, In id (reports (init w c rows) ls) -> In id (map row_id rows))
  /\ Permutation (map row_id rows) (map row_id (p_src s) ++ flight_ids s ++ reports (init w c rows) ls)
  /\ ((1 <= w)%nat -> (forall l, step s l = None) -> Permutation (map row_id rows) (reports (init w c rows) ls)).
Proof.
  intros ND HR.
  destruct (pipeline_safe w c rows ls s ND HR) as (_ & NF & _ & PC & _).
  pose proof (run_log ls _ _ HR) as EL. simpl in EL. rewrite <- EL.
  repeat split; auto.
  - intros id Hin. apply (Permutation_in id (Permutation_sym PC)).
    apply in_or_app; right. apply in_or_app; right. exact Hin.
  - intros HW Hstuck. destruct (pipeline_quiescent w c rows ls s ND HW HR Hstuck) as (_ & _ & _ & _ & P). exact P.
Qed.

(* A row that has been reported is out of the pipeline for good: whatever happens afterwards it is
   not queued, not tracked by the reactor, in no channel and with no worker, and it is not reported again. *)
Theorem reported_never_again w c rows la lb s1 s2 id :
  NoDup (map row_id rows) -> run (init w c rows) la = Some s1 -> In id (reports (init w c rows) la) ->
  run s1 lb = Some s2 ->
  ~ In id (map row_id (p_src s2)) /\ ~ In id (flight_ids s2) /\ ~ In id (p_table s2) /\ ~ In id (reports s1 lb).
Proof.
  intros ND H1 Hin H2.
  assert (HR : run (init w c rows) (la ++ lb) = Some s2) by (rewrite run_app, H1; exact H2).
  destruct (pipeline_safe w c rows _ s2 ND HR) as (_ & _ & _ & _ & NC & PT & _).
  destruct (reports_exactly_once w c rows _ s2 ND HR) as (NR & _).
  rewrite (reports_app la _ s1 lb H1) in NR.
  pose proof (run_log _ _ _ HR) as EL. simpl in EL. rewrite (reports_app la _ s1 lb H1) in EL.
  assert (HF : In id (map fst (p_finished s2))) by (rewrite EL; apply in_or_app; left; exact Hin).
  assert (A : ~ In id (map row_id (p_src s2))).
  { intros Hs. apply (NoDup_app_disjoint _ _ id NC Hs). apply in_or_app; right; exact HF. }
  assert (B : ~ In id (flight_ids s2)).
  { intros Hf. apply NoDup_app_r in NC. exact (NoDup_app_disjoint _ _ id NC Hf HF). }
  repeat split; auto.
  - intros Ht. apply B. apply (Permutation_in id (Permutation_sym PT)). exact Ht.
  - intros Hr. exact (NoDup_app_disjoint _ _ id NR Hin Hr).
Qed.

(* The consumer's discard arm: a row the consumer finishes at once was at NO earlier moment of the
   execution in the pipeline (nor reported); the step itself takes no token, leaves the reactor and every
   channel as they were and delivers exactly one report; and at no later moment is the row in the
   pipeline or reported again. *)
Theorem discarded_row_never_in_pipeline w c rows ls s id u h r :
  NoDup (map row_id rows) -> run (init w c rows) ls = Some s -> p_src s = (id, u, h) :: r ->
  (forall la lb s0, ls = la ++ lb -> run (init w c rows) la = Some s0 ->
     ~ In id (flight_ids s0) /\ ~ In id (p_table s0) /\ ~ In id (reports (init w c rows) la))
  /\ exists s', step s LDiscard = Some s' /\ report_of s LDiscard = [id]
       /\ p_src s' = r /\ p_tokens s' = p_tokens s /\ p_table s' = p_table s /\ p_places s' = p_places s
       /\ forall lb s2, run s' lb = Some s2 ->
            ~ In id (map row_id (p_src s2)) /\ ~ In id (flight_ids s2) /\ ~ In id (p_table s2) /\ ~ In id (reports s' lb).
Proof.
  intros ND HR ES. split.
  - intros la lb s0 E H0. subst ls. rewrite run_app, H0 in HR.
    destruct (run_src _ _ _ HR) as (pre & EP).
    destruct (pipeline_safe w c rows la s0 ND H0) as (_ & _ & _ & _ & NC & PT & _).
    pose proof (run_log _ _ _ H0) as EL. simpl in EL. rewrite <- EL.
    assert (HS : In id (map row_id (p_src s0))).
    { rewrite EP, ES, map_app. apply in_or_app; right. left. reflexivity. }
    assert (B : ~ In id (flight_ids s0)).
    { intros Hf. apply (NoDup_app_disjoint _ _ id NC HS). apply in_or_app; left; exact Hf. }
    repeat split; auto.
    + intros Ht. apply B. apply (Permutation_in id (Permutation_sym PT)). exact Ht.
    + intros Hf. apply (NoDup_app_disjoint _ _ id NC HS). apply in_or_app; right; exact Hf.
  - destruct (pipeline_safe w c rows ls s ND HR) as (NP & _).
    eexists. unfold step, report_of. rewrite NP, ES. split; [reflexivity|]. psimpl.
    do 5 (split; [reflexivity|]).
    intros lb s2 H2.
    set (s' := PST (p_w s) (p_cfg s) r (p_tokens s) (p_table s) (p_places s) (p_finished s ++ [(id, dead_leaf u h)]) false) in *.
    assert (E1 : step s LDiscard = Some s') by (unfold step; rewrite NP, ES; reflexivity).
    assert (H1 : run (init w c rows) (ls ++ [LDiscard]) = Some s') by (rewrite run_app, HR; simpl; rewrite E1; reflexivity).
    assert (Hin : In id (reports (init w c rows) (ls ++ [LDiscard]))).
    { rewrite (reports_app ls _ s [LDiscard] HR). apply in_or_app; right. simpl. rewrite E1.
      unfold report_of. rewrite ES. left. reflexivity. }
    exact (reported_never_again w c rows _ lb s' s2 id ND H1 Hin H2).
Qed.

(* the non-vacuity of the hypotheses: a reachable state exists for every label list prefix that is
   enabled; see PipeExamples below for a concrete run *)
End Pipe.

Lemma pipeline_deadlock_free : seed0_inv_stmt -> pass_preserves_stmt ->
  forall w c rows ls s,
  NoDup (map row_id rows) -> (1 <= w)%nat -> run (init w c rows) ls = Some s ->
  (p_src s <> [] \/ p_table s <> []) -> exists l s', step s l = Some s'.
Proof.
  intros H0 HP w c rows ls s ND HW HR.
  assert (E : p_w s = w) by (destruct (run_static _ _ _ HR) as [A _]; exact A).
  rewrite <- E in HW.
  apply (deadlock_free HP s); [|exact HW].
  exact (run_ginv H0 HP ls _ _ (init_ginv w c rows ND) HR).
Qed.
