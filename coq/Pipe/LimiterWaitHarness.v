(* Harness side of Pipe/LimiterWait.v (C03, leg "limwait").  One case = one REAL tokenBucket (newTokenBucket,
   adjustOnFailure, onSuccess, Wait) under an injected clock: a history of answers of the host (failure statuses,
   successes) and polls, then [n] goroutines calling the real Wait() at one later instant, each allowed exactly one
   reading of the clock (= one iteration of Wait()'s loop); observed: which polls of the history and how many of the
   [n] final Waits returned. *)
From ZenoV Require Import Lib.Harness Rate.Bucket Pipe.LimiterWait.
Open Scope Z_scope.

Record lcase := LC {
  lc_cap : Q;                  (* capacity *)
  lc_rate : Q;                 (* configured refill rate *)
  lc_t0 : Z;                   (* creation instant (ns) *)
  lc_ops : list (Z * Z);       (* (instant, kind): kind -1 = one poll of Wait(), 0 = onSuccess, s > 0 = adjustOnFailure(s) *)
  lc_polls : list bool;        (* observed: the polls of the history, granted or not, in order *)
  lc_n : Z;                    (* goroutines waiting at the end *)
  lc_T : Z;                    (* instant of the last operation of the history (t0 if none) *)
  lc_t : Z;                    (* instant of the final polls *)
  lc_granted : Z               (* observed: final Waits that returned on their first poll *)
}.

Definition op_of (x : Z * Z) : op :=
  let '(t, k) := x in
  if k =? -1 then Try t else if k =? 0 then Succ t else Fail t k.

(* the model on the history: final bucket, outcome of every poll *)
Fixpoint run_obs (b : bucket) (h : list op) : bucket * list bool :=
  match h with
  | [] => (b, [])
  | o :: r => let '(b1, g) := step b o in
              let '(b2, gs) := run_obs b1 r in
              (b2, match o with Try _ => g :: gs | _ => gs end)
  end.

Fixpoint eqb_bools (a b : list bool) : bool :=
  match a, b with
  | [], [] => true
  | x :: r, y :: s => Bool.eqb x y && eqb_bools r s
  | _, _ => false
  end.

Definition diff_case (c : lcase) : bool :=
  let '(b, gs) := run_obs (new_bucket (lc_cap c) (lc_rate c) (lc_t0 c)) (map op_of (lc_ops c)) in
  negb (eqb_bools gs (lc_polls c) && (snd (polls (Z.to_nat (lc_n c)) (lc_t c) b) =? lc_granted c)).
Definition diffs (l : list lcase) := bad_idx diff_case l.

(* limiter_wait_bounded_lemma on the observation: its hypotheses are decided on the INPUT (no model step is run), its
   conclusion is read off the real bucket: all n waiting goroutines were granted *)
Definition hyps (c : lcase) : bool :=
  Qle_bool 0 (lc_cap c) && Qle_bool 0 (lc_rate c) && (time_zero <=? lc_t0 c) && (lc_t0 c <=? lc_T c)
  && forallb (fun x => fst x <=? lc_T c) (lc_ops c)
  && (0 <=? lc_n c) && Qle_bool (inject_Z (lc_n c)) (lc_cap c)
  && coveredb (lc_rate c) (lc_n c) (lc_T c) (lc_t c).
Definition mon_waiters_served (c : lcase) : bool := negb (hyps c) || (lc_granted c =? lc_n c).
Definition mons (l : list lcase) := mon_idx [mon_waiters_served] l.
