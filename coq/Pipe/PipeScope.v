(* C05 lifted through the pipeline LTS (C01): in EVERY execution of the pipeline in which the
   preprocessor's normalisation/filter answers are the ones the scope rule gives (Scope/Scope.v:
   [scope_pre oc nvs], for the operator configuration [oc] and whatever the URL parsers answer,
   [nvs]), every node that carries a request - in any seed's tree, at the moment the seed sits
   between the preprocessor and the archiver, i.e. everything the archiver is about to fetch - was
   accepted by the scope rule.  Seeds, redirect targets and assets alike; any worker count, any
   interleaving, any number of passes, any site behaviour. *)
From Coq Require Import Lia.
From ZenoV Require Import Tree.Item Tree.ItemSpec Stage.Pass Stage.PassSpec Stage.PassClosed Stage.TreeLemmas
     Pipe.PipeLts Pipe.PipeProofs Pipe.PipeClosed Pipe.PipeTerm
     Scope.Scope Scope.ScopeProofs Scope.TreeFacts Scope.PreProofs.
Open Scope N_scope.

(* a label is scoped when its pre-processing oracle answers through the scope rule *)
Definition scoped (oc : opcfg) (l : label) : Prop :=
  match l with
  | LMove 3 _ o => exists nvs, forall id, o_pre o id = scope_pre oc nvs id
  | _ => True
  end.

(* preprocess reads only three components of the oracle *)
Lemma fold_left_ext {A B} (f g : A -> B -> A) l : (forall a b, f a b = g a b) -> forall a, fold_left f l a = fold_left g l a.
Proof. intros H. induction l as [|x r IH]; intros a; simpl; [reflexivity|]. rewrite H. apply IH. Qed.

Lemma pre_loop_ext o o' : (forall id, o_pre o id = o_pre o' id) ->
  forall items t, pre_loop o items t = pre_loop o' items t.
Proof.
  intros H. induction items as [|[n par] r IH]; intros t; simpl; [reflexivity|].
  destruct (negb (status_eqb (st_of n) Fresh)); [reflexivity|].
  rewrite <- H. destruct par as [p|].
  - destruct (o_pre o (id_of n)) as [|u ex ep]; [apply IH|].
    destruct ex; [destruct (is_got (st_of p)); [apply IH|reflexivity]|].
    destruct (status_eqb (st_of p) GotChildren && ep); apply IH.
  - destruct (o_pre o (id_of n)) as [|u ex ep]; [reflexivity|]. destruct ex; [reflexivity|apply IH].
Qed.

Lemma preprocess_ext o o' t :
  (forall id, o_pre o id = o_pre o' id) -> (forall id, o_seen o id = o_seen o' id) ->
  (forall id, o_reqfail o id = o_reqfail o' id) -> preprocess o t = preprocess o' t.
Proof.
  intros H1 H2 H3. unfold preprocess. rewrite (pre_loop_ext o o' H1).
  destruct (pre_loop o' (level_par (max_depth t) None t) t) as [[tl|tr]|w]; try reflexivity.
  destruct (nodes_at (max_depth t) (dedupe tr)) as [|n0 ns] eqn:EN; [reflexivity|].
  assert (EM : mark_seen o (n0 :: ns) (dedupe tr) = mark_seen o' (n0 :: ns) (dedupe tr)).
  { unfold mark_seen. apply fold_left_ext. intros a b. rewrite H2. reflexivity. }
  rewrite EM.
  destruct (filter is_fresh (nodes_at (max_depth t) (mark_seen o' (n0 :: ns) (dedupe tr)))) as [|m0 ms]; [reflexivity|].
  unfold build_requests. f_equal. apply fold_left_ext. intros a b. rewrite H3. reflexivity.
Qed.

(* a seed that waits for the preprocessor holds no request *)
Lemma inv_no_request t next : PassSpec.Inv t next -> forall m, In m (flatten t) -> st_of m <> PreProcessed.
Proof.
  intros (_ & _ & _ & HL & _) m Hm E.
  destruct (flatten_nodes_at t m Hm) as (lvl & Hl).
  destruct (HL lvl m Hl) as [A B].
  destruct (Nat.lt_trichotomy lvl (max_depth t)) as [L|[L|L]].
  - specialize (B L). rewrite E in B. discriminate.
  - specialize (A L). congruence.
  - rewrite (nodes_at_above lvl t L) in Hl. destruct Hl.
Qed.

(* the state invariant: every request of every seed between preprocessor and archiver was accepted *)
Definition requests_accepted (oc : opcfg) (x : sd) : Prop :=
  forall m, In m (flatten (s_tree x)) -> st_of m = PreProcessed ->
    exists nvs, accepted oc (nvs (id_of m)) (url_of m).

Definition ScopeInv (oc : opcfg) (s : pst) : Prop :=
  forall k x, (k = 4 \/ k = 5)%nat -> In x (place k s) -> requests_accepted oc x.

Lemma step_scope oc s l s' : GInv s -> ScopeInv oc s -> scoped oc l -> step s l = Some s' -> ScopeInv oc s'.
Proof.
  intros G SI SL HS k x' Hk HI.
  pose proof (step_ginv seed0_inv_closed pass_preserves_closed _ _ _ G HS) as G'.
  destruct (step_places s l s' k x' (g_len _ G) (g_nopanic _ G') HS HI)
    as [A|[(k0 & o & x & EL & -> & Hk0 & Hx & HY)|[(id & u & h & r & -> & _)|(x & t & -> & _)]]].
  - apply (SI k x' Hk A).
  - destruct Hk as [Hk|Hk]; inversion Hk; subst k0.
    + (* out of the preprocessor: the label carries the oracle of the new pass *)
      subst l. simpl in SL. destruct SL as (nvs & Hnvs).
      unfold stage in HY. destruct (pre_worker o (s_tree x)) as [t1|w] eqn:EP; [|discriminate].
      inversion HY; subst x'; clear HY. intros m Hm Em. simpl in Hm.
      pose proof (g_sinv _ G 3%nat x Hx) as HInv. unfold sinv in HInv; simpl in HInv.
      unfold pre_worker in EP.
      destruct (negb (Nat.eqb (check_consistency (s_tree x)) 0)); [discriminate|].
      destruct (status_eqb (st_of (s_tree x)) Failed || status_eqb (st_of (s_tree x)) Completed); [discriminate|].
      rewrite (preprocess_ext o (scope_oracle oc nvs (o_seen o) (o_reqfail o)) (s_tree x) Hnvs
                 (fun _ => eq_refl) (fun _ => eq_refl)) in EP.
      destruct HInv as (ND & _).
      destruct (request_implies_scope_lemma oc nvs (o_seen o) (o_reqfail o) (s_tree x) t1 ND EP m Hm Em)
        as [(m0 & Hm0 & _ & Em0)|Hacc].
      * exfalso. exact (inv_no_request _ _ (g_sinv _ G 3%nat x Hx) m0 Hm0 Em0).
      * exists nvs. exact Hacc.
    + (* place 4 -> 5: the tree is unchanged *)
      unfold stage in HY. inversion HY; subst x'. apply (SI 4%nat x (or_introl eq_refl) Hx).
  - destruct Hk as [Hk|Hk]; discriminate.
  - destruct Hk as [Hk|Hk]; discriminate.
Qed.

Lemma init_scope oc w c rows : ScopeInv oc (init w c rows).
Proof.
  intros k x _ H. unfold place in H. simpl in H.
  do 10 (destruct k as [|k]; [destruct H|]). destruct k; destruct H.
Qed.

(* every request of every seed that sits between the preprocessor and the archiver was accepted *)
Theorem pipeline_fetch_implies_scope oc w c rows ls s :
  NoDup (map row_id rows) -> Forall (scoped oc) ls -> run (init w c rows) ls = Some s ->
  forall k x m, (k = 4 \/ k = 5)%nat -> In x (place k s) -> In m (flatten (s_tree x)) -> st_of m = PreProcessed ->
    exists nvs proto hn v,
      nvs (id_of m) = NVAda proto hn (Some v) /\ v_url v = url_of m /\ shape_ok proto hn = true
      /\ in_scope (gen_cfg oc) (v_host1 v) (v_text v) (v_bits v) = true.
Proof.
  intros ND HF HR.
  assert (GI : GInv (init w c rows)) by (apply init_ginv; exact ND).
  assert (SI : ScopeInv oc (init w c rows)) by apply init_scope.
  revert GI SI HR. generalize (init w c rows) as s0. revert s.
  induction ls as [|l r IH]; intros s s0 GI SI HR; simpl in HR.
  - inversion HR; subst. intros k x m Hk Hx Hm Em.
    destruct (SI k x Hk Hx m Hm Em) as (nvs & proto & hn & v & A). exists nvs, proto, hn, v. exact A.
  - destruct (step s0 l) as [s1|] eqn:ES; [|discriminate].
    inversion HF; subst.
    apply (IH H2 s s1); auto.
    + eapply step_ginv; eauto; [exact seed0_inv_closed|exact pass_preserves_closed].
    + eapply step_scope; eauto.
Qed.
