(* Model of internal/pkg/log/rotated_file.go: the crawler's log file, re-opened every
   --log-file-rotation period.  What matters for C16 is the table of descriptors the object holds
   open: [rotateFile] closes the file it replaces, so the table never holds more than one entry,
   however many rotations went by (= however long the crawl lasts).  Executable definitions only. *)
From Coq Require Import List NArith Bool.
Import ListNotations.
Open Scope N_scope.

(* rotatedFile: d.file (a descriptor number, possibly of a file that has been closed already), the
   descriptors this object opened and has not closed, the next fresh descriptor number, and how many
   writes were refused (Write on a nil file: os.ErrClosed) *)
Record rfile := RF {
  rf_file : option N;
  rf_open : list N;
  rf_next : N;
  rf_refused : N
}.

(* what the rotation worker, the slog handler and log.Stop() do to the object *)
Inductive rlabel := Rotate | Write | Close.

(* os.File.Close: the descriptor leaves the table; closing a closed file is an error that the
   code ignores *)
Definition close_fd (fd : N) (tbl : list N) : list N := filter (fun x => negb (x =? fd)) tbl.

(* os.OpenFile(..., O_CREATE|O_APPEND|O_WRONLY): a fresh descriptor (the same file NAME within one
   minute: nothing of this is visible on disk) *)
Definition open_fd (s : rfile) (tbl : list N) : rfile :=
  RF (Some (rf_next s)) (rf_next s :: tbl) (N.succ (rf_next s)) (rf_refused s).

(* rotateFile(): under the mutex, close d.file if there is one, open the next file, keep it *)
Definition rotate (s : rfile) : rfile :=
  open_fd s (match rf_file s with Some fd => close_fd fd (rf_open s) | None => rf_open s end).

(* the same function WITHOUT the close of the file being replaced (the shape a refactoring that opens
   the next file before taking the lock ends up with): kept to show that the close is what the bound rests on *)
Definition rotate_noclose (s : rfile) : rfile := open_fd s (rf_open s).

(* Write(): refused when d.file is nil, otherwise handed to the file *)
Definition write (s : rfile) : rfile :=
  match rf_file s with
  | None => RF None (rf_open s) (rf_next s) (N.succ (rf_refused s))
  | Some _ => s
  end.

(* Close(): closes d.file if there is one; d.file is NOT reset (a rotation that was already due
   finds it and closes it again, harmlessly) *)
Definition close (s : rfile) : rfile :=
  match rf_file s with
  | Some fd => RF (Some fd) (close_fd fd (rf_open s)) (rf_next s) (rf_refused s)
  | None => s
  end.

Definition rstep (rot : rfile -> rfile) (s : rfile) (l : rlabel) : rfile :=
  match l with Rotate => rot s | Write => write s | Close => close s end.

(* newRotatedFile(): an empty object on which rotateFile() runs once; [first] is the lowest descriptor
   number the process has free *)
Definition new_rfile (rot : rfile -> rfile) (first : N) : rfile := rot (RF None [] first 0).

Definition rrun (rot : rfile -> rfile) (first : N) (ls : list rlabel) : rfile :=
  fold_left (rstep rot) ls (new_rfile rot first).

Definition open_count (s : rfile) : N := N.of_nat (length (rf_open s)).
Definition rotations (ls : list rlabel) : N :=
  N.of_nat (length (filter (fun l => match l with Rotate => true | _ => false end) ls)).
Definition never_closed (ls : list rlabel) : bool :=
  forallb (fun l => match l with Close => false | _ => true end) ls.
