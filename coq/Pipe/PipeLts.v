(* The closed pipeline as a labelled transition system (C01, C16): source queue -> reactor ->
   preprocessor -> archiver -> postprocessor -> finisher -> (feedback | finish).
   Transcribed from internal/pkg/controler/pipeline.go (wiring: every stage channel has capacity
   WorkersCount, every stage runs WorkersCount workers), internal/pkg/reactor/reactor.go (token
   pool and input channel of capacity maxTokens = WorkersCount, the run() goroutine that moves one
   item at a time from the input to the output channel), the worker loops of the four stages and the
   finisher's decision block (internal/pkg/finisher/finisher.go).

   The reactor API is taken at call granularity (its own fine-grained model and the
   linearizability argument are C12's).  Channels are modelled as BAGS: a receive may take any
   element.  Go channels are FIFO, so every real execution is an execution of this system; no
   theorem below needs the order, and the hook events by which the harness observes receives are
   not ordered like the receives themselves.

   A seed in flight carries its tree (Tree/Item.v), the id counter for new nodes, and the oracle
   of its current pass (Stage/Pass.v): everything the outside world answers during that pass
   (normalisation and scope filters, seen-store, fetch results).  The oracle is chosen by the
   label of the preprocessing step, i.e. theorems over all label sequences quantify over every
   site behaviour as well as over every interleaving. *)
From ZenoV Require Export Tree.Item Stage.Pass.
Open Scope N_scope.

Record sd := SD { s_id : N; s_tree : item; s_next : N; s_or : oracle;
                   s_pass : nat   (* ghost: passes completed so far (read by no step condition) *) }.

(* places 0..9:  0 reactor input channel   1 reactor run() hand
                 2 reactor output channel  3 preprocessor workers
                 4 preprocessor output     5 archiver workers
                 6 archiver output         7 postprocessor workers
                 8 postprocessor output    9 finisher workers *)
Definition NPLACES := 10%nat.

Record pst := PST {
  p_w : nat;                      (* WorkersCount *)
  p_cfg : cfg;
  p_src : list (N * N * N);       (* queue rows not yet handed out: (id, url, hops) *)
  p_tokens : nat;                 (* tokens in use *)
  p_table : list N;               (* reactor state table *)
  p_places : list (list sd);
  p_finished : list (N * item);   (* finish reports delivered to the queue, with the tree at that moment *)
  p_panicked : bool
}.

Definition capacity (w : nat) (k : nat) : nat := match k with 1%nat => 1%nat | _ => w end.

Definition null_oracle : oracle :=
  Oracle (fun _ => PNormFail) (fun _ => false) (fun _ => false) (fun _ => None).

(* what the queue is told about a row whose text is not a URL: a single node that is unusable for
   good - nothing of it will ever be fetched.  (The Go item keeps the status it was created with;
   nobody reads it: the queue's finisher takes the id only.  The model writes the node as Failed, the
   status the preprocessor gives a seed whose URL cannot be normalised, so that "reported only when
   nothing is pending" reads the same for both ways of being reported.) *)
Definition dead_leaf (u hops : N) : item := Node (Info 0 u Failed false hops 0) [].

Definition init (w : nat) (c : cfg) (rows : list (N * N * N)) : pst :=
  PST w c rows 0 [] (repeat [] NPLACES) [] false.

(* first seed with that id *)
Fixpoint take (id : N) (l : list sd) : option (sd * list sd) :=
  match l with
  | [] => None
  | x :: r => if s_id x =? id then Some (x, r)
              else match take id r with Some (y, r') => Some (y, x :: r') | None => None end
  end.

Fixpoint upd {A} (k : nat) (f : A -> A) (l : list A) : list A :=
  match l, k with
  | [], _ => []
  | x :: r, O => f x :: r
  | x :: r, S k' => x :: upd k' f r
  end.

Definition place (k : nat) (s : pst) : list sd := nth k (p_places s) [].

Fixpoint remove1 (id : N) (l : list N) : list N :=
  match l with
  | [] => []
  | x :: r => if x =? id then r else x :: remove1 id r
  end.

Inductive label :=
| LInsert                              (* the source hands its first row to ReceiveInsert *)
| LMove (k : nat) (id : N) (o : oracle) (* seed [id] moves from place k to place k+1 (k < 9);
                                           the move out of a worker place applies that stage;
                                           [o] is read only when k = 3: the oracle of the new pass *)
| LFin (id : N)                        (* the finisher decides on seed [id] *)
| LDiscard.                            (* the source's consumer cannot parse the text of its first row
                                          (models.URL.Parse = url.ParseRequestURI fails: an answer of the
                                          outside world, chosen by the label like the oracles): the row is
                                          reported to the queue as finished AT ONCE and is NOT handed to
                                          ReceiveInsert (lq/consumer.go consumerSender, the [discard] arm) *)

(* the stage applied when a seed leaves place k *)
Definition stage (c : cfg) (k : nat) (o : oracle) (x : sd) : result sd :=
  match k with
  | 3%nat => match pre_worker o (s_tree x) with
             | Ok t => Ok (SD (s_id x) t (s_next x) o (s_pass x))
             | Panic w => Panic w
             end
  | 5%nat => match arch_worker (s_or x) (s_tree x) with
             | Ok t => Ok (SD (s_id x) t (s_next x) (s_or x) (s_pass x))
             | Panic w => Panic w
             end
  | 7%nat => match post_worker c (s_or x) (s_tree x) (s_next x) with
             | Ok (t, n) => Ok (SD (s_id x) t n (s_or x) (s_pass x))
             | Panic w => Panic w
             end
  | _ => Ok x
  end.

Definition set_places (s : pst) (pl : list (list sd)) : pst :=
  PST (p_w s) (p_cfg s) (p_src s) (p_tokens s) (p_table s) pl (p_finished s) (p_panicked s).
Definition set_panic (s : pst) : pst :=
  PST (p_w s) (p_cfg s) (p_src s) (p_tokens s) (p_table s) (p_places s) (p_finished s) true.

(* None = the label is not enabled in this state.  A state with [p_panicked] has no successor. *)
Definition step (s : pst) (l : label) : option pst :=
  if p_panicked s then None else
  match l with
  | LInsert =>
    match p_src s with
    | [] => None
    | (id, u, h) :: r =>
      if Nat.ltb (p_tokens s) (p_w s) && Nat.ltb (length (place 0 s)) (capacity (p_w s) 0)
      then let x := SD id (fst (seed0 u h)) (snd (seed0 u h)) null_oracle 0 in
           Some (PST (p_w s) (p_cfg s) r (S (p_tokens s)) (id :: p_table s)
                     (upd 0 (fun q => q ++ [x]) (p_places s)) (p_finished s) false)
      else None
    end
  | LMove k id o =>
    if Nat.ltb k 9 then
      match take id (place k s) with
      | None => None
      | Some (x, rest) =>
        if Nat.ltb (length (place (S k) s)) (capacity (p_w s) (S k)) then
          match stage (p_cfg s) k o x with
          | Panic _ => Some (set_panic s)
          | Ok y => Some (set_places s (upd (S k) (fun q => q ++ [y]) (upd k (fun _ => rest) (p_places s))))
          end
        else None
      end
    else None
  | LFin id =>
    match take id (place 9 s) with
    | None => None
    | Some (x, rest) =>
      match fin_worker (s_tree x) with
      | Panic _ => Some (set_panic s)
      | Ok (t, DFeedback) =>
        (* reactor.ReceiveFeedback: a send on the input channel *)
        if Nat.ltb (length (place 0 s)) (capacity (p_w s) 0) then
          Some (set_places s (upd 0 (fun q => q ++ [SD (s_id x) t (s_next x) (s_or x) (S (s_pass x))])
                                  (upd 9 (fun _ => rest) (p_places s))))
        else None
      | Ok (t, DFinish) =>
        (* reactor.MarkAsFinished (delete, release the token), then the finish report *)
        Some (PST (p_w s) (p_cfg s) (p_src s) (pred (p_tokens s)) (remove1 (s_id x) (p_table s))
                  (upd 9 (fun _ => rest) (p_places s)) (p_finished s ++ [(s_id x, t)]) false)
      end
    end
  | LDiscard =>
    (* no token is taken, nothing enters the reactor: only the queue hears of this row *)
    match p_src s with
    | [] => None
    | (id, u, h) :: r =>
      Some (PST (p_w s) (p_cfg s) r (p_tokens s) (p_table s) (p_places s)
                (p_finished s ++ [(id, dead_leaf u h)]) false)
    end
  end.

Fixpoint run (s : pst) (ls : list label) : option pst :=
  match ls with
  | [] => Some s
  | l :: r => match step s l with Some s' => run s' r | None => None end
  end.

(* the finish reports the queue receives along an execution (the trace-level reading of "reported
   back to the queue"): label [l] taken in state [s] delivers a report for these row ids *)
Definition report_of (s : pst) (l : label) : list N :=
  match l with
  | LDiscard => match p_src s with (id, _, _) :: _ => [id] | [] => [] end
  | LFin id => match take id (place 9 s) with
               | Some (x, _) => match fin_worker (s_tree x) with Ok (_, DFinish) => [s_id x] | _ => [] end
               | None => []
               end
  | _ => []
  end.
Fixpoint reports (s : pst) (ls : list label) : list N :=
  match ls with
  | [] => []
  | l :: r => match step s l with Some s' => report_of s l ++ reports s' r | None => [] end
  end.

Definition in_flight (s : pst) : list sd := concat (p_places s).
Definition flight_ids (s : pst) : list N := map s_id (in_flight s).
Definition row_id (r : N * N * N) : N := fst (fst r).
