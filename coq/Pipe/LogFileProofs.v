(* The rotated log file holds at most one descriptor after ANY sequence of rotations, writes and
   closes - exactly one as long as it has not been closed - and this rests on rotateFile() closing
   the file it replaces: without that close the table grows by one with every rotation. *)
From Coq Require Import List NArith Bool Lia.
From ZenoV Require Import Pipe.LogFile.
Import ListNotations.
Open Scope N_scope.

(* the table is empty, or holds exactly the file the object points to *)
Definition rinv (s : rfile) : Prop :=
  rf_open s = [] \/ exists fd, rf_file s = Some fd /\ rf_open s = [fd].

(* ... and, before any Close, it is the second case *)
Definition rlive (s : rfile) : Prop := exists fd, rf_file s = Some fd /\ rf_open s = [fd].

Lemma close_fd_single : forall fd, close_fd fd [fd] = [].
Proof. intros fd. unfold close_fd. cbn [filter]. rewrite N.eqb_refl. reflexivity. Qed.

Lemma rotate_live : forall s, rinv s -> rlive (rotate s).
Proof.
  intros s Hinv. unfold rotate, open_fd, rlive. cbn [rf_file rf_open].
  exists (rf_next s). split; [reflexivity|].
  destruct Hinv as [Hempty | [fd [Hfile Hopen]]].
  - rewrite Hempty. destruct (rf_file s); reflexivity.
  - rewrite Hfile, Hopen, close_fd_single. reflexivity.
Qed.

Lemma rlive_rinv : forall s, rlive s -> rinv s.
Proof. intros s Hlive. right. exact Hlive. Qed.

Lemma write_rinv : forall s, rinv s -> rinv (write s).
Proof.
  intros s Hinv. unfold write. destruct (rf_file s) as [fd|] eqn:Hfile; [exact Hinv|].
  destruct Hinv as [Hempty | [fd [Hfile' _]]].
  - left. exact Hempty.
  - rewrite Hfile in Hfile'. discriminate.
Qed.

Lemma write_rlive : forall s, rlive s -> rlive (write s).
Proof.
  intros s [fd [Hfile Hopen]]. unfold write. rewrite Hfile. exists fd. split; assumption.
Qed.

Lemma close_rinv : forall s, rinv s -> rinv (close s).
Proof.
  intros s Hinv. unfold close. destruct (rf_file s) as [fd|] eqn:Hfile; [|exact Hinv].
  left. cbn [rf_open]. destruct Hinv as [Hempty | [fd' [Hfile' Hopen]]].
  - rewrite Hempty. reflexivity.
  - rewrite Hfile in Hfile'. injection Hfile' as Heq. subst fd'. rewrite Hopen. apply close_fd_single.
Qed.

Lemma rstep_rinv : forall s l, rinv s -> rinv (rstep rotate s l).
Proof.
  intros s l Hinv. destruct l; cbn [rstep].
  - apply rlive_rinv, rotate_live, Hinv.
  - apply write_rinv, Hinv.
  - apply close_rinv, Hinv.
Qed.

Lemma fold_rinv : forall ls s, rinv s -> rinv (fold_left (rstep rotate) ls s).
Proof.
  induction ls as [|l ls IH]; intros s Hinv; cbn [fold_left]; [exact Hinv|].
  apply IH, rstep_rinv, Hinv.
Qed.

Lemma fold_rlive : forall ls s, never_closed ls = true -> rlive s -> rlive (fold_left (rstep rotate) ls s).
Proof.
  induction ls as [|l ls IH]; intros s Hnc Hlive; cbn [fold_left]; [exact Hlive|].
  unfold never_closed in Hnc. cbn [forallb] in Hnc. apply andb_true_iff in Hnc. destruct Hnc as [Hl Hrest].
  apply IH; [exact Hrest|]. destruct l; cbn [rstep].
  - apply rotate_live, rlive_rinv, Hlive.
  - apply write_rlive, Hlive.
  - discriminate Hl.
Qed.

Lemma new_rfile_live : forall first, rlive (new_rfile rotate first).
Proof. intros first. apply rotate_live. left. reflexivity. Qed.

Lemma rinv_count : forall s, rinv s -> open_count s <= 1.
Proof.
  intros s [Hempty | [fd [_ Hopen]]]; unfold open_count.
  - rewrite Hempty. cbn. lia.
  - rewrite Hopen. cbn. lia.
Qed.

Lemma rlive_count : forall s, rlive s -> open_count s = 1.
Proof. intros s [fd [_ Hopen]]. unfold open_count. rewrite Hopen. reflexivity. Qed.

(* the statement of Props/C16.v *)
Lemma log_file_one_descriptor_lemma : forall first ls,
  open_count (rrun rotate first ls) <= 1
  /\ (never_closed ls = true -> open_count (rrun rotate first ls) = 1).
Proof.
  intros first ls. split.
  - apply rinv_count. unfold rrun. apply fold_rinv, rlive_rinv, new_rfile_live.
  - intros Hnc. apply rlive_count. unfold rrun. apply fold_rlive; [exact Hnc | apply new_rfile_live].
Qed.

(* non-vacuity: four rotations and writes in between, then Close, then a rotation that was already due *)
Example log_file_example :
  open_count (rrun rotate 7 [Write; Rotate; Write; Rotate; Rotate; Write; Rotate]) = 1
  /\ never_closed [Write; Rotate; Write; Rotate; Rotate; Write; Rotate] = true
  /\ rf_file (rrun rotate 7 [Write; Rotate; Write; Rotate; Rotate; Write; Rotate]) = Some 11
  /\ open_count (rrun rotate 7 [Rotate; Write; Close]) = 0
  /\ open_count (rrun rotate 7 [Rotate; Close; Rotate]) = 1.
Proof. vm_compute. repeat split; reflexivity. Qed.

(* ---- the close in rotateFile() is what the bound rests on ------------------------------------ *)

Lemma noclose_fold : forall ls s, never_closed ls = true ->
  open_count (fold_left (rstep rotate_noclose) ls s) = open_count s + rotations ls.
Proof.
  induction ls as [|l ls IH]; intros s Hnc; cbn [fold_left].
  - unfold rotations. cbn. lia.
  - unfold never_closed in Hnc. cbn [forallb] in Hnc. apply andb_true_iff in Hnc. destruct Hnc as [Hl Hrest].
    rewrite (IH _ Hrest). destruct l; cbn [rstep].
    + unfold rotations, open_count, rotate_noclose, open_fd. cbn [rf_open filter length]. lia.
    + assert (Hw : open_count (write s) = open_count s).
      { unfold write, open_count. destruct (rf_file s); reflexivity. }
      rewrite Hw. unfold rotations. cbn [filter]. reflexivity.
    + discriminate Hl.
Qed.

(* without it the object holds one descriptor more for every rotation that went by *)
Lemma rotate_without_close_grows : forall first ls, never_closed ls = true ->
  open_count (rrun rotate_noclose first ls) = 1 + rotations ls.
Proof.
  intros first ls Hnc. unfold rrun. rewrite (noclose_fold _ _ Hnc). reflexivity.
Qed.

Example rotate_without_close_example :
  open_count (rrun rotate_noclose 7 [Write; Rotate; Write; Rotate; Rotate; Write; Rotate]) = 5.
Proof. vm_compute. reflexivity. Qed.
