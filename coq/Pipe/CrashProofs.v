(* Proofs about Pipe/CrashLts.v (C04). *)
From ZenoV Require Import Pipe.CrashLts.
Open Scope N_scope.

Lemma mem_In x l : mem x l = true <-> In x l.
Proof.
  unfold mem. rewrite existsb_exists. split.
  - intros (y & H & E). apply N.eqb_eq in E. subst. exact H.
  - intros H. exists x. split; auto. apply N.eqb_refl.
Qed.
Lemma memp_In x l : memp x l = true <-> In x l.
Proof.
  unfold memp. rewrite existsb_exists. split.
  - intros ([a b] & H & E). apply andb_prop in E as [E1 E2]. apply N.eqb_eq in E1, E2. simpl in *.
    destruct x; simpl in *; subst. exact H.
  - intros H. exists x. split; auto. rewrite !N.eqb_refl. reflexivity.
Qed.

Definition row_ids (s : cst) : list N := map r_id (c_rows s).

(* ---- invariant ---- *)
Record CInv (ids0 : list N) (s : cst) : Prop := {
  ci_acked : forall p, In p (c_acked s) -> In p (c_warc s);
  ci_rows_sub : forall i, In i (row_ids s) -> In i ids0;
  ci_cover : forall i, In i ids0 -> In i (row_ids s) \/ In i (c_deleted s);
  ci_deleted_gone : forall i, In i (c_deleted s) -> ~ In i (row_ids s);
  ci_down : c_up s = false -> c_buf s = [] /\ c_flight s = [] /\ c_pend s = []
}.

Lemma set_claimed_ids b ids rows : map r_id (set_claimed b ids rows) = map r_id rows.
Proof. induction rows as [|r rs IH]; simpl; auto. rewrite IH. destruct (mem (r_id r) ids); reflexivity. Qed.

Lemma delete_rows_ids ids rows i : In i (map r_id (delete_rows ids rows)) <-> In i (map r_id rows) /\ ~ In i ids.
Proof.
  induction rows as [|r rs IH]; simpl; [tauto|].
  destruct (mem (r_id r) ids) eqn:E; simpl.
  - apply mem_In in E. rewrite IH. split; [tauto|]. intros [[H|H] N]; [subst; contradiction|tauto].
  - assert (~ In (r_id r) ids) by (intros H; apply mem_In in H; congruence).
    rewrite IH. split; [intros [H1|[H1 H2]]; subst; tauto|tauto].
Qed.

Lemma reset_ids rows : map r_id (map (fun r => Row (r_id r) false) rows) = map r_id rows.
Proof. induction rows; simpl; congruence. Qed.

Lemma init_inv reset ids : CInv ids (init reset ids).
Proof.
  assert (E : map r_id (map (fun i => Row i false) ids) = ids) by (rewrite map_map; simpl; apply map_id).
  constructor; unfold row_ids; simpl; rewrite ?E; try tauto; try discriminate.
Qed.

Lemma step_inv ids0 s l s' : CInv ids0 s -> step s l = Some s' -> CInv ids0 s'.
Proof.
  intros [A R C D W] HS. unfold row_ids in *.
  destruct l; simpl in HS;
    match type of HS with (if ?b then _ else _) = _ => destruct b eqn:E; [|discriminate] end;
    inversion HS; subst; clear HS; constructor; unfold row_ids; simpl;
    rewrite ?set_claimed_ids, ?reset_ids; auto; try discriminate; try tauto.
  - (* write: the file grows *) intros p Hp. apply in_or_app. left. auto.
  - (* ack *) intros p [Hp|Hp]; auto. subst. apply andb_prop in E as [_ E]. apply memp_In in E. exact E.
  - (* delete *) intros i Hi. apply delete_rows_ids in Hi. apply R. tauto.
  - intros i Hi. destruct (C i Hi) as [H|H].
    + destruct (in_dec N.eq_dec i ids) as [Y|Nn]; [right; apply in_or_app; auto|left; apply delete_rows_ids; tauto].
    + right. apply in_or_app. auto.
  - intros i Hi Hr. apply delete_rows_ids in Hr. apply in_app_or in Hi. destruct Hi as [Hi|Hi]; [tauto|]. apply (D i Hi). tauto.
  - (* restart *) destruct (c_reset_on_open s); rewrite ?reset_ids; auto.
  - destruct (c_reset_on_open s); rewrite ?reset_ids; auto.
  - destruct (c_reset_on_open s); rewrite ?reset_ids; auto.
Qed.

Theorem run_inv ids0 ls : forall s s', CInv ids0 s -> run s ls = Some s' -> CInv ids0 s'.
Proof.
  induction ls as [|l r IH]; intros s s' I H; simpl in H.
  - inversion H; subst; auto.
  - destruct (step s l) as [s1|] eqn:E; [|discriminate]. apply (IH s1); [eapply step_inv; eauto|exact H].
Qed.

(* ---- the complete records only ever grow: whatever happens, crash included ---- *)
Lemma step_prefix s l s' : step s l = Some s' -> exists ext, c_warc s' = c_warc s ++ ext.
Proof.
  intros HS. destruct l; simpl in HS;
    match type of HS with (if ?b then _ else _) = _ => destruct b; [|discriminate] end;
    inversion HS; subst; clear HS; simpl; try (exists []; rewrite app_nil_r; reflexivity).
  eexists; reflexivity.
Qed.

Theorem complete_prefix_survives ls : forall s s', run s ls = Some s' -> exists ext, c_warc s' = c_warc s ++ ext.
Proof.
  induction ls as [|l r IH]; intros s s' H; simpl in H.
  - inversion H; subst. exists []. rewrite app_nil_r. reflexivity.
  - destruct (step s l) as [s1|] eqn:E; [|discriminate].
    destruct (step_prefix _ _ _ E) as (e1 & E1). destruct (IH _ _ H) as (e2 & E2).
    exists (e1 ++ e2). rewrite E2, E1, app_assoc. reflexivity.
Qed.

(* ---- C04, part 1: finished implies captured, at every instant, after any crash ---- *)
Theorem finished_implies_captured reset ids ls s :
  run (init reset ids) ls = Some s ->
  (forall id u, In (id, u) (c_acked s) -> In (id, u) (c_warc s))
  /\ (forall i, In i ids -> In i (row_ids s) \/ In i (c_deleted s))
  /\ (forall i, In i (c_deleted s) -> ~ In i (row_ids s)).
Proof.
  intros H. destruct (run_inv ids ls _ _ (init_inv reset ids) H) as [A R C D W].
  repeat split; auto.
Qed.

(* ---- C04, part 2: after a restart nothing is stranded ---- *)
Definition all_fresh (s : cst) : Prop := forall r, In r (c_rows s) -> r_claimed r = false.

Theorem restart_hands_out_everything ids ls s s' :
  run (init true ids) ls = Some s -> step s LRestart = Some s' ->
  all_fresh s' /\ row_ids s' = row_ids s
  /\ (forall i, In i ids -> In i (row_ids s') \/ In i (c_deleted s')).
Proof.
  intros H HS.
  assert (HR : c_reset_on_open s = true).
  { clear HS. revert H. generalize (eq_refl : c_reset_on_open (init true ids) = true). generalize (init true ids).
    induction ls as [|l r IH]; intros s0 E H; simpl in H.
    - inversion H; subst; auto.
    - destruct (step s0 l) as [s1|] eqn:ES; [|discriminate]. apply (IH s1); auto.
      destruct l; simpl in ES;
        match type of ES with (if ?b then _ else _) = _ => destruct b; [|discriminate] end;
        inversion ES; subst; simpl; auto. }
  destruct (run_inv ids ls _ _ (init_inv true ids) H) as [A R C D W].
  simpl in HS. destruct (negb (c_up s)); [|discriminate]. rewrite HR in HS. inversion HS; subst; clear HS.
  unfold all_fresh, row_ids; simpl. rewrite reset_ids. repeat split; auto.
  intros r Hr. apply in_map_iff in Hr. destruct Hr as (r0 & <- & _). reflexivity.
Qed.

(* the code before the fix: a row claimed before a kill stays CLAIMED for ever *)
Theorem restart_orig_refuted :
  exists ls s, run (init false [1; 2]) ls = Some s /\ c_up s = true
               /\ In (Row 1 true) (c_rows s) /\ c_buf s = [] /\ c_flight s = [] /\ c_pend s = [].
Proof.
  exists [LClaim [1]; LCrash false; LRestart]. eexists. split; [reflexivity|]. simpl. repeat split; auto.
Qed.

(* and a graceful stop strands the rows that sat in the consumer's buffer *)
Theorem stop_orig_refuted :
  exists ls s, run (init false [1; 2]) ls = Some s /\ c_up s = true
               /\ In (Row 2 true) (c_rows s) /\ In (Row 1 false) (c_rows s) /\ c_buf s = [].
Proof.
  exists [LClaim [1; 2]; LInsert 1; LStop; LRestart]. eexists. split; [reflexivity|]. simpl. repeat split; auto.
Qed.

(* non-vacuity: a run with a finished seed, a crash with a partial record, a restart *)
Example crash_run :
  match run (init true [1; 2; 3])
     [LClaim [1; 2]; LInsert 1; LInsert 2; LWrite 1 10; LAck 1 10; LWrite 2 20; LFinish 1; LDelete [1];
      LClaim [3]; LCrash true; LRestart; LClaim [2; 3]] with
  | Some s => map r_id (c_rows s) = [2; 3] /\ c_deleted s = [1] /\ c_warc s = [(1, 10); (2, 20)]
              /\ c_acked s = [(1, 10)] /\ c_buf s = [2; 3]
  | None => False
  end.
Proof. vm_compute. repeat split; reflexivity. Qed.
