(* The pipeline theorems with the per-seed hypotheses discharged by Stage/PassClosed.v. *)
From Coq Require Import Permutation.
From ZenoV Require Import Tree.Item Tree.ItemSpec Stage.Pass Stage.PassSpec Stage.PassClosed Pipe.PipeLts Pipe.PipeProofs.
Open Scope N_scope.

Definition pipeline_safe_closed := pipeline_safe seed0_inv_closed pass_preserves_closed.
Definition pipeline_deadlock_free_closed := pipeline_deadlock_free seed0_inv_closed pass_preserves_closed.
Definition pipeline_quiescent_closed := pipeline_quiescent seed0_inv_closed pass_preserves_closed.
