(* The pipeline theorems with the per-seed hypotheses discharged by Stage/PassClosed.v. *)
From Coq Require Import Permutation.
From ZenoV Require Import Tree.Item Tree.ItemSpec Stage.Pass Stage.PassSpec Stage.PassClosed Pipe.PipeLts Pipe.PipeProofs.
Open Scope N_scope.

Definition pipeline_safe_closed := pipeline_safe seed0_inv_closed pass_preserves_closed.
Definition pipeline_deadlock_free_closed := pipeline_deadlock_free seed0_inv_closed pass_preserves_closed.
Definition pipeline_quiescent_closed := pipeline_quiescent seed0_inv_closed pass_preserves_closed.
Definition reports_exactly_once_closed := reports_exactly_once seed0_inv_closed pass_preserves_closed.
Definition reported_never_again_closed := reported_never_again seed0_inv_closed pass_preserves_closed.
Definition discarded_row_never_in_pipeline_closed := discarded_row_never_in_pipeline seed0_inv_closed pass_preserves_closed.
