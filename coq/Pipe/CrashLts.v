(* Crash / stop / restart of a job on the local persistent queue (C04).
   Durable state: the rows of jobs/<job>/lq.db (status FRESH or CLAIMED; a finished seed's row is
   deleted) and the WARC files (complete records, possibly followed by one partial tail).
   Volatile state: the consumer's buffer of claimed rows, the seeds in the reactor, the finished
   seeds waiting in the delete batch.  Transcribed from internal/pkg/source/lq/{client.go (Init, Get,
   Delete, ResetURL), consumer.go, finisher.go, lq.go (Stop)} and the write-then-acknowledge
   order of archiver.archive() in synchronous mode (C02).

   [reset_on_open] = true is the code after "fix: rows left CLAIMED by a previous run are handed out
   again when the local queue is opened", false the code before it. *)
From Coq Require Export List NArith Bool Lia.
Export ListNotations.
Open Scope N_scope.

Record row := Row { r_id : N; r_claimed : bool }.

Record cst := CST {
  c_reset_on_open : bool;
  c_rows : list row;            (* durable *)
  c_warc : list (N * N);        (* durable: complete records (seed id, url), in file order *)
  c_tail : bool;                (* durable: a partial record follows the complete ones *)
  c_buf : list N;               (* volatile: claimed, not yet inserted *)
  c_flight : list N;            (* volatile: in the reactor / pipeline *)
  c_pend : list N;              (* volatile: reported finished, waiting for the delete batch *)
  c_acked : list (N * N);       (* ghost: captures the WARC writer acknowledged (this is what
                                   "fetched and accepted" means for the finisher) *)
  c_deleted : list N;           (* ghost: rows deleted so far = seeds durably reported finished *)
  c_up : bool                   (* the process is running *)
}.

Inductive label :=
| LClaim (ids : list N)      (* one transaction: FRESH -> CLAIMED, into the buffer *)
| LInsert (id : N)           (* buffer -> reactor *)
| LWrite (id u : N)          (* a complete record reaches the file *)
| LAck (id u : N)            (* the writer acknowledges it (enabled only once it is in the file) *)
| LFinish (id : N)           (* the finisher reports the seed: reactor -> delete batch *)
| LDelete (ids : list N)     (* one transaction: rows deleted *)
| LCrash (partial : bool)    (* SIGKILL: volatile state is lost; the record being written may leave a partial tail *)
| LStop                      (* graceful stop: lq.Stop resets the rows of the seeds still in the reactor *)
| LRestart.                  (* the job is started again on the same directory *)

Definition mem (x : N) (l : list N) : bool := existsb (N.eqb x) l.
Definition memp (x : N * N) (l : list (N * N)) : bool :=
  existsb (fun y => (fst x =? fst y) && (snd x =? snd y)) l.
Definition remove_all (xs l : list N) : list N := filter (fun y => negb (mem y xs)) l.

Definition is_fresh (rows : list row) (id : N) : bool :=
  existsb (fun r => (r_id r =? id) && negb (r_claimed r)) rows.
Definition set_claimed (b : bool) (ids : list N) (rows : list row) : list row :=
  map (fun r => if mem (r_id r) ids then Row (r_id r) b else r) rows.
Definition delete_rows (ids : list N) (rows : list row) : list row :=
  filter (fun r => negb (mem (r_id r) ids)) rows.

Definition step (s : cst) (l : label) : option cst :=
  let mk rows warc tail buf flight pend acked deleted up :=
      CST (c_reset_on_open s) rows warc tail buf flight pend acked deleted up in
  match l with
  | LClaim ids =>
    if c_up s && forallb (is_fresh (c_rows s)) ids
    then Some (mk (set_claimed true ids (c_rows s)) (c_warc s) (c_tail s) (c_buf s ++ ids) (c_flight s) (c_pend s) (c_acked s) (c_deleted s) true)
    else None
  | LInsert id =>
    if c_up s && mem id (c_buf s)
    then Some (mk (c_rows s) (c_warc s) (c_tail s) (remove_all [id] (c_buf s)) (id :: c_flight s) (c_pend s) (c_acked s) (c_deleted s) true)
    else None
  | LWrite id u =>
    if c_up s && mem id (c_flight s) && negb (c_tail s)
    then Some (mk (c_rows s) (c_warc s ++ [(id, u)]) false (c_buf s) (c_flight s) (c_pend s) (c_acked s) (c_deleted s) true)
    else None
  | LAck id u =>
    if c_up s && memp (id, u) (c_warc s)
    then Some (mk (c_rows s) (c_warc s) (c_tail s) (c_buf s) (c_flight s) (c_pend s) ((id, u) :: c_acked s) (c_deleted s) true)
    else None
  | LFinish id =>
    if c_up s && mem id (c_flight s)
    then Some (mk (c_rows s) (c_warc s) (c_tail s) (c_buf s) (remove_all [id] (c_flight s)) (id :: c_pend s) (c_acked s) (c_deleted s) true)
    else None
  | LDelete ids =>
    if c_up s && forallb (fun id => mem id (c_pend s)) ids
    then Some (mk (delete_rows ids (c_rows s)) (c_warc s) (c_tail s) (c_buf s) (c_flight s) (remove_all ids (c_pend s)) (c_acked s) (ids ++ c_deleted s) true)
    else None
  | LCrash partial =>
    if c_up s
    then Some (mk (c_rows s) (c_warc s) (c_tail s || partial) [] [] [] (c_acked s) (c_deleted s) false)
    else None
  | LStop =>
    if c_up s
    then Some (mk (set_claimed false (c_flight s) (c_rows s)) (c_warc s) (c_tail s) [] [] [] (c_acked s) (c_deleted s) false)
    else None
  | LRestart =>
    if negb (c_up s)
    then Some (mk (if c_reset_on_open s then map (fun r => Row (r_id r) false) (c_rows s) else c_rows s)
                  (c_warc s) false [] [] [] (c_acked s) (c_deleted s) true)
         (* a new run writes to new files: the partial tail stays where it is and is no longer appended to *)
    else None
  end.

Fixpoint run (s : cst) (ls : list label) : option cst :=
  match ls with
  | [] => Some s
  | l :: r => match step s l with Some s' => run s' r | None => None end
  end.

Definition init (reset : bool) (ids : list N) : cst :=
  CST reset (map (fun i => Row i false) ids) [] false [] [] [] [] [] true.
