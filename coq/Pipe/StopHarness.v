(* Harness side of the stop LTS (C03).  Each case is ONE real crawl that was stopped at a chosen
   moment under a chosen configuration: the driver abstracts the state the pipeline was in when
   controler.Stop() was called (how many workers of each stage held a seed, whether the pipeline
   was paused), the model is driven from that state to a state without enabled progress labels,
   and the observed outcome is compared with the model's. *)
From ZenoV Require Import Lib.Harness Pipe.StopLts.
Open Scope N_scope.

Record scase := SC {
  c_w : N;                    (* WorkersCount *)
  c_busy : list N;            (* per stage 1..4: workers holding a seed when Stop() was called *)
  c_paused : bool;            (* pause.IsPaused() when Stop() was called *)
  c_pool : N;                 (* WARC pool size *)
  (* observed *)
  c_crashed : bool;           (* the process died (panic, SIGSEGV) *)
  c_returned : bool;          (* controler.Stop() returned before the watchdog *)
  c_workers_after : N;        (* live stage workers after Stop() returned (stats gauges) *)
  c_open : N;                 (* *.open files left *)
  c_bad : N                   (* WARC files that do not consist of complete records only *)
}.

Definition mk_workers (stage : nat) (busy idle : nat) (paused : bool) : list worker :=
  repeat (W stage WBusy paused) busy ++ repeat (W stage (if paused then WAck else WIdle) false) idle.

Definition state_of (c : scase) : sst :=
  let w := N.to_nat (c_w c) in
  let b k := Nat.min w (N.to_nat (nth k (c_busy c) 0)) in
  SST w true 0 [0; 0; 0; 0]%nat
      (mk_workers 1 (b 0%nat) (w - b 0%nat) (c_paused c) ++ mk_workers 2 (b 1%nat) (w - b 1%nat) (c_paused c)
       ++ mk_workers 3 (b 2%nat) (w - b 2%nat) (c_paused c) ++ mk_workers 4 (b 3%nat) (w - b 3%nat) (c_paused c))
      [false; false; false; false] false (repeat WrOpen (N.to_nat (c_pool c))) 0.

Definition cands (st : sst) : list label :=
  LStopper :: flat_map (fun j => [LExit j; LAbort j; LAckExit j; LWork j; LSend j; LPause j]) (seq 0 (length (s_workers st))).

Fixpoint first_enabled (st : sst) (ls : list label) : option sst :=
  match ls with
  | [] => None
  | l :: r => match step st l with Some st' => Some st' | None => first_enabled st r end
  end.

Fixpoint drive (fuel : nat) (st : sst) : sst * nat :=
  match fuel with
  | O => (st, O)
  | S f => match first_enabled st (cands st) with
           | Some st' => let '(s, n) := drive f st' in (s, S n)
           | None => (st, O)
           end
  end.

Definition finalb (st : sst) : bool :=
  Nat.eqb (s_pc st) PC_DONE
  && forallb (fun w => match w_st w with WGone => true | _ => false end) (s_workers st)
  && forallb (fun x => match x with WrRenamed => true | _ => false end) (s_writers st)
  && s_rstopped st.

(* the model's outcome from the observed state: stopped, within the measure *)
Definition model_stops (c : scase) : bool :=
  let st := state_of c in
  let '(s, n) := drive (S (measure st)) st in
  finalb s && Nat.leb n (measure st).

Definition observed_stopped (c : scase) : bool :=
  negb (c_crashed c) && c_returned c && (c_workers_after c =? 0) && (c_open c =? 0) && (c_bad c =? 0).

Definition diff_case (c : scase) : bool := negb (Bool.eqb (model_stops c) (observed_stopped c)).
Definition diffs (l : list scase) := bad_idx diff_case l.

Definition mon_returns (c : scase) : bool := negb (c_crashed c) && c_returned c.
Definition mon_no_open (c : scase) : bool := c_crashed c || negb (c_returned c) || (c_open c =? 0).
Definition mon_complete_records (c : scase) : bool := c_bad c =? 0.
Definition mon_workers_gone (c : scase) : bool := c_crashed c || negb (c_returned c) || (c_workers_after c =? 0).
Definition mons (l : list scase) := mon_idx [mon_returns; mon_no_open; mon_complete_records; mon_workers_gone] l.
