(* Harness side of the stop LTS (C03).  Each case is ONE real crawl that was stopped at a chosen
   moment under a chosen configuration: the driver abstracts the state the pipeline was in when
   controler.Stop() was called (how many workers of each stage held a seed, whether the pipeline
   was paused), the model is driven from that state to a state without enabled progress labels,
   and the observed outcome is compared with the model's.
   The WARC side (Pipe/WarcStopLts.v) is run on the same case: from the archiver/WARC state abstracted at the stop
   moment (busy archiver workers, fetches in progress, fetches started afterwards, pool, sync/async) the sub-model
   is driven to a state without enabled labels; its outcome (final, every file renamed and whole, one file per
   writer, records conserved) is compared with what the independent reader found in the job's WARC files. *)
From ZenoV Require Import Lib.Harness Pipe.StopLts Pipe.WarcStopLts.
Open Scope N_scope.

Record scase := SC {
  c_w : N;                    (* WorkersCount *)
  c_busy : list N;            (* per stage 1..4: workers holding a seed when Stop() was called *)
  c_paused : bool;            (* pause.IsPaused() when Stop() was called *)
  c_pool : N;                 (* WARC pool size *)
  (* observed *)
  c_crashed : bool;           (* the process died (panic, SIGSEGV) *)
  c_returned : bool;          (* controler.Stop() returned before the watchdog *)
  c_workers_after : N;        (* live stage workers after Stop() returned (stats gauges) *)
  c_open : N;                 (* *.open files left *)
  c_bad : N;                  (* WARC files that do not consist of complete records only *)
  (* the WARC side *)
  c_async : bool;             (* WARCWriteAsync *)
  c_inflight : N;             (* fetches in progress when Stop() was called *)
  c_after : N;                (* fetches started after Stop() was called *)
  c_ack_after : N;            (* exchanges the archiver saw completed after Stop() was called *)
  c_files : N;                (* final (renamed) WARC files *)
  c_req : N;                  (* request records in them *)
  c_resp : N;                 (* response / revisit records in them *)
  c_acked : N;                (* exchanges the archiver saw completed (in sync mode: after the writer's feedback) *)
  c_lost : N                  (* ... of which without a response record of their own in the final files *)
}.

Definition mk_workers (stage : nat) (busy idle : nat) (paused : bool) : list worker :=
  repeat (W stage WBusy paused) busy ++ repeat (W stage (if paused then WAck else WIdle) false) idle.

Definition state_of (c : scase) : sst :=
  let w := N.to_nat (c_w c) in
  let b k := Nat.min w (N.to_nat (nth k (c_busy c) 0)) in
  SST w true 0 [0; 0; 0; 0]%nat
      (mk_workers 1 (b 0%nat) (w - b 0%nat) (c_paused c) ++ mk_workers 2 (b 1%nat) (w - b 1%nat) (c_paused c)
       ++ mk_workers 3 (b 2%nat) (w - b 2%nat) (c_paused c) ++ mk_workers 4 (b 3%nat) (w - b 3%nat) (c_paused c))
      [false; false; false; false] false (repeat WrOpen (N.to_nat (c_pool c))) 0.

Definition cands (st : sst) : list label :=
  LStopper :: flat_map (fun j => [LExit j; LAbort j; LAckExit j; LWork j; LSend j; LPause j]) (seq 0 (length (s_workers st))).

Fixpoint first_enabled (st : sst) (ls : list label) : option sst :=
  match ls with
  | [] => None
  | l :: r => match step st l with Some st' => Some st' | None => first_enabled st r end
  end.

Fixpoint drive (fuel : nat) (st : sst) : sst * nat :=
  match fuel with
  | O => (st, O)
  | S f => match first_enabled st (cands st) with
           | Some st' => let '(s, n) := drive f st' in (s, S n)
           | None => (st, O)
           end
  end.

Definition finalb (st : sst) : bool :=
  Nat.eqb (s_pc st) PC_DONE
  && forallb (fun w => match w_st w with WGone => true | _ => false end) (s_workers st)
  && forallb (fun x => match x with WrRenamed => true | _ => false end) (s_writers st)
  && s_rstopped st.

(* the model's outcome from the observed state: stopped, within the measure *)
Definition model_stops (c : scase) : bool :=
  let st := state_of c in
  let '(s, n) := drive (S (measure st)) st in
  finalb s && Nat.leb n (measure st).

(* ---- the WARC side: Pipe/WarcStopLts.v driven from the observed state ---- *)
Definition wpool (c : scase) : nat := Nat.max 1 (N.to_nat (c_pool c)).     (* checkRotatorSettings: 0 means 1 *)

Definition wstate_of (c : scase) : wst :=
  let w := N.to_nat (c_w c) in
  let b := Nat.min w (N.to_nat (nth 1%nat (c_busy c) 0)) in
  let infl := N.to_nat (c_inflight c) in
  let aft := N.to_nat (c_after c) in
  (* the fetches in progress belong to the busy workers (the first one stands for all of them); the fetches that
     start afterwards come from the seed that is still queued before the archiver *)
  let busy := match b with O => [] | S b' => AwArch 0 infl 0 :: repeat (AwArch 0 0 0) b' end in
  WST (WCfg (negb (c_async c)) 1 2 true true)
      [match b with O => (aft + infl)%nat | _ => aft end]
      (busy ++ repeat AwIdle (w - b)) 0 0 0 0 0
      (repeat (WRT PhIdle 0 []) (wpool c)) false false false 0 false.

(* the driven schedule: the stopper moves whenever it can; a worker that finished a seed hands it on and takes the
   queued one before it observes the cancellation (so that the fetches started after the stop request happen); no
   failure labels, no rotation *)
Definition wcands (st : wst) : list wlabel :=
  XStopper
  :: flat_map (fun j => [XTake j; XFeedback j; XFetchEnd j true; XFetchEnd j false; XStart j; XDone j; XSendOut j; XAbort j; XExit j])
              (seq 0 (length (x_aw st)))
  ++ [XAssemble true; XAssemble false]
  ++ flat_map (fun i => [XRecv true i; XRecv false i; XBegin i; XWrite i; XFinish i; XClose i]) (seq 0 (length (x_writers st))).

Fixpoint wfirst_enabled (st : wst) (ls : list wlabel) : option (wst * wlabel) :=
  match ls with
  | [] => None
  | l :: r => match wstep st l with Some st' => Some (st', l) | None => wfirst_enabled st r end
  end.

Fixpoint wdrive (fuel : nat) (st : wst) : wst * list wlabel :=
  match fuel with
  | O => (st, [])
  | S f => match wfirst_enabled st (wcands st) with
           | Some (st', l) => let '(s, ls) := wdrive f st' in (s, l :: ls)
           | None => (st, [])
           end
  end.

Definition wfinalb (st : wst) : bool :=
  Nat.eqb (x_pc st) WPC_DONE && negb (x_panicked st) && forallb is_gone (x_aw st)
  && forallb (fun w => is_done w && Nat.eqb (wr_cur w) 0 && forallb (fun f => negb (f_torn f)) (wr_files w)) (x_writers st)
  && Nat.eqb (inflight st + queued st)%nat 0.

(* the sub-model's outcome: final within the measure, one renamed file per writer (no rotation: the size limit
   is far away), every started exchange on disk, and the exchanges acknowledged after the stop request are among
   those the model carried through *)
Definition model_warc_ok (c : scase) : bool :=
  let st := wstate_of c in
  let '(s, ls) := wdrive (S (wmeasure st)) st in
  wfinalb s && Nat.leb (length ls) (wmeasure st)
  && Nat.eqb (wdisk s + 2 * drops ls)%nat (wdisk st + wowed st + 2 * starts ls)%nat
  && Nat.eqb (length (flat_map wr_files (x_writers s))) (wpool c)
  && (2 * c_ack_after c <=? N.of_nat (wdisk s)).

Definition observed_warc_ok (c : scase) : bool :=
  (c_files c =? N.of_nat (wpool c)) && (c_req c =? c_resp c) && (c_lost c =? 0).

Definition observed_stopped (c : scase) : bool :=
  negb (c_crashed c) && c_returned c && (c_workers_after c =? 0) && (c_open c =? 0) && (c_bad c =? 0).

Definition diff_case (c : scase) : bool :=
  negb (Bool.eqb (model_stops c && model_warc_ok c) (observed_stopped c && observed_warc_ok c)).
Definition diffs (l : list scase) := bad_idx diff_case l.

Definition mon_returns (c : scase) : bool := negb (c_crashed c) && c_returned c.
Definition mon_no_open (c : scase) : bool := c_crashed c || negb (c_returned c) || (c_open c =? 0).
Definition mon_complete_records (c : scase) : bool := c_bad c =? 0.
Definition mon_workers_gone (c : scase) : bool := c_crashed c || negb (c_returned c) || (c_workers_after c =? 0).
(* C03_warc_nothing_lost on the observation: after a Stop() that returned, every exchange the archiver saw completed
   has its response record in a final file, and batches are on disk whole (as many request as response records) *)
Definition mon_nothing_lost (c : scase) : bool := c_crashed c || negb (c_returned c) || (c_lost c =? 0).
Definition mon_whole_batches (c : scase) : bool := c_crashed c || negb (c_returned c) || (c_req c =? c_resp c).
Definition mons (l : list scase) :=
  mon_idx [mon_returns; mon_no_open; mon_complete_records; mon_workers_gone; mon_nothing_lost; mon_whole_batches] l.
