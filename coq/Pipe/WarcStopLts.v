(* The WARC-writing side of the graceful stop (C03): what archiver.Stop() does to the WARC client and
   what the client's goroutines do meanwhile.  StopLts.v abstracts all of this into one stopper
   step ("close and rename the WARC files"); this file is the sub-model of exactly that step, so
   that "every WARC file is closed and renamed and consists of complete records only" and "nothing
   that was fetched is lost" are theorems (WarcStopProofs.v) and not part of the abstraction.

   Transcribed from
     internal/pkg/archiver/archiver.go
       Stop():    cancel(); wg.Wait() [archiver workers]; Client.WaitGroup.Wait(); Client.Close()
                  (the proxied client instead when --proxy is set: only one of the two exists)
       worker():  select { ctx.Done -> return | PauseCh | seed <- inputCh }; archive(seed);
                  select { ctx.Done -> return | outputCh <- seed }
       archive(): one goroutine per item (at most MaxConcurrentAssets at a time), each: up to
                  MaxRetry+1 times client.Do(req) [a connection is dialled], read the body, and, when
                  WARCWriteAsync is false, `<-feedbackChan` (context value "feedback") before it
                  returns; archive() returns after all of them (wg.Wait()).  archive() never looks
                  at the archiver's context: a seed that is being archived is archived to the end.
     github.com/CorentinB/warc v0.8.76
       dialer.go  wrapConnection(): WaitGroup.Add(1); go writeWARCFromConnection()
                  writeWARCFromConnection(): defer WaitGroup.Done(); reads request and response until
                  the connection is closed (keep-alive is disabled: the end of the fetch); then either
                  gives the exchange up (read error, DiscardHook, ctx done: error value on ErrChan,
                  close(feedbackChan)) or sends ONE batch of two records on the channel WARCWriter
       warc.go    NewWARCRotator(): WARCWriter = make(chan *RecordBatch, 1); WARCWriterPoolSize (>= 1)
                  goroutines recordWriter()
                  recordWriter(): loop { batch, more := <-records;
                     more:  if the file size is exceeded: rename (strip .open), flush, close, new file;
                            write every record of the batch; flush; feedback (buffered, never blocks)
                     !more: flush; close; rename (strip .open); done <- true; return }
       client.go  Close(): WaitGroup.Wait(); close(WARCWriter); receive from every done channel;
                  close(ErrChan)

   Processes: the archiver workers, the dialer goroutines (counted: one per connection), the
   WARCWriter channel, the pool of recordWriter goroutines, the stopper executing archiver.Stop().
   The preprocessor is stopped before the archiver (controler.stopPipeline), so the archiver's input
   channel only shrinks: [x_in] is the list of seeds waiting in it, each with the number of fetch
   attempts its archive() call can make at most.  A worker acknowledging a pause is covered by
   StopLts.v (with the worker fix it observes the cancellation like an idle worker) and counts as
   idle here.

   An exchange (one connection) moves through: fetch in wprogress [counted in the worker] ->
   assembling in the dialer goroutine [x_asm] -> batch in the channel [x_q] -> batch held by a writer
   -> records in the writer's current file.  Every count is split into two classes: exchanges whose
   fetch goroutine is blocked on the feedback channel (w = true, synchronous mode only) and the
   others (asynchronous mode, or the fetch goroutine took an error path that does not wait).

   Bad events are states, so that their impossibility is a theorem: a send on the closed WARCWriter
   channel and a send on the closed ErrChan are Go panics ([x_panicked]; a panicked process makes no
   further step).

   Variants ([wcfg]): g_wait_workers = does Stop() wait for the archiver workers before it touches
   the client; g_wait_wg = is WaitGroup.Wait() called before close(WARCWriter) (archiver.Stop calls
   it, Client.Close calls it again: one stopper step here).  Both are true in the code. *)
From Coq Require Export List Arith Bool Lia.
Export ListNotations.

Record wcfg := WCfg {
  g_sync : bool;           (* WARCWriteAsync = false *)
  g_cap : nat;             (* capacity of the WARCWriter channel (1 in warc v0.8.76; 0 = unbuffered) *)
  g_k : nat;               (* records per batch (2: request and response) *)
  g_wait_workers : bool;
  g_wait_wg : bool
}.

(* an archiver worker: in its select / inside archive() with [todo] fetch attempts it may still start,
   [fetching] fetch goroutines with an open connection, [waiting] fetch goroutines blocked on their
   feedback channel / blocked sending the seed on / returned *)
Inductive awstate := AwIdle | AwArch (todo fetching waiting : nat) | AwSend | AwGone.

(* a recordWriter goroutine: blocked in `<-records` / holding a received batch of which nothing is
   written yet ([rot]: the size check is behind it) / in the middle of writing the batch, [left]
   records to go / returned (file closed and renamed, done signalled) *)
Inductive wrphase := PhIdle | PhHold (w rot : bool) | PhWriting (w : bool) (left : nat) | PhDone.

(* a renamed file: its complete records, and whether a batch was being written when it was renamed *)
Record wfile := WF { f_recs : nat; f_torn : bool }.

Record writer := WRT {
  wr_ph : wrphase;
  wr_cur : nat;                  (* records (of batches) in the current *.open file *)
  wr_files : list wfile          (* the files this writer has renamed so far *)
}.

Record wst := WST {
  x_cfg : wcfg;
  x_in : list nat;               (* seeds in the archiver's input channel: fetch attempts of each *)
  x_aw : list awstate;
  x_asm_w : nat; x_asm_n : nat;  (* dialer goroutines assembling a batch (connection closed) *)
  x_q_w : nat; x_q_n : nat;      (* batches in the WARCWriter channel *)
  x_fb : nat;                    (* feedback signals delivered (or channels closed) and not yet received *)
  x_writers : list writer;
  x_cancel : bool;               (* the archiver's context *)
  x_closed : bool;               (* close(WARCWriter) done *)
  x_errclosed : bool;            (* close(ErrChan) done *)
  x_pc : nat;                    (* position of the stopper, see [wstopper] *)
  x_panicked : bool
}.

(* the stop sequence: 0 cancel()  1 wg.Wait(): workers returned  2 WaitGroup.Wait(): no dialer goroutine
   3 close(WARCWriter)  4 every done channel received; close(ErrChan)  5 = stopped *)
Definition WPC_DONE := 5.

Inductive wlabel :=
| XTake (j : nat)                 (* worker j receives a seed (Go's select may pick it although cancelled) *)
| XStart (j : nat)                (* a fetch goroutine of worker j dials: wrapConnection, WaitGroup.Add(1) *)
| XSkip (j : nat)                 (* an attempt without a connection (dial error, skipped item) *)
| XFetchEnd (j : nat) (wt : bool) (* a fetch ends, its connection is closed (ENVIRONMENT: always enabled);
                                     wt: the goroutine now waits for the feedback (sync mode only) *)
| XFeedback (j : nat)             (* a waiting fetch goroutine of worker j receives its feedback *)
| XDone (j : nat)                 (* archive() returns: no goroutine of it is left *)
| XSendOut (j : nat)              (* the seed is sent on to the postprocessor (if it has room) *)
| XAbort (j : nat)                (* blocked sending, the worker observes the cancellation and returns *)
| XExit (j : nat)                 (* idle, it observes the cancellation and returns *)
| XAssemble (w : bool)            (* a dialer goroutine sends its batch on WARCWriter; WaitGroup.Done *)
| XDrop (w err : bool)            (* it gives the exchange up (err: with an error value on ErrChan) *)
| XHand (w : bool) (i : nat)      (* the send meets writer i blocked in the receive: direct hand-over *)
| XRecv (w : bool) (i : nat)      (* writer i receives a buffered batch *)
| XRotate (i : nat)               (* size exceeded: rename, flush, close, create the next file *)
| XBegin (i : nat)                (* it starts writing the records of the batch it holds *)
| XWrite (i : nat)                (* one more record *)
| XFinish (i : nat)               (* flush; feedback *)
| XClose (i : nat)                (* channel closed and drained: flush, close, rename, done *)
| XStopper.

Fixpoint wupd {A} (k : nat) (f : A -> A) (l : list A) : list A :=
  match l, k with
  | [], _ => []
  | x :: r, O => f x :: r
  | x :: r, S k' => x :: wupd k' f r
  end.

Fixpoint wsum (l : list nat) : nat := match l with [] => 0 | x :: r => x + wsum r end.

Definition cls {A} (w : bool) (a b : A) : A := if w then a else b.
Definition inc (c w : bool) (n : nat) : nat := if Bool.eqb c w then S n else n.
Definition dec (c w : bool) (n : nat) : nat := if Bool.eqb c w then pred n else n.

Definition fetching_of (a : awstate) : nat := match a with AwArch _ f _ => f | _ => 0 end.
Definition waiting_of (a : awstate) : nat := match a with AwArch _ _ w => w | _ => 0 end.
Definition is_gone (a : awstate) : bool := match a with AwGone => true | _ => false end.
Definition is_done (w : writer) : bool := match wr_ph w with PhDone => true | _ => false end.
Definition is_busy (w : writer) : bool := match wr_ph w with PhHold _ _ | PhWriting _ _ => true | _ => false end.
Definition torn (p : wrphase) : bool := match p with PhWriting _ _ => true | _ => false end.
Definition set_ph (p : wrphase) (w : writer) : writer := WRT p (wr_cur w) (wr_files w).

(* the count of Client.WaitGroup: open connections and assembling dialer goroutines *)
Definition inflight (st : wst) : nat := wsum (map fetching_of (x_aw st)) + x_asm_w st + x_asm_n st.
Definition queued (st : wst) : nat := x_q_w st + x_q_n st.
Definition aw_all_gone (st : wst) : bool := forallb is_gone (x_aw st).
Definition wr_all_done (st : wst) : bool := forallb is_done (x_writers st).

Definition dyn (st : wst) inq aw asmw asmn qw qn fb wrs : wst :=
  WST (x_cfg st) inq aw asmw asmn qw qn fb wrs (x_cancel st) (x_closed st) (x_errclosed st) (x_pc st) (x_panicked st).
Definition set_aw (st : wst) aw : wst :=
  dyn st (x_in st) aw (x_asm_w st) (x_asm_n st) (x_q_w st) (x_q_n st) (x_fb st) (x_writers st).
Definition set_wr (st : wst) wrs : wst :=
  dyn st (x_in st) (x_aw st) (x_asm_w st) (x_asm_n st) (x_q_w st) (x_q_n st) (x_fb st) wrs.
Definition panic (st : wst) : wst :=
  WST (x_cfg st) (x_in st) (x_aw st) (x_asm_w st) (x_asm_n st) (x_q_w st) (x_q_n st) (x_fb st) (x_writers st)
      (x_cancel st) (x_closed st) (x_errclosed st) (x_pc st) true.
Definition ctl (st : wst) cancel closed errclosed : wst :=
  WST (x_cfg st) (x_in st) (x_aw st) (x_asm_w st) (x_asm_n st) (x_q_w st) (x_q_n st) (x_fb st) (x_writers st)
      cancel closed errclosed (S (x_pc st)) (x_panicked st).

Definition wstopper (st : wst) : option wst :=
  match x_pc st with
  | 0 => Some (ctl st true (x_closed st) (x_errclosed st))
  | 1 => if negb (g_wait_workers (x_cfg st)) || aw_all_gone st
         then Some (ctl st (x_cancel st) (x_closed st) (x_errclosed st)) else None
  | 2 => if negb (g_wait_wg (x_cfg st)) || Nat.eqb (inflight st) 0
         then Some (ctl st (x_cancel st) (x_closed st) (x_errclosed st)) else None
  | 3 => Some (ctl st (x_cancel st) true (x_errclosed st))
  | 4 => if wr_all_done st then Some (ctl st (x_cancel st) (x_closed st) true) else None
  | _ => None
  end.

Definition wstep (st : wst) (l : wlabel) : option wst :=
  if x_panicked st then None else
  match l with
  | XTake j =>
    match nth_error (x_aw st) j with
    | Some AwIdle =>
      match x_in st with
      | n :: r => Some (dyn st r (wupd j (fun _ => AwArch n 0 0) (x_aw st))
                            (x_asm_w st) (x_asm_n st) (x_q_w st) (x_q_n st) (x_fb st) (x_writers st))
      | [] => None
      end
    | _ => None
    end
  | XStart j =>
    match nth_error (x_aw st) j with
    | Some (AwArch (S t) f w) => Some (set_aw st (wupd j (fun _ => AwArch t (S f) w) (x_aw st)))
    | _ => None
    end
  | XSkip j =>
    match nth_error (x_aw st) j with
    | Some (AwArch (S t) f w) => Some (set_aw st (wupd j (fun _ => AwArch t f w) (x_aw st)))
    | _ => None
    end
  | XFetchEnd j wt =>
    match nth_error (x_aw st) j with
    | Some (AwArch t (S f) w) =>
      if wt && negb (g_sync (x_cfg st)) then None
      else Some (dyn st (x_in st) (wupd j (fun _ => AwArch t f (if wt then S w else w)) (x_aw st))
                     (inc true wt (x_asm_w st)) (inc false wt (x_asm_n st)) (x_q_w st) (x_q_n st) (x_fb st) (x_writers st))
    | _ => None
    end
  | XFeedback j =>
    match nth_error (x_aw st) j with
    | Some (AwArch t f (S w)) =>
      match x_fb st with
      | S fb => Some (dyn st (x_in st) (wupd j (fun _ => AwArch t f w) (x_aw st))
                          (x_asm_w st) (x_asm_n st) (x_q_w st) (x_q_n st) fb (x_writers st))
      | O => None
      end
    | _ => None
    end
  | XDone j =>
    match nth_error (x_aw st) j with
    | Some (AwArch t 0 0) => Some (set_aw st (wupd j (fun _ => AwSend) (x_aw st)))
    | _ => None
    end
  | XSendOut j =>
    match nth_error (x_aw st) j with
    | Some AwSend => Some (set_aw st (wupd j (fun _ => AwIdle) (x_aw st)))
    | _ => None
    end
  | XAbort j =>
    match nth_error (x_aw st) j with
    | Some AwSend => if x_cancel st then Some (set_aw st (wupd j (fun _ => AwGone) (x_aw st))) else None
    | _ => None
    end
  | XExit j =>
    match nth_error (x_aw st) j with
    | Some AwIdle => if x_cancel st then Some (set_aw st (wupd j (fun _ => AwGone) (x_aw st))) else None
    | _ => None
    end
  | XAssemble w =>
    if Nat.ltb 0 (cls w (x_asm_w st) (x_asm_n st)) then
      if x_closed st then Some (panic st)                      (* send on a closed channel *)
      else if Nat.ltb (queued st) (g_cap (x_cfg st))
      then Some (dyn st (x_in st) (x_aw st) (dec true w (x_asm_w st)) (dec false w (x_asm_n st))
                     (inc true w (x_q_w st)) (inc false w (x_q_n st)) (x_fb st) (x_writers st))
      else None
    else None
  | XDrop w err =>
    if Nat.ltb 0 (cls w (x_asm_w st) (x_asm_n st)) then
      if err && x_errclosed st then Some (panic st)            (* send on the closed ErrChan *)
      else Some (dyn st (x_in st) (x_aw st) (dec true w (x_asm_w st)) (dec false w (x_asm_n st))
                     (x_q_w st) (x_q_n st) (if w then S (x_fb st) else x_fb st) (x_writers st))
    else None
  | XHand w i =>
    if Nat.ltb 0 (cls w (x_asm_w st) (x_asm_n st)) then
      if x_closed st then Some (panic st)
      else match nth_error (x_writers st) i with
           | Some wr =>
             match wr_ph wr with
             | PhIdle => if Nat.eqb (queued st) 0
                         then Some (dyn st (x_in st) (x_aw st) (dec true w (x_asm_w st)) (dec false w (x_asm_n st))
                                        (x_q_w st) (x_q_n st) (x_fb st) (wupd i (set_ph (PhHold w false)) (x_writers st)))
                         else None
             | _ => None
             end
           | None => None
           end
    else None
  | XRecv w i =>
    if Nat.ltb 0 (cls w (x_q_w st) (x_q_n st)) then
      match nth_error (x_writers st) i with
      | Some wr =>
        match wr_ph wr with
        | PhIdle => Some (dyn st (x_in st) (x_aw st) (x_asm_w st) (x_asm_n st) (dec true w (x_q_w st)) (dec false w (x_q_n st))
                              (x_fb st) (wupd i (set_ph (PhHold w false)) (x_writers st)))
        | _ => None
        end
      | None => None
      end
    else None
  | XRotate i =>
    match nth_error (x_writers st) i with
    | Some wr =>
      match wr_ph wr with
      | PhHold w false =>     (* the size check sits between the receive and the first record of the batch *)
        Some (set_wr st (wupd i (fun _ => WRT (PhHold w true) 0 (WF (wr_cur wr) (torn (wr_ph wr)) :: wr_files wr)) (x_writers st)))
      | _ => None
      end
    | None => None
    end
  | XBegin i =>
    match nth_error (x_writers st) i with
    | Some wr =>
      match wr_ph wr with
      | PhHold w _ => Some (set_wr st (wupd i (set_ph (PhWriting w (g_k (x_cfg st)))) (x_writers st)))
      | _ => None
      end
    | None => None
    end
  | XWrite i =>
    match nth_error (x_writers st) i with
    | Some wr =>
      match wr_ph wr with
      | PhWriting w (S l) => Some (set_wr st (wupd i (fun _ => WRT (PhWriting w l) (S (wr_cur wr)) (wr_files wr)) (x_writers st)))
      | _ => None
      end
    | None => None
    end
  | XFinish i =>
    match nth_error (x_writers st) i with
    | Some wr =>
      match wr_ph wr with
      | PhWriting w 0 => Some (dyn st (x_in st) (x_aw st) (x_asm_w st) (x_asm_n st) (x_q_w st) (x_q_n st)
                                   (if w then S (x_fb st) else x_fb st) (wupd i (set_ph PhIdle) (x_writers st)))
      | _ => None
      end
    | None => None
    end
  | XClose i =>
    match nth_error (x_writers st) i with
    | Some wr =>
      match wr_ph wr with
      | PhIdle => if x_closed st && Nat.eqb (queued st) 0
                  then Some (set_wr st (wupd i (fun _ => WRT PhDone 0 (WF (wr_cur wr) (torn (wr_ph wr)) :: wr_files wr)) (x_writers st)))
                  else None
      | _ => None
      end
    | None => None
    end
  | XStopper => wstopper st
  end.

Fixpoint wrun (st : wst) (ls : list wlabel) : option wst :=
  match ls with
  | [] => Some st
  | l :: r => match wstep st l with Some st' => wrun st' r | None => None end
  end.

(* the labels the system performs by itself once they are enabled: not a failure chosen by the
   environment (XDrop, XSkip), not dependent on the stage downstream (XSendOut) *)
Definition fair (l : wlabel) : bool :=
  match l with XDrop _ _ | XSkip _ | XSendOut _ => false | _ => true end.

(* ---- the measure: how many steps can still happen ---- *)
Definition aw_weight (k : nat) (a : awstate) : nat :=
  match a with
  | AwIdle => 1
  | AwArch t f w => t * (k + 8) + f * (k + 7) + w + 3
  | AwSend => 2
  | AwGone => 0
  end.
Definition wr_weight (k : nat) (w : writer) : nat :=
  match wr_ph w with
  | PhIdle => 1
  | PhHold _ false => k + 4
  | PhHold _ true => k + 3
  | PhWriting _ l => l + 2
  | PhDone => 0
  end.
Definition seed_weight (k n : nat) : nat := n * (k + 8) + 3.
Definition wmeasure (st : wst) : nat :=
  let k := g_k (x_cfg st) in
  wsum (map (seed_weight k) (x_in st)) + wsum (map (aw_weight k) (x_aw st))
  + (x_asm_w st + x_asm_n st) * (k + 5) + (x_q_w st + x_q_n st) * (k + 4)
  + wsum (map (wr_weight k) (x_writers st)) + (WPC_DONE - x_pc st) + (if x_panicked st then 0 else 1).

(* ---- records: on disk, and still owed to the disk ---- *)
Definition file_recs (w : writer) : nat := wr_cur w + wsum (map f_recs (wr_files w)).
Definition wdisk (st : wst) : nat := wsum (map file_recs (x_writers st)).
Definition hold_of (k : nat) (w : writer) : nat :=
  match wr_ph w with PhHold _ _ => k | PhWriting _ l => l | _ => 0 end.
Definition wowed (st : wst) : nat :=
  let k := g_k (x_cfg st) in
  k * (wsum (map fetching_of (x_aw st)) + x_asm_w st + x_asm_n st + x_q_w st + x_q_n st) + wsum (map (hold_of k) (x_writers st)).
Fixpoint starts (ls : list wlabel) : nat :=
  match ls with [] => 0 | XStart _ :: r => S (starts r) | _ :: r => starts r end.
Fixpoint drops (ls : list wlabel) : nat :=
  match ls with [] => 0 | XDrop _ _ :: r => S (drops r) | _ :: r => drops r end.

(* every waiting fetch goroutine has exactly one exchange under way, or its feedback is there *)
Definition waiting_total (st : wst) : nat := wsum (map waiting_of (x_aw st)).
Definition holdw_of (w : writer) : nat :=
  match wr_ph w with PhHold true _ | PhWriting true _ => 1 | _ => 0 end.
Definition holdw_total (st : wst) : nat := wsum (map holdw_of (x_writers st)).

(* the state of a running crawl at the moment Stop() is called: channels open, nobody has panicked, at
   least one writer and none of them returned, the channel within its capacity, the feedback balance *)
Definition wwf (st : wst) : Prop :=
  x_closed st = false /\ x_errclosed st = false /\ x_panicked st = false
  /\ queued st <= g_cap (x_cfg st)
  /\ x_writers st <> []
  /\ Forall (fun w => wr_ph w <> PhDone) (x_writers st)
  /\ waiting_total st = x_asm_w st + x_q_w st + holdw_total st + x_fb st.

Definition real_order (st : wst) : Prop :=
  g_wait_workers (x_cfg st) = true /\ g_wait_wg (x_cfg st) = true.

(* renamed files hold complete records only *)
Definition untorn (st : wst) : Prop :=
  Forall (fun w => Forall (fun f => f_torn f = false) (wr_files w)) (x_writers st).

Definition wfinal (st : wst) : Prop :=
  x_pc st = WPC_DONE /\ x_panicked st = false
  /\ Forall (fun a => a = AwGone) (x_aw st)
  /\ Forall (fun w => wr_ph w = PhDone /\ wr_cur w = 0) (x_writers st)      (* no *.open file, nothing partial *)
  /\ inflight st + queued st = 0.

(* no file is open any more, and every file holds complete records only *)
Definition files_final (st : wst) : Prop :=
  Forall (fun w => wr_ph w = PhDone /\ wr_cur w = 0 /\ Forall (fun f => f_torn f = false) (wr_files w)) (x_writers st).
