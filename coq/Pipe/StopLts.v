(* Graceful stop (C03) as a labelled transition system over the worker goroutines of the four
   stages, the reactor's run loop, the WARC writers and the stopper goroutine executing
   controler.stopPipeline().  Transcribed from
     internal/pkg/controler/pipeline.go   stopPipeline: Freeze; preprocessor.Stop; archiver.Stop;
                                          postprocessor.Stop; finisher.Stop; ...; reactor.Stop
     internal/pkg/{preprocessor,archiver,postprocessor,finisher}: Stop = cancel(); wg.Wait()
       and the worker loop  select { ctx.Done | PauseCh | input }  ->  work  ->
       select { ctx.Done | output <- seed }
     internal/pkg/archiver/archiver.go    Stop additionally waits for and closes the one WARC client
                                          that exists (direct or proxied)
     internal/pkg/reactor/reactor.go      Freeze / Stop / run loop; a frozen reactor rejects feedback.
   Go's select chooses at random among its ready cases, so a worker whose context is already
   cancelled may still take another seed: [Take] does not test the cancel flag.

   [ackexit] says whether a worker that is blocked acknowledging a pause (the send on ResumeCh)
   can observe its stage's cancellation: false is the code before
   "fix: a paused stage worker observes stop", true is the code after it. *)
From Coq Require Export List Arith Bool Lia.
Export ListNotations.

Inductive wstate := WIdle | WBusy | WSend | WAck | WGone.

Record worker := W { w_stage : nat;        (* 1 preprocessor, 2 archiver, 3 postprocessor, 4 finisher *)
                     w_st : wstate;
                     w_ptok : bool }.      (* a pause token is waiting in this worker's PauseCh *)

Inductive wr := WrOpen | WrClosed | WrRenamed.   (* a WARC file: *.open, closed, renamed to its final name *)

Record sst := SST {
  s_w : nat;                 (* WorkersCount = capacity of every stage channel *)
  s_ackexit : bool;
  s_rin : nat;               (* seeds in the reactor's input channel *)
  s_ch : list nat;           (* seeds in the input channel of stage 1..4 (index 0..3) *)
  s_workers : list worker;
  s_cancel : list bool;      (* stage context cancelled, index 0..3 *)
  s_rstopped : bool;         (* reactor.Stop done: the run loop has exited *)
  s_writers : list wr;
  s_pc : nat                 (* position of the stopper in the stop sequence below *)
}.

(* the stop sequence after reactor.Freeze():
   0 cancel pre   1 wait pre   2 cancel arch  3 wait arch  4 close and rename the WARC files
   5 cancel post  6 wait post  7 cancel fin   8 wait fin   9 reactor.Stop   10 = stopped *)
Definition PC_DONE := 10.

Inductive label :=
| LRun                         (* reactor run loop: input -> channel of stage 1 *)
| LTake (j : nat)              (* worker j receives a seed from its stage's input channel *)
| LWork (j : nat)              (* its processing ends (environment: every fetch ends) *)
| LSend (j : nat)              (* it sends the seed on (the finisher: finish / rejected feedback) *)
| LAbort (j : nat)             (* blocked sending, it observes the cancellation and returns *)
| LExit (j : nat)              (* idle, it observes the cancellation and returns *)
| LPause (j : nat)             (* idle, it consumes its pause token and starts acknowledging *)
| LAckDone (j : nat)           (* a Resume receives its acknowledgement *)
| LAckExit (j : nat)           (* acknowledging, it observes the cancellation and returns *)
| LStopper.                    (* the stopper performs its next action *)

Fixpoint upd {A} (k : nat) (f : A -> A) (l : list A) : list A :=
  match l, k with
  | [], _ => []
  | x :: r, O => f x :: r
  | x :: r, S k' => x :: upd k' f r
  end.

Definition set_st (s : wstate) (w : worker) : worker := W (w_stage w) s (w_ptok w).
Definition cancelled (st : sst) (stage : nat) : bool := nth (stage - 1) (s_cancel st) false.
Definition chan (st : sst) (stage : nat) : nat := nth (stage - 1) (s_ch st) 0.

Definition with_workers (st : sst) (ws : list worker) : sst :=
  SST (s_w st) (s_ackexit st) (s_rin st) (s_ch st) ws (s_cancel st) (s_rstopped st) (s_writers st) (s_pc st).
Definition with_ch (st : sst) (rin : nat) (ch : list nat) (ws : list worker) : sst :=
  SST (s_w st) (s_ackexit st) rin ch ws (s_cancel st) (s_rstopped st) (s_writers st) (s_pc st).

Definition stage_gone (st : sst) (stage : nat) : bool :=
  forallb (fun w => negb (Nat.eqb (w_stage w) stage) || match w_st w with WGone => true | _ => false end) (s_workers st).

Definition stopper (st : sst) : option sst :=
  let mk c rs wr := SST (s_w st) (s_ackexit st) (s_rin st) (s_ch st) (s_workers st) c rs wr (S (s_pc st)) in
  match s_pc st with
  | 0 => Some (mk (upd 0 (fun _ => true) (s_cancel st)) (s_rstopped st) (s_writers st))
  | 1 => if stage_gone st 1 then Some (mk (s_cancel st) (s_rstopped st) (s_writers st)) else None
  | 2 => Some (mk (upd 1 (fun _ => true) (s_cancel st)) (s_rstopped st) (s_writers st))
  | 3 => if stage_gone st 2 then Some (mk (s_cancel st) (s_rstopped st) (s_writers st)) else None
  | 4 => Some (mk (s_cancel st) (s_rstopped st) (map (fun _ => WrRenamed) (s_writers st)))
  | 5 => Some (mk (upd 2 (fun _ => true) (s_cancel st)) (s_rstopped st) (s_writers st))
  | 6 => if stage_gone st 3 then Some (mk (s_cancel st) (s_rstopped st) (s_writers st)) else None
  | 7 => Some (mk (upd 3 (fun _ => true) (s_cancel st)) (s_rstopped st) (s_writers st))
  | 8 => if stage_gone st 4 then Some (mk (s_cancel st) (s_rstopped st) (s_writers st)) else None
  | 9 => Some (mk (s_cancel st) true (s_writers st))
  | _ => None
  end.

Definition step (st : sst) (l : label) : option sst :=
  match l with
  | LRun =>
    if negb (s_rstopped st) && Nat.ltb 0 (s_rin st) && Nat.ltb (chan st 1) (s_w st)
    then Some (with_ch st (pred (s_rin st)) (upd 0 S (s_ch st)) (s_workers st)) else None
  | LTake j =>
    match nth_error (s_workers st) j with
    | Some w =>
      match w_st w with
      | WIdle => if Nat.ltb 0 (chan st (w_stage w)) && Nat.leb 1 (w_stage w) && Nat.leb (w_stage w) 4
                 then Some (with_ch st (s_rin st) (upd (w_stage w - 1) pred (s_ch st)) (upd j (set_st WBusy) (s_workers st)))
                 else None
      | _ => None
      end
    | None => None
    end
  | LWork j =>
    match nth_error (s_workers st) j with
    | Some w => match w_st w with WBusy => Some (with_workers st (upd j (set_st WSend) (s_workers st))) | _ => None end
    | None => None
    end
  | LSend j =>
    match nth_error (s_workers st) j with
    | Some w =>
      match w_st w with
      | WSend =>
        if Nat.ltb (w_stage w) 4 then
          if Nat.ltb (chan st (S (w_stage w))) (s_w st)
          then Some (with_ch st (s_rin st) (upd (w_stage w) S (s_ch st)) (upd j (set_st WIdle) (s_workers st)))
          else None
        else (* the finisher: finish report, or feedback rejected by the frozen reactor - the seed leaves *)
          Some (with_workers st (upd j (set_st WIdle) (s_workers st)))
      | _ => None
      end
    | None => None
    end
  | LAbort j =>
    match nth_error (s_workers st) j with
    | Some w => match w_st w with
                | WSend => if cancelled st (w_stage w) then Some (with_workers st (upd j (set_st WGone) (s_workers st))) else None
                | _ => None end
    | None => None
    end
  | LExit j =>
    match nth_error (s_workers st) j with
    | Some w => match w_st w with
                | WIdle => if cancelled st (w_stage w) then Some (with_workers st (upd j (set_st WGone) (s_workers st))) else None
                | _ => None end
    | None => None
    end
  | LPause j =>
    match nth_error (s_workers st) j with
    | Some w => match w_st w with
                | WIdle => if w_ptok w then Some (with_workers st (upd j (fun w => W (w_stage w) WAck false) (s_workers st))) else None
                | _ => None end
    | None => None
    end
  | LAckDone j =>
    match nth_error (s_workers st) j with
    | Some w => match w_st w with WAck => Some (with_workers st (upd j (set_st WIdle) (s_workers st))) | _ => None end
    | None => None
    end
  | LAckExit j =>
    match nth_error (s_workers st) j with
    | Some w => match w_st w with
                | WAck => if s_ackexit st && cancelled st (w_stage w)
                          then Some (with_workers st (upd j (set_st WGone) (s_workers st))) else None
                | _ => None end
    | None => None
    end
  | LStopper => stopper st
  end.

Fixpoint run (st : sst) (ls : list label) : option sst :=
  match ls with
  | [] => Some st
  | l :: r => match step st l with Some st' => run st' r | None => None end
  end.

(* ---- the measure: how many steps can still happen ---- *)
Definition chan_weight (stage : nat) : nat :=       (* a seed waiting in the input channel of a stage *)
  match stage with 1 => 12 | 2 => 9 | 3 => 6 | 4 => 3 | _ => 0 end.
Definition worker_weight (w : worker) : nat :=
  (if w_ptok w then 2 else 0) +
  match w_st w with
  | WIdle => 1
  | WBusy => chan_weight (w_stage w)
  | WSend => chan_weight (w_stage w) - 1
  | WAck => 2
  | WGone => 0
  end.
Fixpoint sum (l : list nat) : nat := match l with [] => 0 | x :: r => x + sum r end.
Fixpoint chans_weight (stage : nat) (ch : list nat) : nat :=
  match ch with [] => 0 | n :: r => n * chan_weight stage + chans_weight (S stage) r end.
Definition measure (st : sst) : nat :=
  13 * s_rin st + chans_weight 1 (s_ch st) + sum (map worker_weight (s_workers st)) + (PC_DONE - s_pc st).

(* well-formed: four channels, four cancel flags, every worker belongs to a stage *)
Definition wf (st : sst) : Prop :=
  length (s_ch st) = 4 /\ length (s_cancel st) = 4
  /\ Forall (fun w => 1 <= w_stage w <= 4) (s_workers st).

Definition final (st : sst) : Prop :=
  s_pc st = PC_DONE
  /\ Forall (fun w => w_st w = WGone) (s_workers st)
  /\ Forall (fun x => x = WrRenamed) (s_writers st)
  /\ s_rstopped st = true.
