(* C03 - the rate limiter's part of "a stop request returns within bounded time".

   archiver.Stop() cancels the stage context and then waits for the archiver workers.  A worker that is inside
   archive() finishes its seed first, and with the rate limiter on every URL of the seed starts with
   globalBucketManager.Wait(host): a polling loop on the host's token bucket that does NOT watch the context.
   Stop() therefore returns in bounded time only if every such wait is bounded by the bucket itself: the penalty
   is capped (30 s) and the refill rate never falls below its floor min(1/2, configured rate), whatever the host
   answered before.  The stage model (Pipe/StopLts.v) takes "a worker that is processing a seed finishes" as its
   environment hypothesis; this file and LimiterWaitProofs.v discharge the limiter's share of it.

   The bucket is C13's model (Rate/Bucket.v: exact arithmetic over Q, time in ns, one operation per critical
   section of tb.mu).  Definitions only; proofs in LimiterWaitProofs.v. *)
From ZenoV Require Import Rate.Bucket.
Open Scope Z_scope.

(* the slowest refill rate a bucket configured with rate [r] can be brought to: min(minRefillRate, idealRate) *)
Definition floor_rate (r : Q) : Q := Qmin (1 # 2) r.

(* [k] waiting goroutines are covered at instant [t] when the last operation on the bucket happened at or before
   [T]: the longest penalty (30 s) has run out and the time since then is worth [k] tokens at the floor rate *)
Definition covered (r : Q) (k T t : Z) : Prop :=
  (inject_Z k <= secs (t - (T + SEC30)) * floor_rate r)%Q.
Definition coveredb (r : Q) (k T t : Z) : bool :=
  Qle_bool (inject_Z k) (secs (t - (T + SEC30)) * floor_rate r).

(* the same for the usual configurations (rate >= 1/2 token per second): 30 s + 2 s per waiting goroutine *)
Definition wait_bound_ns (k : Z) : Z := SEC30 + 2 * k * NS.

(* every operation of the history happened at or before T *)
Definition before (T : Z) (h : list op) : Prop := Forall (fun o => op_time o <= T) h.

(* [n] polls at the same instant, one per waiting goroutine (each is one iteration of Wait()'s loop): how many
   were granted *)
Fixpoint polls (n : nat) (t : Z) (b : bucket) : bucket * Z :=
  match n with
  | O => (b, 0)
  | S m => let '(b1, g) := try t b in
           let '(b2, c) := polls m t b1 in
           (b2, if g then c + 1 else c)
  end.

(* ---- the bucket WITHOUT the floor (what a 5xx branch that forgets the floor computes): the rate halves without
   bound, rate * 2^-(n(n+1)/2) after n consecutive 5xx answers ---- *)
Definition fail_nofloor := fail_with penalty_ns (fun _ => 0%Q).
Definition final_nofloor (b : bucket) (h : list op) : bucket := fst (run_with fail_nofloor b h).

(* the configuration every end-to-end crawl of the harness runs with (capacity 150, 50 tokens/s), created at instant 0 *)
Definition bucket150 : bucket := new_bucket (150 # 1) (50 # 1) 0.

(* six answers 503 of one host, 10 ms apart *)
Definition six_503 : list op :=
  [Fail 10000000 503; Fail 20000000 503; Fail 30000000 503; Fail 40000000 503; Fail 50000000 503; Fail 60000000 503].

Definition HOUR : Z := 3600 * NS.
