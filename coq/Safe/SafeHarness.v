(* C10 - what the generated case files evaluate.
   scan     : Zeno's own scanners, model prediction vs the real function (outputs and panic /
              no panic), plus the library models the scanners are written with;
   dispatch : the real postprocessItem on items with every combination of missing response /
              body / MIME / parsed URL, vs the nil-safety model;
   dcmatch  : the real domainscrawl.Match under a configuration built by the real AddElements vs
              the matcher model; what fasturl and regexp answer for the text are oracle values;
   fuzz     : outcome of one input on one extractor / the dispatch / the normaliser in an isolated
              child process (nothing to predict: third-party decoders are not modelled; the
              monitors are the property itself: no panic, no hang, no crash). *)
From ZenoV Require Import Lib.Harness Safe.GoOps Safe.Scanners Safe.Dispatch Safe.DomainsCrawl.
Open Scope Z_scope.

(* ---------------------------------------------------------------------------------------
   scan *)
Inductive obs :=
| OPanic                          (* the real function panicked (recovered by the driver) *)
| OBool (b : bool)
| OBytes (s : bytes)
| OList (l : list bytes)
| OErr                            (* the real function returned an error *)
| OInts (l : list Z)
| OMissing.                       (* the model needs an oracle answer the driver did not supply *)

Fixpoint list_eqb {A : Type} (eqb : A -> A -> bool) (a b : list A) : bool :=
  match a, b with
  | [], [] => true
  | x :: a', y :: b' => eqb x y && list_eqb eqb a' b'
  | _, _ => false
  end.

Definition obs_eqb (a b : obs) : bool :=
  match a, b with
  | OPanic, OPanic => true
  | OBool x, OBool y => Bool.eqb x y
  | OBytes x, OBytes y => bytes_eqb x y
  | OList x, OList y => list_eqb bytes_eqb x y
  | OErr, OErr => true
  | OInts x, OInts y => list_eqb Z.eqb x y
  | _, _ => false
  end.

(* function numbers *)
Definition F_FILEEXT : N := 0.
Definition F_LIKELYJSON : N := 1.
Definition F_SHORTID : N := 2.
Definition F_LINKHDR : N := 3.
Definition F_SCRIPT : N := 4.
Definition F_JWPLAYER : N := 5.     (* dead code, can panic: compared, not monitored *)
Definition F_TRIMSPACE : N := 6.    (* library model *)
Definition F_SPLIT : N := 7.        (* library model: Split(s, ", ") *)
Definition F_RANGE : N := 8.        (* library model: byte positions of `range s` *)
Definition F_SRCSET : N := 9.
Definition F_REDDIT : N := 10.      (* oracle row: (data.dist, Some permalinks of data.children); no row = Unmarshal failed *)

Record scase := SC {
  sc_fn : N;
  sc_in : bytes;
  (* script only: GetURLsFromJSON on every candidate payload rest[:k], keyed by k (sorted assets;
     None = error) *)
  sc_oracle : list (Z * option (list bytes));
  sc_obs : obs }.

Definition of_res {A : Type} (f : A -> obs) (r : res A) : obs :=
  match r with Ok a => f a | Panic => OPanic | Timeout => OMissing end.

Fixpoint lookup (k : Z) (t : list (Z * option (list bytes))) : option (option (list bytes)) :=
  match t with
  | [] => None
  | (k', v) :: r => if k =? k' then Some v else lookup k r
  end.

(* byte positions at which `for pos := range s` starts a rune *)
Fixpoint range_positions (fuel : nat) (s : bytes) (pos : Z) : list Z :=
  match fuel with
  | O => []
  | S f => match s with
           | [] => []
           | _ :: _ => pos :: range_positions f (skipn (rune_width s) s) (pos + Z.of_nat (rune_width s))
           end
  end.

Definition predict (c : scase) : obs :=
  let s := sc_in c in
  let f := sc_fn c in
  if (f =? F_FILEEXT)%N then of_res OBool (has_file_extension s)
  else if (f =? F_LIKELYJSON)%N then of_res OBool (is_likely_json s)
  else if (f =? F_SHORTID)%N then of_res OBytes (get_short_id s)
  else if (f =? F_LINKHDR)%N then of_res OList (link_header s)
  else if (f =? F_SCRIPT)%N then
    match script_payload s with
    | Ok (None, _) => OList []
    | Ok (Some p, _) =>
        match lookup (len p) (sc_oracle c) with
        | Some (Some l) => OList l
        | Some None => OErr
        | None => OMissing
        end
    | Panic => OPanic
    | Timeout => OMissing
    end
  else if (f =? F_JWPLAYER)%N then of_res OBytes (jwplayer_version s)
  else if (f =? F_TRIMSPACE)%N then OBytes (trim_space s)
  else if (f =? F_SPLIT)%N then OList (split s (bs ", "))
  else if (f =? F_RANGE)%N then OInts (range_positions (S (List.length s)) s 0)
  else if (f =? F_SRCSET)%N then of_res OList (srcset_urls s)
  else if (f =? F_REDDIT)%N then
    (let decoded := match sc_oracle c with
                    | (dist, Some perms) :: _ => Some (dist, perms)
                    | _ => None
                    end in
     match reddit_permalinks decoded with
     | Ok (Some l) => OList l
     | Ok None => OErr
     | Panic => OPanic
     | Timeout => OMissing
     end)
  else OMissing.

Definition sdiff_case (c : scase) : bool := negb (obs_eqb (predict c) (sc_obs c)).

(* monitor 0 - the property: the real function did not panic (every function but the dead one) *)
Definition smon_no_panic (c : scase) : bool :=
  if (sc_fn c =? F_JWPLAYER)%N then true
  else match sc_obs c with OPanic => false | _ => true end.

(* monitor 1 - what the theorems say about the value: GetShortID returns a prefix of the id of at
   most 11 bytes; every Link-header URL is non-empty *)
Definition smon_value (c : scase) : bool :=
  if (sc_fn c =? F_SHORTID)%N then
    match sc_obs c with
    | OBytes r => has_prefix (sc_in c) r && (len r <=? 11)
    | _ => true
    end
  else if (sc_fn c =? F_LINKHDR)%N then
    match sc_obs c with
    | OList l => forallb (fun u => negb (is_empty u)) l
    | _ => true
    end
  else true.

Definition sdiffs (l : list scase) := bad_idx sdiff_case l.
Definition smons (l : list scase) := mon_idx [smon_no_panic; smon_value] l.

(* ---------------------------------------------------------------------------------------
   dispatch *)
Record dcase := DC {
  d_conf : conf;
  d_view : view;
  d_preds : preds;
  d_exts : exts;
  d_panic : bool;          (* the real postprocessItem panicked *)
  d_status : status;       (* item status afterwards *)
  d_children : Z;
  d_outlinks : Z;
  d_prepared : bool }.     (* the item was prepared by the real archiver.ProcessBody and that returned nil *)

Definition ddiff_case (c : dcase) : bool :=
  match postprocess_item (d_conf c) (d_view c) (d_preds c) (d_exts c) with
  | Ok o =>
      negb (negb (d_panic c)
            && status_eqb (o_status o) (d_status c)
            && (o_children o =? d_children c)
            && (if domains_crawl (d_conf c) then d_outlinks c <=? o_outlinks o
                else o_outlinks o =? d_outlinks c))
  | Panic => negb (d_panic c)
  | Timeout => true
  end.

(* monitor 0 - dispatch_nil_safe: an item that satisfies the archiver's invariant is processed
   without a panic *)
Definition dmon_nil_safe (c : dcase) : bool :=
  if archiver_invb (d_view c) then negb (d_panic c) else true.

(* monitor 1 - an item that is not archived is left alone *)
Definition dmon_untouched (c : dcase) : bool :=
  if status_eqb (v_status (d_view c)) Archived then true
  else negb (d_panic c) && status_eqb (d_status c) (v_status (d_view c))
       && (d_children c =? 0) && (d_outlinks c =? 0).

(* monitor 2 - the archiver's side: an item prepared by the real ProcessBody (returned nil) and
   marked archived satisfies the invariant the dispatch theorem assumes *)
Definition dmon_archiver_inv (c : dcase) : bool :=
  if d_prepared c then archiver_invb (d_view c) else true.

Definition ddiffs (l : list dcase) := bad_idx ddiff_case l.
Definition dmons (l : list dcase) := mon_idx [dmon_nil_safe; dmon_untouched; dmon_archiver_inv] l.

(* ---------------------------------------------------------------------------------------
   fuzz: target number, outcome (0 returned - with or without an error; 1 panic; 2 no answer
   within the watchdog; 3 the child process died: fatal error, out of memory) *)
Record fcase := FZ { f_target : N; f_outcome : N }.

Definition fmon_no_panic (c : fcase) : bool := negb (f_outcome c =? 1)%N.
Definition fmon_no_hang (c : fcase) : bool := negb (f_outcome c =? 2)%N.
Definition fmon_no_crash (c : fcase) : bool := negb (f_outcome c =? 3)%N.

Definition fdiffs (l : list fcase) : list N := [].
Definition fmons (l : list fcase) := mon_idx [fmon_no_panic; fmon_no_hang; fmon_no_crash] l.

(* ---------------------------------------------------------------------------------------
   dcmatch: one (configuration, link text).  The configuration is what the real AddElements
   stored (read back through a shim); a compiled regular expression is represented by what its
   MatchString answered for this text (computed by the driver on its own copy), the parse result
   by what fasturl.ParseURL answered for this text (None = error, nil URL). *)
Inductive mobs :=
| MPanic                          (* the real Match panicked (recovered by the driver) *)
| MBool (b : bool).

Record mcase := MC {
  m_conf : dc_conf bool;
  m_raw : bytes;
  m_parsed : option bytes;
  m_obs : mobs }.

Definition mpredict (c : mcase) : res bool :=
  dc_match bool (fun hit _ => hit) (fun _ => m_parsed c) (m_conf c) (m_raw c).

Definition mdiff_case (c : mcase) : bool :=
  match mpredict c, m_obs c with
  | Ok b, MBool b' => negb (Bool.eqb b b')
  | Panic, MPanic => false
  | _, _ => true
  end.

(* monitor 0 - the property (C10_domains_crawl_match_total): the real Match returned for this
   configuration and this text *)
Definition mmon_total (c : mcase) : bool :=
  match m_obs c with MPanic => false | MBool _ => true end.

Definition mdiffs (l : list mcase) := bad_idx mdiff_case l.
Definition mmons (l : list mcase) := mon_idx [mmon_total] l.
