(* C10 - proofs about Safe/DomainsCrawl.v: the domains-crawl matcher is a total function of
   (configuration, link text) - whatever the operator configured and whatever text the server made
   the extractors produce, u.Host is never read from a nil parse result - it answers false on a
   text that does not parse, and the outlink loop of postprocessItem that consults it is total.
   The early return on the parse error is needed exactly for the configurations that hold a plain
   domain or a host-only URL. *)
From Coq Require Import Lia.
From ZenoV Require Import Safe.GoOps Safe.DomainsCrawl.
Open Scope Z_scope.

Section Proofs.
  Variable R : Type.
  Variable re_match : R -> bytes -> bool.
  Variable parse : bytes -> option bytes.

  Lemma domains_loop_some h ds : exists b, domains_loop (Some h) ds = Ok b.
  Proof.
    induction ds as [|d r IH]; cbn [domains_loop deref bind]; [eauto|].
    destruct (is_sub_or_exact h d); eauto.
  Qed.

  Lemma urls_loop_some h raw us : exists b, urls_loop (Some h) raw us = Ok b.
  Proof.
    induction us as [|s r IH]; cbn [urls_loop deref bind]; [eauto|].
    destruct (bytes_eqb (su_string s) raw); [eauto|].
    destruct (su_bare s); [|exact IH].
    destruct (is_sub_or_exact h (su_host s)); eauto.
  Qed.

  (* a configuration without host-only URL never reads u.Host in the URL loop *)
  Lemma urls_loop_nobare u raw us :
    existsb su_bare us = false -> exists b, urls_loop u raw us = Ok b.
  Proof.
    induction us as [|s r IH]; cbn [urls_loop existsb]; intros Hb; [eauto|].
    apply Bool.orb_false_iff in Hb. destruct Hb as [Hs Hr].
    destruct (bytes_eqb (su_string s) raw); [eauto|]. rewrite Hs. exact (IH Hr).
  Qed.

  Lemma urls_loop_nil_panics raw us :
    (forall s, In s us -> su_string s <> raw) -> existsb su_bare us = true ->
    urls_loop None raw us = Panic.
  Proof.
    induction us as [|s r IH]; cbn [urls_loop existsb]; intros Hne Hb; [discriminate|].
    destruct (bytes_eqb (su_string s) raw) eqn:He.
    - apply bytes_eqb_eq in He. exfalso. exact (Hne s (or_introl eq_refl) He).
    - destruct (su_bare s); [reflexivity|].
      apply IH; [intros t Ht; apply Hne; right; exact Ht|exact Hb].
  Qed.

  Lemma dc_match_g_parsed early c raw h :
    parse raw = Some h -> exists b, dc_match_g R re_match parse early c raw = Ok b.
  Proof.
    intros Hp. unfold dc_match_g. rewrite Hp. cbn [is_nil andb].
    destruct (domains_loop_some h (dc_domains c)) as [d Hd]. rewrite Hd. cbn [bind].
    destruct d; [eauto|].
    destruct (urls_loop_some h raw (dc_urls c)) as [s Hs]. rewrite Hs. cbn [bind].
    destruct s; eauto.
  Qed.

  (* Match: total for every configuration and every link text; false on a text that does not parse *)
  Lemma dc_match_total (c : dc_conf R) (raw : bytes) :
    exists b, dc_match R re_match parse c raw = Ok b /\ (parse raw = None -> b = false).
  Proof.
    destruct (parse raw) as [h|] eqn:Hp.
    - destruct (dc_match_g_parsed (fun _ => true) c raw h Hp) as [b Hb].
      exists b. split; [exact Hb|discriminate].
    - exists false. split; [|reflexivity].
      unfold dc_match, dc_match_g. rewrite Hp. reflexivity.
  Qed.

  Lemma outlink_step_total c item_hops max_hops raw hops :
    exists k, outlink_step R re_match parse c item_hops max_hops raw hops = Ok k
              /\ (dc_enabled c = false -> k = Some hops).
  Proof.
    unfold outlink_step. destruct (dc_enabled c); [|eauto].
    destruct (dc_match_total c raw) as [m [Hm _]]. rewrite Hm. cbn [bind].
    destruct m; [eexists; split; [reflexivity|discriminate]|].
    cbn [negb andb]. destruct (item_hops >=? max_hops); eexists; (split; [reflexivity|discriminate]).
  Qed.

  Lemma outlinks_loop_total c item_hops max_hops (links : list (bytes * Z)) :
    exists kept, outlinks_loop R re_match parse c item_hops max_hops links = Ok kept
                 /\ (List.length kept <= List.length links)%nat
                 /\ incl (map fst kept) (map fst links)
                 /\ (dc_enabled c = false -> kept = links).
  Proof.
    induction links as [|[raw hops] r IH]; cbn [outlinks_loop].
    - exists []. repeat split; [apply le_n|apply incl_refl].
    - destruct (outlink_step_total c item_hops max_hops raw hops) as [k [Hk Hd]]. rewrite Hk. cbn [bind].
      destruct IH as [rest [Hr [Hl [Hi Hdr]]]]. rewrite Hr. cbn [bind].
      destruct k as [h|].
      + exists ((raw, h) :: rest). repeat split.
        * cbn [List.length]. lia.
        * cbn [map fst]. intros x [Hx|Hx]; [left; exact Hx|right; exact (Hi x Hx)].
        * intros Hoff. specialize (Hd Hoff). injection Hd as ->. rewrite (Hdr Hoff). reflexivity.
      + exists rest. repeat split.
        * cbn [List.length]. lia.
        * cbn [map fst]. intros x Hx. right. exact (Hi x Hx).
        * intros Hoff. specialize (Hd Hoff). discriminate.
  Qed.
End Proofs.

Lemma dc_match_total_lemma :
  forall (R : Type) (re_match : R -> bytes -> bool) (parse : bytes -> option bytes) (c : dc_conf R) (raw : bytes),
    exists b, dc_match R re_match parse c raw = Ok b /\ (parse raw = None -> b = false).
Proof. exact dc_match_total. Qed.

Lemma outlinks_loop_total_lemma :
  forall (R : Type) (re_match : R -> bytes -> bool) (parse : bytes -> option bytes) (c : dc_conf R)
         (item_hops max_hops : Z) (links : list (bytes * Z)),
    exists kept, outlinks_loop R re_match parse c item_hops max_hops links = Ok kept
                 /\ (List.length kept <= List.length links)%nat
                 /\ incl (map fst kept) (map fst links)
                 /\ (dc_enabled c = false -> kept = links).
Proof. exact outlinks_loop_total. Qed.

(* ---------------------------------------------------------------------------------------
   The early return is what keeps u.Host away from a nil URL: a condition [early] on the
   configuration in front of `return false` is safe for all configurations, texts and parsers
   exactly when it holds for every configuration with a plain domain or a host-only URL. *)
Definition reads_host {R : Type} (c : dc_conf R) : bool :=
  match dc_domains c with [] => false | _ :: _ => true end || existsb su_bare (dc_urls c).

(* a text that equals no stored URL: longer than all of them *)
Definition fresh_text (us : list stored_url) : bytes :=
  repeat "a"%char (S (list_max (map (fun s => List.length (su_string s)) us))).

Lemma fresh_text_fresh us s : In s us -> su_string s <> fresh_text us.
Proof.
  intros Hin He.
  assert (Hle : (List.length (su_string s) <= list_max (map (fun s => List.length (su_string s)) us))%nat).
  { pose proof (proj1 (list_max_le (map (fun s => List.length (su_string s)) us) _) (le_n _)) as Hall.
    rewrite Forall_forall in Hall. apply Hall. apply in_map_iff. exists s. split; [reflexivity|exact Hin]. }
  rewrite He in Hle. unfold fresh_text in Hle. rewrite repeat_length in Hle. lia.
Qed.

Lemma dc_match_guard_needed_lemma :
  forall (R : Type) (early : dc_conf R -> bool),
    (forall re_match parse c raw, dc_match_g R re_match parse early c raw <> Panic)
    <-> (forall c, reads_host c = true -> early c = true).
Proof.
  intros R early. split.
  - intros Hsafe c Hr. destruct (early c) eqn:He; [reflexivity|]. exfalso.
    apply (Hsafe (fun _ _ => false) (fun _ => None) c (fresh_text (dc_urls c))).
    unfold dc_match_g. rewrite He. cbn [is_nil andb].
    unfold reads_host in Hr. destruct (dc_domains c) as [|d ds]; [|reflexivity].
    cbn [orb] in Hr. cbn [domains_loop bind].
    rewrite (urls_loop_nil_panics (fresh_text (dc_urls c)) (dc_urls c)); [reflexivity| |exact Hr].
    intros s Hs. exact (fresh_text_fresh _ s Hs).
  - intros Hearly re_match parse c raw.
    destruct (parse raw) as [h|] eqn:Hp.
    + destruct (dc_match_g_parsed R re_match parse early c raw h Hp) as [b Hb]. rewrite Hb. discriminate.
    + unfold dc_match_g. rewrite Hp. cbn [is_nil andb].
      destruct (early c) eqn:He; [discriminate|].
      assert (Hr : reads_host c = false).
      { destruct (reads_host c) eqn:Hr; [|reflexivity]. rewrite (Hearly c Hr) in He. discriminate. }
      unfold reads_host in Hr. apply Bool.orb_false_iff in Hr. destruct Hr as [Hd Hu].
      destruct (dc_domains c) as [|d ds]; [|discriminate]. cbn [domains_loop bind].
      destruct (urls_loop_nobare None raw (dc_urls c) Hu) as [s Hs]. rewrite Hs. cbn [bind].
      destruct s; discriminate.
Qed.

(* the variant that lets the regular expressions look at a text that does not parse: one plain
   domain, one regular expression, one text the parser rejects *)
Lemma dc_match_regex_first_refuted :
  exists (c : dc_conf unit) (raw : bytes),
    dc_domains c <> [] /\ dc_regexes c <> []
    /\ dc_match_regex_first unit (fun _ _ => false) (fun _ => None) c raw = Panic
    /\ dc_match unit (fun _ _ => false) (fun _ => None) c raw = Ok false.
Proof.
  exists (DCC true [bs "example.com"] [] [tt]), (bs "https://example.com/page?q=caf").
  repeat split; try discriminate; reflexivity.
Qed.

(* non-vacuity: a mixed configuration (plain domain, host-only URL, URL with a path, one regular
   expression that hits) on three texts: a subdomain of the plain domain, a text that does not
   parse but equals a stored URL, and a text that does not parse and that only the expression
   would have matched *)
Example dc_match_nonvacuous :
  let c := DCC true [bs "example.com"] [SU (bs "https://h.example") (bs "h.example") true;
                                         SU (bs "https://x.example/a?u=/b") (bs "x.example") false] [true] in
  let parse := fun raw : bytes => if has_prefix raw (bs "https://www.example.com/") then Some (bs "www.example.com")
                                  else if has_prefix raw (bs "https://sub.h.example/") then Some (bs "sub.h.example")
                                  else None in
  dc_match bool (fun hit _ => hit) parse c (bs "https://www.example.com/p") = Ok true
  /\ dc_match bool (fun hit _ => hit) parse c (bs "https://sub.h.example/p") = Ok true
  /\ dc_match bool (fun hit _ => hit) parse c (bs "https://x.example/a?u=/b") = Ok false
  /\ reads_host c = true
  /\ outlinks_loop bool (fun hit _ => hit) parse c 1 1
       [(bs "https://www.example.com/p", 2); (bs "?q=caf", 2); (bs "https://sub.h.example/p", 2)]
     = Ok [(bs "https://www.example.com/p", 0); (bs "https://sub.h.example/p", 0)].
Proof. repeat split; reflexivity. Qed.
