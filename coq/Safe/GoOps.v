(* C10 - Go's panicking operations made explicit, and byte-level models of the standard-library
   string functions Zeno's own scanners are written with.

   A Go expression that can fail at run time is a computation in [res]:
     [Panic]    the runtime would panic (slice bounds out of range, index out of range,
                nil dereference, explicit panic(...));
     [Timeout]  a loop of the model ran out of the fuel it was given (the theorems state the
                fuel that always suffices, linear in the input length).
   Indices are [Z] (Go ints; strings.IndexByte really returns -1), lengths of the inputs are far
   below 2^63 so that int overflow is not modelled.

   The standard-library functions (IndexByte, LastIndexByte, HasPrefix, Contains, Split, SplitN,
   SplitAfterN, Trim with an ASCII cut set, TrimSpace, the UTF-8 decoding of `range` over a string)
   are total in Go on every string; their definitions here are transcriptions of their documented
   behaviour, they are exercised against the real functions by the `scan` driver on every run and
   are part of the modelled-not-verified base.  Executable definitions only; proofs: GoOpsProofs.v. *)
From Coq Require Export List Ascii String ZArith NArith Bool.
From ZenoV Require Export Lib.Hex.
Export ListNotations.
Open Scope Z_scope.

Inductive res (A : Type) : Type :=
| Ok (a : A)
| Panic
| Timeout.
Arguments Ok {A} a.
Arguments Panic {A}.
Arguments Timeout {A}.

Definition bind {A B : Type} (r : res A) (f : A -> res B) : res B :=
  match r with
  | Ok a => f a
  | Panic => Panic
  | Timeout => Timeout
  end.

Notation "x <- r ;; k" := (bind r (fun x => k)) (at level 61, r at next level, right associativity).

Definition is_ok {A : Type} (r : res A) : bool := match r with Ok _ => true | _ => false end.
Definition is_panic {A : Type} (r : res A) : bool := match r with Panic => true | _ => false end.

(* len(s) *)
Definition len {A : Type} (l : list A) : Z := Z.of_nat (List.length l).

(* s[lo:hi] - panics unless 0 <= lo <= hi <= len(s) *)
Definition slice {A : Type} (s : list A) (lo hi : Z) : res (list A) :=
  if (0 <=? lo) && (lo <=? hi) && (hi <=? len s)
  then Ok (firstn (Z.to_nat (hi - lo)) (skipn (Z.to_nat lo) s))
  else Panic.
Definition slice_to {A : Type} (s : list A) (hi : Z) : res (list A) := slice s 0 hi.        (* s[:hi] *)
Definition slice_from {A : Type} (s : list A) (lo : Z) : res (list A) := slice s lo (len s). (* s[lo:] *)

(* s[i] - panics unless 0 <= i < len(s) *)
Definition index {A : Type} (s : list A) (i : Z) : res A :=
  if (0 <=? i) && (i <? len s)
  then match nth_error s (Z.to_nat i) with Some a => Ok a | None => Panic end
  else Panic.

(* p.f where p may be nil *)
Definition deref {A : Type} (p : option A) : res A :=
  match p with Some a => Ok a | None => Panic end.

(* ---------------------------------------------------------------------------------------
   package strings, byte level *)

Definition bN (a : ascii) : N := N_of_ascii a.
Definition byte_of (n : N) : ascii := ascii_of_N n.

Fixpoint index_byte_from (s : bytes) (c : ascii) (i : Z) : Z :=
  match s with
  | [] => -1
  | a :: r => if Ascii.eqb a c then i else index_byte_from r c (i + 1)
  end.
(* strings.IndexByte: first position of c, -1 when absent *)
Definition index_byte (s : bytes) (c : ascii) : Z := index_byte_from s c 0.

Fixpoint last_index_byte_from (s : bytes) (c : ascii) (i best : Z) : Z :=
  match s with
  | [] => best
  | a :: r => last_index_byte_from r c (i + 1) (if Ascii.eqb a c then i else best)
  end.
(* strings.LastIndexByte: last position of c, -1 when absent *)
Definition last_index_byte (s : bytes) (c : ascii) : Z := last_index_byte_from s c 0 (-1).

(* strings.HasPrefix(s, p) *)
Fixpoint has_prefix (s p : bytes) : bool :=
  match p, s with
  | [], _ => true
  | a :: p', c :: s' => Ascii.eqb a c && has_prefix s' p'
  | _ :: _, [] => false
  end.

(* strings.Contains(s, sub) *)
Fixpoint contains (s sub : bytes) : bool :=
  has_prefix s sub || match s with [] => false | _ :: r => contains r sub end.

(* strings.Split(s, sep) for a NON-EMPTY sep (every call site passes a literal).  [skip] counts the
   bytes of a separator that was just matched and still has to be stepped over; [cur] is the
   current field, reversed. *)
Fixpoint split_aux (sep s : bytes) (skip : nat) (cur : bytes) : list bytes :=
  match s with
  | [] => [rev cur]
  | a :: r =>
      match skip with
      | S k => split_aux sep r k cur
      | O => if has_prefix s sep
             then rev cur :: split_aux sep r (List.length sep - 1) []
             else split_aux sep r O (a :: cur)
      end
  end.
Definition split (s sep : bytes) : list bytes := split_aux sep s O [].

(* the text before the first occurrence of sep and the text after it *)
Fixpoint cut_first (sep s acc : bytes) : option (bytes * bytes) :=
  if has_prefix s sep then Some (rev acc, skipn (List.length sep) s)
  else match s with
       | [] => None
       | a :: r => cut_first sep r (a :: acc)
       end.

(* strings.SplitN(s, sep, 2), non-empty sep *)
Definition split_n2 (s sep : bytes) : list bytes :=
  match cut_first sep s [] with
  | Some (a, b) => [a; b]
  | None => [s]
  end.

(* strings.SplitAfterN(s, sep, 2), non-empty sep *)
Definition split_after_n2 (s sep : bytes) : list bytes :=
  match cut_first sep s [] with
  | Some (a, b) => [a ++ sep; b]
  | None => [s]
  end.

(* strings.Trim(s, cutset) for a cut set of ASCII bytes: byte-wise on both ends *)
Definition in_set (cs : bytes) (a : ascii) : bool := existsb (Ascii.eqb a) cs.
Fixpoint trim_left_set (cs s : bytes) : bytes :=
  match s with
  | [] => []
  | a :: r => if in_set cs a then trim_left_set cs r else s
  end.
Definition trim_right_set (cs s : bytes) : bytes := rev (trim_left_set cs (rev s)).
Definition trim_set (cs s : bytes) : bytes := trim_right_set cs (trim_left_set cs s).

(* strings.TrimSpace: strips, on the left and then on the right, every rune r with
   unicode.IsSpace(r).  A valid encoding at the start of a string decodes to its rune, and
   utf8.DecodeLastRune finds the start byte closest to the end, so "the first / last rune is white
   space" is "the string starts / ends with the UTF-8 encoding of a white-space rune"; invalid
   bytes decode to U+FFFD, which is not white space.  The encodings: *)
Definition hxs (l : list N) : bytes := map byte_of l.
Open Scope N_scope.
Definition space_tokens : list bytes :=
  [ hxs [9]; hxs [10]; hxs [11]; hxs [12]; hxs [13]; hxs [32];       (* \t \n \v \f \r SP *)
    hxs [194; 133]; hxs [194; 160];                                   (* U+0085 U+00A0 *)
    hxs [225; 154; 128];                                              (* U+1680 *)
    hxs [226; 128; 128]; hxs [226; 128; 129]; hxs [226; 128; 130];    (* U+2000 .. *)
    hxs [226; 128; 131]; hxs [226; 128; 132]; hxs [226; 128; 133];
    hxs [226; 128; 134]; hxs [226; 128; 135]; hxs [226; 128; 136];
    hxs [226; 128; 137]; hxs [226; 128; 138];                         (* .. U+200A *)
    hxs [226; 128; 168]; hxs [226; 128; 169]; hxs [226; 128; 175];    (* U+2028 U+2029 U+202F *)
    hxs [226; 129; 159]; hxs [227; 128; 128] ].                       (* U+205F U+3000 *)
Close Scope N_scope.

Fixpoint strip_tokens (toks : list bytes) (fuel : nat) (s : bytes) : bytes :=
  match fuel with
  | O => s
  | S f => match find (fun t => has_prefix s t) toks with
           | Some t => strip_tokens toks f (skipn (List.length t) s)
           | None => s
           end
  end.
Definition trim_space (s : bytes) : bytes :=
  let l := strip_tokens space_tokens (List.length s) s in
  rev (strip_tokens (map (@rev ascii) space_tokens) (List.length l) (rev l)).

(* ---------------------------------------------------------------------------------------
   `for pos, char := range s`: the width of the rune decoded at the head of s
   (runtime.decoderune; ASCII bytes take the fast path).  A width above 1 is only reported when
   the following bytes are continuation bytes 0x80..0xBF. *)
Open Scope N_scope.
Definition is_cont (a : ascii) : bool := (128 <=? bN a) && (bN a <=? 191).
Definition rune_width (s : bytes) : nat :=
  match s with
  | [] => 1%nat
  | a :: r =>
      let b0 := bN a in
      if b0 <? 128 then 1%nat
      else if (192 <=? b0) && (b0 <? 224) then
        match r with
        | b1 :: _ =>
            if is_cont b1
            then (if 127 <? (b0 mod 32) * 64 + bN b1 mod 64 then 2%nat else 1%nat)
            else 1%nat
        | _ => 1%nat
        end
      else if (224 <=? b0) && (b0 <? 240) then
        match r with
        | b1 :: b2 :: _ =>
            if is_cont b1 && is_cont b2
            then (let rv := (b0 mod 16) * 4096 + (bN b1 mod 64) * 64 + bN b2 mod 64 in
                  if (2047 <? rv) && negb ((55296 <=? rv) && (rv <=? 57343)) then 3%nat else 1%nat)
            else 1%nat
        | _ => 1%nat
        end
      else if (240 <=? b0) && (b0 <? 248) then
        match r with
        | b1 :: b2 :: b3 :: _ =>
            if is_cont b1 && is_cont b2 && is_cont b3
            then (let rv := (b0 mod 8) * 262144 + (bN b1 mod 64) * 4096 + (bN b2 mod 64) * 64 + bN b3 mod 64 in
                  if (65535 <? rv) && (rv <=? 1114111) then 4%nat else 1%nat)
            else 1%nat
        | _ => 1%nat
        end
      else 1%nat
  end.
Close Scope N_scope.

(* equality of byte strings as a boolean (s == "rel") *)
Definition str_eqb (u v : bytes) : bool := bytes_eqb u v.
Definition is_empty (s : bytes) : bool := match s with [] => true | _ => false end.
