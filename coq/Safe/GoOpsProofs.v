(* C10 - facts about the operations of Safe/GoOps.v: when a slice / index is in bounds, and the
   ranges of the values the library models return. *)
From Coq Require Import Lia ZifyBool ZifyNat.
From ZenoV Require Import Safe.GoOps.
Open Scope Z_scope.

Lemma len_nonneg {A} (l : list A) : 0 <= len l.
Proof. unfold len; lia. Qed.

Lemma len_nil {A} : len (@nil A) = 0.
Proof. reflexivity. Qed.

Lemma len_cons {A} (a : A) l : len (a :: l) = len l + 1.
Proof. unfold len; cbn [List.length]; lia. Qed.

Lemma len_app {A} (l1 l2 : list A) : len (l1 ++ l2) = len l1 + len l2.
Proof. unfold len; rewrite app_length; lia. Qed.

(* ---- slice / index ---- *)
Lemma slice_ok {A} (s : list A) lo hi :
  0 <= lo -> lo <= hi -> hi <= len s ->
  exists r, slice s lo hi = Ok r /\ len r = hi - lo.
Proof.
  intros H0 H1 H2. unfold slice.
  replace ((0 <=? lo) && (lo <=? hi) && (hi <=? len s)) with true by lia.
  eexists; split; [reflexivity|].
  unfold len in *. rewrite firstn_length, skipn_length. lia.
Qed.

Lemma slice_panics {A} (s : list A) lo hi :
  lo < 0 \/ hi < lo \/ len s < hi -> slice s lo hi = Panic.
Proof.
  intros H. unfold slice.
  replace ((0 <=? lo) && (lo <=? hi) && (hi <=? len s)) with false by lia. reflexivity.
Qed.

Lemma slice_to_ok {A} (s : list A) hi :
  0 <= hi -> hi <= len s -> exists r, slice_to s hi = Ok r /\ len r = hi.
Proof.
  intros H0 H1. destruct (slice_ok s 0 hi) as [r [Hr Hl]]; try lia.
  exists r; split; [exact Hr|lia].
Qed.

Lemma slice_from_ok {A} (s : list A) lo :
  0 <= lo -> lo <= len s -> exists r, slice_from s lo = Ok r /\ len r = len s - lo.
Proof. intros H0 H1. apply slice_ok; lia. Qed.

Lemma index_ok {A} (s : list A) i :
  0 <= i -> i < len s -> exists a, index s i = Ok a.
Proof.
  intros H0 H1. unfold index.
  replace ((0 <=? i) && (i <? len s)) with true by lia.
  destruct (nth_error s (Z.to_nat i)) as [a|] eqn:E; [eauto|].
  apply nth_error_None in E. unfold len in H1. lia.
Qed.

Lemma index_panics {A} (s : list A) i :
  i < 0 \/ len s <= i -> index s i = Panic.
Proof.
  intros H. unfold index.
  replace ((0 <=? i) && (i <? len s)) with false by lia. reflexivity.
Qed.

(* ---- IndexByte / LastIndexByte ---- *)
Lemma index_byte_from_range s c i :
  index_byte_from s c i = -1 \/ (i <= index_byte_from s c i < i + len s).
Proof.
  revert i; induction s as [|a r IH]; intros i; cbn [index_byte_from].
  - left; reflexivity.
  - rewrite len_cons. destruct (Ascii.eqb a c).
    + right. pose proof (len_nonneg r). lia.
    + destruct (IH (i + 1)) as [H|H]; [left; exact H|right; lia].
Qed.

Lemma index_byte_range s c :
  index_byte s c = -1 \/ (0 <= index_byte s c < len s).
Proof. unfold index_byte. destruct (index_byte_from_range s c 0) as [H|H]; [left; exact H|right; lia]. Qed.

Lemma last_index_byte_from_range s c i best :
  last_index_byte_from s c i best = best \/ (i <= last_index_byte_from s c i best < i + len s).
Proof.
  revert i best; induction s as [|a r IH]; intros i best; cbn [last_index_byte_from].
  - left; reflexivity.
  - rewrite len_cons. pose proof (len_nonneg r) as Hn.
    destruct (Ascii.eqb a c); cbv iota.
    + destruct (IH (i + 1) i) as [H|H]; right; lia.
    + destruct (IH (i + 1) best) as [H|H]; [left; exact H|right; lia].
Qed.

Lemma last_index_byte_range s c :
  last_index_byte s c = -1 \/ (0 <= last_index_byte s c < len s).
Proof.
  unfold last_index_byte.
  destruct (last_index_byte_from_range s c 0 (-1)) as [H|H]; [left; exact H|right; lia].
Qed.

(* ---- Split ---- *)
Lemma split_aux_nonempty sep s k cur : split_aux sep s k cur <> [].
Proof.
  revert k cur; induction s as [|a r IH]; intros k cur; cbn [split_aux].
  - discriminate.
  - destruct k as [|k]; [|apply IH].
    destruct (has_prefix (a :: r) sep); [discriminate|apply IH].
Qed.

Lemma split_len_pos s sep : 1 <= len (split s sep).
Proof.
  unfold split. pose proof (split_aux_nonempty sep s O []) as H.
  destruct (split_aux sep s 0 []); [congruence|]. rewrite len_cons. pose proof (len_nonneg l). lia.
Qed.

(* number of fields: at most one more than the number of bytes *)
Lemma split_aux_count sep s k cur : len (split_aux sep s k cur) <= len s + 1.
Proof.
  revert k cur; induction s as [|a r IH]; intros k cur; cbn [split_aux].
  - unfold len; cbn [List.length]; lia.
  - rewrite len_cons. destruct k as [|k].
    + destruct (has_prefix (a :: r) sep).
      * rewrite len_cons. specialize (IH (List.length sep - 1)%nat []). lia.
      * specialize (IH O (a :: cur)). lia.
    + specialize (IH k cur). lia.
Qed.

Lemma split_count s sep : len (split s sep) <= len s + 1.
Proof. apply split_aux_count. Qed.

(* total number of bytes in the fields: at most the number of bytes of the input *)
Fixpoint sum_len (l : list bytes) : Z :=
  match l with [] => 0 | x :: r => len x + sum_len r end.

Lemma split_aux_bytes sep s k cur : sum_len (split_aux sep s k cur) <= len s + len cur.
Proof.
  revert k cur; induction s as [|a r IH]; intros k cur; cbn [split_aux].
  - cbn [sum_len]. unfold len. rewrite rev_length. cbn [List.length]. lia.
  - rewrite len_cons. destruct k as [|k].
    + destruct (has_prefix (a :: r) sep).
      * cbn [sum_len]. specialize (IH (List.length sep - 1)%nat []). rewrite len_nil in IH.
        unfold len at 1. rewrite rev_length. fold (len cur). lia.
      * specialize (IH O (a :: cur)). rewrite len_cons in IH. lia.
    + specialize (IH k cur). lia.
Qed.

Lemma split_bytes s sep : sum_len (split s sep) <= len s.
Proof. unfold split. pose proof (split_aux_bytes sep s O []) as H. rewrite len_nil in H. lia. Qed.

Lemma split_n2_len s sep : len (split_n2 s sep) = 1 \/ len (split_n2 s sep) = 2.
Proof. unfold split_n2. destruct (cut_first sep s []) as [[a b]|]; [right|left]; reflexivity. Qed.

Lemma split_after_n2_len s sep : len (split_after_n2 s sep) = 1 \/ len (split_after_n2 s sep) = 2.
Proof. unfold split_after_n2. destruct (cut_first sep s []) as [[a b]|]; [right|left]; reflexivity. Qed.

(* the second field of SplitAfterN is a suffix of the input: never longer than it *)
Lemma cut_first_len sep s acc a b :
  cut_first sep s acc = Some (a, b) -> len b <= len s.
Proof.
  revert acc; induction s as [|x r IH]; intros acc; cbn [cut_first].
  - destruct (has_prefix [] sep); [|discriminate].
    intros [= _ <-]. unfold len. rewrite skipn_length. lia.
  - destruct (has_prefix (x :: r) sep).
    + intros [= _ <-]. unfold len. rewrite skipn_length. lia.
    + intros H. apply IH in H. rewrite len_cons. lia.
Qed.

(* ---- range over a string ---- *)
Lemma rune_width_pos s : (1 <= rune_width s)%nat.
Proof.
  unfold rune_width. destruct s as [|a r]; [lia|].
  repeat match goal with
         | |- context [if ?b then _ else _] => destruct b
         | |- context [match ?l with [] => _ | _ :: _ => _ end] => destruct l
         end; lia.
Qed.

Lemma rune_width_le4 s : (rune_width s <= 4)%nat.
Proof.
  unfold rune_width. destruct s as [|a r]; [lia|].
  repeat match goal with
         | |- context [if ?b then _ else _] => destruct b
         | |- context [match ?l with [] => _ | _ :: _ => _ end] => destruct l
         end; lia.
Qed.

(* a width above one is only reported when that many bytes are there *)
Lemma rune_width_le_len s : s <> [] -> (rune_width s <= List.length s)%nat.
Proof.
  intros Hs. unfold rune_width. destruct s as [|a r]; [congruence|].
  repeat match goal with
         | |- context [if ?b then _ else _] => destruct b
         | |- context [match ?l with [] => _ | _ :: _ => _ end] => destruct l
         end; cbn [List.length]; lia.
Qed.
