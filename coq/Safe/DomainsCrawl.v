(* C10 - the domains-crawl matcher as post-processing consults it for every extracted outlink:
     internal/pkg/postprocessor/domainscrawl/domainscrawl.go   Match, isSubdomainOrExactMatch
     internal/pkg/postprocessor/item.go                        the outlink loop of postprocessItem
   The link text is SERVER-controlled (whatever the extractors found in the document, resolved or
   kept raw); the matcher's configuration is OPERATOR-controlled (--domains-crawl: any number of
   plain domains, full URLs and regular expressions, in any order).  The no-panic claim ranges over
   both: every configuration, every link text.

   fasturl.ParseURL is third-party: it enters as the function [parse] (None = `nil, err`, the
   returned *URL is nil; Some host = a URL with that Host).  It rejects a great deal of what pages
   contain (any non-ASCII byte, `/` or `?` inside a query, ports longer than 5 bytes, ...).
   regexp MatchString is RE2 (total, linear): [re_match] over an abstract type of
   compiled expressions.  u.Host on the parse result is an explicit [deref].
   Executable definitions only; proofs are in DomainsCrawlProofs.v. *)
From ZenoV Require Export Safe.GoOps.
Open Scope Z_scope.

(* strings.HasSuffix(s, p) *)
Definition has_suffix (s p : bytes) : bool := has_prefix (rev s) (rev p).

(* func isSubdomainOrExactMatch(host, domain string) bool {
       if host == domain { return true }
       if strings.HasSuffix(host, "."+domain) { return true }
       return false } *)
Definition is_sub_or_exact (host domain : bytes) : bool :=
  bytes_eqb host domain || has_suffix host (bs "." ++ domain).

(* an element that url.Parse accepted with scheme and host (AddElements): what Match reads of it *)
Record stored_url := SU {
  su_string : bytes;       (* storedURL.String() *)
  su_host : bytes;         (* storedURL.Host *)
  su_bare : bool }.        (* RawQuery == "" && Path == "" && Fragment == "" *)

(* globalMatcher after AddElements; [R] = compiled regular expressions *)
Record dc_conf (R : Type) := DCC {
  dc_enabled : bool;
  dc_domains : list bytes;
  dc_urls : list stored_url;
  dc_regexes : list R }.
Arguments DCC {R} _ _ _ _.
Arguments dc_enabled {R} _.
Arguments dc_domains {R} _.
Arguments dc_urls {R} _.
Arguments dc_regexes {R} _.

Section Matcher.
  Variable R : Type.
  Variable re_match : R -> bytes -> bool.      (* re.MatchString(rawURL) *)
  Variable parse : bytes -> option bytes.      (* fasturl.ParseURL(rawURL): None = (nil, err) *)

  (* for _, domain := range globalMatcher.domains {
         if isSubdomainOrExactMatch(u.Host, domain) { return true } } *)
  Fixpoint domains_loop (u : option bytes) (ds : list bytes) : res bool :=
    match ds with
    | [] => Ok false
    | d :: r => h <- deref u ;; if is_sub_or_exact h d then Ok true else domains_loop u r
    end.

  (* for _, storedURL := range globalMatcher.urls {
         if storedURL.String() == rawURL { return true }
         if storedURL.RawQuery == "" && storedURL.Path == "" && storedURL.Fragment == "" &&
            isSubdomainOrExactMatch(u.Host, storedURL.Host) { return true } }
     (&& short-circuits: u.Host is read only for a stored URL that is host-only) *)
  Fixpoint urls_loop (u : option bytes) (raw : bytes) (us : list stored_url) : res bool :=
    match us with
    | [] => Ok false
    | s :: r =>
        if bytes_eqb (su_string s) raw then Ok true
        else if su_bare s
             then (h <- deref u ;; if is_sub_or_exact h (su_host s) then Ok true else urls_loop u raw r)
             else urls_loop u raw r
    end.

  Definition is_nil {A : Type} (o : option A) : bool := match o with None => true | Some _ => false end.

  (* func Match(rawURL string) bool {
         u, err := fasturl.ParseURL(rawURL)
         if err != nil { return false }
         ... the three loops ...
         return false }
     [early c] is the condition under which the parse error returns at once; the code has `true`. *)
  Definition dc_match_g (early : dc_conf R -> bool) (c : dc_conf R) (raw : bytes) : res bool :=
    let u := parse raw in
    if is_nil u && early c then Ok false
    else
      d <- domains_loop u (dc_domains c) ;;
      if d then Ok true
      else
        s <- urls_loop u raw (dc_urls c) ;;
        if s then Ok true
        else Ok (existsb (fun r => re_match r raw) (dc_regexes c)).

  Definition dc_match : dc_conf R -> bytes -> res bool := dc_match_g (fun _ => true).

  (* the variant "only the regular expressions may still look at a text that does not parse":
     returns early only when no regular expression is configured *)
  Definition dc_match_regex_first : dc_conf R -> bytes -> res bool :=
    dc_match_g (fun c => match dc_regexes c with [] => true | _ :: _ => false end).

  (* postprocessItem, per new outlink (hops = the outlink's hop count, item_hops = the page's):
       if domainscrawl.Enabled() && domainscrawl.Match(raw) { outlink.SetHops(0) }
       else if domainscrawl.Enabled() && !domainscrawl.Match(raw) && item.GetURL().GetHops() >= MaxHops { continue }
       outlinks = append(outlinks, NewItem(.., outlink, ..))
     Result: None = skipped, Some h = kept with hop count h. *)
  Definition outlink_step (c : dc_conf R) (item_hops max_hops : Z) (raw : bytes) (hops : Z) : res (option Z) :=
    if dc_enabled c then
      m <- dc_match c raw ;;
      if m then Ok (Some 0)
      else
        m' <- dc_match c raw ;;                      (* evaluated a second time by the else-if *)
        if negb m' && (item_hops >=? max_hops) then Ok None else Ok (Some hops)
    else Ok (Some hops).

  Fixpoint outlinks_loop (c : dc_conf R) (item_hops max_hops : Z) (links : list (bytes * Z)) : res (list (bytes * Z)) :=
    match links with
    | [] => Ok []
    | (raw, hops) :: r =>
        k <- outlink_step c item_hops max_hops raw hops ;;
        rest <- outlinks_loop c item_hops max_hops r ;;
        Ok (match k with Some h => (raw, h) :: rest | None => rest end)
    end.
End Matcher.
