(* C10 - transcriptions of Zeno's own byte-level scanners with every slice / index operation
   explicit ([GoOps.slice], [GoOps.index]); the Go text is quoted above each definition.
   Third-party decoders appear only as Section variables (oracles).
   Executable definitions only; proofs are in ScannersProofs.v. *)
From ZenoV Require Export Safe.GoOps.
Open Scope Z_scope.

Definition ch (s : string) : ascii := match s with String a _ => a | EmptyString => zero end.

(* ---------------------------------------------------------------------------------------
   internal/pkg/postprocessor/extractor/utils.go

   func hasFileExtension(s string) bool {
       if i := strings.IndexByte(s, '#'); i != -1 { s = s[:i] }
       if i := strings.IndexByte(s, '?'); i != -1 { s = s[:i] }
       if slashPos := strings.LastIndexByte(s, '/'); slashPos != -1 { s = s[slashPos+1:] }
       dotPos := strings.LastIndexByte(s, '.')
       if dotPos == -1 || dotPos == len(s)-1 { return false }
       return true
   } *)
Definition has_file_extension (s : bytes) : res bool :=
  s1 <- (let i := index_byte s (ch "#") in if i =? -1 then Ok s else slice_to s i) ;;
  s2 <- (let i := index_byte s1 (ch "?") in if i =? -1 then Ok s1 else slice_to s1 i) ;;
  s3 <- (let p := last_index_byte s2 (ch "/") in if p =? -1 then Ok s2 else slice_from s2 (p + 1)) ;;
  let d := last_index_byte s3 (ch ".") in
  Ok (negb ((d =? -1) || (d =? len s3 - 1))).

(* ---------------------------------------------------------------------------------------
   internal/pkg/postprocessor/extractor/json.go

   func isLikelyJSON(str string) bool {
       str = strings.TrimSpace(str)             (since e71ebd9)
       if len(str) < 5 { return false }
       return ((str[0] == '{' && str[len(str)-1] == '}') || (str[0] == '[' && str[len(str)-1] == ']'))
              && strings.Contains(str, DQUOTE)      -- DQUOTE: the one-byte string holding a double quote
   }
   (&& and || evaluate their right operand only when needed) *)
Definition and_then (a : res bool) (b : res bool) : res bool :=
  x <- a ;; if x then b else Ok false.
Definition or_else (a : res bool) (b : res bool) : res bool :=
  x <- a ;; if x then Ok true else b.
Definition byte_is (s : bytes) (i : Z) (c : ascii) : res bool :=
  a <- index s i ;; Ok (Ascii.eqb a c).

(* [guard] = the constant of the length test (5 in the code); a parameter only so that the
   proofs can show which values of it keep the function safe *)
Definition is_likely_json_core_g (guard : Z) (s : bytes) : res bool :=
  if len s <? guard then Ok false
  else
    and_then
      (or_else (and_then (byte_is s 0 (ch "{")) (byte_is s (len s - 1) (ch "}")))
               (and_then (byte_is s 0 (ch "[")) (byte_is s (len s - 1) (ch "]"))))
      (Ok (contains s [ch """"])).
Definition is_likely_json_g (guard : Z) (s : bytes) : res bool :=
  is_likely_json_core_g guard (trim_space s).
Definition is_likely_json (s : bytes) : res bool := is_likely_json_g 5 s.

(* ---------------------------------------------------------------------------------------
   pkg/models/item.go

   func (i *Item) GetShortID() string {
       hqPrefixes := []string{"seed-", "asset-"}
       for _, prefix := range hqPrefixes {
           if strings.HasPrefix(i.id, prefix) {
               end := len(prefix) + 5
               if end > len(i.id) { end = len(i.id) }
               return i.id[:end]
           }
       }
       if len(i.id) > 5 { return i.id[:5] }
       return i.id
   } *)
Fixpoint short_id_prefixes (prefixes : list bytes) (id : bytes) : res (option bytes) :=
  match prefixes with
  | [] => Ok None
  | p :: r =>
      if has_prefix id p
      then (let e := len p + 5 in
            let e' := if e >? len id then len id else e in
            x <- slice_to id e' ;; Ok (Some x))
      else short_id_prefixes r id
  end.
Definition get_short_id (id : bytes) : res bytes :=
  r <- short_id_prefixes [bs "seed-"; bs "asset-"] id ;;
  match r with
  | Some x => Ok x
  | None => if len id >? 5 then slice_to id 5 else Ok id
  end.

(* ---------------------------------------------------------------------------------------
   internal/pkg/postprocessor/extractor/link_header.go

   func parseAttr(attrs string) (key, value string) {
       kv := strings.SplitN(attrs, "=", 2)
       if len(kv) != 2 { return "", "" }
       key = strings.TrimSpace(kv[0])
       value = strings.TrimSpace(strings.Trim(kv[1], DQUOTE))
       return key, value
   } *)
Definition parse_attr (attrs : bytes) : res (bytes * bytes) :=
  let kv := split_n2 attrs (bs "=") in
  if negb (len kv =? 2) then Ok ([], [])
  else
    k <- index kv 0 ;;
    v <- index kv 1 ;;
    Ok (trim_space k, trim_space (trim_set [ch """"] v)).

(*     for _, attrs := range parts[1:] {
           key, _ := parseAttr(attrs)
           if key == "" { continue }
           if key == "rel" { break }
       }
   returns the number of loop iterations *)
Fixpoint attrs_loop (l : list bytes) (n : Z) : res Z :=
  match l with
  | [] => Ok n
  | a :: r =>
      kv <- parse_attr a ;;
      let key := fst kv in
      if is_empty key then attrs_loop r (n + 1)
      else if str_eqb key (bs "rel") then Ok (n + 1)
      else attrs_loop r (n + 1)
  end.

(*     for _, link := range strings.Split(link, ", ") {
           parts := strings.Split(link, ";")
           if len(parts) < 1 { continue }
           extractedURL := strings.TrimSpace(strings.Trim(parts[0], "<>"))
           if extractedURL == "" { continue }
           for _, attrs := range parts[1:] { ... }
           URLs = append(URLs, &models.URL{Raw: extractedURL})
       }
   result: the extracted URLs in order, and the total number of loop iterations (outer + inner) *)
Fixpoint links_loop (links : list bytes) (acc : list bytes) (n : Z) : res (list bytes * Z) :=
  match links with
  | [] => Ok (acc, n)
  | l :: r =>
      let parts := split l (bs ";") in
      if len parts <? 1 then links_loop r acc (n + 1)
      else
        p0 <- index parts 0 ;;
        let u := trim_space (trim_set (bs "<>") p0) in
        if is_empty u then links_loop r acc (n + 1)
        else
          rest <- slice_from parts 1 ;;
          k <- attrs_loop rest 0 ;;
          links_loop r (acc ++ [u]) (n + 1 + k)
  end.

(* func ExtractURLsFromHeader(URL *models.URL) (URLs []*models.URL): [link] is the value of
   URL.GetResponse().Header.Get("link") *)
Definition link_header_steps (link : bytes) : res (list bytes * Z) :=
  if is_empty link then Ok ([], 0)
  else links_loop (split link (bs ", ")) [] 0.
Definition link_header (link : bytes) : res (list bytes) :=
  r <- link_header_steps link ;; Ok (fst r).

(* ---------------------------------------------------------------------------------------
   internal/pkg/postprocessor/extractor/script.go

   func extractFromScriptContent(content string) (assets []string, err error) {
       jsonContent := strings.SplitAfterN(content, "=", 2)
       if len(jsonContent) > 1 {
           var ( openSeagullCount int; closedSeagullCount int; payloadEndPosition int )
           for pos, char := range jsonContent[1] {
               if char == '{' { openSeagullCount++ } else if char == '}' { closedSeagullCount++ } else { continue }
               if openSeagullCount > 0 {
                   if openSeagullCount == closedSeagullCount { payloadEndPosition = pos; break }
               }
           }
           if len(jsonContent[1]) > payloadEndPosition {
               URLsFromJSON, _, err := GetURLsFromJSON(json.NewDecoder(strings.NewReader(jsonContent[1][:payloadEndPosition+1])))
               if err != nil { return nil, err } else { assets = append(assets, URLsFromJSON...) }
           }
       }
       return assets, nil
   }

   The range loop walks runes: [pos] advances by [rune_width]; a rune equals '{' or '}' only when it
   is that single ASCII byte.  One unit of fuel per iteration.
   Result of the loop: payloadEndPosition and the number of iterations. *)
Fixpoint brace_scan (fuel : nat) (s : bytes) (pos opened closed iters : Z) : res (Z * Z) :=
  match fuel with
  | O => Timeout
  | S f =>
      match s with
      | [] => Ok (0, iters)                     (* loop ran to the end: payloadEndPosition stays 0 *)
      | c :: _ =>
          let w := rune_width s in
          let next := skipn w s in
          if Ascii.eqb c (ch "{") then
            (let o := opened + 1 in
             if (0 <? o) && (o =? closed) then Ok (pos, iters + 1)
             else brace_scan f next (pos + Z.of_nat w) o closed (iters + 1))
          else if Ascii.eqb c (ch "}") then
            (let cl := closed + 1 in
             if (0 <? opened) && (opened =? cl) then Ok (pos, iters + 1)
             else brace_scan f next (pos + Z.of_nat w) opened cl (iters + 1))
          else brace_scan f next (pos + Z.of_nat w) opened closed (iters + 1)
      end
  end.

(* the same scan byte by byte (used to show that invalid UTF-8 cannot desynchronise the scan) *)
Fixpoint brace_scan_bytes (s : bytes) (pos opened closed : Z) : Z :=
  match s with
  | [] => 0
  | c :: r =>
      if Ascii.eqb c (ch "{") then
        (let o := opened + 1 in
         if (0 <? o) && (o =? closed) then pos else brace_scan_bytes r (pos + 1) o closed)
      else if Ascii.eqb c (ch "}") then
        (let cl := closed + 1 in
         if (0 <? opened) && (opened =? cl) then pos else brace_scan_bytes r (pos + 1) opened cl)
      else brace_scan_bytes r (pos + 1) opened closed
  end.

Section Script.
  (* GetURLsFromJSON(json.NewDecoder(strings.NewReader(p))): encoding/json + findURLs; [None] = error *)
  Variable json_urls : bytes -> option (list bytes).

  (* [off] is the constant added to payloadEndPosition in the slice (1 in the code) *)
  Definition script_payload_g (off : Z) (fuel : nat) (content : bytes) : res (option bytes * Z) :=
    let jc := split_after_n2 content (bs "=") in
    if len jc >? 1 then
      rest <- index jc 1 ;;
      r <- brace_scan fuel rest 0 0 0 0 ;;
      let '(endpos, iters) := r in
      if len rest >? endpos
      then (p <- slice_to rest (endpos + off) ;; Ok (Some p, iters))
      else Ok (None, iters)
    else Ok (None, 0).

  (* the payload handed to the JSON decoder ([None]: the decoder is not called) *)
  Definition script_payload (content : bytes) : res (option bytes * Z) :=
    script_payload_g 1 (S (List.length content)) content.

  (* result: [None] = (nil, err); [Some l] = (assets, nil) *)
  Definition extract_from_script (content : bytes) : res (option (list bytes)) :=
    r <- script_payload content ;;
    match fst r with
    | None => Ok (Some [])
    | Some p => Ok (json_urls p)
    end.
End Script.

(* ---------------------------------------------------------------------------------------
   internal/pkg/postprocessor/extractor/html.go (since 5348b7c / c3b0777 one helper replaces the four
   copies of the Split-based srcset splitting):

   func isASCIIWhitespace(c rune) bool { return c == ' ' || c == '\t' || c == '\n' || c == '\f' || c == '\r' }

   func srcsetURLs(value string) (urls []string) {
       i := 0
       for {
           for i < len(value) && (isASCIIWhitespace(rune(value[i])) || value[i] == ',') { i++ }
           if i >= len(value) { return urls }
           start := i
           for i < len(value) && !isASCIIWhitespace(rune(value[i])) { i++ }
           candidate := value[start:i]
           if strings.HasSuffix(candidate, ",") {
               candidate = strings.TrimRight(candidate, ",")
           } else {
               for i < len(value) && value[i] != ',' { i++ }
           }
           urls = append(urls, candidate)
       }
   }
   Index loops: every value[i] is an explicit [index], every loop iteration costs one unit of fuel. *)
Definition is_ascii_ws (c : ascii) : bool :=
  Ascii.eqb c " "%char || Ascii.eqb c (ascii_of_N 9) || Ascii.eqb c (ascii_of_N 10)
  || Ascii.eqb c (ascii_of_N 12) || Ascii.eqb c (ascii_of_N 13).

(* for i < len(v) && P(v[i]) { i++ } - the value of i afterwards *)
Fixpoint scan_while (fuel : nat) (P : ascii -> bool) (v : bytes) (i : Z) : res Z :=
  match fuel with
  | O => Timeout
  | S f =>
      if i <? len v
      then (c <- index v i ;; if P c then scan_while f P v (i + 1) else Ok i)
      else Ok i
  end.

(* strings.HasSuffix *)
Definition has_suffix (s p : bytes) : bool := has_prefix (rev s) (rev p).

Definition ws_or_comma (c : ascii) : bool := is_ascii_ws c || Ascii.eqb c (ch ",").
Definition not_ws (c : ascii) : bool := negb (is_ascii_ws c).
Definition not_comma (c : ascii) : bool := negb (Ascii.eqb c (ch ",")).

(* the outer `for { ... }`: result = the URLs and the number of outer iterations that appended one *)
Fixpoint srcset_loop (fuel : nat) (v : bytes) (i : Z) (acc : list bytes) (iters : Z) : res (list bytes * Z) :=
  match fuel with
  | O => Timeout
  | S f =>
      let inner := S (List.length v) in
      i1 <- scan_while inner ws_or_comma v i ;;
      if i1 >=? len v then Ok (acc, iters)
      else
        i2 <- scan_while inner not_ws v i1 ;;
        cand <- slice v i1 i2 ;;
        if has_suffix cand [ch ","]
        then srcset_loop f v i2 (acc ++ [trim_right_set [ch ","] cand]) (iters + 1)
        else (i3 <- scan_while inner not_comma v i2 ;;
              srcset_loop f v i3 (acc ++ [cand]) (iters + 1))
  end.

Definition srcset_urls_steps (v : bytes) : res (list bytes * Z) :=
  srcset_loop (S (List.length v)) v 0 [] 0.
Definition srcset_urls (v : bytes) : res (list bytes) :=
  r <- srcset_urls_steps v ;; Ok (fst r).

(* ---------------------------------------------------------------------------------------
   internal/pkg/postprocessor/sitespecific/reddit/api.go

   func ExtractAPIPostPermalinks(item *models.Item) (outlinks []*models.URL, err error) {
       body, err := io.ReadAll(item.GetURL().GetBody()) ; if err != nil { return outlinks, err }
       var data Post
       err = json.Unmarshal(body, &data)          ; if err != nil { return outlinks, err }
       if len(data.Data.Children) == 0 { return outlinks, fmt.Errorf("no children found in post") }
       permalinks = append(permalinks,
           fmt.Sprintf("https://www.reddit.com%s", data.Data.Children[0].Data.Permalink),
           fmt.Sprintf("https://old.reddit.com%s", data.Data.Children[0].Data.Permalink))
       ...
   }
   encoding/json is an oracle: [None] = Unmarshal failed, [Some (dist, perms)] = data.Data.Dist and the
   Permalink of every element of data.Data.Children.  [by_dist] = the guard looks at the listing's
   own counter instead of the slice (what the code must NOT do: the server controls both).
   Result: [None] = an error is returned. *)
Definition reddit_permalinks_g (by_dist : bool) (decoded : option (Z * list bytes)) : res (option (list bytes)) :=
  match decoded with
  | None => Ok None
  | Some (dist, children) =>
      if (if by_dist then dist =? 0 else len children =? 0) then Ok None
      else
        p <- index children 0 ;;
        Ok (Some [bs "https://www.reddit.com" ++ p; bs "https://old.reddit.com" ++ p])
  end.
Definition reddit_permalinks (decoded : option (Z * list bytes)) : res (option (list bytes)) :=
  reddit_permalinks_g false decoded.

(* ---------------------------------------------------------------------------------------
   internal/pkg/postprocessor/sitespecific/ina/ina.go  (no caller in the pipeline: dead code)

   func extractJWPlayerVersion(body string) string {
       lines := strings.Split(body, "\n")
       for _, line := range lines {
           if strings.Contains(line, "JW Player version") {
               return strings.Split(line, "JW Player version ")[1]
           }
       }
       return ""
   } *)
Fixpoint jw_lines (lines : list bytes) : res bytes :=
  match lines with
  | [] => Ok []
  | l :: r =>
      if contains l (bs "JW Player version")
      then index (split l (bs "JW Player version ")) 1
      else jw_lines r
  end.
Definition jwplayer_version (body : bytes) : res bytes := jw_lines (split body [ascii_of_N 10]).
