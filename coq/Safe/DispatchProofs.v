(* C10 - proofs about Safe/Dispatch.v: the post-processing dispatch dereferences nothing that is
   nil, whatever the server sent (any status code, any headers, any MIME, body kept or not), for
   every configuration and whatever the extractors return - given what the archiver establishes
   for an item it marks as archived. *)
From Coq Require Import Lia ZifyBool.
From ZenoV Require Import Safe.GoOps Safe.Dispatch.
Open Scope Z_scope.

Definition full (v : view) : Prop := v_resp v <> None /\ v_mime v = true /\ v_parsed v = true.

Lemma resp_ok v : full v -> exists code, resp v = Ok code /\ v_resp v = Some code.
Proof. intros [Hr _]. unfold resp, deref. destruct (v_resp v) as [c|]; [eauto|congruence]. Qed.

Lemma mime_ok v : full v -> mime v = Ok tt.
Proof. intros [_ [Hm _]]. unfold mime, need. rewrite Hm. reflexivity. Qed.

Lemma url_ok v : full v -> url_string v = Ok tt.
Proof. intros [_ [_ Hp]]. unfold url_string, need. rewrite Hp. reflexivity. Qed.

Lemma body_ok v : v_body v = true -> body v = Ok tt.
Proof. intros Hb. unfold body, need. rewrite Hb. reflexivity. Qed.

Lemma on_url_ok v b : full v -> on_url v b = Ok b.
Proof. intros Hf. unfold on_url. rewrite (url_ok v Hf). reflexivity. Qed.

Lemma ct_or_mime_ok v ct mm : full v -> exists b, ct_or_mime v ct mm = Ok b.
Proof.
  intros Hf. unfold ct_or_mime. destruct (resp_ok v Hf) as [code [Hr _]]. rewrite Hr. cbn [bind].
  destruct ct; [eauto|]. rewrite (mime_ok v Hf). cbn [bind]. eauto.
Qed.

Lemma is_html_ok v p : full v -> exists b, is_html v p = Ok b.
Proof. apply ct_or_mime_ok. Qed.
Lemma is_json_ok v p : full v -> exists b, is_json v p = Ok b.
Proof. apply ct_or_mime_ok. Qed.
Lemma is_m3u8_ok v p : full v -> exists b, is_m3u8 v p = Ok b.
Proof. intros Hf. unfold is_m3u8. destruct (resp_ok v Hf) as [code [Hr _]]. rewrite Hr. cbn [bind]. eauto. Qed.
Lemma is_s3_ok v p : full v -> exists b, is_s3 v p = Ok b.
Proof. intros Hf. unfold is_s3. destruct (resp_ok v Hf) as [code [Hr _]]. rewrite Hr. cbn [bind]. eauto. Qed.
Lemma is_pdf_ok v p : full v -> exists b, is_pdf v p = Ok b.
Proof. intros Hf. unfold is_pdf. rewrite (mime_ok v Hf). cbn [bind]. eauto. Qed.
Lemma is_sitemap_xml_ok v p : v_body v = true -> exists b, is_sitemap_xml v p = Ok b.
Proof. intros Hb. unfold is_sitemap_xml. rewrite (body_ok v Hb). cbn [bind]. eauto. Qed.
Lemma is_xml_ok v p : full v -> v_body v = true -> exists b, is_xml v p = Ok b.
Proof.
  intros Hf Hb. unfold is_xml. destruct (resp_ok v Hf) as [code [Hr _]]. rewrite Hr. cbn [bind].
  destruct (ct_xhtml p); [eauto|].
  destruct (ct_or_mime_ok v (ct_xml p) (mime_xml p) Hf) as [a Ha].
  rewrite Ha. cbn [bind]. destruct a; [|eauto].
  destruct (is_sitemap_xml_ok v p Hb) as [s Hs]. rewrite Hs. cbn [bind].
  destruct s; [eauto|]. rewrite (mime_ok v Hf). cbn [bind]. eauto.
Qed.
Lemma run_ext_ok {A} v (r : A) : v_body v = true -> run_ext v r = Ok r.
Proof. intros Hb. unfold run_ext. rewrite (body_ok v Hb). reflexivity. Qed.

(* a switch whose conditions and arms all evaluate, evaluates *)
Lemma first_case_ok {A} (cases : list (res bool * res A)) (default : res A) :
  Forall (fun ck => (exists b, fst ck = Ok b) /\ (exists a, snd ck = Ok a)) cases ->
  (exists a, default = Ok a) ->
  exists a, first_case cases default = Ok a.
Proof.
  intros Hc Hd. induction Hc as [|[c k] r [[b Hb] [a Ha]] Hr IH]; cbn [first_case]; [exact Hd|].
  cbn [fst snd] in *. rewrite Hb. cbn [bind]. destruct b; [eauto|exact IH].
Qed.

Ltac solve_ok Hf Hb :=
  first [ rewrite on_url_ok by exact Hf; solve [eauto]
        | unfold ran; rewrite run_ext_ok by exact Hb; cbn [bind]; solve [eauto]
        | apply is_m3u8_ok; exact Hf
        | apply is_json_ok; exact Hf
        | apply is_xml_ok; assumption
        | apply is_html_ok; exact Hf
        | apply is_s3_ok; exact Hf
        | apply is_sitemap_xml_ok; exact Hb
        | apply is_pdf_ok; exact Hf
        | solve [eauto] ].

Lemma extract_assets_ok v p x :
  full v -> v_body v = true -> exists r, extract_assets v p x = Ok r.
Proof.
  intros Hf Hb. unfold extract_assets.
  destruct (resp_ok v Hf) as [code [Hr _]]. rewrite Hr. cbn [bind].
  match goal with |- context [first_case ?l ?d] =>
    destruct (first_case_ok l d) as [r Hfc] end.
  - repeat (apply Forall_cons; [split; cbn [fst snd]; solve_ok Hf Hb|]). apply Forall_nil.
  - eauto.
  - rewrite Hfc. cbn [bind]. destruct r as [[a o]|]; [|eauto].
    destruct (0 <? a); [rewrite (url_ok v Hf)|]; cbn [bind]; eauto.
Qed.

Lemma extract_outlinks_ok v p x : full v -> exists r, extract_outlinks v p x = Ok r.
Proof.
  intros Hf. unfold extract_outlinks.
  destruct (resp_ok v Hf) as [code [Hr _]]. rewrite Hr. cbn [bind].
  destruct (v_body v) eqn:Hb; cbn [negb].
  2:{ rewrite (url_ok v Hf). cbn [bind]. eauto. }
  match goal with |- context [first_case ?l ?d] =>
    destruct (first_case_ok l d) as [r Hfc] end.
  - repeat (apply Forall_cons; [split; cbn [fst snd]; solve_ok Hf Hb|]). apply Forall_nil.
  - eauto.
  - rewrite Hfc. cbn [bind]. destruct r as [|[n|]]; eauto.
    destruct (ct_text p); [rewrite run_ext_ok by exact Hb|]; cbn [bind]; eauto.
Qed.

(* ---------------------------------------------------------------------------------------
   The theorem: under the archiver's invariant nothing nil is dereferenced and the dispatch
   returns - for every status code, every predicate valuation (headers, MIME, URL, body
   content), body present or absent, every configuration, every extractor outcome. *)
Theorem dispatch_nil_safe_lemma :
  forall (c : conf) (v : view) (p : preds) (x : exts),
    archiver_inv v -> exists o, postprocess_item c v p x = Ok o.
Proof.
  intros c v p x Hinv. unfold postprocess_item.
  destruct (status_eqb (v_status v) Archived) eqn:Est; cbn [negb]; [|eauto].
  assert (Hst : v_status v = Archived) by (destruct (v_status v); try discriminate; reflexivity).
  assert (Hf : full v) by (apply Hinv; exact Hst).
  destruct (resp_ok v Hf) as [code [Hr _]]. rewrite Hr. cbn [bind].
  destruct (is_redirect code).
  { destruct (v_redirects v >=? max_redirect c); [eauto|]. cbn [bind add_child_err orb negb]. eauto. }
  assert (Hskip : exists b, (if negb (domains_crawl c) && (2 <? v_depth v) then Ok true
                             else if negb (domains_crawl c) && (v_depth v =? 1)
                                  then (_ <- mime v ;; Ok (mime_html p)) else Ok false) = Ok b).
  { destruct (negb (domains_crawl c) && (2 <? v_depth v)); [eauto|].
    destruct (negb (domains_crawl c) && (v_depth v =? 1)); [|eauto].
    rewrite (mime_ok v Hf). cbn [bind]. eauto. }
  destruct Hskip as [sk Hsk]. rewrite Hsk. cbn [bind].
  destruct sk; [eauto|].
  destruct (disable_assets c && negb (domains_crawl c) && (v_hops v >=? max_hops c)); [eauto|].
  destruct (code =? 200); [|eauto].
  assert (Ha : exists ra, (if should_extract_assets c v then extract_assets v p x else Ok (Some (0, 0))) = Ok ra).
  { unfold should_extract_assets. destruct (negb (disable_assets c)); cbn [andb]; [|eauto].
    destruct (v_body v) eqn:Hb; [|eauto]. apply extract_assets_ok; assumption. }
  destruct Ha as [ra Hra]. rewrite Hra. cbn [bind].
  destruct ra as [[a o]|].
  - destruct (0 <? a) eqn:Ea.
    + rewrite (on_url_ok v _ Hf). cbn [bind add_child_err orb negb].
      rewrite Bool.andb_false_r.
      assert (Ho : exists ro, (if should_extract_outlinks c v then extract_outlinks v p x else Ok None) = Ok ro).
      { destruct (should_extract_outlinks c v); [apply extract_outlinks_ok; exact Hf|eauto]. }
      destruct Ho as [ro Hro]. rewrite Hro. cbn [bind].
      match goal with |- context [if 0 <? ?n then url_string v else Ok tt] =>
        destruct (0 <? n); [rewrite (url_ok v Hf)|]; cbn [bind]; eauto end.
    + cbn [bind Z.ltb Z.compare andb].
      assert (Ho : exists ro, (if should_extract_outlinks c v then extract_outlinks v p x else Ok None) = Ok ro).
      { destruct (should_extract_outlinks c v); [apply extract_outlinks_ok; exact Hf|eauto]. }
      destruct Ho as [ro Hro]. rewrite Hro. cbn [bind].
      match goal with |- context [if 0 <? ?n then url_string v else Ok tt] =>
        destruct (0 <? n); [rewrite (url_ok v Hf)|]; cbn [bind]; eauto end.
  - cbn [bind Z.ltb Z.compare andb].
    assert (Ho : exists ro, (if should_extract_outlinks c v then extract_outlinks v p x else Ok None) = Ok ro).
    { destruct (should_extract_outlinks c v); [apply extract_outlinks_ok; exact Hf|eauto]. }
    destruct Ho as [ro Hro]. rewrite Hro. cbn [bind].
    match goal with |- context [if 0 <? ?n then url_string v else Ok tt] =>
      destruct (0 <? n); [rewrite (url_ok v Hf)|]; cbn [bind]; eauto end.
Qed.

(* The archiver's side of the invariant: whenever ProcessBody returns nil the MIME type has been
   set - for every status code (ProcessBody does not look at it) and every failure pattern.  The
   response and the parsed URL are set by archive() / preprocess before ProcessBody is called.
   (Tied to the real ProcessBody by the monitor archiver_establishes_invariant of the dispatch and
   fuzz legs: a ProcessBody that returns early without sniffing breaks it.) *)
Theorem process_body_sets_mime_lemma :
  forall e mime_set body_set, process_body e = Some (mime_set, body_set) -> mime_set = true.
Proof.
  intros e m b. unfold process_body.
  destruct (e_deadline_err e); [discriminate|].
  destruct (e_discard_first e && e_discard_err e); [discriminate|].
  destruct (e_copyn_err e); [discriminate|].
  destruct (e_keep e).
  - destruct (e_spool_err e); [discriminate|]. destruct (e_rest_err e); [discriminate|]. intros [= <- _]. reflexivity.
  - destruct (e_drop_err e); [discriminate|]. intros [= <- _]. reflexivity.
Qed.

Example process_body_nonvacuous :
  process_body (PbEnv false false false false true false false false) = Some (true, true)
  /\ process_body (PbEnv false true false false false false false false) = Some (true, false)
  /\ process_body (PbEnv false false false true true false false false) = None.
Proof. repeat split; reflexivity. Qed.

(* an item that is not archived is returned untouched, whatever is nil *)
Theorem dispatch_not_archived_lemma :
  forall c v p x, v_status v <> Archived -> postprocess_item c v p x = Ok (Out (v_status v) 0 0).
Proof.
  intros c v p x Hs. unfold postprocess_item.
  destruct (v_status v); try reflexivity. congruence.
Qed.

(* The hypothesis is needed: an archived item without a response, or - at depth 1 - without a
   MIME, is a nil dereference.  (The archiver never produces such an item; the `dispatch` driver
   replays these on the real postprocessItem and observes the panic.) *)
Lemma dispatch_unguarded_refuted :
  exists c v p x, v_status v = Archived /\ v_resp v = None /\ postprocess_item c v p x = Panic.
Proof.
  exists (Conf 20 0 false false), (View Archived None true true true 0 0 0),
    (Preds false false false false false false false false false false false false false false false false false false false),
    (Exts None 0 0 None 0 0).
  repeat split; reflexivity.
Qed.

Lemma dispatch_unguarded_mime_refuted :
  exists c v p x, v_status v = Archived /\ v_resp v = Some 200 /\ v_mime v = false
                  /\ postprocess_item c v p x = Panic.
Proof.
  exists (Conf 20 0 false false), (View Archived (Some 200) true false true 1 0 0),
    (Preds false false false false false false false false false false false false false false false false false false false),
    (Exts None 0 0 None 0 0).
  repeat split; reflexivity.
Qed.

(* non-vacuity: an archived 200 HTML page with a body satisfies the invariant and both extractors run *)
Example dispatch_nonvacuous :
  let v := View Archived (Some 200) true true true 0 0 0 in
  let p := Preds true true false false false false false false false false true false false false false false false false false in
  archiver_inv v
  /\ postprocess_item (Conf 20 1 false false) v p (Exts (Some (3, 1)) 1 0 (Some 4) 1 2)
     = Ok (Out GotChildren 2 8)
  /\ postprocess_item (Conf 20 1 false false) (View Archived (Some 301) false true true 0 0 0) p (Exts None 0 0 None 0 0)
     = Ok (Out GotRedirected 1 0)
  /\ postprocess_item (Conf 20 1 false false) (View Archived (Some 200) false true true 0 0 0) p (Exts (Some (3, 1)) 1 0 (Some 4) 1 2)
     = Ok (Out Completed 0 0).
Proof.
  cbv zeta. split; [intros _; repeat split; discriminate || reflexivity|].
  vm_compute. repeat split; reflexivity.
Qed.
