(* C10 - nil-safety model of the post-processing dispatch:
     internal/pkg/postprocessor/item.go      postprocessItem
     internal/pkg/postprocessor/assets.go    extractAssets, shouldExtractAssets
     internal/pkg/postprocessor/outlinks.go  extractOutlinks, shouldExtractOutlinks
     internal/pkg/postprocessor/extractor    Is* predicates (html.go json.go xml.go m3u8.go pdf.go s3.go)
   Every expression that dereferences something that may be nil is an explicit access:
     GetResponse().StatusCode / .Header      needs the response          [resp]
     GetMIMEType().String() / .Is(..)        needs the MIME              [mime]
     RewindBody() / reading GetBody()        needs the body              [body]
     URL.String()                            needs the parsed URL        [url_string]
   in the order Go evaluates them (|| and && short-circuit, switch cases top to bottom).
   What the headers, the MIME, the URL and the body SAY (the values of the predicates) and what
   the selected extractor returns are inputs ([preds], [exts]): third-party decoders are not
   modelled here.  Executable definitions only; proofs are in DispatchProofs.v. *)
From ZenoV Require Export Safe.GoOps.
Open Scope Z_scope.

Inductive status :=
| Fresh | PreProcessed | Archived | Failed | Completed | Seen | GotRedirected | GotChildren.

Definition status_eqb (a b : status) : bool :=
  match a, b with
  | Fresh, Fresh | PreProcessed, PreProcessed | Archived, Archived | Failed, Failed
  | Completed, Completed | Seen, Seen | GotRedirected, GotRedirected | GotChildren, GotChildren => true
  | _, _ => false
  end.

(* config.Get() and domainscrawl.Enabled() *)
Record conf := Conf {
  max_redirect : Z;
  max_hops : Z;
  disable_assets : bool;
  domains_crawl : bool }.

(* the item as it reaches postprocessItem *)
Record view := View {
  v_status : status;
  v_resp : option Z;      (* GetResponse(): nil, or a response with this StatusCode *)
  v_body : bool;          (* GetBody() != nil *)
  v_mime : bool;          (* GetMIMEType() != nil *)
  v_parsed : bool;        (* GetParsed() != nil *)
  v_depth : Z;            (* GetDepthWithoutRedirections() *)
  v_redirects : Z;
  v_hops : Z }.

(* what the response headers, the detected MIME, the URL text and the body say *)
Record preds := Preds {
  ct_html : bool; mime_html : bool;       (* "html" in Content-Type / in the MIME string *)
  ct_json : bool; mime_json : bool;
  ct_xml : bool; mime_xml : bool; mime_svg : bool;
  ct_xhtml : bool;                        (* "application/xhtml+xml" in Content-Type *)
  ct_m3u8 : bool;
  mime_pdf : bool;
  ct_text : bool;                         (* "text/" in Content-Type *)
  sitemap : bool;                         (* the RawToken scan of IsSitemapXML finds the marker *)
  srv_s3 : bool;                          (* Server header is an S3 server and Content-Type has "xml" *)
  u_ina_api : bool; u_ts_need : bool; u_ts_account : bool; u_ts_lookup : bool;
  u_reddit_api : bool; u_reddit : bool }.

(* what the selected extractors return: [None] = error *)
Record exts := Exts {
  x_assets : option (Z * Z);   (* extractAssets' extractor: (assets, outlinks found among assets) *)
  x_self : Z;                  (* assets removed because they equal the item's own URL *)
  x_reddit_skip : Z;           (* assets dropped because url.QueryUnescape failed (reddit only) *)
  x_outlinks : option Z;       (* extractOutlinks' extractor *)
  x_link_hdr : Z;              (* URLs from the Link header *)
  x_page_links : Z }.          (* extractLinksFromPage *)

Definition resp (v : view) : res Z := deref (v_resp v).
Definition need (b : bool) : res unit := if b then Ok tt else Panic.
Definition mime (v : view) : res unit := need (v_mime v).
Definition body (v : view) : res unit := need (v_body v).
Definition url_string (v : view) : res unit := need (v_parsed v).

(* isContentType(resp.Header.Get("Content-Type"), k) || strings.Contains(GetMIMEType().String(), k) *)
Definition ct_or_mime (v : view) (ct mm : bool) : res bool :=
  _ <- resp v ;; if ct then Ok true else (_ <- mime v ;; Ok mm).

Definition is_html (v : view) (p : preds) : res bool := ct_or_mime v (ct_html p) (mime_html p).
Definition is_json (v : view) (p : preds) : res bool := ct_or_mime v (ct_json p) (mime_json p).
Definition is_m3u8 (v : view) (p : preds) : res bool := _ <- resp v ;; Ok (ct_m3u8 p).
(* defer URL.RewindBody(); xml.NewDecoder(URL.GetBody()) ... RawToken() *)
Definition is_sitemap_xml (v : view) (p : preds) : res bool := _ <- body v ;; Ok (sitemap p).
(* if isContentType(ct, "application/xhtml+xml") { return false }
   return (ct || mime) && !IsSitemapXML(URL) && !URL.GetMIMEType().Is("image/svg+xml") *)
Definition is_xml (v : view) (p : preds) : res bool :=
  _ <- resp v ;;
  if ct_xhtml p then Ok false
  else
    a <- ct_or_mime v (ct_xml p) (mime_xml p) ;;
    if a then
      (s <- is_sitemap_xml v p ;;
       if s then Ok false else (_ <- mime v ;; Ok (negb (mime_svg p))))
    else Ok false.
Definition is_pdf (v : view) (p : preds) : res bool := _ <- mime v ;; Ok (mime_pdf p).
Definition is_s3 (v : view) (p : preds) : res bool := _ <- resp v ;; Ok (srv_s3 p).
(* predicates on URL.String() *)
Definition on_url (v : view) (b : bool) : res bool := _ <- url_string v ;; Ok b.

(* every extractor starts with `defer URL.RewindBody()` or reads the body (GetDocument) *)
Definition run_ext {A : Type} (v : view) (r : A) : res A := _ <- body v ;; Ok r.

(* switch { case c1: ..; case c2: ..; default: .. } *)
Fixpoint first_case {A : Type} (cases : list (res bool * res A)) (default : res A) : res A :=
  match cases with
  | [] => default
  | (c, k) :: r => b <- c ;; if b then k else first_case r default
  end.

(* extractAssets: [None] = error; [Some (assets, outlinks)] after nil / self-URL removal *)
Definition extract_assets (v : view) (p : preds) (x : exts) : res (option (Z * Z)) :=
  _ <- resp v ;;                                           (* contentType = resp.Header.Get(..) *)
  r <- first_case
         [ (on_url v (u_ina_api p), run_ext v (x_assets x));
           (on_url v (u_ts_need p), run_ext v (x_assets x));
           (is_m3u8 v p, run_ext v (x_assets x));
           (is_json v p, run_ext v (x_assets x));
           (is_xml v p, run_ext v (x_assets x));
           (is_html v p, run_ext v (x_assets x)) ]
         (Ok (Some (0, 0))) ;;
  match r with
  | None => Ok None
  | Some (a, o) =>
      (* for each asset: asset.Raw == item.GetURL().String() *)
      _ <- (if 0 <? a then url_string v else Ok tt) ;;
      Ok (Some (a - x_self x, o))
  end.

Definition should_extract_assets (c : conf) (v : view) : bool :=
  negb (disable_assets c) && v_body v.

Definition should_extract_outlinks (c : conf) (v : view) : bool :=
  (domains_crawl c && v_body v) || ((v_hops v <? max_hops c) && v_body v).

(* which arm of extractOutlinks' switch ran *)
Inductive sel (A : Type) : Type := DefaultCase | Ran (r : A).
Arguments DefaultCase {A}.
Arguments Ran {A} r.
Definition ran {A : Type} (r : res A) : res (sel A) := a <- r ;; Ok (Ran a).

(* extractOutlinks: [None] = error; [Some n] = number of outlinks *)
Definition extract_outlinks (v : view) (p : preds) (x : exts) : res (option Z) :=
  _ <- resp v ;;
  if negb (v_body v) then (_ <- url_string v ;; Ok (Some 0))     (* logger.Error(.., URL.String(), ..) *)
  else
    r <- first_case
           [ (on_url v (u_ts_account p), Ok (Ran (x_outlinks x)));   (* built from the URL text only *)
             (on_url v (u_ts_lookup p), ran (run_ext v (x_outlinks x)));
             (is_s3 v p, ran (run_ext v (x_outlinks x)));
             (is_sitemap_xml v p, ran (run_ext v (x_outlinks x)));
             (is_html v p, ran (run_ext v (x_outlinks x)));
             (is_pdf v p, ran (run_ext v (x_outlinks x)));
             (on_url v (u_reddit_api p), ran (run_ext v (x_outlinks x))) ]
           (Ok DefaultCase) ;;
    match r with
    | DefaultCase => Ok (Some 0)                                   (* default: return outlinks, nil *)
    | Ran None => Ok None                                          (* return outlinks, err *)
    | Ran (Some n) =>
        _ <- resp v ;;                                             (* ExtractURLsFromHeader *)
        m <- (if ct_text p then run_ext v (x_page_links x) else Ok 0) ;;
        Ok (Some (n + x_link_hdr x + m))
    end.

Definition is_redirect (code : Z) : bool :=
  (code =? 300) || (code =? 301) || (code =? 302) || (code =? 303) || (code =? 307) || (code =? 308).

(* models.Item.AddChild(child, from): the error cases *)
Definition add_child_err (child_nil from_ok child_has_redirected_parent : bool) : bool :=
  child_nil || negb from_ok || child_has_redirected_parent.

Record out := Out {
  o_status : status;
  o_children : Z;
  o_outlinks : Z }.

(* postprocessItem.  The deferred closeBody only touches the body when it is not nil. *)
Definition postprocess_item (c : conf) (v : view) (p : preds) (x : exts) : res out :=
  if negb (status_eqb (v_status v) Archived) then Ok (Out (v_status v) 0 0)
  else
    code <- resp v ;;                                   (* item.GetURL().GetResponse().StatusCode *)
    if is_redirect code then
      (if v_redirects v >=? max_redirect c then Ok (Out Completed 0 0)
       else
         _ <- resp v ;;                                 (* .Header.Get("Location") *)
         (* the child was just made by NewItem: not nil, no parent; from = ItemGotRedirected *)
         if add_child_err false true false then Panic   (* panic(err) *)
         else Ok (Out GotRedirected 1 0))
    else
      skip <- (if negb (domains_crawl c) && (2 <? v_depth v) then Ok true
               else if negb (domains_crawl c) && (v_depth v =? 1)
                    then (_ <- mime v ;; Ok (mime_html p))   (* GetMIMEType().String() *)
                    else Ok false) ;;
      if skip then Ok (Out Completed 0 0)
      else if disable_assets c && negb (domains_crawl c) && (v_hops v >=? max_hops c) then Ok (Out Completed 0 0)
      else
        (* if item.GetURL().GetResponse() != nil && ...StatusCode == 200 *)
        if code =? 200 then
          ra <- (if should_extract_assets c v then extract_assets v p x else Ok (Some (0, 0))) ;;
          let '(children, from_assets, assets_failed) :=
            match ra with
            | None => (0, 0, true)
            | Some (a, o) => (a, o, false)
            end in
          (* reddit.IsRedditURL(item.GetURL()) is evaluated once per asset *)
          kids <- (if 0 <? children
                   then (r <- on_url v (u_reddit p) ;; Ok (if r then children - x_reddit_skip x else children))
                   else Ok 0) ;;
          (* each child is fresh: AddChild(newChild, ItemGotChildren) cannot fail *)
          if (0 <? kids) && add_child_err false true false then Panic
          else
            ro <- (if should_extract_outlinks c v then extract_outlinks v p x else Ok None) ;;
            let outl :=
              match ro with
              | None => 0
              | Some n => n + (if assets_failed then 0 else from_assets)
              end in
            (* with every new outlink: item.GetURL().String() as its via *)
            _ <- (if 0 <? outl then url_string v else Ok tt) ;;
            Ok (Out (if 0 <? kids then GotChildren else Completed) kids outl)
        else Ok (Out Completed 0 0).

(* ---------------------------------------------------------------------------------------
   internal/pkg/archiver/body.go ProcessBody, control flow only: which of its steps fail is an
   input (the network, the temp file), mimetype.Detect always yields a MIME (its tree has a root).

     SetReadDeadline error                       -> return err
     if disableAssets && !domainsCrawl && maxHops == 0 { copyWithTimeout(Discard, ..) error -> return err }
     copyWithTimeoutN(buffer, .., 2048) error    -> return err
     u.SetMIMEType(mimetype.Detect(buffer.Bytes()))
     if the MIME is text-like / pdf / mpegurl {
         io.Copy(spooled, buffer) error          -> return err
         copyWithTimeout(spooled, ..) error      -> return err
         u.SetBody(spooled); return nil
     } else { copyWithTimeout(Discard, ..) error -> return err }
     return nil
   Result: [None] = an error is returned (the archiver marks the item failed, it is never archived);
   [Some (mime_set, body_set)] = nil is returned with these fields set. *)
Record pb_env := PbEnv {
  e_deadline_err : bool; e_discard_first : bool; e_discard_err : bool; e_copyn_err : bool;
  e_keep : bool;           (* the sniffed MIME asks for post-processing *)
  e_spool_err : bool; e_rest_err : bool; e_drop_err : bool }.

Definition process_body (e : pb_env) : option (bool * bool) :=
  if e_deadline_err e then None
  else if e_discard_first e && e_discard_err e then None
  else if e_copyn_err e then None
  else (* SetMIMEType(Detect(..)) has happened from here on *)
    if e_keep e then
      (if e_spool_err e then None else if e_rest_err e then None else Some (true, true))
    else (if e_drop_err e then None else Some (true, false)).

(* What the archiver guarantees about an item it marks ItemArchived (archiver.go: SetResponse(resp)
   after a successful client.Do, ProcessBody sets the MIME before it returns nil, the request was
   built from the parsed URL): *)
Definition archiver_inv (v : view) : Prop :=
  v_status v = Archived -> v_resp v <> None /\ v_mime v = true /\ v_parsed v = true.
Definition archiver_invb (v : view) : bool :=
  negb (status_eqb (v_status v) Archived)
  || (match v_resp v with Some _ => true | None => false end && v_mime v && v_parsed v).
