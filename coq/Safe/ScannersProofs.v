(* C10 - proofs about Safe/Scanners.v: every slice and every index of Zeno's own byte-level
   scanners is in bounds for EVERY byte string, and every loop finishes within a number of
   iterations linear in the input length. *)
From Coq Require Import Lia ZifyBool ZifyNat.
From ZenoV Require Import Safe.GoOps Safe.GoOpsProofs Safe.Scanners.
Open Scope Z_scope.

(* ---------------------------------------------------------------------------------------
   hasFileExtension *)
Lemma cut_to_ok (s : bytes) i :
  i = -1 \/ 0 <= i < len s ->
  exists r, (if i =? -1 then Ok s else slice_to s i) = Ok r.
Proof.
  intros [->|H]; [exists s; reflexivity|].
  replace (i =? -1) with false by lia.
  destruct (slice_to_ok s i) as [r [Hr _]]; try lia. eauto.
Qed.

Lemma cut_from_ok (s : bytes) p :
  p = -1 \/ 0 <= p < len s ->
  exists r, (if p =? -1 then Ok s else slice_from s (p + 1)) = Ok r.
Proof.
  intros [->|H]; [exists s; reflexivity|].
  replace (p =? -1) with false by lia.
  destruct (slice_from_ok s (p + 1)) as [r [Hr _]]; try lia. eauto.
Qed.

Theorem has_file_extension_never_panics_lemma :
  forall s : bytes, exists b, has_file_extension s = Ok b.
Proof.
  intros s. unfold has_file_extension.
  destruct (cut_to_ok s (index_byte s (ch "#")) (index_byte_range _ _)) as [s1 H1].
  cbv zeta. rewrite H1. cbn [bind].
  destruct (cut_to_ok s1 (index_byte s1 (ch "?")) (index_byte_range _ _)) as [s2 H2].
  rewrite H2. cbn [bind].
  destruct (cut_from_ok s2 (last_index_byte s2 (ch "/")) (last_index_byte_range _ _)) as [s3 H3].
  rewrite H3. cbn [bind]. eauto.
Qed.

Example has_file_extension_nonvacuous :
  has_file_extension (bs "https://h.example/a/b.png?x=1#frag") = Ok true
  /\ has_file_extension (bs "https://h.example/a.b/c") = Ok false
  /\ has_file_extension (bs "#") = Ok false /\ has_file_extension [] = Ok false.
Proof. vm_compute. repeat split; reflexivity. Qed.

(* ---------------------------------------------------------------------------------------
   isLikelyJSON: safe exactly because of the length test *)
Lemma byte_is_ok (s : bytes) i c : 0 <= i < len s -> exists b, byte_is s i c = Ok b.
Proof.
  intros H. unfold byte_is. destruct (index_ok s i) as [a Ha]; try lia.
  rewrite Ha. cbn [bind]. eauto.
Qed.

Lemma is_likely_json_core_g_ok guard (s : bytes) : 1 <= guard -> exists b, is_likely_json_core_g guard s = Ok b.
Proof.
  intros Hg. unfold is_likely_json_core_g.
  destruct (len s <? guard) eqn:E; [eauto|].
  assert (Hl : 1 <= len s) by lia.
  destruct (byte_is_ok s 0 (ch "{")) as [b1 H1]; [lia|].
  destruct (byte_is_ok s (len s - 1) (ch "}")) as [b2 H2]; [lia|].
  destruct (byte_is_ok s 0 (ch "[")) as [b3 H3]; [lia|].
  destruct (byte_is_ok s (len s - 1) (ch "]")) as [b4 H4]; [lia|].
  unfold and_then, or_else. rewrite H1, H2, H3, H4. cbn [bind].
  destruct b1, b2, b3, b4; cbn [bind]; eauto.
Qed.

Lemma is_likely_json_g_ok guard (s : bytes) : 1 <= guard -> exists b, is_likely_json_g guard s = Ok b.
Proof. intros Hg. apply is_likely_json_core_g_ok. exact Hg. Qed.

Theorem is_likely_json_never_panics_lemma :
  forall s : bytes, exists b, is_likely_json s = Ok b.
Proof. intros s. apply is_likely_json_g_ok. lia. Qed.

(* the guard is what makes it safe: without a positive length test the empty string panics *)
Theorem is_likely_json_guard_needed_lemma :
  forall guard, (forall s : bytes, is_likely_json_g guard s <> Panic) <-> 1 <= guard.
Proof.
  intros guard; split.
  - intros H. destruct (Z.le_gt_cases 1 guard) as [Hg|Hg]; [exact Hg|].
    exfalso. apply (H []). unfold is_likely_json_g, is_likely_json_core_g.
    change (trim_space []) with (@nil ascii).
    replace (len (@nil ascii) <? guard) with false by (cbn; lia). reflexivity.
  - intros Hg s. destruct (is_likely_json_g_ok guard s Hg) as [b Hb]. rewrite Hb. discriminate.
Qed.

Example is_likely_json_nonvacuous :
  is_likely_json (bs "[""a""]") = Ok true /\ is_likely_json (bs "{""k"":1}") = Ok true
  /\ is_likely_json (bs "[1,2]") = Ok false /\ is_likely_json (bs "{}") = Ok false
  /\ is_likely_json [] = Ok false.
Proof. vm_compute. repeat split; reflexivity. Qed.

(* ---------------------------------------------------------------------------------------
   GetShortID *)
Lemma slice_to_firstn (s : bytes) hi r : slice_to s hi = Ok r -> r = firstn (Z.to_nat hi) s.
Proof.
  unfold slice_to, slice. destruct (_ && _); [|discriminate]. intros [= <-].
  rewrite Z.sub_0_r. reflexivity.
Qed.

Lemma short_id_prefixes_ok prefixes (id : bytes) :
  exists r, short_id_prefixes prefixes id = Ok r
            /\ match r with Some x => exists n, x = firstn n id | None => True end.
Proof.
  induction prefixes as [|p r IH]; cbn [short_id_prefixes]; [exists None; split; [reflexivity|exact I]|].
  destruct (has_prefix id p); [|exact IH].
  cbv zeta. pose proof (len_nonneg p) as Hp. pose proof (len_nonneg id) as Hi.
  destruct (len p + 5 >? len id) eqn:E.
  - destruct (slice_to_ok id (len id)) as [x [Hx _]]; try lia.
    rewrite Hx. cbn [bind]. eexists; split; [reflexivity|].
    apply slice_to_firstn in Hx. cbv iota beta. eauto.
  - destruct (slice_to_ok id (len p + 5)) as [x [Hx _]]; try lia.
    rewrite Hx. cbn [bind]. eexists; split; [reflexivity|].
    apply slice_to_firstn in Hx. cbv iota beta. eauto.
Qed.

Theorem get_short_id_never_panics_lemma :
  forall id : bytes, exists r n, get_short_id id = Ok r /\ r = firstn n id.
Proof.
  intros id. unfold get_short_id.
  destruct (short_id_prefixes_ok [bs "seed-"; bs "asset-"] id) as [o [Ho Hs]].
  rewrite Ho. cbn [bind]. destruct o as [x|].
  - destruct Hs as [n ->]. eauto.
  - pose proof (len_nonneg id) as Hi. destruct (len id >? 5) eqn:E.
    + destruct (slice_to_ok id 5) as [x [Hx _]]; try lia. rewrite Hx.
      apply slice_to_firstn in Hx. eauto.
    + exists id, (List.length id). split; [reflexivity|]. symmetry. apply firstn_all.
Qed.

Example get_short_id_nonvacuous :
  get_short_id (bs "seed-1234567") = Ok (bs "seed-12345")
  /\ get_short_id (bs "asset-12") = Ok (bs "asset-12")
  /\ get_short_id (bs "0a1b2c3d-uuid") = Ok (bs "0a1b2") /\ get_short_id (bs "ab") = Ok (bs "ab").
Proof. vm_compute. repeat split; reflexivity. Qed.

(* ---------------------------------------------------------------------------------------
   Link header *)
Lemma parse_attr_ok (a : bytes) : exists kv, parse_attr a = Ok kv.
Proof.
  unfold parse_attr. destruct (split_n2_len a (bs "=")) as [H|H]; rewrite H; cbn [Z.eqb negb Pos.eqb].
  - eauto.
  - destruct (index_ok (split_n2 a (bs "=")) 0) as [k Hk]; try lia.
    destruct (index_ok (split_n2 a (bs "=")) 1) as [v Hv]; try lia.
    rewrite Hk, Hv. cbn [bind]. eauto.
Qed.

Lemma attrs_loop_ok (l : list bytes) n :
  exists m, attrs_loop l n = Ok m /\ n <= m <= n + len l.
Proof.
  revert n; induction l as [|a r IH]; intros n; cbn [attrs_loop].
  - exists n. rewrite len_nil. split; [reflexivity|lia].
  - destruct (parse_attr_ok a) as [kv Hkv]. rewrite Hkv. cbn [bind].
    rewrite len_cons. pose proof (len_nonneg r) as Hr.
    destruct (is_empty (fst kv)).
    + destruct (IH (n + 1)) as [m [Hm Hb]]. exists m. split; [exact Hm|lia].
    + destruct (str_eqb (fst kv) (bs "rel")).
      * exists (n + 1). split; [reflexivity|lia].
      * destruct (IH (n + 1)) as [m [Hm Hb]]. exists m. split; [exact Hm|lia].
Qed.

Lemma links_loop_ok (links acc : list bytes) n :
  exists urls m, links_loop links acc n = Ok (urls, m)
                 /\ n <= m <= n + len links + sum_len links.
Proof.
  revert acc n; induction links as [|l r IH]; intros acc n; cbn [links_loop].
  - exists acc, n. rewrite len_nil. cbn [sum_len]. split; [reflexivity|lia].
  - rewrite len_cons. cbn [sum_len]. pose proof (len_nonneg r) as Hr. pose proof (len_nonneg l) as Hl.
    assert (Hs : 0 <= sum_len r) by (clear; induction r as [|x r IHr]; cbn [sum_len]; [lia|pose proof (len_nonneg x); lia]).
    pose proof (split_len_pos l (bs ";")) as Hp.
    pose proof (split_count l (bs ";")) as Hc.
    replace (len (split l (bs ";")) <? 1) with false by lia.
    destruct (index_ok (split l (bs ";")) 0) as [p0 Hp0]; try lia.
    rewrite Hp0. cbn [bind].
    destruct (is_empty (trim_space (trim_set (bs "<>") p0))).
    + destruct (IH acc (n + 1)) as [urls [m [Hm Hb]]]. exists urls, m. split; [exact Hm|lia].
    + destruct (slice_from_ok (split l (bs ";")) 1) as [rest [Hrest Hlr]]; try lia.
      rewrite Hrest. cbn [bind].
      destruct (attrs_loop_ok rest 0) as [k [Hk Hkb]]. rewrite Hk. cbn [bind].
      destruct (IH (acc ++ [trim_space (trim_set (bs "<>") p0)]) (n + 1 + k)) as [urls [m [Hm Hb]]].
      exists urls, m. split; [exact Hm|lia].
Qed.

(* no panic, and at most 2*len+1 loop iterations (outer and inner loops together) *)
Theorem link_header_never_panics_lemma :
  forall link : bytes, exists urls steps,
    link_header_steps link = Ok (urls, steps) /\ 0 <= steps <= 2 * len link + 1.
Proof.
  intros link. unfold link_header_steps. pose proof (len_nonneg link) as Hl.
  destruct (is_empty link).
  - exists [], 0. split; [reflexivity|lia].
  - destruct (links_loop_ok (split link (bs ", ")) [] 0) as [urls [m [Hm Hb]]].
    exists urls, m. split; [exact Hm|].
    pose proof (split_count link (bs ", ")). pose proof (split_bytes link (bs ", ")). lia.
Qed.

Example link_header_nonvacuous :
  link_header (bs "<https://a.example/p?page=2>; rel=""next"", </x>; title=""t""; rel=prev, <>, ;;")
  = Ok [bs "https://a.example/p?page=2"; bs "/x"].
Proof. vm_compute. reflexivity. Qed.

(* ---------------------------------------------------------------------------------------
   extractFromScriptContent *)
Lemma skipn_rune_shorter (s : bytes) :
  s <> [] -> (List.length (skipn (rune_width s) s) < List.length s)%nat.
Proof.
  intros Hs. pose proof (rune_width_pos s). rewrite skipn_length.
  destruct s; [congruence|]. cbn [List.length]. lia.
Qed.

Lemma len_skipn_rune (s : bytes) :
  Z.of_nat (rune_width s) + len (skipn (rune_width s) s) >= len s.
Proof. unfold len. rewrite skipn_length. lia. Qed.

(* With fuel above the number of bytes the scan finishes; payloadEndPosition is 0 or a position
   inside the scanned text; one iteration per rune, so at most one per byte. *)
Lemma brace_scan_ok fuel (s : bytes) pos o c it :
  (List.length s < fuel)%nat -> 0 <= pos ->
  exists e n, brace_scan fuel s pos o c it = Ok (e, n)
              /\ (e = 0 \/ pos <= e < pos + len s) /\ it <= n <= it + len s.
Proof.
  revert s pos o c it; induction fuel as [|f IH]; intros s pos o c it Hf Hpos; [lia|].
  cbn [brace_scan]. destruct s as [|a r].
  - exists 0, it. change (len (@nil ascii)) with 0. split; [reflexivity|]. split; [left; reflexivity|lia].
  - remember (a :: r) as s eqn:Es.
    assert (Hn1 : (1 <= List.length s)%nat) by (subst s; cbn [List.length]; lia).
    pose proof (rune_width_pos s) as Hw.
    assert (Hwl : (rune_width s <= List.length s)%nat) by (apply rune_width_le_len; subst s; discriminate).
    assert (Hsh : (List.length (skipn (rune_width s) s) < f)%nat) by (rewrite skipn_length; lia).
    assert (Hpl : pos + Z.of_nat (rune_width s) + len (skipn (rune_width s) s) <= pos + len s).
    { unfold len. rewrite skipn_length. lia. }
    assert (Hs1 : 1 <= len s) by (unfold len; lia).
    cbv zeta.
    destruct (Ascii.eqb a (ch "{")).
    { destruct ((0 <? o + 1) && (o + 1 =? c)).
      - exists pos, (it + 1). split; [reflexivity|]. split; [right; lia|lia].
      - destruct (IH (skipn (rune_width s) s) (pos + Z.of_nat (rune_width s)) (o + 1) c (it + 1) Hsh ltac:(lia))
          as [e [n [He [Hr Hn]]]].
        exists e, n. split; [exact He|]. split; [destruct Hr as [Hr|Hr]; [left; exact Hr|right; lia]|lia]. }
    destruct (Ascii.eqb a (ch "}")).
    { destruct ((0 <? o) && (o =? c + 1)).
      - exists pos, (it + 1). split; [reflexivity|]. split; [right; lia|lia].
      - destruct (IH (skipn (rune_width s) s) (pos + Z.of_nat (rune_width s)) o (c + 1) (it + 1) Hsh ltac:(lia))
          as [e [n [He [Hr Hn]]]].
        exists e, n. split; [exact He|]. split; [destruct Hr as [Hr|Hr]; [left; exact Hr|right; lia]|lia]. }
    destruct (IH (skipn (rune_width s) s) (pos + Z.of_nat (rune_width s)) o c (it + 1) Hsh ltac:(lia))
      as [e [n [He [Hr Hn]]]].
    exists e, n. split; [exact He|]. split; [destruct Hr as [Hr|Hr]; [left; exact Hr|right; lia]|lia].
Qed.

(* ---- the rune-wise scan and the byte-wise scan agree ---- *)
(* a continuation byte is not a brace *)
Lemma cont_not_brace b : is_cont b = true -> Ascii.eqb b (ch "{") = false /\ Ascii.eqb b (ch "}") = false.
Proof.
  unfold is_cont, bN. intros H.
  split; apply Ascii.eqb_neq; intros ->; vm_compute in H; discriminate.
Qed.

(* the bytes a multi-byte rune swallows are all continuation bytes, and they are there *)
Lemma rune_width_conts a r :
  (rune_width (a :: r) - 1 <= List.length r)%nat
  /\ forall b, In b (firstn (rune_width (a :: r) - 1) r) -> is_cont b = true.
Proof.
  unfold rune_width.
  repeat match goal with
         | |- context [if ?b then _ else _] => let E := fresh "E" in destruct b eqn:E
         | |- context [match ?l with [] => _ | _ :: _ => _ end] => destruct l
         end; cbn [Nat.sub List.length firstn In]; (split; [lia|]); intros b Hb;
    repeat match goal with
           | H : _ \/ _ |- _ => destruct H
           | H : False |- _ => contradiction
           | H : _ && _ = true |- _ => apply Bool.andb_true_iff in H; destruct H
           end; subst; try assumption; try contradiction.
Qed.

Lemma bytes_skip_conts k (r : bytes) pos o c :
  (k <= List.length r)%nat -> (forall b, In b (firstn k r) -> is_cont b = true) ->
  brace_scan_bytes r pos o c = brace_scan_bytes (skipn k r) (pos + Z.of_nat k) o c.
Proof.
  revert r pos; induction k as [|k IH]; intros r pos Hk Hc.
  - cbn [skipn]. f_equal. lia.
  - destruct r as [|b r]; [cbn in Hk; lia|].
    cbn [skipn brace_scan_bytes].
    destruct (cont_not_brace b) as [H1 H2]; [apply Hc; left; reflexivity|].
    rewrite H1, H2. rewrite (IH r (pos + 1)).
    + f_equal. lia.
    + cbn [List.length] in Hk. lia.
    + intros b' Hb'. apply Hc. right. exact Hb'.
Qed.

Lemma ascii_width1 a r : (bN a <? 128)%N = true -> rune_width (a :: r) = 1%nat.
Proof. intros H. unfold rune_width. rewrite H. reflexivity. Qed.

Lemma brace_is_ascii a : Ascii.eqb a (ch "{") = true \/ Ascii.eqb a (ch "}") = true -> (bN a <? 128)%N = true.
Proof. intros [H|H]; apply Ascii.eqb_eq in H; subst; reflexivity. Qed.

(* The rune-wise scan of the Go loop finds exactly the position the byte-wise scan finds:
   a multi-byte (or invalid) sequence can neither hide a brace nor fake one. *)
Theorem brace_scan_bytewise_lemma :
  forall fuel (s : bytes) pos o c it e n,
    brace_scan fuel s pos o c it = Ok (e, n) -> e = brace_scan_bytes s pos o c.
Proof.
  induction fuel as [|f IH]; intros s pos o c it e n; cbn [brace_scan]; [discriminate|].
  destruct s as [|a r]; [intros [= <- _]; reflexivity|].
  cbn [brace_scan_bytes]. cbv zeta.
  destruct (Ascii.eqb a (ch "{")) eqn:E1.
  { rewrite (ascii_width1 a r) by (apply brace_is_ascii; left; exact E1).
    destruct ((0 <? o + 1) && (o + 1 =? c)); [intros [= <- _]; reflexivity|].
    cbn [skipn Z.of_nat Pos.of_succ_nat]. apply IH. }
  destruct (Ascii.eqb a (ch "}")) eqn:E2.
  { rewrite (ascii_width1 a r) by (apply brace_is_ascii; right; exact E2).
    destruct ((0 <? o) && (o =? c + 1)); [intros [= <- _]; reflexivity|].
    cbn [skipn Z.of_nat Pos.of_succ_nat]. apply IH. }
  intros H. apply IH in H. rewrite H.
  destruct (rune_width_conts a r) as [Hk Hc].
  pose proof (rune_width_pos (a :: r)) as Hw.
  rewrite (bytes_skip_conts (rune_width (a :: r) - 1) r (pos + 1) o c Hk Hc).
  replace (rune_width (a :: r)) with (S (rune_width (a :: r) - 1)) at 1 2 by lia.
  cbn [skipn]. f_equal. lia.
Qed.

(* non-vacuity: "e-acute { euro } x" - two multi-byte runes around the braces *)
Example brace_scan_bytewise_nonvacuous :
  brace_scan 9 (hx "c3a97be282ac7d78") 0 0 0 0 = Ok (6, 4)
  /\ brace_scan_bytes (hx "c3a97be282ac7d78") 0 0 0 = 6
  /\ brace_scan 9 (hx "ff7be27d") 0 0 0 0 = Ok (3, 4).
Proof. vm_compute. repeat split; reflexivity. Qed.

Lemma len2_gt1 (x y : bytes) : (len [x; y] >? 1) = true.
Proof. reflexivity. Qed.
Lemma len1_gt1 (x : bytes) : (len [x] >? 1) = false.
Proof. reflexivity. Qed.
Lemma index2_1 (x y : bytes) : index [x; y] 1 = Ok y.
Proof. reflexivity. Qed.

Section ScriptProofs.
  Variable json_urls : bytes -> option (list bytes).

  (* [off] in {0,1}: every slice is in bounds, the loop finishes with fuel len(content)+1, and it
     makes at most len(content) iterations *)
  Lemma script_payload_g_ok off (content : bytes) :
    0 <= off <= 1 ->
    exists p n, script_payload_g off (S (List.length content)) content = Ok (p, n)
                /\ 0 <= n <= len content.
  Proof.
    intros Hoff. unfold script_payload_g. pose proof (len_nonneg content) as Hc.
    unfold split_after_n2. destruct (cut_first (bs "=") content []) as [[a b]|] eqn:Ecut.
    - pose proof (cut_first_len _ _ _ _ _ Ecut) as Hb.
      rewrite len2_gt1, index2_1. cbn [bind].
      destruct (brace_scan_ok (S (List.length content)) b 0 0 0 0) as [e [n [He [Hr Hn]]]];
        [unfold len in Hb; lia|lia|].
      rewrite He. cbn [bind]. pose proof (len_nonneg b) as Hbl.
      destruct (len b >? e) eqn:E.
      + destruct (slice_to_ok b (e + off)) as [p [Hp _]]; try lia.
        rewrite Hp. cbn [bind]. exists (Some p), n. split; [reflexivity|lia].
      + exists None, n. split; [reflexivity|lia].
    - rewrite len1_gt1.
      exists None, 0. split; [reflexivity|lia].
  Qed.

  Theorem extract_from_script_never_panics_lemma :
    forall content : bytes,
      (exists r, extract_from_script json_urls content = Ok r)
      /\ (exists p n, script_payload content = Ok (p, n) /\ 0 <= n <= len content).
  Proof.
    intros content.
    destruct (script_payload_g_ok 1 content ltac:(lia)) as [p [n [Hp Hn]]].
    split.
    - unfold extract_from_script, script_payload. rewrite Hp. cbn [bind fst].
      destruct p; eauto.
    - exists p, n. split; [exact Hp|exact Hn].
  Qed.
End ScriptProofs.

(* an off-by-one in the slice bound is a crash: "x={}" *)
Lemma script_payload_off2_refuted :
  exists content, script_payload_g 2 (S (List.length content)) content = Panic.
Proof. exists (bs "x={}"). vm_compute. reflexivity. Qed.

Example script_payload_nonvacuous :
  script_payload (bs "var cfg = {""a"":{""u"":""http://h.example/x.png""}}; other={}")
    = Ok (Some (bs " {""a"":{""u"":""http://h.example/x.png""}}"), 37)
  /\ script_payload (bs "a=b") = Ok (Some (bs "b"), 1)
  /\ script_payload (bs "a=") = Ok (None, 0)
  /\ script_payload (bs "no equal sign") = Ok (None, 0).
Proof. vm_compute. repeat split; reflexivity. Qed.

(* ---------------------------------------------------------------------------------------
   srcsetURLs: every value[i] and value[start:i] is in bounds, each outer iteration consumes at
   least one byte (the candidate starts at a byte that is neither white space nor a comma, so it
   is not empty and stays non-empty when its trailing commas are trimmed) *)
Lemma index_det (v : bytes) i c c' : index v i = Ok c -> index v i = Ok c' -> c = c'.
Proof. congruence. Qed.

Lemma scan_while_ok fuel P (v : bytes) i :
  0 <= i <= len v -> (Z.to_nat (len v - i) < fuel)%nat ->
  exists j, scan_while fuel P v i = Ok j /\ i <= j <= len v
            /\ (forall c, index v j = Ok c -> P c = false)
            /\ (forall c, index v i = Ok c -> P c = true -> i < j).
Proof.
  revert i; induction fuel as [|f IH]; intros i Hi Hf; [lia|].
  cbn [scan_while]. destruct (i <? len v) eqn:E.
  - destruct (index_ok v i) as [c Hc]; try lia. rewrite Hc. cbn [bind].
    destruct (P c) eqn:EP.
    + destruct (IH (i + 1)) as [j [Hj [Hr [H3 H4]]]]; try lia.
      exists j. repeat split; try assumption; try lia; try (intros; lia).
    + exists i. repeat split; try lia; intros c' Hc'; inversion Hc'; subst; congruence.
  - exists i. repeat split; try lia.
    + intros c Hc. rewrite index_panics in Hc by lia. discriminate.
    + intros c Hc. rewrite index_panics in Hc by lia. discriminate.
Qed.

(* the first element of an in-bounds slice is the element at its lower index *)
Lemma skipn_nth {A} (l : list A) n c : nth_error l n = Some c -> skipn n l = c :: skipn (S n) l.
Proof.
  revert l; induction n as [|n IH]; intros [|a l]; cbn; try discriminate.
  - intros [= ->]. reflexivity.
  - intros H. apply IH in H. exact H.
Qed.

Lemma slice_head (v : bytes) i j c :
  index v i = Ok c -> i < j -> j <= len v -> exists r, slice v i j = Ok (c :: r).
Proof.
  intros Hc Hij Hj. unfold index in Hc.
  destruct ((0 <=? i) && (i <? len v)) eqn:E; [|discriminate].
  destruct (nth_error v (Z.to_nat i)) as [c'|] eqn:En; [|discriminate]. injection Hc as ->.
  unfold slice. replace ((0 <=? i) && (i <=? j) && (j <=? len v)) with true by lia.
  rewrite (skipn_nth _ _ _ En).
  replace (Z.to_nat (j - i)) with (S (Z.to_nat (j - i - 1))) by lia.
  cbn [firstn]. eauto.
Qed.

Lemma trim_left_keeps cs (l : bytes) a : in_set cs a = false -> trim_left_set cs (l ++ [a]) <> [].
Proof.
  intros Ha. induction l as [|x l IH]; cbn [app trim_left_set].
  - rewrite Ha. discriminate.
  - destruct (in_set cs x); [exact IH|discriminate].
Qed.

Lemma trim_right_keeps cs a (r : bytes) : in_set cs a = false -> trim_right_set cs (a :: r) <> [].
Proof.
  intros Ha. unfold trim_right_set. cbn [rev].
  pose proof (trim_left_keeps cs (rev r) a Ha) as H.
  destruct (trim_left_set cs (rev r ++ [a])) as [|x l]; [congruence|].
  cbn [rev]. intros Hn. apply (f_equal (@List.length ascii)) in Hn.
  rewrite app_length in Hn. cbn in Hn. lia.
Qed.

Definition nonempty (u : bytes) : Prop := u <> [].

Lemma srcset_loop_ok fuel (v : bytes) i acc n :
  0 <= i <= len v -> (Z.to_nat (len v - i) < fuel)%nat -> Forall nonempty acc ->
  exists urls m, srcset_loop fuel v i acc n = Ok (urls, m)
                 /\ n <= m <= n + (len v - i) /\ Forall nonempty urls.
Proof.
  revert i acc n; induction fuel as [|f IH]; intros i acc n Hi Hf Hacc; [lia|].
  cbn [srcset_loop]. cbv zeta.
  destruct (scan_while_ok (S (List.length v)) ws_or_comma v i Hi) as [i1 [H1 [R1 [P1 _]]]];
    [unfold len in *; lia|].
  rewrite H1. cbn [bind].
  destruct (i1 >=? len v) eqn:E1.
  { exists acc, n. split; [reflexivity|]. split; [lia|exact Hacc]. }
  destruct (index_ok v i1) as [c Hc]; try lia.
  pose proof (P1 c Hc) as Pc. unfold ws_or_comma in Pc.
  apply Bool.orb_false_iff in Pc. destruct Pc as [Pws Pcomma].
  destruct (scan_while_ok (S (List.length v)) not_ws v i1) as [i2 [H2 [R2 [_ Q2]]]];
    [lia|unfold len in *; lia|].
  rewrite H2. cbn [bind].
  assert (Hlt : i1 < i2) by (apply (Q2 c Hc); unfold not_ws; rewrite Pws; reflexivity).
  destruct (slice_head v i1 i2 c Hc Hlt) as [r Hs]; [lia|].
  rewrite Hs. cbn [bind].
  destruct (has_suffix (c :: r) [ch ","]).
  - destruct (IH i2 (acc ++ [trim_right_set [ch ","] (c :: r)]) (n + 1)) as [urls [m [Hm [Hb Hn]]]]; try lia.
    { apply Forall_app. split; [exact Hacc|]. constructor; [|constructor].
      apply trim_right_keeps. cbn [in_set existsb]. rewrite Pcomma. reflexivity. }
    exists urls, m. split; [exact Hm|]. split; [lia|exact Hn].
  - destruct (scan_while_ok (S (List.length v)) not_comma v i2) as [i3 [H3 [R3 _]]];
      [lia|unfold len in *; lia|].
    rewrite H3. cbn [bind].
    destruct (IH i3 (acc ++ [c :: r]) (n + 1)) as [urls [m [Hm [Hb Hn]]]]; try lia.
    { apply Forall_app. split; [exact Hacc|]. constructor; [discriminate|constructor]. }
    exists urls, m. split; [exact Hm|]. split; [lia|exact Hn].
Qed.

Theorem srcset_never_panics_lemma :
  forall v : bytes, exists urls steps,
    srcset_urls_steps v = Ok (urls, steps) /\ 0 <= steps <= len v /\ Forall (fun u => u <> []) urls.
Proof.
  intros v. unfold srcset_urls_steps. pose proof (len_nonneg v).
  destruct (srcset_loop_ok (S (List.length v)) v 0 [] 0) as [urls [m [Hm [Hb Hn]]]];
    [lia|unfold len; lia|constructor|].
  exists urls, m. split; [exact Hm|]. split; [lia|exact Hn].
Qed.

Example srcset_nonvacuous :
  srcset_urls (bs "a.png 1x, b,c.png 2x,d.png,,  e.png") = Ok [bs "a.png"; bs "b,c.png"; bs "d.png"; bs "e.png"]
  /\ srcset_urls (bs " , ,") = Ok [] /\ srcset_urls [] = Ok [].
Proof. vm_compute. repeat split; reflexivity. Qed.

(* ---------------------------------------------------------------------------------------
   reddit.ExtractAPIPostPermalinks: Children[0] is guarded by the length of Children itself *)
Theorem reddit_permalinks_never_panics_lemma :
  forall decoded, exists r, reddit_permalinks decoded = Ok r.
Proof.
  intros [[dist children]|]; unfold reddit_permalinks, reddit_permalinks_g; [|eauto].
  destruct (len children =? 0) eqn:E; [eauto|].
  pose proof (len_nonneg children).
  destruct (index_ok children 0) as [p Hp]; try lia. rewrite Hp. cbn [bind]. eauto.
Qed.

(* guarding by the listing's own counter instead is a crash: dist = 1 with no children *)
Lemma reddit_permalinks_by_dist_refuted :
  exists decoded, reddit_permalinks_g true decoded = Panic.
Proof. exists (Some (1, [])). reflexivity. Qed.

Example reddit_permalinks_nonvacuous :
  reddit_permalinks (Some (1, [bs "/r/x/comments/1/t/"])) =
    Ok (Some [bs "https://www.reddit.com/r/x/comments/1/t/"; bs "https://old.reddit.com/r/x/comments/1/t/"])
  /\ reddit_permalinks (Some (5, [])) = Ok None /\ reddit_permalinks None = Ok None.
Proof. vm_compute. repeat split; reflexivity. Qed.

(* ---------------------------------------------------------------------------------------
   ina.extractJWPlayerVersion CAN panic (index 1 of a one-element Split); the function has no
   caller in the pipeline *)
Lemma jwplayer_version_refuted : exists body, jwplayer_version body = Panic.
Proof. exists (bs "/* JW Player version*/"). vm_compute. reflexivity. Qed.
