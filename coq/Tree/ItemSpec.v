(* Statements about the item tree (Tree/Item.v) that the property theorems of C11 / C01 / C08
   are built from.  Definitions only: each [*_stmt] is proved in ItemProofs.v as a lemma of
   exactly this type, so the statements are fixed here and cannot be weakened silently. *)
From ZenoV Require Export Tree.Item.

Definition nonseed_nodes (t : item) : list item :=
  match t with Node _ cs => flat_map flatten cs end.

Definition is_fresh_node (n : item) : bool := status_eqb (st_of n) Fresh.
Definition is_leaf (n : item) : bool := match kids n with [] => true | _ => false end.

(* a terminal node (Completed / Seen / Failed) has no descendant that still awaits work *)
Fixpoint closed (t : item) : bool :=
  match t with
  | Node i cs => (has_work_st (nst i) || forallb no_pending cs) && forallb closed cs
  end.

(* fresh nodes are leaves *)
Definition fresh_leaves (t : item) : bool :=
  forallb (fun n => negb (is_fresh_node n) || is_leaf n) (flatten t).

(* URLs of the non-seed nodes that were already worked on (not Fresh) *)
Definition worked_urls (t : item) : list N :=
  map url_of (filter (fun n => negb (is_fresh_node n)) (nonseed_nodes t)).

(* the state in which preprocess calls DedupeItems: unique ids, fresh nodes are leaves, and the
   nodes that were de-duplicated in earlier passes still have pairwise distinct URLs *)
Definition Inv0 (t : item) : Prop :=
  NoDup (ids t) /\ fresh_leaves t = true /\ NoDup (worked_urls t).

(* ---- completion is detected exactly ---- *)
Definition complete_iff_stmt : Prop := forall t,
  closed t = true ->
  snd (complete_and_check t) = no_pending t
  /\ no_pending (fst (complete_and_check t)) = no_pending t.

(* marking changes nothing but Got* -> Completed *)
Definition mark_completed_shape_stmt : Prop := forall t,
  ids (mark_completed t) = ids t
  /\ map url_of (flatten (mark_completed t)) = map url_of (flatten t)
  /\ no_pending (mark_completed t) = no_pending t.

(* ---- de-duplication is exact ---- *)
Definition dedupe_unique_stmt : Prop := forall t,
  Inv0 t -> NoDup (nonseed_urls (dedupe t)).

Definition dedupe_keeps_stmt : Prop := forall t,
  Inv0 t -> forall u, In u (nonseed_urls t) <-> In u (nonseed_urls (dedupe t)).

(* only fresh leaves are ever dropped: every node that was already worked on survives *)
Definition dedupe_keeps_worked_stmt : Prop := forall t n,
  Inv0 t -> In n (nonseed_nodes t) -> is_fresh_node n = false -> In (id_of n) (ids (dedupe t)).

Definition dedupe_ids_stmt : Prop := forall t,
  Inv0 t -> NoDup (ids (dedupe t)) /\ incl (ids (dedupe t)) (ids t) /\ id_of (dedupe t) = id_of t.

Definition dedupe_consistent_stmt : Prop := forall t,
  Inv0 t -> check_consistency t = 0 -> check_consistency (dedupe t) = 0.

(* the rule of the code BEFORE the fix loses a URL on a well-formed, reachable tree *)
Definition dedupe_orig_refuted_stmt : Prop := exists t,
  Inv0 t /\ check_consistency t = 0 /\
  exists u, In u (nonseed_urls t) /\ ~ In u (nonseed_urls (dedupe_orig t)).

(* ---- single operations keep the tree well-formed ---- *)
Definition remove_child_consistent_stmt : Prop := forall pid cid t,
  check_consistency t = 0 -> check_consistency (remove_child pid cid t) = 0.

Definition remove_child_ids_stmt : Prop := forall pid cid t,
  NoDup (ids t) -> NoDup (ids (remove_child pid cid t)) /\ incl (ids (remove_child pid cid t)) (ids t).

Definition add_child_ids_stmt : Prop := forall pid c from t t',
  NoDup (ids t) -> ~ In (id_of c) (ids t) -> kids c = [] ->
  add_child pid c from t = Some t' ->
  NoDup (ids t') /\ incl (ids t') (id_of c :: ids t).

(* adding a fresh leaf below a node that is Archived (what postprocessItem does) *)
Definition add_child_consistent_stmt : Prop := forall pid c from t t' p,
  NoDup (ids t) -> check_consistency t = 0 ->
  In p (flatten t) -> id_of p = pid ->
  (st_of p = Archived /\ kids p = [] \/ st_of p = GotChildren /\ from = GotChildren) ->
  kids c = [] -> nvia (inf c) = false ->
  add_child pid c from t = Some t' ->
  check_consistency t' = 0.

Definition mark_completed_consistent_stmt : Prop := forall t,
  check_consistency t = 0 -> check_consistency (mark_completed t) = 0.

(* ---- what de-duplication does to the tree (added for Stage/PassProofs.v) ----
   [prune dead t]: drop every non-root node whose id is marked dead.  In the state in which
   preprocess calls DedupeItems, de-duplication drops only Fresh nodes (which are leaves) and
   then marks completed: nothing else in the tree changes. *)
Fixpoint prune (dead : N -> bool) (t : item) : item :=
  match t with
  | Node i cs => Node i (filter (fun c => negb (dead (id_of c))) (map (prune dead) cs))
  end.

Definition dedupe_prune_stmt : Prop := forall t,
  Inv0 t ->
  exists dead,
    (forall n, In n (nonseed_nodes t) -> dead (id_of n) = true -> is_fresh_node n = true)
    /\ dedupe t = mark_completed (prune dead t).

(* ================================================================================== *)
(* C11: every sequence of operations the stages perform keeps the tree well-formed     *)
(* ================================================================================== *)
(* Well-formed = what the property demands: unique ids and CheckConsistency() == nil.  (Symmetric
   parent/child links hold in the model by construction; the driver checks the pointer side.)
   "Fresh nodes are leaves" is not a separate side invariant: it follows from rule 4 of
   CheckConsistency ([WF_fresh_leaves_stmt]). *)
Definition WF (t : item) : Prop := NoDup (ids t) /\ check_consistency t = 0.

Definition WF_fresh_leaves_stmt : Prop := forall t, WF t -> fresh_leaves t = true.

(* NormalizeURL rewrites the URL of a node in place (same function as Stage/Pass.v set_url_of) *)
Definition set_url_at (id u : N) (t : item) : item :=
  update id (fun n => match n with Node i cs => Node (set_url u i) cs end) t.

(* the status changes the stages make on a node they work on (all of them on nodes at the
   working depth = max depth, i.e. leaves):
     Fresh -> Failed        preprocessor.go:171 (seed, NormalizeURL error), :283 (http.NewRequest error)
     Fresh -> Completed     preprocessor.go:198, :218 (seed excluded by the include/exclude filters)
     Fresh -> Seen          preprocessor/seencheck/seencheck.go:115, source/hq/seencheck.go:83
     Fresh -> PreProcessed  preprocessor.go:306
     PreProcessed -> Archived  archiver.go:359
     PreProcessed -> Failed    archiver.go:276, :314, :341
     Archived -> Completed  postprocessor/item.go:38 (max redirects), :79 :83 :87 (depth / html asset /
                            assets disabled), :177 (no children, no redirection) *)
Definition stage_transition (from to : status) : bool :=
  match from, to with
  | Fresh, PreProcessed | Fresh, Seen | Fresh, Failed | Fresh, Completed => true
  | PreProcessed, Archived | PreProcessed, Failed => true
  | Archived, Completed => true
  | _, _ => false
  end.

Inductive sop :=
| SAddAsset (pid cid url hops : N)          (* postprocessor/item.go:127  item.AddChild(NewItem(uuid, asset, ""), ItemGotChildren) *)
| SAddRedirect (pid cid url hops redir : N) (* postprocessor/item.go:50   item.AddChild(NewItem(uuid, location, ""), ItemGotRedirected) *)
| SRemove (pid cid : N)                     (* preprocessor.go:178 :194 :214 :227  items[i].GetParent().RemoveChild(items[i]) *)
| SSetStatus (id : N) (s : status)          (* item.SetStatus(s), see [stage_transition] *)
| SSetUrl (id u : N)                        (* preprocessor.go:168 :175 NormalizeURL *)
| SSeedDone                                 (* preprocessor.go:242 :274  seed.SetStatus(ItemCompleted) *)
| SDedupe                                   (* preprocessor.go:233  seed.DedupeItems() *)
| SMarkCompleted                            (* markCompleted(seed) (inside DedupeItems / CompleteAndCheck) *)
| SComplete.                                (* finisher.go:126  seed.CompleteAndCheck() *)

Definition apply_op (t : item) (o : sop) : item :=
  match o with
  | SAddAsset pid cid url hops =>
    match add_child pid (new_child cid url hops 0 false) GotChildren t with Some t' => t' | None => t end
  | SAddRedirect pid cid url hops redir =>
    match add_child pid (new_child cid url hops redir false) GotRedirected t with Some t' => t' | None => t end
  | SRemove pid cid => remove_child pid cid t
  | SSetStatus id s => set_status id s t
  | SSetUrl id u => set_url_at id u t
  | SSeedDone => set_status (id_of t) Completed t
  | SDedupe => dedupe t
  | SMarkCompleted => mark_completed t
  | SComplete => fst (complete_and_check t)
  end.

(* The guard of an operation = the condition under which the real stage performs it.
   - SAddAsset: the id is new (uuid.New()); the parent is the node postprocessItem works on, which is
     Archived (postprocessor/item.go:24 returns otherwise) when the first asset is added and GotChildren for the
     following ones (AddChild sets it).
   - SAddRedirect: new id; the parent is Archived (same check; the redirect branch returns right after).
   - SSetStatus: the node exists and the change is one of [stage_transition].
   - SSeedDone: no child of the seed is Fresh.  At the call sites no node is left at the working
     depth (resp. no Fresh one), and by the level discipline (Stage/PassSpec.v level_ok) Fresh nodes
     exist at the working depth only.
   - SRemove, SSetUrl, SDedupe, SMarkCompleted, SComplete need no guard at all for well-formedness:
     they keep ANY tree with unique ids and a passing CheckConsistency in that state. *)
Definition op_guard (o : sop) (t : item) : Prop :=
  match o with
  | SAddAsset pid cid _ _ =>
    ~ In cid (ids t) /\
    exists p, In p (flatten t) /\ id_of p = pid /\ (st_of p = Archived \/ st_of p = GotChildren)
  | SAddRedirect pid cid _ _ _ =>
    ~ In cid (ids t) /\ exists p, In p (flatten t) /\ id_of p = pid /\ st_of p = Archived
  | SSetStatus id s =>
    exists n, In n (flatten t) /\ id_of n = id /\ stage_transition (st_of n) s = true
  | SSeedDone => forallb (fun c => negb (is_fresh_node c)) (kids t) = true
  | SRemove _ _ | SSetUrl _ _ | SDedupe | SMarkCompleted | SComplete => True
  end.

(* every operation of the sequence is performed in a state in which its guard holds *)
Fixpoint ops_ok (ops : list sop) (t : item) : Prop :=
  match ops with
  | [] => True
  | o :: r => op_guard o t /\ ops_ok r (apply_op t o)
  end.

Definition ops_preserve_wf_stmt : Prop := forall ops t,
  WF t -> ops_ok ops t -> WF (fold_left apply_op ops t).

(* ... and in every intermediate state *)
Definition ops_preserve_wf_all_stmt : Prop := forall ops t,
  WF t -> ops_ok ops t -> forall k, WF (fold_left apply_op (firstn k ops) t).

(* executable guard (used for the non-vacuity examples); sound for [op_guard] *)
Definition find_node (id : N) (t : item) : option item :=
  find (fun n => N.eqb (id_of n) id) (flatten t).
Definition op_guardb (o : sop) (t : item) : bool :=
  match o with
  | SAddAsset pid cid _ _ =>
    negb (existsb (N.eqb cid) (ids t)) &&
    match find_node pid t with
    | Some p => status_eqb (st_of p) Archived || status_eqb (st_of p) GotChildren
    | None => false
    end
  | SAddRedirect pid cid _ _ _ =>
    negb (existsb (N.eqb cid) (ids t)) &&
    match find_node pid t with Some p => status_eqb (st_of p) Archived | None => false end
  | SSetStatus id s =>
    match find_node id t with Some n => stage_transition (st_of n) s | None => false end
  | SSeedDone => forallb (fun c => negb (is_fresh_node c)) (kids t)
  | SRemove _ _ | SSetUrl _ _ | SDedupe | SMarkCompleted | SComplete => true
  end.
Fixpoint ops_okb (ops : list sop) (t : item) : bool :=
  match ops with
  | [] => true
  | o :: r => op_guardb o t && ops_okb r (apply_op t o)
  end.
Definition ops_okb_sound_stmt : Prop := forall ops t, ops_okb ops t = true -> ops_ok ops t.
