(* Statements about the item tree (Tree/Item.v) that the property theorems of C11 / C01 / C08
   are built from.  Definitions only: each [*_stmt] is proved in ItemProofs.v as a lemma of
   exactly this type, so the statements are fixed here and cannot be weakened silently. *)
From ZenoV Require Export Tree.Item.

Definition nonseed_nodes (t : item) : list item :=
  match t with Node _ cs => flat_map flatten cs end.

Definition is_fresh_node (n : item) : bool := status_eqb (st_of n) Fresh.
Definition is_leaf (n : item) : bool := match kids n with [] => true | _ => false end.

(* a terminal node (Completed / Seen / Failed) has no descendant that still awaits work *)
Fixpoint closed (t : item) : bool :=
  match t with
  | Node i cs => (has_work_st (nst i) || forallb no_pending cs) && forallb closed cs
  end.

(* fresh nodes are leaves *)
Definition fresh_leaves (t : item) : bool :=
  forallb (fun n => negb (is_fresh_node n) || is_leaf n) (flatten t).

(* URLs of the non-seed nodes that were already worked on (not Fresh) *)
Definition worked_urls (t : item) : list N :=
  map url_of (filter (fun n => negb (is_fresh_node n)) (nonseed_nodes t)).

(* the state in which preprocess calls DedupeItems: unique ids, fresh nodes are leaves, and the
   nodes that were de-duplicated in earlier passes still have pairwise distinct URLs *)
Definition Inv0 (t : item) : Prop :=
  NoDup (ids t) /\ fresh_leaves t = true /\ NoDup (worked_urls t).

(* ---- completion is detected exactly ---- *)
Definition complete_iff_stmt : Prop := forall t,
  closed t = true ->
  snd (complete_and_check t) = no_pending t
  /\ no_pending (fst (complete_and_check t)) = no_pending t.

(* marking changes nothing but Got* -> Completed *)
Definition mark_completed_shape_stmt : Prop := forall t,
  ids (mark_completed t) = ids t
  /\ map url_of (flatten (mark_completed t)) = map url_of (flatten t)
  /\ no_pending (mark_completed t) = no_pending t.

(* ---- de-duplication is exact ---- *)
Definition dedupe_unique_stmt : Prop := forall t,
  Inv0 t -> NoDup (nonseed_urls (dedupe t)).

Definition dedupe_keeps_stmt : Prop := forall t,
  Inv0 t -> forall u, In u (nonseed_urls t) <-> In u (nonseed_urls (dedupe t)).

(* only fresh leaves are ever dropped: every node that was already worked on survives *)
Definition dedupe_keeps_worked_stmt : Prop := forall t n,
  Inv0 t -> In n (nonseed_nodes t) -> is_fresh_node n = false -> In (id_of n) (ids (dedupe t)).

Definition dedupe_ids_stmt : Prop := forall t,
  Inv0 t -> NoDup (ids (dedupe t)) /\ incl (ids (dedupe t)) (ids t) /\ id_of (dedupe t) = id_of t.

Definition dedupe_consistent_stmt : Prop := forall t,
  Inv0 t -> check_consistency t = 0 -> check_consistency (dedupe t) = 0.

(* the rule of the code BEFORE the fix loses a URL on a well-formed, reachable tree *)
Definition dedupe_orig_refuted_stmt : Prop := exists t,
  Inv0 t /\ check_consistency t = 0 /\
  exists u, In u (nonseed_urls t) /\ ~ In u (nonseed_urls (dedupe_orig t)).

(* ---- single operations keep the tree well-formed ---- *)
Definition remove_child_consistent_stmt : Prop := forall pid cid t,
  check_consistency t = 0 -> check_consistency (remove_child pid cid t) = 0.

Definition remove_child_ids_stmt : Prop := forall pid cid t,
  NoDup (ids t) -> NoDup (ids (remove_child pid cid t)) /\ incl (ids (remove_child pid cid t)) (ids t).

Definition add_child_ids_stmt : Prop := forall pid c from t t',
  NoDup (ids t) -> ~ In (id_of c) (ids t) -> kids c = [] ->
  add_child pid c from t = Some t' ->
  NoDup (ids t') /\ incl (ids t') (id_of c :: ids t).

(* adding a fresh leaf below a node that is Archived (what postprocessItem does) *)
Definition add_child_consistent_stmt : Prop := forall pid c from t t' p,
  NoDup (ids t) -> check_consistency t = 0 ->
  In p (flatten t) -> id_of p = pid ->
  (st_of p = Archived /\ kids p = [] \/ st_of p = GotChildren /\ from = GotChildren) ->
  kids c = [] -> nvia (inf c) = false ->
  add_child pid c from t = Some t' ->
  check_consistency t' = 0.

Definition mark_completed_consistent_stmt : Prop := forall t,
  check_consistency t = 0 -> check_consistency (mark_completed t) = 0.
