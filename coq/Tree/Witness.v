(* Concrete witnesses (vm_compute) for the item tree. *)
From ZenoV Require Import Tree.Item Tree.ItemSpec.
Open Scope N_scope.

(* seed S; assets A (GotChildren, child L with X's URL) and X (GotChildren, child Y) *)
Definition w_tree : item :=
  Node (Info 0 0 GotChildren false 0 0)
    [ Node (Info 1 1 GotChildren false 0 0) [ Node (Info 3 2 Fresh false 0 0) [] ];
      Node (Info 2 2 GotChildren false 0 0) [ Node (Info 4 9 Fresh false 0 0) [] ] ].

Lemma NoDup_dec_true (l : list N) :
  (fix nd (l : list N) := match l with [] => true | x :: r => negb (existsb (N.eqb x) r) && nd r end) l = true -> NoDup l.
Proof.
  induction l as [|x r IH]; intros H; [constructor|].
  apply andb_prop in H as [H1 H2]. constructor; [|apply IH; exact H2].
  intros Hin. apply negb_true_iff in H1.
  assert (existsb (N.eqb x) r = true) by (apply existsb_exists; exists x; split; [exact Hin|apply N.eqb_refl]).
  congruence.
Qed.

Lemma w_tree_inv0 : Inv0 w_tree.
Proof. repeat split; try (apply NoDup_dec_true; vm_compute; reflexivity). Qed.

Lemma dedupe_orig_refuted_w :
  Inv0 w_tree /\ check_consistency w_tree = 0%nat /\
  exists u, In u (nonseed_urls w_tree) /\ ~ In u (nonseed_urls (dedupe_orig w_tree)).
Proof.
  split; [exact w_tree_inv0|]. split; [reflexivity|].
  exists 9. split; [vm_compute; tauto|]. vm_compute. intros H.
  repeat (destruct H as [H|H]; [discriminate H|]). exact H.
Qed.

(* the fixed rule keeps it *)
Lemma dedupe_fixed_keeps_w :
  nonseed_urls (dedupe w_tree) = [1; 2; 9] /\ check_consistency (dedupe w_tree) = 0%nat.
Proof. split; vm_compute; reflexivity. Qed.
