(* Concrete witnesses (vm_compute) for the item tree. *)
From ZenoV Require Import Tree.Item Tree.ItemSpec.
Open Scope N_scope.

(* seed S; assets A (GotChildren, child L with X's URL) and X (GotChildren, child Y) *)
Definition w_tree : item :=
  Node (Info 0 0 GotChildren false 0 0)
    [ Node (Info 1 1 GotChildren false 0 0) [ Node (Info 3 2 Fresh false 0 0) [] ];
      Node (Info 2 2 GotChildren false 0 0) [ Node (Info 4 9 Fresh false 0 0) [] ] ].

Lemma NoDup_dec_true (l : list N) :
  (fix nd (l : list N) := match l with [] => true | x :: r => negb (existsb (N.eqb x) r) && nd r end) l = true -> NoDup l.
Proof.
  induction l as [|x r IH]; intros H; [constructor|].
  apply andb_prop in H as [H1 H2]. constructor; [|apply IH; exact H2].
  intros Hin. apply negb_true_iff in H1.
  assert (existsb (N.eqb x) r = true) by (apply existsb_exists; exists x; split; [exact Hin|apply N.eqb_refl]).
  congruence.
Qed.

Lemma w_tree_inv0 : Inv0 w_tree.
Proof. repeat split; try (apply NoDup_dec_true; vm_compute; reflexivity). Qed.

Lemma dedupe_orig_refuted_w :
  Inv0 w_tree /\ check_consistency w_tree = 0%nat /\
  exists u, In u (nonseed_urls w_tree) /\ ~ In u (nonseed_urls (dedupe_orig w_tree)).
Proof.
  split; [exact w_tree_inv0|]. split; [reflexivity|].
  exists 9. split; [vm_compute; tauto|]. vm_compute. intros H.
  repeat (destruct H as [H|H]; [discriminate H|]). exact H.
Qed.

(* the fixed rule keeps it *)
Lemma dedupe_fixed_keeps_w :
  nonseed_urls (dedupe w_tree) = [1; 2; 9] /\ check_consistency (dedupe w_tree) = 0%nat.
Proof. split; vm_compute; reflexivity. Qed.

(* a bigger tree: redirected seed 0 -> page 1 with assets 2 (done), 3 (has assets 5 6 7 8, three of
   them duplicates: 5 of the worked node 2, 7 of the fresh node 6, 8 of the worked node 4 that comes
   LATER in pre-order), 4 (redirected to 9), 10 (seen) *)
Definition big_tree : item :=
  Node (Info 0 0 GotRedirected true 0 0)
    [ Node (Info 1 1 GotChildren false 0 1)
        [ Node (Info 2 2 Completed false 0 0) [];
          Node (Info 3 3 GotChildren false 0 0)
            [ Node (Info 5 2 Fresh false 0 0) []; Node (Info 6 7 Fresh false 0 0) [];
              Node (Info 7 7 Fresh false 0 0) []; Node (Info 8 4 Fresh false 0 0) [] ];
          Node (Info 4 4 GotRedirected false 0 0) [ Node (Info 9 9 Fresh false 0 1) [] ];
          Node (Info 10 10 Seen false 0 0) [] ] ].

Lemma big_tree_inv0 : Inv0 big_tree.
Proof. repeat split; try (apply NoDup_dec_true; vm_compute; reflexivity). Qed.

(* a seed's life as an operation sequence: preprocess, archive, postprocess (four assets, two with
   one URL), finisher, second pass (one asset rejected, de-duplication, one archived and redirected,
   one seen), third pass (redirect target fails), completion *)
Definition seed_tree : item := Node (Info 0 0 Fresh true 0 0) [].
Definition ops1 : list sop :=
  [ SSetUrl 0 5; SSetStatus 0 PreProcessed; SSetStatus 0 Archived;
    SAddAsset 0 1 7 0; SAddAsset 0 2 7 0; SAddAsset 0 3 8 0; SAddAsset 0 4 6 0; SComplete;
    SSetUrl 3 88; SRemove 0 3; SDedupe;
    SSetStatus 1 PreProcessed; SSetStatus 4 Seen; SSetStatus 1 Archived;
    SAddRedirect 1 5 9 0 1; SComplete;
    SSetStatus 5 PreProcessed; SSetStatus 5 Failed; SMarkCompleted; SComplete; SSeedDone ].
