(* C11 - harness side: replay of an operation sequence in the model, comparison with what the
   implementation showed after every op, and the property's monitors on the observed trees. *)
From ZenoV Require Import Lib.Harness Tree.Item.
Open Scope N_scope.

Inductive op :=
| OSeed (u : N) | OAdd (pid url : N) (from : status) | ORemove (pid cid : N) | OSet (id : N) (s : status)
| ODedupe | OComplete | OBoundary.

Record obs := Obs {
  o_tree : item; o_check : N; o_md : N; o_lvl : list N; o_dwr : list (N * N); o_links : bool; o_ret : N }.

Record tcase := TC { t_pipe : bool; t_steps : list (op * obs) }.

(* ---- structural equality ---- *)
Definition info_eqb (a c : info) : bool :=
  (nid a =? nid c) && (nurl a =? nurl c) && status_eqb (nst a) (nst c) && Bool.eqb (nvia a) (nvia c)
  && (nhops a =? nhops c) && (nredir a =? nredir c).
Fixpoint item_eqb (a c : item) : bool :=
  match a, c with
  | Node i cs, Node j ds =>
    info_eqb i j &&
    (fix go (l1 l2 : list item) : bool :=
       match l1, l2 with
       | [], [] => true
       | x :: r1, y :: r2 => item_eqb x y && go r1 r2
       | _, _ => false
       end) cs ds
  end.
Fixpoint listN_eqb (a c : list N) : bool :=
  match a, c with
  | [], [] => true
  | x :: r, y :: s => (x =? y) && listN_eqb r s
  | _, _ => false
  end.
Fixpoint listNN_eqb (a c : list (N * N)) : bool :=
  match a, c with
  | [], [] => true
  | (x1, x2) :: r, (y1, y2) :: s => (x1 =? y1) && (x2 =? y2) && listNN_eqb r s
  | _, _ => false
  end.

(* ---- the model's run ---- *)
Definition mstep (st : item * N) (o : op) : (item * N) * N :=
  let '(t, next) := st in
  match o with
  | OSeed u => ((Node (Info 0 u Fresh false 0 0) [], 1), 0)
  | OAdd pid url from =>
    match add_child pid (new_child next url 0 0 false) from t with
    | Some t' => ((t', next + 1), 0)
    | None => ((t, next + 1), 1)
    end
  | ORemove pid cid => ((remove_child pid cid t, next), 0)
  | OSet id s => ((set_status id s t, next), 0)
  | ODedupe => ((dedupe t, next), 0)
  | OComplete => let '(t', b) := complete_and_check t in ((t', next), if b then 1 else 0)
  | OBoundary => ((t, next), 0)
  end.

Definition obs_matches (t : item) (ret : N) (o : obs) : bool :=
  item_eqb t (o_tree o)
  && (N.of_nat (check_consistency t) =? o_check o)
  && (N.of_nat (max_depth t) =? o_md o)
  && listN_eqb (map id_of (nodes_at (max_depth t) t)) (o_lvl o)
  && listNN_eqb (map (fun '(i, d) => (i, N.of_nat d)) (dwr_all t)) (o_dwr o)
  && o_links o
  && (ret =? o_ret o).

Fixpoint replay (st : item * N) (steps : list (op * obs)) : bool :=
  match steps with
  | [] => true
  | (o, ob) :: r =>
    let '(st', ret) := mstep st o in
    obs_matches (fst st') ret ob && replay st' r
  end.

Definition dummy : item := Node (Info 0 0 Fresh false 0 0) [].
Definition diff_case (c : tcase) : bool := negb (replay (dummy, 0) (t_steps c)).
Definition diffs (l : list tcase) := bad_idx diff_case l.

(* ---- monitors: on the observed trees only ---- *)
Fixpoint nodupN (l : list N) : bool :=
  match l with
  | [] => true
  | x :: r => negb (existsb (N.eqb x) r) && nodupN r
  end.
Definition subsetN (a c : list N) : bool := forallb (fun x => existsb (N.eqb x) c) a.

(* m0: ids unique and parent/child links symmetric after every op *)
Definition mon_links (c : tcase) : bool :=
  forallb (fun '(_, ob) => o_links ob && nodupN (ids (o_tree ob))) (t_steps c).

(* m1: well-formed (the consistency check, by the implementation and recomputed here) at every stage boundary *)
Definition mon_wf (c : tcase) : bool :=
  negb (t_pipe c) ||
  forallb (fun '(o, ob) => match o with
                           | OBoundary => (o_check ob =? 0) && Nat.eqb (check_consistency (o_tree ob)) 0
                           | _ => true end) (t_steps c).

(* m2/m3: after de-duplication exactly one non-seed node per URL, and no URL lost or invented.
   m2 (unique) is checked at EVERY ODedupe step whose input tree (the tree observed before the
   step) has unique ids - pipeline-shaped or not: that is the hypothesis of
   Props/C11.v C11_dedupe_unique_all (Tree/DedupeAll.v), which needs nothing else.
   m3 (keeps) holds in the state Inv0 only (C11_dedupe_keeps; outside it a URL can vanish with a
   detached subtree), so it stays restricted to pipeline-shaped sequences. *)
Fixpoint mon_dedupe_from (prev : item) (steps : list (op * obs)) : bool * bool :=
  match steps with
  | [] => (true, true)
  | (o, ob) :: r =>
    let '(u, k) := mon_dedupe_from (o_tree ob) r in
    match o with
    | ODedupe =>
      ((negb (nodupN (ids prev)) || nodupN (nonseed_urls (o_tree ob))) && u,
       subsetN (nonseed_urls prev) (nonseed_urls (o_tree ob))
       && subsetN (nonseed_urls (o_tree ob)) (nonseed_urls prev) && k)
    | _ => (u, k)
    end
  end.
Definition mon_dedupe_unique (c : tcase) : bool := fst (mon_dedupe_from dummy (t_steps c)).
Definition mon_dedupe_keeps (c : tcase) : bool := negb (t_pipe c) || snd (mon_dedupe_from dummy (t_steps c)).

(* m4: declared complete <-> no node awaits fetching or post-processing *)
Definition mon_complete (c : tcase) : bool :=
  negb (t_pipe c) ||
  forallb (fun '(o, ob) => match o with
                           | OComplete => Bool.eqb (o_ret ob =? 1) (no_pending (o_tree ob))
                           | _ => true end) (t_steps c).

Definition mons (l : list tcase) :=
  mon_idx [mon_links; mon_wf; mon_dedupe_unique; mon_dedupe_keeps; mon_complete] l.
