(* C11: DedupeItems leaves exactly one non-seed node per URL on EVERY tree with unique ids - not
   only in the state Inv0 in which preprocess calls it (ItemProofs.v dedupe_unique_lemma), and
   whatever the rule that picks the survivor.

   Why: the loop walks the non-seed nodes of the ORIGINAL tree in pre-order.  Invariant: every
   node that is still attached to the current tree and was already visited IS the map entry of
   its URL.  A visited node loses that place only when a later node beats it, and then it is
   detached (its parent in the current tree is the parent recorded in the entry, because the
   current tree only ever loses subtrees; ids being unique the removal hits exactly that node).
   Nodes inside a detached subtree are still visited and may be entered in the map; a later
   attached node with the same URL then either takes the entry over (removing the detached node
   from its detached parent = nothing happens in the attached tree) or is removed itself.  At the
   end every attached non-seed node was visited, so two of them with one URL are the same entry. *)
From Coq Require Import List NArith Bool Arith Lia.
From ZenoV Require Import Tree.Item Tree.ItemSpec Tree.ItemProofs.
Import ListNotations.
Local Open Scope nat_scope.

(* statements (same pattern as ItemSpec.v: the lemma below has exactly this type) *)
Definition dedupe_unique_all_stmt : Prop := forall t,
  NoDup (ids t) -> NoDup (nonseed_urls (dedupe t)).

Definition dedupe_with_unique_all_stmt : Prop := forall (rule : status -> status -> bool) t,
  NoDup (ids t) -> NoDup (nonseed_urls (dedupe_with rule t)).

(* ---- lists ---- *)
Lemma NoDup_map_coarser {A B C} (f : A -> B) (g : A -> C) (l : list A) :
  NoDup (map f l) -> (forall x y, In x l -> In y l -> g x = g y -> f x = f y) -> NoDup (map g l).
Proof.
  induction l as [|a l IH]; simpl; intros Hnd Hinj; [constructor|].
  inversion Hnd as [|z l' Ha Hl]; subst. constructor.
  - intros Hin. apply in_map_iff in Hin as (y & Hy & Hyl). apply Ha.
    rewrite <- (Hinj y a (or_intror Hyl) (or_introl eq_refl) Hy). apply in_map. exact Hyl.
  - apply IH; [exact Hl|]. intros x y Hx Hy. apply Hinj; right; assumption.
Qed.

(* ---- removing a child only ever loses entries (no hypothesis at all) ---- *)
Lemma inf_update_rmf pid cid t : inf (update pid (rmf cid) t) = inf t.
Proof. destruct t as [i cs]. rewrite update_node. destruct (N.eqb (nid i) pid); reflexivity. Qed.

Lemma fwp_head_update pid cid q c :
  flat_with_parent q (update pid (rmf cid) c)
  = (id_of c, url_of c, st_of c, q) :: sfwp (update pid (rmf cid) c).
Proof. rewrite fwp_unfold. unfold id_of, url_of, st_of. rewrite inf_update_rmf. reflexivity. Qed.

Lemma sfwp_remove_child_incl pid cid : forall t x,
  In x (sfwp (remove_child pid cid t)) -> In x (sfwp t).
Proof.
  intros t. rewrite remove_child_rmf. induction t as [i cs IH] using item_ind2. intros x Hx.
  rewrite Forall_forall in IH.
  assert (H1 : forall y, In y (sfwp (Node i (map (update pid (rmf cid)) cs))) -> In y (sfwp (Node i cs))).
  { intros y Hy. unfold sfwp in Hy |- *. simpl in Hy |- *.
    apply in_flat_map in Hy as (c' & Hc' & Hy).
    apply in_map_iff in Hc' as (c & <- & Hc). apply in_flat_map. exists c. split; [exact Hc|].
    rewrite fwp_head_update in Hy. rewrite fwp_unfold.
    destruct Hy as [Hy|Hy]; [left; exact Hy|right; exact (IH c Hc y Hy)]. }
  rewrite update_node in Hx. destruct (N.eqb (nid i) pid); [|exact (H1 x Hx)].
  apply H1. unfold rmf, sfwp in Hx |- *. simpl in Hx |- *.
  apply in_flat_map in Hx as (c & Hc & Hx).
  apply in_flat_map. exists c. split; [exact (remove_first_in cid _ c Hc)|exact Hx].
Qed.

(* ---- a pruned id is gone ---- *)
Lemma sfwp_prune_alive d : forall t e, In e (sfwp (prune d t)) -> d (e_id e) = false.
Proof.
  induction t as [i cs IH] using item_ind2. intros e He. rewrite Forall_forall in IH.
  rewrite prune_node in He. unfold sfwp in He. simpl in He.
  apply in_flat_map in He as (c' & Hc' & He). apply filter_In in Hc' as [Hc' Hd].
  apply in_map_iff in Hc' as (c & <- & Hc). rewrite fwp_unfold in He. destruct He as [<-|He].
  - unfold e_id. simpl. apply negb_true_iff. exact Hd.
  - exact (IH c Hc e He).
Qed.

(* removing an attached node through its recorded parent really removes it *)
Lemma remove_child_gone pid cid t x :
  NoDup (ids t) -> In x (sfwp t) -> e_id x = cid -> e_pid x = pid ->
  forall y, In y (sfwp (remove_child pid cid t)) -> e_id y <> cid.
Proof.
  intros Hnd Hx Hid Hpid y Hy E.
  rewrite remove_child_rmf, (remove_edge_prune pid cid t Hnd x Hx Hid Hpid) in Hy.
  apply sfwp_prune_alive in Hy. unfold is_id in Hy. rewrite E, N.eqb_refl in Hy. discriminate.
Qed.

(* ---- the loop, for every rule ---- *)
Definition triple (e : entry) : N * status * N := (e_id e, e_st e, e_pid e).

Lemma dedupe_loop_unique_all (rule : status -> status -> bool) : forall nodes done seen t,
  NoDup (ids t) ->
  (forall x, In x (sfwp t) -> In x (done ++ nodes)) ->
  (forall x, In x (sfwp t) -> In x done -> assoc (e_url x) seen = Some (triple x)) ->
  NoDup (map e_url (sfwp (dedupe_loop rule nodes seen t))).
Proof.
  induction nodes as [|e r IH]; intros done seen t Hnd Hall Hmap.
  - simpl. apply (NoDup_map_coarser e_id e_url); [exact (NoDup_sfwp_ids t Hnd)|].
    intros x y Hx Hy Hu.
    assert (Hdx : In x done) by (rewrite <- (app_nil_r done); exact (Hall x Hx)).
    assert (Hdy : In y done) by (rewrite <- (app_nil_r done); exact (Hall y Hy)).
    pose proof (Hmap x Hx Hdx) as Mx. pose proof (Hmap y Hy Hdy) as My.
    rewrite Hu, My in Mx. unfold triple in Mx. injection Mx as M1 _ _. symmetry. exact M1.
  - destruct e as [[[id url] st] pid]. simpl dedupe_loop.
    assert (Hall' : forall t', (forall x, In x (sfwp t') -> In x (sfwp t)) ->
                    forall x, In x (sfwp t') -> In x ((done ++ [(id, url, st, pid)]) ++ r)).
    { intros t' Hsub x Hx. rewrite <- app_assoc. simpl. apply Hall. apply Hsub. exact Hx. }
    destruct (assoc url seen) as [[[eid est] epid]|] eqn:A.
    + destruct (rule est st).
      * (* the earlier node is removed, the later one takes the entry *)
        apply (IH (done ++ [(id, url, st, pid)])).
        -- exact (proj1 (remove_child_ids_lemma epid eid t Hnd)).
        -- apply Hall'. apply sfwp_remove_child_incl.
        -- intros x Hx Hd. pose proof (sfwp_remove_child_incl epid eid t x Hx) as Hxt.
           simpl. destruct (N.eqb (e_url x) url) eqn:E.
           ++ apply in_app_or in Hd as [Hd|[<-|[]]]; [|reflexivity].
              exfalso. apply N.eqb_eq in E. pose proof (Hmap x Hxt Hd) as M. rewrite E, A in M.
              unfold triple in M. injection M as M1 M2 M3.
              exact (remove_child_gone epid eid t x Hnd Hxt (eq_sym M1) (eq_sym M3) x Hx (eq_sym M1)).
           ++ apply in_app_or in Hd as [Hd|[<-|[]]]; [exact (Hmap x Hxt Hd)|].
              unfold e_url in E. simpl in E. rewrite N.eqb_refl in E. discriminate.
      * (* the later node is removed *)
        apply (IH (done ++ [(id, url, st, pid)])).
        -- exact (proj1 (remove_child_ids_lemma pid id t Hnd)).
        -- apply Hall'. apply sfwp_remove_child_incl.
        -- intros x Hx Hd. pose proof (sfwp_remove_child_incl pid id t x Hx) as Hxt.
           apply in_app_or in Hd as [Hd|[<-|[]]]; [exact (Hmap x Hxt Hd)|].
           exfalso.
           exact (remove_child_gone pid id t (id, url, st, pid) Hnd Hxt eq_refl eq_refl _ Hx eq_refl).
    + (* first node with this URL *)
      apply (IH (done ++ [(id, url, st, pid)])).
      * exact Hnd.
      * apply Hall'. intros x Hx. exact Hx.
      * intros x Hx Hd. simpl. apply in_app_or in Hd as [Hd|[<-|[]]].
        -- pose proof (Hmap x Hx Hd) as M. destruct (N.eqb (e_url x) url) eqn:E; [|exact M].
           apply N.eqb_eq in E. rewrite E, A in M. discriminate.
        -- unfold e_url. simpl. rewrite N.eqb_refl. reflexivity.
Qed.

Lemma nonseed_urls_dedupe_with rule t :
  nonseed_urls (dedupe_with rule t) = map e_url (sfwp (dedupe_loop rule (sfwp t) [] t)).
Proof.
  unfold dedupe_with. rewrite nonseed_flat_sfwp, nonseed_urls_tl, mc_urls, <- nonseed_urls_tl.
  apply nonseed_urls_sfwp.
Qed.

Lemma dedupe_with_unique_all_lemma : dedupe_with_unique_all_stmt.
Proof.
  intros rule t Hnd. rewrite nonseed_urls_dedupe_with.
  apply (dedupe_loop_unique_all rule (sfwp t) [] [] t Hnd).
  - intros x Hx. exact Hx.
  - intros x _ [].
Qed.

Lemma dedupe_unique_all_lemma : dedupe_unique_all_stmt.
Proof. intros t Hnd. exact (dedupe_with_unique_all_lemma drop_existing t Hnd). Qed.
