(* Proofs of the statements of Tree/ItemSpec.v about the item tree model Tree/Item.v.
   Every [*_stmt] of ItemSpec.v is proved here as [*_lemma : *_stmt]. *)
From Coq Require Import List NArith Bool Arith Lia Permutation.
From ZenoV Require Import Tree.Item Tree.ItemSpec Tree.Witness.
Import ListNotations.
Local Open Scope nat_scope.

(* ================================================================================== *)
(* nested induction principle for the rose tree                                        *)
(* ================================================================================== *)
Section ItemInd.
  Variable P : item -> Prop.
  Hypothesis HNode : forall i cs, Forall P cs -> P (Node i cs).
  Fixpoint item_ind2 (t : item) : P t :=
    match t with
    | Node i cs =>
      HNode i cs ((fix go (l : list item) : Forall P l :=
                     match l with
                     | [] => Forall_nil P
                     | c :: r => Forall_cons c (item_ind2 c) (go r)
                     end) cs)
    end.
End ItemInd.

(* ================================================================================== *)
(* lists                                                                               *)
(* ================================================================================== *)
Lemma map_flat_map {A B C} (f : B -> C) (g : A -> list B) (l : list A) :
  map f (flat_map g l) = flat_map (fun x => map f (g x)) l.
Proof. induction l as [|a l IH]; simpl; [reflexivity|]. rewrite map_app, IH. reflexivity. Qed.

Lemma flat_map_map {A B C} (f : B -> list C) (g : A -> B) (l : list A) :
  flat_map f (map g l) = flat_map (fun x => f (g x)) l.
Proof. induction l as [|a l IH]; simpl; [reflexivity|]. rewrite IH. reflexivity. Qed.

Lemma flat_map_ext_in {A B} (f g : A -> list B) (l : list A) :
  (forall a, In a l -> f a = g a) -> flat_map f l = flat_map g l.
Proof.
  induction l as [|a l IH]; simpl; intros H; [reflexivity|].
  rewrite (H a) by (left; reflexivity). rewrite IH; [reflexivity|].
  intros b Hb. apply H. right. exact Hb.
Qed.

Lemma map_id_in {A} (f : A -> A) (l : list A) :
  (forall a, In a l -> f a = a) -> map f l = l.
Proof.
  induction l as [|a l IH]; simpl; intros H; [reflexivity|].
  rewrite (H a) by (left; reflexivity). rewrite IH; [reflexivity|].
  intros b Hb. apply H. right. exact Hb.
Qed.

Lemma filter_flat_map {A B} (p : B -> bool) (f : A -> list B) (l : list A) :
  filter p (flat_map f l) = flat_map (fun x => filter p (f x)) l.
Proof. induction l as [|a l IH]; simpl; [reflexivity|]. rewrite filter_app, IH. reflexivity. Qed.

Lemma forallb_flat_map {A B} (p : B -> bool) (f : A -> list B) (l : list A) :
  forallb p (flat_map f l) = forallb (fun x => forallb p (f x)) l.
Proof. induction l as [|a l IH]; simpl; [reflexivity|]. rewrite forallb_app, IH. reflexivity. Qed.

Lemma forallb_ext_in {A} (p q : A -> bool) (l : list A) :
  (forall a, In a l -> p a = q a) -> forallb p l = forallb q l.
Proof.
  induction l as [|a l IH]; simpl; intros H; [reflexivity|].
  rewrite (H a) by (left; reflexivity). rewrite IH; [reflexivity|].
  intros b Hb. apply H. right. exact Hb.
Qed.

Lemma forallb_map {A B} (p : B -> bool) (g : A -> B) (l : list A) :
  forallb p (map g l) = forallb (fun x => p (g x)) l.
Proof. induction l as [|a l IH]; simpl; [reflexivity|]. rewrite IH. reflexivity. Qed.

Lemma NoDup_app_inv {A} (a b : list A) :
  NoDup (a ++ b) -> NoDup a /\ NoDup b /\ (forall x, In x a -> ~ In x b).
Proof.
  induction a as [|x a IH]; simpl; intros H.
  - split; [constructor|]. split; [exact H|]. intros x [].
  - inversion H as [|y l Hx Hnd]; subst. destruct (IH Hnd) as (Ha & Hb & Hd).
    split; [constructor; [intros Hin; apply Hx; apply in_or_app; left; exact Hin|exact Ha]|].
    split; [exact Hb|]. intros z [Hz|Hz] Hzb.
    + subst z. apply Hx. apply in_or_app. right. exact Hzb.
    + exact (Hd z Hz Hzb).
Qed.

Lemma NoDup_flat_map_in {A B} (f : A -> list B) (l : list A) (a : A) :
  NoDup (flat_map f l) -> In a l -> NoDup (f a).
Proof.
  induction l as [|x l IH]; simpl; intros H Hin; [destruct Hin|].
  apply NoDup_app_inv in H as (Hx & Hl & _). destruct Hin as [->|Hin]; [exact Hx|exact (IH Hl Hin)].
Qed.

Lemma NoDup_map_inj {A B} (f : A -> B) (l : list A) (a b : A) :
  NoDup (map f l) -> In a l -> In b l -> f a = f b -> a = b.
Proof.
  induction l as [|x l IH]; simpl; intros H Ha Hb Hab; [destruct Ha|].
  inversion H as [|y l' Hx Hnd]; subst.
  destruct Ha as [->|Ha], Hb as [->|Hb].
  - reflexivity.
  - exfalso. apply Hx. rewrite Hab. apply in_map. exact Hb.
  - exfalso. apply Hx. rewrite <- Hab. apply in_map. exact Ha.
  - exact (IH Hnd Ha Hb Hab).
Qed.

Lemma NoDup_map_filter {A B} (f : A -> B) (p : A -> bool) (l : list A) :
  NoDup (map f l) -> NoDup (map f (filter p l)).
Proof.
  induction l as [|x l IH]; simpl; intros H; [constructor|].
  inversion H as [|y l' Hx Hnd]; subst.
  destruct (p x); simpl; [|exact (IH Hnd)].
  constructor; [|exact (IH Hnd)].
  intros Hin. apply Hx. apply in_map_iff in Hin as (z & Hz & Hzin).
  apply filter_In in Hzin as [Hzin _]. rewrite <- Hz. apply in_map. exact Hzin.
Qed.

(* ---- sublists (order-preserving) ---- *)
Inductive sublist {A} : list A -> list A -> Prop :=
| sl_nil : sublist [] []
| sl_skip x l1 l2 : sublist l1 l2 -> sublist l1 (x :: l2)
| sl_cons x l1 l2 : sublist l1 l2 -> sublist (x :: l1) (x :: l2).

Lemma sublist_refl {A} (l : list A) : sublist l l.
Proof. induction l; constructor; assumption. Qed.

Lemma sublist_nil_l {A} (l : list A) : sublist [] l.
Proof. induction l; constructor; assumption. Qed.

Lemma sublist_trans {A} (a b c : list A) : sublist a b -> sublist b c -> sublist a c.
Proof.
  intros Hab Hbc. revert a Hab. induction Hbc as [|x l1 l2 H IH|x l1 l2 H IH]; intros a Hab.
  - exact Hab.
  - apply sl_skip. apply IH. exact Hab.
  - inversion Hab as [|y a1 a2 Ha|y a1 a2 Ha]; subst.
    + apply sl_skip. apply IH. exact Ha.
    + apply sl_cons. apply IH. exact Ha.
Qed.

Lemma sublist_app {A} (a b c d : list A) : sublist a b -> sublist c d -> sublist (a ++ c) (b ++ d).
Proof. intros Hab Hcd. induction Hab; simpl; [exact Hcd| |]; constructor; assumption. Qed.

Lemma sublist_app_r {A} (a l : list A) : sublist l (a ++ l).
Proof. induction a; simpl; [apply sublist_refl|apply sl_skip; assumption]. Qed.

Lemma sublist_incl {A} (a b : list A) : sublist a b -> incl a b.
Proof.
  intros H. induction H as [|x l1 l2 H IH|x l1 l2 H IH]; intros z Hz.
  - exact Hz.
  - right. apply IH. exact Hz.
  - destruct Hz as [->|Hz]; [left; reflexivity|right; apply IH; exact Hz].
Qed.

Lemma sublist_NoDup {A} (a b : list A) : sublist a b -> NoDup b -> NoDup a.
Proof.
  intros H. induction H as [|x l1 l2 H IH|x l1 l2 H IH]; intros Hnd.
  - exact Hnd.
  - inversion Hnd; subst. apply IH. assumption.
  - inversion Hnd as [|y l Hx Hl]; subst. constructor; [|apply IH; exact Hl].
    intros Hin. apply Hx. exact (sublist_incl _ _ H x Hin).
Qed.

Lemma sublist_flat_map {A B} (f g : A -> list B) (l : list A) :
  Forall (fun c => sublist (f c) (g c)) l -> sublist (flat_map f l) (flat_map g l).
Proof.
  induction 1 as [|c l Hc Hl IH]; simpl; [constructor|]. apply sublist_app; assumption.
Qed.

Lemma sublist_filter {A} (p : A -> bool) (l : list A) : sublist (filter p l) l.
Proof. induction l as [|x l IH]; simpl; [constructor|]. destruct (p x); constructor; exact IH. Qed.

Lemma sublist_map {A B} (f : A -> B) (a b : list A) : sublist a b -> sublist (map f a) (map f b).
Proof. induction 1; simpl; constructor; assumption. Qed.

(* ================================================================================== *)
(* flattening, ids                                                                     *)
(* ================================================================================== *)
Definition urls (t : item) : list N := map url_of (flatten t).

Lemma ids_node i cs : ids (Node i cs) = nid i :: flat_map ids cs.
Proof. unfold ids. simpl. f_equal. apply map_flat_map. Qed.

Lemma urls_node i cs : urls (Node i cs) = nurl i :: flat_map urls cs.
Proof. unfold urls. simpl. f_equal. apply map_flat_map. Qed.

Lemma flatten_self t : In t (flatten t).
Proof. destruct t. simpl. left. reflexivity. Qed.

Lemma flatten_child i cs c n : In c cs -> In n (flatten c) -> In n (flatten (Node i cs)).
Proof. intros Hc Hn. simpl. right. apply in_flat_map. exists c. split; assumption. Qed.

Lemma id_of_in_ids t : In (id_of t) (ids t).
Proof. unfold ids. apply in_map. apply flatten_self. Qed.

Lemma in_ids_child (cs : list item) c x : In c cs -> In x (ids c) -> In x (flat_map ids cs).
Proof. intros Hc Hx. apply in_flat_map. exists c. split; assumption. Qed.

Lemma NoDup_ids_node i cs :
  NoDup (ids (Node i cs)) -> ~ In (nid i) (flat_map ids cs) /\ NoDup (flat_map ids cs).
Proof. rewrite ids_node. intros H. inversion H; subst. split; assumption. Qed.

Lemma unique_node t n m :
  NoDup (ids t) -> In n (flatten t) -> In m (flatten t) -> id_of n = id_of m -> n = m.
Proof. unfold ids. apply NoDup_map_inj. Qed.

(* ---- update ---- *)
Lemma update_notin id f : forall t, ~ In id (ids t) -> update id f t = t.
Proof.
  induction t as [i cs IH] using item_ind2. rewrite ids_node. intros Hn. simpl.
  assert (Hi : N.eqb (nid i) id = false).
  { apply N.eqb_neq. intros E. apply Hn. left. exact E. }
  rewrite Hi. f_equal. apply map_id_in. intros c Hc.
  rewrite Forall_forall in IH. apply IH; [exact Hc|].
  intros Hin. apply Hn. right. exact (in_ids_child cs c id Hc Hin).
Qed.

Lemma update_forest_notin id f cs : ~ In id (flat_map ids cs) -> map (update id f) cs = cs.
Proof.
  intros Hn. apply map_id_in. intros c Hc. apply update_notin.
  intros Hin. apply Hn. exact (in_ids_child cs c id Hc Hin).
Qed.

Lemma update_node id f i cs :
  update id f (Node i cs) =
  if N.eqb (nid i) id then f (Node i (map (update id f) cs)) else Node i (map (update id f) cs).
Proof. reflexivity. Qed.

Lemma id_of_update id f t : (forall n, id_of (f n) = id_of n) -> id_of (update id f t) = id_of t.
Proof. intros Hf. destruct t as [i cs]. rewrite update_node. destruct (N.eqb (nid i) id); [rewrite Hf|]; reflexivity. Qed.

Lemma st_of_update id f t : (forall n, st_of (f n) = st_of n) -> st_of (update id f t) = st_of t.
Proof. intros Hf. destruct t as [i cs]. rewrite update_node. destruct (N.eqb (nid i) id); [rewrite Hf|]; reflexivity. Qed.

(* an update by a function that only shrinks the id list shrinks the id list *)
Lemma ids_update_sub id f :
  (forall n, sublist (ids (f n)) (ids n)) -> forall t, sublist (ids (update id f t)) (ids t).
Proof.
  intros Hf. induction t as [i cs IH] using item_ind2. rewrite update_node.
  assert (H : sublist (ids (Node i (map (update id f) cs))) (ids (Node i cs))).
  { rewrite !ids_node. apply sl_cons. rewrite flat_map_map. apply sublist_flat_map. exact IH. }
  destruct (N.eqb (nid i) id); [|exact H].
  eapply sublist_trans; [apply Hf|exact H].
Qed.

Lemma remove_first_in cid cs x : In x (remove_first cid cs) -> In x cs.
Proof.
  induction cs as [|c r IH]; simpl; [tauto|]. destruct (N.eqb (id_of c) cid); intros H.
  - right. exact H.
  - destruct H as [H|H]; [left; exact H|right; exact (IH H)].
Qed.

Lemma remove_first_length cid cs : length (remove_first cid cs) <= length cs.
Proof. induction cs as [|c r IH]; simpl; [lia|]. destruct (N.eqb (id_of c) cid); simpl; lia. Qed.

Lemma remove_first_ids_sub cid cs : sublist (flat_map ids (remove_first cid cs)) (flat_map ids cs).
Proof.
  induction cs as [|c r IH]; simpl; [constructor|]. destruct (N.eqb (id_of c) cid); simpl.
  - apply sublist_app_r.
  - apply sublist_app; [apply sublist_refl|exact IH].
Qed.

Lemma remove_child_ids_sub pid cid t : sublist (ids (remove_child pid cid t)) (ids t).
Proof.
  unfold remove_child. apply ids_update_sub. intros [i cs]. rewrite !ids_node.
  apply sl_cons. apply remove_first_ids_sub.
Qed.

Lemma remove_child_id_of pid cid t : id_of (remove_child pid cid t) = id_of t.
Proof. unfold remove_child. apply id_of_update. intros [i cs]. reflexivity. Qed.

Lemma remove_child_ids_lemma : remove_child_ids_stmt.
Proof.
  intros pid cid t Hnd. split.
  - exact (sublist_NoDup _ _ (remove_child_ids_sub pid cid t) Hnd).
  - exact (sublist_incl _ _ (remove_child_ids_sub pid cid t)).
Qed.

(* ---- adding a leaf ---- *)
Lemma ids_update_add pid cid f :
  (forall n, id_of n = pid -> ids (f n) = ids n ++ [cid]) ->
  forall t, NoDup (ids t) -> In pid (ids t) -> Permutation (ids (update pid f t)) (cid :: ids t).
Proof.
  intros Hf. induction t as [i cs IH] using item_ind2. intros Hnd Hin.
  destruct (NoDup_ids_node i cs Hnd) as [Hi Hcs]. rewrite update_node.
  destruct (N.eqb (nid i) pid) eqn:E.
  - apply N.eqb_eq in E. rewrite update_forest_notin by (rewrite <- E; exact Hi).
    rewrite Hf by exact E. apply Permutation_sym. apply Permutation_cons_append.
  - apply N.eqb_neq in E. rewrite ids_node in Hin. destruct Hin as [Hin|Hin]; [contradiction|].
    rewrite !ids_node.
    apply perm_trans with (nid i :: cid :: flat_map ids cs); [|apply perm_swap].
    apply perm_skip. clear Hnd Hi. rewrite flat_map_map.
    induction cs as [|c r IHr]; simpl in *; [destruct Hin|].
    apply NoDup_app_inv in Hcs as (Hc & Hr & Hd). inversion IH as [|c' r' IHc IHr']; subst.
    apply in_app_or in Hin as [Hin|Hin].
    + rewrite (flat_map_ext_in (fun x => ids (update pid f x)) ids r).
      * change (cid :: ids c ++ flat_map ids r) with ((cid :: ids c) ++ flat_map ids r).
        apply Permutation_app_tail. exact (IHc Hc Hin).
      * intros a Ha. rewrite update_notin; [reflexivity|].
        intros Hpa. apply (Hd pid Hin). exact (in_ids_child r a pid Ha Hpa).
    + rewrite (update_notin pid f c) by (intros Hpc; exact (Hd pid Hpc Hin)).
      apply perm_trans with (ids c ++ cid :: flat_map ids r).
      * apply Permutation_app_head. exact (IHr IHr' Hin Hr).
      * apply Permutation_sym. apply Permutation_middle.
Qed.

Lemma add_child_ids_lemma : add_child_ids_stmt.
Proof.
  intros pid c from t t' Hnd Hfresh Hleaf Hadd. unfold add_child in Hadd.
  destruct (is_got from); [|discriminate]. injection Hadd as <-.
  set (f := fun n : item => match n with Node i cs =>
          Node (set_st from i) (cs ++ [match c with Node ci ccs => Node (set_st Fresh ci) ccs end]) end).
  destruct (in_dec N.eq_dec pid (ids t)) as [Hin|Hnin].
  - assert (HP : Permutation (ids (update pid f t)) (id_of c :: ids t)).
    { apply ids_update_add; [|exact Hnd|exact Hin].
      intros [i cs] _. unfold f. rewrite !ids_node. simpl. f_equal.
      rewrite flat_map_app. simpl. destruct c as [ci ccs]. simpl in Hleaf. subst ccs.
      rewrite ids_node. simpl. reflexivity. }
    split.
    + apply (Permutation_NoDup (Permutation_sym HP)). constructor; assumption.
    + intros x Hx. exact (Permutation_in x HP Hx).
  - rewrite update_notin by exact Hnin. split; [exact Hnd|]. intros x Hx. right. exact Hx.
Qed.

(* ================================================================================== *)
(* CheckConsistency                                                                    *)
(* ================================================================================== *)
Lemma first_nonzero_zero l : first_nonzero l = 0 <-> Forall (fun k => k = 0) l.
Proof.
  induction l as [|k l IH]; simpl.
  - split; [constructor|reflexivity].
  - destruct k.
    + rewrite IH. split; [intros H; constructor; [reflexivity|exact H]|intros H; inversion H; assumption].
    + split; [discriminate|intros H; inversion H; assumption].
Qed.

Lemma check_unfold p i cs :
  check p (Node i cs) =
  match check_node p (Node i cs) with
  | 0 => first_nonzero (map (check (Some (nst i))) cs)
  | k => k
  end.
Proof. reflexivity. Qed.

Lemma check_zero p i cs :
  check p (Node i cs) = 0 <->
  check_node p (Node i cs) = 0 /\ Forall (fun c => check (Some (nst i)) c = 0) cs.
Proof.
  rewrite check_unfold. destruct (check_node p (Node i cs)) eqn:E.
  - rewrite first_nonzero_zero, Forall_map. tauto.
  - split; [discriminate|intros [H _]; discriminate].
Qed.

Lemma check_node_shape p i cs cs' :
  length cs = length cs' -> check_node p (Node i cs) = check_node p (Node i cs').
Proof.
  intros H. unfold check_node. rewrite H.
  destruct cs, cs'; try discriminate; reflexivity.
Qed.

Lemma check_node_shrink p i cs cs' :
  length cs' <= length cs -> check_node p (Node i cs) = 0 -> check_node p (Node i cs') = 0.
Proof.
  intros Hl. unfold check_node.
  destruct cs as [|a [|b cs]], cs' as [|a' [|b' cs']]; simpl in Hl; try lia;
    destruct p, (nvia i), (nst i); simpl; auto; discriminate.
Qed.

(* the status of the parent matters only to Fresh children *)
Lemma check_parent_irrel ps ps' c :
  st_of c <> Fresh -> check (Some ps) c = check (Some ps') c.
Proof.
  destruct c as [i cs]. unfold st_of. simpl inf. intros Hs. rewrite !check_unfold.
  assert (E : check_node (Some ps) (Node i cs) = check_node (Some ps') (Node i cs)).
  { unfold check_node. destruct (nst i); try contradiction; reflexivity. }
  rewrite E. reflexivity.
Qed.

(* a consistent Fresh / PreProcessed / Archived / Seen node is a leaf (rules 4 and 7) *)
Lemma check_leaf p n :
  check p n = 0 -> is_got (st_of n) || status_eqb (st_of n) Completed || status_eqb (st_of n) Failed = false ->
  kids n = [].
Proof.
  destruct n as [i cs]. unfold st_of. simpl inf. simpl kids. intros H Hs.
  apply check_zero in H as [H _]. destruct cs as [|c cs]; [reflexivity|]. exfalso.
  unfold check_node in H. destruct p, (nvia i), (nst i); simpl in *; try discriminate;
    destruct cs; simpl in *; discriminate.
Qed.

(* an update by a function that keeps the status and local consistency *)
Lemma check_update_same id f :
  (forall p n, check p n = 0 -> check p (f n) = 0) ->
  (forall n, st_of (f n) = st_of n) ->
  forall t p, check p t = 0 -> check p (update id f t) = 0.
Proof.
  intros Hf Hst. induction t as [i cs IH] using item_ind2. intros p H.
  apply check_zero in H as [Hn Hc]. rewrite update_node.
  assert (H' : check p (Node i (map (update id f) cs)) = 0).
  { apply check_zero. split.
    - rewrite (check_node_shape p i _ cs) by apply map_length. exact Hn.
    - rewrite Forall_map. rewrite Forall_forall in *. intros c Hin. apply IH; [exact Hin|]. apply Hc. exact Hin. }
  destruct (N.eqb (nid i) id); [apply Hf|]; exact H'.
Qed.

Lemma remove_child_consistent_gen p pid cid t :
  check p t = 0 -> check p (remove_child pid cid t) = 0.
Proof.
  unfold remove_child. apply check_update_same.
  - intros q [i cs] H. apply check_zero in H as [Hn Hc]. apply check_zero. split.
    + apply (check_node_shrink q i cs); [apply remove_first_length|exact Hn].
    + rewrite Forall_forall in *. intros c Hin. apply Hc. exact (remove_first_in cid cs c Hin).
  - intros [i cs]. reflexivity.
Qed.

Lemma remove_child_consistent_lemma : remove_child_consistent_stmt.
Proof. intros pid cid t. apply remove_child_consistent_gen. Qed.

(* an update of the one node that carries the id (ids unique) *)
Lemma check_update_nodup id f :
  forall t, NoDup (ids t) ->
  (forall n q, In n (flatten t) -> id_of n = id -> check q n = 0 -> check q (f n) = 0) ->
  forall p, check p t = 0 -> check p (update id f t) = 0.
Proof.
  induction t as [i cs IH] using item_ind2. intros Hnd Hf p H.
  destruct (NoDup_ids_node i cs Hnd) as [Hi Hcs]. rewrite update_node.
  destruct (N.eqb (nid i) id) eqn:E.
  - apply N.eqb_eq in E. rewrite update_forest_notin by (rewrite <- E; exact Hi).
    apply Hf; [apply flatten_self|exact E|exact H].
  - apply check_zero in H as [Hn Hc]. apply check_zero. split.
    + rewrite (check_node_shape p i _ cs) by apply map_length. exact Hn.
    + rewrite Forall_map. rewrite Forall_forall in *. intros c Hin. apply IH.
      * exact Hin.
      * exact (NoDup_flat_map_in ids cs c Hcs Hin).
      * intros n q Hnc. apply Hf. exact (flatten_child i cs c n Hin Hnc).
      * apply Hc. exact Hin.
Qed.

Lemma add_child_consistent_lemma : add_child_consistent_stmt.
Proof.
  intros pid c from t t' p Hnd Hc Hp Hpid Hst Hleaf Hvia Hadd. unfold add_child in Hadd.
  destruct (is_got from) eqn:Hfrom; [|discriminate]. injection Hadd as <-.
  unfold check_consistency in *. apply check_update_nodup; [exact Hnd| |exact Hc].
  intros n q Hn Hnid Hq.
  assert (n = p) by (apply (unique_node t); [exact Hnd|exact Hn|exact Hp|congruence]). subst n.
  destruct p as [i cs], c as [ci ccs]. unfold st_of in Hst. simpl in Hst, Hleaf, Hvia. subst ccs.
  apply check_zero in Hq as [Hqn Hqc]. apply check_zero. split.
  - unfold check_node in *. rewrite app_length. simpl length.
    destruct Hst as [[Hs Hk]|[Hs Hf]].
    + subst cs. simpl. destruct q, (nvia i), from; simpl in *; try discriminate; reflexivity.
    + subst from. simpl.
      assert (Hne : match cs ++ [Node (set_st Fresh ci) []] with [] => false | _ :: _ => true end = true)
        by (destruct cs; reflexivity).
      rewrite Hne, andb_false_r. destruct q, (nvia i); simpl in *; try discriminate; reflexivity.
  - apply Forall_app. split.
    + destruct Hst as [[Hs Hk]|[Hs Hf]]; [subst cs; constructor|].
      subst from. simpl. rewrite Hs in Hqc. exact Hqc.
    + constructor; [|constructor]. rewrite check_unfold. unfold check_node. simpl.
      rewrite Hvia. destruct from; simpl in *; try discriminate; reflexivity.
Qed.

(* ================================================================================== *)
(* markCompleted, CompleteAndCheck                                                     *)
(* ================================================================================== *)
Lemma mc_node i cs :
  mark_completed (Node i cs) =
  if forallb (fun c => negb (has_work c)) (map mark_completed cs) && is_got (nst i)
  then Node (set_st Completed i) (map mark_completed cs)
  else Node i (map mark_completed cs).
Proof. reflexivity. Qed.

Lemma no_pending_node i cs :
  no_pending (Node i cs) = negb (pending_st (nst i)) && forallb no_pending cs.
Proof. unfold no_pending. simpl. rewrite forallb_flat_map. reflexivity. Qed.

Lemma mc_ids t : ids (mark_completed t) = ids t.
Proof.
  induction t as [i cs IH] using item_ind2. rewrite mc_node.
  assert (E : flat_map ids (map mark_completed cs) = flat_map ids cs).
  { rewrite flat_map_map. apply flat_map_ext_in. rewrite Forall_forall in IH. exact IH. }
  destruct (_ && _); rewrite !ids_node, E; reflexivity.
Qed.

Lemma mc_urls t : urls (mark_completed t) = urls t.
Proof.
  induction t as [i cs IH] using item_ind2. rewrite mc_node.
  assert (E : flat_map urls (map mark_completed cs) = flat_map urls cs).
  { rewrite flat_map_map. apply flat_map_ext_in. rewrite Forall_forall in IH. exact IH. }
  destruct (_ && _); rewrite !urls_node, E; reflexivity.
Qed.

Lemma mc_no_pending t : no_pending (mark_completed t) = no_pending t.
Proof.
  induction t as [i cs IH] using item_ind2. rewrite mc_node.
  assert (E : forallb no_pending (map mark_completed cs) = forallb no_pending cs).
  { rewrite forallb_map. apply forallb_ext_in. rewrite Forall_forall in IH. exact IH. }
  destruct (forallb _ _ && is_got (nst i)) eqn:C; rewrite !no_pending_node, E; [|reflexivity].
  apply andb_prop in C as [_ C]. destruct (nst i); try discriminate; reflexivity.
Qed.

Lemma mc_id_of t : id_of (mark_completed t) = id_of t.
Proof. destruct t as [i cs]. rewrite mc_node. destruct (_ && _); reflexivity. Qed.

Lemma mark_completed_shape_lemma : mark_completed_shape_stmt.
Proof. intros t. split; [apply mc_ids|]. split; [apply mc_urls|apply mc_no_pending]. Qed.

(* marking turns Got* into Completed and nothing else *)
Lemma mc_fresh t : status_eqb (st_of (mark_completed t)) Fresh = status_eqb (st_of t) Fresh.
Proof.
  destruct t as [i cs]. rewrite mc_node. destruct (forallb _ _ && is_got (nst i)) eqn:C; [|reflexivity].
  apply andb_prop in C as [_ C]. unfold st_of. simpl. destruct (nst i); try discriminate; reflexivity.
Qed.

Lemma mark_completed_consistent_gen : forall t p, check p t = 0 -> check p (mark_completed t) = 0.
Proof.
  induction t as [i cs IH] using item_ind2. intros p H. apply check_zero in H as [Hn Hc].
  assert (Hc' : Forall (fun c => check (Some (nst i)) c = 0) (map mark_completed cs)).
  { rewrite Forall_map. rewrite Forall_forall in *. intros c Hin. apply IH; [exact Hin|]. apply Hc. exact Hin. }
  rewrite mc_node. destruct (forallb _ _ && is_got (nst i)) eqn:C.
  - apply andb_prop in C as [Cw Cg]. apply check_zero. split.
    + rewrite (check_node_shape p _ _ cs) by apply map_length.
      unfold check_node in *. simpl.
      destruct p, (nvia i), (nst i); simpl in *; try discriminate; try reflexivity;
        destruct cs as [|a [|b cs]]; simpl in *; try discriminate; reflexivity.
    + simpl. rewrite Forall_forall in *. intros c Hin.
      rewrite (check_parent_irrel Completed (nst i)); [apply Hc'; exact Hin|].
      rewrite forallb_forall in Cw. specialize (Cw c Hin). unfold has_work in Cw.
      intros Hs. rewrite Hs in Cw. discriminate.
  - apply check_zero. split; [|exact Hc'].
    rewrite (check_node_shape p _ _ cs) by apply map_length. exact Hn.
Qed.

Lemma mark_completed_consistent_lemma : mark_completed_consistent_stmt.
Proof. intros t. apply mark_completed_consistent_gen. Qed.

(* on a closed tree, marking completes a node exactly when nothing below it is pending *)
Lemma mc_has_work : forall t, closed t = true -> has_work (mark_completed t) = negb (no_pending t).
Proof.
  induction t as [i cs IH] using item_ind2. intros Hcl. simpl in Hcl.
  apply andb_prop in Hcl as [Hcl1 Hcl2].
  assert (E : forallb (fun c => negb (has_work c)) (map mark_completed cs) = forallb no_pending cs).
  { rewrite forallb_map. apply forallb_ext_in. intros c Hin.
    rewrite Forall_forall in IH. rewrite forallb_forall in Hcl2.
    rewrite (IH c Hin (Hcl2 c Hin)). apply negb_involutive. }
  rewrite mc_node, E, no_pending_node. unfold has_work, st_of.
  revert Hcl1. destruct (forallb no_pending cs); destruct (nst i) eqn:S; simpl; rewrite ?S; simpl;
    intros Hcl1; try reflexivity; discriminate.
Qed.

Lemma complete_iff_lemma : complete_iff_stmt.
Proof.
  intros t Hcl. unfold complete_and_check. destruct (has_work t) eqn:Hw; simpl.
  - split; [|apply mc_no_pending]. rewrite (mc_has_work t Hcl). apply negb_involutive.
  - split; [|reflexivity]. destruct t as [i cs]. simpl in Hcl.
    apply andb_prop in Hcl as [Hcl1 _]. rewrite no_pending_node.
    unfold has_work, st_of in Hw. simpl in Hw.
    destruct (nst i); simpl in *; try discriminate; rewrite Hcl1; reflexivity.
Qed.

(* ================================================================================== *)
(* the flat list with parents, pruning                                                 *)
(* ================================================================================== *)
Notation entry := (N * N * status * N)%type (only parsing).
Definition e_id (e : entry) : N := fst (fst (fst e)).
Definition e_url (e : entry) : N := snd (fst (fst e)).
Definition e_st (e : entry) : status := snd (fst e).
Definition e_pid (e : entry) : N := snd e.

(* entries of the strict descendants *)
Definition sfwp (t : item) : list entry := flat_map (flat_with_parent (id_of t)) (kids t).

Lemma nonseed_flat_sfwp t : nonseed_flat t = sfwp t.
Proof. destruct t; reflexivity. Qed.

Lemma fwp_unfold p t :
  flat_with_parent p t = (id_of t, url_of t, st_of t, p) :: sfwp t.
Proof. destruct t as [i cs]; reflexivity. Qed.

Definition tr_n (n : item) : N * N * status := (id_of n, url_of n, st_of n).
Definition tr_e (e : entry) : N * N * status := (e_id e, e_url e, e_st e).

Lemma fwp_tr : forall t p, map tr_e (flat_with_parent p t) = map tr_n (flatten t).
Proof.
  induction t as [i cs IH] using item_ind2. intros p. simpl. f_equal.
  rewrite !map_flat_map. apply flat_map_ext_in. rewrite Forall_forall in IH. intros c Hc. apply IH. exact Hc.
Qed.

Lemma sfwp_tr t : map tr_e (sfwp t) = map tr_n (nonseed_nodes t).
Proof.
  destruct t as [i cs]. unfold sfwp, nonseed_nodes. simpl. rewrite !map_flat_map.
  apply flat_map_ext_in. intros c _. apply fwp_tr.
Qed.

Lemma map_tr_proj {A B} (h1 : A -> N * N * status) (h2 : B -> N * N * status) {C} (g : N * N * status -> C) l1 l2 :
  map h1 l1 = map h2 l2 -> map (fun x => g (h1 x)) l1 = map (fun x => g (h2 x)) l2.
Proof. intros H. rewrite <- (map_map h1 g), <- (map_map h2 g), H. reflexivity. Qed.

Lemma map_tr_filter {A B} (h1 : A -> N * N * status) (h2 : B -> N * N * status) {C}
      (g : N * N * status -> C) (p : N * N * status -> bool) :
  forall l1 l2, map h1 l1 = map h2 l2 ->
  map (fun x => g (h1 x)) (filter (fun x => p (h1 x)) l1) = map (fun x => g (h2 x)) (filter (fun x => p (h2 x)) l2).
Proof.
  induction l1 as [|a l1 IH]; intros [|b l2] H; simpl in *; try discriminate; [reflexivity|].
  injection H as Hab Hl. rewrite Hab. destruct (p (h2 b)); simpl; [rewrite Hab; f_equal|]; apply IH; exact Hl.
Qed.

Lemma fwp_ids p t : map e_id (flat_with_parent p t) = ids t.
Proof. unfold ids. exact (map_tr_proj tr_e tr_n (fun x => fst (fst x)) _ _ (fwp_tr t p)). Qed.

Lemma fwp_forest_ids q cs : map e_id (flat_map (flat_with_parent q) cs) = flat_map ids cs.
Proof. rewrite map_flat_map. apply flat_map_ext_in. intros c _. apply fwp_ids. Qed.

Lemma sfwp_ids t : map e_id (sfwp t) = flat_map ids (kids t).
Proof. apply fwp_forest_ids. Qed.

Lemma ids_sfwp t : ids t = id_of t :: map e_id (sfwp t).
Proof. destruct t as [i cs]. rewrite ids_node, sfwp_ids. reflexivity. Qed.

Lemma nonseed_urls_sfwp t : nonseed_urls t = map e_url (sfwp t).
Proof.
  destruct t as [i cs]. unfold nonseed_urls.
  exact (eq_sym (map_tr_proj tr_e tr_n (fun x => snd (fst x)) _ _ (sfwp_tr (Node i cs)))).
Qed.

Definition nf (e : entry) : bool := negb (status_eqb (e_st e) Fresh).

Lemma worked_urls_sfwp t : worked_urls t = map e_url (filter nf (sfwp t)).
Proof.
  unfold worked_urls.
  exact (eq_sym (map_tr_filter tr_e tr_n (fun x => snd (fst x)) (fun x => negb (status_eqb (snd x) Fresh)) _ _ (sfwp_tr t))).
Qed.

Lemma nonseed_nodes_flatten t n : In n (nonseed_nodes t) -> In n (flatten t).
Proof. destruct t as [i cs]. intros H. simpl. right. exact H. Qed.

(* an entry stands for a node *)
Lemma sfwp_node t e : In e (sfwp t) ->
  exists n, In n (nonseed_nodes t) /\ id_of n = e_id e /\ url_of n = e_url e /\ st_of n = e_st e.
Proof.
  intros H. apply (in_map tr_e) in H. rewrite sfwp_tr in H. apply in_map_iff in H as (n & Hn & Hin).
  exists n. split; [exact Hin|]. unfold tr_n, tr_e in Hn. injection Hn as H1 H2 H3. auto.
Qed.

Lemma node_sfwp t n : In n (nonseed_nodes t) ->
  exists e, In e (sfwp t) /\ id_of n = e_id e /\ url_of n = e_url e /\ st_of n = e_st e.
Proof.
  intros H. apply (in_map tr_n) in H. rewrite <- sfwp_tr in H. apply in_map_iff in H as (e & He & Hin).
  exists e. split; [exact Hin|]. unfold tr_n, tr_e in He. injection He as H1 H2 H3. auto.
Qed.

(* the parent of an entry is a node of the tree *)
Lemma sfwp_pid_in : forall t e, In e (sfwp t) -> In (e_pid e) (ids t).
Proof.
  induction t as [i cs IH] using item_ind2. intros e H. unfold sfwp in H. simpl in H.
  apply in_flat_map in H as (c & Hc & He). rewrite fwp_unfold in He. rewrite ids_node.
  destruct He as [<-|He]; [left; reflexivity|]. right.
  rewrite Forall_forall in IH. exact (in_ids_child cs c _ Hc (IH c Hc e He)).
Qed.

(* ---- prune ---- *)
Lemma prune_node d i cs :
  prune d (Node i cs) = Node i (filter (fun c => negb (d (id_of c))) (map (prune d) cs)).
Proof. reflexivity. Qed.

Lemma id_of_prune d t : id_of (prune d t) = id_of t.
Proof. destruct t; reflexivity. Qed.

Lemma filter_map_prune d g cs :
  (forall c, id_of (g c) = id_of c) ->
  filter (fun c => negb (d (id_of c))) (map g cs) = map g (filter (fun c => negb (d (id_of c))) cs).
Proof.
  intros Hg. induction cs as [|c r IH]; simpl; [reflexivity|]. rewrite Hg.
  destruct (negb (d (id_of c))); simpl; rewrite IH; reflexivity.
Qed.

Lemma prune_notin d : forall t, (forall x, In x (ids t) -> d x = false) -> prune d t = t.
Proof.
  induction t as [i cs IH] using item_ind2. intros H. rewrite prune_node. f_equal.
  rewrite ids_node in H. rewrite Forall_forall in IH.
  rewrite map_id_in.
  - induction cs as [|c r IHr]; simpl; [reflexivity|].
    rewrite (H (id_of c)); simpl.
    + f_equal. apply IHr; intros; [apply IH|apply H]; simpl in *; try tauto.
      destruct H0 as [H0|H0]; [left; exact H0|right; apply in_or_app; right; exact H0].
    + right. simpl. apply in_or_app. left. apply id_of_in_ids.
  - intros c Hc. apply IH; [exact Hc|]. intros x Hx. apply H. right. exact (in_ids_child cs c x Hc Hx).
Qed.

Lemma prune_forest_notin d cs :
  (forall x, In x (flat_map ids cs) -> d x = false) ->
  filter (fun c => negb (d (id_of c))) (map (prune d) cs) = cs.
Proof.
  intros H. induction cs as [|c r IH]; simpl; [reflexivity|].
  rewrite id_of_prune, (H (id_of c)) by (simpl; apply in_or_app; left; apply id_of_in_ids). simpl.
  rewrite prune_notin by (intros x Hx; apply H; simpl; apply in_or_app; left; exact Hx).
  f_equal. apply IH. intros x Hx. apply H. simpl. apply in_or_app. right. exact Hx.
Qed.

Lemma prune_prune d1 d2 : forall t, prune d1 (prune d2 t) = prune (fun x => d1 x || d2 x) t.
Proof.
  induction t as [i cs IH] using item_ind2. rewrite !prune_node. f_equal.
  rewrite (filter_map_prune d2) by (intros; apply id_of_prune).
  rewrite map_map.
  rewrite (filter_map_prune d1) by (intros; rewrite !id_of_prune; reflexivity).
  rewrite (filter_map_prune (fun x => d1 x || d2 x)) by (intros; apply id_of_prune).
  rewrite Forall_forall in IH.
  induction cs as [|c r IHr]; simpl; [reflexivity|].
  destruct (d2 (id_of c)) eqn:E2; simpl.
  - rewrite orb_true_r. simpl. apply IHr. intros x Hx. apply IH. right. exact Hx.
  - rewrite orb_false_r. destruct (d1 (id_of c)); simpl.
    + apply IHr. intros x Hx. apply IH. right. exact Hx.
    + f_equal; [apply IH; left; reflexivity|]. apply IHr. intros x Hx. apply IH. right. exact Hx.
Qed.

(* ---- removing a child = pruning its id (ids unique, the pair is an edge of the tree) ---- *)
Definition rmf (cid : N) (n : item) : item := match n with Node i cs => Node i (remove_first cid cs) end.
Definition is_id (cid x : N) : bool := N.eqb x cid.

Lemma remove_child_rmf pid cid t : remove_child pid cid t = update pid (rmf cid) t.
Proof. reflexivity. Qed.

Lemma remove_first_prune cid : forall cs,
  NoDup (flat_map ids cs) -> In cid (map id_of cs) ->
  remove_first cid cs = filter (fun c => negb (is_id cid (id_of c))) (map (prune (is_id cid)) cs).
Proof.
  induction cs as [|c r IH]; simpl; intros Hnd Hin; [destruct Hin|].
  apply NoDup_app_inv in Hnd as (Hc & Hr & Hd). rewrite id_of_prune. unfold is_id at 1.
  destruct (N.eqb (id_of c) cid) eqn:E; simpl.
  - apply N.eqb_eq in E. symmetry. apply prune_forest_notin. intros x Hx. unfold is_id.
    apply N.eqb_neq. intros ->. apply (Hd cid); [rewrite <- E; apply id_of_in_ids|exact Hx].
  - apply N.eqb_neq in E. destruct Hin as [Hin|Hin]; [contradiction|].
    assert (Hcr : In cid (flat_map ids r)).
    { apply in_map_iff in Hin as (c0 & <- & Hc0). exact (in_ids_child r c0 _ Hc0 (id_of_in_ids c0)). }
    rewrite prune_notin.
    + f_equal. exact (IH Hr Hin).
    + intros x Hx. unfold is_id. apply N.eqb_neq. intros ->. exact (Hd cid Hx Hcr).
Qed.

Lemma remove_edge_prune pid cid : forall t,
  NoDup (ids t) -> forall e, In e (sfwp t) -> e_id e = cid -> e_pid e = pid ->
  update pid (rmf cid) t = prune (is_id cid) t.
Proof.
  induction t as [i cs IH] using item_ind2. intros Hnd e He Hid Hpid.
  destruct (NoDup_ids_node i cs Hnd) as [Hi Hcs]. rewrite update_node, prune_node.
  unfold sfwp in He. simpl in He.
  destruct (N.eqb (nid i) pid) eqn:E.
  - apply N.eqb_eq in E. rewrite update_forest_notin by (rewrite <- E; exact Hi).
    unfold rmf. f_equal. apply remove_first_prune; [exact Hcs|].
    apply in_flat_map in He as (c & Hc & He). rewrite fwp_unfold in He.
    destruct He as [<-|He].
    + apply in_map_iff. exists c. split; [exact Hid|exact Hc].
    + exfalso. apply Hi. rewrite E, <- Hpid. exact (in_ids_child cs c _ Hc (sfwp_pid_in c e He)).
  - apply N.eqb_neq in E. f_equal. clear Hnd Hi. subst cid pid.
    induction cs as [|c r IHr]; simpl in *; [destruct He|].
    apply NoDup_app_inv in Hcs as (Hc & Hr & Hd). inversion IH as [|c' r' IHc IHr']; subst c' r'.
    rewrite id_of_prune. apply in_app_or in He as [He|He].
    + rewrite fwp_unfold in He. destruct He as [<-|He]; [exfalso; apply E; reflexivity|].
      assert (Hcin : In (e_id e) (flat_map ids (kids c))) by (rewrite <- sfwp_ids; apply in_map; exact He).
      assert (Hcid : In (e_id e) (ids c)).
      { destruct c as [ci ccs]. rewrite ids_node. right. exact Hcin. }
      assert (Hne : id_of c <> e_id e).
      { destruct c as [ci ccs]. destruct (NoDup_ids_node ci ccs Hc) as [Hci _].
        intros Heq. apply Hci. change (nid ci) with (id_of (Node ci ccs)). rewrite Heq. exact Hcin. }
      unfold is_id at 1. rewrite (proj2 (N.eqb_neq _ _) Hne). simpl.
      rewrite (IHc Hc e He eq_refl eq_refl). f_equal.
      rewrite update_forest_notin by (apply (Hd _ (sfwp_pid_in c e He))).
      symmetry. apply prune_forest_notin. intros x Hx. unfold is_id. apply N.eqb_neq.
      intros ->. exact (Hd _ Hcid Hx).
    + assert (Hcid : In (e_id e) (flat_map ids r)) by (rewrite <- (fwp_forest_ids (nid i)); apply in_map; exact He).
      assert (Hp : In (e_pid e) (flat_map ids r)).
      { apply in_flat_map in He as (c0 & Hc0 & He). rewrite fwp_unfold in He.
        destruct He as [<-|He]; [exfalso; apply E; reflexivity|].
        exact (in_ids_child r c0 _ Hc0 (sfwp_pid_in c0 e He)). }
      rewrite update_notin by (intros Hx; exact (Hd _ Hx Hp)).
      rewrite prune_notin.
      * unfold is_id at 1. replace (N.eqb (id_of c) (e_id e)) with false.
        -- simpl. f_equal. exact (IHr IHr' He Hr).
        -- symmetry. apply N.eqb_neq. intros Heq. apply (Hd (e_id e)); [rewrite <- Heq; apply id_of_in_ids|exact Hcid].
      * intros x Hx. unfold is_id. apply N.eqb_neq. intros ->. exact (Hd _ Hx Hcid).
Qed.

(* ---- entries of a pruned tree, when only leaves are pruned ---- *)
Definition dead_leaves (d : N -> bool) (t : item) : Prop :=
  forall n, In n (flatten t) -> d (id_of n) = true -> kids n = [].

Lemma sfwp_prune_forest d q : forall cs,
  Forall (fun t => dead_leaves d t -> sfwp (prune d t) = filter (fun e => negb (d (e_id e))) (sfwp t)) cs ->
  (forall c, In c cs -> dead_leaves d c) ->
  flat_map (flat_with_parent q) (filter (fun c => negb (d (id_of c))) (map (prune d) cs))
  = filter (fun e => negb (d (e_id e))) (flat_map (flat_with_parent q) cs).
Proof.
  induction cs as [|c r IHr]; simpl; intros IH Hdl'; [reflexivity|].
  inversion IH as [|c' r' IHc IHr']; subst c' r'.
  rewrite filter_app, id_of_prune. rewrite <- IHr; [|exact IHr'|intros x Hx; apply Hdl'; right; exact Hx].
  destruct (d (id_of c)) eqn:E; simpl.
  - assert (Hk : kids c = []) by (apply (Hdl' c (or_introl eq_refl) c (flatten_self c) E)).
    rewrite fwp_unfold. unfold sfwp. rewrite Hk. simpl. unfold e_id at 1. simpl. rewrite E. reflexivity.
  - rewrite !fwp_unfold. simpl.
    change (e_id (id_of c, url_of c, st_of c, q)) with (id_of c). rewrite E. simpl.
    rewrite (IHc (Hdl' c (or_introl eq_refl))).
    destruct c as [ci ccs]. reflexivity.
Qed.

Lemma sfwp_prune d : forall t, dead_leaves d t ->
  sfwp (prune d t) = filter (fun e => negb (d (e_id e))) (sfwp t).
Proof.
  induction t as [i cs IH] using item_ind2. intros Hdl. rewrite prune_node.
  apply (sfwp_prune_forest d (nid i) cs IH).
  intros c Hc n Hn. apply Hdl. exact (flatten_child i cs c n Hc Hn).
Qed.

Lemma flatten_prune d : forall t n', In n' (flatten (prune d t)) -> exists n, In n (flatten t) /\ n' = prune d n.
Proof.
  induction t as [i cs IH] using item_ind2. intros n' H. rewrite prune_node in H. simpl in H.
  destruct H as [<-|H].
  - exists (Node i cs). split; [left; reflexivity|reflexivity].
  - apply in_flat_map in H as (c' & Hc' & Hn'). apply filter_In in Hc' as [Hc' _].
    apply in_map_iff in Hc' as (c & <- & Hc). rewrite Forall_forall in IH.
    destruct (IH c Hc n' Hn') as (n & Hn & ->). exists n. split; [|reflexivity].
    exact (flatten_child i cs c n Hc Hn).
Qed.

Lemma fresh_leaves_prune d t : fresh_leaves t = true -> fresh_leaves (prune d t) = true.
Proof.
  unfold fresh_leaves. rewrite !forallb_forall. intros H n' Hn'.
  destruct (flatten_prune d t n' Hn') as (n & Hn & ->). specialize (H n Hn).
  destruct n as [i cs]. unfold is_fresh_node, is_leaf, st_of in *. simpl in *.
  destruct (status_eqb (nst i) Fresh); simpl in *; [|reflexivity].
  destruct cs; [reflexivity|discriminate].
Qed.

(* ================================================================================== *)
(* DedupeItems                                                                         *)
(* ================================================================================== *)
Lemma filter_id_in {A} (p : A -> bool) (l : list A) : (forall x, In x l -> p x = true) -> filter p l = l.
Proof.
  induction l as [|a l IH]; simpl; intros H; [reflexivity|].
  rewrite (H a (or_introl eq_refl)). f_equal. apply IH. intros x Hx. apply H. right. exact Hx.
Qed.

Lemma sublist_filter_mono {A} (p : A -> bool) (a b : list A) : sublist a b -> sublist (filter p a) (filter p b).
Proof. induction 1 as [|x l1 l2 H IH|x l1 l2 H IH]; simpl; [constructor| |]; destruct (p x); try constructor; exact IH. Qed.

Lemma NoDup_snoc {A} (a : list A) (x : A) : NoDup a -> ~ In x a -> NoDup (a ++ [x]).
Proof.
  induction a as [|y a IH]; simpl; intros Hnd Hx; [constructor; [intros []|constructor]|].
  inversion Hnd as [|z l Hy Ha]; subst. constructor.
  - intros Hin. apply in_app_or in Hin as [Hin|[Hin|[]]]; [exact (Hy Hin)|]. apply Hx. left. symmetry. exact Hin.
  - apply IH; [exact Ha|]. intros Hin. apply Hx. right. exact Hin.
Qed.

Lemma NoDup_mid {A B} (f : A -> B) (a b : list A) (x : A) :
  NoDup (map f (a ++ x :: b)) ->
  (forall y, In y a -> f y <> f x) /\ (forall y, In y b -> f y <> f x) /\ NoDup (map f a).
Proof.
  rewrite map_app. simpl. intros H. apply NoDup_app_inv in H as (Ha & Hb & Hd).
  inversion Hb as [|z l Hx Hb']; subst. split; [|split; [|exact Ha]].
  - intros y Hy E. apply (Hd (f y)); [apply in_map; exact Hy|left; symmetry; exact E].
  - intros y Hy E. apply Hx. rewrite <- E. apply in_map. exact Hy.
Qed.

Definition ne (c : N) (e : entry) : bool := negb (is_id c (e_id e)).

Lemma filter_dead_dead d1 d2 (l : list entry) :
  filter (fun e => negb (d2 (e_id e))) (filter (fun e => negb (d1 (e_id e))) l)
  = filter (fun e => negb (d2 (e_id e) || d1 (e_id e))) l.
Proof.
  induction l as [|e l IH]; simpl; [reflexivity|].
  destruct (d1 (e_id e)) eqn:E1; simpl.
  - rewrite orb_true_r. simpl. exact IH.
  - rewrite orb_false_r. destruct (d2 (e_id e)); simpl; rewrite IH; reflexivity.
Qed.

(* what the loop does to the tree: it prunes Fresh nodes, every URL keeps a node *)
Definition Rs (t t' : item) : Prop :=
  id_of t' = id_of t
  /\ (exists dead, t' = prune dead t
        /\ (forall e, In e (sfwp t) -> dead (e_id e) = true -> e_st e = Fresh)
        /\ sfwp t' = filter (fun e => negb (dead (e_id e))) (sfwp t))
  /\ (forall u, In u (map e_url (sfwp t)) -> In u (map e_url (sfwp t'))).

Lemma Rs_refl t : Rs t t.
Proof.
  split; [reflexivity|]. split; [|tauto]. exists (fun _ => false). split; [|split].
  - symmetry. apply prune_notin. reflexivity.
  - discriminate.
  - symmetry. apply filter_id_in. reflexivity.
Qed.

Lemma Rs_trans t t1 t2 : Rs t t1 -> Rs t1 t2 -> Rs t t2.
Proof.
  intros (Hi1 & (d1 & Hp1 & Hd1 & Hf1) & Hu1) (Hi2 & (d2 & Hp2 & Hd2 & Hf2) & Hu2).
  split; [congruence|]. split; [|auto].
  exists (fun x => d2 x || d1 x). split; [|split].
  - rewrite Hp2, Hp1. apply prune_prune.
  - intros e He Hd. destruct (d1 (e_id e)) eqn:E1; [exact (Hd1 e He E1)|].
    rewrite orb_false_r in Hd. apply Hd2; [|exact Hd].
    rewrite Hf1. apply filter_In. split; [exact He|]. rewrite E1. reflexivity.
  - rewrite Hf2, Hf1. apply filter_dead_dead.
Qed.

Lemma NoDup_sfwp_ids t : NoDup (ids t) -> NoDup (map e_id (sfwp t)).
Proof. rewrite ids_sfwp. intros H. inversion H; assumption. Qed.

(* one removal of a Fresh node whose URL another node carries too *)
Lemma Rs_remove t cid u pid :
  NoDup (ids t) -> fresh_leaves t = true -> In (cid, u, Fresh, pid) (sfwp t) ->
  (exists e', In e' (sfwp t) /\ e_id e' <> cid /\ e_url e' = u) ->
  Rs t (remove_child pid cid t)
  /\ NoDup (ids (remove_child pid cid t))
  /\ fresh_leaves (remove_child pid cid t) = true
  /\ sfwp (remove_child pid cid t) = filter (ne cid) (sfwp t).
Proof.
  intros Hnd Hfl Hin (e' & He' & Hne' & Hu').
  assert (Hp : remove_child pid cid t = prune (is_id cid) t).
  { rewrite remove_child_rmf. exact (remove_edge_prune pid cid t Hnd _ Hin eq_refl eq_refl). }
  assert (Hdl : dead_leaves (is_id cid) t).
  { intros n Hn Hd. unfold is_id in Hd. apply N.eqb_eq in Hd.
    destruct (sfwp_node t _ Hin) as (m & Hm & Hmid & _ & Hmst).
    change (id_of m = cid) in Hmid. change (st_of m = Fresh) in Hmst.
    assert (n = m) by (apply (unique_node t); [exact Hnd|exact Hn|exact (nonseed_nodes_flatten t m Hm)|congruence]).
    subst m. unfold fresh_leaves in Hfl. rewrite forallb_forall in Hfl. specialize (Hfl n Hn).
    unfold is_fresh_node, is_leaf in Hfl. rewrite Hmst in Hfl. simpl in Hfl.
    destruct (kids n); [reflexivity|discriminate]. }
  assert (Hf : sfwp (remove_child pid cid t) = filter (ne cid) (sfwp t)).
  { rewrite Hp. exact (sfwp_prune (is_id cid) t Hdl). }
  split; [|split; [exact (proj1 (remove_child_ids_lemma pid cid t Hnd))|split; [rewrite Hp; apply fresh_leaves_prune; exact Hfl|exact Hf]]].
  split; [apply remove_child_id_of|]. split.
  - exists (is_id cid). split; [exact Hp|]. split; [|exact Hf].
    intros e He Hd. unfold is_id in Hd. apply N.eqb_eq in Hd.
    assert (e = (cid, u, Fresh, pid)).
    { apply (NoDup_map_inj e_id (sfwp t)); [exact (NoDup_sfwp_ids t Hnd)|exact He|exact Hin|exact Hd]. }
    subst e. reflexivity.
  - intros u' Hu. apply in_map_iff in Hu as (x & Hxu & Hx). rewrite Hf.
    destruct (N.eqb (e_id x) cid) eqn:E.
    + apply N.eqb_eq in E.
      assert (x = (cid, u, Fresh, pid)).
      { apply (NoDup_map_inj e_id (sfwp t)); [exact (NoDup_sfwp_ids t Hnd)|exact Hx|exact Hin|exact E]. }
      subst x. simpl in Hxu. subst u'. apply in_map_iff. exists e'. split; [exact Hu'|].
      apply filter_In. split; [exact He'|]. unfold ne, is_id. apply negb_true_iff. apply N.eqb_neq. exact Hne'.
    + apply in_map_iff. exists x. split; [exact Hxu|]. apply filter_In. split; [exact Hx|].
      unfold ne, is_id. rewrite E. reflexivity.
Qed.

Lemma drop_existing_false est st : drop_existing est st = false -> st <> Fresh -> est <> Fresh.
Proof. destruct est, st; cbv; intros; congruence. Qed.

Lemma drop_existing_true est st : drop_existing est st = true -> est <> Fresh -> st <> Fresh.
Proof. destruct est, st; cbv; intros; congruence. Qed.

Lemma nf_true e : nf e = true <-> e_st e <> Fresh.
Proof. unfold nf. destruct (e_st e); simpl; split; congruence. Qed.

Lemma status_fresh_dec (s : status) : {s = Fresh} + {s <> Fresh}.
Proof. destruct s; (left; reflexivity) || (right; discriminate). Qed.

Lemma two_worked (kept r : list entry) (e x : entry) :
  NoDup (map e_url (filter nf (kept ++ e :: r))) ->
  In x kept -> e_url x = e_url e -> e_st x <> Fresh -> e_st e <> Fresh -> False.
Proof.
  intros H Hx Hu Hsx Hse. rewrite filter_app, map_app in H. simpl in H.
  rewrite (proj2 (nf_true e) Hse) in H. apply NoDup_app_inv in H as (_ & _ & Hd).
  apply (Hd (e_url x)).
  - apply in_map. apply filter_In. split; [exact Hx|]. apply nf_true. exact Hsx.
  - simpl. left. symmetry. exact Hu.
Qed.

Definition seen_ok (seen : list (N * (N * status * N))) (kept : list entry) : Prop :=
  forall u id st pid, assoc u seen = Some (id, st, pid) <-> In (id, u, st, pid) kept.

Lemma seen_ok_push seen kept (e : entry) :
  seen_ok seen kept ->
  (forall x, In x kept -> e_url x <> e_url e) ->
  seen_ok ((e_url e, (e_id e, e_st e, e_pid e)) :: seen) (kept ++ [e]).
Proof.
  destruct e as [[[ei eu] es] ep]. unfold e_url at 2 3, e_id, e_st, e_pid. simpl.
  intros Hs Hfree u id st pid. simpl. destruct (N.eqb u eu) eqn:E.
  - apply N.eqb_eq in E. subst u. split.
    + intros H. injection H as <- <- <-. apply in_or_app. right. left. reflexivity.
    + intros H. apply in_app_or in H as [H|[H|[]]].
      * exfalso. exact (Hfree _ H eq_refl).
      * injection H as <- <- <-. reflexivity.
  - apply N.eqb_neq in E. rewrite (Hs u id st pid). split.
    + intros H. apply in_or_app. left. exact H.
    + intros H. apply in_app_or in H as [H|[H|[]]]; [exact H|]. injection H as _ H _ _. exfalso. apply E. symmetry. exact H.
Qed.

Lemma dedupe_loop_spec : forall nodes seen t kept,
  NoDup (ids t) -> fresh_leaves t = true -> NoDup (map e_url (filter nf (sfwp t))) ->
  sfwp t = kept ++ nodes -> seen_ok seen kept -> NoDup (map e_url kept) ->
  Rs t (dedupe_loop drop_existing nodes seen t)
  /\ NoDup (map e_url (sfwp (dedupe_loop drop_existing nodes seen t))).
Proof.
  induction nodes as [|e r IH]; intros seen t kept Hnd Hfl Hw Hs Hseen Hku.
  - simpl. split; [apply Rs_refl|]. rewrite Hs, app_nil_r. exact Hku.
  - pose proof (NoDup_sfwp_ids t Hnd) as Hids. rewrite Hs in Hids, Hw.
    destruct (NoDup_mid e_id kept r e Hids) as (Hk_ne & Hr_ne & Hkid).
    assert (Hein : In e (sfwp t)) by (rewrite Hs; apply in_or_app; right; left; reflexivity).
    destruct e as [[[id url] st] pid]. simpl dedupe_loop.
    destruct (assoc url seen) as [[[eid est] epid]|] eqn:A.
    + pose proof (proj1 (Hseen url eid est epid) A) as Hex.
      assert (Hexin : In (eid, url, est, epid) (sfwp t)) by (rewrite Hs; apply in_or_app; left; exact Hex).
      assert (Hne : eid <> id) by (exact (Hk_ne _ Hex)).
      destruct (drop_existing est st) eqn:Rl.
      * (* the earlier node is dropped: it is Fresh *)
        assert (est = Fresh).
        { destruct (status_fresh_dec est) as [Hf|Hf]; [exact Hf|]. exfalso.
          apply (two_worked kept r (id, url, st, pid) (eid, url, est, epid) Hw Hex eq_refl Hf).
          exact (drop_existing_true est st Rl Hf). }
        subst est.
        destruct (Rs_remove t eid url epid Hnd Hfl Hexin) as (HR & Hnd1 & Hfl1 & Hf1).
        { exists (id, url, st, pid). split; [exact Hein|]. split; [|reflexivity]. intros E. apply Hne. symmetry. exact E. }
        assert (Hf1' : sfwp (remove_child epid eid t) = (filter (ne eid) kept ++ [(id, url, st, pid)]) ++ r).
        { rewrite Hf1, Hs, filter_app, <- app_assoc. f_equal. apply filter_id_in.
          intros x Hx. unfold ne, is_id. apply negb_true_iff. apply N.eqb_neq.
          rewrite map_app in Hids. apply NoDup_app_inv in Hids as (_ & _ & Hd).
          intros E. apply (Hd eid); [exact (in_map e_id kept _ Hex)|]. rewrite <- E. apply in_map. exact Hx. }
        destruct (IH ((url, (id, st, pid)) :: seen) (remove_child epid eid t) (filter (ne eid) kept ++ [(id, url, st, pid)]))
          as (HR2 & Hfin); try assumption.
        -- rewrite Hf1, Hs. apply (sublist_NoDup _ _ (sublist_map e_url _ _ (sublist_filter_mono nf _ _ (sublist_filter (ne eid) _)))).
           exact Hw.
        -- intros u id' st' pid'. simpl. destruct (N.eqb u url) eqn:E.
           ++ apply N.eqb_eq in E. subst u. split.
              ** intros H. injection H as <- <- <-. apply in_or_app. right. left. reflexivity.
              ** intros H. apply in_app_or in H as [H|[H|[]]]; [|injection H as <- <- <-; reflexivity].
                 exfalso. apply filter_In in H as [H Hn]. apply Hseen in H. rewrite A in H. injection H as <- <- <-.
                 unfold ne, is_id in Hn. simpl in Hn. rewrite N.eqb_refl in Hn. discriminate.
           ++ apply N.eqb_neq in E. rewrite (Hseen u id' st' pid'). split.
              ** intros H. apply in_or_app. left. apply filter_In. split; [exact H|].
                 unfold ne, is_id. apply negb_true_iff. apply N.eqb_neq. simpl. intros Eid. apply E.
                 assert (X : (id', u, st', pid') = (eid, url, Fresh, epid)).
                 { apply (NoDup_map_inj e_id kept); [exact Hkid|exact H|exact Hex|exact Eid]. }
                 injection X as _ X _ _. exact X.
              ** intros H. apply in_app_or in H as [H|[H|[]]].
                 --- apply filter_In in H as [H _]. exact H.
                 --- injection H as _ H _ _. exfalso. apply E. symmetry. exact H.
        -- rewrite map_app. simpl. apply NoDup_snoc; [exact (NoDup_map_filter e_url (ne eid) kept Hku)|].
           intros H. apply in_map_iff in H as (x & Hxu & Hx). apply filter_In in Hx as [Hx Hn].
           destruct x as [[[xi xu] xs] xp]. unfold e_url in Hxu. simpl in Hxu. subst xu. apply Hseen in Hx. rewrite A in Hx.
           injection Hx as <- <- <-. unfold ne, is_id in Hn. simpl in Hn. rewrite N.eqb_refl in Hn. discriminate.
        -- split; [exact (Rs_trans _ _ _ HR HR2)|exact Hfin].
      * (* the later node is dropped: it is Fresh *)
        assert (st = Fresh).
        { destruct (status_fresh_dec st) as [Hf|Hf]; [exact Hf|]. exfalso.
          apply (two_worked kept r (id, url, st, pid) (eid, url, est, epid) Hw Hex eq_refl); [|exact Hf].
          exact (drop_existing_false est st Rl Hf). }
        subst st.
        destruct (Rs_remove t id url pid Hnd Hfl Hein) as (HR & Hnd1 & Hfl1 & Hf1).
        { exists (eid, url, est, epid). split; [exact Hexin|]. split; [exact Hne|reflexivity]. }
        assert (Hf1' : sfwp (remove_child pid id t) = kept ++ r).
        { rewrite Hf1, Hs, filter_app. simpl. unfold ne at 2, is_id. simpl. rewrite N.eqb_refl. simpl. f_equal.
          - apply filter_id_in. intros x Hx. unfold ne, is_id. apply negb_true_iff. apply N.eqb_neq. exact (Hk_ne x Hx).
          - apply filter_id_in. intros x Hx. unfold ne, is_id. apply negb_true_iff. apply N.eqb_neq. exact (Hr_ne x Hx). }
        destruct (IH seen (remove_child pid id t) kept) as (HR2 & Hfin); try assumption.
        -- rewrite Hf1, Hs. apply (sublist_NoDup _ _ (sublist_map e_url _ _ (sublist_filter_mono nf _ _ (sublist_filter (ne id) _)))).
           exact Hw.
        -- split; [exact (Rs_trans _ _ _ HR HR2)|exact Hfin].
    + (* first node with this URL *)
      assert (Hfree : forall x, In x kept -> e_url x <> url).
      { intros [[[xi xu] xs] xp] Hx E. unfold e_url in E. simpl in E. subst xu. apply Hseen in Hx. rewrite A in Hx. discriminate. }
      apply (IH ((url, (id, st, pid)) :: seen) t (kept ++ [(id, url, st, pid)])); try assumption.
      * rewrite Hs. exact Hw.
      * rewrite Hs, <- app_assoc. reflexivity.
      * exact (seen_ok_push seen kept (id, url, st, pid) Hseen Hfree).
      * rewrite map_app. simpl. apply NoDup_snoc; [exact Hku|].
        intros H. apply in_map_iff in H as (x & Hxu & Hx). exact (Hfree x Hx Hxu).
Qed.

Lemma nonseed_urls_tl t : nonseed_urls t = tl (urls t).
Proof. destruct t as [i cs]. reflexivity. Qed.

Lemma dedupe_unfold t :
  dedupe t = mark_completed (dedupe_loop drop_existing (sfwp t) [] t).
Proof. unfold dedupe, dedupe_with. rewrite nonseed_flat_sfwp. reflexivity. Qed.

Lemma nonseed_urls_dedupe t :
  nonseed_urls (dedupe t) = map e_url (sfwp (dedupe_loop drop_existing (sfwp t) [] t)).
Proof. rewrite dedupe_unfold, nonseed_urls_tl, mc_urls, <- nonseed_urls_tl. apply nonseed_urls_sfwp. Qed.

Lemma dedupe_facts t :
  Inv0 t ->
  Rs t (dedupe_loop drop_existing (sfwp t) [] t)
  /\ NoDup (map e_url (sfwp (dedupe_loop drop_existing (sfwp t) [] t))).
Proof.
  intros (Hnd & Hfl & Hw). apply (dedupe_loop_spec (sfwp t) [] t []).
  - exact Hnd.
  - exact Hfl.
  - rewrite <- worked_urls_sfwp. exact Hw.
  - reflexivity.
  - intros u id st pid. simpl. split; [discriminate|intros []].
  - constructor.
Qed.

Lemma dedupe_unique_lemma : dedupe_unique_stmt.
Proof. intros t Hinv. rewrite nonseed_urls_dedupe. exact (proj2 (dedupe_facts t Hinv)). Qed.

Lemma dedupe_keeps_lemma : dedupe_keeps_stmt.
Proof.
  intros t Hinv u. rewrite nonseed_urls_dedupe, nonseed_urls_sfwp.
  destruct (dedupe_facts t Hinv) as ((_ & (dead & _ & _ & Hf) & Hu) & _). split; [apply Hu|].
  rewrite Hf. intros H. apply in_map_iff in H as (x & Hxu & Hx). apply filter_In in Hx as [Hx _].
  apply in_map_iff. exists x. split; assumption.
Qed.

Lemma dedupe_keeps_worked_lemma : dedupe_keeps_worked_stmt.
Proof.
  intros t n Hinv Hn Hfr.
  destruct (dedupe_facts t Hinv) as ((_ & (dead & _ & Hd & Hf) & _) & _).
  rewrite dedupe_unfold, mc_ids, ids_sfwp, Hf. right.
  destruct (node_sfwp t n Hn) as (e & He & Hid & _ & Hst). rewrite Hid. apply in_map.
  apply filter_In. split; [exact He|]. apply negb_true_iff.
  destruct (dead (e_id e)) eqn:E; [|reflexivity]. exfalso.
  unfold is_fresh_node in Hfr. rewrite Hst, (Hd e He E) in Hfr. discriminate.
Qed.

Lemma dedupe_ids_lemma : dedupe_ids_stmt.
Proof.
  intros t Hinv. pose proof Hinv as (Hnd & _).
  destruct (dedupe_facts t Hinv) as ((Hid & (dead & _ & _ & Hf) & _) & _).
  assert (Hsub : sublist (ids (dedupe t)) (ids t)).
  { rewrite dedupe_unfold, mc_ids, (ids_sfwp t), ids_sfwp, Hf, Hid. apply sl_cons.
    apply sublist_map. apply sublist_filter. }
  split; [exact (sublist_NoDup _ _ Hsub Hnd)|]. split; [exact (sublist_incl _ _ Hsub)|].
  rewrite dedupe_unfold, mc_id_of. exact Hid.
Qed.

(* without any hypothesis on URLs: whatever the loop removes, ids stay unique and the tree consistent *)
Lemma dedupe_loop_ids_sub rule : forall nodes seen t, sublist (ids (dedupe_loop rule nodes seen t)) (ids t).
Proof.
  induction nodes as [|[[[id url] st] pid] r IH]; intros seen t; simpl; [apply sublist_refl|].
  destruct (assoc url seen) as [[[eid est] epid]|]; [|apply IH].
  destruct (rule est st); (eapply sublist_trans; [apply IH|apply remove_child_ids_sub]).
Qed.

Lemma dedupe_loop_check rule : forall nodes seen t p, check p t = 0 -> check p (dedupe_loop rule nodes seen t) = 0.
Proof.
  induction nodes as [|[[[id url] st] pid] r IH]; intros seen t p H; simpl; [exact H|].
  destruct (assoc url seen) as [[[eid est] epid]|]; [|apply IH; exact H].
  destruct (rule est st); apply IH; apply remove_child_consistent_gen; exact H.
Qed.

Lemma dedupe_ids_sub t : sublist (ids (dedupe t)) (ids t).
Proof. unfold dedupe, dedupe_with. rewrite mc_ids. apply dedupe_loop_ids_sub. Qed.

Lemma dedupe_consistent_any t : check_consistency t = 0 -> check_consistency (dedupe t) = 0.
Proof.
  unfold check_consistency, dedupe, dedupe_with. intros H.
  apply mark_completed_consistent_gen. apply dedupe_loop_check. exact H.
Qed.

Lemma dedupe_consistent_lemma : dedupe_consistent_stmt.
Proof. intros t _. apply dedupe_consistent_any. Qed.

Lemma dedupe_prune_lemma : dedupe_prune_stmt.
Proof.
  intros t Hinv. destruct (dedupe_facts t Hinv) as ((_ & (dead & Hp & Hd & _) & _) & _).
  exists dead. split; [|rewrite dedupe_unfold, Hp; reflexivity].
  intros n Hn Hdn. destruct (node_sfwp t n Hn) as (e & He & Hid & _ & Hst).
  unfold is_fresh_node. rewrite Hst, (Hd e He); [reflexivity|]. rewrite <- Hid. exact Hdn.
Qed.

Lemma dedupe_orig_refuted_lemma : dedupe_orig_refuted_stmt.
Proof. exists w_tree. exact dedupe_orig_refuted_w. Qed.

(* ================================================================================== *)
(* operation sequences                                                                 *)
(* ================================================================================== *)
Lemma ids_update_same id f :
  (forall n, ids (f n) = ids n) -> forall t, ids (update id f t) = ids t.
Proof.
  intros Hf. induction t as [i cs IH] using item_ind2. rewrite update_node.
  assert (H : ids (Node i (map (update id f) cs)) = ids (Node i cs)).
  { rewrite !ids_node. f_equal. rewrite flat_map_map. apply flat_map_ext_in.
    rewrite Forall_forall in IH. exact IH. }
  destruct (N.eqb (nid i) id); [rewrite Hf|]; exact H.
Qed.

Lemma set_status_ids id s t : ids (set_status id s t) = ids t.
Proof. unfold set_status. apply ids_update_same. intros [i cs]. rewrite !ids_node. reflexivity. Qed.

Lemma set_url_at_ids id u t : ids (set_url_at id u t) = ids t.
Proof. unfold set_url_at. apply ids_update_same. intros [i cs]. rewrite !ids_node. reflexivity. Qed.

(* every node of a consistent tree is consistent under its own parent *)
Lemma check_sub : forall t p n, check p t = 0 -> In n (flatten t) -> exists q, check q n = 0.
Proof.
  induction t as [i cs IH] using item_ind2. intros p n H Hn. simpl in Hn. destruct Hn as [<-|Hn].
  - exists p. exact H.
  - apply check_zero in H as [_ Hc]. apply in_flat_map in Hn as (c & Hc' & Hn).
    rewrite Forall_forall in IH, Hc. exact (IH c Hc' (Some (nst i)) n (Hc c Hc') Hn).
Qed.

Lemma WF_fresh_leaves_lemma : WF_fresh_leaves_stmt.
Proof.
  intros t [_ Hc]. unfold fresh_leaves. apply forallb_forall. intros n Hn.
  destruct (check_sub t None n Hc Hn) as [q Hq]. unfold is_fresh_node, is_leaf.
  destruct (status_eqb (st_of n) Fresh) eqn:E; [|reflexivity]. simpl.
  rewrite (check_leaf q n Hq); [reflexivity|]. destruct (st_of n); try discriminate; reflexivity.
Qed.

Lemma stage_transition_leaf from to : stage_transition from to = true ->
  (is_got from || status_eqb from Completed || status_eqb from Failed = false) /\ to <> Fresh.
Proof. destruct from, to; simpl; intros H; try discriminate; split; try reflexivity; discriminate. Qed.

Lemma WF_set_status id s t :
  WF t -> (exists n, In n (flatten t) /\ id_of n = id /\ stage_transition (st_of n) s = true) ->
  WF (set_status id s t).
Proof.
  intros [Hnd Hc] (n0 & Hn0 & Hid0 & Htr). split; [rewrite set_status_ids; exact Hnd|].
  unfold check_consistency, set_status in *. apply check_update_nodup; [exact Hnd| |exact Hc].
  intros n q Hn Hid Hq.
  assert (n = n0) by (apply (unique_node t); [exact Hnd|exact Hn|exact Hn0|congruence]). subst n0.
  destruct (stage_transition_leaf _ _ Htr) as [Hl Hs].
  pose proof (check_leaf q n Hq Hl) as Hk. destruct n as [i cs]. simpl in Hk. subst cs.
  apply check_zero in Hq as [Hq _]. apply check_zero. split; [|constructor].
  unfold check_node in *. simpl.
  destruct q, (nvia i), s; simpl in *; try discriminate; try reflexivity; exfalso; apply Hs; reflexivity.
Qed.

Lemma WF_set_url id u t : WF t -> WF (set_url_at id u t).
Proof.
  intros [Hnd Hc]. split; [rewrite set_url_at_ids; exact Hnd|].
  unfold check_consistency, set_url_at in *. apply check_update_same; [| |exact Hc].
  - intros p [i cs] H. exact H.
  - intros [i cs]. reflexivity.
Qed.

Lemma WF_seed_done t :
  WF t -> forallb (fun c => negb (is_fresh_node c)) (kids t) = true -> WF (set_status (id_of t) Completed t).
Proof.
  intros [Hnd Hc] Hg. split; [rewrite set_status_ids; exact Hnd|].
  destruct t as [i cs]. destruct (NoDup_ids_node i cs Hnd) as [Hi _].
  unfold check_consistency, set_status in *. rewrite update_node. simpl id_of. rewrite N.eqb_refl.
  rewrite update_forest_notin by exact Hi. simpl in Hg.
  apply check_zero in Hc as [_ Hcs]. apply check_zero. split.
  - unfold check_node. simpl. rewrite !andb_false_r. reflexivity.
  - simpl. rewrite Forall_forall in *. rewrite forallb_forall in Hg. intros c Hin.
    rewrite (check_parent_irrel Completed (nst i)); [exact (Hcs c Hin)|].
    specialize (Hg c Hin). unfold is_fresh_node in Hg. intros E. rewrite E in Hg. discriminate.
Qed.

Lemma WF_add pid c from t p :
  WF t -> ~ In (id_of c) (ids t) -> kids c = [] -> nvia (inf c) = false ->
  In p (flatten t) -> id_of p = pid ->
  (st_of p = Archived \/ st_of p = GotChildren /\ from = GotChildren) ->
  WF (match add_child pid c from t with Some t' => t' | None => t end).
Proof.
  intros [Hnd Hc] Hnew Hleaf Hvia Hp Hpid Hst. destruct (add_child pid c from t) as [t'|] eqn:A; [|split; assumption].
  split.
  - exact (proj1 (add_child_ids_lemma pid c from t t' Hnd Hnew Hleaf A)).
  - apply (add_child_consistent_lemma pid c from t t' p Hnd Hc Hp Hpid); try assumption.
    destruct Hst as [Hs|Hs]; [left|right; exact Hs]. split; [exact Hs|].
    destruct (check_sub t None p Hc Hp) as [q Hq]. apply (check_leaf q p Hq). rewrite Hs. reflexivity.
Qed.

Lemma WF_remove pid cid t : WF t -> WF (remove_child pid cid t).
Proof.
  intros [Hnd Hc]. split; [exact (proj1 (remove_child_ids_lemma pid cid t Hnd))|].
  exact (remove_child_consistent_lemma pid cid t Hc).
Qed.

Lemma WF_mark t : WF t -> WF (mark_completed t).
Proof. intros [Hnd Hc]. split; [rewrite mc_ids; exact Hnd|exact (mark_completed_consistent_lemma t Hc)]. Qed.

Lemma WF_dedupe t : WF t -> WF (dedupe t).
Proof.
  intros [Hnd Hc]. split; [exact (sublist_NoDup _ _ (dedupe_ids_sub t) Hnd)|exact (dedupe_consistent_any t Hc)].
Qed.

Lemma WF_apply_op o t : WF t -> op_guard o t -> WF (apply_op t o).
Proof.
  intros Hwf Hg. destruct o as [pid cid url hops|pid cid url hops redir|pid cid|id s|id u| | | |]; unfold apply_op, op_guard in *.
  - destruct Hg as (Hnew & p & Hp & Hpid & Hst).
    apply (WF_add pid _ GotChildren t p Hwf); try assumption; try reflexivity.
    destruct Hst as [Hs|Hs]; [left; exact Hs|right; split; [exact Hs|reflexivity]].
  - destruct Hg as (Hnew & p & Hp & Hpid & Hst).
    apply (WF_add pid _ GotRedirected t p Hwf); try assumption; try reflexivity. left. exact Hst.
  - apply WF_remove. exact Hwf.
  - apply WF_set_status; assumption.
  - apply WF_set_url. exact Hwf.
  - apply WF_seed_done; assumption.
  - apply WF_dedupe. exact Hwf.
  - apply WF_mark. exact Hwf.
  - unfold complete_and_check. destruct (negb (has_work t)); simpl; [exact Hwf|apply WF_mark; exact Hwf].
Qed.

Lemma ops_preserve_wf_lemma : ops_preserve_wf_stmt.
Proof.
  intros ops. induction ops as [|o r IH]; intros t Hwf Hok; simpl; [exact Hwf|].
  destruct Hok as [Hg Hr]. apply IH; [exact (WF_apply_op o t Hwf Hg)|exact Hr].
Qed.

Lemma ops_ok_firstn : forall ops t k, ops_ok ops t -> ops_ok (firstn k ops) t.
Proof.
  induction ops as [|o r IH]; intros t [|k] H; simpl; try exact I.
  destruct H as [Hg Hr]. split; [exact Hg|exact (IH _ k Hr)].
Qed.

Lemma ops_preserve_wf_all_lemma : ops_preserve_wf_all_stmt.
Proof. intros ops t Hwf Hok k. apply ops_preserve_wf_lemma; [exact Hwf|apply ops_ok_firstn; exact Hok]. Qed.

(* ---- the executable guard ---- *)
Lemma find_node_some id t n : find_node id t = Some n -> In n (flatten t) /\ id_of n = id.
Proof. unfold find_node. intros H. apply find_some in H as [H1 H2]. apply N.eqb_eq in H2. split; assumption. Qed.

Lemma existsb_eqb_false x l : negb (existsb (N.eqb x) l) = true -> ~ In x l.
Proof.
  intros H Hin. apply negb_true_iff in H.
  assert (existsb (N.eqb x) l = true) by (apply existsb_exists; exists x; split; [exact Hin|apply N.eqb_refl]).
  congruence.
Qed.

Lemma status_eqb_eq a c : status_eqb a c = true -> a = c.
Proof. destruct a, c; simpl; intros H; try discriminate; reflexivity. Qed.

Lemma op_guardb_sound o t : op_guardb o t = true -> op_guard o t.
Proof.
  destruct o as [pid cid url hops|pid cid url hops redir|pid cid|id s|id u| | | |]; simpl; intros H; try exact I.
  - apply andb_prop in H as [H1 H2]. split; [exact (existsb_eqb_false _ _ H1)|].
    destruct (find_node pid t) as [p|] eqn:F; [|discriminate]. destruct (find_node_some _ _ _ F) as [Hp Hid].
    exists p. split; [exact Hp|]. split; [exact Hid|]. apply orb_prop in H2 as [H2|H2]; [left|right]; exact (status_eqb_eq _ _ H2).
  - apply andb_prop in H as [H1 H2]. split; [exact (existsb_eqb_false _ _ H1)|].
    destruct (find_node pid t) as [p|] eqn:F; [|discriminate]. destruct (find_node_some _ _ _ F) as [Hp Hid].
    exists p. split; [exact Hp|]. split; [exact Hid|exact (status_eqb_eq _ _ H2)].
  - destruct (find_node id t) as [n|] eqn:F; [|discriminate]. destruct (find_node_some _ _ _ F) as [Hn Hid].
    exists n. split; [exact Hn|]. split; [exact Hid|exact H].
  - exact H.
Qed.

Lemma ops_okb_sound_lemma : ops_okb_sound_stmt.
Proof.
  intros ops. induction ops as [|o r IH]; intros t H; simpl in *; [exact I|].
  apply andb_prop in H as [H1 H2]. split; [exact (op_guardb_sound o t H1)|exact (IH _ H2)].
Qed.

(* ================================================================================== *)
(* non-vacuity: concrete non-trivial trees meet the hypotheses                         *)
(* ================================================================================== *)
Example WF_w_tree : WF w_tree.
Proof. split; [apply NoDup_dec_true; vm_compute; reflexivity|reflexivity]. Qed.

Example WF_big_tree : WF big_tree.
Proof. split; [apply NoDup_dec_true; vm_compute; reflexivity|reflexivity]. Qed.

(* Inv0 holds of a tree with duplicates of all three kinds, and de-duplication really removes
   nodes there (5, 7, 8) while every URL stays *)
Example dedupe_big_tree :
  Inv0 big_tree
  /\ nonseed_urls big_tree = [1; 2; 3; 2; 7; 7; 4; 4; 9; 10]%N
  /\ nonseed_urls (dedupe big_tree) = [1; 2; 3; 7; 4; 9; 10]%N
  /\ ids (dedupe big_tree) = [0; 1; 2; 3; 6; 4; 9; 10]%N.
Proof. split; [exact big_tree_inv0|]. repeat split; vm_compute; reflexivity. Qed.

(* [closed] holds of trees with and without pending nodes *)
Example closed_examples :
  closed big_tree = true /\ no_pending big_tree = false /\ snd (complete_and_check big_tree) = false
  /\ let t := fold_left apply_op (firstn 18 ops1) seed_tree in
     closed t = true /\ no_pending t = true /\ snd (complete_and_check t) = true /\ size t = 4.
Proof. repeat split; vm_compute; reflexivity. Qed.

(* a 21-step operation sequence using every operation meets the guards from a fresh seed *)
Example ops1_ok : WF seed_tree /\ ops_ok ops1 seed_tree.
Proof.
  split; [split; [apply NoDup_dec_true; vm_compute; reflexivity|reflexivity]|].
  apply ops_okb_sound_lemma. vm_compute. reflexivity.
Qed.

Example ops1_wf : WF (fold_left apply_op ops1 seed_tree).
Proof. destruct ops1_ok as [Hwf Hok]. exact (ops_preserve_wf_lemma ops1 seed_tree Hwf Hok). Qed.

(* the guarded operations on the bigger tree: an asset below the GotChildren node 3, then work on
   the fresh node 9 up to a redirect below it *)
Example ops_big_ok :
  ops_ok [SAddAsset 3 11 12 0; SDedupe; SSetStatus 9 PreProcessed; SSetStatus 9 Archived; SAddRedirect 9 12 13 0 2] big_tree.
Proof. apply ops_okb_sound_lemma. vm_compute. reflexivity. Qed.

(* [closed] cannot be dropped from complete_iff: a well-formed tree that is not closed is declared
   complete although a node still awaits fetching *)
Example complete_needs_closed :
  exists t, WF t /\ closed t = false /\ snd (complete_and_check t) = true /\ no_pending t = false.
Proof.
  exists (Node (Info 0 0 Completed false 0 0) [Node (Info 1 1 PreProcessed false 0 0) []]).
  split; [split; [apply NoDup_dec_true; vm_compute; reflexivity|reflexivity]|].
  repeat split; vm_compute; reflexivity.
Qed.
