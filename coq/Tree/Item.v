(* The item tree of pkg/models/item.go and item_dedupe.go: executable model.
   Shared by C11, C01, C05, C06, C08, C16.  Proofs are in ItemProofs.v.

   The Go tree has parent pointers and the stages address nodes by pointer.  The model has no
   pointers: a node is addressed by its id (ids are unique - part of the invariant, and the
   driver checks the pointer side: child.GetParent() == container for every reachable node). *)
From Coq Require Export List NArith Bool Arith.
Export ListNotations.

Inductive status :=
| Fresh | PreProcessed | Archived | Failed | Completed | Seen | GotRedirected | GotChildren.

Definition status_eqb (a c : status) : bool :=
  match a, c with
  | Fresh, Fresh | PreProcessed, PreProcessed | Archived, Archived | Failed, Failed
  | Completed, Completed | Seen, Seen | GotRedirected, GotRedirected | GotChildren, GotChildren => true
  | _, _ => false
  end.

Record info := Info {
  nid : N;        (* id (UUIDs are replaced by first-occurrence indices) *)
  nurl : N;       (* interned URL string: what URL.String() returns *)
  nst : status;
  nvia : bool;    (* seedVia != "" *)
  nhops : N;      (* URL.Hops *)
  nredir : N      (* URL.Redirects *)
}.

Inductive item := Node (i : info) (cs : list item).

Definition inf (t : item) : info := match t with Node i _ => i end.
Definition kids (t : item) : list item := match t with Node _ cs => cs end.
Definition st_of (t : item) : status := nst (inf t).
Definition id_of (t : item) : N := nid (inf t).
Definition url_of (t : item) : N := nurl (inf t).

Definition set_st (s : status) (i : info) : info :=
  Info (nid i) (nurl i) s (nvia i) (nhops i) (nredir i).
Definition set_url (u : N) (i : info) : info :=
  Info (nid i) u (nst i) (nvia i) (nhops i) (nredir i).

(* ---- getters ---------------------------------------------------------------------- *)

Fixpoint max_depth (t : item) : nat :=
  match t with
  | Node _ [] => 0
  | Node _ cs => S (list_max (map max_depth cs))
  end.

(* GetNodesAtLevel, pre-order *)
Fixpoint nodes_at (lvl : nat) (t : item) : list item :=
  match lvl with
  | 0 => [t]
  | S l => match t with Node _ cs => flat_map (nodes_at l) cs end
  end.

(* pre-order flattening *)
Fixpoint flatten (t : item) : list item :=
  match t with Node _ cs => t :: flat_map flatten cs end.

Definition ids (t : item) : list N := map id_of (flatten t).
Definition size (t : item) : nat := length (flatten t).

(* HasWork *)
Definition has_work_st (s : status) : bool :=
  match s with Completed | Seen | Failed => false | _ => true end.
Definition has_work (t : item) : bool := has_work_st (st_of t).

(* GetDepthWithoutRedirections of every node, pre-order: [d] is the value of the parent
   (seed: its own value is -1 when GotRedirected, else 0; encoded +1 to stay in nat) *)
Definition dwr_seed (t : item) : nat :=
  match st_of t with GotRedirected => 0 | _ => 1 end.
Definition dwr_child (pd : nat) (t : item) : nat :=
  match st_of t with GotRedirected => pd | _ => S pd end.
Fixpoint dwr_list (d : nat) (t : item) : list (N * nat) :=   (* d = this node's value + 1 *)
  match t with
  | Node i cs => (nid i, d) :: flat_map (fun c => dwr_list (dwr_child d c) c) cs
  end.
Definition dwr_all (t : item) : list (N * nat) := dwr_list (dwr_seed t) t.

(* ---- CheckConsistency: 0 = consistent, k = number of the first rule that fails ------ *)
Definition is_got (s : status) : bool :=
  match s with GotChildren | GotRedirected => true | _ => false end.

Definition check_node (parent : option status) (t : item) : nat :=
  match t with
  | Node i cs =>
    let nonempty := match cs with [] => false | _ => true end in
    if match parent with Some _ => nvia i | None => false end then 3
    else if status_eqb (nst i) Fresh && nonempty then 4
    else if status_eqb (nst i) Fresh && match parent with Some ps => negb (is_got ps) | None => false end then 5
    else if Nat.ltb 1 (length cs) && status_eqb (nst i) GotRedirected then 6
    else if nonempty && negb (is_got (nst i) || status_eqb (nst i) Completed || status_eqb (nst i) Failed) then 7
    else 0
  end.

Fixpoint first_nonzero (l : list nat) : nat :=
  match l with [] => 0 | 0 :: r => first_nonzero r | k :: _ => k end.

Fixpoint check (parent : option status) (t : item) : nat :=
  match check_node parent t with
  | 0 => match t with Node i cs => first_nonzero (map (check (Some (nst i))) cs) end
  | k => k
  end.

Definition check_consistency (t : item) : nat := check None t.

(* ---- mutators, addressed by id ---------------------------------------------------- *)

(* apply [f] to every node whose id is [id] (one node, ids being unique) *)
Fixpoint update (id : N) (f : item -> item) (t : item) : item :=
  match t with
  | Node i cs =>
    let t' := Node i (map (update id f) cs) in
    if N.eqb (nid i) id then f t' else t'
  end.

Definition set_status (id : N) (s : status) (t : item) : item :=
  update id (fun n => match n with Node i cs => Node (set_st s i) cs end) t.

(* AddChild for a NEW child (no previous parent): error 1 = invalid [from] *)
Definition new_child (cid url hops redir : N) (via : bool) : item :=
  Node (Info cid url Fresh via hops redir) [].

Definition add_child (pid : N) (c : item) (from : status) (t : item) : option item :=
  if is_got from then
    Some (update pid (fun n => match n with Node i cs =>
            Node (set_st from i) (cs ++ [match c with Node ci ccs => Node (set_st Fresh ci) ccs end]) end) t)
  else None.

(* _unsafeRemoveChild: the first child with that id *)
Fixpoint remove_first (cid : N) (cs : list item) : list item :=
  match cs with
  | [] => []
  | c :: r => if N.eqb (id_of c) cid then r else c :: remove_first cid r
  end.

Definition remove_child (pid cid : N) (t : item) : item :=
  update pid (fun n => match n with Node i cs => Node i (remove_first cid cs) end) t.

(* ---- markCompleted (post-order) --------------------------------------------------- *)
Fixpoint mark_completed (t : item) : item :=
  match t with
  | Node i cs =>
    let cs' := map mark_completed cs in
    if forallb (fun c => negb (has_work c)) cs' && is_got (nst i)
    then Node (set_st Completed i) cs'
    else Node i cs'
  end.

(* CompleteAndCheck on a seed *)
Definition complete_and_check (t : item) : item * bool :=
  if negb (has_work t) then (t, true)
  else let t' := mark_completed t in (t', negb (has_work t')).

(* ---- DedupeItems ------------------------------------------------------------------ *)
(* flattened non-seed nodes with their parent's id: (id, url, status, parent id) *)
Fixpoint flat_with_parent (pid : N) (t : item) : list (N * N * status * N) :=
  match t with
  | Node i cs => (nid i, nurl i, nst i, pid) :: flat_map (flat_with_parent (nid i)) cs
  end.
Definition nonseed_flat (t : item) : list (N * N * status * N) :=
  match t with Node i cs => flat_map (flat_with_parent (nid i)) cs end.

Fixpoint assoc {V} (k : N) (l : list (N * V)) : option V :=
  match l with
  | [] => None
  | (k', v) :: r => if N.eqb k k' then Some v else assoc k r
  end.

(* which of two nodes with one URL is dropped: [true] = drop the EXISTING (earlier) one.
   Code as fixed by "fix: DedupeItems ..." : keep a Completed node over a non-Completed one,
   and never drop a node that was already worked on in favour of a Fresh one. *)
Definition drop_existing (est st : status) : bool :=
  (negb (status_eqb est Completed) && status_eqb st Completed)
  || (status_eqb est Fresh && negb (status_eqb st Fresh)).

(* the rule before the fix (kept for the refutation witness) *)
Definition drop_existing_orig (est st : status) : bool :=
  negb (status_eqb est Completed) && status_eqb st Completed.

Section Dedupe.
Variable rule : status -> status -> bool.

Fixpoint dedupe_loop (nodes : list (N * N * status * N)) (seen : list (N * (N * status * N)))
         (t : item) : item :=
  match nodes with
  | [] => t
  | (id, url, st, pid) :: r =>
    match assoc url seen with
    | Some (eid, est, epid) =>
      if rule est st
      then dedupe_loop r ((url, (id, st, pid)) :: seen) (remove_child epid eid t)
      else dedupe_loop r seen (remove_child pid id t)
    | None => dedupe_loop r ((url, (id, st, pid)) :: seen) t
    end
  end.

Definition dedupe_with (t : item) : item :=
  mark_completed (dedupe_loop (nonseed_flat t) [] t).
End Dedupe.

Definition dedupe : item -> item := dedupe_with drop_existing.
Definition dedupe_orig : item -> item := dedupe_with drop_existing_orig.

Definition nonseed_urls (t : item) : list N :=
  match t with Node _ cs => map url_of (flat_map flatten cs) end.

(* ---- pending = awaits fetching or post-processing ---------------------------------- *)
Definition pending_st (s : status) : bool :=
  match s with Fresh | PreProcessed | Archived => true | _ => false end.
Definition no_pending (t : item) : bool :=
  forallb (fun n => negb (pending_st (st_of n))) (flatten t).
