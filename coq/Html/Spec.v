(* C07 - the property's vocabulary over DOMs: when an element references a URL through one of the
   standard embedding attributes (img src/srcset, script src, link href, source src/srcset,
   video/audio src, url() in style elements and style attributes).  Model/specification file:
   definitions only.

   Every rule carries, as hypotheses, the excuses the property grants (the tag is not disabled;
   link rel=alternate only with --capture-alternate-pages) and the NAMED exclusions of the code
   (well-formedness of srcset / CSS values as defined in Plant.v, [css_kept], [style_attr_skip]).
   The exclusion that contradicts the property text is a known finding with a witness
   (ScanProofs.v: style_attr_percent_refuted).  The exclusions the code as found had for
   srcset values (commas, tabs) and for url() in style elements (quotes, double slashes) are
   repaired; the old behaviour is kept as _orig definitions with refutation witnesses. *)
From Coq Require Import List Ascii String NArith ZArith Bool.
From ZenoV Require Import Lib.Hex Html.Bytes Html.Scan Html.Html Html.Plant.
Import ListNotations.

Definition wf_srcset (cs : list scand) : Prop := wf_cands cs = true.

Inductive referenced (c : cfg) (e : node) : bytes -> Prop :=
| ref_img_src u :
    tag_is "img" e = true -> dis c "img" = false -> attr e "src" = Some u -> referenced c e u
| ref_img_srcset cs x :
    tag_is "img" e = true -> dis c "img" = false ->
    attr e "srcset" = Some (render_srcset cs) -> wf_srcset cs -> In x cs ->
    referenced c e (sc_url x)
| ref_script_src u :
    tag_is "script" e = true -> dis c "script" = false -> attr e "src" = Some u -> referenced c e u
| ref_link_href u :
    tag_is "link" e = true -> dis c "link" = false ->
    (c_alt c = true \/ is_alternate e = false) ->
    attr e "href" = Some u -> referenced c e u
| ref_source_src u :
    tag_is "source" e = true -> dis c "source" = false -> attr e "src" = Some u -> referenced c e u
| ref_source_srcset cs x :
    tag_is "source" e = true -> dis c "source" = false ->
    attr e "srcset" = Some (render_srcset cs) -> wf_srcset cs -> In x cs ->
    referenced c e (sc_url x)
| ref_video_src u :
    tag_is "video" e = true -> dis c "video" = false -> attr e "src" = Some u -> referenced c e u
| ref_audio_src u :
    tag_is "audio" e = true -> dis c "audio" = false -> attr e "src" = Some u -> referenced c e u
| ref_style_elem d t :
    tag_is "style" e = true -> dis c "style" = false ->
    text_of e = render_css d -> wf_css d = true -> In t (fst d) -> css_kept (ct_url t) = true ->
    referenced c e (ct_url t)
| ref_style_attr d t :
    attr e "style" = Some (render_sty d) -> wf_sty d = true -> In t (fst d) ->
    style_attr_skip (st_body t) = false ->
    referenced c e (st_body t).

(* an anchor target *)
Definition anchor (c : cfg) (e : node) (u : bytes) : Prop :=
  tag_is "a" e = true /\ dis c "a" = false /\ attr e "href" = Some u /\ u <> [].
