(* C07 - DOM-level model of the HTML extractor and of what the postprocessor does with its
   answers.  Model file: definitions only.

     HTMLAssets, HTMLOutlinks, extractBaseTag   internal/pkg/postprocessor/extractor/{html,base}.go
     extractAssets (filter), shouldExtract*     internal/pkg/postprocessor/{assets,outlinks}.go
     postprocessItem (guards, children)         internal/pkg/postprocessor/item.go
     NormalizeURL (quote trimming; the parser itself is an oracle)  internal/pkg/preprocessor/url.go

   The HTML parser (goquery / golang.org/x/net/html) is bypassed: the model works on the DOM.
   The driver renders generated DOMs to text and checks node by node that the real parser reads
   the rendering back to the same DOM before it looks at the extractor's answers.

   Oracles (Section variables; the driver records the real functions' answers per case):
     data_item_urls   GetURLsFromJSON on a [data-item] attribute (encoding/json + heuristics, C19)
     script_extra     what HTMLAssets adds for a <script> besides its src: JSON bodies, the xurls
                      match over the outer HTML, extractFromScriptContent
     onclick_url      the window.location regular expression on an onclick attribute
     resolve_url      extractor.resolveURL (net/url Parse + ResolveReference)
     dc_match         domainscrawl.Match
     page_links       what extractOutlinks adds to the HTML outlinks: Link headers and the xurls
                      sweep over the whole body of a text/* response *)
From Coq Require Import List Ascii String NArith ZArith Bool.
From ZenoV Require Import Lib.Hex Html.Bytes Html.Scan.
Import ListNotations.
Open Scope char_scope.

(* ---------- DOM *)
Inductive node :=
| Text (t : bytes)
| Comment (t : bytes)
| Elem (tag : bytes) (attrs : list (bytes * bytes)) (kids : list node).

(* the element nodes of a subtree in document order (what goquery's Find visits) *)
Fixpoint elems (n : node) : list node :=
  match n with
  | Elem _ _ ks => n :: flat_map elems ks
  | _ => []
  end.
Definition all_elems (dom : list node) : list node := flat_map elems dom.

(* goquery Selection.Text(): the text nodes of the subtree, concatenated *)
Fixpoint text_of (n : node) : bytes :=
  match n with
  | Text t => t
  | Comment _ => []
  | Elem _ _ ks => flat_map text_of ks
  end.

Definition tag_of (e : node) : bytes := match e with Elem t _ _ => t | _ => [] end.
Definition tag_is (t : string) (e : node) : bool := bytes_eqb (tag_of e) (bs t).
(* Selection.Attr: the first attribute with that key *)
Definition attr (e : node) (k : string) : option bytes :=
  match e with Elem _ a _ => assoc (bs k) a | _ => None end.

(* ---------- configuration (the three switches of the property + hop limit) *)
Record cfg := Cfg {
  c_disabled : list bytes;     (* --disable-html-tag *)
  c_alt : bool;                (* --capture-alternate-pages *)
  c_noassets : bool;           (* --disable-assets-capture *)
  c_maxhops : Z                (* --max-hops *)
}.
(* slices.Contains(config.Get().DisableHTMLTag, t) *)
Definition dis (c : cfg) (t : string) : bool := mem (bs t) (c_disabled c).

Definition srcset_of (o : option bytes) : list bytes :=
  match o with Some v => srcset_urls v | None => [] end.

Section Extract.
Variable data_item_urls : bytes -> list bytes.
Variable script_extra : node -> list bytes.
Variable onclick_url : bytes -> option bytes.

(* document.Find("[data-item], [style], [data-preview]") *)
Definition sec_attrs (e : node) : list bytes :=
  match attr e "data-item" with Some v => data_item_urls v | None => [] end
  ++ match attr e "style" with Some v => style_attr_urls v | None => [] end
  ++ match attr e "data-preview" with
     | Some v => if prefixb (bs "http") v then [v] else []
     | None => []
     end.

Definition a_asset_attrs : list string :=
  ["href"; "data-href"; "data-src"; "data-srcset"; "data-lazy-src"; "data-srcset"; "src"; "srcset"]%string.
Definition sec_a (e : node) : list bytes :=
  flat_map (fun k => match attr e k with
                     | Some v => if has_asset_path v then [v] else []
                     | None => []
                     end) a_asset_attrs.

Definition sec_img (e : node) : list bytes :=
  opt_list (attr e "src") ++ opt_list (attr e "data-src") ++ opt_list (attr e "data-lazy-src")
  ++ srcset_of (attr e "data-srcset") ++ srcset_of (attr e "srcset").

(* document.Find("video[src], audio[src]") with the enabled tags only *)
Definition sec_media (c : cfg) (e : node) : list bytes :=
  if (tag_is "video" e && negb (dis c "video")) || (tag_is "audio" e && negb (dis c "audio"))
  then opt_list (attr e "src") else [].

Definition sec_style (e : node) : list bytes := css_urls (text_of e).

Definition sec_script (e : node) : list bytes := opt_list (attr e "src") ++ script_extra e.

Definition is_alternate (e : node) : bool :=
  match attr e "rel" with Some r => bytes_eqb r (bs "alternate") | None => false end.
Definition sec_link (c : cfg) (e : node) : list bytes :=
  if negb (c_alt c) && is_alternate e then [] else opt_list (attr e "href").

Definition sec_meta (e : node) : list bytes :=
  opt_list (attr e "href")
  ++ match attr e "content" with
     | Some v => if containsb (bs "http") v then [v] else []
     | None => []
     end.

Definition sec_source (e : node) : list bytes :=
  opt_list (attr e "src") ++ srcset_of (attr e "srcset") ++ srcset_of (attr e "data-srcset").

Definition on_tag (c : cfg) (t : string) (f : node -> list bytes) (els : list node) : list bytes :=
  if dis c t then [] else flat_map f (filter (tag_is t) els).

(* HTMLAssets: the raw strings, in the order the code appends them *)
Definition html_assets (c : cfg) (dom : list node) : list bytes :=
  let els := all_elems dom in
  flat_map sec_attrs els
  ++ on_tag c "a" sec_a els
  ++ on_tag c "img" sec_img els
  ++ flat_map (sec_media c) els
  ++ on_tag c "style" sec_style els
  ++ on_tag c "script" sec_script els
  ++ on_tag c "link" (sec_link c) els
  ++ on_tag c "meta" sec_meta els
  ++ on_tag c "source" sec_source els.

(* ---------- HTMLOutlinks *)
Definition a_link_attrs : list string :=
  ["href"; "data-href"; "data-url"; "data-link"; "data-redirect-url"; "ping"; "onclick";
   "router-link"; "to"]%string.
Definition a_raw (e : node) : list bytes :=
  flat_map (fun k => match attr e k with
                     | Some [] | None => []
                     | Some v => if String.eqb k "onclick" then opt_list (onclick_url v) else [v]
                     end) a_link_attrs.
Definition html_outlinks_raw (c : cfg) (dom : list node) : list bytes :=
  on_tag c "a" a_raw (all_elems dom).

(* extractBaseTag: doc.Find("base").First().Attr("href"); "" when there is none *)
Definition base_of (dom : list node) : bytes :=
  match filter (tag_is "base") (all_elems dom) with
  | e :: _ => match attr e "href" with Some v => v | None => [] end
  | [] => []
  end.
Definition has_base (dom : list node) : bool :=
  existsb (tag_is "base") (all_elems dom).

(* resolve_url base raw: resolveURL(raw, item) with item.GetBase() = base ("" = the page URL);
   None = error *)
Variable resolve_url : bytes -> bytes -> option bytes.

(* the loop at the end of HTMLOutlinks; [page] is item.GetURL().String() *)
Definition outlink_of (base page raw : bytes) : list bytes :=
  match resolve_url base raw with
  | Some ((_ :: _) as r) => [r]
  | _ => if bytes_eqb raw base || bytes_eqb raw page then [] else [raw]
  end.
Definition html_outlinks (c : cfg) (page : bytes) (dom : list node) : list bytes :=
  flat_map (outlink_of (base_of dom) page) (html_outlinks_raw c dom).

(* ---------- postprocessItem on an archived HTML item *)
Record pstate := PState {
  p_status : Z;        (* HTTP status code of the response *)
  p_depth : Z;         (* item.GetDepthWithoutRedirections() *)
  p_mime_html : bool;  (* sniffed MIME type contains "html" *)
  p_hops : Z;          (* item.GetURL().GetHops() *)
  p_dc : bool          (* domainscrawl.Enabled() *)
}.

Definition is_redirect (code : Z) : bool :=
  existsb (Z.eqb code) [300; 301; 302; 303; 307; 308]%Z.

(* the early returns (item completed, nothing extracted).

   Third guard.  The code as found returns as soon as asset capture is off (and domains crawl is
   off), BEFORE the outlinks are looked at: with --disable-assets-capture no anchor ever becomes
   an outlink, whatever --max-hops says (archiver.ProcessBody keeps the body in exactly that
   configuration, for the outlinks).  [post_stops_orig] is that code;  [post_stops] follows the
   repair in /verif/fixes/C07-outlinks-without-assets.diff (the guard also asks that the hop
   limit forbids outlinks). *)
Definition post_stops_gen (third : bool) (c : cfg) (s : pstate) : bool :=
  is_redirect (p_status s)
  || (negb (p_dc s) && (2 <? p_depth s)%Z)
  || (negb (p_dc s) && (p_depth s =? 1)%Z && p_mime_html s)
  || third
  || negb (p_status s =? 200)%Z.
Definition post_stops_orig (c : cfg) (s : pstate) : bool :=
  post_stops_gen (c_noassets c && negb (p_dc s)) c s.
Definition post_stops_fixed (c : cfg) (s : pstate) : bool :=
  post_stops_gen (c_noassets c && negb (p_dc s) && (c_maxhops c <=? p_hops s)%Z) c s.

(* which of the two the tree under test contains (the driver finds out with one fixed document
   at start-up, so that the same harness ties the model to the code before and after the
   repair is committed); the theorems are about [true] *)
Variable repaired : bool.
Definition post_stops (c : cfg) (s : pstate) : bool :=
  if repaired then post_stops_fixed c s else post_stops_orig c s.

(* the raw strings of the children created for assets (extractAssets drops what equals the
   item's own URL string; shouldExtractAssets) *)
Definition post_assets (c : cfg) (s : pstate) (page : bytes) (dom : list node) : list bytes :=
  if post_stops c s || c_noassets c then []
  else filter (fun a => negb (bytes_eqb a page)) (html_assets c dom).

Variable dc_match : bytes -> bool.
Variable page_links : list bytes.

Definition should_outlinks (c : cfg) (s : pstate) : bool :=
  p_dc s || (p_hops s <? c_maxhops c)%Z.

(* the URL strings of the outlink items returned by postprocessItem *)
Definition post_outlinks (c : cfg) (s : pstate) (page : bytes) (dom : list node) : list bytes :=
  if post_stops c s || negb (should_outlinks c s) then []
  else filter (fun u => negb (p_dc s && negb (dc_match u) && (c_maxhops c <=? p_hops s)%Z))
              (html_outlinks c page dom ++ page_links).

(* extractOutlinks asks IsS3 before IsHTML: a response whose Server header names an S3-like
   store AND whose Content-Type contains "xml" (as written, case-sensitive) - but is not
   application/xhtml+xml (isContentType: case-insensitive) - goes to the bucket-listing decoder.
   [s3_out] is what comes out of that branch (nothing when the decoder rejects the body, as it
   does for an HTML document).  [is_s3_orig] is IsS3 before the repair C07-s3-xhtml: it also
   claimed XHTML pages. *)
Definition s3_servers : list bytes :=
  [bs "AmazonS3"; bs "WasabiS3"; bs "UploadServer"; bs "Windows-Azure-Blob"; bs "AliyunOSS"].
Definition s3_server (server : bytes) : bool := existsb (fun s => containsb s server) s3_servers.
Definition is_s3_orig (server ctype : bytes) : bool :=
  s3_server server && containsb (bs "xml") ctype.
Definition is_xhtml (ctype : bytes) : bool := containsb (bs "application/xhtml+xml") (lower ctype).
Definition is_s3 (server ctype : bytes) : bool :=
  s3_server server && containsb (bs "xml") ctype && negb (is_xhtml ctype).
Variable s3_out : list bytes.
Definition post_outlinks_resp_gen (s3 : bool) (c : cfg) (s : pstate) (page : bytes)
           (dom : list node) : list bytes :=
  if post_stops c s || negb (should_outlinks c s) then []
  else if s3 then s3_out
  else post_outlinks c s page dom.
Definition post_outlinks_resp (server ctype : bytes) :=
  post_outlinks_resp_gen (is_s3 server ctype).
Definition post_outlinks_resp_orig (server ctype : bytes) :=
  post_outlinks_resp_gen (is_s3_orig server ctype).

(* ---------- the next pass: NormalizeURL(child, parent) = trim quotes, then the URL parser *)
Variable norm : bytes -> option bytes.   (* ada against the page URL, scheme/host checks; None = error *)
Definition requested (c : cfg) (s : pstate) (page : bytes) (dom : list node) : list bytes :=
  flat_map (fun raw => opt_list (norm (trim_quotes raw))) (post_assets c s page dom).

(* preprocess() on the children of the page item (seencheck off, no scope filter): every child is
   normalised against its PARENT item's URL - [norm] above is that parser with the page as
   parent -, a child that cannot be normalised is removed, and so is a child whose path is empty
   or "/" ("just a domain"); DedupeItems keeps one of equal URLs and drops a fresh child whose
   URL is that of a non-seed item already in the tree ([tree]: the redirect hops below the seed
   and the page itself when it is not the seed); a request is built for each survivor.
   [is_root u]: URL.GetParsed().Path of u is "" or "/". *)
Variable is_root : bytes -> bool.
Definition pre_requests (tree : list bytes) (c : cfg) (s : pstate) (page : bytes) (dom : list node)
  : list bytes :=
  filter (fun u => negb (is_root u) && negb (mem u tree)) (requested c s page dom).

End Extract.
