(* C07 - byte-string helpers that transcribe the Go [strings] functions used by the HTML
   extractor (internal/pkg/postprocessor/extractor/html.go).  Model file: definitions only.

   Alphabet note: [trim_space] is Go's strings.TrimSpace on ASCII input.  TrimSpace also removes
   the non-ASCII Unicode spaces (U+0085, U+00A0, U+1680, U+2000-200A, U+2028/9, U+202F, U+205F,
   U+3000); the generated url(...) texts contain none of those. *)
From Coq Require Import List Ascii String NArith Bool.
From ZenoV Require Import Lib.Hex.
Import ListNotations.
Open Scope char_scope.

Definition nl : ascii := "010".
Definition is_quote (c : ascii) : bool := Ascii.eqb c "'" || Ascii.eqb c """".

(* strings.HasPrefix *)
Fixpoint prefixb (p s : bytes) : bool :=
  match p, s with
  | [], _ => true
  | a :: p', c :: s' => Ascii.eqb a c && prefixb p' s'
  | _ :: _, [] => false
  end.

(* strings.Contains *)
Fixpoint containsb (p s : bytes) : bool :=
  prefixb p s || match s with [] => false | _ :: r => containsb p r end.

Definition has_byte (c : ascii) (s : bytes) : bool := existsb (Ascii.eqb c) s.

(* strings.Split(s, string(c)): never empty *)
Fixpoint split_on (c : ascii) (s : bytes) : list bytes :=
  match s with
  | [] => [[]]
  | a :: r =>
    if Ascii.eqb a c then [] :: split_on c r
    else match split_on c r with
         | h :: t => (a :: h) :: t
         | [] => [[a]]
         end
  end.

(* unicode.IsSpace on ASCII: \t \n \v \f \r and space *)
Definition is_space (c : ascii) : bool :=
  let n := N_of_ascii c in ((9 <=? n)%N && (n <=? 13)%N) || (n =? 32)%N.

Fixpoint trim_left (s : bytes) : bytes :=
  match s with
  | c :: r => if is_space c then trim_left r else s
  | [] => []
  end.
Definition trim_right (s : bytes) : bytes := rev (trim_left (rev s)).
(* strings.TrimSpace *)
Definition trim_space (s : bytes) : bytes := trim_right (trim_left s).

(* strings.Trim(s, both quote characters) *)
Fixpoint trimq_left (s : bytes) : bytes :=
  match s with
  | c :: r => if is_quote c then trimq_left r else s
  | [] => []
  end.
Definition trim_quotes (s : bytes) : bytes := rev (trimq_left (rev (trimq_left s))).

(* strings.Replace of each of the two quote characters by nothing, everywhere *)
Definition strip_quotes (s : bytes) : bytes := filter (fun c => negb (is_quote c)) s.

(* strings.Replace(s, "//", "http://", -1): non-overlapping, left to right *)
Fixpoint slashslash (s : bytes) : bytes :=
  match s with
  | c :: r =>
    if Ascii.eqb c "/" then
      match r with
      | d :: r' => if Ascii.eqb d "/" then bs "http://" ++ slashslash r' else c :: slashslash r
      | [] => [c]
      end
    else c :: slashslash r
  | [] => []
  end.

(* strings.ToLower on ASCII *)
Definition lower_char (c : ascii) : ascii :=
  let n := N_of_ascii c in
  if ((65 <=? n) && (n <=? 90))%N then ascii_of_N (n + 32) else c.
Definition lower (s : bytes) : bytes := map lower_char s.

Fixpoint join (sep : bytes) (l : list bytes) : bytes :=
  match l with
  | [] => []
  | [x] => x
  | x :: r => x ++ sep ++ join sep r
  end.

Definition opt_list {A} (o : option A) : list A := match o with Some v => [v] | None => [] end.

Fixpoint assoc (k : bytes) (l : list (bytes * bytes)) : option bytes :=
  match l with
  | [] => None
  | (k', v) :: r => if bytes_eqb k k' then Some v else assoc k r
  end.

Definition mem (x : bytes) (l : list bytes) : bool := existsb (bytes_eqb x) l.
Definition subset (a c : list bytes) : bool := forallb (fun x => mem x c) a.
Definition set_eq (a c : list bytes) : bool := subset a c && subset c a.
