(* C07 - proofs over DOMs: every URL referenced through a standard embedding attribute is among
   the strings of HTMLAssets; anchors become outlinks under the hop guard; composition with the
   postprocessor's filters and the next pass' NormalizeURL (oracle). *)
From Coq Require Import List Ascii String NArith ZArith Bool Lia.
From ZenoV Require Import Lib.Hex Html.Bytes Html.Scan Html.Html Html.Ref Html.Plant Html.Spec Html.ScanProofs.
Import ListNotations.

Ltac in_apps := repeat first [assumption | apply in_or_app; (left; assumption) || right].

Lemma in_on_tag c t f els e u :
  In e els -> tag_is t e = true -> dis c t = false -> In u (f e) -> In u (on_tag c t f els).
Proof.
  intros He Ht Hd Hu. unfold on_tag. rewrite Hd. apply in_flat_map. exists e. split; auto.
  apply filter_In. auto.
Qed.

Lemma in_opt_list {A} (o : option A) u : o = Some u -> In u (opt_list o).
Proof. intros ->. left. reflexivity. Qed.

Lemma in_srcset_of o cs x :
  o = Some (render_srcset cs) -> wf_srcset cs -> In x cs -> In (sc_url x) (srcset_of o).
Proof. intros -> Hwf Hx. simpl. apply srcset_split_complete_lemma; auto. Qed.

Section Extraction.
Variable data_item_urls : bytes -> list bytes.
Variable script_extra : node -> list bytes.
Let assets := html_assets data_item_urls script_extra.

Lemma standard_attrs_extracted_lemma : forall (c : cfg) (dom : list node) (e : node) (u : bytes),
  In e (all_elems dom) -> referenced c e u -> In u (assets c dom).
Proof.
  intros c dom e u He Href. unfold assets, html_assets.
  set (els := all_elems dom) in *.
  destruct Href as [u Ht Hd Ha | cs x Ht Hd Ha Hwf Hx | u Ht Hd Ha | u Ht Hd Halt Ha
                   | u Ht Hd Ha | cs x Ht Hd Ha Hwf Hx | u Ht Hd Ha | u Ht Hd Ha
                   | d t Ht Hd Htxt Hwf Hin Hk | d t Ha Hwf Hin Hk].
  - (* img src *)
    assert (In u (on_tag c "img" sec_img els)).
    { eapply in_on_tag; eauto. unfold sec_img. apply in_or_app. left. apply in_opt_list. auto. }
    in_apps.
  - (* img srcset *)
    assert (In (sc_url x) (on_tag c "img" sec_img els)).
    { eapply in_on_tag; eauto. unfold sec_img.
      do 4 (apply in_or_app; right). eapply in_srcset_of; eauto. }
    in_apps.
  - (* script src *)
    assert (In u (on_tag c "script" (sec_script script_extra) els)).
    { eapply in_on_tag; eauto. unfold sec_script. apply in_or_app. left. apply in_opt_list. auto. }
    in_apps.
  - (* link href *)
    assert (In u (on_tag c "link" (sec_link c) els)).
    { eapply in_on_tag; eauto. unfold sec_link.
      assert (negb (c_alt c) && is_alternate e = false) as ->.
      { destruct Halt as [->| ->]; [reflexivity|apply andb_false_r]. }
      apply in_opt_list. auto. }
    in_apps.
  - (* source src *)
    assert (In u (on_tag c "source" sec_source els)).
    { eapply in_on_tag; eauto. unfold sec_source. apply in_or_app. left. apply in_opt_list. auto. }
    in_apps.
  - (* source srcset *)
    assert (In (sc_url x) (on_tag c "source" sec_source els)).
    { eapply in_on_tag; eauto. unfold sec_source.
      apply in_or_app; right. apply in_or_app; left. eapply in_srcset_of; eauto. }
    in_apps.
  - (* video src *)
    assert (In u (flat_map (sec_media c) els)).
    { apply in_flat_map. exists e. split; auto. unfold sec_media. rewrite Ht, Hd. simpl.
      apply in_opt_list. auto. }
    in_apps.
  - (* audio src *)
    assert (In u (flat_map (sec_media c) els)).
    { apply in_flat_map. exists e. split; auto. unfold sec_media. rewrite Ht, Hd. simpl.
      rewrite orb_true_r. apply in_opt_list. auto. }
    in_apps.
  - (* style element *)
    assert (In (ct_url t) (on_tag c "style" sec_style els)).
    { eapply in_on_tag; eauto. unfold sec_style. rewrite Htxt.
      apply css_urls_complete_lemma; auto. }
    in_apps.
  - (* style attribute *)
    assert (In (st_body t) (flat_map (sec_attrs data_item_urls) els)).
    { apply in_flat_map. exists e. split; auto. unfold sec_attrs. rewrite Ha.
      apply in_or_app. right. apply in_or_app. left.
      apply style_attr_complete_lemma; auto. }
    in_apps.
Qed.
End Extraction.

(* ---------- anchors *)
Section Outlinks.
Variable onclick_url : bytes -> option bytes.

Lemma anchors_raw_lemma : forall (c : cfg) (dom : list node) (e : node) (u : bytes),
  In e (all_elems dom) -> anchor c e u -> In u (html_outlinks_raw onclick_url c dom).
Proof.
  intros c dom e u He (Ht & Hd & Ha & Hne). unfold html_outlinks_raw.
  eapply in_on_tag; eauto. unfold a_raw. apply in_flat_map. exists "href"%string. split.
  - left. reflexivity.
  - rewrite Ha. destruct u as [|x u]; [congruence|]. simpl. left. reflexivity.
Qed.

Variable resolve_url : bytes -> bytes -> option bytes.

Lemma anchors_resolved_lemma : forall (c : cfg) (page : bytes) (dom : list node) (e : node) (u r : bytes),
  In e (all_elems dom) -> anchor c e u ->
  resolve_url (base_of dom) u = Some r -> r <> [] ->
  In r (html_outlinks onclick_url resolve_url c page dom).
Proof.
  intros c page dom e u r He Ha Hr Hne. unfold html_outlinks. apply in_flat_map.
  exists u. split; [eapply anchors_raw_lemma; eauto|].
  unfold outlink_of. rewrite Hr. destruct r; [congruence|]. left. reflexivity.
Qed.

Variable dc_match : bytes -> bool.
Variable page_links : list bytes.

Lemma post_stops_repaired c s : post_stops true c s = post_stops_fixed c s.
Proof. reflexivity. Qed.

(* hop guard as in outlinks.go / item.go (after the repair of the third guard) *)
Lemma anchors_become_outlinks_lemma :
  forall (c : cfg) (s : pstate) (page : bytes) (dom : list node) (e : node) (u r : bytes),
  In e (all_elems dom) -> anchor c e u ->
  resolve_url (base_of dom) u = Some r -> r <> [] ->
  post_stops_fixed c s = false -> (p_hops s < c_maxhops c)%Z ->
  In r (html_outlinks onclick_url resolve_url c page dom)
  /\ In r (post_outlinks onclick_url resolve_url true dc_match page_links c s page dom).
Proof.
  intros c s page dom e u r He Ha Hr Hne Hst Hh.
  assert (Hin : In r (html_outlinks onclick_url resolve_url c page dom))
    by (eapply anchors_resolved_lemma; eauto).
  split; [exact Hin|].
  unfold post_outlinks. rewrite post_stops_repaired, Hst.
  assert (Hlt : (p_hops s <? c_maxhops c)%Z = true) by (apply Z.ltb_lt; exact Hh).
  unfold should_outlinks. rewrite Hlt, orb_true_r. simpl.
  apply filter_In. split; [apply in_or_app; left; exact Hin|].
  assert ((c_maxhops c <=? p_hops s)%Z = false) as -> by (apply Z.leb_gt; exact Hh).
  rewrite andb_false_r. reflexivity.
Qed.
(* dispatch order of extractOutlinks: the S3 listing decoder only gets XML content types other
   than XHTML, so a page whose Content-Type does not contain "xml", or is application/xhtml+xml,
   has its anchors taken by the HTML extractor whatever the Server header says *)
Variable s3_out : list bytes.
Lemma outlinks_dispatch_lemma :
  forall (server ctype : bytes) (c : cfg) (s : pstate) (page : bytes) (dom : list node),
  containsb (bs "xml") ctype = false \/ is_xhtml ctype = true ->
  post_outlinks_resp onclick_url resolve_url true dc_match page_links s3_out server ctype c s page dom
  = post_outlinks onclick_url resolve_url true dc_match page_links c s page dom.
Proof.
  intros server ctype c s page dom Hct.
  unfold post_outlinks_resp, post_outlinks_resp_gen, post_outlinks, is_s3.
  assert (s3_server server && containsb (bs "xml") ctype && negb (is_xhtml ctype) = false) as ->.
  { destruct Hct as [-> | ->]; [rewrite andb_false_r; reflexivity|apply andb_false_r]. }
  destruct (post_stops true c s || negb (should_outlinks c s)); reflexivity.
Qed.
End Outlinks.

(* ---------- the next pass *)
Lemma no_base dom : has_base dom = false -> base_of dom = [].
Proof.
  unfold has_base, base_of. intros H.
  assert (filter (tag_is "base") (all_elems dom) = []) as ->; [|reflexivity].
  induction (all_elems dom) as [|e l IH]; [reflexivity|].
  simpl in H. apply orb_false_elim in H as [He Hl]. simpl. rewrite He. auto.
Qed.

Section Resolution.
Variable data_item_urls : bytes -> list bytes.
Variable script_extra : node -> list bytes.
Variable page : loc.
Variable norm : bytes -> option bytes.
(* the oracle hypothesis: on simple references, NormalizeURL with the page as parent gives the
   RFC 3986 resolution (validated by the driver on every planted reference) *)
Hypothesis norm_rfc : forall r, simple_ref r = true ->
  norm (render_ref r) = Some (render_loc (resolve page r)).

Lemma requested_unless_excused_lemma :
  forall (c : cfg) (s : pstate) (dom : list node) (e : node) (r : ref),
  has_base dom = false ->
  In e (all_elems dom) -> referenced c e (render_ref r) ->
  simple_ref r = true ->
  trim_quotes (render_ref r) = render_ref r ->
  render_ref r <> render_loc page ->
  post_stops_fixed c s = false -> c_noassets c = false ->
  In (render_loc (resolve page r))
     (requested data_item_urls script_extra true norm c s (render_loc page) dom).
Proof.
  intros c s dom e r _ He Href Hs Htrim Hself Hst Hna.
  unfold requested. apply in_flat_map. exists (render_ref r). split.
  - unfold post_assets. rewrite post_stops_repaired, Hst, Hna. simpl.
    apply filter_In. split.
    + eapply standard_attrs_extracted_lemma; eauto.
    + destruct (bytes_eqb_spec (render_ref r) (render_loc page)); [contradiction|reflexivity].
  - rewrite Htrim, (norm_rfc r Hs). left. reflexivity.
Qed.

(* anchors: resolveURL (net/url) in this pass, NormalizeURL without parent in the next *)
Variable onclick_url : bytes -> option bytes.
Variable resolve_url : bytes -> bytes -> option bytes.
Variable dc_match : bytes -> bool.
Variable page_links : list bytes.
Variable norm0 : bytes -> option bytes.
Hypothesis outlink_rfc : forall r, simple_ref r = true ->
  exists t, resolve_url [] (render_ref r) = Some t /\ t <> []
            /\ norm0 (trim_quotes t) = Some (render_loc (resolve page r)).

Lemma anchors_queued_resolved_lemma :
  forall (c : cfg) (s : pstate) (dom : list node) (e : node) (r : ref),
  has_base dom = false ->
  In e (all_elems dom) -> anchor c e (render_ref r) -> simple_ref r = true ->
  post_stops_fixed c s = false -> (p_hops s < c_maxhops c)%Z ->
  In (render_loc (resolve page r))
     (flat_map (fun u => opt_list (norm0 (trim_quotes u)))
        (post_outlinks onclick_url resolve_url true dc_match page_links c s (render_loc page) dom)).
Proof.
  intros c s dom e r Hb He Ha Hs Hst Hh.
  destruct (outlink_rfc r Hs) as (t & Hr & Hne & Hn).
  apply in_flat_map. exists t. split.
  - eapply anchors_become_outlinks_lemma; eauto. rewrite (no_base _ Hb). exact Hr.
  - rewrite Hn. left. reflexivity.
Qed.
End Resolution.

(* ---------- the third guard as found loses the outlinks *)
Lemma outlinks_without_assets_refuted :
  exists (c : cfg) (s : pstate) (dom : list node) (e : node) (u : bytes),
    In e (all_elems dom) /\ anchor c e u
    /\ post_stops_fixed c s = false /\ (p_hops s < c_maxhops c)%Z
    /\ post_outlinks (fun _ => None) (fun _ x => Some x) false (fun _ => false) [] c s
                     (bs "https://site.example.com/p.html") dom = []
    /\ post_outlinks (fun _ => None) (fun _ x => Some x) true (fun _ => false) [] c s
                     (bs "https://site.example.com/p.html") dom = [u].
Proof.
  exists (Cfg [] false true 1%Z), (PState 200%Z 0%Z true 0%Z false).
  exists [Elem (bs "html") [] [Elem (bs "body") [] [Elem (bs "a") [(bs "href", bs "/probe/target")] [Text (bs "x")]]]].
  exists (Elem (bs "a") [(bs "href", bs "/probe/target")] [Text (bs "x")]), (bs "/probe/target").
  split; [simpl; auto|].
  split; [repeat split; discriminate|].
  split; [reflexivity|]. split; [reflexivity|]. split; reflexivity.
Qed.

(* IsS3 as found claimed an XHTML page served by an S3-like store: its anchors were lost *)
Lemma s3_xhtml_orig_refuted :
  exists (c : cfg) (s : pstate) (dom : list node) (e : node) (u : bytes),
    In e (all_elems dom) /\ anchor c e u
    /\ post_stops_fixed c s = false /\ (p_hops s < c_maxhops c)%Z
    /\ post_outlinks_resp_orig (fun _ => None) (fun _ x => Some x) true (fun _ => false) [] []
         (bs "AmazonS3") (bs "application/xhtml+xml") c s (bs "https://site.example.com/p.html") dom = []
    /\ post_outlinks_resp (fun _ => None) (fun _ x => Some x) true (fun _ => false) [] []
         (bs "AmazonS3") (bs "application/xhtml+xml") c s (bs "https://site.example.com/p.html") dom = [u].
Proof.
  exists (Cfg [] false false 1%Z), (PState 200%Z 0%Z true 0%Z false).
  exists [Elem (bs "html") [] [Elem (bs "body") [] [Elem (bs "a") [(bs "href", bs "/next")] [Text (bs "x")]]]].
  exists (Elem (bs "a") [(bs "href", bs "/next")] [Text (bs "x")]), (bs "/next").
  split; [simpl; auto|].
  split; [repeat split; discriminate|].
  split; [reflexivity|]. split; [reflexivity|]. split; reflexivity.
Qed.

(* ---------- non-vacuity *)
Definition ex_dom : list node :=
  [Elem (bs "html") []
     [Elem (bs "head") []
        [Elem (bs "link") [(bs "rel", bs "stylesheet"); (bs "href", bs "/css/main.css")] [];
         Elem (bs "link") [(bs "rel", bs "alternate"); (bs "href", bs "/feed.xml")] [];
         Elem (bs "style") [] [Text (bs "body{background:url('img/bg.png')}")]];
      Elem (bs "body") []
        [Elem (bs "div") [(bs "style", bs "background-image: url(""../hero.jpg"")")]
           [Elem (bs "img") [(bs "src", bs "pic.png"); (bs "srcset", bs "pic.png 1x, pic@2x.png 2x")] [];
            Comment (bs " <img src=decoy.png> ");
            Elem (bs "a") [(bs "href", bs "next.html")] [Text (bs "next http://decoy.example.com/")]];
         Elem (bs "video") [] [Elem (bs "source") [(bs "src", bs "//cdn.example.net/v.mp4")] []]]]].

Example extraction_nonvacuous :
  let c := Cfg [] false false 1%Z in
  html_assets (fun _ => []) (fun _ => []) c ex_dom
  = [bs "../hero.jpg"; bs "pic.png"; bs "pic.png"; bs "pic@2x.png"; bs "img/bg.png";
     bs "/css/main.css"; bs "//cdn.example.net/v.mp4"]
  /\ html_outlinks_raw (fun _ => None) c ex_dom = [bs "next.html"]
  /\ referenced c (Elem (bs "img") [(bs "src", bs "pic.png"); (bs "srcset", bs "pic.png 1x, pic@2x.png 2x")] [])
                (bs "pic@2x.png").
Proof.
  split; [vm_compute; reflexivity|]. split; [vm_compute; reflexivity|].
  apply (ref_img_srcset _ _ [SCand [] (bs "pic.png") (bs " 1x"); SCand (bs " ") (bs "pic@2x.png") (bs " 2x")]
                        (SCand (bs " ") (bs "pic@2x.png") (bs " 2x"))).
  - reflexivity.
  - reflexivity.
  - reflexivity.
  - reflexivity.
  - right. left. reflexivity.
Qed.

Example alternate_excused :
  ~ In (bs "/feed.xml") (html_assets (fun _ => []) (fun _ => []) (Cfg [] false false 1%Z) ex_dom)
  /\ In (bs "/feed.xml") (html_assets (fun _ => []) (fun _ => []) (Cfg [] true false 1%Z) ex_dom).
Proof.
  split.
  - vm_compute. intuition discriminate.
  - vm_compute. intuition.
Qed.

Example resolution_nonvacuous :
  let page := Loc (bs "https") (bs "site.example.com") [bs "dir"; bs "page.html"] None in
  simple_loc page = true
  /\ simple_ref (RPathRel [bs ".."; bs "hero.jpg"] None None) = true
  /\ render_loc (resolve page (RPathRel [bs ".."; bs "hero.jpg"] None None)) = bs "https://site.example.com/hero.jpg"
  /\ render_loc (resolve page (RNet (bs "cdn.example.net") [bs "v.mp4"] None None)) = bs "https://cdn.example.net/v.mp4"
  /\ render_loc (resolve page (RPathRel [bs "img"; bs "bg.png"] (Some (bs "v=1")) (Some (bs "x")))) = bs "https://site.example.com/dir/img/bg.png?v=1"
  /\ trim_quotes (render_ref (RPathRel [bs ".."; bs "hero.jpg"] None None)) = bs "../hero.jpg".
Proof. vm_compute. repeat split; reflexivity. Qed.
