(* C07 - proofs about the scanners: the srcset splitter returns every candidate URL of a
   well-formed value; the two url(...) scanners return every token of a well-formed style text /
   style attribute. *)
From Coq Require Import List Ascii String NArith Bool Lia.
From ZenoV Require Import Lib.Hex Html.Bytes Html.Scan Html.Plant.
Import ListNotations.
Open Scope char_scope.
Local Arguments Ascii.eqb : simpl never.

(* ---------- generic facts *)
Lemma eqb_false_sym (a c : ascii) : Ascii.eqb a c = false -> Ascii.eqb c a = false.
Proof. rewrite Ascii.eqb_sym. auto. Qed.

Lemma has_byte_app c a b : has_byte c (a ++ b) = has_byte c a || has_byte c b.
Proof. unfold has_byte. apply existsb_app. Qed.

Lemma forallb_rev {A} (f : A -> bool) l : forallb f (rev l) = forallb f l.
Proof.
  induction l as [|x l IH]; simpl; auto.
  rewrite forallb_app, IH. simpl. rewrite andb_true_r. apply andb_comm.
Qed.

Lemma has_byte_forallb (P : ascii -> bool) c l :
  forallb P l = true -> (forall x, P x = true -> Ascii.eqb c x = false) -> has_byte c l = false.
Proof.
  intros H HP. unfold has_byte. induction l as [|x l IH]; cbn [existsb forallb] in *; auto.
  apply andb_prop in H as [Hx Hl]. rewrite (HP _ Hx), (IH Hl). reflexivity.
Qed.

(* ---------- split_on *)
Lemma split_on_nosep c x : has_byte c x = false -> split_on c x = [x].
Proof.
  induction x as [|a x IH]; simpl; intros H; auto.
  apply orb_false_elim in H as [Ha Hx].
  rewrite (eqb_false_sym _ _ Ha). rewrite (IH Hx). reflexivity.
Qed.

Lemma split_on_app c x rest :
  has_byte c x = false -> split_on c (x ++ c :: rest) = x :: split_on c rest.
Proof.
  induction x as [|a x IH]; simpl; intros H.
  - rewrite Ascii.eqb_refl. reflexivity.
  - apply orb_false_elim in H as [Ha Hx].
    rewrite (eqb_false_sym _ _ Ha). rewrite (IH Hx). reflexivity.
Qed.

Lemma split_join c parts :
  parts <> [] -> Forall (fun p => has_byte c p = false) parts ->
  split_on c (join [c] parts) = parts.
Proof.
  induction parts as [|p r IH]; intros Hne HF; [congruence|].
  inversion HF as [|? ? Hp Hr]; subst.
  destruct r as [|q r'].
  - simpl. apply split_on_nosep; auto.
  - change (join [c] (p :: q :: r')) with (p ++ [c] ++ join [c] (q :: r')).
    simpl app. rewrite split_on_app by auto. f_equal. apply IH; [congruence|auto].
Qed.

(* ---------- trimming *)
Lemma trim_left_app a b :
  trim_left (a ++ b) = if forallb is_space a then trim_left b else trim_left a ++ b.
Proof.
  induction a as [|c a IH]; simpl; auto.
  destruct (is_space c); simpl; auto.
Qed.

Lemma trim_left_allspace a : forallb is_space a = true -> trim_left a = [].
Proof.
  induction a as [|c a IH]; simpl; auto.
  intros H. apply andb_prop in H as [Hc Ha]. rewrite Hc. auto.
Qed.

Lemma trim_left_suffix s : exists w, s = w ++ trim_left s.
Proof.
  induction s as [|c s [w IH]]; simpl.
  - exists []. reflexivity.
  - destruct (is_space c).
    + exists (c :: w). simpl. f_equal. exact IH.
    + exists []. reflexivity.
Qed.

Lemma trim_right_prefix s : exists w, s = trim_right s ++ w.
Proof.
  unfold trim_right. destruct (trim_left_suffix (rev s)) as [w Hw].
  exists (rev w). rewrite <- rev_app_distr, <- Hw, rev_involutive. reflexivity.
Qed.

Definition nospace (u : bytes) : bool := forallb (fun x => negb (is_space x)) u.

Lemma trim_left_nospace u rest : u <> [] -> nospace u = true -> trim_left (u ++ rest) = u ++ rest.
Proof.
  destruct u as [|c u]; [congruence|]. simpl. intros _ H.
  apply andb_prop in H as [Hc _]. destruct (is_space c); simpl in Hc; [discriminate|reflexivity].
Qed.

Lemma trim_right_nospace u rest :
  u <> [] -> nospace u = true -> trim_right (u ++ rest) = u ++ trim_right rest.
Proof.
  intros Hne Hu. unfold trim_right. rewrite rev_app_distr, trim_left_app.
  destruct (forallb is_space (rev rest)) eqn:Hs.
  - rewrite (trim_left_allspace _ Hs). simpl. rewrite app_nil_r.
    assert (Hr : rev u <> []) by (intros E; apply Hne; rewrite <- (rev_involutive u), E; reflexivity).
    assert (Hn : nospace (rev u) = true) by (unfold nospace in *; rewrite forallb_rev; exact Hu).
    pose proof (trim_left_nospace (rev u) [] Hr Hn) as T. rewrite !app_nil_r in T.
    rewrite T, rev_involutive. reflexivity.
  - rewrite rev_app_distr, rev_involutive. reflexivity.
Qed.

(* ---------- srcset *)
Lemma first_token_url u r :
  has_byte " " u = false -> (r = [] \/ exists x, r = " " :: x) -> first_token (u ++ r) = u.
Proof.
  intros Hu [->|[x ->]]; unfold first_token.
  - rewrite app_nil_r, split_on_nosep by auto. reflexivity.
  - rewrite split_on_app by auto. reflexivity.
Qed.

Lemma nospace_no_sp u : nospace u = true -> has_byte " " u = false.
Proof.
  unfold nospace, has_byte. induction u as [|c u IH]; simpl; auto.
  intros H. apply andb_prop in H as [Hc Hu]. rewrite (IH Hu), orb_false_r.
  destruct (Ascii.eqb " " c) eqn:E; auto.
  apply Ascii.eqb_eq in E. subst c. discriminate.
Qed.

Lemma cand_token (c : scand) :
  wf_cand c = true -> first_token (trim_space (render_cand c)) = sc_url c.
Proof.
  unfold wf_cand, render_cand. intros H.
  apply andb_prop in H as [H Hrest]. apply andb_prop in H as [H Hcomma].
  apply andb_prop in H as [H Hu]. apply andb_prop in H as [Hpre Hne].
  assert (Hne' : sc_url c <> []) by (destruct (sc_url c); [discriminate|congruence]).
  assert (Hns : nospace (sc_url c) = true).
  { unfold nospace. clear -Hu. induction (sc_url c) as [|x u IH]; simpl in *; auto.
    apply andb_prop in Hu as [Hx Hu]. apply andb_prop in Hx as [Hx _]. rewrite Hx. auto. }
  unfold trim_space. rewrite trim_left_app, Hpre.
  rewrite trim_left_nospace, trim_right_nospace by auto.
  apply first_token_url; [apply nospace_no_sp; auto|].
  destruct (trim_right_prefix (sc_rest c)) as [w Hw].
  destruct (trim_right (sc_rest c)) as [|y t] eqn:E; [left; reflexivity|right].
  rewrite Hw in Hrest. simpl in Hrest. apply Ascii.eqb_eq in Hrest. subst y. eauto.
Qed.

Lemma cand_nocomma (c : scand) : wf_cand c = true -> has_byte "," (render_cand c) = false.
Proof.
  unfold wf_cand, render_cand. intros H.
  apply andb_prop in H as [H _]. apply andb_prop in H as [H H2].
  apply andb_prop in H as [H H1]. apply andb_prop in H as [H _].
  rewrite !has_byte_app.
  apply negb_true_iff in H2. rewrite H2, orb_false_r.
  apply orb_false_intro.
  - apply (has_byte_forallb _ _ _ H). intros x Hx.
    destruct (Ascii.eqb "," x) eqn:E; auto. apply Ascii.eqb_eq in E. subst x. discriminate.
  - apply (has_byte_forallb _ _ _ H1). intros x Hx. apply andb_prop in Hx as [_ Hx].
    rewrite Ascii.eqb_sym. apply negb_true_iff. exact Hx.
Qed.

Lemma srcset_split_complete_lemma : forall (cs : list scand) (c : scand),
  Forall (fun x => wf_cand x = true) cs -> In c cs ->
  In (sc_url c) (srcset_urls (render_srcset cs)).
Proof.
  intros cs c HF Hin. unfold srcset_urls, render_srcset.
  rewrite split_join.
  - rewrite map_map. apply in_map_iff. exists c. split; auto.
    apply cand_token. rewrite Forall_forall in HF. auto.
  - destruct cs; [contradiction|discriminate].
  - rewrite Forall_forall in *. intros p Hp. apply in_map_iff in Hp as [x [<- Hx]].
    apply cand_nocomma. auto.
Qed.

(* ---------- the style-element scanner *)
Definition url4 : bytes := bs "url(".

Lemma prefixb_app_url4 t rest :
  t <> [] -> containsb url4 t = false -> prefixb url4 (t ++ url4 ++ rest) = false.
Proof.
  intros Hne Hc.
  destruct t as [|c1 [|c2 [|c3 [|c4 t']]]]; [congruence| | | |].
  - cbn. destruct (Ascii.eqb "u" c1); reflexivity.
  - cbn. destruct (Ascii.eqb "u" c1); [|reflexivity].
    destruct (Ascii.eqb "r" c2); reflexivity.
  - cbn. destruct (Ascii.eqb "u" c1); [|reflexivity].
    destruct (Ascii.eqb "r" c2); [|reflexivity].
    destruct (Ascii.eqb "l" c3); reflexivity.
  - cbn in Hc |- *. apply orb_false_elim in Hc as [Hc _].
    destruct (Ascii.eqb "u" c1); [|reflexivity].
    destruct (Ascii.eqb "r" c2); [|reflexivity].
    destruct (Ascii.eqb "l" c3); [|reflexivity].
    destruct (Ascii.eqb "(" c4); [discriminate|reflexivity].
Qed.

Lemma containsb_tail p c t : containsb p (c :: t) = false -> containsb p t = false.
Proof. simpl. intros H. apply orb_false_elim in H as [_ H]. exact H. Qed.

Lemma css_scan_fill t rest :
  containsb url4 t = false ->
  css_scan UIdle (t ++ url4 ++ rest) = css_scan UIdle (url4 ++ rest).
Proof.
  induction t as [|c t IH]; intros Hc; [reflexivity|].
  change ((c :: t) ++ url4 ++ rest) with (c :: (t ++ url4 ++ rest)).
  unfold css_scan at 1; fold css_scan.
  change (c :: t ++ url4 ++ rest) with ((c :: t) ++ url4 ++ rest).
  fold url4. rewrite prefixb_app_url4 by (auto; congruence).
  apply IH. eapply containsb_tail; eauto.
Qed.

Lemma css_scan_nourl t : containsb url4 t = false -> css_scan UIdle t = [].
Proof.
  induction t as [|c t IH]; intros Hc; [reflexivity|].
  unfold css_scan; fold css_scan. fold url4.
  assert (prefixb url4 (c :: t) = false) as ->.
  { simpl in Hc. apply orb_false_elim in Hc as [H _]. exact H. }
  apply IH. eapply containsb_tail; eauto.
Qed.

Definition cap_char (c : ascii) : bool := negb (Ascii.eqb c ")") && negb (Ascii.eqb c nl).

Lemma css_scan_cap w acc rest :
  forallb cap_char w = true ->
  css_scan (UCap acc) (w ++ ")" :: rest) = (rev acc ++ w) :: css_scan UIdle rest.
Proof.
  revert acc. induction w as [|c w IH]; intros acc H.
  - simpl. rewrite app_nil_r. reflexivity.
  - simpl in H. apply andb_prop in H as [Hc Hw]. unfold cap_char in Hc.
    apply andb_prop in Hc as [H1 H2]. apply negb_true_iff in H1, H2.
    simpl. rewrite H1, H2. rewrite IH by auto. simpl. rewrite <- app_assoc. reflexivity.
Qed.

Lemma css_scan_tok q u rest :
  forallb cap_char (q ++ u ++ q) = true ->
  css_scan UIdle (url4 ++ q ++ u ++ q ++ ")" :: rest) = (q ++ u ++ q) :: css_scan UIdle rest.
Proof.
  intros H. cbn [url4 bs list_ascii_of_string app].
  unfold css_scan at 1; fold css_scan. cbn [prefixb Ascii.eqb Bool.eqb andb bs list_ascii_of_string].
  replace (q ++ u ++ q ++ ")" :: rest) with ((q ++ u ++ q) ++ ")" :: rest)
    by (rewrite <- !app_assoc; reflexivity).
  rewrite css_scan_cap by auto. reflexivity.
Qed.

Lemma quote_cap q : quote_ok q = true -> forallb cap_char q = true.
Proof.
  destruct q as [|c [|]]; simpl; try discriminate; auto.
  intros H. rewrite andb_true_r. unfold cap_char, is_quote in *.
  apply orb_prop in H as [H|H]; apply Ascii.eqb_eq in H; subst c; reflexivity.
Qed.

Lemma body_cap u : url_body_ok u = true -> forallb cap_char u = true.
Proof.
  unfold url_body_ok. induction u as [|c u IH]; simpl; auto.
  intros H. apply andb_prop in H as [Hc Hu]. rewrite (IH Hu), andb_true_r.
  apply andb_prop in Hc as [Hc _]. exact Hc.
Qed.

Lemma tok_cap (t : ctok) : wf_ctok t = true -> forallb cap_char (ct_q t ++ ct_url t ++ ct_q t) = true.
Proof.
  unfold wf_ctok. intros H. apply andb_prop in H as [H H1]. apply andb_prop in H as [_ H0].
  rewrite !forallb_app, (quote_cap _ H0), (body_cap _ H1). reflexivity.
Qed.

Lemma css_scan_complete toks tail :
  forallb wf_ctok toks = true ->
  css_scan UIdle (render_css (toks, tail))
  = map (fun t => ct_q t ++ ct_url t ++ ct_q t) toks ++ css_scan UIdle tail.
Proof.
  unfold render_css. simpl fst; simpl snd.
  induction toks as [|t toks IH]; intros H; [reflexivity|].
  simpl in H. apply andb_prop in H as [Ht Hr].
  simpl flat_map. unfold render_ctok at 1. fold url4.
  rewrite <- !app_assoc.
  assert (Hf : containsb url4 (ct_fill t) = false).
  { unfold wf_ctok in Ht. apply andb_prop in Ht as [Ht _]. apply andb_prop in Ht as [Ht _].
    apply negb_true_iff. exact Ht. }
  rewrite css_scan_fill by exact Hf.
  simpl ([")"] ++ _).
  rewrite css_scan_tok by (apply tok_cap; exact Ht).
  simpl. f_equal. apply IH. exact Hr.
Qed.

Lemma strip_quotes_tok q u :
  quote_ok q = true -> url_body_ok u = true -> strip_quotes (q ++ u ++ q) = u.
Proof.
  intros Hq Hu. unfold strip_quotes. rewrite !filter_app.
  assert (Hq' : filter (fun c => negb (is_quote c)) q = []).
  { destruct q as [|c [|]]; simpl in *; try discriminate; auto. rewrite Hq. reflexivity. }
  rewrite Hq', app_nil_r. simpl.
  unfold url_body_ok in Hu. induction u as [|c u IH]; simpl in *; auto.
  apply andb_prop in Hu as [Hc Hu]. apply andb_prop in Hc as [_ Hc]. rewrite Hc. f_equal. auto.
Qed.

Lemma slashslash_id u : containsb (bs "//") u = false -> slashslash u = u.
Proof.
  induction u as [|c u IH]; intros H; [reflexivity|].
  cbn [containsb] in H. apply orb_false_elim in H as [Hp Hr].
  cbn [slashslash]. destruct (Ascii.eqb c "/") eqn:E1.
  - destruct u as [|d u']; [reflexivity|].
    destruct (Ascii.eqb d "/") eqn:E2.
    + apply Ascii.eqb_eq in E1, E2. subst. discriminate.
    + f_equal. apply IH. exact Hr.
  - f_equal. apply IH. exact Hr.
Qed.

Lemma css_rewrite_kept q u :
  quote_ok q = true -> url_body_ok u = true -> css_kept u = true ->
  css_rewrite (q ++ u ++ q) = u.
Proof.
  intros Hq Hu Hk. unfold css_rewrite. rewrite strip_quotes_tok by auto.
  unfold css_kept in Hk. apply andb_prop in Hk as [Hk _].
  destruct (containsb (bs "http") u); [reflexivity|].
  simpl in Hk. apply slashslash_id. apply negb_true_iff. exact Hk.
Qed.

Lemma css_urls_complete_lemma : forall (d : list ctok * bytes) (t : ctok),
  wf_css d = true -> In t (fst d) -> css_kept (ct_url t) = true ->
  In (ct_url t) (css_urls (render_css d)).
Proof.
  intros [toks tail] t Hwf Hin Hk. unfold wf_css in Hwf. simpl fst in *; simpl snd in *.
  apply andb_prop in Hwf as [Ht Htail].
  unfold css_urls. rewrite css_scan_complete by exact Ht.
  apply filter_In. split.
  - rewrite map_app. apply in_or_app. left. rewrite map_map. apply in_map_iff.
    exists t. split; auto.
    assert (Hw : wf_ctok t = true) by (rewrite forallb_forall in Ht; auto).
    unfold wf_ctok in Hw. apply andb_prop in Hw as [Hw Hb]. apply andb_prop in Hw as [_ Hq].
    apply css_rewrite_kept; auto.
  - unfold css_kept in Hk. apply andb_prop in Hk as [_ Hk]. exact Hk.
Qed.

(* exactly the tokens, nothing else, come out of a well-formed style text *)
Lemma css_scan_exact (d : list ctok * bytes) :
  wf_css d = true ->
  css_scan UIdle (render_css d) = map (fun t => ct_q t ++ ct_url t ++ ct_q t) (fst d).
Proof.
  destruct d as [toks tail]. unfold wf_css. simpl fst; simpl snd. intros H.
  apply andb_prop in H as [Ht Htail]. rewrite css_scan_complete by exact Ht.
  rewrite css_scan_nourl by (apply negb_true_iff; exact Htail). apply app_nil_r.
Qed.

(* ---------- the style-attribute scanner *)
Lemma bg_scan_fill t rest : has_byte "(" t = false -> bg_scan BIdle (t ++ rest) = bg_scan BIdle rest.
Proof.
  induction t as [|c t IH]; intros H; [reflexivity|].
  simpl in H. apply orb_false_elim in H as [Hc Ht].
  simpl. rewrite (eqb_false_sym _ _ Hc). auto.
Qed.

Lemma bg_scan_cap w acc rest :
  forallb cap_char w = true ->
  bg_scan (BCap acc) (w ++ ")" :: rest) = cap_close (rev w ++ acc) :: bg_scan BIdle rest.
Proof.
  revert acc. induction w as [|c w IH]; intros acc H.
  - simpl. reflexivity.
  - simpl in H. apply andb_prop in H as [Hc Hw]. unfold cap_char in Hc.
    apply andb_prop in Hc as [H1 H2]. apply negb_true_iff in H1, H2.
    simpl. rewrite H1, H2. rewrite IH by auto. simpl. rewrite <- app_assoc. reflexivity.
Qed.

Definition noquote (u : bytes) : bool := forallb (fun c => negb (is_quote c)) u.

Lemma body_noquote u : url_body_ok u = true -> noquote u = true.
Proof.
  unfold url_body_ok, noquote. induction u as [|c u IH]; simpl; auto.
  intros H. apply andb_prop in H as [Hc Hu]. apply andb_prop in Hc as [_ Hc].
  rewrite Hc. auto.
Qed.

(* closing a capture that is: a body without quotes, then an optional quote *)
Lemma cap_close_body body q2 pre :
  noquote body = true -> noquote pre = true -> quote_ok q2 = true ->
  cap_close (rev (body ++ q2) ++ rev pre) = pre ++ body.
Proof.
  intros Hb Hp Hq. rewrite rev_app_distr, <- app_assoc, <- rev_app_distr.
  assert (Hpb : noquote (pre ++ body) = true) by (unfold noquote in *; rewrite forallb_app, Hb, Hp; reflexivity).
  set (s := pre ++ body) in *. clearbody s.
  destruct q2 as [|c [|]]; simpl in Hq; try discriminate.
  - simpl. unfold cap_close. destruct (rev s) as [|x a] eqn:E.
    + apply (f_equal (@rev ascii)) in E. rewrite rev_involutive in E. simpl in E. auto.
    + assert (Hx : is_quote x = false).
      { assert (Hr : noquote (rev s) = true) by (unfold noquote in *; rewrite forallb_rev; exact Hpb).
        rewrite E in Hr. simpl in Hr. apply andb_prop in Hr as [Hr _]. apply negb_true_iff. exact Hr. }
      rewrite Hx, <- E, rev_involutive. reflexivity.
  - simpl. rewrite Hq. apply rev_involutive.
Qed.

Lemma bg_scan_tok q1 body q2 rest :
  quote_ok q1 = true -> quote_ok q2 = true -> url_body_ok body = true ->
  bg_scan BIdle ("(" :: q1 ++ body ++ q2 ++ ")" :: rest) = body :: bg_scan BIdle rest.
Proof.
  intros H1 H2 Hb.
  pose proof (body_noquote _ Hb) as Hnq.
  pose proof (body_cap _ Hb) as Hcap.
  pose proof (quote_cap _ H2) as Hcap2.
  cbn [bg_scan]. rewrite Ascii.eqb_refl.
  destruct q1 as [|c [|]]; simpl in H1; try discriminate.
  - (* no opening quote *)
    simpl app. destruct body as [|b body'].
    + destruct q2 as [|c2 [|]]; simpl in H2; try discriminate.
      * simpl. reflexivity.
      * simpl. rewrite H2. reflexivity.
    + simpl in Hnq, Hcap. apply andb_prop in Hnq as [Hbq Hnq']. apply andb_prop in Hcap as [Hbc Hcap'].
      unfold cap_char in Hbc. apply andb_prop in Hbc as [Hb1 Hb2].
      apply negb_true_iff in Hbq, Hb1, Hb2.
      simpl. rewrite Hbq, Hb1, Hb2.
      replace (body' ++ q2 ++ ")" :: rest) with ((body' ++ q2) ++ ")" :: rest)
        by (rewrite <- app_assoc; reflexivity).
      rewrite bg_scan_cap by (rewrite forallb_app, Hcap', Hcap2; reflexivity).
      f_equal. change [b] with (rev [b]).
      apply (cap_close_body body' q2 [b]); auto.
      simpl. rewrite Hbq. reflexivity.
  - (* an opening quote *)
    simpl app. cbn [bg_scan]. rewrite H1.
    replace (body ++ q2 ++ ")" :: rest) with ((body ++ q2) ++ ")" :: rest)
      by (rewrite <- app_assoc; reflexivity).
    rewrite bg_scan_cap by (rewrite forallb_app, Hcap, Hcap2; reflexivity).
    f_equal. change (@nil ascii) with (rev (@nil ascii)).
    apply (cap_close_body body q2 []); auto.
Qed.

Lemma bg_scan_complete toks tail :
  forallb wf_stok toks = true ->
  bg_scan BIdle (render_sty (toks, tail)) = map st_body toks ++ bg_scan BIdle tail.
Proof.
  unfold render_sty. simpl fst; simpl snd.
  induction toks as [|t toks IH]; intros H; [reflexivity|].
  simpl in H. apply andb_prop in H as [Ht Hr].
  unfold wf_stok in Ht. apply andb_prop in Ht as [Ht Hb]. apply andb_prop in Ht as [Ht Hq2].
  apply andb_prop in Ht as [Ht Hq1].
  simpl flat_map. unfold render_stok at 1. rewrite <- !app_assoc.
  rewrite bg_scan_fill by (apply negb_true_iff; exact Ht).
  simpl (["("] ++ _). simpl ([")"] ++ _).
  rewrite bg_scan_tok by auto.
  simpl. f_equal. apply IH. exact Hr.
Qed.

Lemma style_attr_complete_lemma : forall (d : list stok * bytes) (t : stok),
  wf_sty d = true -> In t (fst d) -> style_attr_skip (st_body t) = false ->
  In (st_body t) (style_attr_urls (render_sty d)).
Proof.
  intros [toks tail] t Hwf Hin Hk. unfold wf_sty in Hwf. simpl fst in *; simpl snd in *.
  apply andb_prop in Hwf as [Ht _].
  unfold style_attr_urls. rewrite bg_scan_complete by exact Ht.
  apply filter_In. split.
  - apply in_or_app. left. apply in_map. exact Hin.
  - rewrite Hk. reflexivity.
Qed.

(* ---------- non-vacuity and the witnesses of the named exclusions *)
Example srcset_nonvacuous :
  let cs := [SCand [] (bs "/a.png") (bs " 1x"); SCand (bs " ") (bs "http://c.example/b.png") (bs "  640w ");
             SCand (bs " ") (bs "c.png") []] in
  Forall (fun x => wf_cand x = true) cs
  /\ srcset_urls (render_srcset cs) = [bs "/a.png"; bs "http://c.example/b.png"; bs "c.png"].
Proof. split; [repeat constructor|vm_compute; reflexivity]. Qed.

Example css_nonvacuous :
  let d := ([CTok (bs "a{background:") (bs "'") (bs "/i/x.png"); CTok (bs " rgb(1,2,3) ") [] (bs "y.png")], bs "}") in
  wf_css d = true /\ css_urls (render_css d) = [bs "/i/x.png"; bs "y.png"].
Proof. vm_compute. split; reflexivity. Qed.

Example sty_nonvacuous :
  let d := ([STok (bs "color:red;background:url") (bs """") (bs "/i/x.png") (bs """")], bs ";") in
  wf_sty d = true /\ style_attr_urls (render_sty d) = [bs "/i/x.png"].
Proof. vm_compute. split; reflexivity. Qed.

(* a comma inside a candidate URL (allowed by HTML) breaks the candidate *)
Lemma srcset_comma_refuted :
  exists cs c, In c cs /\ ~ In (sc_url c) (srcset_urls (render_srcset cs)).
Proof.
  exists [SCand [] (bs "/cdn-cgi/image/width=80,quality=75/x.png") (bs " 1x")].
  eexists. split; [left; reflexivity|].
  vm_compute. intros [H|[H|[]]]; discriminate.
Qed.

(* a tab between URL and descriptor (allowed by HTML) glues them together *)
Lemma srcset_tab_refuted :
  exists cs c, In c cs /\ ~ In (sc_url c) (srcset_urls (render_srcset cs)).
Proof.
  exists [SCand [] (bs "a.png") ["009"; "2"; "x"]].
  eexists. split; [left; reflexivity|].
  vm_compute. intros [H|[]]; discriminate.
Qed.

(* style attribute: a URL with a percent escape is skipped *)
Lemma style_attr_percent_refuted :
  exists d t, wf_sty d = true /\ In t (fst d) /\ ~ In (st_body t) (style_attr_urls (render_sty d)).
Proof.
  exists ([STok (bs "background-image: url") [] (bs "/img/a%20b.png") []], []).
  eexists. split; [reflexivity|]. split; [left; reflexivity|].
  vm_compute. intros [].
Qed.

(* style element: a scheme-relative URL comes out with the scheme http, whatever the page's is,
   and an empty path segment is turned into a scheme *)
Lemma css_slashslash_refuted :
  css_urls (bs "a{background:url(//cdn.example.net/x.png)}") = [bs "http://cdn.example.net/x.png"]
  /\ css_urls (bs "a{background:url(/x//y.png)}") = [bs "/xhttp://y.png"].
Proof. vm_compute. split; reflexivity. Qed.
