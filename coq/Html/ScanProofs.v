(* C07 - proofs about the scanners: the srcset splitter returns every candidate URL of a
   well-formed value; the two url(...) scanners return every token of a well-formed style text /
   style attribute. *)
From Coq Require Import List Ascii String NArith Bool Lia.
From ZenoV Require Import Lib.Hex Html.Bytes Html.Scan Html.Plant.
Import ListNotations.
Open Scope char_scope.
Local Arguments Ascii.eqb : simpl never.

(* ---------- generic facts *)
Lemma eqb_false_sym (a c : ascii) : Ascii.eqb a c = false -> Ascii.eqb c a = false.
Proof. rewrite Ascii.eqb_sym. auto. Qed.

Lemma has_byte_app c a b : has_byte c (a ++ b) = has_byte c a || has_byte c b.
Proof. unfold has_byte. apply existsb_app. Qed.

Lemma forallb_rev {A} (f : A -> bool) l : forallb f (rev l) = forallb f l.
Proof.
  induction l as [|x l IH]; simpl; auto.
  rewrite forallb_app, IH. simpl. rewrite andb_true_r. apply andb_comm.
Qed.

Lemma has_byte_forallb (P : ascii -> bool) c l :
  forallb P l = true -> (forall x, P x = true -> Ascii.eqb c x = false) -> has_byte c l = false.
Proof.
  intros H HP. unfold has_byte. induction l as [|x l IH]; cbn [existsb forallb] in *; auto.
  apply andb_prop in H as [Hx Hl]. rewrite (HP _ Hx), (IH Hl). reflexivity.
Qed.

(* ---------- srcset *)
Lemma ss_skip_pre p s : forallb is_hspace p = true -> ss_scan SSkip (p ++ s) = ss_scan SSkip s.
Proof.
  induction p as [|c p IH]; intros H; [reflexivity|].
  cbn [forallb] in H. apply andb_prop in H as [Hc Hp].
  cbn [app ss_scan]. rewrite Hc. cbn [orb]. auto.
Qed.

Lemma ss_url_acc u acc s :
  forallb (fun x => negb (is_hspace x)) u = true ->
  ss_scan (SUrl acc) (u ++ s) = ss_scan (SUrl (rev u ++ acc)) s.
Proof.
  revert acc. induction u as [|c u IH]; intros acc H; [reflexivity|].
  cbn [forallb] in H. apply andb_prop in H as [Hc Hu]. apply negb_true_iff in Hc.
  cbn [app ss_scan]. rewrite Hc. rewrite IH by exact Hu.
  cbn [rev]. rewrite <- app_assoc. reflexivity.
Qed.

Lemma ss_desc d s : has_byte "," d = false -> ss_scan SDesc (d ++ s) = ss_scan SDesc s.
Proof.
  induction d as [|c d IH]; intros H; [reflexivity|].
  unfold has_byte in H. cbn [existsb] in H. apply orb_false_elim in H as [Hc Hd].
  cbn [app ss_scan]. rewrite (eqb_false_sym _ _ Hc). apply IH. exact Hd.
Qed.

Lemma drop_commas_id a : ends_comma a = false -> drop_commas a = a.
Proof. destruct a as [|c a]; [reflexivity|]. cbn [ends_comma drop_commas]. intros ->. reflexivity. Qed.

Lemma render_srcset_cons c c2 r :
  render_srcset (c :: c2 :: r) = render_cand c ++ "," :: render_srcset (c2 :: r).
Proof. reflexivity. Qed.

Lemma hspace_not_comma w : is_hspace w = true -> Ascii.eqb w "," = false.
Proof.
  intros H. destruct (Ascii.eqb w ",") eqn:E; [|reflexivity].
  apply Ascii.eqb_eq in E. subst w. discriminate.
Qed.

(* the splitter returns exactly the candidate URLs of a well-formed value *)
Lemma srcset_exact (cs : list scand) :
  wf_cands cs = true -> srcset_urls (render_srcset cs) = map sc_url cs.
Proof.
  unfold srcset_urls. induction cs as [|c r IH]; intros H; [reflexivity|].
  cbn [wf_cands] in H. apply andb_prop in H as [H Hadj]. apply andb_prop in H as [Hc Hr].
  specialize (IH Hr).
  unfold wf_cand in Hc.
  apply andb_prop in Hc as [Hc Hrest]. apply andb_prop in Hc as [Hc Hnc].
  apply andb_prop in Hc as [Hc Hend]. apply andb_prop in Hc as [Hc Hu]. apply andb_prop in Hc as [Hpre Hx].
  apply negb_true_iff in Hend, Hnc.
  destruct (sc_url c) as [|x u] eqn:Eu; [discriminate|].
  apply negb_true_iff in Hx.
  cbn [forallb] in Hu. apply andb_prop in Hu as [Hxs Hu]. apply negb_true_iff in Hxs.
  (* the state after pre and URL *)
  assert (Hhead : forall tail,
    ss_scan SSkip (render_cand c ++ tail) = ss_scan (SUrl (rev (x :: u))) (sc_rest c ++ tail)).
  { intros tail. unfold render_cand. rewrite <- !app_assoc, ss_skip_pre by exact Hpre.
    rewrite Eu. cbn [app ss_scan]. rewrite Hxs, Hx. cbn [orb].
    rewrite ss_url_acc by exact Hu. reflexivity. }
  assert (Hdrop : rev (drop_commas (rev (x :: u))) = x :: u).
  { rewrite drop_commas_id by exact Hend. apply rev_involutive. }
  cbn [map]. rewrite Eu. destruct r as [|c2 r'].
  - (* last candidate *)
    change (render_srcset [c]) with (render_cand c).
    rewrite <- (app_nil_r (render_cand c)), Hhead, app_nil_r.
    destruct (sc_rest c) as [|w d] eqn:Er.
    + cbn [ss_scan]. rewrite Hdrop. reflexivity.
    + cbn [ss_scan]. rewrite Hrest, Hdrop, Hend. f_equal.
      unfold has_byte in Hnc. cbn [existsb] in Hnc. apply orb_false_elim in Hnc as [_ Hd].
      rewrite <- (app_nil_r d), ss_desc by exact Hd. reflexivity.
  - rewrite render_srcset_cons, Hhead.
    destruct (sc_rest c) as [|w d] eqn:Er.
    + (* no descriptor: the comma joins the URL, white space must follow *)
      destruct (sc_pre c2) as [|w2 p2] eqn:Ep; [discriminate|].
      assert (Hw2 : is_hspace w2 = true).
      { cbn [wf_cands] in Hr. apply andb_prop in Hr as [Hr _]. apply andb_prop in Hr as [Hc2 _].
        unfold wf_cand in Hc2. repeat (apply andb_prop in Hc2 as [Hc2 _]).
        rewrite Ep in Hc2. cbn [forallb] in Hc2. apply andb_prop in Hc2 as [Hc2 _]. exact Hc2. }
      assert (Hshape : exists X, render_srcset (c2 :: r') = w2 :: X).
      { destruct r' as [|c3 r''].
        - exists (p2 ++ sc_url c2 ++ sc_rest c2). cbn. unfold render_cand. rewrite Ep. reflexivity.
        - exists (p2 ++ sc_url c2 ++ sc_rest c2 ++ "," :: render_srcset (c3 :: r'')).
          rewrite render_srcset_cons. unfold render_cand. rewrite Ep, <- !app_assoc. reflexivity. }
      destruct Hshape as [X HX]. rewrite HX in IH |- *.
      cbn [app ss_scan]. cbn [ss_scan] in IH. rewrite Hw2 in IH. cbn [orb] in IH.
      assert (is_hspace "," = false) as -> by reflexivity.
      cbn [ss_scan]. rewrite Hw2.
      assert (drop_commas ("," :: rev (x :: u)) = drop_commas (rev (x :: u))) as -> by reflexivity.
      rewrite Hdrop. cbn [ends_comma]. rewrite Ascii.eqb_refl. f_equal. exact IH.
    + cbn [app ss_scan]. rewrite Hrest, Hdrop, Hend. f_equal.
      unfold has_byte in Hnc. cbn [existsb] in Hnc. apply orb_false_elim in Hnc as [_ Hd].
      rewrite ss_desc by exact Hd. cbn [ss_scan]. rewrite Ascii.eqb_refl. exact IH.
Qed.

Lemma srcset_split_complete_lemma : forall (cs : list scand) (c : scand),
  wf_cands cs = true -> In c cs -> In (sc_url c) (srcset_urls (render_srcset cs)).
Proof. intros cs c H Hin. rewrite srcset_exact by exact H. apply in_map. exact Hin. Qed.

(* ---------- trimming *)
Lemma trim_left_hd s :
  match s with [] => true | x :: _ => negb (is_space x) end = true -> trim_left s = s.
Proof. destruct s as [|x s]; [reflexivity|]. cbn [trim_left]. intros H. apply negb_true_iff in H. rewrite H. reflexivity. Qed.

Lemma trimq_left_hd s :
  match s with [] => true | x :: _ => negb (is_quote x) end = true -> trimq_left s = s.
Proof. destruct s as [|x s]; [reflexivity|]. cbn [trimq_left]. intros H. apply negb_true_iff in H. rewrite H. reflexivity. Qed.

Lemma quote_not_space c : is_quote c = true -> is_space c = false.
Proof.
  unfold is_quote. intros H. apply orb_prop in H as [H|H]; apply Ascii.eqb_eq in H; subst c; reflexivity.
Qed.

(* ---------- the style-element scanner *)
Definition url4 : bytes := bs "url(".

Lemma prefixb_app_url4 t rest :
  t <> [] -> containsb url4 t = false -> prefixb url4 (t ++ url4 ++ rest) = false.
Proof.
  intros Hne Hc.
  destruct t as [|c1 [|c2 [|c3 [|c4 t']]]]; [congruence| | | |].
  - cbn. destruct (Ascii.eqb "u" c1); reflexivity.
  - cbn. destruct (Ascii.eqb "u" c1); [|reflexivity].
    destruct (Ascii.eqb "r" c2); reflexivity.
  - cbn. destruct (Ascii.eqb "u" c1); [|reflexivity].
    destruct (Ascii.eqb "r" c2); [|reflexivity].
    destruct (Ascii.eqb "l" c3); reflexivity.
  - cbn in Hc |- *. apply orb_false_elim in Hc as [Hc _].
    destruct (Ascii.eqb "u" c1); [|reflexivity].
    destruct (Ascii.eqb "r" c2); [|reflexivity].
    destruct (Ascii.eqb "l" c3); [|reflexivity].
    destruct (Ascii.eqb "(" c4); [discriminate|reflexivity].
Qed.

Lemma containsb_tail p c t : containsb p (c :: t) = false -> containsb p t = false.
Proof. simpl. intros H. apply orb_false_elim in H as [_ H]. exact H. Qed.

Lemma css_scan_fill t rest :
  containsb url4 t = false ->
  css_scan UIdle (t ++ url4 ++ rest) = css_scan UIdle (url4 ++ rest).
Proof.
  induction t as [|c t IH]; intros Hc; [reflexivity|].
  change ((c :: t) ++ url4 ++ rest) with (c :: (t ++ url4 ++ rest)).
  unfold css_scan at 1; fold css_scan.
  change (c :: t ++ url4 ++ rest) with ((c :: t) ++ url4 ++ rest).
  fold url4. rewrite prefixb_app_url4 by (auto; congruence).
  apply IH. eapply containsb_tail; eauto.
Qed.

Lemma css_scan_nourl t : containsb url4 t = false -> css_scan UIdle t = [].
Proof.
  induction t as [|c t IH]; intros Hc; [reflexivity|].
  unfold css_scan; fold css_scan. fold url4.
  assert (prefixb url4 (c :: t) = false) as ->.
  { simpl in Hc. apply orb_false_elim in Hc as [H _]. exact H. }
  apply IH. eapply containsb_tail; eauto.
Qed.

Lemma css_scan_cap w acc rest :
  forallb cap_char w = true ->
  css_scan (UCap acc) (w ++ ")" :: rest) = (rev acc ++ w) :: css_scan UIdle rest.
Proof.
  revert acc. induction w as [|c w IH]; intros acc H.
  - simpl. rewrite app_nil_r. reflexivity.
  - simpl in H. apply andb_prop in H as [Hc Hw]. unfold cap_char in Hc.
    apply andb_prop in Hc as [H1 H2]. apply negb_true_iff in H1, H2.
    simpl. rewrite H1, H2. rewrite IH by auto. simpl. rewrite <- app_assoc. reflexivity.
Qed.

Lemma css_scan_tok q u rest :
  forallb cap_char (q ++ u ++ q) = true ->
  css_scan UIdle (url4 ++ q ++ u ++ q ++ ")" :: rest) = (q ++ u ++ q) :: css_scan UIdle rest.
Proof.
  intros H. cbn [url4 bs list_ascii_of_string app].
  unfold css_scan at 1; fold css_scan. cbn [prefixb Ascii.eqb Bool.eqb andb bs list_ascii_of_string].
  replace (q ++ u ++ q ++ ")" :: rest) with ((q ++ u ++ q) ++ ")" :: rest)
    by (rewrite <- !app_assoc; reflexivity).
  rewrite css_scan_cap by auto. reflexivity.
Qed.

Lemma quote_cap q : quote_ok q = true -> forallb cap_char q = true.
Proof.
  destruct q as [|c [|]]; simpl; try discriminate; auto.
  intros H. rewrite andb_true_r. unfold cap_char, is_quote in *.
  apply orb_prop in H as [H|H]; apply Ascii.eqb_eq in H; subst c; reflexivity.
Qed.

Lemma body_cap u : url_body_ok u = true -> forallb cap_char u = true.
Proof.
  unfold url_body_ok. induction u as [|c u IH]; simpl; auto.
  intros H. apply andb_prop in H as [Hc Hu]. rewrite (IH Hu), andb_true_r.
  apply andb_prop in Hc as [Hc _]. exact Hc.
Qed.

Lemma css_body_cap u : css_body_ok u = true -> forallb cap_char u = true.
Proof. unfold css_body_ok. intros H. apply andb_prop in H as [H _]. apply andb_prop in H as [H _]. exact H. Qed.

Lemma pad_cap p : forallb is_pad p = true -> forallb cap_char p = true.
Proof.
  induction p as [|c p IH]; cbn [forallb]; auto. intros H. apply andb_prop in H as [Hc Hp].
  rewrite (IH Hp), andb_true_r. unfold is_pad in Hc.
  apply orb_prop in Hc as [Hc|Hc]; apply Ascii.eqb_eq in Hc; subst c; reflexivity.
Qed.

Lemma pad_space p : forallb is_pad p = true -> forallb is_space p = true.
Proof.
  induction p as [|c p IH]; cbn [forallb]; auto. intros H. apply andb_prop in H as [Hc Hp].
  rewrite (IH Hp), andb_true_r. unfold is_pad in Hc.
  apply orb_prop in Hc as [Hc|Hc]; apply Ascii.eqb_eq in Hc; subst c; reflexivity.
Qed.

Lemma tok_cap (t : ctok) : wf_ctok t = true -> forallb cap_char (ct_inner t) = true.
Proof.
  unfold wf_ctok, ct_inner. intros H. apply andb_prop in H as [H Hp2]. apply andb_prop in H as [H Hp1].
  apply andb_prop in H as [H H1]. apply andb_prop in H as [_ H0].
  rewrite !forallb_app, (quote_cap _ H0), (css_body_cap _ H1), (pad_cap _ Hp1), (pad_cap _ Hp2). reflexivity.
Qed.

Lemma css_scan_tok_gen w rest :
  forallb cap_char w = true ->
  css_scan UIdle (url4 ++ w ++ ")" :: rest) = w :: css_scan UIdle rest.
Proof.
  intros H. cbn [url4 bs list_ascii_of_string app].
  unfold css_scan at 1; fold css_scan. cbn [prefixb Ascii.eqb Bool.eqb andb bs list_ascii_of_string].
  rewrite css_scan_cap by auto. reflexivity.
Qed.

Lemma css_scan_complete toks tail :
  forallb wf_ctok toks = true ->
  css_scan UIdle (render_css (toks, tail)) = map ct_inner toks ++ css_scan UIdle tail.
Proof.
  unfold render_css. simpl fst; simpl snd.
  induction toks as [|t toks IH]; intros H; [reflexivity|].
  simpl in H. apply andb_prop in H as [Ht Hr].
  simpl flat_map. unfold render_ctok at 1. fold url4.
  rewrite <- !app_assoc.
  assert (Hf : containsb url4 (ct_fill t) = false).
  { unfold wf_ctok in Ht. repeat (apply andb_prop in Ht as [Ht _]). apply negb_true_iff. exact Ht. }
  rewrite css_scan_fill by exact Hf.
  simpl ([")"] ++ _).
  rewrite css_scan_tok_gen by (apply tok_cap; exact Ht).
  simpl. f_equal. apply IH. exact Hr.
Qed.

(* ---------- trimming around the pads *)
Lemma trim_left_app a b :
  trim_left (a ++ b) = if forallb is_space a then trim_left b else trim_left a ++ b.
Proof.
  induction a as [|c a IH]; simpl; auto.
  destruct (is_space c); simpl; auto.
Qed.

Lemma trim_left_allspace a : forallb is_space a = true -> trim_left a = [].
Proof.
  induction a as [|c a IH]; simpl; auto.
  intros H. apply andb_prop in H as [Hc Ha]. rewrite Hc. auto.
Qed.

Lemma trim_space_pads p1 m p2 :
  forallb is_space p1 = true -> forallb is_space p2 = true ->
  trim_space (p1 ++ m ++ p2) = trim_space m.
Proof.
  intros H1 H2. unfold trim_space. rewrite trim_left_app, H1, trim_left_app.
  destruct (forallb is_space m) eqn:Hm.
  - rewrite (trim_left_allspace _ H2), (trim_left_allspace _ Hm). reflexivity.
  - unfold trim_right. rewrite rev_app_distr, trim_left_app, forallb_rev, H2. reflexivity.
Qed.

Lemma css_rewrite_tok q u :
  quote_ok q = true -> css_body_ok u = true -> css_rewrite (q ++ u ++ q) = u.
Proof.
  intros Hq Hu. unfold css_body_ok in Hu.
  apply andb_prop in Hu as [Hu Hlast]. apply andb_prop in Hu as [_ Hfirst].
  unfold css_rewrite, trim_space, trim_right, trim_quotes.
  destruct q as [|c [|]]; cbn [quote_ok] in Hq; try discriminate.
  - (* unquoted *)
    cbn [app]. rewrite app_nil_r.
    assert (Hs1 : match u with [] => true | x :: _ => negb (is_space x) end = true).
    { destruct u; auto. unfold edge_char in Hfirst. apply andb_prop in Hfirst as [_ H]. exact H. }
    assert (Hs2 : match rev u with [] => true | x :: _ => negb (is_space x) end = true).
    { destruct (rev u); auto. unfold edge_char in Hlast. apply andb_prop in Hlast as [_ H]. exact H. }
    assert (Hq1 : match u with [] => true | x :: _ => negb (is_quote x) end = true).
    { destruct u; auto. unfold edge_char in Hfirst. apply andb_prop in Hfirst as [H _]. exact H. }
    assert (Hq2 : match rev u with [] => true | x :: _ => negb (is_quote x) end = true).
    { destruct (rev u); auto. unfold edge_char in Hlast. apply andb_prop in Hlast as [H _]. exact H. }
    rewrite (trim_left_hd u Hs1), (trim_left_hd _ Hs2), rev_involutive.
    rewrite (trimq_left_hd u Hq1), (trimq_left_hd _ Hq2). apply rev_involutive.
  - (* quoted *)
    pose proof (quote_not_space _ Hq) as Hsp.
    cbn [app trim_left]. rewrite Hsp.
    assert (Hrev : rev (c :: u ++ [c]) = c :: rev u ++ [c]).
    { cbn [rev]. rewrite rev_app_distr. reflexivity. }
    rewrite Hrev. cbn [trim_left]. rewrite Hsp.
    rewrite <- Hrev, rev_involutive.
    cbn [trimq_left]. rewrite Hq.
    destruct u as [|x u'].
    + cbn. rewrite Hq. reflexivity.
    + assert (Hx : is_quote x = false).
      { unfold edge_char in Hfirst. apply andb_prop in Hfirst as [H _]. apply negb_true_iff. exact H. }
      cbn [app trimq_left]. rewrite Hx.
      change (x :: u' ++ [c]) with ((x :: u') ++ [c]).
      rewrite rev_app_distr. cbn [rev app trimq_left]. rewrite Hq.
      assert (Hq2 : match rev u' ++ [x] with [] => true | y :: _ => negb (is_quote y) end = true).
      { cbn [rev] in Hlast. destruct (rev u' ++ [x]); auto.
        unfold edge_char in Hlast. apply andb_prop in Hlast as [H _]. exact H. }
      rewrite (trimq_left_hd _ Hq2). rewrite rev_app_distr, rev_involutive. reflexivity.
Qed.

Lemma css_urls_complete_lemma : forall (d : list ctok * bytes) (t : ctok),
  wf_css d = true -> In t (fst d) -> css_kept (ct_url t) = true ->
  In (ct_url t) (css_urls (render_css d)).
Proof.
  intros [toks tail] t Hwf Hin Hk. unfold wf_css in Hwf. simpl fst in *; simpl snd in *.
  apply andb_prop in Hwf as [Ht Htail].
  unfold css_urls. rewrite css_scan_complete by exact Ht.
  apply filter_In. split.
  - rewrite map_app. apply in_or_app. left. rewrite map_map. apply in_map_iff.
    exists t. split; auto.
    assert (Hw : wf_ctok t = true) by (rewrite forallb_forall in Ht; auto).
    unfold wf_ctok in Hw. apply andb_prop in Hw as [Hw Hp2]. apply andb_prop in Hw as [Hw Hp1].
    apply andb_prop in Hw as [Hw Hb]. apply andb_prop in Hw as [_ Hq].
    unfold ct_inner, css_rewrite.
    rewrite trim_space_pads by (apply pad_space; assumption).
    apply (css_rewrite_tok (ct_q t) (ct_url t)); auto.
  - exact Hk.
Qed.

(* exactly the tokens, nothing else, come out of a well-formed style text *)
Lemma css_scan_exact (d : list ctok * bytes) :
  wf_css d = true ->
  css_scan UIdle (render_css d) = map ct_inner (fst d).
Proof.
  destruct d as [toks tail]. unfold wf_css. simpl fst; simpl snd. intros H.
  apply andb_prop in H as [Ht Htail]. rewrite css_scan_complete by exact Ht.
  rewrite css_scan_nourl by (apply negb_true_iff; exact Htail). apply app_nil_r.
Qed.

(* ---------- the style-attribute scanner *)
Lemma bg_scan_fill t rest : has_byte "(" t = false -> bg_scan BIdle (t ++ rest) = bg_scan BIdle rest.
Proof.
  induction t as [|c t IH]; intros H; [reflexivity|].
  simpl in H. apply orb_false_elim in H as [Hc Ht].
  simpl. rewrite (eqb_false_sym _ _ Hc). auto.
Qed.

Lemma bg_scan_cap w acc rest :
  forallb cap_char w = true ->
  bg_scan (BCap acc) (w ++ ")" :: rest) = cap_close (rev w ++ acc) :: bg_scan BIdle rest.
Proof.
  revert acc. induction w as [|c w IH]; intros acc H.
  - simpl. reflexivity.
  - simpl in H. apply andb_prop in H as [Hc Hw]. unfold cap_char in Hc.
    apply andb_prop in Hc as [H1 H2]. apply negb_true_iff in H1, H2.
    simpl. rewrite H1, H2. rewrite IH by auto. simpl. rewrite <- app_assoc. reflexivity.
Qed.

Definition noquote (u : bytes) : bool := forallb (fun c => negb (is_quote c)) u.

Lemma body_noquote u : url_body_ok u = true -> noquote u = true.
Proof.
  unfold url_body_ok, noquote. induction u as [|c u IH]; simpl; auto.
  intros H. apply andb_prop in H as [Hc Hu]. apply andb_prop in Hc as [_ Hc].
  rewrite Hc. auto.
Qed.

(* closing a capture that is: a body without quotes, then an optional quote *)
Lemma cap_close_body body q2 pre :
  noquote body = true -> noquote pre = true -> quote_ok q2 = true ->
  cap_close (rev (body ++ q2) ++ rev pre) = pre ++ body.
Proof.
  intros Hb Hp Hq. rewrite rev_app_distr, <- app_assoc, <- rev_app_distr.
  assert (Hpb : noquote (pre ++ body) = true) by (unfold noquote in *; rewrite forallb_app, Hb, Hp; reflexivity).
  set (s := pre ++ body) in *. clearbody s.
  destruct q2 as [|c [|]]; simpl in Hq; try discriminate.
  - simpl. unfold cap_close. destruct (rev s) as [|x a] eqn:E.
    + apply (f_equal (@rev ascii)) in E. rewrite rev_involutive in E. simpl in E. auto.
    + assert (Hx : is_quote x = false).
      { assert (Hr : noquote (rev s) = true) by (unfold noquote in *; rewrite forallb_rev; exact Hpb).
        rewrite E in Hr. simpl in Hr. apply andb_prop in Hr as [Hr _]. apply negb_true_iff. exact Hr. }
      rewrite Hx, <- E, rev_involutive. reflexivity.
  - simpl. rewrite Hq. apply rev_involutive.
Qed.

Lemma bg_scan_tok q1 body q2 rest :
  quote_ok q1 = true -> quote_ok q2 = true -> url_body_ok body = true ->
  bg_scan BIdle ("(" :: q1 ++ body ++ q2 ++ ")" :: rest) = body :: bg_scan BIdle rest.
Proof.
  intros H1 H2 Hb.
  pose proof (body_noquote _ Hb) as Hnq.
  pose proof (body_cap _ Hb) as Hcap.
  pose proof (quote_cap _ H2) as Hcap2.
  cbn [bg_scan]. rewrite Ascii.eqb_refl.
  destruct q1 as [|c [|]]; simpl in H1; try discriminate.
  - (* no opening quote *)
    simpl app. destruct body as [|b body'].
    + destruct q2 as [|c2 [|]]; simpl in H2; try discriminate.
      * simpl. reflexivity.
      * simpl. rewrite H2. reflexivity.
    + simpl in Hnq, Hcap. apply andb_prop in Hnq as [Hbq Hnq']. apply andb_prop in Hcap as [Hbc Hcap'].
      unfold cap_char in Hbc. apply andb_prop in Hbc as [Hb1 Hb2].
      apply negb_true_iff in Hbq, Hb1, Hb2.
      simpl. rewrite Hbq, Hb1, Hb2.
      replace (body' ++ q2 ++ ")" :: rest) with ((body' ++ q2) ++ ")" :: rest)
        by (rewrite <- app_assoc; reflexivity).
      rewrite bg_scan_cap by (rewrite forallb_app, Hcap', Hcap2; reflexivity).
      f_equal. change [b] with (rev [b]).
      apply (cap_close_body body' q2 [b]); auto.
      simpl. rewrite Hbq. reflexivity.
  - (* an opening quote *)
    simpl app. cbn [bg_scan]. rewrite H1.
    replace (body ++ q2 ++ ")" :: rest) with ((body ++ q2) ++ ")" :: rest)
      by (rewrite <- app_assoc; reflexivity).
    rewrite bg_scan_cap by (rewrite forallb_app, Hcap, Hcap2; reflexivity).
    f_equal. change (@nil ascii) with (rev (@nil ascii)).
    apply (cap_close_body body q2 []); auto.
Qed.

Lemma bg_scan_complete toks tail :
  forallb wf_stok toks = true ->
  bg_scan BIdle (render_sty (toks, tail)) = map st_body toks ++ bg_scan BIdle tail.
Proof.
  unfold render_sty. simpl fst; simpl snd.
  induction toks as [|t toks IH]; intros H; [reflexivity|].
  simpl in H. apply andb_prop in H as [Ht Hr].
  unfold wf_stok in Ht. apply andb_prop in Ht as [Ht Hb]. apply andb_prop in Ht as [Ht Hq2].
  apply andb_prop in Ht as [Ht Hq1].
  simpl flat_map. unfold render_stok at 1. rewrite <- !app_assoc.
  rewrite bg_scan_fill by (apply negb_true_iff; exact Ht).
  simpl (["("] ++ _). simpl ([")"] ++ _).
  rewrite bg_scan_tok by auto.
  simpl. f_equal. apply IH. exact Hr.
Qed.

Lemma style_attr_complete_lemma : forall (d : list stok * bytes) (t : stok),
  wf_sty d = true -> In t (fst d) -> style_attr_skip (st_body t) = false ->
  In (st_body t) (style_attr_urls (render_sty d)).
Proof.
  intros [toks tail] t Hwf Hin Hk. unfold wf_sty in Hwf. simpl fst in *; simpl snd in *.
  apply andb_prop in Hwf as [Ht _].
  unfold style_attr_urls. rewrite bg_scan_complete by exact Ht.
  apply filter_In. split.
  - apply in_or_app. left. apply in_map. exact Hin.
  - rewrite Hk. reflexivity.
Qed.

(* ---------- non-vacuity and the witnesses *)
Example srcset_nonvacuous :
  let cs := [SCand [] (bs "/cdn-cgi/image/width=80,quality=75/a.png") (bs " 1x");
             SCand (bs " ") (bs "http://c.example/b.png") ("009" :: bs "640w ");
             SCand [nl; " "] (bs "c.png") []; SCand (bs " ") (bs "d.png") []] in
  wf_cands cs = true
  /\ srcset_urls (render_srcset cs)
     = [bs "/cdn-cgi/image/width=80,quality=75/a.png"; bs "http://c.example/b.png"; bs "c.png"; bs "d.png"].
Proof. vm_compute. split; reflexivity. Qed.

Example css_nonvacuous :
  let d := ([CTok (bs "a{background:") [] (bs "'") (bs "/i/x.png") []; CTok (bs " rgb(1,2,3) ") (bs " ") [] (bs "y.png") (bs "  ");
             CTok (bs ";b:") (bs " ") (bs """") (bs "/img/o'brien.png") []; CTok (bs ";c:") [] [] (bs "//cdn.example.net/x//y.png") []], bs "}") in
  wf_css d = true
  /\ css_urls (render_css d) = [bs "/i/x.png"; bs "y.png"; bs "/img/o'brien.png"; bs "//cdn.example.net/x//y.png"].
Proof. vm_compute. split; reflexivity. Qed.

Example sty_nonvacuous :
  let d := ([STok (bs "color:red;background:url") (bs """") (bs "/i/x.png") (bs """")], bs ";") in
  wf_sty d = true /\ style_attr_urls (render_sty d) = [bs "/i/x.png"].
Proof. vm_compute. split; reflexivity. Qed.

(* style attribute: a URL with a percent escape is skipped (the exclusion that remains) *)
Lemma style_attr_percent_refuted :
  exists d t, wf_sty d = true /\ In t (fst d) /\ ~ In (st_body t) (style_attr_urls (render_sty d)).
Proof.
  exists ([STok (bs "background-image: url") [] (bs "/img/a%20b.png") []], []).
  eexists. split; [reflexivity|]. split; [left; reflexivity|].
  vm_compute. intros [].
Qed.

(* ---------- the code as found (before the C07 repairs) *)

(* a comma inside a candidate URL (allowed by HTML) broke the candidate *)
Lemma srcset_comma_orig_refuted :
  exists cs c, wf_cands cs = true /\ In c cs
               /\ ~ In (sc_url c) (srcset_urls_orig (render_srcset cs))
               /\ In (sc_url c) (srcset_urls (render_srcset cs)).
Proof.
  exists [SCand [] (bs "/cdn-cgi/image/width=80,quality=75/x.png") (bs " 1x")].
  eexists. split; [reflexivity|]. split; [left; reflexivity|]. split.
  - vm_compute. intros [H|[H|[]]]; discriminate.
  - vm_compute. left. reflexivity.
Qed.

(* a tab between URL and descriptor (allowed by HTML) glued them together *)
Lemma srcset_tab_orig_refuted :
  exists cs c, wf_cands cs = true /\ In c cs
               /\ ~ In (sc_url c) (srcset_urls_orig (render_srcset cs))
               /\ In (sc_url c) (srcset_urls (render_srcset cs)).
Proof.
  exists [SCand [] (bs "a.png") ["009"; "2"; "x"]].
  eexists. split; [reflexivity|]. split; [left; reflexivity|]. split.
  - vm_compute. intros [H|[]]; discriminate.
  - vm_compute. left. reflexivity.
Qed.

(* style element: a scheme-relative URL came out with the scheme http, whatever the page's was,
   an empty path segment was turned into a scheme, and a quote inside a quoted URL was lost *)
Lemma css_rewrite_orig_refuted :
  css_urls_orig (bs "a{background:url(//cdn.example.net/x.png)}") = [bs "http://cdn.example.net/x.png"]
  /\ css_urls_orig (bs "a{background:url(/x//y.png)}") = [bs "/xhttp://y.png"]
  /\ css_urls_orig (bs "a{background:url(""/img/o'brien.png"")}") = [bs "/img/obrien.png"]
  /\ css_urls (bs "a{background:url(//cdn.example.net/x.png)}") = [bs "//cdn.example.net/x.png"]
  /\ css_urls (bs "a{background:url(/x//y.png)}") = [bs "/x//y.png"]
  /\ css_urls (bs "a{background:url( ""/img/o'brien.png"" )}") = [bs "/img/o'brien.png"].
Proof. vm_compute. repeat split; reflexivity. Qed.
