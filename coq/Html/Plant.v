(* C07 - what "a URL referenced through a standard embedding attribute" means, constructively:
   the structured values whose rendering is the attribute value / style text found in the DOM.
   Model file: definitions only (the well-formedness predicates are the named hypotheses of the
   theorems; the harness evaluates the same predicates on the generator's documents). *)
From Coq Require Import List Ascii String NArith Bool.
From ZenoV Require Import Lib.Hex Html.Bytes Html.Scan.
Import ListNotations.
Open Scope char_scope.

(* ---------- srcset: comma-separated candidates *)
Record scand := SCand {
  sc_pre : bytes;     (* white space before the URL *)
  sc_url : bytes;
  sc_rest : bytes     (* "" or a descriptor part: a space, then anything without a comma *)
}.
Definition render_cand (c : scand) : bytes := sc_pre c ++ sc_url c ++ sc_rest c.
Definition render_srcset (l : list scand) : bytes := join (bs ",") (map render_cand l).

(* a well-formed candidate, as HTML reads it: the URL is not empty, has no ASCII white space and
   neither starts nor ends with a comma (commas inside are fine); what follows it is empty or
   starts with ASCII white space and has no comma (a descriptor) *)
Definition wf_cand (c : scand) : bool :=
  forallb is_hspace (sc_pre c)
  && match sc_url c with [] => false | x :: _ => negb (Ascii.eqb x ",") end
  && forallb (fun x => negb (is_hspace x)) (sc_url c)
  && negb (ends_comma (rev (sc_url c)))
  && negb (has_byte "," (sc_rest c))
  && match sc_rest c with [] => true | x :: _ => is_hspace x end.
(* and a comma ends a candidate only when white space follows it or a descriptor precedes it *)
Fixpoint wf_cands (l : list scand) : bool :=
  match l with
  | [] => true
  | c :: r =>
    wf_cand c && wf_cands r
    && match r with
       | c2 :: _ => match sc_rest c, sc_pre c2 with [], [] => false | _, _ => true end
       | [] => true
       end
  end.

(* the shape the splitter as found understood (srcset_urls_orig): no comma at all in the URL,
   the descriptor introduced by the space character U+0020 *)
Definition wf_cand_orig (c : scand) : bool :=
  forallb is_space (sc_pre c)
  && match sc_url c with [] => false | _ => true end
  && forallb (fun x => negb (is_space x) && negb (Ascii.eqb x ",")) (sc_url c)
  && negb (has_byte "," (sc_rest c))
  && match sc_rest c with [] => true | x :: _ => Ascii.eqb x " " end.

(* ---------- CSS text: fillers and url(...) tokens, alternating *)
Record ctok := CTok {
  ct_fill : bytes;    (* the text before the token *)
  ct_p1 : bytes;      (* spaces / tabs between the parenthesis and the string (CSS allows them) *)
  ct_q : bytes;       (* "", one single quote or one double quote *)
  ct_url : bytes;
  ct_p2 : bytes
}.
Definition ct_inner (t : ctok) : bytes := ct_p1 t ++ (ct_q t ++ ct_url t ++ ct_q t) ++ ct_p2 t.
Definition render_ctok (t : ctok) : bytes := ct_fill t ++ bs "url(" ++ ct_inner t ++ [")"].
Definition render_css (d : list ctok * bytes) : bytes := flat_map render_ctok (fst d) ++ snd d.

Definition quote_ok (q : bytes) : bool :=
  match q with [] => true | [c] => is_quote c | _ => false end.
Definition cap_char (c : ascii) : bool := negb (Ascii.eqb c ")") && negb (Ascii.eqb c nl).
(* a style-attribute token body: no closing parenthesis, newline or quote *)
Definition url_body_ok (u : bytes) : bool :=
  forallb (fun c => negb (Ascii.eqb c ")") && negb (Ascii.eqb c nl) && negb (is_quote c)) u.
(* a url(...) body in a style element: no closing parenthesis or newline; neither its first nor
   its last character is a quote or white space (quotes inside are fine) *)
Definition edge_char (c : ascii) : bool := negb (is_quote c) && negb (is_space c).
Definition css_body_ok (u : bytes) : bool :=
  forallb cap_char u
  && match u with [] => true | x :: _ => edge_char x end
  && match rev u with [] => true | x :: _ => edge_char x end.
(* a filler of a style element never contains the four characters u r l ( in a row *)
Definition is_pad (c : ascii) : bool := Ascii.eqb c " " || Ascii.eqb c "009".
Definition wf_ctok (t : ctok) : bool :=
  negb (containsb (bs "url(") (ct_fill t)) && quote_ok (ct_q t) && css_body_ok (ct_url t)
  && forallb is_pad (ct_p1 t) && forallb is_pad (ct_p2 t).
Definition wf_css (d : list ctok * bytes) : bool :=
  forallb wf_ctok (fst d) && negb (containsb (bs "url(") (snd d)).

(* the one filter left in the style-element branch: matches that start with #wp- are dropped *)
Definition css_kept (u : bytes) : bool := negb (prefixb (bs "#wp-") u).
(* the code as found also rewrote: the URL came through unchanged only if it had no quote and
   (contained http or had no double slash) *)
Definition css_kept_orig (u : bytes) : bool :=
  forallb (fun c => negb (is_quote c)) u
  && (containsb (bs "http") u || negb (containsb (bs "//") u)) && negb (prefixb (bs "#wp-") u).

(* ---------- style attribute: fillers without "(" and parenthesised tokens, alternating
   (the regular expression does not look for the word url: every group is a token) *)
Record stok := STok {
  st_fill : bytes;
  st_q1 : bytes;
  st_body : bytes;
  st_q2 : bytes
}.
Definition render_stok (t : stok) : bytes :=
  st_fill t ++ ["("] ++ st_q1 t ++ st_body t ++ st_q2 t ++ [")"].
Definition render_sty (d : list stok * bytes) : bytes := flat_map render_stok (fst d) ++ snd d.
Definition wf_stok (t : stok) : bool :=
  negb (has_byte "(" (st_fill t)) && quote_ok (st_q1 t) && quote_ok (st_q2 t)
  && url_body_ok (st_body t).
Definition wf_sty (d : list stok * bytes) : bool :=
  forallb wf_stok (fst d) && negb (has_byte "(" (snd d)).
