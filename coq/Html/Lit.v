(* C07 - compact byte-string literals for the harness-written case files (same device as
   Url/Lit.v, kept separate so that the areas build independently): [bx "text"] elaborates
   several times faster than [hx "hex"]; the driver uses it for printable ASCII and falls back
   to [hx] otherwise.  [sel] reads the per-case string table the driver writes (every distinct
   string of a case is written once). *)
From Coq Require Import List Ascii NArith Strings.Byte.
From ZenoV Require Import Lib.Hex.
Import ListNotations.

Inductive hstr := HStr (l : list Byte.byte).
Definition hstr_of_list (l : list Byte.byte) : hstr := HStr l.
Definition list_of_hstr (b : hstr) : list Byte.byte := match b with HStr l => l end.
Declare Scope hstr_scope.
Delimit Scope hstr_scope with hstr.
Bind Scope hstr_scope with hstr.
String Notation hstr hstr_of_list list_of_hstr : hstr_scope.

Definition bx (b : hstr) : bytes := map ascii_of_byte (list_of_hstr b).
Arguments bx _%hstr.

Definition sel (t : list bytes) (i : N) : bytes := nth (N.to_nat i) t [].
