(* C07 - the byte-level scanners of HTMLAssets (internal/pkg/postprocessor/extractor/html.go):
   the srcset splitter and what the two CSS regular expressions match.  Model file: definitions
   only.

   Alphabet.  The two regular expressions are Go RE2 (leftmost-first) patterns in which a dot
   matches every character except the newline.  The scanners below say what
   FindAllStringSubmatch returns for group 1 on every string of valid UTF-8 (on such input a dot
   consumes whole characters, so byte-wise and character-wise scanning see the same delimiters:
   parentheses, the two quote characters and the newline are ASCII).  The driver's edge stream
   feeds random strings over parentheses, quotes, newline, the letters of url and http, slash,
   percent, colon, dot, hash, hyphen and space to the real regular expressions through
   HTMLAssets and compares the outcome with these scanners.

     backgroundImageRegex = (?:\(['dq]?)(.*?)(?:['dq]?\))     style attribute  (dq = double quote)
     urlRegex             = (?m)url\((.*?)\)                  text of a style element

   Why a one-pass scanner is exact: a match attempt that starts at an opening parenthesis
   (resp. at url + opening parenthesis) fails exactly when a newline comes before the next
   closing parenthesis (or the text ends first); every attempt that starts between that point
   and that newline then fails for the same reason, so the search resumes after the newline.
   A successful match ends at the FIRST closing parenthesis (lazy star); matches do not overlap,
   the search resumes after that parenthesis. *)
From Coq Require Import List Ascii String NArith Bool.
From ZenoV Require Import Lib.Hex Html.Bytes.
Import ListNotations.
Open Scope char_scope.

(* ---------- srcset as found: for every part of strings.Split(v, comma):
                                strings.Split(strings.TrimSpace(part), space)[0]
   (kept for the refutation witnesses; repaired by C07-srcset-whitespace and C07-srcset-comma) *)
Definition first_token (s : bytes) : bytes := hd [] (split_on " " s).
Definition srcset_urls_orig (v : bytes) : list bytes :=
  map (fun part => first_token (trim_space part)) (split_on "," v).

(* ---------- srcset: srcsetURLs, the splitting steps of HTML's srcset parser.
   SSkip: skipping white space and commas; SUrl: inside a URL (up to the next ASCII white
   space; [acc] reversed); SDesc: inside a descriptor (up to the next comma).  A URL that ends
   with commas loses them and the candidate ends there; otherwise the descriptor follows. *)
Definition is_hspace (c : ascii) : bool :=
  let n := N_of_ascii c in
  (n =? 32)%N || (n =? 9)%N || (n =? 10)%N || (n =? 12)%N || (n =? 13)%N.
Fixpoint drop_commas (acc : bytes) : bytes :=
  match acc with
  | c :: r => if Ascii.eqb c "," then drop_commas r else acc
  | [] => []
  end.
Definition ends_comma (acc : bytes) : bool :=
  match acc with c :: _ => Ascii.eqb c "," | [] => false end.
Inductive sst := SSkip | SUrl (acc : bytes) | SDesc.
Fixpoint ss_scan (st : sst) (s : bytes) : list bytes :=
  match s with
  | [] => match st with SUrl acc => [rev (drop_commas acc)] | _ => [] end
  | c :: r =>
    match st with
    | SSkip => if is_hspace c || Ascii.eqb c "," then ss_scan SSkip r else ss_scan (SUrl [c]) r
    | SUrl acc =>
      if is_hspace c
      then rev (drop_commas acc) :: ss_scan (if ends_comma acc then SSkip else SDesc) r
      else ss_scan (SUrl (c :: acc)) r
    | SDesc => if Ascii.eqb c "," then ss_scan SSkip r else ss_scan SDesc r
    end
  end.
Definition srcset_urls (v : bytes) : list bytes := ss_scan SSkip v.

(* ---------- style attribute: backgroundImageRegex, group 1 of every match *)
Inductive bst :=
| BIdle
| BOpen                (* just after the opening parenthesis: an optional quote is consumed (greedy) *)
| BCap (acc : bytes).  (* inside the capture; [acc] is reversed *)

(* the lazy capture stops before an optional quote that is followed by the closing parenthesis *)
Definition cap_close (acc : bytes) : bytes :=
  match acc with
  | q :: a => if is_quote q then rev a else rev acc
  | [] => []
  end.

Fixpoint bg_scan (st : bst) (s : bytes) : list bytes :=
  match s with
  | [] => []
  | c :: r =>
    match st with
    | BIdle => if Ascii.eqb c "(" then bg_scan BOpen r else bg_scan BIdle r
    | BOpen =>
      if is_quote c then bg_scan (BCap []) r
      else if Ascii.eqb c ")" then [] :: bg_scan BIdle r
      else if Ascii.eqb c nl then bg_scan BIdle r
      else bg_scan (BCap [c]) r
    | BCap acc =>
      if Ascii.eqb c ")" then cap_close acc :: bg_scan BIdle r
      else if Ascii.eqb c nl then bg_scan BIdle r
      else bg_scan (BCap (c :: acc)) r
    end
  end.

(* the comment in the code: Don-t extract CSS elements that aren-t URLs *)
Definition style_attr_skip (m : bytes) : bool :=
  has_byte "%" m
  || prefixb (bs "0.") m || prefixb (bs "--font") m || prefixb (bs "--size") m
  || prefixb (bs "--color") m || prefixb (bs "--shreddit") m || prefixb (bs "100vh") m.

Definition style_attr_urls (v : bytes) : list bytes :=
  filter (fun m => negb (style_attr_skip m)) (bg_scan BIdle v).

(* ---------- style element: urlRegex, group 1 of every match *)
Inductive ust :=
| UIdle
| USkip (n : nat)      (* inside the literal url+parenthesis whose first letter has been consumed *)
| UCap (acc : bytes).

Fixpoint css_scan (st : ust) (s : bytes) : list bytes :=
  match s with
  | [] => []
  | c :: r =>
    match st with
    | UIdle => if prefixb (bs "url(") s then css_scan (USkip 2) r else css_scan UIdle r
    | USkip (S n) => css_scan (USkip n) r
    | USkip O => css_scan (UCap []) r
    | UCap acc =>
      if Ascii.eqb c ")" then rev acc :: css_scan UIdle r
      else if Ascii.eqb c nl then css_scan UIdle r
      else css_scan (UCap (c :: acc)) r
    end
  end.

(* the rewriting of a match as found: quotes removed anywhere; every double slash becomes
   http:// unless the text contains http (repaired by C07-css-url-quotes and
   C07-css-url-slashslash; kept for the refutation witnesses) *)
Definition css_rewrite_orig (m : bytes) : bytes :=
  let m1 := strip_quotes m in
  if containsb (bs "http") m1 then m1 else slashslash m1.
Definition css_urls_orig (text : bytes) : list bytes :=
  filter (fun m => negb (prefixb (bs "#wp-") m)) (map css_rewrite_orig (css_scan UIdle text)).

(* the rewriting of a match: strings.Trim(strings.TrimSpace(m), quotes); matches that start with
   #wp- are dropped *)
Definition css_rewrite (m : bytes) : bytes := trim_quotes (trim_space m).
Definition css_urls (text : bytes) : list bytes :=
  filter (fun m => negb (prefixb (bs "#wp-") m)) (map css_rewrite (css_scan UIdle text)).

(* ---------- <a>: Try to find assets in <a> tags.. this is a bit funky (says the code) *)
Definition asset_paths : list bytes :=
  [bs "static/"; bs "assets/"; bs "asset/"; bs "images/"; bs "image/"; bs "img/"].
Definition has_asset_path (v : bytes) : bool := existsb (fun p => containsb p v) asset_paths.
