(* C07 - the item tree in front of a page: redirect chains.  Model file: definitions only.

     postprocessItem (redirect branch)       internal/pkg/postprocessor/item.go
     preprocess (NormalizeURL(child, PARENT)) internal/pkg/preprocessor/preprocessor.go
     Item.GetDepth / GetDepthWithoutRedirections   pkg/models/item.go

   A seed that answers 3xx gets ONE child whose raw URL is the Location header; the next
   preprocess() normalises that child against its parent item's URL (not against the seed's),
   and so on along the chain.  The page the references are found on is the last item of the
   chain; its own children (the assets) are again normalised against THEIR parent: the page. *)
From Coq Require Import List Ascii String NArith ZArith Bool.
From ZenoV Require Import Lib.Hex Html.Bytes Html.Ref.
Import ListNotations.

(* item states that matter for the depth functions *)
Inductive istate := IRedirected (* ItemGotRedirected *) | IOther.

(* GetDepth: the number of edges above the item; [path] = states from the seed down to the item *)
Definition depth (path : list istate) : Z := Z.of_nat (List.length path) - 1.

(* GetDepthWithoutRedirections, as the code computes it (recursion from the item up to the seed):
     seed:      -1 if its state is GotRedirected, else 0
     non-seed:  parent's value if the item's OWN state is GotRedirected, else parent's value + 1 *)
Fixpoint dwr_from (acc : Z) (rest : list istate) : Z :=
  match rest with
  | [] => acc
  | s :: r => dwr_from (match s with IRedirected => acc | IOther => acc + 1 end)%Z r
  end.
Definition dwr (path : list istate) : Z :=
  match path with
  | [] => 0%Z
  | IRedirected :: r => dwr_from (-1) r
  | IOther :: r => dwr_from 0 r
  end.

(* the states on the path to a page that answered 200 behind n redirects *)
Definition redirect_path (n : nat) : list istate := repeat IRedirected n ++ [IOther].

(* the URL of each item of a chain: every child is normalised against its parent.
   [norm parent raw] = NormalizeURL(child{Raw: raw}, parent).String(), None = rejected *)
Section Follow.
Variable norm : bytes -> bytes -> option bytes.
Fixpoint follow (cur : bytes) (locations : list bytes) : option bytes :=
  match locations with
  | [] => Some cur
  | l :: r => match norm cur (trim_quotes l) with Some u => follow u r | None => None end
  end.
End Follow.

(* the specification: RFC 3986 resolution, hop by hop *)
Definition follow_spec (seed : loc) (locations : list ref) : loc := fold_left resolve locations seed.
Fixpoint chain_pages (cur : loc) (locations : list ref) : list loc :=
  cur :: match locations with [] => [] | l :: r => chain_pages (resolve cur l) r end.
