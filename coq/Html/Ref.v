(* C07 - "resolved against the page URL as a browser would": the specification side.
   References are ASTs of the simple forms the generator plants (absolute, scheme-relative,
   path-absolute, path-relative with or without "./" and "../", query-only, fragment-only);
   [resolve] is RFC 3986 section 5.2.2 on them (which is also what the URL standard prescribes
   for these forms), without the fragment (NormalizeURL clears it).  Model file: definitions only.

   The URL parser that does the real work (ada, through goada, called by NormalizeURL) is an
   oracle; the driver runs the real NormalizeURL on every extracted raw string with the page as
   parent, and the monitor compares its answer with [render_loc (resolve page r)]. *)
From Coq Require Import List Ascii String NArith Bool.
From ZenoV Require Import Lib.Hex Html.Bytes.
Import ListNotations.
Open Scope char_scope.

(* an absolute http(s) URL without fragment: scheme://auth/seg1/.../segn?query.  The path is
   "/" ++ join "/" segs; segs is never empty ([[]] is the path "/"). *)
Record loc := Loc {
  l_scheme : bytes;
  l_auth : bytes;             (* host[:port], lower case *)
  l_segs : list bytes;
  l_query : option bytes
}.

Inductive ref :=
| RAbs (l : loc) (f : option bytes)
| RNet (auth : bytes) (segs : list bytes) (q f : option bytes)   (* //auth/path *)
| RPathAbs (segs : list bytes) (q f : option bytes)              (* /a/b        *)
| RPathRel (segs : list bytes) (q f : option bytes)              (* a/b ./a ../a; segs <> [] *)
| RQuery (q : bytes) (f : option bytes)                          (* ?q          *)
| RFrag (f : option bytes).                                      (* "" or #f    *)

Definition render_path (segs : list bytes) : bytes := flat_map (fun s => "/" :: s) segs.
Definition render_q (q : option bytes) : bytes := match q with Some x => "?" :: x | None => [] end.
Definition render_f (f : option bytes) : bytes := match f with Some x => "#" :: x | None => [] end.

Definition render_loc (l : loc) : bytes :=
  l_scheme l ++ bs "://" ++ l_auth l ++ render_path (l_segs l) ++ render_q (l_query l).

Definition render_ref (r : ref) : bytes :=
  match r with
  | RAbs l f => render_loc l ++ render_f f
  | RNet a segs q f => bs "//" ++ a ++ render_path segs ++ render_q q ++ render_f f
  | RPathAbs segs q f => render_path segs ++ render_q q ++ render_f f
  | RPathRel segs q f => join (bs "/") segs ++ render_q q ++ render_f f
  | RQuery q f => "?" :: q ++ render_f f
  | RFrag f => render_f f
  end.

(* remove_dot_segments (RFC 3986 5.2.4) on a segment list; [acc] reversed.  A dot segment in
   last position leaves an empty last segment (trailing slash). *)
Definition is_dot (s : bytes) : bool := bytes_eqb s (bs ".").
Definition is_dotdot (s : bytes) : bool := bytes_eqb s (bs "..").
Fixpoint rds (acc : list bytes) (p : list bytes) : list bytes :=
  match p with
  | [] => rev acc
  | s :: r =>
    if is_dotdot s then match r with [] => rev ([] :: tl acc) | _ => rds (tl acc) r end
    else if is_dot s then match r with [] => rev ([] :: acc) | _ => rds acc r end
    else rds (s :: acc) r
  end.
Definition remove_dots (p : list bytes) : list bytes :=
  match rds [] p with [] => [[]] | x => x end.

(* RFC 3986 5.2.2 (transform references), fragment dropped *)
Definition resolve (base : loc) (r : ref) : loc :=
  match r with
  | RAbs l _ => Loc (l_scheme l) (l_auth l) (remove_dots (l_segs l)) (l_query l)
  | RNet a segs q _ => Loc (l_scheme base) a (remove_dots segs) q
  | RPathAbs segs q _ => Loc (l_scheme base) (l_auth base) (remove_dots segs) q
  | RPathRel segs q _ =>
    Loc (l_scheme base) (l_auth base) (remove_dots (removelast (l_segs base) ++ segs)) q
  | RQuery q _ => Loc (l_scheme base) (l_auth base) (l_segs base) (Some q)
  | RFrag _ => base
  end.

(* ---------- the simple grammar (what the oracle hypothesis is stated for) *)
Definition is_alnum (c : ascii) : bool :=
  let n := N_of_ascii c in
  ((48 <=? n) && (n <=? 57) || (65 <=? n) && (n <=? 90) || (97 <=? n) && (n <=? 122))%N.
Definition seg_char (c : ascii) : bool :=
  is_alnum c || has_byte c (bs "-_.~").
(* an ordinary segment: [A-Za-z0-9_~-][A-Za-z0-9._~-]*  (no leading dot: dot segments are
   spelled "." and ".." only; a segment such as ".a" is the class of a known ada defect, C09) *)
Definition plain_seg (s : bytes) : bool :=
  match s with
  | [] => false
  | c :: _ => negb (Ascii.eqb c ".") && forallb seg_char s
  end.
Definition dot_seg (s : bytes) : bool := is_dot s || is_dotdot s.
(* plain segments, the last one possibly empty (trailing slash) *)
Fixpoint plain_path (p : list bytes) : bool :=
  match p with
  | [] => false
  | [s] => plain_seg s || match s with [] => true | _ => false end
  | s :: r => plain_seg s && plain_path r
  end.
(* leading "." / ".." segments, then a plain path *)
Fixpoint rel_path (p : list bytes) : bool :=
  match p with
  | s :: (_ :: _) as r => if dot_seg s then rel_path r else plain_path p
  | _ => plain_path p
  end.
Definition simple_q (q : option bytes) : bool :=
  match q with
  | None => true
  | Some x => match x with [] => false | _ => forallb (fun c => is_alnum c || Ascii.eqb c "=" || Ascii.eqb c "&") x end
  end.
Definition simple_f (f : option bytes) : bool :=
  match f with None => true | Some x => forallb is_alnum x end.
Definition lower_alnum (c : ascii) : bool :=
  let n := N_of_ascii c in ((48 <=? n) && (n <=? 57) || (97 <=? n) && (n <=? 122))%N.
(* host[:port]: lower-case labels with at least one dot, not an IPv4 literal (a letter in the
   last label), not localhost; the port, if any, is not the scheme's default (the generator
   uses ports above 1023) *)
Definition lower_alpha (c : ascii) : bool :=
  let n := N_of_ascii c in ((97 <=? n) && (n <=? 122))%N.
Definition is_digit (c : ascii) : bool :=
  let n := N_of_ascii c in ((48 <=? n) && (n <=? 57))%N.
Definition dec_of (l : bytes) : N := fold_left (fun a c => (a * 10 + (N_of_ascii c - 48))%N) l 0%N.
Definition simple_label (l : bytes) : bool :=
  match l with
  | c :: _ => lower_alnum c && forallb (fun x => lower_alnum x || Ascii.eqb x "-") l
              && lower_alnum (last l c)
  | [] => false
  end.
Definition simple_host (h : bytes) : bool :=
  let labels := split_on "." h in
  (1 <? List.length labels)%nat && forallb simple_label labels
  && existsb lower_alpha (last labels [])
  && negb (bytes_eqb h (bs "localhost")).
Definition simple_port (p : bytes) : bool :=
  ((List.length p =? 4)%nat || (List.length p =? 5)%nat) && forallb is_digit p
  && negb (prefixb (bs "0") p) && (dec_of p <=? 65535)%N.
(* a canonical dotted quad other than 127.0.0.1 (the local origin of the htmlarch driver) *)
Definition quad_part (l : bytes) : bool :=
  match l with
  | [] => false
  | [c] => is_digit c
  | c :: _ => negb (Ascii.eqb c "0") && forallb is_digit l && (List.length l <=? 3)%nat
              && (dec_of l <=? 255)%N
  end.
Definition ipv4_host (h : bytes) : bool :=
  let labels := split_on "." h in
  (List.length labels =? 4)%nat && forallb quad_part labels && negb (bytes_eqb h (bs "127.0.0.1")).
Definition simple_auth (a : bytes) : bool :=
  match split_on ":" a with
  | [h] => simple_host h || ipv4_host h
  | [h; p] => (simple_host h || ipv4_host h) && simple_port p
  | _ => false
  end.
Definition simple_scheme (s : bytes) : bool := bytes_eqb s (bs "http") || bytes_eqb s (bs "https").
Definition simple_loc (l : loc) : bool :=
  simple_scheme (l_scheme l) && simple_auth (l_auth l) && plain_path (l_segs l) && simple_q (l_query l).
Definition simple_ref (r : ref) : bool :=
  match r with
  | RAbs l f => simple_loc l && simple_f f
  | RNet a segs q f => simple_auth a && plain_path segs && simple_q q && simple_f f
  | RPathAbs segs q f => plain_path segs && simple_q q && simple_f f
  | RPathRel segs q f =>
    rel_path segs && simple_q q && simple_f f
    && match segs with [] :: _ => false | _ => true end      (* not "" or "/..." *)
  | RQuery q f => simple_q (Some q) && simple_f f
  | RFrag f => simple_f f
  end.
