(* C07 - what the generated case files evaluate: model-vs-implementation differences ([hdiffs])
   and the property's monitors on the implementation's own answers ([hmons]).

   A case is one generated document (DOM), one configuration, one item state, and what the real
   code answered: HTMLAssets, HTMLOutlinks, postprocessItem (children = assets, returned items =
   outlinks) and NormalizeURL on every child / outlink.  The oracles of Html.v are instantiated
   with the answers the driver recorded from the real functions (resolveURL, domainscrawl.Match);
   documents that use JSON / xurls heuristics the model leaves to its oracles are [open]: there
   the model's answer must be included in the observed one, elsewhere the two sets are equal.

   The planted references are carried as structured values; the harness first checks that their
   rendering is what the DOM contains at the named element ([plants_consistent], a generator
   fault shows up as a difference, never as a violation), then the monitors look only at the
   DOM, the plants and the observed answers. *)
From Coq Require Import List Ascii String NArith ZArith Bool.
From ZenoV Require Import Lib.Hex Lib.Harness Html.Bytes Html.Scan Html.Html Html.Ref Html.Plant.
Import ListNotations.
Open Scope char_scope.

(* a srcset candidate / a token whose URL is a reference AST (None: some other text) *)
Record hcand := HCand { hc_pre : bytes; hc_ref : ref; hc_rest : bytes }.
Record htok := HTok { ht_fill : bytes; ht_p1 : bytes; ht_q1 : bytes; ht_url : bytes; ht_q2 : bytes; ht_p2 : bytes;
                      ht_ref : option ref }.

Inductive plant :=
| PlAttr (el : N) (name : bytes) (r : ref)            (* element el has attribute name = render r *)
| PlSrcset (el : N) (name : bytes) (cs : list hcand)  (* ... = render_srcset cs *)
| PlCss (el : N) (ts : list htok) (tail : bytes)      (* style element el has text render_css *)
| PlSty (el : N) (ts : list htok) (tail : bytes).     (* element el has style = render_sty *)

Record hcase := HC {
  h_cfg : cfg;
  h_st : pstate;
  h_page : loc;
  h_repaired : bool;                (* which third guard item.go has, see Html.post_stops *)
  h_html : bool;                    (* extractAssets dispatches to HTMLAssets (false: an XML or JSON
                                       content type other than application/xhtml+xml) *)
  h_sweep : bool;                   (* extractOutlinks adds Link headers / the text sweep *)
  h_dom : list node;
  h_readback : bool;                (* the real parser read the rendering back to h_dom *)
  h_plants : list plant;
  h_assets : list bytes;            (* HTMLAssets: Raw of every returned URL *)
  h_outlinks : list bytes;          (* HTMLOutlinks *)
  h_restab : list (bytes * option bytes);   (* resolveURL(raw, item) for every raw anchor value *)
  h_post_assets : list bytes;       (* Raw of the children after postprocessItem *)
  h_post_outlinks : list bytes;     (* Raw of the returned outlink items *)
  h_matchtab : list (bytes * bool); (* domainscrawl.Match *)
  h_norm_assets : list (bytes * option bytes);    (* NormalizeURL(child, page).String() *)
  h_norm_outlinks : list (bytes * option bytes);  (* NormalizeURL(outlink, nil).String() *)
  (* driver htmlreq: the page sits behind a redirect chain built by the real postprocess() and
     preprocess(); the two tables above are then the URLs of the REQUESTS that the real
     preprocess() built (for the children of the page item in its seed tree, for each outlink as a
     new seed), and h_tree lists the URLs of the items of the chain, seed first, the item that
     received the page last *)
  h_pipeline : bool;
  h_tree : list bytes;
  (* response headers of the page as sent: Content-Type and Server *)
  h_ct : bytes;
  h_server : bytes
}.
Definition s3_dispatch (c : hcase) : bool := is_s3 (h_server c) (h_ct c).

(* ---------- lookups *)
Fixpoint lookup {A} (k : bytes) (l : list (bytes * A)) : option A :=
  match l with
  | [] => None
  | (k', v) :: r => if bytes_eqb k k' then Some v else lookup k r
  end.
Definition tab_resolve (c : hcase) (base raw : bytes) : option bytes :=
  match lookup raw (h_restab c) with Some o => o | None => None end.
Definition tab_match (c : hcase) (u : bytes) : bool :=
  match lookup u (h_matchtab c) with Some b => b | None => false end.
Definition obytes_eqb (a b : option bytes) : bool :=
  match a, b with
  | Some x, Some y => bytes_eqb x y
  | None, None => true
  | _, _ => false
  end.

Definition elem_at (c : hcase) (i : N) : node := nth (N.to_nat i) (all_elems (h_dom c)) (Text []).
Definition attrb (e : node) (k : bytes) : option bytes :=
  match e with Elem _ a _ => assoc k a | _ => None end.
Definition page_str (c : hcase) : bytes := render_loc (h_page c).

(* ---------- the modelled alphabet: documents on which the oracles of Html.v add nothing *)
Definition safe_src_char (x : ascii) : bool := is_alnum x || has_byte x (bs "-._~/:?=%").
Definition script_closed (e : node) : bool :=
  match e with
  | Elem _ a _ =>
    forallb (fun '(k, v) =>
      if bytes_eqb k (bs "src")
      then negb (has_byte ":" v)
           || (forallb safe_src_char v && match rev v with x :: _ => is_alnum x || Ascii.eqb x "/" | [] => true end)
      else negb (has_byte ":" v) && negb (containsb (bs "json") v)) a
    && negb (has_byte "=" (text_of e)) && negb (has_byte ":" (text_of e))
  | _ => true
  end.
Definition elem_closed (e : node) : bool :=
  match attr e "data-item" with Some _ => false | None => true end
  && (negb (tag_is "script" e) || script_closed e)
  && match attr e "onclick" with Some v => negb (containsb (bs "window.location") v) | None => true end.
Definition closed (c : hcase) : bool := forallb elem_closed (all_elems (h_dom c)).

(* ---------- the model's answers, oracles instantiated *)
Definition m_assets (c : hcase) : list bytes :=
  html_assets (fun _ => []) (fun _ => []) (h_cfg c) (h_dom c).
Definition m_outlinks (c : hcase) : list bytes :=
  html_outlinks (fun _ => None) (tab_resolve c) (h_cfg c) (page_str c) (h_dom c).
Definition m_post_assets (c : hcase) : list bytes :=
  post_assets (fun _ => []) (fun _ => []) (h_repaired c) (h_cfg c) (h_st c) (page_str c) (h_dom c).
Definition m_post_outlinks (c : hcase) : list bytes :=
  post_outlinks_resp (fun _ => None) (tab_resolve c) (h_repaired c) (tab_match c) [] []
                     (h_server c) (h_ct c) (h_cfg c) (h_st c) (page_str c) (h_dom c).

Definition agree (exact : bool) (model obs : list bytes) : bool :=
  if exact then set_eq model obs else subset model obs.

(* ---------- the plants really are in the DOM *)
Definition hcand_s (h : hcand) : scand := SCand (hc_pre h) (render_ref (hc_ref h)) (hc_rest h).
Definition htok_c (t : htok) : ctok := CTok (ht_fill t) (ht_p1 t) (ht_q1 t) (ht_url t) (ht_p2 t).
Definition htok_s (t : htok) : stok := STok (ht_fill t) (ht_q1 t) (ht_url t) (ht_q2 t).
Definition htok_ok (t : htok) : bool :=
  match ht_ref t with Some r => bytes_eqb (ht_url t) (render_ref r) | None => true end.
Definition plant_consistent (c : hcase) (p : plant) : bool :=
  match p with
  | PlAttr el name r => obytes_eqb (attrb (elem_at c el) name) (Some (render_ref r))
  | PlSrcset el name cs =>
    obytes_eqb (attrb (elem_at c el) name) (Some (render_srcset (map hcand_s cs)))
  | PlCss el ts tail =>
    tag_is "style" (elem_at c el) && forallb htok_ok ts
    && forallb (fun t => bytes_eqb (ht_q1 t) (ht_q2 t)) ts
    && bytes_eqb (text_of (elem_at c el)) (render_css (map htok_c ts, tail))
  | PlSty el ts tail =>
    forallb htok_ok ts
    && forallb (fun t => match ht_p1 t, ht_p2 t with [], [] => true | _, _ => false end) ts
    && obytes_eqb (attr (elem_at c el) "style") (Some (render_sty (map htok_s ts, tail)))
  end.
Definition plants_consistent (c : hcase) : bool := forallb (plant_consistent c) (h_plants c).

(* ---------- correspondence *)
Definition diff_case (c : hcase) : bool :=
  negb (h_readback c)
  || negb (plants_consistent c)
  || negb (agree (closed c) (m_assets c) (h_assets c))
  || negb (agree (closed c) (m_outlinks c) (h_outlinks c))
  || (h_html c && negb (agree (closed c) (m_post_assets c) (h_post_assets c)))
  || negb (agree (s3_dispatch c || (closed c && negb (h_sweep c) && h_html c))
                 (m_post_outlinks c) (h_post_outlinks c)).
Definition hdiffs (l : list hcase) := bad_idx diff_case l.

(* ---------- monitors: the theorems' predicates on the observed answers *)

(* the standard embedding attributes of the property, per tag *)
Definition std_attr (tag name : bytes) : bool :=
  (bytes_eqb name (bs "src")
   && (mem tag [bs "img"; bs "script"; bs "source"; bs "video"; bs "audio"]))
  || (bytes_eqb name (bs "href") && bytes_eqb tag (bs "link"))
  || (bytes_eqb name (bs "srcset") && mem tag [bs "img"; bs "source"]).
Definition is_anchor (e : node) (name : bytes) : bool :=
  tag_is "a" e && bytes_eqb name (bs "href").

(* "unless its tag is disabled" and "except rel=alternate by default" *)
Definition elem_enabled (c : hcase) (e : node) : bool :=
  negb (mem (tag_of e) (c_disabled (h_cfg c)))
  && (negb (tag_is "link" e) || c_alt (h_cfg c) || negb (is_alternate e)).

(* one planted URL: (raw text, reference AST if any, element, named exclusion applies?, anchor?) *)
Record purl := PU { pu_raw : bytes; pu_ref : option ref; pu_el : node; pu_excl : bool; pu_anchor : bool;
                    pu_attr_based : bool (* subject to tag disabling *) }.

Definition purls_of (c : hcase) (p : plant) : list purl :=
  match p with
  | PlAttr el name r =>
    let e := elem_at c el in
    if is_anchor e name then [PU (render_ref r) (Some r) e (match render_ref r with [] => true | _ => false end) true true]
    else if std_attr (tag_of e) name then [PU (render_ref r) (Some r) e false false true]
    else []
  | PlSrcset el name cs =>
    let e := elem_at c el in
    if std_attr (tag_of e) name
    then map (fun h => PU (render_ref (hc_ref h)) (Some (hc_ref h)) e
                          (negb (wf_cands (map hcand_s cs))) false true) cs
    else []
  | PlCss el ts tail =>
    let e := elem_at c el in
    map (fun t => PU (ht_url t) (ht_ref t) e
                     (negb (wf_css (map htok_c ts, tail)) || negb (css_kept (ht_url t))) false true) ts
  | PlSty el ts tail =>
    let e := elem_at c el in
    map (fun t => PU (ht_url t) (ht_ref t) e
                     (negb (wf_sty (map htok_s ts, tail)) || style_attr_skip (ht_url t)) false false) ts
  end.
Definition purls (c : hcase) : list purl := flat_map (purls_of c) (h_plants c).

Definition in_force (c : hcase) (u : purl) : bool :=
  negb (pu_attr_based u) || elem_enabled c (pu_el u).

(* monitor 0 - standard_attrs_extracted: every planted asset URL outside the named exclusions
   whose tag is enabled is among the strings HTMLAssets returned *)
Definition mon_extracted (c : hcase) : bool :=
  forallb (fun u => pu_anchor u || pu_excl u || negb (in_force c u) || mem (pu_raw u) (h_assets c))
          (purls c).

(* monitor 1 - anchors_become_outlinks: every planted anchor target, resolved by resolveURL,
   is among the outlinks of HTMLOutlinks; and among the items postprocessItem returns whenever
   the item is a 200 at an admissible depth and the hop limit allows *)
Definition guards_pass (c : hcase) : bool :=
  negb (post_stops_fixed (h_cfg c) (h_st c)).
Definition anchor_target (c : hcase) (u : purl) : bytes :=
  match tab_resolve c [] (pu_raw u) with Some ((_ :: _) as r) => r | _ => pu_raw u end.
Definition hops_allow (c : hcase) : bool := (p_hops (h_st c) <? c_maxhops (h_cfg c))%Z.
Definition mon_anchors (c : hcase) : bool :=
  forallb (fun u => negb (pu_anchor u) || pu_excl u || negb (in_force c u)
                    || (mem (anchor_target c u) (h_outlinks c)
                        && (negb (guards_pass c && hops_allow c && negb (s3_dispatch c))
                            || mem (anchor_target c u) (h_post_outlinks c))))
          (purls c).

(* the expected absolute URL of a planted reference *)
Definition expected (c : hcase) (r : ref) : bytes := render_loc (resolve (h_page c) r).
Definition has_value (v : bytes) (tab : list (bytes * option bytes)) : bool :=
  existsb (fun '(_, o) => obytes_eqb o (Some v)) tab.

(* when the property says the URL must be requested: no <base>, an HTML page answered 200 that
   the postprocessor looks into, asset capture on *)
Definition asset_due (c : hcase) : bool :=
  negb (has_base (h_dom c)) && guards_pass c && negb (c_noassets (h_cfg c)).
(* [strict]: the theorem's reading (the outlinks are the HTML extractor's: C07_outlinks_dispatch) *)
Definition outlink_due (strict : bool) (c : hcase) : bool :=
  negb (has_base (h_dom c)) && guards_pass c && hops_allow c && negb (strict && s3_dispatch c).

(* [html_only] = the theorem's reading (the child made from this very string normalises to the
   expected URL, in a response handed to the HTML extractor); otherwise the property text's:
   some child normalises to the expected URL *)
(* preprocess() drops a child whose path is empty or "/" ("just a domain"): named exclusion of
   the pipeline leg (C19 lists it as a finding) *)
Definition root_excused (c : hcase) (r : ref) : bool :=
  h_pipeline c && match l_segs (resolve (h_page c) r) with [[]] => true | _ => false end.
(* DedupeItems drops a fresh child whose URL is that of a non-seed item of the tree (already seen) *)
Definition tree_excused (c : hcase) (r : ref) : bool :=
  h_pipeline c && mem (render_loc (resolve (h_page c) r)) (tl (h_tree c)).

Definition resolved_ok (html_only : bool) (c : hcase) (u : purl) : bool :=
  match pu_ref u with
  | None => true
  | Some r =>
    if pu_anchor u
    then negb (outlink_due html_only c) || has_value (expected c r) (h_norm_outlinks c)
    else negb (asset_due c) || (html_only && negb (h_html c)) || bytes_eqb (pu_raw u) (page_str c)
         || root_excused c r || tree_excused c r
         || (if html_only && negb (h_pipeline c)   (* DedupeItems keeps one child per URL *)
             then obytes_eqb (match lookup (pu_raw u) (h_norm_assets c) with Some o => o | None => None end)
                             (Some (expected c r))
             else has_value (expected c r) (h_norm_assets c))
  end.

(* monitor 2 - requested_unless_excused: every planted simple reference outside the named
   exclusions, in a response that extractAssets hands to the HTML extractor, ends up as a child (asset) or a returned item (anchor) whose normalised URL is the
   RFC 3986 resolution of the reference against the page URL *)
Definition simple_purl (c : hcase) (u : purl) : bool :=
  simple_loc (h_page c) && match pu_ref u with Some r => simple_ref r | None => false end.
Definition mon_requested (c : hcase) : bool :=
  forallb (fun u => pu_excl u || negb (in_force c u) || negb (simple_purl c u) || resolved_ok true c u)
          (purls c).

(* monitor 3 - the property text without the code's own exclusions: as monitor 2, for every
   planted reference (known findings live here) *)
Definition mon_text (c : hcase) : bool :=
  forallb (fun u => negb (in_force c u) || resolved_ok false c u) (purls c).

(* monitor 4 - redirect_chain_followed: the item that received the page has the URL the chain
   leads to (every hop resolved against its parent) *)
Definition mon_reached (c : hcase) : bool :=
  match rev (h_tree c) with u :: _ => bytes_eqb u (page_str c) | [] => negb (h_pipeline c) end.

Definition hmons (l : list hcase) :=
  mon_idx [mon_extracted; mon_anchors; mon_requested; mon_text; mon_reached] l.
