(* C07 - proofs about redirect chains: redirects do not count for the depth limit; the base of
   resolution moves along the chain, so the page's references are resolved against the page. *)
From Coq Require Import List Ascii String NArith ZArith Bool Lia.
From ZenoV Require Import Lib.Hex Html.Bytes Html.Scan Html.Html Html.Ref Html.Plant Html.Spec
  Html.Chain Html.ScanProofs Html.HtmlProofs.
Import ListNotations.

Lemma dwr_from_redirects acc n rest :
  dwr_from acc (repeat IRedirected n ++ rest) = dwr_from acc rest.
Proof. induction n as [|n IH]; simpl; auto. Qed.

(* a page behind any number of redirects is at depth 0 for the depth limit *)
Lemma redirects_do_not_count_lemma : forall n : nat, dwr (redirect_path n) = 0%Z.
Proof.
  intros [|n]; [reflexivity|].
  unfold redirect_path. cbn [repeat app dwr]. rewrite dwr_from_redirects. reflexivity.
Qed.

(* while GetDepth counts them *)
Lemma depth_counts_redirects : forall n : nat, depth (redirect_path n) = Z.of_nat n.
Proof.
  intros n. unfold depth, redirect_path. rewrite app_length, repeat_length. simpl. lia.
Qed.

(* in general: the non-redirected items below the seed count, the seed counts -1 if redirected *)
Lemma dwr_from_count acc rest :
  dwr_from acc rest
  = (acc + Z.of_nat (List.length (filter (fun s => match s with IOther => true | _ => false end) rest)))%Z.
Proof.
  revert acc. induction rest as [|s r IH]; intros acc; simpl; [lia|].
  destruct s; rewrite IH; simpl List.length; lia.
Qed.

Section Chains.
Variable norm : bytes -> bytes -> option bytes.

(* oracle hypothesis, per parent: on simple references NormalizeURL with that parent gives the
   RFC 3986 resolution against THAT parent *)
Definition norm_rfc_at (p : loc) : Prop :=
  forall r, simple_ref r = true ->
    norm (render_loc p) (render_ref r) = Some (render_loc (resolve p r)).

Lemma follow_chain_lemma : forall (locations : list ref) (seed : loc),
  (forall p, In p (chain_pages seed locations) -> norm_rfc_at p) ->
  Forall (fun r => simple_ref r = true /\ trim_quotes (render_ref r) = render_ref r) locations ->
  follow norm (render_loc seed) (map render_ref locations)
  = Some (render_loc (follow_spec seed locations)).
Proof.
  induction locations as [|l r IH]; intros seed Hn HF; [reflexivity|].
  inversion HF as [|? ? [Hs Ht] HF']; subst.
  cbn [map follow follow_spec fold_left]. rewrite Ht.
  rewrite (Hn seed (or_introl eq_refl) l Hs).
  apply IH; auto. intros p Hp. apply Hn. right. exact Hp.
Qed.

Variable data_item_urls : bytes -> list bytes.
Variable script_extra : node -> list bytes.
Variable is_root : bytes -> bool.
Hypothesis is_root_spec : forall l : loc,
  is_root (render_loc l) = match l_segs l with [[]] => true | _ => false end.

(* the page behind a redirect chain: its references are requested resolved against the PAGE *)
Lemma requested_behind_redirects_lemma :
  forall (seed : loc) (locations : list ref) (tree : list bytes)
         (c : cfg) (mime_html : bool) (hops : Z) (dc : bool)
         (dom : list node) (e : node) (r : ref),
  let page := follow_spec seed locations in
  let s := PState 200 (dwr (redirect_path (List.length locations))) mime_html hops dc in
  norm_rfc_at page ->
  has_base dom = false ->
  In e (all_elems dom) -> referenced c e (render_ref r) ->
  simple_ref r = true ->
  trim_quotes (render_ref r) = render_ref r ->
  render_ref r <> render_loc page ->
  l_segs (resolve page r) <> [[]] ->
  ~ In (render_loc (resolve page r)) tree ->
  c_noassets c = false ->
  In (render_loc (resolve page r))
     (pre_requests data_item_urls script_extra true (norm (render_loc page)) is_root tree
                   c s (render_loc page) dom).
Proof.
  intros seed locations tree c mime_html hops dc dom e r page s Hn Hb He Href Hs Ht Hself Hroot Htree Hna.
  unfold pre_requests. apply filter_In. split.
  - assert (Hst : post_stops_fixed c s = false).
    { unfold s. rewrite redirects_do_not_count_lemma.
      unfold post_stops_fixed, post_stops_gen. cbn [p_status p_depth p_dc p_hops p_mime_html].
      rewrite Hna. destruct dc; reflexivity. }
    exact (requested_unless_excused_lemma data_item_urls script_extra page (norm (render_loc page)) Hn
             c s dom e r Hb He Href Hs Ht Hself Hst Hna).
  - apply andb_true_intro. split.
    + rewrite is_root_spec.
      destruct (l_segs (resolve page r)) as [|x t] eqn:E; [reflexivity|].
      destruct x as [|a x]; [|reflexivity].
      destruct t; [exfalso; apply Hroot; reflexivity|reflexivity].
    + apply negb_true_iff. unfold mem. destruct (existsb _ tree) eqn:E; [|reflexivity].
      exfalso. apply Htree. apply existsb_exists in E as [x [Hx Heq]].
      apply bytes_eqb_eq in Heq. subst x. exact Hx.
Qed.
End Chains.

Example chain_nonvacuous :
  let seed := Loc (bs "http") (bs "old.example.com") [bs "a"; bs "start"] None in
  let locs := [RAbs (Loc (bs "https") (bs "www.example.org") [bs "moved"; bs "here"] None) None;
               RPathAbs [bs "dir"; bs "page.html"] None None] in
  render_loc (follow_spec seed locs) = bs "https://www.example.org/dir/page.html"
  /\ render_loc (resolve (follow_spec seed locs) (RPathRel [bs "pic.png"] None None))
     = bs "https://www.example.org/dir/pic.png"
  /\ render_loc (resolve seed (RPathRel [bs "pic.png"] None None)) = bs "http://old.example.com/a/pic.png"
  /\ dwr (redirect_path 2) = 0%Z /\ depth (redirect_path 2) = 2%Z /\ depth (redirect_path 3) = 3%Z.
Proof. vm_compute. repeat split; reflexivity. Qed.
