(* A redirect within the limit is always followed: postprocessItem looks at the 3xx answer BEFORE every rule that
   says "nothing more to do for this item" (asset depth > 2, an HTML page at asset depth 1, --disable-assets-capture
   at the hop limit), so neither the node's depth, nor its MIME type, nor the asset/domains-crawl settings can make
   a redirect target disappear from the seed's tree.  (C01: "only after every URL in its tree - the seed, its
   redirect targets and its embedded assets - has been fetched ...") *)
From ZenoV Require Import Tree.Item Tree.ItemSpec Stage.Pass.
Open Scope N_scope.

Theorem post_item_follows_redirect : forall c o dwr1 n t next r,
  st_of n = Archived -> o_fetch o (id_of n) = Some r -> r_redirect r = true ->
  nredir (inf n) < max_redirect c ->
  post_item c o dwr1 n (t, next) =
    match add_child (id_of n) (new_child next (r_loc r) (nhops (inf n)) (nredir (inf n) + 1) false) GotRedirected t with
    | Some t' => (t', next + 1)
    | None => (t, next)
    end.
Proof.
  intros c o dwr1 n t next r HA HF HR HL. unfold post_item. rewrite HA, HF, HR. simpl.
  assert (E : (max_redirect c <=? nredir (inf n)) = false) by (apply N.leb_gt; exact HL).
  rewrite E. reflexivity.
Qed.

(* at the limit the item is completed instead, again whatever its depth or type *)
Theorem post_item_redirect_limit : forall c o dwr1 n t next r,
  st_of n = Archived -> o_fetch o (id_of n) = Some r -> r_redirect r = true ->
  max_redirect c <= nredir (inf n) ->
  post_item c o dwr1 n (t, next) = (set_status (id_of n) Completed t, next).
Proof.
  intros c o dwr1 n t next r HA HF HR HL. unfold post_item. rewrite HA, HF, HR. simpl.
  assert (E : (max_redirect c <=? nredir (inf n)) = true) by (apply N.leb_le; exact HL).
  rewrite E. reflexivity.
Qed.

(* ... and the target then stays in the tree: the pre-processor's "removing child with empty path" rule (a bare
   domain is a false positive of the asset extractors) applies below a GotChildren parent only; below a redirect a
   target that normalises and is in scope is kept whatever its path *)
Theorem pre_loop_keeps_redirect_target : forall o n p r t u ep,
  st_of n = Fresh -> st_of p = GotRedirected -> o_pre o (id_of n) = POk u false ep ->
  pre_loop o ((n, Some p) :: r) t = pre_loop o r (set_url_of (id_of n) u t).
Proof.
  intros o n p r t u ep HF HP HO. simpl. rewrite HF, HO, HP. simpl. reflexivity.
Qed.
