(* Each stage of Stage/Pass.v, which works by id on the nodes of the deepest level, written as a
   structural map over that level (valid when ids are unique). *)
From Coq Require Import Lia.
From ZenoV Require Import Tree.Item Tree.ItemSpec Stage.Pass Stage.TreeLemmas.
Open Scope N_scope.

Definition setst (s : status) (n : item) : item :=
  match n with Node i cs => Node (set_st s i) cs end.
Definition seturl (u : N) (n : item) : item :=
  match n with Node i cs => Node (set_url u i) cs end.

Lemma set_status_update id s t : set_status id s t = update id (setst s) t.
Proof. reflexivity. Qed.

Lemma ids_update id F : (forall m, ids (F m) = ids m) -> forall t, ids (update id F t) = ids t.
Proof.
  intros HF. induction t as [i cs IH] using item_ind2. cbn [update].
  assert (E : ids (Node i (map (update id F) cs)) = ids (Node i cs)).
  { rewrite !ids_node. f_equal. rewrite flat_map_map. apply flat_map_ext_in. intros x Hx.
    rewrite Forall_forall in IH. apply IH. exact Hx. }
  destruct (nid i =? id); [rewrite HF|]; exact E.
Qed.

Lemma ids_setst s m : ids (setst s m) = ids m.
Proof. destruct m as [i cs]. cbn [setst]. rewrite !ids_node. reflexivity. Qed.
Lemma ids_seturl u m : ids (seturl u m) = ids m.
Proof. destruct m as [i cs]. cbn [seturl]. rewrite !ids_node. reflexivity. Qed.
Lemma id_of_setst s m : id_of (setst s m) = id_of m.
Proof. destruct m. reflexivity. Qed.
Lemma id_of_seturl u m : id_of (seturl u m) = id_of m.
Proof. destruct m. reflexivity. Qed.

Lemma fold_left_filter {A B} (f : A -> B -> A) (p : B -> bool) l : forall a,
  fold_left f (filter p l) a = fold_left (fun a x => if p x then f a x else a) l a.
Proof. induction l as [|x r IH]; intros a; [reflexivity|]. cbn. destruct (p x); cbn; apply IH. Qed.

Lemma fold_pair_unit {A B} (f : A -> B -> A) l : forall a,
  fold_left (fun (st : A * unit) n => (f (fst st) n, tt)) l (a, tt) = (fold_left f l a, tt).
Proof. induction l as [|x r IH]; intros a; [reflexivity|]. cbn. apply IH. Qed.

(* a fold of conditional status changes over one level *)
Lemma fold_set_status_level (b : item -> bool) (s : item -> status) D t0 :
  NoDup (ids t0) ->
  fold_left (fun t n => if b n then set_status (id_of n) (s n) t else t) (nodes_at D t0) t0
  = map_at D (fun n => if b n then setst (s n) n else n) t0.
Proof.
  intros Hd.
  pose (step := fun (n : item) (st : item * unit) =>
                  ((if b n then set_status (id_of n) (s n) (fst st) else fst st), tt)).
  pose (R := fun (_ : unit) (n n' : item) (_ : unit) => n' = if b n then setst (s n) n else n).
  pose (I := fun (_ : unit) (T : item) => NoDup (ids T)).
  assert (Hnd : forall (u : unit) T, I u T -> NoDup (ids T)) by (intros u T H; exact H).
  assert (Hstep : forall (u : unit) n T, I u T -> In n (nodes_at D T) ->
            exists F u', step n (T, u) = (update (id_of n) F T, u')
                         /\ R u n (F n) u' /\ id_of (F n) = id_of n /\ I u' (update (id_of n) F T)).
  { intros [] n T HI Hn. destruct (b n) eqn:Eb.
    + exists (setst (s n)), tt. unfold step, R, I. cbn [fst]. rewrite Eb. split; [reflexivity|].
      split; [reflexivity|]. split; [apply id_of_setst|].
      rewrite ids_update; [exact HI | apply ids_setst].
    + exists (fun m => m), tt. unfold step, R, I. cbn [fst]. rewrite Eb, update_ident.
      split; [reflexivity|]. split; [reflexivity|]. split; [reflexivity | exact HI]. }
  destruct (fold_local D step R I Hnd Hstep t0 tt Hd Hd) as [done [u [Ef [_ [_ Hspec]]]]].
  pose proof (fold_pair_unit (fun t n => if b n then set_status (id_of n) (s n) t else t) (nodes_at D t0) t0) as Ep.
  unfold step in Ef. rewrite Ep in Ef. inversion Ef as [E]. rewrite E.
  apply map_at_ext. intros m Hm. destruct (Hspec m Hm) as [u1 [u2 HR]]. exact HR.
Qed.

(* ---- pre_loop on a tree of depth >= 1 ---- *)
Definition pre_child (o : oracle) (ps : status) (c : item) : list item :=
  match o_pre o (id_of c) with
  | PNormFail => []
  | POk u ex ep => if ex then [] else if status_eqb ps GotChildren && ep then [] else [seturl u c]
  end.
Definition pre_par (o : oracle) (p : item) : item :=
  Node (inf p) (flat_map (pre_child o (st_of p)) (kids p)).

Definition lk (M : list (N * list item)) (c : item) : list item :=
  match assoc (id_of c) M with Some l => l | None => [c] end.
Definition psub (M : list (N * list item)) (p : item) : item :=
  Node (inf p) (flat_map (lk M) (kids p)).
Definition Mok (M : list (N * list item)) : Prop :=
  forall id l, assoc id M = Some l -> (length l <= 1)%nat /\ forall x, In x l -> id_of x = id.

Definition rmk (cid : N) (n : item) : item :=
  match n with Node i cs => Node i (remove_first cid cs) end.

Lemma level_par_S : forall d pr t,
  level_par (S d) pr t = flat_map (fun p => map (fun c => (c, Some p)) (kids p)) (nodes_at d t).
Proof.
  induction d as [|d IH]; intros pr [i cs].
  - cbn. rewrite app_nil_r. apply (flat_map_singleton (fun c => (c, Some (Node i cs)))).
  - change (level_par (S (S d)) pr (Node i cs)) with (flat_map (level_par (S d) (Some (Node i cs))) cs).
    cbn [nodes_at]. rewrite flat_map_flat_map. apply flat_map_ext_in. intros c _. apply IH.
Qed.

Lemma lk_ids M c : Mok M -> forall x, In x (lk M c) -> id_of x = id_of c.
Proof.
  intros HM x Hx. unfold lk in Hx. destruct (assoc (id_of c) M) as [l|] eqn:E.
  - exact (proj2 (HM _ _ E) x Hx).
  - destruct Hx as [<-|[]]. reflexivity.
Qed.

Lemma id_of_psub M p : id_of (psub M p) = id_of p.
Proof. reflexivity. Qed.

Lemma Mok_cons M id l : Mok M -> (length l <= 1)%nat -> (forall x, In x l -> id_of x = id) -> Mok ((id, l) :: M).
Proof.
  intros HM Hl Hx id' l' H. cbn [assoc] in H. destruct (N.eqb_spec id' id) as [->|Hne].
  - inversion H; subst. split; assumption.
  - exact (HM _ _ H).
Qed.

Lemma remove_first_notin cid l : (forall x, In x l -> id_of x <> cid) -> remove_first cid l = l.
Proof.
  induction l as [|a r IH]; intros H; [reflexivity|]. cbn.
  destruct (N.eqb_spec (id_of a) cid) as [E|_]; [exfalso; exact (H a (or_introl eq_refl) E)|].
  f_equal. apply IH. intros x Hx. apply H. right. exact Hx.
Qed.

Lemma remove_first_app_notin cid l r :
  (forall x, In x l -> id_of x <> cid) -> remove_first cid (l ++ r) = l ++ remove_first cid r.
Proof.
  induction l as [|a q IH]; intros H; [reflexivity|]. cbn.
  destruct (N.eqb_spec (id_of a) cid) as [E|_]; [exfalso; exact (H a (or_introl eq_refl) E)|].
  f_equal. apply IH. intros x Hx. apply H. right. exact Hx.
Qed.

Lemma remove_first_flat M cid ks :
  Mok M -> NoDup (map id_of ks) ->
  remove_first cid (flat_map (lk M) ks) = flat_map (lk ((cid, []) :: M)) ks.
Proof.
  intros HM. induction ks as [|c r IH]; intros Hd; [reflexivity|].
  inversion Hd as [|x l Hn Hr]; subst. cbn [flat_map].
  assert (Hrest : id_of c = cid -> flat_map (lk ((cid, []) :: M)) r = flat_map (lk M) r).
  { intros E. apply flat_map_ext_in. intros c' Hc'. unfold lk. cbn [assoc].
    destruct (N.eqb_spec (id_of c') cid) as [E'|_]; [|reflexivity].
    exfalso. apply Hn. rewrite E, <- E'. apply in_map. exact Hc'. }
  unfold lk at 3. cbn [assoc]. destruct (N.eqb_spec (id_of c) cid) as [E|Hne].
  - cbn [app]. rewrite (Hrest E).
    assert (Hnot : forall x, In x (flat_map (lk M) r) -> id_of x <> cid).
    { intros x Hx. apply in_flat_map in Hx as [c' [Hc' Hx]]. rewrite (lk_ids M c' HM x Hx).
      intros E'. apply Hn. rewrite E, <- E'. apply in_map. exact Hc'. }
    unfold lk at 1. destruct (assoc (id_of c) M) as [l|] eqn:Ea.
    + destruct (HM _ _ Ea) as [Hl Hx]. destruct l as [|x [|y l']]; [| |cbn in Hl; lia].
      * cbn [app]. apply remove_first_notin. exact Hnot.
      * cbn [app remove_first]. rewrite (Hx x (or_introl eq_refl)), E, N.eqb_refl. reflexivity.
    + cbn [app remove_first]. rewrite E, N.eqb_refl. reflexivity.
  - rewrite remove_first_app_notin.
    + f_equal. apply IH. exact Hr.
    + intros x Hx. rewrite (lk_ids M c HM x Hx). exact Hne.
Qed.

Section PreLoop.
Hypothesis H_remove_child_ids : remove_child_ids_stmt.
Variable o : oracle.
Variable d : nat.
Variable t : item.
Hypothesis Hd : NoDup (ids t).

Lemma kid_in_flatten p n : In p (nodes_at d t) -> In n (kids p) -> In n (flatten t).
Proof.
  intros Hp Hn. apply (flatten_trans n p t); [apply in_kids_flatten; exact Hn | exact (nodes_at_flatten _ _ _ Hp)].
Qed.

Lemma psub_in_level M p : In p (nodes_at d t) -> In (psub M p) (nodes_at d (map_at d (psub M) t)).
Proof. intros Hp. rewrite nodes_at_map_at. apply in_map. exact Hp. Qed.

Lemma seturl_step M p n u :
  NoDup (ids (map_at d (psub M) t)) -> Mok M ->
  In p (nodes_at d t) -> In n (kids p) -> assoc (id_of n) M = None ->
  set_url_of (id_of n) u (map_at d (psub M) t) = map_at d (psub ((id_of n, [seturl u n]) :: M)) t.
Proof.
  intros HdX HM Hp Hn Ha.
  change (set_url_of (id_of n) u (map_at d (psub M) t))
    with (update (id_of n) (seturl u) (map_at d (psub M) t)).
  rewrite (update_level (id_of n) (seturl u) (S d) _ n HdX); [| |reflexivity].
  - rewrite map_at_S, map_at_compose. apply map_at_ext. intros q Hq.
    unfold psub at 2. cbn [inf kids]. unfold psub. f_equal.
    rewrite map_flat_map. apply flat_map_ext_in. intros c Hc.
    unfold lk at 2. cbn [assoc]. destruct (N.eqb_spec (id_of c) (id_of n)) as [E|Hne].
    + assert (c = n) as ->.
      { apply (NoDup_ids_inj t); [exact Hd | exact (kid_in_flatten q c Hq Hc) | exact (kid_in_flatten p n Hp Hn) | exact E]. }
      unfold lk. rewrite Ha. cbn. unfold sel. rewrite N.eqb_refl. reflexivity.
    + fold (lk M c). rewrite <- (map_id (lk M c)) at 2. apply map_ext_in. intros x Hx.
      unfold sel. rewrite (lk_ids M c HM x Hx). destruct (N.eqb_spec (id_of c) (id_of n)); [contradiction|reflexivity].
  - rewrite nodes_at_S, nodes_at_map_at, flat_map_map. apply in_flat_map. exists p. split; [exact Hp|].
    cbn [psub kids]. apply in_flat_map. exists n. split; [exact Hn|]. unfold lk. rewrite Ha. left. reflexivity.
Qed.

Lemma remove_step M p n :
  NoDup (ids (map_at d (psub M) t)) -> Mok M ->
  In p (nodes_at d t) -> In n (kids p) ->
  remove_child (id_of p) (id_of n) (map_at d (psub M) t) = map_at d (psub ((id_of n, []) :: M)) t.
Proof.
  intros HdX HM Hp Hn.
  change (remove_child (id_of p) (id_of n) (map_at d (psub M) t))
    with (update (id_of p) (rmk (id_of n)) (map_at d (psub M) t)).
  rewrite (update_level (id_of p) (rmk (id_of n)) d _ (psub M p) HdX (psub_in_level M p Hp) (id_of_psub M p)).
  rewrite map_at_compose. apply map_at_ext. intros q Hq. unfold sel. rewrite id_of_psub.
  destruct (N.eqb_spec (id_of q) (id_of p)) as [E|Hne].
  - assert (q = p) as ->.
    { apply (NoDup_ids_inj t); [exact Hd | | | exact E]; apply (nodes_at_flatten d); assumption. }
    unfold psub. cbn [rmk]. f_equal. apply remove_first_flat; [exact HM|].
    assert (Hdp : NoDup (ids p)) by (apply (NoDup_ids_sub p t Hd); exact (nodes_at_flatten _ _ _ Hp)).
    destruct p as [pi pcs]. cbn [kids]. rewrite ids_node in Hdp. inversion Hdp as [|y l _ Hdk]; subst.
    clear - Hdk. induction pcs as [|a r IH]; [constructor|]. cbn in *. constructor.
    + intros Hin. apply in_map_iff in Hin as [b [Eb Hb]].
      apply (NoDup_app_disj _ _ (id_of a) Hdk); [apply id_in_ids|].
      apply in_flat_map. exists b. split; [exact Hb|]. rewrite <- Eb. apply id_in_ids.
    + apply IH. exact (NoDup_app_r _ _ Hdk).
  - unfold psub. f_equal. apply flat_map_ext_in. intros c Hc. unfold lk. cbn [assoc].
    destruct (N.eqb_spec (id_of c) (id_of n)) as [E|_]; [|reflexivity].
    exfalso. apply Hne. f_equal.
    apply (level_disjoint d t q p (id_of n) Hd Hq Hp).
    + rewrite <- E. apply in_flatten_ids. apply in_kids_flatten. exact Hc.
    + apply in_flatten_ids. apply in_kids_flatten. exact Hn.
Qed.

Lemma ids_set_url_of id u T : ids (set_url_of id u T) = ids T.
Proof. apply (ids_update id (seturl u)). apply ids_seturl. Qed.

(* the loop, from any intermediate state *)
Lemma pre_loop_gen : forall L2 M,
  (forall n par, In (n, par) L2 ->
     exists p, par = Some p /\ In p (nodes_at d t) /\ In n (kids p)
               /\ st_of n = Fresh /\ is_got (st_of p) = true /\ assoc (id_of n) M = None) ->
  NoDup (map (fun x => id_of (fst x)) L2) ->
  Mok M -> NoDup (ids (map_at d (psub M) t)) ->
  exists M',
    pre_loop o L2 (map_at d (psub M) t) = Ok (inr (map_at d (psub M') t))
    /\ Mok M' /\ NoDup (ids (map_at d (psub M') t))
    /\ (forall n p, In (n, Some p) L2 -> assoc (id_of n) M' = Some (pre_child o (st_of p) n))
    /\ (forall id, ~ In id (map (fun x => id_of (fst x)) L2) -> assoc id M' = assoc id M).
Proof.
  induction L2 as [|[n par] L2 IH]; intros M HL Hnd HM HdX.
  - exists M. split; [reflexivity|]. split; [exact HM|]. split; [exact HdX|]. split; [intros n p []|reflexivity].
  - destruct (HL n par (or_introl eq_refl)) as [p [-> [Hp [Hn [Hf [Hg Ha]]]]]].
    cbn [map fst] in Hnd. inversion Hnd as [|y l Hnin Hnd']; subst.
    (* the state after this item *)
    assert (Hnext : forall M1,
      Mok M1 -> NoDup (ids (map_at d (psub M1) t)) ->
      assoc (id_of n) M1 = Some (pre_child o (st_of p) n) ->
      (forall id, id <> id_of n -> assoc id M1 = assoc id M) ->
      exists M',
        pre_loop o L2 (map_at d (psub M1) t) = Ok (inr (map_at d (psub M') t))
        /\ Mok M' /\ NoDup (ids (map_at d (psub M') t))
        /\ (forall n0 p0, In (n0, Some p0) ((n, Some p) :: L2) -> assoc (id_of n0) M' = Some (pre_child o (st_of p0) n0))
        /\ (forall id, ~ In id (id_of n :: map (fun x => id_of (fst x)) L2) -> assoc id M' = assoc id M)).
    { intros M1 HM1 HdX1 Hn1 Hoth.
      destruct (IH M1) as [M' [E [HM' [HdX' [Hin Hout]]]]]; [| exact Hnd' | exact HM1 | exact HdX1 |].
      - intros n0 par0 H0. destruct (HL n0 par0 (or_intror H0)) as [p0 [-> [Hp0 [Hn0 [Hf0 [Hg0 Ha0]]]]]].
        exists p0. repeat split; try assumption. rewrite Hoth; [exact Ha0|].
        intros E0. apply Hnin. rewrite <- E0. apply (in_map (fun x => id_of (fst x)) L2 (n0, Some p0)). exact H0.
      - exists M'. split; [exact E|]. split; [exact HM'|]. split; [exact HdX'|]. split.
        + intros n0 p0 [H0|H0].
          * inversion H0; subst. rewrite Hout; [exact Hn1 | exact Hnin].
          * apply Hin. exact H0.
        + intros id Hid. rewrite Hout by (intros H; apply Hid; right; exact H).
          apply Hoth. intros E0. apply Hid. left. symmetry. exact E0. }
    cbn [pre_loop]. unfold st_of in Hf. unfold st_of at 1. rewrite Hf. cbn [status_eqb negb].
    assert (Hrm : forall M0, Mok M0 -> NoDup (ids (map_at d (psub M0) t)) ->
              (forall id, id <> id_of n -> assoc id M0 = assoc id M) ->
              pre_child o (st_of p) n = [] ->
              exists M',
                pre_loop o L2 (remove_child (id_of p) (id_of n) (map_at d (psub M0) t)) = Ok (inr (map_at d (psub M') t))
                /\ Mok M' /\ NoDup (ids (map_at d (psub M') t))
                /\ (forall n0 p0, In (n0, Some p0) ((n, Some p) :: L2) -> assoc (id_of n0) M' = Some (pre_child o (st_of p0) n0))
                /\ (forall id, ~ In id (id_of n :: map (fun x => id_of (fst x)) L2) -> assoc id M' = assoc id M)).
    { intros M0 HM0 HdX0 Hoth Hpc.
      pose proof (proj1 (H_remove_child_ids (id_of p) (id_of n) _ HdX0)) as HdR.
      rewrite (remove_step M0 p n HdX0 HM0 Hp Hn) in *.
      apply Hnext.
      - apply Mok_cons; [exact HM0 | cbn; lia | intros x []].
      - exact HdR.
      - cbn [assoc]. rewrite N.eqb_refl, Hpc. reflexivity.
      - intros id Hne. cbn [assoc]. destruct (N.eqb_spec id (id_of n)); [contradiction|]. apply Hoth. exact Hne. }
    unfold pre_child in Hnext, Hrm.
    destruct (o_pre o (id_of n)) as [|u ex ep] eqn:Eo.
    + apply (Hrm M HM HdX); [reflexivity|reflexivity].
    + assert (HdU : NoDup (ids (set_url_of (id_of n) u (map_at d (psub M) t)))) by (rewrite ids_set_url_of; exact HdX).
      rewrite (seturl_step M p n u HdX HM Hp Hn Ha) in *.
      assert (HMU : Mok ((id_of n, [seturl u n]) :: M)).
      { apply Mok_cons; [exact HM | cbn; lia | intros x [<-|[]]; apply id_of_seturl]. }
      assert (HothU : forall id, id <> id_of n -> assoc id ((id_of n, [seturl u n]) :: M) = assoc id M).
      { intros id Hne. cbn [assoc]. destruct (N.eqb_spec id (id_of n)); [contradiction|reflexivity]. }
      destruct ex.
      * rewrite Hg. apply (Hrm _ HMU HdU HothU). reflexivity.
      * destruct (status_eqb (st_of p) GotChildren && ep) eqn:Ec.
        -- apply (Hrm _ HMU HdU HothU). reflexivity.
        -- apply Hnext; [exact HMU | exact HdU | | exact HothU].
           cbn [assoc]. rewrite N.eqb_refl. reflexivity.
Qed.

Lemma pre_loop_struct :
  (forall p, In p (nodes_at d t) -> is_got (st_of p) = true \/ kids p = []) ->
  (forall n, In n (nodes_at (S d) t) -> st_of n = Fresh) ->
  pre_loop o (level_par (S d) None t) t = Ok (inr (map_at d (pre_par o) t))
  /\ NoDup (ids (map_at d (pre_par o) t)).
Proof.
  intros Hgot Hfresh.
  assert (E0 : map_at d (psub []) t = t).
  { rewrite <- (map_at_id d t) at 2. apply map_at_ext. intros [pi pcs] _. unfold psub. cbn [inf kids]. f_equal.
    unfold lk. cbn [assoc]. induction pcs as [|a r IH]; [reflexivity|]. cbn. f_equal. exact IH. }
  destruct (pre_loop_gen (level_par (S d) None t) []) as [M' [E [HM' [HdX' [Hin _]]]]].
  - intros n par H. rewrite level_par_S in H. apply in_flat_map in H as [p [Hp H]].
    apply in_map_iff in H as [c [Ec Hc]]. inversion Ec; subst. exists p.
    assert (Hnl : In n (nodes_at (S d) t)).
    { rewrite nodes_at_S. apply in_flat_map. exists p. split; assumption. }
    repeat split; try assumption; try reflexivity.
    + apply Hfresh. exact Hnl.
    + destruct (Hgot p Hp) as [H|H]; [exact H|]. rewrite H in Hc. destruct Hc.
  - rewrite level_par_S.
    assert (Em : map (fun x : item * option item => id_of (fst x))
                   (flat_map (fun p => map (fun c => (c, Some p)) (kids p)) (nodes_at d t))
                 = map id_of (nodes_at (S d) t)).
    { rewrite nodes_at_S, !map_flat_map. apply flat_map_ext_in. intros p _. rewrite map_map. reflexivity. }
    rewrite Em. apply NoDup_nodes_at. exact Hd.
  - intros id l H. discriminate H.
  - rewrite E0. exact Hd.
  - rewrite E0 in E. rewrite E.
    assert (Ex : map_at d (psub M') t = map_at d (pre_par o) t).
    { apply map_at_ext. intros p Hp. unfold psub, pre_par. f_equal. apply flat_map_ext_in. intros c Hc.
      unfold lk. rewrite (Hin c p); [reflexivity|]. rewrite level_par_S. apply in_flat_map. exists p.
      split; [exact Hp|]. apply (in_map (fun c0 => (c0, Some p))). exact Hc. }
    rewrite <- Ex. split; [reflexivity | exact HdX'].
Qed.
End PreLoop.

(* ---- prune of nodes that all sit at level S d ---- *)
Definition palive (dead : N -> bool) (p : item) : item :=
  Node (inf p) (filter (fun c => negb (dead (id_of c))) (kids p)).

Lemma id_of_prune dead t : id_of (prune dead t) = id_of t.
Proof. destruct t. reflexivity. Qed.

Lemma prune_level dead : forall d t,
  (forall lvl n, In n (nodes_at lvl t) -> (0 < lvl)%nat -> lvl <> S d -> dead (id_of n) = false) ->
  (forall n, In n (nodes_at (S d) t) -> kids n = []) ->
  prune dead t = map_at d (palive dead) t.
Proof.
  induction d as [|d IH]; intros [i cs] Hdead Hleaf.
  - cbn [prune map_at palive inf kids].
    assert (map (prune dead) cs = cs) as ->; [|reflexivity].
    rewrite <- (map_id cs) at 2. apply map_ext_in. intros x Hx.
    assert (kids x = []) as Hk.
    { apply Hleaf. cbn [nodes_at]. apply in_flat_map. exists x. split; [exact Hx|]. left. reflexivity. }
    destruct x as [j xs]. cbn in Hk. subst. reflexivity.
  - cbn [prune map_at]. f_equal.
    assert (Hf : forall l, (forall x, In x l -> dead (id_of x) = false) -> filter (fun c => negb (dead (id_of c))) l = l).
    { induction l as [|a r IHr]; intros H; [reflexivity|]. cbn. rewrite (H a (or_introl eq_refl)). cbn.
      f_equal. apply IHr. intros x Hx. apply H. right. exact Hx. }
    rewrite Hf.
    + apply map_ext_in. intros x Hx. apply IH.
      * intros lvl n Hn Hl Hne. apply (Hdead (S lvl) n); [|lia|congruence].
        cbn [nodes_at]. apply in_flat_map. exists x. split; assumption.
      * intros n Hn. apply Hleaf. change (nodes_at (S (S d)) (Node i cs)) with (flat_map (nodes_at (S d)) cs).
        apply in_flat_map. exists x. split; assumption.
    + intros x Hx. apply in_map_iff in Hx as [y [<- Hy]]. rewrite id_of_prune.
      apply (Hdead 1%nat y); [|lia|discriminate]. cbn [nodes_at]. apply in_flat_map. exists y.
      split; [exact Hy|]. left. reflexivity.
Qed.

(* ---- postprocess ---- *)
Definition addkid (from : status) (k : item) (m : item) : item :=
  match m with Node i cs =>
    Node (set_st from i) (cs ++ [match k with Node ci ccs => Node (set_st Fresh ci) ccs end]) end.

Fixpoint mkassets (s h : N) (us : list N) : list item :=
  match us with [] => [] | u :: r => new_child s u h 0 false :: mkassets (s + 1) h r end.

Definition akids (s h : N) (us : list N) (m : item) : item :=
  match us with [] => m | _ => Node (set_st GotChildren (inf m)) (kids m ++ mkassets s h us) end.

Lemma update_fuse D T n id F1 F2 :
  NoDup (ids T) -> In n (nodes_at D T) -> id_of n = id ->
  NoDup (ids (update id F1 T)) -> id_of (F1 n) = id ->
  update id F2 (update id F1 T) = update id (fun m => F2 (F1 m)) T.
Proof.
  intros Hd Hn Hid Hd1 Hid1.
  assert (H1 : In (F1 n) (nodes_at D (update id F1 T))).
  { rewrite (update_level id F1 D T n Hd Hn Hid), nodes_at_map_at.
    replace (F1 n) with (sel id F1 n) by (unfold sel; rewrite Hid, N.eqb_refl; reflexivity).
    apply in_map. exact Hn. }
  rewrite (update_level id F2 D _ (F1 n) Hd1 H1 Hid1).
  rewrite (update_level id F1 D T n Hd Hn Hid), (update_level id _ D T n Hd Hn Hid).
  rewrite map_at_compose. apply map_at_ext. intros m Hm. unfold sel.
  destruct (N.eqb_spec (id_of m) id) as [E|Hne].
  - assert (m = n) as ->.
    { apply (NoDup_ids_inj T); [exact Hd | | | congruence]; apply (nodes_at_flatten D); assumption. }
    rewrite Hid1, N.eqb_refl. reflexivity.
  - destruct (N.eqb_spec (id_of m) id); [contradiction|reflexivity].
Qed.

Section Post.
Hypothesis H_add_child_ids : add_child_ids_stmt.
Variable D : nat.

Definition idsOK (s : N) (T : item) : Prop := NoDup (ids T) /\ forall i, In i (ids T) -> i < s.

Lemma add_child_local T s n from k :
  idsOK s T -> In n (nodes_at D T) -> is_got from = true -> id_of k = s -> kids k = [] ->
  add_child (id_of n) k from T = Some (update (id_of n) (addkid from k) T)
  /\ idsOK (s + 1) (update (id_of n) (addkid from k) T).
Proof.
  intros [Hd Hb] Hn Hg Hk Hkk.
  assert (E : add_child (id_of n) k from T = Some (update (id_of n) (addkid from k) T)).
  { unfold add_child. rewrite Hg. reflexivity. }
  split; [exact E|].
  destruct (H_add_child_ids (id_of n) k from T (update (id_of n) (addkid from k) T) Hd) as [Hd' Hincl]; [| exact Hkk | exact E |].
  - rewrite Hk. intros Hin. specialize (Hb _ Hin). lia.
  - split; [exact Hd'|]. intros i Hi. apply Hincl in Hi. destruct Hi as [<-|Hi]; [lia|].
    specialize (Hb _ Hi). lia.
Qed.

Lemma add_assets_local h : forall us T s n,
  idsOK s T -> In n (nodes_at D T) ->
  add_assets (id_of n) h us T s = (update (id_of n) (akids s h us) T, s + N.of_nat (length us))
  /\ idsOK (s + N.of_nat (length us)) (update (id_of n) (akids s h us) T).
Proof.
  induction us as [|u r IH]; intros T s n HI Hn.
  - cbn [add_assets length akids]. change (update (id_of n) (fun m => m) T) with (update (id_of n) (fun m : item => m) T).
    rewrite update_ident. rewrite N.add_0_r. split; [reflexivity | exact HI].
  - cbn [add_assets].
    destruct (add_child_local T s n GotChildren (new_child s u h 0 false) HI Hn eq_refl eq_refl eq_refl) as [E HI1].
    rewrite E. set (F1 := addkid GotChildren (new_child s u h 0 false)) in *.
    assert (Hn1 : In (F1 n) (nodes_at D (update (id_of n) F1 T))).
    { rewrite (update_level (id_of n) F1 D T n (proj1 HI) Hn eq_refl), nodes_at_map_at.
      replace (F1 n) with (sel (id_of n) F1 n) by (unfold sel; rewrite N.eqb_refl; reflexivity).
      apply in_map. exact Hn. }
    assert (Hid1 : id_of (F1 n) = id_of n) by (destruct n; reflexivity).
    destruct (IH _ (s + 1) (F1 n) HI1 Hn1) as [E2 HI2]. rewrite Hid1 in E2, HI2.
    assert (Ef : update (id_of n) (akids (s + 1) h r) (update (id_of n) F1 T)
                 = update (id_of n) (akids s h (u :: r)) T).
    { rewrite (update_fuse D T n (id_of n) F1 _ (proj1 HI) Hn eq_refl (proj1 HI1) Hid1).
      rewrite (update_level (id_of n) _ D T n (proj1 HI) Hn eq_refl), (update_level (id_of n) _ D T n (proj1 HI) Hn eq_refl).
      apply map_at_ext. intros m _. unfold sel. destruct (id_of m =? id_of n); [|reflexivity].
      destruct m as [mi mcs]. unfold F1. destruct r as [|u' r'].
      - reflexivity.
      - cbn [akids addkid inf kids mkassets new_child]. rewrite <- app_assoc. reflexivity. }
    rewrite Ef in E2, HI2.
    replace (s + N.of_nat (length (u :: r))) with (s + 1 + N.of_nat (length r)) by (cbn [length]; lia).
    split; [exact E2 | exact HI2].
Qed.

Variable c : cfg.
Variable o : oracle.

(* what postprocessItem does to node [n] itself, and the id counter afterwards *)
Definition post_F (d : nat) (n : item) (s : N) : (item -> item) * N :=
  if negb (status_eqb (st_of n) Archived) then (fun m => m, s) else
  match o_fetch o (id_of n) with
  | None => (fun m => m, s)
  | Some r =>
    if r_redirect r then
      if max_redirect c <=? nredir (inf n) then (setst Completed, s)
      else (addkid GotRedirected (new_child s (r_loc r) (nhops (inf n)) (nredir (inf n) + 1) false), s + 1)
    else if negb (domains_crawl c) && Nat.ltb 3 d then (setst Completed, s)
    else if negb (domains_crawl c) && Nat.eqb d 2 && r_html r then (setst Completed, s)
    else if disable_assets c && negb (domains_crawl c) then (setst Completed, s)
    else
      let assets := if r_ok200 r && negb (disable_assets c) then r_assets r else [] in
      match assets with
      | [] => (setst Completed, s)
      | _ => (akids s (nhops (inf n)) assets, s + N.of_nat (length assets))
      end
  end.

Lemma post_item_local d n T s :
  idsOK s T -> In n (nodes_at D T) ->
  post_item c o d n (T, s) = (update (id_of n) (fst (post_F d n s)) T, snd (post_F d n s))
  /\ idsOK (snd (post_F d n s)) (update (id_of n) (fst (post_F d n s)) T)
  /\ s <= snd (post_F d n s)
  /\ id_of (fst (post_F d n s) n) = id_of n.
Proof.
  intros HI Hn. unfold post_item, post_F.
  assert (Hid : idsOK s (update (id_of n) (fun m => m) T)) by (rewrite update_ident; exact HI).
  assert (Hset : forall st, idsOK s (update (id_of n) (setst st) T)).
  { intros st. destruct HI as [Hd Hb]. split; rewrite ids_update by apply ids_setst; assumption. }
  destruct (status_eqb (st_of n) Archived); cbn [negb fst snd].
  2:{ rewrite update_ident. repeat split; try exact (proj1 HI); try exact (proj2 HI); lia. }
  destruct (o_fetch o (id_of n)) as [r|]; cbn [fst snd].
  2:{ rewrite update_ident. repeat split; try exact (proj1 HI); try exact (proj2 HI); lia. }
  destruct (r_redirect r).
  - destruct (max_redirect c <=? nredir (inf n)); cbn [fst snd].
    + split; [reflexivity|]. split; [apply Hset|]. split; [lia | apply id_of_setst].
    + destruct (add_child_local T s n GotRedirected
                  (new_child s (r_loc r) (nhops (inf n)) (nredir (inf n) + 1) false) HI Hn eq_refl eq_refl eq_refl) as [E HI1].
      rewrite E. split; [reflexivity|]. split; [exact HI1|]. split; [lia | destruct n; reflexivity].
  - destruct (negb (domains_crawl c) && Nat.ltb 3 d); cbn [fst snd].
    { split; [reflexivity|]. split; [apply Hset|]. split; [lia | apply id_of_setst]. }
    destruct (negb (domains_crawl c) && Nat.eqb d 2 && r_html r); cbn [fst snd].
    { split; [reflexivity|]. split; [apply Hset|]. split; [lia | apply id_of_setst]. }
    destruct (disable_assets c && negb (domains_crawl c)); cbn [fst snd].
    { split; [reflexivity|]. split; [apply Hset|]. split; [lia | apply id_of_setst]. }
    destruct (if r_ok200 r && negb (disable_assets c) then r_assets r else []) as [|a l] eqn:Ea; cbn [fst snd].
    { split; [reflexivity|]. split; [apply Hset|]. split; [lia | apply id_of_setst]. }
    destruct (add_assets_local (nhops (inf n)) (a :: l) T s n HI Hn) as [E HI1].
    rewrite E. split; [reflexivity|]. split; [exact HI1|]. split; [lia | destruct n; reflexivity].
Qed.

Lemma postprocess_struct t next :
  max_depth t = D -> idsOK next t ->
  exists done next',
    postprocess c o t next = (map_at D (subst done) t, next')
    /\ idsOK next' (map_at D (subst done) t) /\ next <= next'
    /\ forall m, In m (nodes_at D t) ->
         exists s, next <= s /\ subst done m = fst (post_F (lookupN (id_of m) (dwr_all t)) m s) m.
Proof.
  intros HD HI. unfold postprocess. rewrite HD. set (dw := dwr_all t).
  pose (step := fun (n : item) (st : item * N) => post_item c o (lookupN (id_of n) dw) n st).
  pose (R := fun (s : N) (n n' : item) (_ : N) => next <= s /\ n' = fst (post_F (lookupN (id_of n) dw) n s) n).
  pose (I := fun (s : N) (T : item) => idsOK s T /\ next <= s).
  assert (Hnd : forall s T, I s T -> NoDup (ids T)) by (intros s T [[H _] _]; exact H).
  assert (Hstep : forall s n T, I s T -> In n (nodes_at D T) ->
            exists F s', step n (T, s) = (update (id_of n) F T, s')
                         /\ R s n (F n) s' /\ id_of (F n) = id_of n /\ I s' (update (id_of n) F T)).
  { intros s n T [HI1 Hle] Hn.
    destruct (post_item_local (lookupN (id_of n) dw) n T s HI1 Hn) as [E [HI2 [Hle2 Hid]]].
    exists (fst (post_F (lookupN (id_of n) dw) n s)), (snd (post_F (lookupN (id_of n) dw) n s)).
    split; [exact E|]. split; [split; [exact Hle | reflexivity]|]. split; [exact Hid|].
    split; [exact HI2 | lia]. }
  destruct (fold_local D step R I Hnd Hstep t next (proj1 HI)) as [done [s' [Ef [[HI' Hle'] [_ Hspec]]]]].
  { split; [exact HI | lia]. }
  exists done, s'. split; [exact Ef|]. split; [exact HI'|]. split; [exact Hle'|].
  intros m Hm. destruct (Hspec m Hm) as [s1 [s2 [H1 H2]]]. exists s1. split; assumption.
Qed.
End Post.
