(* The archiver works on the nodes of the working level concurrently (per-worker asset concurrency
   --max-concurrent-assets: one goroutine per item, bounded by a semaphore, each writing the status
   of ITS OWN node when its fetch has ended; internal/pkg/archiver/archiver.go archive()).
   Stage/Pass.v models the stage as a fold over the level in document order.  This file shows that
   the order is irrelevant: whatever order the goroutines complete in - hence for every
   concurrency bound and every interleaving of the fetches - the resulting tree is the one the
   model computes. *)
From Coq Require Import Lia Permutation.
From ZenoV Require Import Tree.Item Stage.Pass Stage.TreeLemmas.
Open Scope N_scope.

Definition arch_step (o : oracle) (t : item) (n : item) : item :=
  if status_eqb (st_of n) PreProcessed
  then set_status (id_of n) (match o_fetch o (id_of n) with Some _ => Archived | None => Failed end) t
  else t.

Lemma archive_is_fold o t : archive o t = fold_left (arch_step o) (nodes_at (max_depth t) t) t.
Proof. reflexivity. Qed.

(* two status writes to different nodes commute *)
Lemma set_status_comm a b s1 s2 : a <> b -> forall t,
  set_status a s1 (set_status b s2 t) = set_status b s2 (set_status a s1 t).
Proof.
  intros Hab. unfold set_status. apply item_ind2. intros i cs IH.
  cbn [update].
  assert (Hmap : map (update a (fun n => match n with Node i0 cs0 => Node (set_st s1 i0) cs0 end))
                     (map (update b (fun n => match n with Node i0 cs0 => Node (set_st s2 i0) cs0 end)) cs)
               = map (update b (fun n => match n with Node i0 cs0 => Node (set_st s2 i0) cs0 end))
                     (map (update a (fun n => match n with Node i0 cs0 => Node (set_st s1 i0) cs0 end)) cs)).
  { rewrite !map_map. apply map_ext_in. intros c Hc. rewrite Forall_forall in IH. exact (IH c Hc). }
  destruct (nid i =? b) eqn:Eb; destruct (nid i =? a) eqn:Ea; cbn [update set_st nid];
    rewrite ?Ea, ?Eb; cbn [update set_st nid]; rewrite ?Ea, ?Eb; try rewrite Hmap; try reflexivity.
  apply N.eqb_eq in Ea, Eb. congruence.
Qed.

Lemma arch_step_comm o a b t : id_of a <> id_of b -> arch_step o (arch_step o t a) b = arch_step o (arch_step o t b) a.
Proof.
  intros H. unfold arch_step.
  destruct (status_eqb (st_of a) PreProcessed); destruct (status_eqb (st_of b) PreProcessed); try reflexivity.
  apply set_status_comm. congruence.
Qed.

Lemma fold_left_perm {A B} (F : A -> B -> A) (l l' : list B) :
  Permutation l l' ->
  (forall x y t, In x l -> In y l -> F (F t x) y = F (F t y) x) ->
  forall t, fold_left F l t = fold_left F l' t.
Proof.
  induction 1 as [|x l l' P IH|x y l|l l' l'' P1 IH1 P2 IH2]; intros HC t.
  - reflexivity.
  - simpl. apply IH. intros a b t0 Ha Hb. apply HC; simpl; auto.
  - simpl. rewrite (HC y x t); simpl; auto.
  - rewrite IH1 by exact HC. apply IH2. intros a b t0 Ha Hb.
    apply HC; eapply Permutation_in; try apply Permutation_sym; eauto.
Qed.

Lemma NoDup_map_inj {A B} (f : A -> B) l x y : NoDup (map f l) -> In x l -> In y l -> f x = f y -> x = y.
Proof.
  induction l as [|a r IH]; simpl; intros ND Hx Hy E; [destruct Hx|].
  inversion ND; subst.
  destruct Hx as [<-|Hx]; destruct Hy as [<-|Hy]; auto.
  - exfalso. apply H1. rewrite E. apply in_map. exact Hy.
  - exfalso. apply H1. rewrite <- E. apply in_map. exact Hx.
Qed.

(* The archiver stage does not depend on the order in which the per-item goroutines finish:
   for every tree with unique ids and EVERY permutation of the working level. *)
Theorem archive_order_irrelevant o t ns :
  NoDup (ids t) -> Permutation (nodes_at (max_depth t) t) ns ->
  fold_left (arch_step o) ns t = archive o t.
Proof.
  intros ND P. rewrite archive_is_fold. symmetry. apply fold_left_perm; [exact P|].
  intros x y t0 Hx Hy.
  destruct (N.eq_dec (id_of x) (id_of y)) as [E|E].
  - assert (x = y) by exact (NoDup_map_inj id_of (nodes_at (max_depth t) t) x y (NoDup_nodes_at _ _ ND) Hx Hy E).
    subst. reflexivity.
  - apply arch_step_comm. exact E.
Qed.

(* non-vacuity: a page with three pre-processed assets, fetched in reverse order *)
Example archive_order_example :
  let t := Node (Info 0 10 GotChildren false 0 0)
             [Node (Info 1 11 PreProcessed false 0 0) []; Node (Info 2 12 PreProcessed false 0 0) [];
              Node (Info 3 13 Seen false 0 0) []; Node (Info 4 14 PreProcessed false 0 0) []] in
  let o := Oracle (fun _ => PNormFail) (fun _ => false) (fun _ => false)
                  (fun id => if id =? 2 then None else Some (Resp false 0 true false [])) in
  fold_left (arch_step o) (rev (nodes_at (max_depth t) t)) t = archive o t
  /\ map st_of (kids (archive o t)) = [Archived; Failed; Seen; Archived].
Proof. split; vm_compute; reflexivity. Qed.
