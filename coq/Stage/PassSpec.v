(* Statements about the stage model (Stage/Pass.v).  Definitions only; proved in PassProofs.v
   as lemmas of exactly these types. *)
From ZenoV Require Export Tree.Item Tree.ItemSpec Stage.Pass.
Open Scope N_scope.

(* level discipline between passes (the seed sits in the reactor / on the feedback path):
   with D = max depth, every node at depth D is Fresh and every shallower node is not pending *)
Definition level_ok (t : item) : Prop :=
  forall lvl n, In n (nodes_at lvl t) ->
    (lvl = max_depth t -> st_of n = Fresh) /\ ((lvl < max_depth t)%nat -> pending_st (st_of n) = false).

(* the invariant of a seed that is in flight and not being worked on by a stage *)
Definition Inv (t : item) (next : N) : Prop :=
  NoDup (ids t)
  /\ (forall i, In i (ids t) -> i < next)
  /\ check_consistency t = 0%nat
  /\ level_ok t
  /\ closed t = true
  /\ has_work t = true
  /\ NoDup (worked_urls t).

Definition seed0_inv_stmt : Prop := forall u hops, Inv (fst (seed0 u hops)) (snd (seed0 u hops)).

(* one pass, for every oracle (= every site behaviour, every seen-store answer, every filter
   configuration): no stage panics; if the finisher feeds the seed back the invariant holds again;
   if it finishes the seed, nothing in the tree still awaits fetching or post-processing; ids only
   grow; nothing that was worked on is lost *)
Definition pass_preserves_stmt : Prop := forall c o t next,
  Inv t next ->
  exists t' next' d,
    pass c o (t, next) = Ok (t', next', d)
    /\ next <= next'
    /\ (d = DFeedback -> Inv t' next' /\ (max_depth t' = S (max_depth t))%nat)
    /\ (d = DFinish -> no_pending t' = true /\ check_consistency t' = 0%nat /\ NoDup (ids t')).

(* a seed's whole life, for every list of oracles: never a panic, well-formed throughout,
   finished only when the whole tree is done *)
Definition run_passes_stmt : Prop := forall c os u hops,
  exists t next d,
    run_passes c os (seed0 u hops) = Ok (t, next, d)
    /\ check_consistency t = 0%nat /\ NoDup (ids t)
    /\ (d = DFinish -> no_pending t = true)
    /\ (d = DFeedback -> Inv t next).

(* ---- C06: bounded work ---- *)
(* length of the run of redirect edges ending at each node equals its redirect counter, hence
   no chain exceeds max_redirect *)
Fixpoint redir_ok (c : cfg) (chain : N) (t : item) : bool :=
  match t with
  | Node i cs =>
    (nredir i =? chain) && (nredir i <=? max_redirect c)
    && forallb (fun k => redir_ok c (if status_eqb (nst i) GotRedirected then chain + 1 else 0) k) cs
  end.

(* depth without redirections (+1) of every node is at most 4, i.e. assets at most 3 levels
   below the page, when domains crawl is off *)
Definition depth_ok (t : item) : bool :=
  forallb (fun '(_, d) => Nat.leb d 4) (dwr_all t).

Definition InvB (c : cfg) (t : item) (next : N) : Prop :=
  Inv t next /\ redir_ok c 0 t = true /\ (domains_crawl c = false -> depth_ok t = true).

Definition pass_preserves_bounds_stmt : Prop := forall c o t next t' next',
  InvB c t next -> pass c o (t, next) = Ok (t', next', DFeedback) -> InvB c t' next'.

(* every seed is finished after a bounded number of passes, whatever the site answers:
   max depth grows by one per fed-back pass and is bounded by the two limits above *)
Definition passes_bounded_stmt : Prop := forall c os u hops,
  domains_crawl c = false ->
  (length os > 4 * (N.to_nat (max_redirect c) + 1) + 1)%nat ->
  exists t next, run_passes c os (seed0 u hops) = Ok (t, next, DFinish).
