(* Statements about the stage model (Stage/Pass.v).  Definitions only; proved in PassProofs.v
   as lemmas of exactly these types. *)
From ZenoV Require Export Tree.Item Tree.ItemSpec Stage.Pass.
Open Scope N_scope.

(* level discipline between passes (the seed sits in the reactor / on the feedback path):
   with D = max depth, every node at depth D is Fresh and every shallower node is not pending *)
Definition level_ok (t : item) : Prop :=
  forall lvl n, In n (nodes_at lvl t) ->
    (lvl = max_depth t -> st_of n = Fresh) /\ ((lvl < max_depth t)%nat -> pending_st (st_of n) = false).

(* the invariant of a seed that is in flight and not being worked on by a stage *)
Definition Inv (t : item) (next : N) : Prop :=
  NoDup (ids t)
  /\ (forall i, In i (ids t) -> i < next)
  /\ check_consistency t = 0%nat
  /\ level_ok t
  /\ closed t = true
  /\ has_work t = true
  /\ NoDup (worked_urls t).

Definition seed0_inv_stmt : Prop := forall u hops, Inv (fst (seed0 u hops)) (snd (seed0 u hops)).

(* one pass, for every oracle (= every site behaviour, every seen-store answer, every filter
   configuration): no stage panics; if the finisher feeds the seed back the invariant holds again;
   if it finishes the seed, nothing in the tree still awaits fetching or post-processing; ids only
   grow; nothing that was worked on is lost *)
Definition pass_preserves_stmt : Prop := forall c o t next,
  Inv t next ->
  exists t' next' d,
    pass c o (t, next) = Ok (t', next', d)
    /\ next <= next'
    /\ (d = DFeedback -> Inv t' next' /\ (max_depth t' = S (max_depth t))%nat)
    /\ (d = DFinish -> no_pending t' = true /\ check_consistency t' = 0%nat /\ NoDup (ids t')).

(* a seed's whole life, for every list of oracles: never a panic, well-formed throughout,
   finished only when the whole tree is done *)
Definition run_passes_stmt : Prop := forall c os u hops,
  exists t next d,
    run_passes c os (seed0 u hops) = Ok (t, next, d)
    /\ check_consistency t = 0%nat /\ NoDup (ids t)
    /\ (d = DFinish -> no_pending t = true)
    /\ (d = DFeedback -> Inv t next).

(* ---- C06: bounded work ---- *)
(* First formulation (written before any proof attempt), kept for the record.  It identified a
   redirect edge by the parent's status GotRedirected and measured the depth by
   GetDepthWithoutRedirections, i.e. by statuses.  Both are FALSE for reachable trees: once a
   redirect node is marked Completed (its target is done) while another branch of the same seed
   is still being worked on, the status no longer tells that the edge below it was a redirect
   (counter 1 below a Completed node; the former redirect node now counts as an asset level).
   Smallest witness: seed -> assets {B, C}; B answers 301 -> B'; C has an asset C'; next pass B'
   has no assets (so B', then B are Completed) while C' has an asset, so the seed is fed back with
   B Completed above B' (nredir 1).  See [redir_ok_orig_refuted] / [depth_ok_orig_refuted] in
   PassProofs.v.  This is a defect of the first statement, not of the Go code: the code evaluates
   both quantities only on Archived nodes, all of whose ancestors are still GotRedirected /
   GotChildren. *)
Fixpoint redir_ok_orig (c : cfg) (chain : N) (t : item) : bool :=
  match t with
  | Node i cs =>
    (nredir i =? chain) && (nredir i <=? max_redirect c)
    && forallb (fun k => redir_ok_orig c (if status_eqb (nst i) GotRedirected then chain + 1 else 0) k) cs
  end.
Definition depth_ok_orig (t : item) : bool :=
  forallb (fun '(_, d) => Nat.leb d 4) (dwr_all t).

(* Repaired formulation.  The redirect counter of the seed is 0; below a node that still is
   GotRedirected the counter is the parent's + 1, below a node that still is GotChildren it is 0;
   below a node that was completed in the meantime it is one of the two (the edge is a redirect
   edge iff the child's counter is not 0 - assets are created with counter 0, redirect targets
   with the parent's counter + 1 >= 1).  Hence the counter of every node is the length of the run
   of redirect edges ending at it, and no run is longer than max_redirect. *)
Fixpoint redir_ok (c : cfg) (par : option info) (t : item) : bool :=
  match t with
  | Node i cs =>
    (nredir i <=? max_redirect c)
    && match par with
       | None => nredir i =? 0
       | Some p => match nst p with
                   | GotRedirected => nredir i =? nredir p + 1
                   | GotChildren => nredir i =? 0
                   | _ => (nredir i =? 0) || (nredir i =? nredir p + 1)
                   end
       end
    && forallb (redir_ok c (Some i)) cs
  end.

(* asset depth = number of asset edges (edges into a node with counter 0) on the path from the
   seed; [ad] is the value of this node.  At most [bound] everywhere. *)
Fixpoint adepth_ok (bound ad : nat) (t : item) : bool :=
  match t with
  | Node i cs =>
    Nat.leb ad bound
    && forallb (fun k => adepth_ok bound (if nredir (inf k) =? 0 then S ad else ad) k) cs
  end.

(* the status-based depth of the code (GetDepthWithoutRedirections + 1) of every node that still
   awaits fetching or post-processing is at most 4: nothing deeper than 3 asset levels is fetched *)
Fixpoint pending_depth_ok (d : nat) (t : item) : bool :=   (* d = this node's value + 1 *)
  match t with
  | Node i cs => (negb (pending_st (nst i)) || Nat.leb d 4)
                 && forallb (fun k => pending_depth_ok (dwr_child d k) k) cs
  end.

Definition InvB (c : cfg) (t : item) (next : N) : Prop :=
  Inv t next /\ redir_ok c None t = true /\ (domains_crawl c = false -> adepth_ok 3 0 t = true).

Definition pass_preserves_bounds_stmt : Prop := forall c o t next t' next',
  InvB c t next -> pass c o (t, next) = Ok (t', next', DFeedback) -> InvB c t' next'.

(* every seed is finished after a bounded number of passes, whatever the site answers:
   max depth grows by one per fed-back pass and is bounded by the two limits above *)
Definition passes_bounded_stmt : Prop := forall c os u hops,
  domains_crawl c = false ->
  (length os > 4 * (N.to_nat (max_redirect c) + 1) + 1)%nat ->
  exists t next, run_passes c os (seed0 u hops) = Ok (t, next, DFinish).

(* the exact bound: 4 * (max_redirect + 1) passes suffice (and are needed, see
   [passes_bound_tight_example] in PassProofs.v) *)
Definition passes_bounded_tight_stmt : Prop := forall c os u hops,
  domains_crawl c = false ->
  (length os >= 4 * (N.to_nat (max_redirect c) + 1))%nat ->
  exists t next, run_passes c os (seed0 u hops) = Ok (t, next, DFinish).

(* ---- stage boundaries of one pass ---- *)
Definition wf (t : item) : Prop := NoDup (ids t) /\ check_consistency t = 0%nat.

(* every stage of the pass runs without panic and hands a well-formed tree to the next one; the
   finisher says Finish iff nothing in the tree it received is pending *)
Definition pass_stages_stmt : Prop := forall c o t next,
  Inv t next ->
  exists t1 t2 t3 next' t4 d,
    pre_worker o t = Ok t1 /\ arch_worker o t1 = Ok t2
    /\ post_worker c o t2 next = Ok (t3, next') /\ fin_worker t3 = Ok (t4, d)
    /\ pass c o (t, next) = Ok (t4, next', d)
    /\ wf t1 /\ wf t2 /\ wf t3 /\ wf t4
    /\ (d = DFinish <-> no_pending t3 = true)
    /\ no_pending t4 = no_pending t3.

(* C06 at the stage boundaries: no node that awaits fetching or post-processing lies deeper than
   3 asset levels *)
Definition pass_depth_stmt : Prop := forall c o t next t1 t2 t3 next',
  InvB c t next -> domains_crawl c = false ->
  pre_worker o t = Ok t1 -> arch_worker o t1 = Ok t2 -> post_worker c o t2 next = Ok (t3, next') ->
  pending_depth_ok (dwr_seed t1) t1 = true /\ pending_depth_ok (dwr_seed t2) t2 = true
  /\ pending_depth_ok (dwr_seed t3) t3 = true.

(* C06 at the stage boundaries: the redirect counters are exact and no chain exceeds max_redirect *)
Definition pass_redirects_stmt : Prop := forall c o t next t1 t2 t3 next' t4 d,
  InvB c t next ->
  pre_worker o t = Ok t1 -> arch_worker o t1 = Ok t2 -> post_worker c o t2 next = Ok (t3, next') ->
  fin_worker t3 = Ok (t4, d) ->
  redir_ok c None t1 = true /\ redir_ok c None t2 = true /\ redir_ok c None t3 = true /\ redir_ok c None t4 = true.

(* ---- no URL is fetched twice within one seed's tree ---- *)
(* (id, url) of the non-seed nodes the archiver is going to fetch in this pass *)
Definition fetched (t : item) : list (N * N) :=
  map (fun n => (id_of n, url_of n))
      (filter (fun n => status_eqb (st_of n) PreProcessed) (nonseed_nodes t)).

Fixpoint run_fetched (c : cfg) (os : list oracle) (st : item * N) : list (N * N) :=
  match os with
  | [] => []
  | o :: r =>
    match pre_worker o (fst st) with
    | Ok t1 => fetched t1 ++ match pass c o st with
                             | Ok (t, next, DFeedback) => run_fetched c r (t, next)
                             | _ => []
                             end
    | Panic _ => []
    end
  end.

(* over the whole life of a seed, whatever the oracles answer: no non-seed node is fetched twice
   and no URL is fetched by two non-seed nodes *)
Definition fetch_once_stmt : Prop := forall c os u hops,
  NoDup (map fst (run_fetched c os (seed0 u hops)))
  /\ NoDup (map snd (run_fetched c os (seed0 u hops))).
